/-
C01, part 2: what `FromStr` needs from `collect_orbits` on a complete D-set whose
operations are involutions — every chamber receives an orbit number that indexes
`orbit_rs`, every recorded orbit length is positive, and the walking loop returns to its
start chamber within `size` rounds (pigeonhole), so the model's fuel is never exhausted.
-/
import DSymVerif.Model.Text
import DSymVerif.Proofs.DSetBasic
import Mathlib.Data.Finset.Card
import Mathlib.Order.Interval.Finset.Nat

namespace DSymVerif.Text
open DSymVerif DSymVerif.DS

/-! ### iterating a permutation of 1..n returns to the start within n steps -/

def iter (f : Nat → Nat) : Nat → Nat → Nat
  | 0, x => x
  | k + 1, x => iter f k (f x)

theorem iter_succ' (f : Nat → Nat) (k x : Nat) : iter f (k + 1) x = f (iter f k x) := by
  induction k generalizing x with
  | zero => rfl
  | succ k ih => rw [iter, ih (f x)]; rfl

theorem iter_add (f : Nat → Nat) (a b x : Nat) : iter f (a + b) x = iter f a (iter f b x) := by
  induction b generalizing x with
  | zero => rfl
  | succ b ih => rw [← Nat.add_assoc, iter, ih, iter]

theorem exists_return {n : Nat} {f : Nat → Nat}
    (hmap : ∀ x, 1 ≤ x → x ≤ n → 1 ≤ f x ∧ f x ≤ n)
    (hinj : ∀ x y, 1 ≤ x → x ≤ n → 1 ≤ y → y ≤ n → f x = f y → x = y)
    {d : Nat} (h1 : 1 ≤ d) (h2 : d ≤ n) : ∃ k, 1 ≤ k ∧ k ≤ n ∧ iter f k d = d := by
  have hrange : ∀ k x, 1 ≤ x → x ≤ n → 1 ≤ iter f k x ∧ iter f k x ≤ n := by
    intro k
    induction k with
    | zero => intro x a b; exact ⟨a, b⟩
    | succ k ih => intro x a b; rw [iter]; exact ih (f x) (hmap x a b).1 (hmap x a b).2
  have hcancel : ∀ a x y, 1 ≤ x → x ≤ n → 1 ≤ y → y ≤ n → iter f a x = iter f a y → x = y := by
    intro a
    induction a with
    | zero => intro x y _ _ _ _ h; exact h
    | succ a ih =>
      intro x y hx1 hx2 hy1 hy2 h
      rw [iter_succ', iter_succ'] at h
      exact ih x y hx1 hx2 hy1 hy2
        (hinj _ _ (hrange a x hx1 hx2).1 (hrange a x hx1 hx2).2 (hrange a y hy1 hy2).1 (hrange a y hy1 hy2).2 h)
  have hc : (Finset.Icc 1 n).card < (Finset.range (n + 1)).card := by simp
  have hm : Set.MapsTo (fun k => iter f k d) (Finset.range (n + 1) : Set Nat) (Finset.Icc 1 n : Set Nat) := by
    intro k _
    simp only [Finset.coe_Icc, Set.mem_Icc]
    exact hrange k d h1 h2
  obtain ⟨a, ha, b, hb, hab, heq⟩ := Finset.exists_ne_map_eq_of_card_lt_of_maps_to hc hm
  simp only [Finset.mem_range] at ha hb
  have key : ∀ a b, a < b → b < n + 1 → iter f a d = iter f b d → ∃ k, 1 ≤ k ∧ k ≤ n ∧ iter f k d = d := by
    intro a b hlt hbn h
    refine ⟨b - a, by omega, by omega, ?_⟩
    have hb' : b = a + (b - a) := by omega
    rw [hb', iter_add] at h
    exact (hcancel a d _ h1 h2 (hrange (b - a) d h1 h2).1 (hrange (b - a) d h1 h2).2 h).symm
  rcases Nat.lt_or_gt_of_ne hab with hlt | hgt
  · exact key a b hlt hb heq
  · exact key b a hgt ha heq.symm

/-! ### `foldl` over `List.range` with an invariant -/

theorem foldl_range_inv {σ : Type} (f : σ → Nat → σ) (P : Nat → σ → Prop) (n : Nat) (init : σ)
    (h0 : P 0 init) (hstep : ∀ k s, k < n → P k s → P (k + 1) (f s k)) :
    P n ((List.range n).foldl f init) := by
  induction n with
  | zero => exact h0
  | succ n ih =>
    rw [List.range_succ, List.foldl_append]
    exact hstep n _ (Nat.lt_succ_self n)
      (ih (fun k s hk hp => hstep k s (Nat.lt_succ_of_lt hk) hp))

/-! ### Boolean / Nat arrays -/

theorem getDb_set (a : Array Bool) (i j : Nat) (v : Bool) :
    (a.setIfInBounds i v).getD j false = if i = j ∧ i < a.size then v else a.getD j false := by
  simp only [Array.getD_eq_getD_getElem?, Array.getElem?_setIfInBounds]
  by_cases h : i = j
  · subst h
    by_cases h2 : i < a.size
    · simp [h2]
    · simp [h2]
  · simp [h]

theorem getDn_set (a : Array Nat) (i j v : Nat) :
    (a.setIfInBounds i v).getD j 0 = if i = j ∧ i < a.size then v else a.getD j 0 := by
  simp only [Array.getD_eq_getD_getElem?, Array.getElem?_setIfInBounds]
  by_cases h : i = j
  · subst h
    by_cases h2 : i < a.size
    · simp [h2]
    · simp [h2]
  · simp [h]

/-! ### the walking loop of `collect_orbits` -/

/-- one round of the walk: `e ↦ op_{i+1}(op_i(e))` -/
def stepF (ds : DSetData) (i : Nat) (e : Nat) : Nat := ds.opU (i + 1) (ds.opU i e)

theorem collectLoop_succ (ds : DSetData) (i d nr fuel e steps : Nat) (ch : Bool) (ix : Array Nat)
    (seen : Array Bool) :
    collectLoop ds i d nr (fuel + 1) e steps ch ix seen =
      if stepF ds i e = d then
        (steps + 1, (ch || ds.opU i e == e) || stepF ds i e == ds.opU i e,
          (ix.setIfInBounds (ds.opU i e) nr).setIfInBounds (stepF ds i e) nr,
          (seen.setIfInBounds (ds.opU i e) true).setIfInBounds (stepF ds i e) true)
      else
        collectLoop ds i d nr fuel (stepF ds i e) (steps + 1)
          ((ch || ds.opU i e == e) || stepF ds i e == ds.opU i e)
          ((ix.setIfInBounds (ds.opU i e) nr).setIfInBounds (stepF ds i e) nr)
          ((seen.setIfInBounds (ds.opU i e) true).setIfInBounds (stepF ds i e) true) := by
  rfl

/-- what one call of the walking loop does to the tables, whatever the D-set -/
theorem collectLoop_frame (ds : DSetData) (i d nr : Nat) : ∀ (fuel e steps : Nat) (ch : Bool)
    (ix : Array Nat) (seen : Array Bool), ix.size = seen.size →
    (collectLoop ds i d nr fuel e steps ch ix seen).2.2.1.size = ix.size ∧
    (collectLoop ds i d nr fuel e steps ch ix seen).2.2.2.size = seen.size ∧
    steps ≤ (collectLoop ds i d nr fuel e steps ch ix seen).1 ∧
    (1 ≤ fuel → steps + 1 ≤ (collectLoop ds i d nr fuel e steps ch ix seen).1) ∧
    (∀ x, (collectLoop ds i d nr fuel e steps ch ix seen).2.2.1.getD x 0 = ix.getD x 0 ∨
          (collectLoop ds i d nr fuel e steps ch ix seen).2.2.1.getD x 0 = nr) ∧
    (∀ x, seen.getD x false = true →
          (collectLoop ds i d nr fuel e steps ch ix seen).2.2.2.getD x false = true) ∧
    (∀ x, (collectLoop ds i d nr fuel e steps ch ix seen).2.2.2.getD x false = true →
          seen.getD x false = true ∨
          (collectLoop ds i d nr fuel e steps ch ix seen).2.2.1.getD x 0 = nr) := by
  intro fuel
  induction fuel with
  | zero =>
    intro e steps ch ix seen _
    exact ⟨rfl, rfl, Nat.le_refl _, by omega, fun x => Or.inl rfl, fun x h => h, fun x h => Or.inl h⟩
  | succ fuel ih =>
    intro e steps ch ix seen hsz
    -- the tables after the two assignments of this round
    have hix : ∀ x, ((ix.setIfInBounds (ds.opU i e) nr).setIfInBounds (stepF ds i e) nr).getD x 0 = ix.getD x 0 ∨
        ((ix.setIfInBounds (ds.opU i e) nr).setIfInBounds (stepF ds i e) nr).getD x 0 = nr := by
      intro x
      rw [getDn_set, getDn_set]
      split
      · exact Or.inr rfl
      · split
        · exact Or.inr rfl
        · exact Or.inl rfl
    have hseen : ∀ x, seen.getD x false = true →
        ((seen.setIfInBounds (ds.opU i e) true).setIfInBounds (stepF ds i e) true).getD x false = true := by
      intro x hx
      rw [getDb_set, getDb_set]
      split
      · rfl
      · split
        · rfl
        · exact hx
    have hnew : ∀ x,
        ((seen.setIfInBounds (ds.opU i e) true).setIfInBounds (stepF ds i e) true).getD x false = true →
        seen.getD x false = true ∨
        ((ix.setIfInBounds (ds.opU i e) nr).setIfInBounds (stepF ds i e) nr).getD x 0 = nr := by
      intro x hx
      rw [getDb_set, getDb_set, Array.size_setIfInBounds] at hx
      rw [getDn_set, getDn_set, Array.size_setIfInBounds, hsz]
      by_cases c1 : stepF ds i e = x ∧ stepF ds i e < seen.size
      · rw [if_pos c1]; exact Or.inr rfl
      · rw [if_neg c1] at hx ⊢
        by_cases c2 : ds.opU i e = x ∧ ds.opU i e < seen.size
        · rw [if_pos c2]; exact Or.inr rfl
        · rw [if_neg c2] at hx ⊢
          exact Or.inl hx
    have hs1 : ((ix.setIfInBounds (ds.opU i e) nr).setIfInBounds (stepF ds i e) nr).size = ix.size := by
      rw [Array.size_setIfInBounds, Array.size_setIfInBounds]
    have hs2 : ((seen.setIfInBounds (ds.opU i e) true).setIfInBounds (stepF ds i e) true).size = seen.size := by
      rw [Array.size_setIfInBounds, Array.size_setIfInBounds]
    rw [collectLoop_succ]
    by_cases hret : stepF ds i e = d
    · rw [if_pos hret]
      exact ⟨hs1, hs2, by omega, fun _ => Nat.le_refl _, hix, hseen, hnew⟩
    · rw [if_neg hret]
      obtain ⟨a1, a2, a3, _, a5, a6, a7⟩ := ih (stepF ds i e) (steps + 1)
        ((ch || ds.opU i e == e) || stepF ds i e == ds.opU i e) _ _ (hs1.trans (hsz.trans hs2.symm))
      refine ⟨a1.trans hs1, a2.trans hs2, by omega, fun _ => a3, ?_, ?_, ?_⟩
      · intro x
        rcases a5 x with h | h
        · rw [h]; exact hix x
        · exact Or.inr h
      · intro x hx; exact a6 x (hseen x hx)
      · intro x hx
        rcases a7 x hx with h | h
        · rcases hnew x h with h' | h'
          · exact Or.inl h'
          · rcases a5 x with h'' | h''
            · rw [h'', h']; exact Or.inr rfl
            · exact Or.inr h''
        · exact Or.inr h

/-- if the walk started at `e` reaches `d` after k ≥ 1 rounds and the fuel allows k rounds,
    the loop ends by returning to `d`, which is then marked -/
theorem collectLoop_marks (ds : DSetData) (i d nr : Nat) : ∀ (fuel e steps : Nat) (ch : Bool)
    (ix : Array Nat) (seen : Array Bool) (k : Nat), 1 ≤ k → k ≤ fuel → iter (stepF ds i) k e = d →
    d < seen.size →
    (collectLoop ds i d nr fuel e steps ch ix seen).2.2.2.getD d false = true := by
  intro fuel
  induction fuel with
  | zero => intro e steps ch ix seen k h1 h2; omega
  | succ fuel ih =>
    intro e steps ch ix seen k h1 h2 hk hd
    rw [collectLoop_succ]
    by_cases hret : stepF ds i e = d
    · rw [if_pos hret]
      show ((seen.setIfInBounds (ds.opU i e) true).setIfInBounds (stepF ds i e) true).getD d false = true
      rw [getDb_set, Array.size_setIfInBounds, if_pos ⟨hret, by omega⟩]
    · rw [if_neg hret]
      obtain ⟨k', rfl⟩ : ∃ k', k = k' + 1 := ⟨k - 1, by omega⟩
      rw [iter] at hk
      have hk1 : 1 ≤ k' := by
        rcases Nat.eq_zero_or_pos k' with h0 | h0
        · subst h0; exact absurd hk hret
        · exact h0
      exact ih _ _ _ _ _ k' hk1 (by omega) hk
        (by rw [Array.size_setIfInBounds, Array.size_setIfInBounds]; exact hd)

/-! ### `collect_orbits` as two nested folds -/

theorem getD_setG {α : Type} (a : Array α) (i j : Nat) (v dflt : α) :
    (a.setIfInBounds i v).getD j dflt = if i = j ∧ i < a.size then v else a.getD j dflt := by
  simp only [Array.getD_eq_getD_getElem?, Array.getElem?_setIfInBounds]
  by_cases h : i = j
  · subst h
    by_cases h2 : i < a.size
    · simp [h2]
    · simp [h2]
  · simp [h]

theorem getD_push (a : Array Nat) (v k : Nat) :
    (a.push v).getD k 0 = if k = a.size then v else a.getD k 0 := by
  simp only [Array.getD_eq_getD_getElem?, Array.getElem?_push]
  split <;> simp

def innerStep (ds : DSetData) (i : Nat) (st : CollectState) (d0 : Nat) : CollectState :=
  if st.seen.getD (d0 + 1) false then st
  else
    let r := collectLoop ds i (d0 + 1) st.rs.size (ds.size + 1) (d0 + 1) 0 false (st.index.getD i #[]) st.seen
    { rs := st.rs.push r.1, chain := st.chain.push r.2.1,
      index := st.index.setIfInBounds i r.2.2.1, seen := r.2.2.2 }

def outerStep (ds : DSetData) (st : CollectState) (i : Nat) : CollectState :=
  (List.range ds.size).foldl (innerStep ds i) { st with seen := Array.replicate (ds.size + 1) false }

def collectInit (ds : DSetData) : CollectState :=
  { rs := #[], chain := #[], index := Array.replicate ds.dim (Array.replicate (ds.size + 1) 0),
    seen := Array.replicate (ds.size + 1) false }

theorem collectOrbits_eq (ds : DSetData) :
    collectOrbits ds =
      { rs := ((List.range ds.dim).foldl (outerStep ds) (collectInit ds)).rs,
        isChain := ((List.range ds.dim).foldl (outerStep ds) (collectInit ds)).chain,
        index := ((List.range ds.dim).foldl (outerStep ds) (collectInit ds)).index } := rfl

/-- invariant between two index rounds -/
structure OuterInv (ds : DSetData) (i : Nat) (st : CollectState) : Prop where
  index_size : st.index.size = ds.dim
  row_size : ∀ j, j < ds.dim → (st.index.getD j #[]).size = ds.size + 1
  done : ∀ j d, j < i → 1 ≤ d → d ≤ ds.size → (st.index.getD j #[]).getD d 0 < st.rs.size
  rs_pos : ∀ k, k < st.rs.size → 1 ≤ st.rs.getD k 0

/-- invariant inside the round of index i, chambers 1..d0 handled -/
structure InnerInv (ds : DSetData) (i d0 : Nat) (st : CollectState) : Prop extends OuterInv ds i st where
  seen_size : st.seen.size = ds.size + 1
  seen_lt : ∀ x, 1 ≤ x → x ≤ ds.size → st.seen.getD x false = true →
    (st.index.getD i #[]).getD x 0 < st.rs.size
  seen_low : ∀ x, 1 ≤ x → x ≤ d0 → st.seen.getD x false = true

theorem stepF_range {ds : DSetData} (h : ValidSet ds) {i : Nat} (hi : i < ds.dim) (x : Nat)
    (h1 : 1 ≤ x) (h2 : x ≤ ds.size) : 1 ≤ stepF ds i x ∧ stepF ds i x ≤ ds.size := by
  have a := h.range i x (by omega) h1 h2
  exact h.range (i + 1) _ (by omega) a.1 a.2

theorem opU_inj {ds : DSetData} (h : ValidSet ds) {i : Nat} (hi : i ≤ ds.dim) {x y : Nat}
    (hx1 : 1 ≤ x) (hx2 : x ≤ ds.size) (hy1 : 1 ≤ y) (hy2 : y ≤ ds.size)
    (heq : ds.opU i x = ds.opU i y) : x = y := by
  rw [← h.invol i x hi hx1 hx2, heq, h.invol i y hi hy1 hy2]

theorem stepF_inj {ds : DSetData} (h : ValidSet ds) {i : Nat} (hi : i < ds.dim) (x y : Nat)
    (hx1 : 1 ≤ x) (hx2 : x ≤ ds.size) (hy1 : 1 ≤ y) (hy2 : y ≤ ds.size)
    (heq : stepF ds i x = stepF ds i y) : x = y := by
  have a := h.range i x (by omega) hx1 hx2
  have b := h.range i y (by omega) hy1 hy2
  exact opU_inj h (by omega) hx1 hx2 hy1 hy2 (opU_inj h (by omega) a.1 a.2 b.1 b.2 heq)

theorem innerStep_inv {ds : DSetData} (h : ValidSet ds) {i : Nat} (hi : i < ds.dim) {d0 : Nat}
    (hd0 : d0 < ds.size) {st : CollectState} (inv : InnerInv ds i d0 st) :
    InnerInv ds i (d0 + 1) (innerStep ds i st d0) := by
  unfold innerStep
  by_cases hs : st.seen.getD (d0 + 1) false = true
  · rw [if_pos hs]
    refine { inv with seen_low := ?_ }
    intro x hx1 hx2
    by_cases c : x = d0 + 1
    · rw [c]; exact hs
    · exact inv.seen_low x hx1 (by omega)
  · rw [if_neg hs]
    have hrow0 := inv.row_size i hi
    have hseenlt := inv.seen_lt
    generalize st.index.getD i #[] = row at hrow0 hseenlt ⊢
    have hrow : row.size = st.seen.size := by rw [hrow0, inv.seen_size]
    obtain ⟨f1, f2, _, f4, f5, f6, f7⟩ := collectLoop_frame ds i (d0 + 1) st.rs.size (ds.size + 1) (d0 + 1) 0 false
      row st.seen hrow
    obtain ⟨k, hk1, hk2, hk⟩ := exists_return (stepF_range h hi) (stepF_inj h hi)
      (show 1 ≤ d0 + 1 by omega) (show d0 + 1 ≤ ds.size by omega)
    have hmark := collectLoop_marks ds i (d0 + 1) st.rs.size (ds.size + 1) (d0 + 1) 0 false
      row st.seen k hk1 (by omega) hk (by rw [inv.seen_size]; omega)
    have hiidx : i < st.index.size := by rw [inv.index_size]; exact hi
    generalize collectLoop ds i (d0 + 1) st.rs.size (ds.size + 1) (d0 + 1) 0 false row st.seen = r
      at f1 f2 f4 f5 f6 f7 hmark ⊢
    refine
      { index_size := by dsimp only; rw [Array.size_setIfInBounds]; exact inv.index_size
        row_size := ?_, done := ?_, rs_pos := ?_, seen_size := by dsimp only; rw [f2, inv.seen_size]
        seen_lt := ?_, seen_low := ?_ }
    · intro j hj
      dsimp only
      rw [getD_setG]
      split
      · rw [f1]; exact hrow0
      · exact inv.row_size j hj
    · intro j d hj hd1 hd2
      dsimp only
      rw [getD_setG, if_neg (by omega), Array.size_push]
      exact Nat.lt_succ_of_lt (inv.done j d hj hd1 hd2)
    · intro k hk
      dsimp only at hk ⊢
      rw [Array.size_push] at hk
      rw [getD_push]
      split
      · exact f4 (by omega)
      · exact inv.rs_pos k (by omega)
    · intro x hx1 hx2 hx
      dsimp only at hx ⊢
      rw [getD_setG, if_pos ⟨rfl, hiidx⟩, Array.size_push]
      rcases f7 x hx with h' | h'
      · have := hseenlt x hx1 hx2 h'
        rcases f5 x with h'' | h''
        · rw [h'']; omega
        · rw [h'']; omega
      · rw [h']; omega
    · intro x hx1 hx2
      dsimp only
      by_cases c : x = d0 + 1
      · rw [c]; exact hmark
      · exact f6 x (inv.seen_low x hx1 (by omega))

theorem outerStep_inv {ds : DSetData} (h : ValidSet ds) {i : Nat} (hi : i < ds.dim)
    {st : CollectState} (inv : OuterInv ds i st) : OuterInv ds (i + 1) (outerStep ds st i) := by
  unfold outerStep
  have hfin := foldl_range_inv (innerStep ds i) (fun d0 s => InnerInv ds i d0 s) ds.size
    { st with seen := Array.replicate (ds.size + 1) false }
    { index_size := inv.index_size, row_size := inv.row_size, done := inv.done, rs_pos := inv.rs_pos
      seen_size := by simp
      seen_lt := by
        intro x _ _ hx
        exfalso
        dsimp only at hx
        rw [Array.getD_eq_getD_getElem?, Array.getElem?_replicate] at hx
        split at hx <;> simp at hx
      seen_low := by intro x h1 h2; omega }
    (fun k s hk hp => innerStep_inv h hi hk hp)
  refine { index_size := hfin.index_size, row_size := hfin.row_size, done := ?_, rs_pos := hfin.rs_pos }
  intro j d hj hd1 hd2
  by_cases c : j = i
  · rw [c]; exact hfin.seen_lt d hd1 hd2 (hfin.seen_low d hd1 hd2)
  · exact hfin.done j d (by omega) hd1 hd2

/-- what `FromStr` relies on: the orbit tables of a complete D-set with involutive operations -/
structure OrbitFacts (ds : DSetData) (o : Orbits) : Prop where
  index_size : o.index.size = ds.dim
  row_size : ∀ i, i < ds.dim → (o.index.getD i #[]).size = ds.size + 1
  index_lt : ∀ i d, i < ds.dim → 1 ≤ d → d ≤ ds.size → (o.index.getD i #[]).getD d 0 < o.rs.size
  rs_pos : ∀ k, k < o.rs.size → 1 ≤ o.rs.getD k 0

theorem collectOrbits_facts {ds : DSetData} (h : ValidSet ds) : OrbitFacts ds (collectOrbits ds) := by
  rw [collectOrbits_eq]
  have hfin := foldl_range_inv (outerStep ds) (fun i s => OuterInv ds i s) ds.dim (collectInit ds)
    { index_size := by simp [collectInit]
      row_size := by
        intro j hj
        simp [collectInit, Array.getD_eq_getD_getElem?, Array.getElem?_replicate, hj]
      done := by intro j d hj; omega
      rs_pos := by intro k hk; simp [collectInit] at hk }
    (fun k s hk hp => outerStep_inv h hk hp)
  exact ⟨hfin.index_size, hfin.row_size, fun i d hi => hfin.done i d hi, hfin.rs_pos⟩

end DSymVerif.Text
