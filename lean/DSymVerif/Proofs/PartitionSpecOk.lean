/-
Helper lemmas for property C20, part 8: the Boolean Spec, exactly as the driver evaluates it
(`SpecC20.check` on the trace of operations paired with answers), accepts every trace that an
implementation satisfying the contract `Refines` produces.  Since the contract is proved for
both models, the Spec demands nothing beyond what was proved — it cannot alarm on code that
agrees with the model.
-/
import DSymVerif.Proofs.PartitionHistory

namespace DSymVerif.PartP
open DSymVerif DSymVerif.Part DSymVerif.SpecC20

/-- pair every operation with its answer (what the driver's `parseEvents` does) -/
def events : List Op → List Obs → List Ev
  | [], _ => []
  | .unite k a b :: r, os => .unite k a b :: events r os
  | .clone i j :: r, os => .clone i j :: events r os
  | .find k a :: r, .rep x :: os => .find k a x :: events r os
  | .classes k es :: r, .classes css :: os => .classes k es css :: events r os
  | .find _ _ :: _, _ => []
  | .classes _ _ :: _, _ => []

/-- forget the answer -/
def evOp : Ev → Op
  | .unite k a b => .unite k a b
  | .find k a _ => .find k a
  | .classes k es _ => .classes k es
  | .clone i j => .clone i j

/-- how `run` prepends an operation's answer -/
def consObs (o : Option Obs) (os : List Obs) : List Obs :=
  match o with
  | some x => x :: os
  | none => os

def opBound : Op → Nat
  | .unite _ a b => max a b
  | _ => 0

theorem opBound_le_evMax (e : Ev) : opBound (evOp e) ≤ evMax e := by
  cases e <;> simp [opBound, evOp, evMax]

/-! ### Boolean helpers -/

theorem allPairs_of_forall {α} {p : α → α → Bool} :
    ∀ l : List α, (∀ x ∈ l, ∀ y ∈ l, p x y = true) → allPairs p l = true := by
  intro l
  induction l with
  | nil => intro _; rfl
  | cons x xs ih =>
    intro h
    simp only [allPairs, Bool.and_eq_true, List.all_eq_true]
    exact ⟨fun y hy => h x (List.mem_cons_self ..) y (List.mem_cons_of_mem _ hy),
      ih (fun a ha b hb => h a (List.mem_cons_of_mem _ ha) b (List.mem_cons_of_mem _ hb))⟩

theorem allPairs_of_pairwise {α} {R : α → α → Prop} {p : α → α → Bool}
    (h : ∀ a b, R a b → p a b = true) : ∀ l : List α, l.Pairwise R → allPairs p l = true := by
  intro l
  induction l with
  | nil => intro _; rfl
  | cons x xs ih =>
    intro hp
    rw [List.pairwise_cons] at hp
    simp only [allPairs, Bool.and_eq_true, List.all_eq_true]
    exact ⟨fun y hy => h x y (hp.1 y hy), ih hp.2⟩

theorem sameMultiset_of_perm {a b : List Nat} (h : a.Perm b) : sameMultiset a b = true := by
  simp only [sameMultiset, Bool.and_eq_true, beq_iff_eq, List.all_eq_true, SpecC20.count]
  exact ⟨h.length_eq, fun x _ => (h.filter _).length_eq⟩

theorem find?_none_of_all {l : List (String × Bool)} (h : ∀ c ∈ l, c.2 = true) :
    l.find? (fun c => !c.2) = none := by
  rw [List.find?_eq_none]
  intro c hc
  simp [h c hc]

/-! ### one instance -/

/-- Spec instance `i` describes a state with representative function `ρ` and unions `us` -/
structure InstOk (n : Nat) (i : Inst) (ρ : Nat → Nat) (us : List (Nat × Nat)) : Prop where
  lab : i.lab = labels n us
  seen : ∀ p ∈ i.seen, p.2 = ρ p.1
  bound : ∀ p ∈ us, p.1 < n ∧ p.2 < n

theorem InstOk.conn_iff {n i ρ us} (h : InstOk n i ρ us) (u v : Nat) :
    conn i.lab u v = true ↔ Conn us u v := by
  rw [h.lab]
  have := (labels_sound n us h.bound).2.2 u v
  simpa [SpecC20.conn] using this

theorem findClauses_ok {n : Nat} {i : Inst} {ρ : Nat → Nat} {us : List (Nat × Nat)}
    (h : InstOk n i ρ us) (hρ : ∀ u v, ρ u = ρ v ↔ Conn us u v) (hid : ∀ a, ρ (ρ a) = ρ a)
    (a : Nat) : (findClauses i a (ρ a)).find? (fun c => !c.2) = none := by
  apply find?_none_of_all
  intro c hc
  simp only [findClauses, List.mem_cons, List.mem_nil_iff, or_false] at hc
  rcases hc with rfl | rfl | rfl
  · exact (h.conn_iff _ _).2 ((hρ _ _).1 (hid a).symm)
  · simp only [List.all_eq_true, Bool.or_eq_true, Bool.not_eq_true', beq_iff_eq]
    intro p hp
    by_cases hc : conn i.lab a p.1 = true
    · right; rw [h.seen p hp]; exact (hρ _ _).2 ((h.conn_iff _ _).1 hc)
    · left; simpa using hc
  · simp only [List.all_eq_true, Bool.or_eq_true, bne_iff_ne, ne_eq]
    intro p hp
    by_cases hc : conn i.lab a p.1 = true
    · left; exact hc
    · right
      rw [h.seen p hp]
      intro e
      exact hc ((h.conn_iff _ _).2 ((hρ _ _).1 e))

theorem classesClauses_ok {n : Nat} {i : Inst} {ρ : Nat → Nat} {us : List (Nat × Nat)}
    (h : InstOk n i ρ us) (hρ : ∀ u v, ρ u = ρ v ↔ Conn us u v) (es : List Nat) :
    (classesClauses i es (groupFO (relOf ρ) es)).find? (fun c => !c.2) = none := by
  have hrel : conn i.lab = relOf ρ := relOf_eq hρ (fun x y => h.conn_iff x y)
  have g := groupFO_inv ρ es
  apply find?_none_of_all
  intro c hc
  simp only [classesClauses, List.mem_cons, List.mem_nil_iff, or_false] at hc
  rcases hc with rfl | rfl | rfl | rfl
  · simp only [Bool.and_eq_true, List.all_eq_true, bne_iff_ne, ne_eq]
    exact ⟨sameMultiset_of_perm (List.perm_iff_count.2 g.count), fun c hc => (g.mem c hc).1⟩
  · simp only [List.all_eq_true]
    intro c hc
    apply allPairs_of_forall
    intro x hx y hy
    have h1 := (g.mem c hc).2.1
    rw [hrel]; simp [relOf, h1 x hx, h1 y hy]
  · have := g.nodup
    unfold headReps at this
    rw [List.Nodup, List.pairwise_map] at this
    have hpw : (groupFO (relOf ρ) es).Pairwise (fun c d => c ∈ groupFO (relOf ρ) es ∧
        d ∈ groupFO (relOf ρ) es ∧ ρ (c.headD 0) ≠ ρ (d.headD 0)) :=
      this.imp_of_mem (fun hc hd hne => ⟨hc, hd, hne⟩)
    refine allPairs_of_pairwise ?_ _ hpw
    intro c d ⟨hc, hd, hne⟩
    simp only [List.all_eq_true, Bool.not_eq_true']
    intro x hx y hy
    rw [hrel]
    have h1 := (g.mem c hc).2.1 x hx
    have h2 := (g.mem d hd).2.1 y hy
    simp only [relOf, decide_eq_false_iff_not]
    rw [h1, h2]; exact hne
  · simp only [hrel]; exact beq_self_eq_true _

/-! ### the Spec store against the model store -/

section contract
variable {S : Type} {I : Impl S} {Inv : S → List (Nat × Nat) → Prop} {rep : S → Nat → Nat}

def SpecInv (I : Impl S) (rep : S → Nat → Nat) (n : Nat) (sst : List (Nat × Inst)) (st : Store S)
    (U : Nat → List (Nat × Nat)) : Prop :=
  ∀ k, InstOk n (getI n sst k) (rep (st.get I k)) (U k)

theorem specInv_init (I : Impl S) (rep : S → Nat → Nat) (n : Nat) :
    SpecInv I rep n [] Store.init (fun _ => []) :=
  fun _ => ⟨rfl, fun p hp => (by cases hp), fun p hp => (by cases hp)⟩

theorem getI_cons (n : Nat) (sst : List (Nat × Inst)) (j : Nat) (i : Inst) (k : Nat) :
    getI n ((j, i) :: sst) k = if j = k then i else getI n sst k := rfl

/-- one operation: its event passes every clause and the Spec state keeps describing the store -/
theorem step_accepts (R : Refines I Inv rep) {n : Nat} {sst : List (Nat × Inst)} {st : Store S}
    {U : Nat → List (Nat × Nat)} (hinv : StoreInv I Inv st U) (sinv : SpecInv I rep n sst st U)
    (op : Op) (hb : opBound op < n) :
    ∃ st' o ev, step I st op = .ok (st', o) ∧ StoreInv I Inv st' (unions1 op U) ∧
      (∀ ops os, events (op :: ops) (consObs o os) = ev :: events ops os) ∧
      evOp ev = op ∧
      (clausesOf n sst ev).find? (fun c => !c.2) = none ∧
      SpecInv I rep n (advance n sst ev) st' (unions1 op U) := by
  obtain ⟨st', o, hs, inv', hobs, hrep⟩ := step_spec R hinv op
  refine ⟨st', o, ?_⟩
  cases op with
  | unite k a b =>
    simp only [ObsOk] at hobs
    subst hobs
    refine ⟨.unite k a b, hs, inv', fun _ _ => rfl, rfl, rfl, ?_⟩
    intro j
    simp only [advance, getI_cons]
    have hab : a < n ∧ b < n := by
      simp only [opBound] at hb
      exact ⟨Nat.lt_of_le_of_lt (Nat.le_max_left ..) hb, Nat.lt_of_le_of_lt (Nat.le_max_right ..) hb⟩
    by_cases e : k = j
    · subst e
      rw [if_pos rfl]
      have sk := sinv k
      have hbound' : ∀ p ∈ (a, b) :: U k, p.1 < n ∧ p.2 < n := by
        intro p hp
        rcases List.mem_cons.1 hp with rfl | hp
        · exact hab
        · exact sk.bound p hp
      have hlab' : relabel (getI n sst k).lab a b = labels n ((a, b) :: U k) := by
        rw [sk.lab]; rfl
      refine ⟨by simp only [unions1]; exact hlab', ?_,
        by simp only [unions1]; exact hbound'⟩
      intro p hp
      simp only [List.mem_filter, Bool.not_eq_true'] at hp
      obtain ⟨hp1, hp2⟩ := hp
      rw [hlab'] at hp2
      have hnc : ¬ Conn ((a, b) :: U k) p.1 a := by
        intro hc
        have := (labels_sound n _ hbound').2.2 p.1 a
        have : conn (labels n ((a, b) :: U k)) p.1 a = true := by
          simpa [SpecC20.conn] using this.2 hc
        rw [this] at hp2; cases hp2
      have hnd : ¬ Disturbs (.unite k a b) U k p.1 := by
        rintro ⟨_, hc | hc⟩
        · exact hnc (conn_cons.2 (Or.inl hc))
        · exact hnc (conn_cons.2 (Or.inr ⟨Or.inr hc, Or.inl (Conn.refl a)⟩))
      rw [hrep k p.1 hnd]
      exact sk.seen p hp1
    · rw [if_neg e]
      have e' : ¬ j = k := fun h => e h.symm
      have sj := sinv j
      have hnd : ∀ c, ¬ Disturbs (.unite k a b) U j c := fun c hd => e hd.1
      refine ⟨by simp only [unions1, if_neg e']; exact sj.lab, ?_,
        by simp only [unions1, if_neg e']; exact sj.bound⟩
      intro p hp
      rw [hrep j p.1 (hnd _)]; exact sj.seen p hp
  | find k a =>
    simp only [ObsOk] at hobs
    subst hobs
    have hnd : ∀ j c, ¬ Disturbs (.find k a) U j c := fun _ _ hd => hd
    refine ⟨.find k a (rep (st.get I k) a), hs, inv', fun _ _ => rfl, rfl, ?_, ?_⟩
    · exact findClauses_ok (sinv k) (R.rep_conn (hinv k)) (R.rep_idem (hinv k)) a
    · intro j
      simp only [advance, getI_cons]
      by_cases e : k = j
      · subst e
        rw [if_pos rfl]
        have sk := sinv k
        refine ⟨sk.lab, ?_, sk.bound⟩
        intro p hp
        rw [hrep k p.1 (hnd _ _)]
        split at hp
        · exact sk.seen p hp
        · rcases List.mem_cons.1 hp with rfl | hp
          · rfl
          · exact sk.seen p hp
      · rw [if_neg e]
        have sj := sinv j
        refine ⟨sj.lab, ?_, sj.bound⟩
        intro p hp
        rw [hrep j p.1 (hnd _ _)]; exact sj.seen p hp
  | classes k es =>
    simp only [ObsOk] at hobs
    subst hobs
    have hnd : ∀ j c, ¬ Disturbs (.classes k es) U j c := fun _ _ hd => hd
    refine ⟨.classes k es (groupFO (relOf (rep (st.get I k))) es), hs, inv', fun _ _ => rfl, rfl,
      ?_, ?_⟩
    · exact classesClauses_ok (sinv k) (R.rep_conn (hinv k)) es
    · intro j
      have sj := sinv j
      refine ⟨sj.lab, ?_, sj.bound⟩
      intro p hp
      rw [hrep j p.1 (hnd _ _)]; exact sj.seen p hp
  | clone i j =>
    simp only [ObsOk] at hobs
    subst hobs
    refine ⟨.clone i j, hs, inv', fun _ _ => rfl, rfl, rfl, ?_⟩
    intro l
    simp only [advance, getI_cons]
    by_cases e : j = l
    · subst e
      rw [if_pos rfl]
      have si := sinv i
      exact ⟨(by simp only [unions1]; exact si.lab), fun p hp => (by cases hp),
        (by simp only [unions1]; exact si.bound)⟩
    · rw [if_neg e]
      have e' : ¬ l = j := fun h => e h.symm
      have sl := sinv l
      have hnd : ∀ c, ¬ Disturbs (.clone i j) U l c := fun c hd => e hd
      refine ⟨by simp only [unions1, if_neg e']; exact sl.lab, ?_,
        by simp only [unions1, if_neg e']; exact sl.bound⟩
      intro p hp
      rw [hrep l p.1 (hnd _)]; exact sl.seen p hp

/-- a whole history: its trace passes, and the trace is the history with answers attached -/
theorem run_accepts (R : Refines I Inv rep) (n : Nat) :
    ∀ (ops : List Op) (sst : List (Nat × Inst)) (st : Store S) (U : Nat → List (Nat × Nat)),
      StoreInv I Inv st U → SpecInv I rep n sst st U → (∀ op ∈ ops, opBound op < n) →
      ∃ st' obs, run I st ops = .ok (st', obs) ∧ checkFrom n sst (events ops obs) = none ∧
        (events ops obs).map evOp = ops := by
  intro ops
  induction ops with
  | nil => intro sst st U _ _ _; exact ⟨st, [], rfl, rfl, rfl⟩
  | cons op ops ih =>
    intro sst st U hinv sinv hb
    obtain ⟨st1, o, ev, hs, inv1, hcons, hop, hcl, sinv1⟩ :=
      step_accepts R hinv sinv op (hb op (List.mem_cons_self ..))
    have hb' : ∀ op' ∈ ops, opBound op' < n := fun op' h => hb op' (List.mem_cons_of_mem _ h)
    obtain ⟨st2, os, hr, hck, hmap⟩ := ih (advance n sst ev) st1 _ inv1 sinv1 hb'
    have hrun : run I st (op :: ops) = .ok (st2, consObs o os) := by
      simp only [run]; rw [hs]; simp only []; rw [hr]
      cases o <;> rfl
    refine ⟨st2, _, hrun, ?_, ?_⟩
    · rw [hcons ops os]
      simp only [checkFrom, hcl]
      exact hck
    · rw [hcons ops os, List.map_cons, hop, hmap]

end contract

theorem evMax_lt_universeOf {evs : List Ev} {e : Ev} (h : e ∈ evs) : evMax e < universeOf evs := by
  have key : ∀ (l : List Nat) (m x : Nat), x ∈ l ∨ x ≤ m → x ≤ l.foldl max m := by
    intro l
    induction l with
    | nil => intro m x h; rcases h with h | h; cases h; exact h
    | cons y l ih =>
      intro m x h
      simp only [List.foldl_cons]
      apply ih
      rcases h with h | h
      · rcases List.mem_cons.1 h with rfl | h
        · right; exact Nat.le_max_right ..
        · left; exact h
      · right; exact Nat.le_trans h (Nat.le_max_left ..)
  have := key (evs.map evMax) 0 (evMax e) (Or.inl (List.mem_map_of_mem h))
  unfold universeOf; omega

/-- `SpecC20.check`, with the universe computed from the trace as in the driver, accepts the
    trace of every history run by an implementation satisfying the contract -/
theorem check_accepts {S : Type} {I : Impl S} {Inv : S → List (Nat × Nat) → Prop}
    {rep : S → Nat → Nat} (R : Refines I Inv rep) (ops : List Op) :
    ∃ st obs, run I Store.init ops = .ok (st, obs) ∧ SpecC20.check (events ops obs) = none ∧
      (events ops obs).map evOp = ops := by
  -- first with a universe large enough for the operations alone, to learn the trace's shape
  obtain ⟨st, obs, hr, _, hmap⟩ := run_accepts R ((ops.map opBound).foldl max 0 + 1) ops []
    Store.init _ (storeInv_init R) (specInv_init I rep _) (by
      intro op hop
      have key : ∀ (l : List Nat) (m x : Nat), x ∈ l ∨ x ≤ m → x ≤ l.foldl max m := by
        intro l
        induction l with
        | nil => intro m x h; rcases h with h | h; cases h; exact h
        | cons y l ih =>
          intro m x h
          simp only [List.foldl_cons]
          apply ih
          rcases h with h | h
          · rcases List.mem_cons.1 h with rfl | h
            · right; exact Nat.le_max_right ..
            · left; exact h
          · right; exact Nat.le_trans h (Nat.le_max_left ..)
      have := key (ops.map opBound) 0 (opBound op) (Or.inl (List.mem_map_of_mem hop))
      omega)
  have hb : ∀ op ∈ ops, opBound op < universeOf (events ops obs) := by
    intro op hop
    rw [← hmap] at hop
    obtain ⟨e, he, rfl⟩ := List.mem_map.1 hop
    exact Nat.lt_of_le_of_lt (opBound_le_evMax e) (evMax_lt_universeOf he)
  obtain ⟨st', obs', hr', hck, _⟩ := run_accepts R (universeOf (events ops obs)) ops []
    Store.init _ (storeInv_init R) (specInv_init I rep _) hb
  rw [hr] at hr'
  cases hr'
  exact ⟨st, obs, hr, hck, hmap⟩

end DSymVerif.PartP
