/-
Helper lemmas for property C08, part 1: the two fraction types (`D2.Frac` of the model,
kept in lowest terms like `num_rational::Ratio`; `SpecC08.Fr` of the Spec, never
normalised) and their meaning in Mathlib's ℚ.
-/
import Mathlib.Data.Rat.Defs
import Mathlib.Tactic.FieldSimp
import Mathlib.Tactic.Ring
import Mathlib.Tactic.Linarith
import Mathlib.Tactic.Positivity
import Mathlib.Algebra.Order.Field.Rat
import DSymVerif.Model.Delaney2d
import DSymVerif.Spec.C08

namespace DSymVerif.D2
namespace Frac

/-- the value of a fraction -/
def toRat (a : Frac) : ℚ := (a.num : ℚ) / (a.den : ℚ)

/-- the normal form of a rational number: numerator and denominator in lowest terms,
    denominator positive (Mathlib's/core's `Rat` representation) -/
def ofRat (q : ℚ) : Frac := ⟨q.num, q.den⟩

theorem toRat_ofRat (q : ℚ) : toRat (ofRat q) = q := by
  simp [toRat, ofRat, Rat.num_div_den]

theorem ofRat_injective {x y : ℚ} (h : ofRat x = ofRat y) : x = y := by
  rw [← toRat_ofRat x, ← toRat_ofRat y, h]

/-- `norm` computes the normal form of `n/d` -/
theorem norm_eq_ofRat (n : Int) (d : Nat) (hd : d ≠ 0) : norm n d = ofRat ((n : ℚ) / (d : ℚ)) := by
  have h : ((n : ℚ) / (d : ℚ)) = mkRat n d := by
    rw [Rat.mkRat_eq_div]
  rw [h, Rat.mkRat_def, dif_neg hd]
  simp [norm, ofRat]

theorem ofInt_eq_ofRat (n : Int) : ofInt n = ofRat (n : ℚ) := by
  simp [ofInt, ofRat]

theorem add_ofRat (x y : ℚ) : add (ofRat x) (ofRat y) = ofRat (x + y) := by
  have hx : (x.den : ℚ) ≠ 0 := Nat.cast_ne_zero.mpr x.den_nz
  have hy : (y.den : ℚ) ≠ 0 := Nat.cast_ne_zero.mpr y.den_nz
  have key : ((x.num * (y.den : ℤ) + y.num * (x.den : ℤ) : ℤ) : ℚ) / ((x.den * y.den : ℕ) : ℚ) = x + y := by
    push_cast
    have ex := Rat.num_div_den x
    have ey := Rat.num_div_den y
    conv_rhs => rw [← ex, ← ey]
    field_simp
  simp only [add, ofRat]
  rw [norm_eq_ofRat _ _ (Nat.mul_ne_zero x.den_nz y.den_nz), key]
  rfl

theorem sub_ofRat (x y : ℚ) : sub (ofRat x) (ofRat y) = ofRat (x - y) := by
  have hx : (x.den : ℚ) ≠ 0 := Nat.cast_ne_zero.mpr x.den_nz
  have hy : (y.den : ℚ) ≠ 0 := Nat.cast_ne_zero.mpr y.den_nz
  have key : ((x.num * (y.den : ℤ) - y.num * (x.den : ℤ) : ℤ) : ℚ) / ((x.den * y.den : ℕ) : ℚ) = x - y := by
    push_cast
    have ex := Rat.num_div_den x
    have ey := Rat.num_div_den y
    conv_rhs => rw [← ex, ← ey]
    field_simp
  simp only [sub, ofRat]
  rw [norm_eq_ofRat _ _ (Nat.mul_ne_zero x.den_nz y.den_nz), key]
  rfl

theorem isZero_ofRat (q : ℚ) : isZero (ofRat q) = decide (q = 0) := by
  simp only [isZero, ofRat]
  by_cases h : q = 0
  · simp [h]
  · have : q.num ≠ 0 := fun h' => h (Rat.num_eq_zero.mp h')
    simp [h, this]

theorem isNeg_ofRat (q : ℚ) : isNeg (ofRat q) = decide (q < 0) := by
  simp [isNeg, ofRat]

theorem isPos_ofRat (q : ℚ) : isPos (ofRat q) = decide (0 < q) := by
  simp [isPos, ofRat]

/-- lowest terms, positive denominator -/
theorem ofRat_reduced (q : ℚ) : (ofRat q).den ≠ 0 ∧ Nat.Coprime (ofRat q).num.natAbs (ofRat q).den :=
  ⟨q.den_nz, q.reduced⟩

end Frac

/-- the contribution of one 2-orbit to the curvature -/
def typeVal (t : Nat × Bool) : ℚ := (if t.2 then 2 else 1) / (t.1 : ℚ)

theorem sumTypes_aux (ts : List (Nat × Bool)) (acc : ℚ) (h : ∀ t ∈ ts, t.1 ≠ 0) :
    ts.foldl (fun acc t => Frac.add acc (Frac.norm (if t.2 then 2 else 1) t.1)) (Frac.ofRat acc)
      = Frac.ofRat (acc + (ts.map typeVal).sum) := by
  induction ts generalizing acc with
  | nil => simp
  | cons t ts ih =>
    have ht : t.1 ≠ 0 := h t (by simp)
    simp only [List.foldl_cons, List.map_cons, List.sum_cons]
    rw [Frac.norm_eq_ofRat _ _ ht, Frac.add_ofRat, ih _ (fun u hu => h u (by simp [hu]))]
    congr 1
    unfold typeVal
    split <;> simp <;> ring

theorem sumTypes_eq (ts : List (Nat × Bool)) (h : ∀ t ∈ ts, t.1 ≠ 0) :
    sumTypes ts = Frac.ofRat ((ts.map typeVal).sum) := by
  unfold sumTypes
  rw [Frac.ofInt_eq_ofRat, sumTypes_aux ts _ h]
  simp

end DSymVerif.D2

namespace DSymVerif.SpecC08
namespace Fr

def val (a : Fr) : ℚ := (a.num : ℚ) / (a.den : ℚ)

theorem ofInt_val (n : Int) : (ofInt n).val = n ∧ (ofInt n).den ≠ 0 := by
  simp [ofInt, val]

theorem add_val (a b : Fr) (ha : a.den ≠ 0) (hb : b.den ≠ 0) :
    (add a b).val = a.val + b.val ∧ (add a b).den ≠ 0 := by
  have ha' : (a.den : ℚ) ≠ 0 := Nat.cast_ne_zero.mpr ha
  have hb' : (b.den : ℚ) ≠ 0 := Nat.cast_ne_zero.mpr hb
  refine ⟨?_, Nat.mul_ne_zero ha hb⟩
  simp only [add, val]
  push_cast
  field_simp

theorem sub_val (a b : Fr) (ha : a.den ≠ 0) (hb : b.den ≠ 0) :
    (sub a b).val = a.val - b.val ∧ (sub a b).den ≠ 0 := by
  have ha' : (a.den : ℚ) ≠ 0 := Nat.cast_ne_zero.mpr ha
  have hb' : (b.den : ℚ) ≠ 0 := Nat.cast_ne_zero.mpr hb
  refine ⟨?_, Nat.mul_ne_zero ha hb⟩
  simp only [sub, val]
  push_cast
  field_simp

theorem scale_val (k : Int) (a : Fr) : (scale k a).val = k * a.val ∧ (scale k a).den = a.den := by
  simp only [scale, val]
  push_cast
  exact ⟨by ring, trivial⟩

theorem sum_aux (xs : List Fr) (acc : Fr) (hacc : acc.den ≠ 0) (h : ∀ x ∈ xs, x.den ≠ 0) :
    (xs.foldl add acc).val = acc.val + (xs.map val).sum ∧ (xs.foldl add acc).den ≠ 0 := by
  induction xs generalizing acc with
  | nil => simp [hacc]
  | cons x xs ih =>
    have hx : x.den ≠ 0 := h x (by simp)
    have := add_val acc x hacc hx
    have ih' := ih (add acc x) this.2 (fun y hy => h y (by simp [hy]))
    simp only [List.foldl_cons, List.map_cons, List.sum_cons]
    rw [ih'.1, this.1]
    exact ⟨by ring, ih'.2⟩

theorem sum_val (xs : List Fr) (h : ∀ x ∈ xs, x.den ≠ 0) :
    (sum xs).val = (xs.map val).sum ∧ (sum xs).den ≠ 0 := by
  have := sum_aux xs (ofInt 0) (by simp [ofInt]) h
  unfold sum
  refine ⟨?_, this.2⟩
  rw [this.1]
  simp [ofInt, val]

theorem eqv_iff (a b : Fr) (ha : a.den ≠ 0) (hb : b.den ≠ 0) : eqv a b = true ↔ a.val = b.val := by
  have ha' : (a.den : ℚ) ≠ 0 := Nat.cast_ne_zero.mpr ha
  have hb' : (b.den : ℚ) ≠ 0 := Nat.cast_ne_zero.mpr hb
  simp only [eqv, val, bne_iff_ne, ne_eq, ha, hb, not_false_eq_true, Bool.and_eq_true, true_and, beq_iff_eq]
  rw [div_eq_div_iff ha' hb']
  constructor
  · intro h
    exact_mod_cast h
  · intro h
    exact_mod_cast h

theorem isPos_iff (a : Fr) (ha : a.den ≠ 0) : isPos a = true ↔ 0 < a.val := by
  have ha' : (0 : ℚ) < (a.den : ℚ) := Nat.cast_pos.mpr (Nat.pos_of_ne_zero ha)
  simp only [isPos, val, bne_iff_ne, ne_eq, ha, not_false_eq_true, Bool.and_eq_true, decide_eq_true_eq, true_and]
  rw [div_pos_iff_of_pos_right ha']
  exact Int.cast_pos.symm

theorem isNeg_iff (a : Fr) (ha : a.den ≠ 0) : isNeg a = true ↔ a.val < 0 := by
  have ha' : (0 : ℚ) < (a.den : ℚ) := Nat.cast_pos.mpr (Nat.pos_of_ne_zero ha)
  simp only [isNeg, val, bne_iff_ne, ne_eq, ha, not_false_eq_true, Bool.and_eq_true, decide_eq_true_eq, true_and]
  rw [div_lt_iff₀ ha', zero_mul]
  exact Int.cast_lt_zero.symm

theorem isZero_iff (a : Fr) (ha : a.den ≠ 0) : isZero a = true ↔ a.val = 0 := by
  have ha' : (a.den : ℚ) ≠ 0 := Nat.cast_ne_zero.mpr ha
  simp only [isZero, val, bne_iff_ne, ne_eq, ha, not_false_eq_true, Bool.and_eq_true, true_and, beq_iff_eq]
  rw [div_eq_zero_iff]
  simp [ha']

end Fr
end DSymVerif.SpecC08
