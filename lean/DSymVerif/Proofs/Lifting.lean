/-
`lifting_invariant` and the end-to-end exactness of `modular_solver::solve` (model
`LA.modSolve`), conditional on the number of lifting steps being large enough.
-/
import Mathlib.LinearAlgebra.Matrix.Adjugate
import DSymVerif.Proofs.Instances

namespace DSymVerif.LA

open DSymVerif Matrix

section lifting
variable {p : ℕ} [hpf : Fact p.Prime]

theorem valP_fromI64 (v : Int) : valP p (PRC.fromI64 p v) = (v : ZMod p) := by
  unfold valP; rw [PRC.fromI64_eq, ZMod.intCast_mod]

theorem fromBigInt_eq (v : Int) : PRC.fromBigInt p v = v % (p : ℤ) := by
  unfold PRC.fromBigInt
  rw [PRC.fromI64_eq]
  have h := Int.tmod_def v p
  have : v.tmod p = v + (p : ℤ) * (-(v.tdiv p)) := by rw [h]; ring
  rw [this, Int.add_mul_emod_self_left]

theorem valP_fromBigInt (v : Int) : valP p (PRC.fromBigInt p v) = (v : ZMod p) := by
  unfold valP; rw [fromBigInt_eq, ZMod.intCast_mod]

theorem canon_fromBigInt (v : Int) : Canon p (PRC.fromBigInt p v) := by
  rw [fromBigInt_eq]
  have hp : (0 : ℤ) < p := by exact_mod_cast hpf.out.pos
  exact ⟨Int.emod_nonneg _ (ne_of_gt hp), Int.emod_lt_of_pos _ hp⟩

/-- reduction of an integer matrix modulo `p` -/
def modP (p : ℕ) {n m : Nat} (M : Matrix (Fin n) (Fin m) ℤ) : Matrix (Fin n) (Fin m) (ZMod p) :=
  M.map (Int.castRingHom (ZMod p))

theorem toMatrix_valP {n m : Nat} (x : Mat Int n m) : toMatrix (valP p) x = modP p (toMatrixZ x) := by
  ext i j; rfl

theorem toMatrix_map_fromI64 {n m : Nat} (x : Mat Int n m) :
    toMatrix (valP p) (Mat.map (PRC.fromI64 p) x) = modP p (toMatrixZ x) := by
  ext i j
  simp only [toMatrix_apply, Mat.map, Vector.getElem_map, valP_fromI64]
  rfl

theorem toMatrix_map_fromBigInt {n m : Nat} (x : Mat Int n m) :
    toMatrix (valP p) (Mat.map (PRC.fromBigInt p) x) = modP p (toMatrixZ x) := by
  ext i j
  simp only [toMatrix_apply, Mat.map, Vector.getElem_map, valP_fromBigInt]
  rfl

theorem allE_map_fromBigInt {n m : Nat} (x : Mat Int n m) :
    AllE (Canon p) (Mat.map (PRC.fromBigInt p) x) := by
  intro i j hi hj
  simp only [Mat.map, Vector.getElem_map]
  exact canon_fromBigInt _

theorem modP_mul {n m k : Nat} (M : Matrix (Fin n) (Fin m) ℤ) (N : Matrix (Fin m) (Fin k) ℤ) :
    modP p (M * N) = modP p M * modP p N := by
  unfold modP; rw [Matrix.map_mul]

/-- invariant of the lifting loop after `step` iterations -/
def LInv (p : ℕ) (nrSteps : Nat) {n k : Nat} (A : Matrix (Fin n) (Fin n) ℤ)
    (B0 : Matrix (Fin n) (Fin k) ℤ) (step : Nat) (st : LiftState n k) : Prop :=
  st.p = (p : ℤ) ^ step ∧
  (∀ (i j : Nat) (hi : i < n) (hj : j < k), 0 ≤ (st.s[i])[j] ∧ (st.s[i])[j] < (p : ℤ) ^ step) ∧
  ∃ Em : Matrix (Fin n) (Fin k) ℤ, B0 - A * toMatrixZ st.s = (p : ℤ) ^ step • Em ∧
    (step < nrSteps → Em = toMatrixZ st.b)

/-- `lifting_invariant`, one step -/
theorem liftStep_inv (hpm : (p : ℤ) ≤ PRC.maxP) {n k : Nat} (a cinv : Mat Int n n)
    (hcE : AllE (Canon p) cinv)
    (hinv : modP p (toMatrixZ a) * toMatrix (valP p) cinv = 1)
    (B0 : Matrix (Fin n) (Fin k) ℤ) (nrSteps step : Nat) (hstep : step < nrSteps)
    (st : LiftState n k) (hI : LInv p nrSteps (toMatrixZ a) B0 step st) :
    ∃ st', liftStep p a cinv nrSteps step st = .ok st' ∧
      LInv p nrSteps (toMatrixZ a) B0 (step + 1) st' := by
  obtain ⟨hp, hrange, Em, hEm, hEmb⟩ := hI
  have hEmb' := hEmb hstep
  have hppos : (0 : ℤ) < p := by exact_mod_cast hpf.out.pos
  unfold liftStep
  obtain ⟨x, hx, hxE, hxv⟩ := matMul_sem (prc_safe' hpm) (prc_scalarSem hpm) cinv
    (Mat.map (PRC.fromBigInt p) st.b) hcE (allE_map_fromBigInt st.b)
  rw [hx]; simp only [bind_ok]
  rw [toMatrix_map_fromBigInt, toMatrix_valP] at hxv
  -- A·x ≡ b (mod p)
  have hcong : modP p (toMatrixZ a * toMatrixZ x) = modP p (toMatrixZ st.b) := by
    rw [modP_mul, hxv, ← Matrix.mul_assoc, hinv, Matrix.one_mul]
  have hdvd : ∀ (i : Fin n) (j : Fin k),
      (p : ℤ) ∣ (toMatrixZ st.b - toMatrixZ a * toMatrixZ x) i j := by
    intro i j
    have e := congrFun (congrFun hcong i) j
    simp only [modP, Matrix.map_apply, Int.coe_castRingHom] at e
    rw [← ZMod.intCast_zmod_eq_zero_iff_dvd, Matrix.sub_apply]
    push_cast
    rw [e, sub_self]
  let F : Matrix (Fin n) (Fin k) ℤ :=
    Matrix.of fun i j => (toMatrixZ st.b - toMatrixZ a * toMatrixZ x) i j / (p : ℤ)
  have hF : (p : ℤ) • F = toMatrixZ st.b - toMatrixZ a * toMatrixZ x := by
    ext i j
    simp only [Matrix.smul_apply, smul_eq_mul, F, Matrix.of_apply]
    exact Int.mul_ediv_cancel' (hdvd i j)
  -- the new partial solution
  have hs' : toMatrixZ (Vector.zipWith (Vector.zipWith fun sv xv => sv + xv * st.p) st.s x : Mat Int n k)
      = toMatrixZ st.s + (p : ℤ) ^ step • toMatrixZ x := by
    ext i j
    simp only [toMatrixZ, toMatrix_apply, Vector.getElem_zipWith, Matrix.add_apply,
      Matrix.smul_apply, smul_eq_mul, hp]
    ring
  have hrange' : ∀ (i j : Nat) (hi : i < n) (hj : j < k),
      0 ≤ ((Vector.zipWith (Vector.zipWith fun sv xv => sv + xv * st.p) st.s x : Mat Int n k)[i])[j] ∧
      ((Vector.zipWith (Vector.zipWith fun sv xv => sv + xv * st.p) st.s x : Mat Int n k)[i])[j]
        < (p : ℤ) ^ (step + 1) := by
    intro i j hi hj
    simp only [Vector.getElem_zipWith, hp]
    obtain ⟨h1, h2⟩ := hrange i j hi hj
    obtain ⟨h3, h4⟩ := hxE i j hi hj
    have hpw : (0 : ℤ) < (p : ℤ) ^ step := pow_pos hppos _
    constructor
    · have := mul_nonneg h3 (le_of_lt hpw); omega
    · rw [pow_succ]
      have : (x[i])[j] * (p : ℤ) ^ step ≤ ((p : ℤ) - 1) * (p : ℤ) ^ step :=
        mul_le_mul_of_nonneg_right (by omega) (le_of_lt hpw)
      nlinarith
  have hnew : B0 - toMatrixZ a *
      toMatrixZ (Vector.zipWith (Vector.zipWith fun sv xv => sv + xv * st.p) st.s x : Mat Int n k)
      = (p : ℤ) ^ (step + 1) • F := by
    rw [hs', Matrix.mul_add, Matrix.mul_smul, ← sub_sub, hEm, hEmb', pow_succ, mul_smul, hF,
      smul_sub]
  by_cases hlast : step + 1 < nrSteps
  · rw [if_pos hlast]
    obtain ⟨ax, hax, _, haxv⟩ := matMul_sem i64_safe' i64_scalarSem (val := valI) a x
      (allE_true a) (allE_true x)
    have haxZ : toMatrixZ a * toMatrixZ x = toMatrixZ ax := toMatrixZ_mul_eq haxv.symm
    rw [hax]; simp only [bind_ok]
    refine ⟨_, rfl, ?_, hrange', F, hnew, fun _ => ?_⟩
    · show st.p * (p : ℤ) = (p : ℤ) ^ (step + 1)
      rw [hp, pow_succ]
    · ext i j
      have e : (toMatrixZ st.b - toMatrixZ a * toMatrixZ x) i j =
          (st.b[i.1])[j.1] - (ax[i.1])[j.1] := by
        rw [haxZ]; rfl
      have hd := hdvd i j
      rw [e] at hd
      have e2 : toMatrixZ (Vector.zipWith (Vector.zipWith fun bv av => (bv - av).tdiv (p : ℤ))
          st.b ax : Mat Int n k) i j = ((st.b[i.1])[j.1] - (ax[i.1])[j.1]).tdiv (p : ℤ) := by
        simp only [toMatrixZ, toMatrix_apply, Vector.getElem_zipWith]
      rw [e2, Int.tdiv_eq_ediv_of_dvd hd]
      simp only [F, Matrix.of_apply]
      rw [e]
  · rw [if_neg hlast]
    refine ⟨_, rfl, ?_, hrange', F, hnew, fun h => absurd h hlast⟩
    show st.p * (p : ℤ) = (p : ℤ) ^ (step + 1)
    rw [hp, pow_succ]

theorem toMatrixZ_fill_zero {n k : Nat} : toMatrixZ (Mat.fill 0 : Mat Int n k) = 0 := by
  ext i j
  simp only [toMatrixZ, toMatrix_apply, Matrix.zero_apply]
  exact fill_entry (0 : Int) i.2 j.2

/-- `lifting_invariant`: the loop `for step in 0..nr_steps` returns `s`, `p = P^nr_steps` with
    `0 ≤ s < P^nr_steps` entrywise and `A·s ≡ b (mod P^nr_steps)` -/
theorem lifting_loop (hpm : (p : ℤ) ≤ PRC.maxP) {n k : Nat} (a cinv : Mat Int n n) (b : Mat Int n k)
    (hcE : AllE (Canon p) cinv)
    (hinv : modP p (toMatrixZ a) * toMatrix (valP p) cinv = 1) (nrSteps : Nat) :
    ∃ st, forRange 0 nrSteps ({ b := b, s := Mat.fill 0, p := 1 } : LiftState n k)
        (liftStep p a cinv nrSteps) = .ok st ∧
      st.p = (p : ℤ) ^ nrSteps ∧
      (∀ (i j : Nat) (hi : i < n) (hj : j < k),
        0 ≤ (st.s[i])[j] ∧ (st.s[i])[j] < (p : ℤ) ^ nrSteps) ∧
      ∃ Em : Matrix (Fin n) (Fin k) ℤ,
        toMatrixZ b - toMatrixZ a * toMatrixZ st.s = (p : ℤ) ^ nrSteps • Em := by
  obtain ⟨st, hst, h1, h2, Em, h3, _⟩ := forRange_idx 0 nrSteps (Nat.zero_le _)
    ({ b := b, s := Mat.fill 0, p := 1 } : LiftState n k) (liftStep p a cinv nrSteps)
    (LInv p nrSteps (toMatrixZ a) (toMatrixZ b))
    ⟨by simp, by
      intro i j hi hj
      rw [fill_entry]; simp,
      toMatrixZ b, by rw [toMatrixZ_fill_zero]; simp, fun _ => rfl⟩
    (fun step st _ hstep hI => liftStep_inv hpm a cinv hcE hinv _ nrSteps step hstep st hI)
  exact ⟨st, hst, h1, h2, Em, h3⟩

end lifting

/-- from `A·S ≡ B (mod h)`, `gcd(det A, h) = 1` and a rational solution `A·X = B`:
    every entry `X i j = N/D` satisfies `N ≡ S i j · D (mod h)` -/
theorem lift_congr {n k : Nat} (A : Matrix (Fin n) (Fin n) ℤ) (S B0 Em : Matrix (Fin n) (Fin k) ℤ)
    (h : ℤ) (hEm : B0 - A * S = h • Em) (hcop : IsCoprime A.det h)
    (Xq : Matrix (Fin n) (Fin k) ℚ)
    (hX : A.map (Int.castRingHom ℚ) * Xq = B0.map (Int.castRingHom ℚ))
    (i : Fin n) (j : Fin k) (N D : ℤ) (hND : Xq i j * (D : ℚ) = (N : ℚ)) :
    h ∣ N - S i j * D := by
  have hadj : A.adjugate * A = A.det • (1 : Matrix (Fin n) (Fin n) ℤ) := Matrix.adjugate_mul A
  -- (1) over ℤ
  have h1 : A.adjugate * B0 - A.det • S = h • (A.adjugate * Em) := by
    have := congrArg (fun Z => A.adjugate * Z) hEm
    simp only [Matrix.mul_sub, ← Matrix.mul_assoc, hadj, Matrix.smul_mul, Matrix.one_mul,
      Matrix.mul_smul] at this
    exact this
  have h1e : (A.adjugate * B0) i j - A.det * S i j = h * (A.adjugate * Em) i j := by
    have := congrFun (congrFun h1 i) j
    simpa [Matrix.sub_apply, Matrix.smul_apply] using this
  -- (2) over ℚ
  have h2 : ((A.det : ℤ) : ℚ) * Xq i j = (((A.adjugate * B0) i j : ℤ) : ℚ) := by
    have e1 : (A.adjugate * A).map (Int.castRingHom ℚ) * Xq =
        (A.adjugate * B0).map (Int.castRingHom ℚ) := by
      rw [Matrix.map_mul, Matrix.map_mul, Matrix.mul_assoc, hX]
    have e2 := congrFun (congrFun e1 i) j
    rw [hadj, Matrix.mul_apply] at e2
    simp only [Matrix.map_apply, Matrix.smul_apply, Matrix.one_apply, smul_eq_mul,
      Int.coe_castRingHom] at e2
    rw [Finset.sum_eq_single i (fun l _ hl => by simp [Ne.symm hl]) (by simp)] at e2
    simpa using e2
  -- (3)
  have h3 : A.det * N = (A.adjugate * B0) i j * D := by
    have : ((A.det : ℤ) : ℚ) * (N : ℚ) = (((A.adjugate * B0) i j : ℤ) : ℚ) * (D : ℚ) := by
      rw [← hND, ← h2]; ring
    exact_mod_cast this
  -- (4)
  have h4 : (N - S i j * D) * A.det = h * ((A.adjugate * Em) i j * D) := by
    have : (N - S i j * D) * A.det = ((A.adjugate * B0) i j - A.det * S i j) * D := by
      linear_combination h3
    rw [this, h1e]; ring
  exact hcop.symm.dvd_of_dvd_mul_right ⟨_, h4⟩

section endtoend
variable {p : ℕ} [hpf : Fact p.Prime]

theorem Q.new_wf {n d : Int} {q : Q} (h : Q.new n d = .ok q) : QWF q := by
  unfold Q.new at h
  by_cases hd : d = 0
  · simp [hd] at h
  · simp only [hd, if_false] at h
    split at h
    · cases h; exact Q.norm_wf _ _ (by omega)
    · cases h; exact Q.norm_wf _ _ (by omega)

theorem ratRec_wf {s h : Int} {q : Q} (hq : rationalReconstruction s h = .ok q) : QWF q := by
  unfold rationalReconstruction at hq
  obtain ⟨n, d, _, hnew⟩ := ratRecLoop_inv s h _ h s 0 1 1 q (Or.inl rfl) (by simp) (by simp) hq
  exact Q.new_wf hnew

/-- end-to-end exactness of the p-adic solver, conditional on the number of lifting steps:
    if `A` is non-singular modulo the prime `p`, `X` is the rational solution of `A·X = B`, with
    entries `X i j = N i j / D i j`, `D i j ≥ 1`, and `(|N i j| + D i j)² < p^steps`, then
    `modSolve` returns exactly `X`. -/
theorem modSolve_exact (hpm : (p : ℤ) ≤ PRC.maxP) (steps : Nat) {n k : Nat} (a : Mat Int n n)
    (b : Mat Int n k) (hns : ¬ (p : ℤ) ∣ (toMatrixZ a).det)
    (Xq : Matrix (Fin n) (Fin k) ℚ)
    (hX : (toMatrixZ a).map (Int.castRingHom ℚ) * Xq = (toMatrixZ b).map (Int.castRingHom ℚ))
    (N D : Fin n → Fin k → ℤ) (hD : ∀ i j, 1 ≤ D i j)
    (hND : ∀ i j, Xq i j * (D i j : ℚ) = (N i j : ℚ))
    (hbound : ∀ i j, (|N i j| + D i j) * (|N i j| + D i j) < (p : ℤ) ^ steps) :
    ∃ X, modSolve p steps a b = .ok X ∧
      ∀ (i j : Nat) (hi : i < n) (hj : j < k), QWF ((X[i])[j]) ∧
        valQ ((X[i])[j]) = Xq ⟨i, hi⟩ ⟨j, hj⟩ := by
  have hppos : (0 : ℤ) < p := by exact_mod_cast hpf.out.pos
  -- A mod p is invertible
  have hdetp : (modP p (toMatrixZ a)).det ≠ 0 := by
    unfold modP
    rw [← RingHom.mapMatrix_apply, ← RingHom.map_det]
    simp only [Int.coe_castRingHom, ne_eq]
    rw [ZMod.intCast_zmod_eq_zero_iff_dvd]
    exact hns
  have haE : AllE (Canon p) (Mat.map (PRC.fromI64 p) a) := allE_canon_map hpf.out.pos a
  unfold modSolve
  rcases inverse_sem (prc_sem hpm) (Mat.map (PRC.fromI64 p) a) haE with
    ⟨cinv, hc, hcE, hcv⟩ | ⟨_, hbad⟩
  · rw [hc]
    simp only
    rw [toMatrix_map_fromI64] at hcv
    obtain ⟨st, hst, hp, hrange, Em, hEm⟩ := lifting_loop hpm a cinv b hcE hcv steps
    rw [hst]; simp only [bind_ok]
    have hh : (1 : ℤ) ≤ (p : ℤ) ^ steps := by
      have : (0 : ℤ) < (p : ℤ) ^ steps := pow_pos hppos _
      omega
    have hcop : IsCoprime (toMatrixZ a).det ((p : ℤ) ^ steps) := by
      apply IsCoprime.pow_right
      rw [Int.isCoprime_iff_gcd_eq_one, Int.gcd_comm]
      have hnd : ¬ p ∣ (toMatrixZ a).det.natAbs := fun hd => hns (Int.natCast_dvd.2 hd)
      have := (Nat.Prime.coprime_iff_not_dvd hpf.out).2 hnd
      simpa [Int.gcd, Nat.Coprime] using this
    -- the reconstruction loops
    obtain ⟨X, hXm, hXs⟩ := forRange_idx 0 n (Nat.zero_le _) (Mat.fill Q.zero : Mat Q n k)
      (fun i res => forRange 0 k res fun j res =>
        (st.s.get i j).bind fun sij => (rationalReconstruction sij st.p).bind fun q =>
          res.set i j q)
      (fun i (res : Mat Q n k) => ∀ (i' j' : Nat) (hi' : i' < n) (hj' : j' < k), i' < i →
        QWF ((res[i'])[j']) ∧ valQ ((res[i'])[j']) = Xq ⟨i', hi'⟩ ⟨j', hj'⟩)
      (fun i' j' _ _ h => by omega)
      (by
        intro i res _ hi hI
        obtain ⟨res', hr, hJ1, hJ2⟩ := forRange_idx 0 k (Nat.zero_le _) res
          (fun j res => (st.s.get i j).bind fun sij =>
            (rationalReconstruction sij st.p).bind fun q => res.set i j q)
          (fun j (res' : Mat Q n k) =>
            (∀ (i' j' : Nat) (hi' : i' < n) (hj' : j' < k), i' < i →
              QWF ((res'[i'])[j']) ∧ valQ ((res'[i'])[j']) = Xq ⟨i', hi'⟩ ⟨j', hj'⟩) ∧
            ∀ (j' : Nat) (hj' : j' < k), j' < j →
              QWF ((res'[i])[j']) ∧ valQ ((res'[i])[j']) = Xq ⟨i, hi⟩ ⟨j', hj'⟩)
          ⟨hI, fun j' _ h => by omega⟩
          (by
            intro j res' _ hj ⟨hJ1, hJ2⟩
            rw [Mat.get_ok st.s hi hj]
            simp only [bind_ok]
            obtain ⟨hs0, hs1⟩ := hrange i j hi hj
            rw [hp]
            obtain ⟨q, hq⟩ := rationalReconstruction_total ((st.s[i])[j]) ((p : ℤ) ^ steps) hs0
              (le_of_lt hs1)
            rw [hq]; simp only [bind_ok]
            have hqwf := ratRec_wf hq
            obtain ⟨n', d', hdvd, hval, hn', hd1, hd'⟩ :=
              rationalReconstruction_full _ _ hs0 (le_of_lt hs1) hh q hq
            have hcong := lift_congr (toMatrixZ a) (toMatrixZ st.s) (toMatrixZ b) Em _ hEm hcop
              Xq hX ⟨i, hi⟩ ⟨j, hj⟩ (N ⟨i, hi⟩ ⟨j, hj⟩) (D ⟨i, hi⟩ ⟨j, hj⟩) (hND _ _)
            have huniq := ratRec_unique hh hdvd hcong hn' hd1 hd' (hD _ _) (hbound _ _)
            have hqv : valQ q = Xq ⟨i, hi⟩ ⟨j, hj⟩ := by
              have hDne : ((D ⟨i, hi⟩ ⟨j, hj⟩ : ℤ) : ℚ) ≠ 0 := by
                have := hD ⟨i, hi⟩ ⟨j, hj⟩
                exact_mod_cast (by omega : D ⟨i, hi⟩ ⟨j, hj⟩ ≠ 0)
              have hden : ((q.den : ℕ) : ℚ) ≠ 0 := by
                unfold QWF at hqwf
                exact_mod_cast (Nat.pos_iff_ne_zero.1 hqwf)
              have hd'ne : (d' : ℚ) ≠ 0 := by exact_mod_cast (by omega : d' ≠ 0)
              have e1 : (q.num : ℚ) * (d' : ℚ) = (n' : ℚ) * (q.den : ℚ) := by exact_mod_cast hval
              have e2 : (n' : ℚ) * (D ⟨i, hi⟩ ⟨j, hj⟩ : ℚ) = (N ⟨i, hi⟩ ⟨j, hj⟩ : ℚ) * (d' : ℚ) := by
                exact_mod_cast huniq
              have e3 := hND ⟨i, hi⟩ ⟨j, hj⟩
              unfold valQ
              rw [div_eq_iff hden]
              have : (q.num : ℚ) * (D ⟨i, hi⟩ ⟨j, hj⟩ : ℚ) * (d' : ℚ) =
                  Xq ⟨i, hi⟩ ⟨j, hj⟩ * (q.den : ℚ) * (D ⟨i, hi⟩ ⟨j, hj⟩ : ℚ) * (d' : ℚ) := by
                calc (q.num : ℚ) * (D ⟨i, hi⟩ ⟨j, hj⟩ : ℚ) * (d' : ℚ)
                    = ((q.num : ℚ) * (d' : ℚ)) * (D ⟨i, hi⟩ ⟨j, hj⟩ : ℚ) := by ring
                  _ = (n' : ℚ) * (q.den : ℚ) * (D ⟨i, hi⟩ ⟨j, hj⟩ : ℚ) := by rw [e1]
                  _ = ((n' : ℚ) * (D ⟨i, hi⟩ ⟨j, hj⟩ : ℚ)) * (q.den : ℚ) := by ring
                  _ = (N ⟨i, hi⟩ ⟨j, hj⟩ : ℚ) * (d' : ℚ) * (q.den : ℚ) := by rw [e2]
                  _ = Xq ⟨i, hi⟩ ⟨j, hj⟩ * (q.den : ℚ) * (D ⟨i, hi⟩ ⟨j, hj⟩ : ℚ) * (d' : ℚ) := by
                    rw [← e3]; ring
              have h5 := mul_right_cancel₀ hd'ne this
              exact mul_right_cancel₀ hDne h5
            refine ⟨_, Mat.set_ok res' hi hj q, ?_, ?_⟩
            · intro i' j' hi' hj' hlt
              rw [entry_set res' hi hj q hi' hj', if_neg (by omega)]
              exact hJ1 i' j' hi' hj' hlt
            · intro j' hj' hlt
              rw [entry_set res' hi hj q hi hj']
              by_cases e : j = j'
              · subst e
                rw [if_pos ⟨rfl, rfl⟩]
                exact ⟨hqwf, hqv⟩
              · rw [if_neg (fun h => e h.2)]
                exact hJ2 j' hj' (by omega))
        refine ⟨res', hr, ?_⟩
        intro i' j' hi' hj' hlt
        by_cases e : i' = i
        · subst e; exact hJ2 j' hj' hj'
        · exact hJ1 i' j' hi' hj' (by omega))
    exact ⟨X, hXm, fun i j hi hj => hXs i j hi hj hi⟩
  · exfalso
    rw [toMatrix_map_fromI64] at hbad
    rcases hbad with h1 | h1
    · have hu : IsUnit (modP p (toMatrixZ a)).det := isUnit_iff_ne_zero.2 hdetp
      exact h1 _ (Matrix.mul_nonsing_inv _ hu)
    · exact prc_not_refused hpm h1

end endtoend

end DSymVerif.LA
