/-
C12 totality: on the states of the low-index search (well-shaped, standard) none of the model
functions panics or runs out of fuel — `set`/`join`/scans succeed, the deduction loop of
`derived_table` terminates within its fuel (each queued row comes with a newly defined slot),
`compare_renumbered_from`/`is_canonical` never hit the transitivity assertion.
-/
import DSymVerif.Proofs.LowIndexCanon6

namespace DSymVerif.CanonP
open DSymVerif DSymVerif.Cosets DSymVerif.LowIndexP DSymVerif.CosetInvP DSymVerif.CosetPartP

/-! ### the table operations do not panic on well-shaped tables -/

theorem set_succeeds {t : Table} (hw : ∀ (x : Nat) (row : Array Int), t.rows[x]? = some row →
    row.size = t.nrGens * 2 + 1) (c : Nat) {g : Int} (hg : g ∈ t.allGens) (d : Nat) :
    ∃ t', t.set c g d = .ok t' := by
  have hg' := mem_allGensOf.mp hg
  unfold Table.set
  simp only []
  have hn : ¬ g + (t.nrGens : Int) < 0 := by omega
  rw [if_neg hn]
  have hc : c < (padRows t.nrGens t.rows c).size := by rw [padRows_size]; omega
  rw [Array.getElem?_eq_getElem hc]
  simp only []
  have hsz : ((padRows t.nrGens t.rows c)[c]).size = t.nrGens * 2 + 1 := by
    rcases padRows_get _ _ _ _ _ (Array.getElem?_eq_getElem hc) with h1 | h1
    · exact hw c _ h1
    · rw [h1]; simp [blankRow]
  have hj : (g + (t.nrGens : Int)).toNat < ((padRows t.nrGens t.rows c)[c]).size := by rw [hsz]; omega
  rw [if_pos hj]
  exact ⟨_, rfl⟩

theorem join_succeeds {t : Table} (hw : ∀ (x : Nat) (row : Array Int), t.rows[x]? = some row →
    row.size = t.nrGens * 2 + 1) (c d : Nat) {g : Int} (hg : g ∈ t.allGens) :
    ∃ t', t.join c d g = .ok t' := by
  unfold Table.join
  obtain ⟨t1, h1⟩ := set_succeeds hw c hg d
  rw [h1]
  simp only []
  exact set_succeeds (set_width h1 hw) d (by rw [set_allGens h1]; exact neg_mem_allGensOf hg) c

theorem scanGo_total {t : Table} (s : Shape t) (limit : Nat) : ∀ (xs : List Int) (row idx : Nat),
    (∀ x ∈ xs, x ∈ t.allGens) → row < t.len → idx + xs.length = limit →
    ∃ r i, scanGo t limit xs row idx = .ok (r, i)
  | [], row, idx, _, _, hl => by
    simp only [List.length_nil, Nat.add_zero] at hl
    exact ⟨row, limit, by simp [scanGo, hl]⟩
  | x :: xs, row, idx, hxs, hr, hl => by
    simp only [List.length_cons] at hl
    simp only [scanGo]
    rcases get_total s hr (hxs x (by simp)) with h | ⟨d, h⟩
    · rw [h]; exact ⟨row, idx, rfl⟩
    · rw [h]
      exact scanGo_total s limit xs d (idx + 1) (fun y hy => hxs y (by simp [hy]))
        (s.range row x d (hxs x (by simp)) h) (by omega)

theorem scanBothWays_total {t : Table} (s : Shape t) {w : List Int} (hw : WordOK t w) {start : Nat}
    (hl : start < t.len) : ∃ r, scanBothWays t w start = .ok r := by
  unfold scanBothWays
  simp only []
  obtain ⟨hd, i, h1⟩ := scanGo_total s w.length (w.take w.length) start 0
    (fun x hx => hw x (List.mem_of_mem_take hx)) hl (by simp)
  have h1' : scan t w start w.length = .ok (hd, i) := h1
  rw [h1']
  simp only []
  have hik : i ≤ w.length := by
    unfold scan at h1'
    rw [List.take_length] at h1'
    obtain ⟨k, hk, hi, _, _⟩ := scanGo_char t _ w start 0 hd i (by simp) h1'
    omega
  obtain ⟨tl, j, h2⟩ := scanGo_total s (w.length - i) ((w.reverse.map (fun x => -x)).take (w.length - i)) start 0
    (fun x hx => by
      have := List.mem_of_mem_take hx
      simp only [List.mem_map, List.mem_reverse] at this
      obtain ⟨y, hy, rfl⟩ := this
      exact neg_mem_allGensOf (hw y hy)) hl (by simp)
  have h2' : scanInverse t w start (w.length - i) = .ok (tl, j) := h2
  rw [h2']
  exact ⟨_, rfl⟩


/-! ### the deduction loop of `derived_table` terminates within its fuel -/

/-- number of undefined slots in the existing rows -/
noncomputable def undef (t : Table) : Nat := (slots t.len t.nrGens).length - defined t.len t

theorem join_undef {t t' : Table} {hd tl : Nat} {c : Int} (h : t.join hd tl c = .ok t')
    (hc : c ∈ t.allGens) (hhd : hd < t.len) (htl : tl < t.len) (hfree : t.get hd c = .ok none) :
    undef t' + 1 ≤ undef t := by
  have hlen : t'.len = t.len := by rw [join_len h]; omega
  have hn : t'.nrGens = t.nrGens := (join_ok h).1
  have hmono := (join_ok h).2.2.2.2
  have hnew : IsDef t' hd c := (join_ok h).2.2.1
  have hold : ¬ IsDef t hd c := get_none_not_isDef t hd c hfree
  have hle : defined t.len t' ≤ (slots t.len t.nrGens).length := by
    unfold defined; rw [hn]; exact List.countP_le_length
  have hlt : defined t.len t < defined t.len t' := by
    unfold defined
    rw [hn]
    apply countP_lt_of_strict
    · intro x _ hx
      simp only [decide_eq_true_eq] at hx ⊢
      exact hmono _ _ hx
    · exact ⟨(hd, c), mem_slots hhd hc, by simp [hold], by simp [hnew]⟩
  unfold undef
  rw [hlen, hn]
  omega

theorem derivedRels_total (h : Nat) : ∀ (us : List (List Int)) (t : Table) (q : List Nat),
    TCq t [] → Clean t → h < t.len → (∀ u ∈ us, WordOK t u) →
    derivedRels h us t q = .ok none ∨
      ∃ t' q', derivedRels h us t q = .ok (some (t', q')) ∧ q'.length + undef t' ≤ q.length + undef t
  | [], t, q, _, _, _, _ => Or.inr ⟨t, q, rfl, Nat.le_refl _⟩
  | u :: us, t, q, inv, hcl, hl, hwu => by
    simp only [derivedRels]
    have hcan : ∀ x, t.canon x = x := canon_clean hcl
    have hu : WordOK t u := hwu u (by simp)
    obtain ⟨⟨head, tail, gap, c⟩, hs⟩ := scanBothWays_total inv.shape hu hl
    rw [hs]
    simp only []
    by_cases hg1 : gap = 1
    · subst hg1
      simp only [if_true]
      obtain ⟨b1, b2, b3, b4, b5⟩ := scanBothWays_rows inv.shape hu (hcan h) hl hs
      obtain ⟨f1, f2⟩ := scanBothWays_gap_one hs
      obtain ⟨t1, hj⟩ := join_succeeds inv.shape.width head tail (b5 rfl)
      rw [hj]
      simp only []
      obtain ⟨j1, j2, _⟩ := join_tcq inv hj (b5 rfl) b1 b2 b3 (Or.inl b4) f1 f2
      have e1 : Ext2 t t1 := join_ext2 hj f1 f2
      have hlen1 : t1.len = t.len := by rw [join_len hj]; omega
      have hm := join_undef hj (b5 rfl) b2 b4 f1
      rcases derivedRels_total h us t1 (q ++ [head]) j1 (e1.clean hcl) (by omega)
        (fun u' hu' x hx => by rw [e1.allGens]; exact hwu u' (by simp [hu']) x hx) with hn | ⟨t', q', hr, hm'⟩
      · exact Or.inl hn
      · refine Or.inr ⟨t', q', hr, ?_⟩
        simp only [List.length_append, List.length_singleton] at hm'
        omega
    · simp only [hg1, if_false]
      by_cases hm : gap = 0 ∧ head ≠ tail
      · simp [hm]
      · simp only [hm, if_false]
        exact derivedRels_total h us t q inv hcl hl (fun u' hu' => hwu u' (by simp [hu']))

theorem derivedLoop_total {R : List (List Int)} : ∀ (fuel : Nat) (t : Table) (q : List Nat),
    TCq t [] → Clean t → (∀ u ∈ R, WordOK t u) → (∀ x ∈ q, x < t.len) → q.length + undef t ≤ fuel →
    ∃ r, derivedLoop R fuel t q = .ok r := by
  intro fuel
  induction fuel with
  | zero =>
    intro t q _ _ _ _ hf
    cases q with
    | nil => exact ⟨some t, rfl⟩
    | cons x q => simp at hf
  | succ f ih =>
    intro t q inv hcl hwR hq hf
    cases q with
    | nil => exact ⟨some t, rfl⟩
    | cons h q =>
      simp only [derivedLoop]
      have hl : h < t.len := hq h (by simp)
      rcases derivedRels_total h R t q inv hcl hl hwR with hn | ⟨t1, q1, hr, hm⟩
      · rw [hn]; exact ⟨none, rfl⟩
      · rw [hr]
        simp only []
        obtain ⟨a1, a2, a3, a4, a5⟩ := derivedRels_tcq h R t q t1 q1 inv hcl hl hwR
          (fun x hx => hq x (by simp [hx])) hr
        refine ih t1 q1 a1 a2 (fun u hu x hx => by rw [a3.allGens]; exact hwR u hu x hx) a5 ?_
        simp only [List.length_cons] at hf
        omega


theorem slots_length (rows n : Nat) : (slots rows n).length = rows * (2 * n) := by
  unfold slots
  induction rows with
  | zero => simp
  | succ r ih =>
    rw [List.range_succ, List.flatMap_append, List.length_append, ih]
    simp [allGensOf]
    rw [Nat.add_mul]
    omega

theorem undef_le (t : Table) : undef t ≤ t.len * (2 * t.nrGens) := by
  unfold undef
  rw [slots_length]
  omega

theorem derivedTable_total {maxRows n : Nat} {rels R : List (List Int)}
    (hwR : ∀ u ∈ R, ∀ x ∈ u, x ∈ allGensOf n) {t : Table} (s : SInv maxRows n rels t) {frm dst : Nat}
    {g : Int} (hg : g ∈ t.allGens) (hf : frm < t.len) (hd : dst < t.len ∨ (dst = t.len ∧ frm < dst)) :
    ∃ r, derivedTable t R frm dst g = .ok r := by
  have hcan : ∀ x, t.canon x = x := canon_clean s.clean
  unfold derivedTable
  rcases get_total s.tcq.shape hf hg with h1 | ⟨d1, h1⟩
  · rw [h1]
    simp only []
    have h2t : t.get dst (-g) = .ok none ∨ ∃ d, t.get dst (-g) = .ok (some d) := by
      rcases hd with hd | ⟨hd, _⟩
      · exact get_total s.tcq.shape hd (neg_mem_allGensOf hg)
      · exact Or.inl (get_ge_len _ (by omega))
    rcases h2t with h2 | ⟨d2, h2⟩
    · rw [h2]
      simp only []
      obtain ⟨t1, hj⟩ := join_succeeds s.tcq.shape.width frm dst hg
      rw [hj]
      simp only []
      obtain ⟨j1, j2, _⟩ := join_tcq s.tcq hj hg (hcan frm) hf (hcan dst) hd h1 h2
      have e1 : Ext2 t t1 := join_ext2 hj h1 h2
      have hlen1 : t1.len ≤ t.len + 1 := by
        rw [join_len hj]
        rcases hd with hd | ⟨hd, _⟩ <;> omega
      have hg1 : t1.allGens = allGensOf n := by rw [e1.allGens, s.allGens]
      refine derivedLoop_total _ t1 [frm] j1 (e1.clean s.clean)
        (fun u hu x hx => by rw [hg1]; exact hwR u hu x hx)
        (fun x hx => by simp at hx; subst hx; have := j2.2.1; omega) ?_
      have := undef_le t1
      have hn1 : t1.nrGens = t.nrGens := e1.1
      rw [hn1] at this
      simp only [List.length_singleton]
      have h3 : t1.len * (2 * t.nrGens) ≤ (t.len + 1) * (2 * t.nrGens) := Nat.mul_le_mul_right _ hlen1
      have h4 : (t.len + 1) * (2 * t.nrGens) ≤ (t.len + 1) * (2 * t.nrGens + 1) :=
        Nat.mul_le_mul_left _ (by omega)
      omega
    · rw [h2]; exact ⟨none, rfl⟩
  · rw [h1]; exact ⟨none, rfl⟩

theorem childrenFrom_total {maxRows n : Nat} {rels R : List (List Int)}
    (hwR : ∀ u ∈ R, ∀ x ∈ u, x ∈ allGensOf n) {t : Table} (s : SInv maxRows n rels t) {k : Nat} {g : Int}
    (hg : g ∈ t.allGens) (hk : k < t.len) : ∀ (ps : List Nat), (∀ p ∈ ps, k ≤ p ∧ p ≤ t.len) →
    ∃ l, childrenFrom t R k g ps = .ok l
  | [], _ => ⟨[], rfl⟩
  | pos :: ps, hps => by
    simp only [childrenFrom]
    have hp := hps pos (by simp)
    have hd : pos < t.len ∨ (pos = t.len ∧ k < pos) := by
      by_cases hpl : pos < t.len
      · exact Or.inl hpl
      · exact Or.inr ⟨by omega, by omega⟩
    obtain ⟨r, hr⟩ := derivedTable_total hwR s hg hk hd
    rw [hr]
    simp only []
    obtain ⟨l, hl⟩ := childrenFrom_total hwR s hg hk ps (fun p hp' => hps p (by simp [hp']))
    rw [hl]
    exact ⟨_, rfl⟩

theorem firstFreeInTable_total {t : Table} (s : Shape t) : ∃ r, firstFreeInTable t = .ok r := by
  unfold firstFreeInTable
  have hrow : ∀ (k : Nat), k < t.len → ∀ gs : List Int, (∀ g ∈ gs, g ∈ t.allGens) →
      ∃ r, firstFreeRow t k gs = .ok r := by
    intro k hk gs
    induction gs with
    | nil => intro _; exact ⟨none, rfl⟩
    | cons g gs ih =>
      intro hgs
      simp only [firstFreeRow]
      rcases get_total s hk (hgs g (by simp)) with h | ⟨d, h⟩
      · rw [h]; exact ⟨_, rfl⟩
      · rw [h]; exact ih (fun g' h' => hgs g' (by simp [h']))
  have hrows : ∀ ks : List Nat, (∀ k ∈ ks, k < t.len) → ∃ r, firstFreeRows t ks = .ok r := by
    intro ks
    induction ks with
    | nil => intro _; exact ⟨none, rfl⟩
    | cons k ks ih =>
      intro hks
      simp only [firstFreeRows]
      obtain ⟨r, hr⟩ := hrow k (hks k (by simp)) t.allGens (fun g hg => hg)
      rw [hr]
      cases r with
      | none => exact ih (fun k' h' => hks k' (by simp [h']))
      | some p => exact ⟨_, rfl⟩
  exact hrows _ (fun k hk => List.mem_range.mp hk)

theorem potentialChildren_total {maxRows n : Nat} {rels R : List (List Int)}
    (hwR : ∀ u ∈ R, ∀ x ∈ u, x ∈ allGensOf n) {t : Table} (s : SInv maxRows n rels t) :
    ∃ l, potentialChildren t R maxRows = .ok l := by
  unfold potentialChildren
  obtain ⟨r, hr⟩ := firstFreeInTable_total s.tcq.shape
  rw [hr]
  cases r with
  | none => exact ⟨[], rfl⟩
  | some p =>
    obtain ⟨k, g⟩ := p
    simp only []
    obtain ⟨hgen, _⟩ := firstFreeRows_spec t _ k g hr
    have hk : k < t.len := List.mem_range.mp (firstFreeRows_mem t _ k g hr)
    exact childrenFrom_total hwR s hgen hk _ (fun p hp => by
      rw [List.mem_range'_1] at hp
      have := Nat.min_le_right maxRows (t.len + 1)
      omega)


/-! ### `compare_renumbered_from` and `is_canonical` do not panic on standard tables -/

/-- every assigned number is below the count -/
def NumInv (st : CSt) : Prop := ∀ x i, lookupNat x st.2 = some i → i < st.1.size

theorem assign_numInv {st : CSt} (h : NumInv st) (tv : Nat) :
    NumInv (assign tv st) ∧ st.1.size ≤ (assign tv st).1.size ∧
      ∃ nval, lookupNat tv (assign tv st).2 = some nval ∧ nval < (assign tv st).1.size := by
  unfold assign
  cases hl : lookupNat tv st.2 with
  | some i =>
    simp only []
    exact ⟨h, Nat.le_refl _, i, hl, h tv i hl⟩
  | none =>
    simp only []
    refine ⟨?_, by simp, st.1.size, by simp [lookupNat_cons], by simp⟩
    intro x i hx
    simp only [lookupNat_cons] at hx
    by_cases e : tv = x
    · simp only [e, if_true, Option.some.injEq] at hx
      subst hx; simp
    · simp only [e, if_false] at hx
      have := h x i hx
      simp; omega

/-- all slots before the current position are defined with values below the count -/
def Procd (t : Table) (c row : Nat) (pre : List Int) : Prop :=
  ∀ k' g', g' ∈ t.allGens → Before k' g' row pre → ∃ v, t.get k' g' = .ok (some v) ∧ v < c

theorem get_total' {t : Table} (s : Shape t) (r : Nat) {g : Int} (hg : g ∈ t.allGens) :
    t.get r g = .ok none ∨ ∃ d, t.get r g = .ok (some d) := by
  by_cases hr : r < t.len
  · exact get_total s hr hg
  · exact Or.inl (get_ge_len g (by omega))

theorem compareGens_total {t : Table} (s : Shape t) (row : Nat) (hrow : row < t.len) :
    ∀ (gs pre : List Int) (st : CSt), t.allGens = pre ++ gs → NumInv st → row < st.1.size →
      Procd t st.1.size row pre →
      ∃ o st', compareGens t t.len row gs st = .ok (o, st') ∧
        (o = none → NumInv st' ∧ Procd t st'.1.size (row + 1) [])
  | [], pre, st, hsplit, hn, _, hp => by
    refine ⟨none, st, rfl, fun _ => ⟨hn, ?_⟩⟩
    intro k' g' hg' hb
    apply hp k' g' hg'
    rcases hb with hb | ⟨_, hb⟩
    · by_cases hk : k' < row
      · exact Or.inl hk
      · exact Or.inr ⟨by omega, by rw [hsplit] at hg'; simpa using hg'⟩
    · cases hb
  | g :: gs, pre, st, hsplit, hn, hrs, hp => by
    have hg : g ∈ t.allGens := by rw [hsplit]; simp
    rcases get_total s hrow hg with h1 | ⟨oval, h1⟩
    · rw [compareGens_cons_undef t _ row g gs st h1]
      exact ⟨_, _, rfl, fun h => by cases h⟩
    · have h2 : st.1[row]? = some st.1[row] := Array.getElem?_eq_getElem hrs
      rcases get_total' s st.1[row] hg with h3 | ⟨tv, h3⟩
      · rw [compareGens_cons_rundef t _ row g gs st h1 h2 h3]
        have hlt := s.range row g oval hg h1
        have hd : ((t.len : Int) - (oval : Int)) ≠ 0 := by omega
        rw [if_pos hd]
        exact ⟨_, _, rfl, fun h => by cases h⟩
      · rw [compareGens_cons_def t _ row g gs st h1 h2 h3]
        obtain ⟨hn', hsz, nval, hl, hnv⟩ := assign_numInv hn tv
        rw [hl]
        simp only []
        by_cases hd : ((nval : Int) - (oval : Int)) ≠ 0
        · rw [if_pos hd]
          exact ⟨_, _, rfl, fun h => by cases h⟩
        · rw [if_neg hd]
          have heq : nval = oval := by omega
          refine compareGens_total s row hrow gs (pre ++ [g]) (assign tv st) (by rw [hsplit]; simp) hn'
            (by omega) ?_
          intro k' g' hg' hb
          have hmono : ∀ k'' g'', g'' ∈ t.allGens → Before k'' g'' row pre →
              ∃ v, t.get k'' g'' = .ok (some v) ∧ v < (assign tv st).1.size := by
            intro k'' g'' hg'' hb''
            obtain ⟨v, hv, hvc⟩ := hp k'' g'' hg'' hb''
            exact ⟨v, hv, by omega⟩
          rcases hb with hb | ⟨hk, hb⟩
          · exact hmono k' g' hg' (Or.inl hb)
          · rcases List.mem_append.mp hb with hb | hb
            · exact hmono k' g' hg' (Or.inr ⟨hk, hb⟩)
            · simp only [List.mem_singleton] at hb
              subst hb; subst hk
              exact ⟨oval, h1, by omega⟩

theorem compareRows_total {t : Table} (s : Shape t) (cs : CS t) :
    ∀ (m row : Nat) (st : CSt), row + m = t.len → NumInv st → 1 ≤ st.1.size → Procd t st.1.size row [] →
      ∃ r, compareRows t t.len (List.range' row m) st = .ok r
  | 0, row, st, _, _, _, _ => ⟨0, by simp [compareRows]⟩
  | m + 1, row, st, hm, hn, h1, hp => by
    have hrow : row < t.len := by omega
    have hrs : row < st.1.size := by
      by_cases h0 : row = 0
      · omega
      · obtain ⟨k0, g0, pre0, post0, hk0, hsplit0, hget0, _⟩ := cs row (by omega) hrow
        have hg0 : g0 ∈ t.allGens := by rw [hsplit0]; simp
        obtain ⟨v, hv, hvc⟩ := hp k0 g0 hg0 (Or.inl hk0)
        rw [hget0] at hv
        injection hv with hv; injection hv with hv
        omega
    obtain ⟨n2o, o2n⟩ := st
    simp only [List.range'_succ, compareRows]
    rw [if_pos hrs]
    obtain ⟨o, st', e1, e2⟩ := compareGens_total s row hrow t.allGens [] (n2o, o2n) rfl hn hrs hp
    rw [e1]
    cases o with
    | some r => exact ⟨r, rfl⟩
    | none =>
      simp only []
      obtain ⟨hn', hp'⟩ := e2 rfl
      have h1' : 1 ≤ st'.1.size := by
        obtain ⟨v, _, hv⟩ : ∃ v, True ∧ v < st'.1.size := by
          by_cases hall : t.allGens = []
          · -- no letters: the state is unchanged; fall back on the previous bound
            have : compareGens t t.len row t.allGens (n2o, o2n) = .ok (none, (n2o, o2n)) := by
              rw [hall]; rfl
            rw [this] at e1
            injection e1 with e1; injection e1 with _ e1
            rw [← e1]
            exact ⟨0, trivial, h1⟩
          · obtain ⟨g, hg⟩ := List.exists_mem_of_ne_nil _ hall
            obtain ⟨v, _, hv⟩ := hp' row g hg (Or.inl (by omega))
            exact ⟨v, trivial, hv⟩
        omega
      exact compareRows_total s cs m (row + 1) st' (by omega) hn' h1' hp'

theorem compareRenumberedFrom_total {t : Table} (s : Shape t) (cs : CS t) (start : Nat) :
    ∃ r, compareRenumberedFrom t start = .ok r := by
  unfold compareRenumberedFrom
  rw [List.range_eq_range']
  refine compareRows_total s cs t.len 0 _ (by omega) ?_ (by simp) ?_
  · intro x i hx
    simp only [lookupNat_cons, lookupNat] at hx
    by_cases e : start = x
    · simp only [e, if_true, Option.some.injEq] at hx
      subst hx; simp
    · simp [e] at hx
  · intro k' g' _ hb
    rcases hb with hb | ⟨_, hb⟩
    · omega
    · cases hb

theorem isCanonical_total {t : Table} (s : Shape t) (cs : CS t) : ∃ b, isCanonical t = .ok b := by
  unfold isCanonical
  generalize List.range' 1 (t.len - 1) = ss
  induction ss with
  | nil => exact ⟨true, rfl⟩
  | cons x ss ih =>
    simp only [isCanonicalFrom]
    obtain ⟨r, hr⟩ := compareRenumberedFrom_total s cs x
    rw [hr]
    simp only []
    by_cases h : r < 0
    · rw [if_pos h]; exact ⟨false, rfl⟩
    · rw [if_neg h]; exact ih

theorem filterCanonical_total : ∀ (ts : List Table), (∀ t ∈ ts, Shape t ∧ CS t) →
    ∃ l, filterCanonical ts = .ok l
  | [], _ => ⟨[], rfl⟩
  | t :: ts, h => by
    simp only [filterCanonical]
    obtain ⟨b, hb⟩ := isCanonical_total (h t (by simp)).1 (h t (by simp)).2
    obtain ⟨l, hl⟩ := filterCanonical_total ts (fun t' h' => h t' (by simp [h']))
    rw [hb, hl]
    exact ⟨_, rfl⟩

end DSymVerif.CanonP
