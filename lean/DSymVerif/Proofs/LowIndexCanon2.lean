/-
C12, the canonical pruning (2): standard numbering `CS` (every row has a creation slot before
which everything is smaller), everything before the first free slot is defined, and every
search state is standard and — except the start state — has passed `is_canonical`.
-/
import DSymVerif.Proofs.LowIndexCanon1

namespace DSymVerif.CanonP
open DSymVerif DSymVerif.Cosets DSymVerif.LowIndexP DSymVerif.CosetInvP

/-! ### row-major order of the slots and standard numbering -/

/-- slot `(k', g')` comes strictly before the slot at row `k` whose letter has the letters
    `pre` before it -/
def Before (k' : Nat) (g' : Int) (k : Nat) (pre : List Int) : Prop := k' < k ∨ (k' = k ∧ g' ∈ pre)

/-- the position of an element in a duplicate-free list: two splits at `a` and `b` -/
theorem split_trichotomy {α : Type} [DecidableEq α] : ∀ {l p1 q1 p2 q2 : List α} {a b : α}, l.Nodup →
    l = p1 ++ a :: q1 → l = p2 ++ b :: q2 → a ∈ p2 ∨ (a = b ∧ p1 = p2) ∨ b ∈ p1
  | l, [], q1, [], q2, a, b, _, h1, h2 => by
    rw [h1] at h2
    simp only [List.nil_append, List.cons.injEq] at h2
    exact Or.inr (Or.inl ⟨h2.1, rfl⟩)
  | l, [], q1, x :: p2, q2, a, b, _, h1, h2 => by
    rw [h1] at h2
    simp only [List.nil_append, List.cons_append, List.cons.injEq] at h2
    exact Or.inl (by simp [h2.1])
  | l, x :: p1, q1, [], q2, a, b, _, h1, h2 => by
    rw [h1] at h2
    simp only [List.nil_append, List.cons_append, List.cons.injEq] at h2
    exact Or.inr (Or.inr (by simp [h2.1]))
  | l, x :: p1, q1, y :: p2, q2, a, b, hn, h1, h2 => by
    have hxy : x = y := by
      rw [h1] at h2
      simp only [List.cons_append, List.cons.injEq] at h2
      exact h2.1
    subst hxy
    cases l with
    | nil => simp at h1
    | cons z l' =>
      simp only [List.cons_append, List.cons.injEq] at h1 h2
      rcases split_trichotomy (List.nodup_cons.mp hn).2 h1.2 h2.2 with h | ⟨h, hp⟩ | h
      · exact Or.inl (by simp [h])
      · exact Or.inr (Or.inl ⟨h, by rw [hp]⟩)
      · exact Or.inr (Or.inr (by simp [h]))

/-- **standard numbering**: every row `j ≥ 1` has a creation slot — a slot of an earlier row
    holding `j` such that every slot before it (row-major) is defined with a smaller value -/
def CS (t : Table) : Prop :=
  ∀ j, 0 < j → j < t.len → ∃ k g pre post, k < j ∧ t.allGens = pre ++ g :: post ∧
    t.get k g = .ok (some j) ∧
    ∀ k' g', g' ∈ t.allGens → Before k' g' k pre → ∃ v, t.get k' g' = .ok (some v) ∧ v < j

theorem cs_new (n : Nat) : CS (Table.new n) := by
  intro j h0 hj
  simp [Table.len, Table.new] at hj
  omega

theorem CS.ext2 {t t' : Table} (e : Ext2 t t') (hlen : t'.len = t.len) (h : CS t) : CS t' := by
  intro j h0 hj
  rw [hlen] at hj
  obtain ⟨k, g, pre, post, hk, hsplit, hget, hbef⟩ := h j h0 hj
  have hg : g ∈ t.allGens := by rw [hsplit]; simp
  refine ⟨k, g, pre, post, hk, by rw [e.allGens]; exact hsplit, e.2.2 k g j hg hget, ?_⟩
  intro k' g' hg' hb
  rw [e.allGens] at hg'
  obtain ⟨v, hv, hvj⟩ := hbef k' g' hg' hb
  exact ⟨v, e.2.2 k' g' v hg' hv, hvj⟩

/-! ### the first free slot: everything before it is defined -/

theorem firstFreeRow_before (t : Table) (k : Nat) : ∀ (gs done : List Int) (g : Int) (k' : Nat),
    firstFreeRow t k gs = .ok (some (k', g)) → ∃ pre post, gs = pre ++ g :: post ∧
      ∀ g' ∈ pre, ∃ v, t.get k g' = .ok (some v)
  | [], _, g, k', h => by simp [firstFreeRow] at h
  | x :: gs, done, g, k', h => by
    simp only [firstFreeRow] at h
    cases hx : t.get k x with
    | ok o =>
      cases o with
      | none =>
        simp only [hx, Outcome.ok.injEq, Option.some.injEq, Prod.mk.injEq] at h
        obtain ⟨_, rfl⟩ := h
        exact ⟨[], gs, rfl, fun _ h' => by cases h'⟩
      | some d =>
        simp only [hx] at h
        obtain ⟨pre, post, e, hp⟩ := firstFreeRow_before t k gs (done ++ [x]) g k' h
        refine ⟨x :: pre, post, by rw [e]; rfl, ?_⟩
        intro g' hg'
        rcases List.mem_cons.mp hg' with rfl | hg'
        · exact ⟨d, hx⟩
        · exact hp g' hg'
    | err => simp [hx] at h
    | panic => simp [hx] at h

theorem firstFreeRows_before (t : Table) : ∀ (ks : List Nat) (k : Nat) (g : Int),
    firstFreeRows t ks = .ok (some (k, g)) →
    ∃ kpre kpost pre post, ks = kpre ++ k :: kpost ∧ t.allGens = pre ++ g :: post ∧
      (∀ k' ∈ kpre, ∀ g' ∈ t.allGens, ∃ v, t.get k' g' = .ok (some v)) ∧
      (∀ g' ∈ pre, ∃ v, t.get k g' = .ok (some v))
  | [], k, g, h => by simp [firstFreeRows] at h
  | x :: ks, k, g, h => by
    simp only [firstFreeRows] at h
    cases hx : firstFreeRow t x t.allGens with
    | ok o =>
      cases o with
      | none =>
        simp only [hx] at h
        obtain ⟨kpre, kpost, pre, post, e1, e2, e3, e4⟩ := firstFreeRows_before t ks k g h
        refine ⟨x :: kpre, kpost, pre, post, by rw [e1]; rfl, e2, ?_, e4⟩
        intro k' hk' g' hg'
        rcases List.mem_cons.mp hk' with rfl | hk'
        · exact firstFreeRow_none t k' _ hx g' hg'
        · exact e3 k' hk' g' hg'
      | some p =>
        simp only [hx] at h
        have hk := firstFreeRow_mem t x t.allGens k g (hx.trans h)
        subst hk
        obtain ⟨pre, post, e, hp⟩ := firstFreeRow_before t k t.allGens [] g k (hx.trans h)
        exact ⟨[], ks, pre, post, rfl, e, (fun _ h' => by cases h'), hp⟩
    | err => simp [hx] at h
    | panic => simp [hx] at h

/-- everything before the first free slot is defined -/
theorem firstFree_before {t : Table} {k : Nat} {g : Int} (h : firstFreeInTable t = .ok (some (k, g))) :
    k < t.len ∧ ∃ pre post, t.allGens = pre ++ g :: post ∧
      ∀ k' g', g' ∈ t.allGens → Before k' g' k pre → ∃ v, t.get k' g' = .ok (some v) := by
  unfold firstFreeInTable at h
  obtain ⟨kpre, kpost, pre, post, e1, e2, e3, e4⟩ := firstFreeRows_before t _ k g h
  have hk : k < t.len := List.mem_range.mp (by rw [e1]; simp)
  refine ⟨hk, pre, post, e2, ?_⟩
  intro k' g' hg' hb
  rcases hb with hb | ⟨rfl, hb⟩
  · -- k' < k: k' is in kpre because range is sorted
    have hmem : k' ∈ kpre := by
      have hk'r : k' ∈ List.range t.len := List.mem_range.mpr (by omega)
      rw [e1] at hk'r
      rcases List.mem_append.mp hk'r with h1 | h1
      · exact h1
      · exfalso
        have hsorted : (kpre ++ k :: kpost).Pairwise (· < ·) := by rw [← e1]; exact List.pairwise_lt_range
        rw [List.pairwise_append] at hsorted
        rcases List.mem_cons.mp h1 with h2 | h2
        · omega
        · have := (List.pairwise_cons.mp hsorted.2.1).1 k' h2
          omega
    exact e3 k' hmem g' hg'
  · exact e4 g' hb


/-! ### every search state is standard -/

theorem derivedTable_cs {maxRows n : Nat} {rels R : List (List Int)} (hrot : RotClosed rels R)
    (hwr : ∀ w ∈ rels, ∀ x ∈ w, x ∈ allGensOf n) (hwR : ∀ u ∈ R, ∀ x ∈ u, x ∈ allGensOf n)
    {t t' : Table} (s : SInv maxRows n rels t) (cs : CS t) {k pos : Nat} {g : Int}
    (hff : firstFreeInTable t = .ok (some (k, g))) (hpos : pos ≤ t.len) (hkp : k ≤ pos)
    (hdm : pos < maxRows) (h : derivedTable t R k pos g = .ok (some t')) : CS t' := by
  obtain ⟨hk, pre, post, hsplit, hbef⟩ := firstFree_before hff
  have hg : g ∈ t.allGens := by rw [hsplit]; simp
  have hd : pos < t.len ∨ (pos = t.len ∧ k < pos) := by
    by_cases hpl : pos < t.len
    · exact Or.inl hpl
    · exact Or.inr ⟨by omega, by omega⟩
  obtain ⟨_, e, hlen, hget⟩ := derivedTable_sinv hrot hwr hwR s hg hk hd hdm h
  intro j h0 hj
  by_cases hjl : j < t.len
  · obtain ⟨k0, g0, pre0, post0, hk0, hsplit0, hget0, hbef0⟩ := cs j h0 hjl
    have hg0 : g0 ∈ t.allGens := by rw [hsplit0]; simp
    refine ⟨k0, g0, pre0, post0, hk0, by rw [e.allGens]; exact hsplit0, e.2.2 k0 g0 j hg0 hget0, ?_⟩
    intro k' g' hg' hb
    rw [e.allGens] at hg'
    obtain ⟨v, hv, hvj⟩ := hbef0 k' g' hg' hb
    exact ⟨v, e.2.2 k' g' v hg' hv, hvj⟩
  · -- the new row
    have hpl : pos = t.len := by rw [hlen] at hj; omega
    have hjp : j = t.len := by rw [hlen] at hj; omega
    subst hjp
    refine ⟨k, g, pre, post, hk, by rw [e.allGens]; exact hsplit, by rw [← hpl]; exact hget, ?_⟩
    intro k' g' hg' hb
    rw [e.allGens] at hg'
    obtain ⟨v, hv⟩ := hbef k' g' hg' hb
    exact ⟨v, e.2.2 k' g' v hg' hv, s.tcq.shape.range k' g' v hg' hv⟩

theorem potentialChildren_cs {maxRows n : Nat} {rels R : List (List Int)} (hrot : RotClosed rels R)
    (hwr : ∀ w ∈ rels, ∀ x ∈ w, x ∈ allGensOf n) (hwR : ∀ u ∈ R, ∀ x ∈ u, x ∈ allGensOf n)
    {t : Table} (s : SInv maxRows n rels t) (cs : CS t) {l : List Table}
    (h : potentialChildren t R maxRows = .ok l) : ∀ t' ∈ l, CS t' := by
  intro t' ht'
  unfold potentialChildren at h
  cases hf : firstFreeInTable t with
  | ok o =>
    cases o with
    | none =>
      simp only [hf, Outcome.ok.injEq] at h
      subst h
      cases ht'
    | some p =>
      obtain ⟨k, g⟩ := p
      simp only [hf] at h
      obtain ⟨pos, hpos, hd⟩ := childrenFrom_spec t R k g _ l h t' ht'
      rw [List.mem_range'_1] at hpos
      have hmin1 := Nat.min_le_left maxRows (t.len + 1)
      have hmin2 := Nat.min_le_right maxRows (t.len + 1)
      exact derivedTable_cs hrot hwr hwR s cs hf (by omega) (by omega) (by omega) hd
  | err => simp [hf] at h
  | panic => simp [hf] at h

/-- the invariant of the search states, with the standard numbering -/
def SInv2 (maxRows n : Nat) (rels : List (List Int)) (t : Table) : Prop := SInv maxRows n rels t ∧ CS t

theorem btChildren_sinv2 {maxRows n : Nat} {rels R : List (List Int)} (hrot : RotClosed rels R)
    (hwr : ∀ w ∈ rels, ∀ x ∈ w, x ∈ allGensOf n) (hwR : ∀ u ∈ R, ∀ x ∈ u, x ∈ allGensOf n)
    {s c : Outcome Table} (hc : c ∈ btChildren R maxRows s)
    (hs : ∀ t, s = .ok t → SInv2 maxRows n rels t) :
    ∀ t', c = .ok t' → SInv2 maxRows n rels t' ∧ isCanonical t' = .ok true := by
  intro t' hct
  subst hct
  cases s with
  | ok t =>
    simp only [btChildren] at hc
    cases hp : potentialChildren t R maxRows with
    | ok ts =>
      simp only [hp] at hc
      cases hf : filterCanonical ts with
      | ok cs =>
        simp only [hf, List.mem_map, Outcome.ok.injEq] at hc
        obtain ⟨t1, ht1, rfl⟩ := hc
        have hmem := filterCanonical_subset ts cs hf t1 ht1
        refine ⟨⟨potentialChildren_sinv hrot hwr hwR (hs t rfl).1 hp t1 hmem,
          potentialChildren_cs hrot hwr hwR (hs t rfl).1 (hs t rfl).2 hp t1 hmem⟩, ?_⟩
        -- it passed the filter
        clear hp hmem
        induction ts generalizing cs with
        | nil =>
          simp only [filterCanonical, Outcome.ok.injEq] at hf
          subst hf; cases ht1
        | cons x xs ih =>
          simp only [filterCanonical] at hf
          cases hcx : isCanonical x with
          | ok b =>
            cases hr : filterCanonical xs with
            | ok rest =>
              simp only [hcx, hr, Outcome.ok.injEq] at hf
              subst hf
              by_cases hb : b = true
              · subst hb
                simp only [if_true, List.mem_cons] at ht1
                rcases ht1 with rfl | ht1
                · exact hcx
                · exact ih rest hr ht1
              · simp only [hb] at ht1
                exact ih rest hr ht1
            | err => simp [hcx, hr] at hf
            | panic => simp [hcx, hr] at hf
          | err => cases hr : filterCanonical xs <;> simp [hcx, hr] at hf
          | panic => simp [hcx] at hf
      | err => simp [hf] at hc
      | panic => simp [hf] at hc
    | err => simp [hp] at hc
    | panic => simp [hp] at hc
  | err => simp [btChildren] at hc
  | panic => simp [btChildren] at hc

theorem reach_sinv2 {maxRows n : Nat} {rels R : List (List Int)} (hrot : RotClosed rels R)
    (hwr : ∀ w ∈ rels, ∀ x ∈ w, x ∈ allGensOf n) (hwR : ∀ u ∈ R, ∀ x ∈ u, x ∈ allGensOf n)
    {s s' : Outcome Table} (hr : BT.Reach (btProblem n R maxRows) s s')
    (hs : ∀ t, s = .ok t → SInv2 maxRows n rels t) : ∀ t', s' = .ok t' → SInv2 maxRows n rels t' := by
  induction hr with
  | refl s => exact hs
  | step hc _ ih => exact ih (fun t ht => (btChildren_sinv2 hrot hwr hwR hc hs t ht).1)

/-- every state but the start state has passed `is_canonical` -/
theorem reach_canonical {maxRows n : Nat} {rels R : List (List Int)} (hrot : RotClosed rels R)
    (hwr : ∀ w ∈ rels, ∀ x ∈ w, x ∈ allGensOf n) (hwR : ∀ u ∈ R, ∀ x ∈ u, x ∈ allGensOf n)
    {s s' : Outcome Table} (hr : BT.Reach (btProblem n R maxRows) s s')
    (hs : ∀ t, s = .ok t → SInv2 maxRows n rels t) :
    s' = s ∨ ∀ t', s' = .ok t' → isCanonical t' = .ok true := by
  induction hr with
  | refl s => exact Or.inl rfl
  | step hc hr' ih =>
    rename_i s0 c0 t0
    rcases ih (fun t ht => (btChildren_sinv2 hrot hwr hwR hc hs t ht).1) with h | h
    · right
      subst h
      exact fun t' ht' => (btChildren_sinv2 hrot hwr hwR hc hs t' ht').2
    · exact Or.inr h

end DSymVerif.CanonP
