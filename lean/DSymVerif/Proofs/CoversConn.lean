/-
Property C05, part 10: connectedness of the cover of a transitive monodromy representation.

Crossing a facet of the spanning tree keeps the sheet (its generator is a relator of the
textbook group), so all chambers of one sheet are joined.  Going along the tree from the root to
a facet `(d,i)`, crossing it and going back along the tree moves sheet `k` to `ρ(x(d,i))⁻¹ k` over
the root; the set of group elements `g` such that sheet `k` and sheet `ρ(g) k` are joined over the
root for every `k` is a subgroup containing all facet generators, hence everything
(`PresentedGroup.generated_by`).  A transitive `ρ` therefore joins all sheets.
-/
import DSymVerif.Proofs.CoversMono
import DSymVerif.Proofs.DSetOrient

namespace DSymVerif.CoversP
open DSymVerif DSymVerif.DS DSymVerif.FG DSymVerif.FGP

theorem xT_tree {ds : DSymData} {d i : Nat} (h : (d, i, none) ∈ spanningTree ds) : xT ds d i = 1 := by
  unfold xT
  exact PresentedGroup.one_of_mem (Or.inl (Or.inl (Or.inr ⟨(d, i, none), h, rfl⟩)))

theorem of_eq_xT {ds : DSymData} {j : ℕ} (h : isCode ds j) :
    (PresentedGroup.of j : TGroup ds) = xT ds (decD ds j) (decI ds j) := by
  unfold xT xg
  rw [if_pos h.1, h.2]
  rfl

theorem of_not_code {ds : DSymData} {j : ℕ} (h : ¬ isCode ds j) : (PresentedGroup.of j : TGroup ds) = 1 :=
  PresentedGroup.one_of_mem (Or.inr ⟨j, h, rfl⟩)

theorem C09_spanning {ds : DSymData} (hv : ValidSet ds.dset) (hsize : 1 ≤ ds.size)
    (hc : ds.view.isConnected = true) :
    (∀ it ∈ spanningTree ds, it.2.2 = none ∧ 1 ≤ it.1 ∧ it.1 ≤ ds.size ∧ it.2.1 ≤ ds.dim) ∧
    (spanningTree ds).length + 1 = ds.size ∧
    ∃ root, 1 ≤ root ∧ root ≤ ds.size ∧
      ∀ x, 1 ≤ x → x ≤ ds.size → TreeReach ds (spanningTree ds) root x := by
  obtain ⟨hlen, root, hr1, hr2, htree, _⟩ := spanningTree_spanning hv hsize hc
  refine ⟨?_, hlen, root, hr1, hr2, htree⟩
  intro it hit
  obtain ⟨hn, _⟩ := spanningTree_itemOk hv it hit
  exact ⟨hn, spanningTree_ok hv it hit hn⟩

section
variable {ds : DSymData} {n : Nat} {ρ : TGroup ds →* Equiv.Perm (Fin n)} {σ : Nat → Nat → Nat → Nat}
  (hσ : Agrees ρ σ) (hv : ValidSet ds.dset) {c : DSymData}
  (hsize : c.size = n * ds.size) (hdim : c.dim = ds.dim)
  (hop : ∀ i d, i ≤ ds.dim → 1 ≤ d → d ≤ n * ds.size → c.dset.opU i d = coverF ds.dset σ i d)
include hσ hv hsize hdim hop

omit hv in
/-- crossing facet `(b,i)` of the base from sheet `k` -/
theorem reach_cross {i b : Nat} (hi : i ≤ ds.dim) (h1 : 1 ≤ b) (h2 : b ≤ ds.size) (k : Fin n) :
    c.view.Reach c.view.indices (ds.size * k.val + b)
      (ds.size * (tau ρ b i k).val + ds.dset.opU i b) := by
  have hd := cmk_range (sz := ds.size) (n := n) k.isLt h1 h2
  have hic : i ≤ c.dim := by rw [hdim]; exact hi
  have h2c : ds.size * k.val + b ≤ c.size := by rw [hsize]; exact hd.2
  have hopc : c.view.op i (ds.size * k.val + b) = some (c.dset.opU i (ds.size * k.val + b)) :=
    opSimple_eq_some.2 ⟨hic, hd.1, h2c, rfl⟩
  have hmk : coverF ds.dset σ i (ds.size * k.val + b) = ds.size * σ k.val i b + ds.dset.opU i b :=
    coverF_mk (s := ds.dset) h1 h2
  rw [hop i _ hi hd.1 hd.2, hmk, hσ k.val i b k.isLt hi h1 h2] at hopc
  exact View.Reach.step (View.Reach.refl _) ((mem_indices c.view i).2 hic) hopc

/-- all chambers of a sheet are joined along the spanning tree -/
theorem reach_tree (hitems : ∀ it ∈ spanningTree ds, 1 ≤ it.1 ∧ it.1 ≤ ds.size ∧ it.2.1 ≤ ds.dim)
    {root : Nat} (hr1 : 1 ≤ root) (hr2 : root ≤ ds.size) {x : Nat}
    (ht : TreeReach ds (spanningTree ds) root x) (k : Fin n) :
    (1 ≤ x ∧ x ≤ ds.size) ∧
      c.view.Reach c.view.indices (ds.size * k.val + root) (ds.size * k.val + x) := by
  induction ht with
  | root => exact ⟨⟨hr1, hr2⟩, View.Reach.refl _⟩
  | @step d i _ hmem ih =>
    obtain ⟨hd, hreach⟩ := ih
    have hit := hitems _ hmem
    have hi : i ≤ ds.dim := hit.2.2
    refine ⟨hv.range i d hi hd.1 hd.2, ?_⟩
    have hc := reach_cross hσ hsize hdim hop hi hd.1 hd.2 k
    have ht1 : tau ρ d i = 1 := by unfold tau; rw [xT_tree hmem, map_one, inv_one]
    rw [ht1] at hc
    exact hreach.trans hc

end

/-- **connectedness**: base connected, `ρ` transitive ⇒ the cover is connected -/
theorem mono_cover_connected {ds : DSymData} (hv : ValidSet ds.dset) (hsz : 1 ≤ ds.size)
    (hconn : ds.view.isConnected = true) {n : Nat} (hn : 0 < n)
    {ρ : TGroup ds →* Equiv.Perm (Fin n)} (htrans : ∀ k : Fin n, ∃ g, ρ g ⟨0, hn⟩ = k)
    {σ : Nat → Nat → Nat → Nat} (hσ : Agrees ρ σ) {c : DSymData} (hcv : ValidSet c.dset)
    (hsize : c.size = n * ds.size) (hdim : c.dim = ds.dim)
    (hop : ∀ i d, i ≤ ds.dim → 1 ≤ d → d ≤ n * ds.size → c.dset.opU i d = coverF ds.dset σ i d) :
    c.view.isConnected = true := by
  have hpin : c.view.PInvol := by rw [c.view_eq]; exact hcv.pinvol
  obtain ⟨hitems0, _, root, hr1, hr2, htree⟩ := C09_spanning hv hsz hconn
  have hitems : ∀ it ∈ spanningTree ds, 1 ≤ it.1 ∧ it.1 ≤ ds.size ∧ it.2.1 ≤ ds.dim :=
    fun it hit => (hitems0 it hit).2
  have tree := fun {x : Nat} (ht : TreeReach ds (spanningTree ds) root x) (k : Fin n) =>
    reach_tree hσ hv hsize hdim hop hitems hr1 hr2 ht k
  -- the subgroup of elements joining sheet k and sheet ρ(g) k over the root
  let H : Subgroup (TGroup ds) :=
    { carrier := {g | ∀ k : Fin n, c.view.Reach c.view.indices (ds.size * k.val + root)
        (ds.size * (ρ g k).val + root)}
      one_mem' := by intro k; rw [map_one]; exact View.Reach.refl _
      mul_mem' := by
        intro a b ha hb k
        rw [map_mul, Equiv.Perm.mul_apply]
        exact (hb k).trans (ha (ρ b k))
      inv_mem' := by
        intro a ha k
        have := ha ((ρ a)⁻¹ k)
        have e : (ρ a) ((ρ a)⁻¹ k) = k := by simp
        rw [e] at this
        rw [map_inv]
        exact this.symm hpin }
  have hgen : ∀ j : ℕ, (PresentedGroup.of j : TGroup ds) ∈ H := by
    intro j
    by_cases hj : isCode ds j
    · rw [of_eq_xT hj]
      apply (Subgroup.inv_mem_iff H).1
      intro k
      obtain ⟨hf1, hf2, hf3⟩ := hj.1
      have hd := htree _ hf1 hf2
      have a := (tree hd k).2
      have b := reach_cross hσ hsize hdim hop hf3 hf1 hf2 k
      have hrng := hv.range _ _ hf3 hf1 hf2
      have cc := (tree (htree _ hrng.1 hrng.2) (tau ρ (decD ds j) (decI ds j) k)).2
      have : ρ (xT ds (decD ds j) (decI ds j))⁻¹ k = tau ρ (decD ds j) (decI ds j) k := by
        unfold tau; rw [map_inv]
      rw [this]
      exact (a.trans b).trans (cc.symm hpin)
    · rw [of_not_code hj]; exact H.one_mem
  have hall : ∀ g : TGroup ds, g ∈ H := fun g => PresentedGroup.generated_by _ H hgen g
  rw [isConnected_iff hpin]
  intro x hx1 hx2
  have hx2' : x ≤ n * ds.size := by rw [← hsize]; exact hx2
  have hp := cproj_range (d := x) hsz
  have hk := csheet_lt hsz hx1 hx2'
  obtain ⟨g, hg⟩ := htrans ⟨csheet ds.size x, hk⟩
  have h0 : c.view.Reach c.view.indices (ds.size * 0 + 1) (ds.size * (⟨0, hn⟩ : Fin n).val + root) :=
    ((tree (htree 1 (Nat.le_refl 1) hsz) ⟨0, hn⟩).2).symm hpin
  have h1 := hall g ⟨0, hn⟩
  rw [hg] at h1
  have h2 := (tree (htree _ hp.1 hp.2) ⟨csheet ds.size x, hk⟩).2
  have hx : ds.size * csheet ds.size x + cproj ds.size x = x := cdecomp hsz hx1
  simp only at h2
  rw [hx] at h2
  have h00 : ds.size * 0 + 1 = 1 := by omega
  rw [h00] at h0
  exact (h0.trans h1).trans h2

end DSymVerif.CoversP
