/-
Property C05, part 9c: the oriented double cover of a connected non-oriented symbol is connected.

If the two sheets over chamber 1 were not joined, every fibre would meet the component of `(0,1)`
in exactly one chamber (paths of the base lift, and the lift changes the sheet by a parity that
does not depend on the starting sheet), and the "true orientation" `sheet + sign` of that chamber
would be a proper 2-colouring of ALL edges of the base, loops included — the base would be
loopless and bipartite, i.e. `is_oriented()`.
-/
import DSymVerif.Proofs.CoversOrientedDeg

namespace DSymVerif.DS
open View

theorem xor_lt_two {k p : Nat} (hk : k < 2) (hp : p < 2) : k ^^^ p < 2 := by
  have : k = 0 ∨ k = 1 := by omega
  have : p = 0 ∨ p = 1 := by omega
  rcases ‹k = 0 ∨ k = 1› with rfl | rfl <;> rcases ‹p = 0 ∨ p = 1› with rfl | rfl <;> decide

theorem xor_xor_self {k p : Nat} (hk : k < 2) (hp : p < 2) : (k ^^^ p) ^^^ p = k := by
  have : k = 0 ∨ k = 1 := by omega
  have : p = 0 ∨ p = 1 := by omega
  rcases ‹k = 0 ∨ k = 1› with rfl | rfl <;> rcases ‹p = 0 ∨ p = 1› with rfl | rfl <;> decide

/-- a double cover whose sheet map switches sheets exactly across the edges with equal signs
    (signs total, values 1 or 2) of a connected base that is not `is_oriented()` is connected -/
theorem double_cover_connected {s : DSymData} (hs : ValidSet s.dset) (hsz : 1 ≤ s.size)
    {ori : Array Nat} (hori : ∀ x, 1 ≤ x → x ≤ s.size → ori.getD x 0 = 1 ∨ ori.getD x 0 = 2)
    {c : DSymData} (hc : ValidSet c.dset) (hsize : c.size = 2 * s.size) (hdim : c.dim = s.dim)
    (hop : ∀ i d, i ≤ s.dim → 1 ≤ d → d ≤ 2 * s.size →
      c.dset.opU i d = coverF s.dset (oriSheetMap s ori) i d)
    (hconn : s.view.isConnected = true) (hno : s.view.isOriented = false) :
    c.view.isConnected = true := by
  classical
  have hpinc : c.view.PInvol := by rw [c.view_eq]; exact hc.pinvol
  have hpins : s.view.PInvol := by rw [s.view_eq]; exact hs.pinvol
  have hcop : ∀ i d, i ≤ c.dim → 1 ≤ d → d ≤ c.size → c.view.op i d = some (c.dset.opU i d) :=
    fun i d hi h1 h2 => opSimple_eq_some.2 ⟨hi, h1, h2, rfl⟩
  have hsop : ∀ i b, i ≤ s.dim → 1 ≤ b → b ≤ s.size → s.op i b = some (s.dset.opU i b) :=
    fun i b hi h1 h2 => opSimple_eq_some.2 ⟨hi, h1, h2, rfl⟩
  have hsvop : ∀ i b, i ≤ s.dim → 1 ≤ b → b ≤ s.size → s.view.op i b = some (s.dset.opU i b) :=
    fun i b hi h1 h2 => opSimple_eq_some.2 ⟨hi, h1, h2, rfl⟩
  -- the operations of the cover on (k, b)
  have himg : ∀ i k b, i ≤ s.dim → k < 2 → 1 ≤ b → b ≤ s.size →
      c.view.op i (s.size * k + b) = some (s.size *
        (if ori.getD b 0 = ori.getD (s.dset.opU i b) 0 then k ^^^ 1 else k) + s.dset.opU i b) := by
    intro i k b hi hk h1 h2
    have hd := cmk_range (sz := s.size) (n := 2) hk h1 h2
    rw [hcop i _ (by rw [hdim]; exact hi) hd.1 (by rw [hsize]; exact hd.2), hop i _ hi hd.1 hd.2]
    have hmk : coverF s.dset (oriSheetMap s ori) i (s.size * k + b) =
        s.size * oriSheetMap s ori k i b + s.dset.opU i b := coverF_mk (s := s.dset) h1 h2
    rw [hmk]
    unfold oriSheetMap
    rw [hsop i b hi h1 h2]
  -- lifting of paths: the sheet changes by a parity that does not depend on the starting sheet
  have hlift : ∀ a b, s.view.Reach s.view.indices a b → 1 ≤ a → a ≤ s.size →
      (1 ≤ b ∧ b ≤ s.size) ∧ ∃ p, p < 2 ∧ ∀ k, k < 2 →
        c.view.Reach c.view.indices (s.size * k + a) (s.size * (k ^^^ p) + b) := by
    intro a b hr ha1 ha2
    induction hr with
    | refl => exact ⟨⟨ha1, ha2⟩, 0, by decide, fun k _ => by rw [Nat.xor_zero]; exact View.Reach.refl _⟩
    | @step e c' i _ hi hope ih =>
      obtain ⟨he, p, hp, hall⟩ := ih
      have hi' : i ≤ s.dim := (mem_indices s.view i).1 hi
      rw [hsvop i e hi' he.1 he.2] at hope
      have hc' : s.dset.opU i e = c' := Option.some.inj hope
      have hrng := hs.range i e hi' he.1 he.2
      rw [hc'] at hrng
      have hic : i ∈ c.view.indices := (mem_indices c.view i).2 (by
        show i ≤ c.dim
        rw [hdim]; exact hi')
      refine ⟨hrng, ?_⟩
      by_cases heq : ori.getD e 0 = ori.getD c' 0
      · refine ⟨p ^^^ 1, xor_lt_two hp (by decide), ?_⟩
        intro k hk
        have hkp := xor_lt_two hk hp
        have hstep := himg i (k ^^^ p) e hi' hkp he.1 he.2
        rw [hc', if_pos heq] at hstep
        have := View.Reach.step (hall k hk) hic hstep
        rw [Nat.xor_assoc] at this
        exact this
      · refine ⟨p, hp, ?_⟩
        intro k hk
        have hkp := xor_lt_two hk hp
        have hstep := himg i (k ^^^ p) e hi' hkp he.1 he.2
        rw [hc', if_neg heq] at hstep
        exact View.Reach.step (hall k hk) hic hstep
  have hsconn := (isConnected_iff hpins).1 hconn
  have h1s : (1 : Nat) ≤ s.size := hsz
  rw [isConnected_iff hpinc]
  by_contra hnot
  -- the two sheets over chamber 1 are not joined
  have hsep : ¬ c.view.Reach c.view.indices (s.size * 0 + 1) (s.size * 1 + 1) := by
    intro hjoin
    apply hnot
    intro x hx1 hx2
    have hx2' : x ≤ 2 * s.size := by rw [← hsize]; exact hx2
    have hp := cproj_range (d := x) hsz
    have hk := csheet_lt hsz hx1 hx2'
    have hx : s.size * csheet s.size x + cproj s.size x = x := cdecomp hsz hx1
    obtain ⟨_, p, hp2, hall⟩ := hlift 1 (cproj s.size x) (hsconn _ hp.1 hp.2) (Nat.le_refl 1) h1s
    have hkp := xor_lt_two hk hp2
    have h2 := hall (csheet s.size x ^^^ p) hkp
    rw [xor_xor_self hk hp2, hx] at h2
    have h00 : s.size * 0 + 1 = 1 := by omega
    have hcase : csheet s.size x ^^^ p = 0 ∨ csheet s.size x ^^^ p = 1 := by omega
    rcases hcase with e | e
    · rw [e, h00] at h2; exact h2
    · rw [e] at h2
      rw [h00] at hjoin
      exact hjoin.trans h2
  -- membership of the component of (0,1)
  let In0 : Nat → Prop := fun b => c.view.Reach c.view.indices (s.size * 0 + 1) (s.size * 0 + b)
  let In1 : Nat → Prop := fun b => c.view.Reach c.view.indices (s.size * 0 + 1) (s.size * 1 + b)
  have hsome : ∀ b, 1 ≤ b → b ≤ s.size → In0 b ∨ In1 b := by
    intro b hb1 hb2
    obtain ⟨_, p, hp2, hall⟩ := hlift 1 b (hsconn b hb1 hb2) (Nat.le_refl 1) h1s
    have h := hall 0 (by decide)
    have hcase : p = 0 ∨ p = 1 := by omega
    rcases hcase with rfl | rfl
    · exact Or.inl h
    · exact Or.inr h
  have hnotboth : ∀ b, 1 ≤ b → b ≤ s.size → In0 b → In1 b → False := by
    intro b hb1 hb2 h0 h1
    have hback := (hsconn b hb1 hb2).symm hpins
    obtain ⟨_, p, hp2, hall⟩ := hlift b 1 hback hb1 hb2
    have a0 := hall 0 (by decide)
    have a1 := hall 1 (by decide)
    have hcase : p = 0 ∨ p = 1 := by omega
    rcases hcase with rfl | rfl
    · -- (0,1) ~ (0,b) ~ (0,1)…: (0,b) → (0,1), (1,b) → (1,1)
      exact hsep (h1.trans a1)
    · -- (0,b) → (1,1)
      exact hsep (h0.trans a0)
  -- the colouring
  let col : Nat → Bool := fun b => xor (decide (In0 b)) (decide (ori.getD b 0 = 1))
  have hedge : ∀ i b, i ≤ s.dim → 1 ≤ b → b ≤ s.size → col (s.dset.opU i b) ≠ col b := by
    intro i b hi hb1 hb2
    have hrng := hs.range i b hi hb1 hb2
    have hic : i ∈ c.view.indices := (mem_indices c.view i).2 (by
      show i ≤ c.dim
      rw [hdim]; exact hi)
    have ho1 := hori b hb1 hb2
    have ho2 := hori _ hrng.1 hrng.2
    have hflip : ori.getD b 0 ≠ ori.getD (s.dset.opU i b) 0 →
        decide (ori.getD (s.dset.opU i b) 0 = 1) = !decide (ori.getD b 0 = 1) := by
      intro hne
      rcases ho1 with a | a <;> rcases ho2 with b' | b'
      · exact absurd (a.trans b'.symm) hne
      · rw [a, b']; decide
      · rw [a, b']; decide
      · exact absurd (a.trans b'.symm) hne
    show xor (decide (In0 (s.dset.opU i b))) (decide (ori.getD (s.dset.opU i b) 0 = 1)) ≠
      xor (decide (In0 b)) (decide (ori.getD b 0 = 1))
    by_cases hin : In0 b
    · have hstep := himg i 0 b hi (by decide) hb1 hb2
      by_cases heq : ori.getD b 0 = ori.getD (s.dset.opU i b) 0
      · rw [if_pos heq] at hstep
        have h1' : In1 (s.dset.opU i b) := View.Reach.step hin hic hstep
        have h0' : ¬ In0 (s.dset.opU i b) := fun h => hnotboth _ hrng.1 hrng.2 h h1'
        rw [decide_eq_true hin, decide_eq_false h0', ← heq]
        cases decide (ori.getD b 0 = 1) <;> decide
      · rw [if_neg heq] at hstep
        have h0' : In0 (s.dset.opU i b) := View.Reach.step hin hic hstep
        rw [decide_eq_true hin, decide_eq_true h0', hflip heq]
        cases decide (ori.getD b 0 = 1) <;> decide
    · have hin1 : In1 b := (hsome b hb1 hb2).resolve_left hin
      have hstep := himg i 1 b hi (by decide) hb1 hb2
      by_cases heq : ori.getD b 0 = ori.getD (s.dset.opU i b) 0
      · rw [if_pos heq] at hstep
        have h0' : In0 (s.dset.opU i b) := View.Reach.step hin1 hic hstep
        rw [decide_eq_false hin, decide_eq_true h0', ← heq]
        cases decide (ori.getD b 0 = 1) <;> decide
      · rw [if_neg heq] at hstep
        have h1' : In1 (s.dset.opU i b) := View.Reach.step hin1 hic hstep
        have h0' : ¬ In0 (s.dset.opU i b) := fun h => hnotboth _ hrng.1 hrng.2 h h1'
        rw [decide_eq_false hin, decide_eq_false h0', hflip heq]
        cases decide (ori.getD b 0 = 1) <;> decide
  -- so the base is oriented
  have : s.view.isOriented = true := by
    unfold View.isOriented
    rw [Bool.and_eq_true]
    constructor
    · unfold View.isLoopless
      simp only [List.all_eq_true, bne_iff_ne, ne_eq]
      intro i hi d hd
      have hi' : i ≤ s.dim := (mem_indices s.view i).1 hi
      have hd' := (mem_elements s.view d).1 hd
      rw [hsvop i d hi' hd'.1 hd'.2]
      intro heq
      have heq' : s.dset.opU i d = d := Option.some.inj heq
      have := hedge i d hi' hd'.1 hd'.2
      rw [heq'] at this
      exact this rfl
    · rw [isWeaklyOriented_iff hpins]
      refine ⟨col, ?_⟩
      intro i d e hi h1 h2 hope _
      have hi' : i ≤ s.dim := hi
      rw [hsvop i d hi' h1 h2] at hope
      have he : s.dset.opU i d = e := Option.some.inj hope
      rw [← he]
      exact hedge i d hi' h1 h2
  rw [hno] at this
  cases this

/-- **the oriented cover of a connected valid symbol is connected** -/
theorem orientedCover_connected (s : DSymData) (hs : ValidTables s) (hsz : 1 ≤ s.size) (hdim : 1 ≤ s.dim)
    (hconn : s.view.isConnected = true) {oc : DSymData} (hoc : orientedCover s = .ok oc) :
    oc.view.isConnected = true := by
  by_cases ho : s.view.isOriented = true
  · rw [orientedCover_eq, if_pos ho, asPartialDSym_self s hs hsz hdim] at hoc
    rw [← Outcome.ok.inj hoc]
    exact hconn
  · have hσ := oriSheetMap_compat s hs.set s.view.partialOrientation
    obtain ⟨c, hc, hsize, hdim', hct, hop, _⟩ := cover_ok s hs hsz hdim (n := 2) (by decide) hσ
    have hpin : s.view.PInvol := by rw [s.view_eq]; exact hs.set.pinvol
    rw [orientedCover_eq, if_neg ho, hc] at hoc
    rw [← Outcome.ok.inj hoc]
    have hno : s.view.isOriented = false := by
      cases h : s.view.isOriented with
      | true => exact absurd h ho
      | false => rfl
    exact double_cover_connected hs.set hsz (partialOrientation_total hpin) hct.set hsize hdim' hop
      hconn hno

end DSymVerif.DS
