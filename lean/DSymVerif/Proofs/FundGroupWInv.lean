/-
Helper lemmas for property C09, part 13: the geometric meaning of the ridge pairing.

If `(d,i,j) ↦ (opp, n)` then the walk that starts in chamber `d` and crosses facets `j, i, j, …`
alternately passes through `n` chambers; its first `n-1` crossings are glued non-mirror facets
(their ridges are no longer in the map) and it stops in front of the ridge `opp` — or, when `opp`
is the sentinel `(0,0,0)`, in front of a glued mirror.
-/
import DSymVerif.Proofs.FundGroupBnd
import DSymVerif.Proofs.FundGroupWalk

namespace DSymVerif.FGP
open DSymVerif DSymVerif.DS DSymVerif.FG

/-- the ridge met by crossing number `t` of the walk from `d` that crosses `j` first, then `i` -/
def crossR (ds : DSymData) (d i j t : Nat) : Ridge := (wk (opT ds) j i t d, ix j i t, ix i j t)

theorem wk_range {ds : DSymData} (hv : ValidSet ds.dset) {c : Nat} (h1 : 1 ≤ c) (h2 : c ≤ ds.size) :
    ∀ (t a b : Nat), 1 ≤ wk (opT ds) a b t c ∧ wk (opT ds) a b t c ≤ ds.size
  | 0, _, _ => ⟨h1, h2⟩
  | t + 1, a, b => by
    rw [wk_succ_last]
    have := wk_range hv h1 h2 t a b
    exact opT_range hv this.1 this.2

theorem ix_mem (a b t : Nat) : (ix a b t = a ∧ ix b a t = b) ∨ (ix a b t = b ∧ ix b a t = a) := by
  unfold ix
  rcases Nat.mod_two_eq_zero_or_one t with h | h
  · rw [h]; exact Or.inl ⟨rfl, rfl⟩
  · rw [h]; exact Or.inr ⟨by simp, by simp⟩

theorem crossR_rng {ds : DSymData} (hv : ValidSet ds.dset) {d i j : Nat} (h : Rng ds (d, i, j))
    (t : Nat) : Rng ds (crossR ds d i j t) := by
  have r := wk_range hv h.1 h.2.1 t j i
  unfold crossR Rng
  simp only
  rcases ix_mem j i t with ⟨h1, h2⟩ | ⟨h1, h2⟩
  · rw [h1, h2]; exact ⟨r.1, r.2, h.2.2.2.1, h.2.2.1, fun e => h.2.2.2.2 e.symm⟩
  · rw [h1, h2]; exact ⟨r.1, r.2, h.2.2.1, h.2.2.2.1, h.2.2.2.2⟩

/-- what the pairing entry `(d,i,j) ↦ (opp, n)` says about the walk from `d` -/
def WalkOK (ds : DSymData) (m : OppMap) (d i j : Nat) (opp : Ridge) (n : Nat) : Prop :=
  (∀ t, t + 1 < n → oppGet m (crossR ds d i j t) = none ∧
    opT ds (ix j i t) (wk (opT ds) j i t d) ≠ wk (opT ds) j i t d) ∧
  (opp = crossR ds d i j (n - 1) ∨
    (opp = zeroR ∧ oppGet m (crossR ds d i j (n - 1)) = none ∧
      opT ds (ix j i (n - 1)) (wk (opT ds) j i (n - 1) d) = wk (opT ds) j i (n - 1) d))

def WInv (ds : DSymData) (m : OppMap) : Prop :=
  ∀ d i j opp n, Rng ds (d, i, j) → oppGet m (d, i, j) = some (opp, n) → WalkOK ds m d i j opp n

theorem walkOK_mono {ds : DSymData} (hv : ValidSet ds.dset) {m m' : OppMap}
    (mono : ∀ r, Rng ds r → oppGet m r = none → oppGet m' r = none) {d i j : Nat}
    (hr : Rng ds (d, i, j)) {opp : Ridge} {n : Nat} (h : WalkOK ds m d i j opp n) :
    WalkOK ds m' d i j opp n := by
  refine ⟨fun t ht => ⟨mono _ (crossR_rng hv hr t) (h.1 t ht).1, (h.1 t ht).2⟩, ?_⟩
  rcases h.2 with h2 | ⟨h2, h3, h4⟩
  · exact Or.inl h2
  · exact Or.inr ⟨h2, mono _ (crossR_rng hv hr _) h3, h4⟩

/-- the walk from `x` that arrives in front of `(d,i,j)` after `n` chambers continues, once that
    facet is crossed, as the walk from `s_i d` -/
theorem cross_concat {ds : DSymData} {x p q d i j n : Nat} (hn : 1 ≤ n)
    (hend : crossR ds x p q (n - 1) = (d, i, j)) (s : Nat) :
    wk (opT ds) q p (n + s) x = wk (opT ds) j i s (opT ds i d) ∧
    ix q p (n + s) = ix j i s ∧ ix p q (n + s) = ix i j s := by
  unfold crossR at hend
  have e1 : wk (opT ds) q p (n - 1) x = d := congrArg Prod.fst hend
  have e2 : ix q p (n - 1) = i := congrArg (fun r : Ridge => r.2.1) hend
  have e3 : ix p q (n - 1) = j := congrArg (fun r : Ridge => r.2.2) hend
  have hn' : n = (n - 1) + 1 := by omega
  have w1 : wk (opT ds) q p n x = opT ds i d := by
    rw [hn', wk_succ_last, e1, e2]
  have i1 : ix q p n = j := by rw [hn', ix_succ, e3]
  have i2 : ix p q n = i := by rw [hn', ix_succ, e2]
  refine ⟨?_, ?_, ?_⟩
  · rw [wk_add, w1, i1, i2]
  · rw [ix_add, i1, i2]
  · rw [ix_add, i2, i1]

/-- joining the run that ends in front of `(d,i,j)` with the run that starts behind it -/
theorem walkOK_concat {ds : DSymData} (hv : ValidSet ds.dset) {m m' : OppMap}
    (mono : ∀ r, Rng ds r → oppGet m r = none → oppGet m' r = none)
    {x p q d i j : Nat} (hx : Rng ds (x, p, q)) (hd : Rng ds (d, i, j)) {Y : Ridge} {nA nB : Nat}
    (hnA : 1 ≤ nA) (hnB : 1 ≤ nB)
    (hX : WalkOK ds m x p q (d, i, j) nA)
    (hB : WalkOK ds m (opT ds i d) i j Y nB)
    (hgone : oppGet m' (d, i, j) = none) (hnm : opT ds i d ≠ d) :
    WalkOK ds m' x p q Y (nA + nB) := by
  have hend : crossR ds x p q (nA - 1) = (d, i, j) := by
    rcases hX.2 with h | ⟨h, _, _⟩
    · exact h.symm
    · have : d = 0 := congrArg Prod.fst h
      have := hd.1
      omega
  have hdr : Rng ds (opT ds i d, i, j) := by
    have := opT_range hv (a := i) hd.1 hd.2.1
    exact ⟨this.1, this.2, hd.2.2.1, hd.2.2.2.1, hd.2.2.2.2⟩
  have cc := cross_concat hnA hend
  have e1 : wk (opT ds) q p (nA - 1) x = d := congrArg Prod.fst hend
  have e2 : ix q p (nA - 1) = i := congrArg (fun r : Ridge => r.2.1) hend
  refine ⟨?_, ?_⟩
  · intro t ht
    rcases Nat.lt_or_ge (t + 1) nA with h1 | h1
    · exact ⟨mono _ (crossR_rng hv hx t) (hX.1 t h1).1, (hX.1 t h1).2⟩
    · rcases Nat.lt_or_ge t nA with h2 | h2
      · -- the crossing of the facet that has just been glued
        have : t = nA - 1 := by omega
        subst this
        rw [hend, e1, e2]
        exact ⟨hgone, hnm⟩
      · obtain ⟨s, rfl⟩ : ∃ s, t = nA + s := ⟨t - nA, by omega⟩
        have hs : s + 1 < nB := by omega
        have c := cc s
        unfold crossR
        rw [c.1, c.2.1, c.2.2]
        exact ⟨mono _ (crossR_rng hv hdr s) (hB.1 s hs).1, (hB.1 s hs).2⟩
  · have : nA + nB - 1 = nA + (nB - 1) := by omega
    rw [this]
    have c := cc (nB - 1)
    have ecr : crossR ds x p q (nA + (nB - 1)) = crossR ds (opT ds i d) i j (nB - 1) := by
      unfold crossR; rw [c.1, c.2.1, c.2.2]
    rw [ecr, c.1, c.2.1]
    rcases hB.2 with h | ⟨h1, h2, h3⟩
    · exact Or.inl h
    · exact Or.inr ⟨h1, mono _ (crossR_rng hv hdr _) h2, h3⟩

/-- preservation of the walk invariant by the non-mirror update of `glue` -/
theorem winv_nonmirror {ds : DSymData} (hv : ValidSet ds.dset) {m m' : OppMap} (hm : BInv ds m)
    (hw : WInv ds m) {d i j : Nat} {X Y : Ridge} {cA cB : Nat} (hA : Rng ds (d, i, j))
    (hAB : (d, i, j) ≠ partner ds (d, i, j))
    (gA : oppGet m (d, i, j) = some (X, cA)) (gB : oppGet m (partner ds (d, i, j)) = some (Y, cB))
    (hext : ∀ k, oppGet m' k = if k = partner ds (d, i, j) then none else if k = (d, i, j) then none
      else if k = Y then some (X, cA + cB) else if k = X then some (Y, cA + cB) else oppGet m k) :
    WInv ds m' := by
  have hBr : Rng ds (partner ds (d, i, j)) := rng_partner hv hA
  have hpe : partner ds (d, i, j) = (opT ds i d, i, j) := by
    unfold partner; simp only; rw [opT_eq hA.2.2.1 hA.1 hA.2.1]
  have hnmA : opT ds i d ≠ d := by
    intro e; apply hAB; rw [hpe, e]
  have hnmB : opT ds i (opT ds i d) ≠ opT ds i d := by
    rw [opT_invol hv]; exact fun e => hnmA e.symm
  have vA := hm.vals _ X cA gA
  have vB := hm.vals _ Y cB gB
  have sX : Rng ds X → oppGet m X = some ((d, i, j), cA) := fun h => hm.symm _ X cA hA gA h
  have sY : Rng ds Y → oppGet m Y = some (partner ds (d, i, j), cB) := fun h => hm.symm _ Y cB hBr gB h
  have mono : ∀ r, Rng ds r → oppGet m r = none → oppGet m' r = none := by
    intro r hr hn
    rw [hext r]
    split
    · rfl
    · split
      · rfl
      · split
        · rename_i h; rw [h, sY (h ▸ hr)] at hn; cases hn
        · split
          · rename_i h; rw [h, sX (h ▸ hr)] at hn; cases hn
          · exact hn
  have goneA : oppGet m' (d, i, j) = none := by rw [hext]; simp
  have goneB : oppGet m' (opT ds i d, i, j) = none := by rw [← hpe, hext]; simp
  have wA := hw d i j X cA hA gA
  have wB := hw _ i j Y cB (hpe ▸ hBr) (hpe ▸ gB)
  intro d' i' j' opp n hk gk
  rw [hext] at gk
  by_cases kB : (d', i', j') = partner ds (d, i, j)
  · rw [if_pos kB] at gk; cases gk
  · rw [if_neg kB] at gk
    by_cases kA : (d', i', j') = (d, i, j)
    · rw [if_pos kA] at gk; cases gk
    · rw [if_neg kA] at gk
      by_cases kY : (d', i', j') = Y
      · rw [if_pos kY] at gk
        cases gk
        -- the run from Y reaches B, crosses the glued facet, continues as the run from A
        have hY := hw d' i' j' _ cB hk (kY ▸ sY (kY ▸ hk))
        rw [hpe] at hY
        have wA' : WalkOK ds m (opT ds i (opT ds i d)) i j X cA := by
          rw [opT_invol hv]; exact wA
        have := walkOK_concat hv mono hk (hpe ▸ hBr) vB.1 vA.1 hY wA' goneB hnmB
        rw [Nat.add_comm] at this
        exact this
      · rw [if_neg kY] at gk
        by_cases kX : (d', i', j') = X
        · rw [if_pos kX] at gk
          cases gk
          have hX := hw d' i' j' _ cA hk (kX ▸ sX (kX ▸ hk))
          exact walkOK_concat hv mono hk hA vA.1 vB.1 hX wB goneA hnmA
        · rw [if_neg kX] at gk
          exact walkOK_mono hv mono hk (hw d' i' j' opp n hk gk)

/-- preservation of the walk invariant by the mirror update of `glue` -/
theorem winv_mirror {ds : DSymData} (hv : ValidSet ds.dset) {m m' : OppMap} (hm : BInv ds m)
    (hw : WInv ds m) {d i j : Nat} {X : Ridge} {cA : Nat} (hA : Rng ds (d, i, j))
    (hAA : partner ds (d, i, j) = (d, i, j))
    (gA : oppGet m (d, i, j) = some (X, cA))
    (hext : ∀ k, oppGet m' k = if k = (d, i, j) then none
      else if k = X then some (zeroR, cA) else oppGet m k) :
    WInv ds m' := by
  have hmir : opT ds i d = d := by
    rw [opT_eq hA.2.2.1 hA.1 hA.2.1]
    exact congrArg Prod.fst hAA
  have sX : Rng ds X → oppGet m X = some ((d, i, j), cA) := fun h => hm.symm _ X cA hA gA h
  have mono : ∀ r, Rng ds r → oppGet m r = none → oppGet m' r = none := by
    intro r hr hn
    rw [hext r]
    split
    · rfl
    · split
      · rename_i h; rw [h, sX (h ▸ hr)] at hn; cases hn
      · exact hn
  have goneA : oppGet m' (d, i, j) = none := by rw [hext]; simp
  intro d' i' j' opp n hk gk
  rw [hext] at gk
  by_cases kA : (d', i', j') = (d, i, j)
  · rw [if_pos kA] at gk; cases gk
  · rw [if_neg kA] at gk
    by_cases kX : (d', i', j') = X
    · rw [if_pos kX] at gk
      cases gk
      have hX := hw d' i' j' _ cA hk (kX ▸ sX (kX ▸ hk))
      have hend : crossR ds d' i' j' (cA - 1) = (d, i, j) := by
        rcases hX.2 with h | ⟨h, _, _⟩
        · exact h.symm
        · have : d = 0 := congrArg Prod.fst h
          have := hA.1
          omega
      refine ⟨fun t ht => ⟨mono _ (crossR_rng hv hk t) (hX.1 t ht).1, (hX.1 t ht).2⟩, Or.inr ⟨rfl, ?_, ?_⟩⟩
      · rw [hend]; exact goneA
      · have e1 : wk (opT ds) j' i' (cA - 1) d' = d := congrArg Prod.fst hend
        have e2 : ix j' i' (cA - 1) = i := congrArg (fun r : Ridge => r.2.1) hend
        rw [e1, e2]; exact hmir
    · rw [if_neg kX] at gk
      exact walkOK_mono hv mono hk (hw d' i' j' opp n hk gk)

end DSymVerif.FGP
