/-
The side condition `SmallRun` of `diagonalize_equiv` follows from the bound of the instrumented
model: if the largest intermediate absolute value stays below `isize::MAX` (the run is one the
`isize` implementation can represent), `find_pivot` never overlooks an entry.

Invariant `Bd mat b`: every entry of `mat` has absolute value `≤ b`; every `…B` routine returns a
bound that is at least its incoming bound and dominates the matrix it leaves.
-/
import DSymVerif.Proofs.InvariantsDiagonal
import DSymVerif.Proofs.InvariantsBound

namespace DSymVerif.Inv

def Bd (mat : Mat) (b : Nat) : Prop := ∀ r c, (get mat r c).natAbs ≤ b

/-! ### `mx`, inflationary folds -/

theorem mx_cons (b : Nat) (x : Int) (xs : List Int) : mx b (x :: xs) = mx (max b x.natAbs) xs := rfl

theorem mx_le (b : Nat) (xs : List Int) : b ≤ mx b xs := by
  induction xs generalizing b with
  | nil => exact Nat.le_refl _
  | cons x xs ih => rw [mx_cons]; exact Nat.le_trans (Nat.le_max_left _ _) (ih _)

theorem mx_mem (b : Nat) (xs : List Int) (x : Int) (h : x ∈ xs) : x.natAbs ≤ mx b xs := by
  induction xs generalizing b with
  | nil => simp at h
  | cons y xs ih =>
    rw [mx_cons]
    rcases List.mem_cons.mp h with rfl | h
    · exact Nat.le_trans (Nat.le_max_right _ _) (mx_le _ _)
    · exact ih _ h

theorem foldl_infl {α : Type} (F : Nat → α → Nat) (hF : ∀ b x, b ≤ F b x) (l : List α) (b : Nat) :
    b ≤ l.foldl F b := by
  induction l generalizing b with
  | nil => exact Nat.le_refl _
  | cons x l ih => rw [List.foldl_cons]; exact Nat.le_trans (hF b x) (ih _)

theorem foldl_infl_mem {α : Type} (F : Nat → α → Nat) (hF : ∀ b x, b ≤ F b x) (l : List α) (b : Nat)
    (x : α) (hx : x ∈ l) (y : Nat) (hy : ∀ b, y ≤ F b x) : y ≤ l.foldl F b := by
  induction l generalizing b with
  | nil => simp at hx
  | cons z l ih =>
    rw [List.foldl_cons]
    rcases List.mem_cons.mp hx with rfl | hx
    · exact Nat.le_trans (hy b) (foldl_infl F hF l _)
    · exact ih _ hx

theorem gcdxLoopB_le (a a' r r' s s' : Int) (b : Nat) : b ≤ gcdxLoopB a a' r r' s s' b := by
  fun_induction gcdxLoopB a a' r r' s s' b with
  | case1 => exact Nat.le_refl _
  | case2 a a' r r' s s' b hne q ih => exact Nat.le_trans (mx_le _ _) ih

theorem gcdxB_le (a b : Int) (bd : Nat) : bd ≤ gcdxB a b bd := by
  unfold gcdxB; exact Nat.le_trans (mx_le _ _) (gcdxLoopB_le _ _ _ _ _ _ _)

/-! ### entries outside the shape are 0; the initial bound -/

theorem getD_default {α : Type} (l : List α) (i : Nat) (d : α) (h : l.length ≤ i) : l.getD i d = d := by
  simp [List.getD_eq_getElem?_getD, List.getElem?_eq_none h]

theorem get_outside (mat : Mat) (n m k c : Nat) (hR : Rect mat n m) (h : n ≤ k ∨ m ≤ c) :
    get mat k c = 0 := by
  unfold get
  by_cases hk : k < n
  · have hc : m ≤ c := by omega
    exact getD_default _ _ _ (by rw [hR.row_length hk]; exact hc)
  · rw [getD_default mat k [] (by rw [hR.1]; omega)]; rfl

theorem Bd_of_inrange (mat : Mat) (n m b : Nat) (hR : Rect mat n m)
    (h : ∀ k c, k < n → c < m → (get mat k c).natAbs ≤ b) : Bd mat b := by
  intro k c
  by_cases hk : k < n ∧ c < m
  · exact h k c hk.1 hk.2
  · rw [get_outside mat n m k c hR (by omega)]; exact Nat.zero_le _

theorem matB_le (mat : Mat) (b : Nat) : b ≤ matB mat b := by
  unfold matB; exact foldl_infl mx mx_le mat b

theorem matB_bd (mat : Mat) (b : Nat) : Bd mat (matB mat b) := by
  intro r c
  unfold get
  by_cases hr : r < mat.length
  · by_cases hc : c < (mat.getD r []).length
    · have hrow : mat.getD r [] ∈ mat := by
        simp [List.getD_eq_getElem?_getD, List.getElem?_eq_getElem hr]
      have hx : (mat.getD r []).getD c 0 ∈ mat.getD r [] := getD_mem hc
      unfold matB
      exact foldl_infl_mem mx mx_le mat b _ hrow _ (fun b' => mx_mem b' _ _ hx)
    · rw [getD_default _ _ _ (by omega)]; exact Nat.zero_le _
  · rw [getD_default mat r [] (by omega)]; exact Nat.zero_le _

/-! ### `combineB`, one row step -/

theorem combineB_le (i : Nat) (p q : Int) (u w : List Int) (b : Nat) : b ≤ combineB i p q u w b := by
  unfold combineB
  apply foldl_infl
  intro b col
  split
  · exact mx_le _ _
  · exact Nat.le_refl _

theorem combineB_mem (i : Nat) (p q : Int) (u w : List Int) (b col : Nat) (hc : col < u.length)
    (hi : i ≤ col) : (u.getD col 0 * p + w.getD col 0 * q).natAbs ≤ combineB i p q u w b := by
  unfold combineB
  apply foldl_infl_mem _ _ _ _ col (List.mem_range.mpr hc)
  · intro b'
    rw [if_pos hi]
    exact mx_mem _ _ _ (by simp)
  · intro b col
    split
    · exact mx_le _ _
    · exact Nat.le_refl _

theorem clearRowStepB_spec (i n m : Nat) (mat : Mat) (cnt row b : Nat) (hR : Rect mat n m)
    (him : i < m) (hir : i < row) (hrn : row < n) (hB : Bd mat b) :
    b ≤ clearRowStepB i mat row b ∧ Bd (clearRowStep i (mat, cnt) row).1 (clearRowStepB i mat row b) := by
  have hin : i < n := by omega
  have hli : (mat.getD i []).length = m := hR.row_length hin
  have hlr : (mat.getD row []).length = m := hR.row_length hrn
  have hR' := (clearRowStep_spec i n m mat cnt row hR him hir hrn).1
  unfold clearRowStep clearRowStepB at *
  simp only at *
  by_cases hA : get mat i i ≠ 0 ∧ (get mat row i).tmod (get mat i i) = 0
  · rw [if_pos hA] at hR' ⊢
    rw [if_pos hA]
    have hle : b ≤ combineB i 1 (-(get mat row i).tdiv (get mat i i)) (mat.getD row []) (mat.getD i [])
        (mx b [(get mat row i).tmod (get mat i i), (get mat row i).tdiv (get mat i i)]) :=
      Nat.le_trans (mx_le _ _) (combineB_le _ _ _ _ _ _)
    refine ⟨hle, Bd_of_inrange _ n m _ hR' ?_⟩
    intro k c hk hc
    rw [get_set_row]
    by_cases hkr : row = k ∧ row < mat.length
    · rw [if_pos hkr, combine_getD _ _ _ _ _ _ (by rw [hlr]; exact hc)]
      by_cases hic : i ≤ c
      · rw [if_pos hic]; exact combineB_mem _ _ _ _ _ _ _ (by rw [hlr]; exact hc) hic
      · rw [if_neg hic]; exact Nat.le_trans (hB row c) hle
    · rw [if_neg hkr]; exact Nat.le_trans (hB k c) hle
  · rw [if_neg hA] at hR' ⊢
    rw [if_neg hA]
    by_cases hBc : get mat row i ≠ 0
    · rw [if_pos hBc] at hR' ⊢
      rw [if_pos hBc]
      have h0 : b ≤ gcdxB (get mat i i) (get mat row i) (mx b [(get mat row i).tmod (get mat i i)]) :=
        Nat.le_trans (mx_le _ _) (gcdxB_le _ _ _)
      have h1 := combineB_le i (gcdx (get mat i i) (get mat row i)).2.1
        (gcdx (get mat i i) (get mat row i)).2.2.1 (mat.getD i []) (mat.getD row [])
        (gcdxB (get mat i i) (get mat row i) (mx b [(get mat row i).tmod (get mat i i)]))
      have h2 := combineB_le i (gcdx (get mat i i) (get mat row i)).2.2.2.2
        (gcdx (get mat i i) (get mat row i)).2.2.2.1 (mat.getD row []) (mat.getD i [])
        (combineB i (gcdx (get mat i i) (get mat row i)).2.1
          (gcdx (get mat i i) (get mat row i)).2.2.1 (mat.getD i []) (mat.getD row [])
          (gcdxB (get mat i i) (get mat row i) (mx b [(get mat row i).tmod (get mat i i)])))
      have hle := Nat.le_trans h0 (Nat.le_trans h1 h2)
      refine ⟨hle, Bd_of_inrange _ n m _ hR' ?_⟩
      intro k c hk hc
      rw [get_set_row]
      by_cases hkr : row = k ∧ row < (List.set mat i (combine i (gcdx (get mat i i) (get mat row i)).2.1
          (gcdx (get mat i i) (get mat row i)).2.2.1 (mat.getD i []) (mat.getD row []))).length
      · rw [if_pos hkr, combine_getD _ _ _ _ _ _ (by rw [hlr]; exact hc)]
        by_cases hic : i ≤ c
        · rw [if_pos hic]; exact combineB_mem _ _ _ _ _ _ _ (by rw [hlr]; exact hc) hic
        · rw [if_neg hic]; exact Nat.le_trans (hB row c) hle
      · rw [if_neg hkr, get_set_row]
        by_cases hki : i = k ∧ i < mat.length
        · rw [if_pos hki, combine_getD _ _ _ _ _ _ (by rw [hli]; exact hc)]
          by_cases hic : i ≤ c
          · rw [if_pos hic]
            exact Nat.le_trans (combineB_mem _ _ _ _ _ _ _ (by rw [hli]; exact hc) hic) h2
          · rw [if_neg hic]; exact Nat.le_trans (hB i c) hle
        · rw [if_neg hki]; exact Nat.le_trans (hB k c) hle
    · rw [if_neg hBc]
      rw [if_neg hBc]
      exact ⟨Nat.le_refl _, hB⟩

theorem clearLaterRowsB_spec (i n m : Nat) (mat : Mat) (b : Nat) (hR : Rect mat n m) (him : i < m)
    (hB : Bd mat b) :
    b ≤ (clearLaterRowsB mat i b).2 ∧ Bd (clearLaterRowsB mat i b).1.1 (clearLaterRowsB mat i b).2 ∧
    Rect (clearLaterRowsB mat i b).1.1 n m := by
  unfold clearLaterRowsB
  rw [hR.nrows]
  apply foldl_preserves
    (fun (p : (Mat × Nat) × Nat) => b ≤ p.2 ∧ Bd p.1.1 p.2 ∧ Rect p.1.1 n m)
    (fun p row => (clearRowStep i p.1 row, clearRowStepB i p.1.1 row p.2))
    (fun row => i < row ∧ row < n)
  · intro p row ⟨h1, h2⟩ ⟨hb, hbd, hr⟩
    obtain ⟨a1, a2⟩ := clearRowStepB_spec i n m p.1.1 p.1.2 row p.2 hr him h1 h2 hbd
    exact ⟨Nat.le_trans hb a1, a2, (clearRowStep_spec i n m p.1.1 p.1.2 row hr him h1 h2).1⟩
  · intro row hrow; rw [List.mem_range'_1] at hrow; omega
  · exact ⟨Nat.le_refl _, hB, hR⟩

/-! ### one column step -/

theorem colOpsB_le (i col : Nat) (p q r s : Int) (mat : Mat) (b : Nat) :
    b ≤ colOpsB i col p q r s mat b := by
  unfold colOpsB
  apply foldl_infl
  intro b rw
  split
  · unfold colOpB; exact mx_le _ _
  · exact Nat.le_refl _

theorem colOpsB_mem (i col : Nat) (p q r s : Int) (mat : Mat) (b k : Nat) (hk : k < mat.length)
    (hik : i ≤ k) :
    (get mat k i * p + get mat k col * q).natAbs ≤ colOpsB i col p q r s mat b ∧
    (get mat k i * r + get mat k col * s).natAbs ≤ colOpsB i col p q r s mat b := by
  unfold colOpsB
  constructor
  · apply foldl_infl_mem _ _ _ _ k (List.mem_range.mpr hk)
    · intro b'
      rw [if_pos hik]
      unfold colOpB
      exact mx_mem _ _ _ (by simp [get])
    · intro b rw
      split
      · unfold colOpB; exact mx_le _ _
      · exact Nat.le_refl _
  · apply foldl_infl_mem _ _ _ _ k (List.mem_range.mpr hk)
    · intro b'
      rw [if_pos hik]
      unfold colOpB
      exact mx_mem _ _ _ (by simp [get])
    · intro b rw
      split
      · unfold colOpB; exact mx_le _ _
      · exact Nat.le_refl _

theorem colOps_bd (i col n m : Nat) (p q r s : Int) (mat : Mat) (b b' : Nat) (hR : Rect mat n m)
    (hic : i < col) (hcm : col < m) (hB : Bd mat b) (hle : b ≤ b') :
    Bd (mat.mapIdx (fun rw rowv => if i ≤ rw then colOp i col p q r s rowv else rowv))
      (colOpsB i col p q r s mat b') := by
  have hle2 : b ≤ colOpsB i col p q r s mat b' := Nat.le_trans hle (colOpsB_le _ _ _ _ _ _ _ _)
  apply Bd_of_inrange _ n m _ (rect_mapIdx_colOp _ _ _ _ _ _ _ _ _ hR)
  intro k c hk hc
  rw [get_mapIdx_colOp i col n m p q r s mat hR (by omega) (by omega) hcm k c hk]
  by_cases hik : i ≤ k
  · rw [if_pos hik]
    obtain ⟨m1, m2⟩ := colOpsB_mem i col p q r s mat b' k (by rw [hR.1]; exact hk) hik
    by_cases hci : c = i
    · rw [if_pos hci]; exact m1
    · rw [if_neg hci]
      by_cases hcc : c = col
      · rw [if_pos hcc]; exact m2
      · rw [if_neg hcc]; exact Nat.le_trans (hB k c) hle2
  · rw [if_neg hik]; exact Nat.le_trans (hB k c) hle2

theorem clearColStepB_spec (i n m : Nat) (mat : Mat) (cnt col b : Nat) (hR : Rect mat n m)
    (hin : i < n) (hic : i < col) (hcm : col < m) (hB : Bd mat b) :
    b ≤ clearColStepB i mat col b ∧ Bd (clearColStep i (mat, cnt) col).1 (clearColStepB i mat col b) := by
  unfold clearColStep clearColStepB
  simp only
  by_cases hA : get mat i i ≠ 0 ∧ (get mat i col).tmod (get mat i i) = 0
  · rw [if_pos hA, if_pos hA]
    have h0 : b ≤ mx b [(get mat i col).tmod (get mat i i), (get mat i col).tdiv (get mat i i)] :=
      mx_le _ _
    exact ⟨Nat.le_trans h0 (colOpsB_le _ _ _ _ _ _ _ _),
      colOps_bd i col n m _ _ _ _ mat b _ hR hic hcm hB h0⟩
  · rw [if_neg hA, if_neg hA]
    by_cases hBc : get mat i col ≠ 0
    · rw [if_pos hBc, if_pos hBc]
      have h0 : b ≤ gcdxB (get mat i i) (get mat i col) (mx b [(get mat i col).tmod (get mat i i)]) :=
        Nat.le_trans (mx_le _ _) (gcdxB_le _ _ _)
      exact ⟨Nat.le_trans h0 (colOpsB_le _ _ _ _ _ _ _ _),
        colOps_bd i col n m _ _ _ _ mat b _ hR hic hcm hB h0⟩
    · rw [if_neg hBc, if_neg hBc]
      exact ⟨Nat.le_refl _, hB⟩

theorem clearLaterColsB_spec (i n m : Nat) (mat : Mat) (b : Nat) (hR : Rect mat n m) (hin : i < n)
    (hB : Bd mat b) :
    b ≤ (clearLaterColsB mat i b).2 ∧ Bd (clearLaterColsB mat i b).1.1 (clearLaterColsB mat i b).2 ∧
    Rect (clearLaterColsB mat i b).1.1 n m := by
  unfold clearLaterColsB
  rw [hR.ncols (by omega)]
  apply foldl_preserves
    (fun (p : (Mat × Nat) × Nat) => b ≤ p.2 ∧ Bd p.1.1 p.2 ∧ Rect p.1.1 n m)
    (fun p col => (clearColStep i p.1 col, clearColStepB i p.1.1 col p.2))
    (fun col => i < col ∧ col < m)
  · intro p col ⟨h1, h2⟩ ⟨hb, hbd, hr⟩
    obtain ⟨a1, a2⟩ := clearColStepB_spec i n m p.1.1 p.1.2 col p.2 hr hin h1 h2 hbd
    exact ⟨Nat.le_trans hb a1, a2, (clearColStep_spec i n m p.1.1 p.1.2 col hr hin h1 h2).1⟩
  · intro col hcol; rw [List.mem_range'_1] at hcol; omega
  · exact ⟨Nat.le_refl _, hB, hR⟩

/-! ### inner loop, pivot move, one outer step -/

theorem innerLoopB_spec (i n m : Nat) (hin : i < n) (him : i < m) (fuel : Nat) (mat M : Mat)
    (b bf : Nat) (hR : Rect mat n m) (hB : Bd mat b) (h : innerLoopB fuel mat i b = (some M, bf)) :
    b ≤ bf ∧ Bd M bf := by
  induction fuel generalizing mat b with
  | zero => unfold innerLoopB at h; cases h
  | succ fuel ih =>
    unfold innerLoopB at h
    simp only at h
    obtain ⟨l1, b1, r1⟩ := clearLaterRowsB_spec i n m mat b hR him hB
    obtain ⟨l2, b2, r2⟩ := clearLaterColsB_spec i n m _ _ r1 hin b1
    split at h
    · injection h with h1 h2
      injection h1 with h1
      subst h1; subst h2
      exact ⟨Nat.le_trans l1 l2, b2⟩
    · obtain ⟨l3, b3⟩ := ih _ _ r2 b2 h
      exact ⟨Nat.le_trans l1 (Nat.le_trans l2 l3), b3⟩

theorem movePivot_bd (mat : Mat) (n m i r c b : Nat) (hR : Rect mat n m) (hin : i < n) (him : i < m)
    (hr : r < n) (hc : c < m) (hB : Bd mat b) : Bd (movePivot mat i (r, c)) b := by
  have hR' := (movePivot_spec mat n m i r c hR hin him hr hc).1
  apply Bd_of_inrange _ n m _ hR'
  intro k c' hk hc'
  unfold movePivot
  simp only
  by_cases h1 : r ≠ i
  · rw [if_pos h1]
    have hR1 := rect_swapRows mat n m r i hR hr hin
    by_cases h2 : c ≠ i
    · rw [if_pos h2, get_swapCols_full _ n m c i k c' hR1 hk hc him,
        get_swapRows_full mat n m r i k _ hR hr hin]
      exact hB _ _
    · rw [if_neg h2, get_swapRows_full mat n m r i k _ hR hr hin]; exact hB _ _
  · rw [if_neg h1]
    by_cases h2 : c ≠ i
    · rw [if_pos h2, get_swapCols_full _ n m c i k c' hR hk hc him]; exact hB _ _
    · rw [if_neg h2]; exact hB _ _

theorem set_abs_bd (M : Mat) (n m i b : Nat) (hR : Rect M n m) (hin : i < n) (him : i < m)
    (hB : Bd M b) : Bd (set M i i ((get M i i).natAbs : Int)) b := by
  intro k c
  by_cases h : k = i ∧ c = i
  · rw [h.1, h.2, get_set_self M n m i _ hR hin him]
    have := hB i i
    omega
  · rw [get_set_ne _ _ _ _ _ _ (by omega)]; exact hB k c

theorem diagStepB_spec (mat M : Mat) (n m i b bf : Nat) (hR : Rect mat n m) (hin : i < n)
    (him : i < m) (hB : Bd mat b) (h : diagStepB mat i b = (some M, bf)) : b ≤ bf ∧ Bd M bf := by
  unfold diagStepB at h
  simp only at h
  obtain ⟨hb1, hb2⟩ := findPivot_bounds mat i n m hR.nrows (hR.ncols (by omega)) hin him
  by_cases hp : get mat (findPivot mat i).1 (findPivot mat i).2 ≠ 0
  · rw [if_pos hp] at h
    obtain ⟨hR', hg⟩ := movePivot_spec mat n m i (findPivot mat i).1 (findPivot mat i).2 hR hin him hb1 hb2
    have hB' := movePivot_bd mat n m i (findPivot mat i).1 (findPivot mat i).2 b hR hin him hb1 hb2 hB
    rw [show (findPivot mat i) = ((findPivot mat i).1, (findPivot mat i).2) from rfl] at h
    cases hL : innerLoopB ((get (movePivot mat i ((findPivot mat i).1, (findPivot mat i).2)) i i).natAbs + 1)
        (movePivot mat i ((findPivot mat i).1, (findPivot mat i).2)) i b with
    | mk o b1 =>
      rw [hL] at h
      cases o with
      | none => simp only at h; cases h
      | some L =>
        simp only at h
        injection h with h1 h2
        injection h1 with h1
        subst h1; subst h2
        obtain ⟨l, bL⟩ := innerLoopB_spec i n m hin him _ _ L b b1 hR' hB' hL
        have hRL : Rect L n m := by
          have he : get (movePivot mat i ((findPivot mat i).1, (findPivot mat i).2)) i i ≠ 0 := by
            rw [hg]; exact hp
          obtain ⟨L', hL', hRL'⟩ := innerLoop_fuel i n m hin him _ _ hR' he (Nat.lt_succ_self _)
          have := innerLoopB_fst ((get (movePivot mat i ((findPivot mat i).1, (findPivot mat i).2)) i i).natAbs + 1)
            (movePivot mat i ((findPivot mat i).1, (findPivot mat i).2)) i b
          rw [hL] at this
          simp only at this
          rw [← this] at hL'; injection hL' with hL'; rw [hL']; exact hRL'
        exact ⟨l, set_abs_bd L n m i b1 hRL hin him bL⟩
  · rw [if_neg hp] at h
    simp only at h
    injection h with h1 h2
    injection h1 with h1
    subst h1; subst h2
    exact ⟨Nat.le_refl _, set_abs_bd mat n m i b hR hin him hB⟩

/-! ### the whole run -/

theorem diagFromB_small (n m : Nat) (is : List Nat) (mat : Mat) (b : Nat) (hR : Rect mat n m)
    (his : ∀ i ∈ is, i < n ∧ i < m) (hB : Bd mat b)
    (hf : ((diagFromB is mat b).2 : Int) < isizeMax) :
    b ≤ (diagFromB is mat b).2 ∧ SmallRun is mat := by
  induction is generalizing mat b with
  | nil => exact ⟨Nat.le_refl _, trivial⟩
  | cons i is ih =>
    obtain ⟨h1, h2⟩ := his i List.mem_cons_self
    obtain ⟨M, hM, hRM⟩ := diagStep_some mat n m i hR h1 h2
    have hfst := diagStepB_fst mat i b
    cases hS : diagStepB mat i b with
    | mk o b1 =>
      rw [hS] at hfst
      simp only at hfst
      rw [hM] at hfst
      subst hfst
      obtain ⟨l1, bM⟩ := diagStepB_spec mat M n m i b b1 hR h1 h2 hB hS
      have hstep : diagFromB (i :: is) mat b = diagFromB is M b1 := by
        rw [diagFromB, hS]
      rw [hstep] at hf ⊢
      obtain ⟨l2, sr⟩ := ih M b1 hRM (fun j hj => his j (List.mem_cons_of_mem _ hj)) bM hf
      refine ⟨Nat.le_trans l1 l2, ?_, ?_⟩
      · intro r c
        have := hB r c
        omega
      · intro M' hM'
        rw [hM] at hM'; injection hM' with hM'; subst hM'
        exact sr

/-- a run whose largest intermediate absolute value stays below `isize::MAX` is a `SmallRun` -/
theorem smallRun_of_bound (mat : Mat) (n m b0 : Nat) (hR : Rect mat n m) (hn : 0 < n)
    (hf : ((diagonalizeB mat b0).2 : Int) < isizeMax) : SmallRun (List.range (min n m)) mat := by
  unfold diagonalizeB at hf
  rw [hR.nrows, hR.ncols hn] at hf
  exact (diagFromB_small n m _ mat (matB mat b0) hR
    (by intro i hi; rw [List.mem_range] at hi; omega) (matB_bd mat b0) hf).2

end DSymVerif.Inv
