/-
C11 soundness, part 2: with the coset map of `Proofs/CosetSound.lean` the stabiliser of
row 0 of the returned table is exactly `H`, hence `rows = [G : H]`.
-/
import DSymVerif.Proofs.CosetSound
import DSymVerif.Proofs.CosetBfs

namespace DSymVerif.CosetSoundP
open DSymVerif DSymVerif.Cosets DSymVerif.LowIndexP DSymVerif.CosetPartP DSymVerif.CosetInvP DSymVerif.CosetP
open DSymVerif.SpecC11

variable {n : Nat} {rels subs : List (List Int)}

theorem letterElt_of (i : Fin n) : letterElt n ((i.val : Int) + 1) = FreeGroup.of i := by
  unfold letterElt
  have h1 : 1 ≤ (i.val : Int) + 1 ∧ (i.val : Int) + 1 ≤ n := by have := i.isLt; omega
  simp only [h1, and_self, dif_pos]
  congr 1


/-- every element of the free group is spelled by a word over the letters `±1..±n` -/
theorem exists_word (y : FreeGroup (Fin n)) : ∃ w : List Int, (∀ x ∈ w, x ∈ allGensOf n) ∧ wordElt n w = y := by
  induction y using FreeGroup.induction_on with
  | C1 => exact ⟨[], (fun _ h => by cases h), rfl⟩
  | of i =>
    refine ⟨[(i.val : Int) + 1], ?_, by simp [wordElt, letterElt_of]⟩
    intro x hx
    simp only [List.mem_singleton] at hx
    subst hx
    rw [mem_allGensOf]; left; have := i.isLt; omega
  | inv_of i _ =>
    have hm : ((i.val : Int) + 1) ∈ allGensOf n := by rw [mem_allGensOf]; left; have := i.isLt; omega
    refine ⟨[-((i.val : Int) + 1)], ?_, by
      have := letterElt_neg hm
      rw [letterElt_of] at this
      simp only [wordElt, List.map_cons, List.map_nil, List.prod_cons, List.prod_nil, mul_one]
      exact this⟩
    intro x hx
    simp only [List.mem_singleton] at hx
    subst hx
    exact neg_mem_allGensOf hm
  | mul a b iha ihb =>
    obtain ⟨wa, ha, ea⟩ := iha
    obtain ⟨wb, hb, eb⟩ := ihb
    refine ⟨wa ++ wb, ?_, by rw [wordElt_append, ea, eb]⟩
    intro x hx
    rcases List.mem_append.mp hx with h | h
    · exact ha x h
    · exact hb x h

theorem exists_wbar (x : G n rels) : ∃ w : List Int, (∀ y ∈ w, y ∈ allGensOf n) ∧ wbar n rels w = x := by
  obtain ⟨y, rfl⟩ := PresentedGroup.mk_surjective (relSet n rels) x
  obtain ⟨w, hw, e⟩ := exists_word y
  exact ⟨w, hw, by simp [wbar, e]⟩

/-- **soundness of the enumeration**: whenever the modelled `coset_table` returns a table for
    words over the letters `±1..±n`, the table passes the Spec and its number of rows is
    exactly the index `[G : H]` of `H = ⟨subs⟩` in `G = ⟨1..n | rels⟩`. -/
theorem cosetTable_index {t : Table} (hr : ∀ w ∈ rels, ∀ x ∈ w, x ∈ allGensOf n)
    (hs : ∀ w ∈ subs, ∀ x ∈ w, x ∈ allGensOf n) (h : cosetTable n rels subs = .ok t) :
    ∃ v, t.view = .ok v ∧ validTable (viewTab v) n rels subs = true ∧
      (subgroupOf n rels subs).index = (viewTab v).size := by
  unfold cosetTable at h
  cases hraw : cosetTableRaw n rels subs with
  | ok T =>
    simp only [hraw] at h
    obtain ⟨inv, hcomp, hclosed, hn⟩ := cosetTableRaw_final hr hs hraw
    obtain ⟨Λ, snd⟩ := cosetTableRaw_snd hr hs hraw
    have hgens : T.allGens = allGensOf n := by unfold Table.allGens; rw [hn]
    have hwr : ∀ w ∈ rels, WordOK T w := fun w hw x hx => by rw [hgens]; exact hr w hw x hx
    have hws : ∀ w ∈ subs, WordOK T w := fun w hw x hx => by rw [hgens]; exact hs w hw x hx
    obtain ⟨v, φ, h1, hv, _, hφ0, hent, hinj⟩ := compact_view_valid inv hcomp hn hr hs
      (fun w hw k hk hkl => closed_word inv hcomp (hwr w hw) hk hkl (hclosed.1 k hkl w hw))
      (fun w hw => by
        have hcl : scanAndMerge T w (T.canon 0) = .ok (T, false) := by
          rw [scanAndMerge_canon inv.shape]; exact hclosed.2 w hw
        exact closed_word inv hcomp (hws w hw) (canon_idem inv.shape 0)
          (canon_lt inv.shape inv.shape.pos) hcl) h
    refine ⟨v, h1, RebaseP.validTable_of_valid hv, ?_⟩
    -- the stabiliser of row 0 is exactly H
    have hle : subgroupOf n rels subs ≤ stab0 hv := subgroupOf_le_stab0 hv
    have hge : stab0 hv ≤ subgroupOf n rels subs := by
      intro x hx
      rw [mem_stab0] at hx
      obtain ⟨w, hw, rfl⟩ := exists_wbar (rels := rels) x
      have hwl : ∀ g ∈ w, g ∈ letters n := fun g hg => by
        rw [← CosetP.allGensOf_eq_letters]; exact hw g hg
      obtain ⟨d, hd⟩ := traceWord_total hv w 0 hv.pos hwl
      have hlt := lift_trace hv w ⟨0, hv.pos⟩ d hd
      have hfix : actionHom hv (PresentedGroup.mk _ (wordElt n w)) ⟨0, hv.pos⟩ = ⟨0, hv.pos⟩ := hx
      rw [actionHom_mk] at hfix
      have hinvfix : (FreeGroup.lift (genImg hv) (wordElt n w))⁻¹ ⟨0, hv.pos⟩ = ⟨0, hv.pos⟩ := by
        rw [Equiv.Perm.inv_eq_iff_eq]; exact hfix.symm
      rw [hinvfix] at hlt
      have hd0 : d = 0 := hlt.symm
      subst hd0
      -- back in the raw table
      have hwT : WordOK T w := fun g hg => by rw [hgens]; exact hw g hg
      obtain ⟨d', hd'⟩ := mtrace_total inv hcomp w (T.canon 0) hwT (canon_idem inv.shape 0)
        (canon_lt inv.shape inv.shape.pos)
      have htr := traceWord_of_entries hent inv.shape w _ _ hwT (canon_idem inv.shape 0)
        (canon_lt inv.shape inv.shape.pos) hd'
      rw [hφ0, hd] at htr
      injection htr with htr
      have hd'c := mtrace_canon inv.shape w _ d' (canon_idem inv.shape 0) hd'
      have hd'l := mtrace_lt inv.shape w _ d' hwT (canon_lt inv.shape inv.shape.pos) hd'
      have hd'eq : d' = T.canon 0 := hinj d' (T.canon 0) hd'c hd'l (canon_idem inv.shape 0)
        (canon_lt inv.shape inv.shape.pos) (by rw [← htr, hφ0])
      rw [hd'eq] at hd'
      have hΛ := snd.trace w _ _ hwT hd'
      rw [snd.cls, snd.base, MulAction.Quotient.smul_mk, QuotientGroup.eq] at hΛ
      simp only [smul_eq_mul, mul_one, inv_one, one_mul] at hΛ
      have := (Subgroup.inv_mem_iff _).mp hΛ
      exact this
    have heq : subgroupOf n rels subs = stab0 hv := le_antisymm hle hge
    rw [heq, index_stab0 hv]
  | err => simp [hraw] at h
  | panic => simp [hraw] at h

end DSymVerif.CosetSoundP
