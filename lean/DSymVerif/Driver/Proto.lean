/-
Line protocol shared by all per-property drivers (import-free: links natively).

The Rust harness prints, per explored case,
    IN  <id> <op> <tokens…>
    OUT <id> <tokens…>            (or `OUT <id> PANIC`, `OUT <id> ERR`)
The driver answers
    MODEL <id> <tokens…>          (`-` when the op has no model observable)
    SPEC  <id> ok | fail <clause>
`handler op inTokens outTokens = (modelPayload, specVerdict)` is a pure function.
-/
namespace DSymVerif.Proto

abbrev Handler := String → Array String → Array String → String × String

def toks (line : String) : Array String :=
  ((line.trimAscii.toString.splitOn " ").filter (· ≠ "")).toArray

def joinToks (xs : List String) : String := " ".intercalate xs

def intsToString (xs : List Int) : String := joinToks (xs.map toString)
def natsToString (xs : List Nat) : String := joinToks (xs.map toString)

/-- A token cursor for decoding length-prefixed data. -/
structure Cur where
  a : Array String
  i : Nat := 0

abbrev P := StateT Cur Option

def P.tok : P String := fun c =>
  if h : c.i < c.a.size then some (c.a[c.i], { c with i := c.i + 1 }) else none

def P.int : P Int := do
  let t ← P.tok
  match t.toInt? with
  | some v => pure v
  | none => failure

def P.nat : P Nat := do
  let t ← P.tok
  match t.toNat? with
  | some v => pure v
  | none => failure

def P.rep {α} (n : Nat) (p : P α) : P (List α) :=
  match n with
  | 0 => pure []
  | k + 1 => do
    let x ← p
    let xs ← P.rep k p
    pure (x :: xs)

/-- `len x₁ … x_len` -/
def P.ints : P (List Int) := do let n ← P.nat; P.rep n P.int
def P.nats : P (List Nat) := do let n ← P.nat; P.rep n P.nat
/-- list of lists, each length-prefixed -/
def P.intss : P (List (List Int)) := do let n ← P.nat; P.rep n P.ints
def P.natss : P (List (List Nat)) := do let n ← P.nat; P.rep n P.nats

def P.atEnd : P Bool := fun c => some (decide (c.i ≥ c.a.size), c)

def P.rest : P (List String) := fun c => some ((c.a.toList.drop c.i), { c with i := c.a.size })

def run {α} (p : P α) (a : Array String) : Option α := (p { a := a }).map (·.1)

def encInts (xs : List Int) : String := joinToks (toString xs.length :: xs.map toString)
def encNats (xs : List Nat) : String := joinToks (toString xs.length :: xs.map toString)
def encIntss (xss : List (List Int)) : String :=
  joinToks (toString xss.length :: xss.map encInts)
def encNatss (xss : List (List Nat)) : String :=
  joinToks (toString xss.length :: xss.map encNats)

partial def loop (h : Handler) (inp out : IO.FS.Stream)
    (pendId : String) (pendOp : String) (pendArgs : Array String) : IO Unit := do
  let line ← inp.getLine
  if line.isEmpty then
    out.flush
    return ()
  let t := toks line
  if t.size ≥ 3 && t[0]! == "IN" then
    loop h inp out t[1]! t[2]! (t.extract 3 t.size)
  else if t.size ≥ 2 && t[0]! == "OUT" then
    let id := t[1]!
    if id == pendId then
      let (m, s) := h pendOp pendArgs (t.extract 2 t.size)
      out.putStrLn s!"MODEL {id} {m}"
      out.putStrLn s!"SPEC {id} {s}"
    else
      out.putStrLn s!"SPEC {id} fail protocol-unpaired-out"
    loop h inp out "" "" #[]
  else
    loop h inp out pendId pendOp pendArgs

def mainWith (h : Handler) : IO Unit := do
  let inp ← IO.getStdin
  let out ← IO.getStdout
  loop h inp out "" "" #[]

/-- verdict helpers -/
def ok : String := "ok"
def fail (clause : String) : String := s!"fail {clause}"
def check (clauses : List (String × Bool)) : String :=
  match clauses.find? (fun c => !c.2) with
  | some c => fail c.1
  | none => ok

end DSymVerif.Proto
