/-
The Spec views the C04 driver takes of transmitted tables (import-free of Mathlib, links
natively): `specS` for Spec/C04.lean, and the domain test of the theorems (`SpecC03.inDomain`:
dim ≥ 1, total involutions of 1..size, commuting far operations, branching numbers constant on
2-orbits, connected).  `Props/C04.lean` (`driver_decoding_agrees`) proves that on every in-domain
input `specS` describes the very symbol the model computes with.
-/
import DSymVerif.Driver.SymIO
import DSymVerif.Spec.C03
import DSymVerif.Spec.C04

namespace DSymVerif.DrvC04View
open DSymVerif.Proto DSymVerif.SpecC04

/-- Spec view of transmitted tables (op = 0 outside 1..size × 0..dim) -/
def specS (s : RawSym) : S :=
  { size := s.size, dim := s.dim,
    op := fun i d => if i > s.dim || d < 1 || d > s.size then 0 else
      let e := s.opAt i d
      if e > s.size then 0 else e,
    v := fun i d => if i ≥ s.dim || d < 1 || d > s.size then 0 else s.vAt i d }

/-- the tables in the layout of Spec/C03.lean -/
def toSpecC03 (s : RawSym) : DSymVerif.SpecC03.Sym := { size := s.size, dim := s.dim, op := s.op, v := s.v }

/-- the input is a connected complete D-symbol in the sense of the theorems -/
def inDomain (s : RawSym) : Bool := DSymVerif.SpecC03.inDomain (toSpecC03 s)

end DSymVerif.DrvC04View
