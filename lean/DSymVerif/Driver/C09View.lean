/-
The Spec view the C09 driver takes of transmitted tables (import-free of Mathlib, links natively).
`Props/C09.lean` (`driver_graph_is_model_graph`) proves that on every in-domain input `specG`
describes the very symbol the model computes with: it agrees, entry by entry, with the graph
`gOf ds` that the theorems of C09 speak about.
-/
import DSymVerif.Driver.SymIO
import DSymVerif.Spec.C02
import DSymVerif.Spec.C03

namespace DSymVerif.DrvC09View
open DSymVerif.Proto DSymVerif.SpecC02

/-- Spec view of transmitted tables: the raw operation table and the raw branching table -/
def specG (s : RawSym) : G := { size := s.size, dim := s.dim, op := s.opAt, v := s.vAt }

/-- the tables in the layout of Spec/C03.lean -/
def toSpecC03 (s : RawSym) : DSymVerif.SpecC03.Sym := { size := s.size, dim := s.dim, op := s.op, v := s.v }

/-- the input is a connected complete D-symbol in the sense of the theorems (`SpecC03.inDomain`:
    dim ≥ 1, total involutions of 1..size, commuting far operations, branching numbers constant on
    2-orbits, connected) -/
def inDomain (s : RawSym) : Bool := DSymVerif.SpecC03.inDomain (toSpecC03 s)

end DSymVerif.DrvC09View
