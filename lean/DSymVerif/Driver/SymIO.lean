/-
Protocol encoding of D-sets / D-symbols (shared by the D-symbol drivers).

  sym := size dim  op(1,0) … op(1,dim) op(2,0) … op(size,dim)   v(0,1) … v(0,size) v(1,1) … v(dim-1,size)

`op` entries 0 = undefined; `v(i,d)` is the branching number of the (i,i+1)-orbit of d
(0 = undefined).  A plain D-set is sent with all v = 0 … (ignored by the reader `P.dset`).
-/
import DSymVerif.Driver.Proto
import DSymVerif.Model.DSym

namespace DSymVerif.Proto
open DSymVerif.DS

/-- raw tables as transmitted -/
structure RawSym where
  size : Nat
  dim : Nat
  op : Array Nat     -- (d-1)*(dim+1)+i
  v : Array Nat      -- i*size+(d-1)
  deriving Repr, Inhabited

namespace RawSym
def opAt (s : RawSym) (i d : Nat) : Nat := s.op.getD ((d - 1) * (s.dim + 1) + i) 0
def vAt (s : RawSym) (i d : Nat) : Nat := s.v.getD (i * s.size + (d - 1)) 0
def opOpt (s : RawSym) (i d : Nat) : Option Nat :=
  if i > s.dim || d < 1 || d > s.size then none else
  match s.opAt i d with
  | 0 => none
  | e => some e
def dsetData (s : RawSym) : DSetData := { size := s.size, dim := s.dim, op := s.op }
/-- rebuild as the library does (`build_set` + `build_sym_using_vs`) -/
def toSym (s : RawSym) : Outcome DSymData := ofTables s.size s.dim s.opAt s.vAt
end RawSym

def P.rawSym : P RawSym := do
  let size ← P.nat
  let dim ← P.nat
  let op ← P.rep (size * (dim + 1)) P.nat
  let v ← P.rep (dim * size) P.nat
  pure { size := size, dim := dim, op := op.toArray, v := v.toArray }

def encSym (s : DSymData) : String :=
  let ops := (List.range s.size).flatMap (fun d0 => (List.range (s.dim + 1)).map (fun i => s.dset.opU i (d0 + 1)))
  let vs := (List.range s.dim).flatMap (fun i => (List.range s.size).map (fun d0 => (s.vAdj i (d0 + 1)).getD 0))
  joinToks ((toString s.size) :: (toString s.dim) :: (ops.map toString ++ vs.map toString))

end DSymVerif.Proto
