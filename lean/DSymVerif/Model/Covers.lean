/-
Model of /repo/src/covers.rs — `trace_word`, `cover_for_table` (import-free, executable).

`cover_for_table(ds, table, edge_to_word)` is `derived::cover` (modelled in Model/DSym.lean)
with the sheet map "trace the word of the edge (d, i) through the coset table starting at the
row = sheet".  The coset table and the edge words are *data* here (the rows as the public
`CosetTable::get` shows them, the `BTreeMap<(usize, usize), FreeWord>` as an association
list), so this file does not depend on the models of `coset_table(s)` / `fundamental_group`;
`subgroup_cover`, `finite_universal_cover`, `covers` are `coverForTable` applied to the
table(s) those functions produce.

`CosetTable::get(c, g)`:
    if c < len { r = table[c][(g + nr_gens) as usize]; if r >= 0 { Some(canon(r)) } else { None } } else { None }
A column index outside the row is a Rust index panic; rows are transmitted after `canon`.
`trace_word` unwraps every `get`, so an undefined entry is a panic.
-/
import DSymVerif.Model.DSym

namespace DSymVerif.Covers
open DSymVerif DSymVerif.DS

/-- a coset table as data: `rows[c][g + nrGens]`, -1 = undefined (column `nrGens` is unused) -/
structure Table where
  nrGens : Nat
  rows : Array (Array Int)
  deriving Repr, Inhabited

namespace Table

/-- `CosetTable::len` -/
def len (t : Table) : Nat := t.rows.size

/-- `CosetTable::get(c, g)` -/
def get (t : Table) (c : Nat) (g : Int) : Outcome (Option Nat) :=
  if c < t.len then
    let col := g + (t.nrGens : Int)
    if col < 0 then .panic
    else
      match (t.rows.getD c #[])[col.toNat]? with
      | some r => if r ≥ 0 then .ok (some r.toNat) else .ok none
      | none => .panic
  else .ok none

/-- `trace_word(table, start, word)`: fold of `table.get(row, g).unwrap()` -/
def traceWord (t : Table) (start : Nat) (word : List Int) : Outcome Nat :=
  word.foldl (fun (acc : Outcome Nat) g =>
    match acc with
    | .ok row =>
      (match t.get row g with
       | .ok (some r) => .ok r
       | _ => .panic)
    | o => o) (.ok start)

end Table

/-- `edge_to_word: BTreeMap<(usize, usize), FreeWord>` keyed by (chamber, index) -/
abbrev EdgeWords := List ((Nat × Nat) × List Int)

/-- `edge_to_word.get(&(d, i)).unwrap_or(&FreeWord::empty())` -/
def wordOf (e2w : EdgeWords) (d i : Nat) : List Int :=
  match e2w.find? (fun e => e.1.1 == d && e.1.2 == i) with
  | some e => e.2
  | none => []

/-- the closure handed to `cover`: sheet ↦ row reached by the edge word -/
def sheetTrace (t : Table) (e2w : EdgeWords) (k i d : Nat) : Outcome Nat :=
  t.traceWord k (wordOf e2w d i)

/-- every call of the sheet-map closure that `build_set` makes returns (no `unwrap` on `None`) -/
def allTracesDefined (s : DSymData) (t : Table) (e2w : EdgeWords) : Bool :=
  (List.range t.len).all fun k => (List.range (s.dim + 1)).all fun i =>
    (List.range s.size).all fun d0 =>
      (s.op i (d0 + 1)).isNone || (sheetTrace t e2w k i (d0 + 1)).isOk

/-- the total sheet map (value 0 where the closure would have panicked — never used then) -/
def sheetMap (t : Table) (e2w : EdgeWords) (k i d : Nat) : Nat :=
  match sheetTrace t e2w k i d with
  | .ok r => r
  | _ => 0

/-- `cover_for_table(ds, table, edge_to_word)`.  A panic inside the closure and a failed
    assertion of `PartialDSet::set` are the same observable (`panic`), so their order in the
    loop of `build_set` does not matter. -/
def coverForTable (s : DSymData) (t : Table) (e2w : EdgeWords) : Outcome DSymData :=
  if allTracesDefined s t e2w then cover s t.len (sheetMap t e2w) else .panic

/-- `covers(ds, max_deg)` given the tables enumerated by `coset_tables` -/
def coversOfTables (s : DSymData) (ts : List Table) (e2w : EdgeWords) : Outcome (List DSymData) :=
  ts.foldl (fun (acc : Outcome (List DSymData)) t =>
    match acc with
    | .ok cs =>
      (match coverForTable s t e2w with
       | .ok c => .ok (cs ++ [c])
       | .err => .err
       | .panic => .panic)
    | o => o) (.ok [])

/-! ### decidable forms of the hypotheses of the C05 theorems

Evaluated by the driver on every explored input ("the theorem applies to this case");
their soundness is proved in Proofs/CoversMonitors.lean. -/

/-- the formal inverse of a word -/
def invWord (w : List Int) : List Int := (w.map (fun g => -g)).reverse

/-- `ValidSet`: array length, entries in range, involutions -/
def validSetB (s : DSetData) : Bool :=
  s.op.size == s.size * (s.dim + 1) &&
  (List.range (s.dim + 1)).all fun i => (List.range s.size).all fun d0 =>
    let e := s.opU i (d0 + 1)
    decide (1 ≤ e) && decide (e ≤ s.size) && s.opU i e == d0 + 1

/-- `ValidTables`: valid D-set, orbit tables = those of `collect_orbits`, one v entry per orbit -/
def validTablesB (y : DSymData) : Bool :=
  validSetB y.dset && y.orbitIndex == (collectOrbits y.dset).index &&
  y.orbitRs == (collectOrbits y.dset).rs && y.orbitVs.size == y.orbitRs.size

/-- `FarCommute`: operations whose indices differ by more than one commute -/
def farCommuteB (s : DSetData) : Bool :=
  (List.range (s.dim + 1)).all fun i => (List.range (s.dim + 1)).all fun j =>
    !(decide (i + 1 < j)) || (List.range s.size).all fun d0 =>
      s.opU j (s.opU i (d0 + 1)) == s.opU i (s.opU j (d0 + 1))

/-- `ValidSym`: valid tables and commuting far operations -/
def validSymB (y : DSymData) : Bool := validTablesB y && farCommuteB y.dset

/-- `SheetCompat` -/
def sheetCompatB (s : DSetData) (n : Nat) (σ : Nat → Nat → Nat → Nat) : Bool :=
  (List.range n).all fun k => (List.range (s.dim + 1)).all fun i => (List.range s.size).all fun d0 =>
    decide (σ k i (d0 + 1) < n) && σ (σ k i (d0 + 1)) i (s.opU i (d0 + 1)) == k

/-- `Table.InvConsistent`: rectangular rows of width 2·nrGens+1; every defined entry `r` is a row
    and the mirrored column of row `r` leads back -/
def invConsistentB (t : Table) : Bool :=
  let w := 2 * t.nrGens + 1
  t.rows.all (fun row => row.size == w) &&
  (List.range t.len).all fun c => (List.range w).all fun col =>
    let r := (t.rows.getD c #[]).getD col (-1)
    r < 0 || (decide (r.toNat < t.len) &&
      (t.rows.getD r.toNat #[]).getD (2 * t.nrGens - col) (-1) == (c : Int))

/-- `EdgeWordsOk`: the words on the two sides of an edge are formal inverses of each other, or
    the edge is a mirror (`op_i d = d`) whose word, traced twice, returns to every row -/
def edgeWordsOkB (s : DSymData) (t : Table) (e2w : EdgeWords) : Bool :=
  (List.range (s.dim + 1)).all fun i => (List.range s.size).all fun d0 =>
    wordOf e2w (s.dset.opU i (d0 + 1)) i == invWord (wordOf e2w (d0 + 1) i) ||
    (s.dset.opU i (d0 + 1) == d0 + 1 &&
      (List.range t.len).all fun k =>
        t.traceWord k (wordOf e2w (d0 + 1) i ++ wordOf e2w (d0 + 1) i) == .ok k)

end DSymVerif.Covers
