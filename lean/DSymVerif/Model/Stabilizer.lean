/-
Model of /repo/src/fpgroups/stabilizer.rs and of `induced_table`, `core_table`,
`intersection_table` in /repo/src/fpgroups/cosets.rs (import-free, executable).

Conventions (DESIGN §3.2): every Rust statement is re-stated; `&mut` becomes a returned
value; `unwrap()` on `None`, indexing a map with a missing key (`point_to_word[&px]`,
`n2o[&i]`), an index out of range and a failed `assert_eq!` become `Outcome.panic`;
`Outcome.err` is "model fuel exhausted" (proved never to happen on valid tables:
`Props/C13.lean`, `stabilizer_total`, `intersection_total`, `core_total`).

Repaired behaviour is modelled for two defects (the pinned tree differed):
* D13 `close_relations_in_place` indexed `rels_by_gen[&gen]` (panic on a missing key);
      repaired: a letter that starts no relator rotation has no relators to scan.
* D14 `relators_by_start_gen` read `w[0]` of the empty relator (panic); repaired: the
      empty word is skipped.

Hash containers.  `edge_to_word`, `point_to_word`, `seen` (stabilizer.rs) and `o2n`,
`n2o` (`induced_table`) are `HashMap`/`HashSet`s that are **only probed** (`get`,
`contains_key`, `insert`, `entry().or_insert`, indexing) — no loop iterates over one of
them, so no output depends on hash order: the generator list, the relator list (sorted
at the end) and the row numbering of the core/intersection tables (numbers are handed
out as `table.len()` in discovery order) are deterministic.  The models are therefore
compared *raw* (and, redundantly, after BFS renumbering).  `rels_by_gen` is a `BTreeMap`
that is only indexed.

`edge_to_word : HashMap<(usize, isize), FreeWord>` is modelled by a growable array
indexed by `p·(2·nr_gens+1) + (g + nr_gens)`.  A key is only ever inserted after
`ct.get(p, g).unwrap()` or `ct.get(q, -g).unwrap()` succeeded, which forces
`-nr_gens ≤ g ≤ nr_gens`; a probe with a letter outside that range answers `none`, as
the hash map does for a key that was never inserted.
-/
import DSymVerif.Model.Outcome
import DSymVerif.Model.FreeWord
import DSymVerif.Model.Cosets

namespace DSymVerif.Stab
open DSymVerif DSymVerif.Cosets

/-! ### `relators_by_start_gen` -/

/-- `BTreeMap<isize, Vec<FreeWord>>` (only indexed, never iterated) -/
abbrev RelMap := List (Int × List (List Int))

def rbgLookup (g : Int) : RelMap → Option (List (List Int))
  | [] => none
  | (k, ws) :: r => if k = g then some ws else rbgLookup g r

/-- `result.entry(k).and_modify(|v| v.push(w.clone())).or_insert(vec![w])` -/
def rbgPush (g : Int) (w : List Int) : RelMap → RelMap
  | [] => [(g, [w])]
  | (k, ws) :: r => if k = g then (k, ws ++ [w]) :: r else (k, ws) :: rbgPush g w r

/-- `for w in relator_permutations(&rel) { if w.len() > 0 { result.entry(w[0])… } }`
    (D14 repaired: the pinned tree read `w[0]` of the empty word — the only permutation of
    the empty relator — and panicked) -/
def rbgWords : List (List Int) → RelMap → Outcome RelMap
  | [], m => .ok m
  | w :: ws, m =>
    match w with
    | [] => rbgWords ws m
    | x :: _ => rbgWords ws (rbgPush x w m)

def rbgRels : List (List Int) → RelMap → Outcome RelMap
  | [], m => .ok m
  | rel :: rels, m =>
    match rbgWords (FW.relatorPermutations rel) m with
    | .ok m' => rbgRels rels m'
    | .err => .err
    | .panic => .panic

/-- `relators_by_start_gen` -/
def relatorsByStartGen (rels : List (List Int)) : Outcome RelMap := rbgRels rels []

/-! ### `edge_to_word` -/

structure EMap where
  n : Nat
  cells : Array (Option (List Int))

def EMap.new (n : Nat) : EMap := ⟨n, #[]⟩

def EMap.idx (m : EMap) (p : Nat) (g : Int) : Option Nat :=
  if -(m.n : Int) ≤ g ∧ g ≤ m.n then some (p * (2 * m.n + 1) + (g + m.n).toNat) else none

/-- `edge_to_word.get(&(p, g))` -/
def EMap.get (m : EMap) (p : Nat) (g : Int) : Option (List Int) :=
  match m.idx p g with
  | some i => (m.cells.getD i none)
  | none => none

/-- `edge_to_word.insert((p, g), w)` (letters in range, see the header) -/
def EMap.insert (m : EMap) (p : Nat) (g : Int) (w : List Int) : EMap :=
  match m.idx p g with
  | some i =>
    let cells := m.cells ++ Array.replicate (i + 1 - m.cells.size) none
    { m with cells := cells.setIfInBounds i (some w) }
  | none => m

/-! ### `trace_word` -/

/-- `for &g in w.iter() { result *= edge_to_word.get(&(p, g)).unwrap_or(&empty); p = ct.get(p, g).unwrap(); }` -/
def traceWord (ct : Table) (e2w : EMap) : Nat → List Int → List Int → Outcome (List Int)
  | _, [], res => .ok res
  | p, g :: w, res =>
    let res' := FW.mulAssign res ((e2w.get p g).getD FW.empty)
    match ct.get p g with
    | .ok (some q) => traceWord ct e2w q w res'
    | .ok none => .panic
    | .err => .err
    | .panic => .panic

/-! ### `close_relations_in_place` -/

/-- the `for i in 0..r.len()` loop: positions `i` (with the row `x` reached and the letter
    `h = r[i]`) whose edge has no word yet.  The word `(r.rotated(i+1) * -h).inverse()`
    the code computes for every cut is a total pure function of `(r, i, h)`; the model
    computes it only for the cut that is used. -/
def cutsGo (ct : Table) (e2w : EMap) : List Int → Nat → Nat → List (Nat × Int × Nat) →
    Outcome (List (Nat × Int × Nat))
  | [], _, _, acc => .ok acc.reverse
  | h :: hs, i, x, acc =>
    let acc' := if (e2w.get x h).isNone then (x, h, i) :: acc else acc
    match ct.get x h with
    | .ok (some y) => cutsGo ct e2w hs (i + 1) y acc'
    | .ok none => .panic
    | .err => .err
    | .panic => .panic

/-- `(r.rotated(i as isize + 1) * -h).inverse()` -/
def cutWord (r : List Int) (i : Nat) (h : Int) : List Int :=
  FW.inverse (FW.mulLetter (FW.rotated r ((i : Int) + 1)) (-h))

abbrev Queue := List (Nat × Int × List Int)

/-- body of `for r in rels_by_gen[&gen].iter()` -/
def scanRel (ct : Table) (e2w : EMap) (point : Nat) (r : List Int) (q : Queue) : Outcome Queue :=
  match cutsGo ct e2w r 0 point [] with
  | .ok [(p, g, i)] =>
    match traceWord ct e2w p (cutWord r i g) FW.empty with
    | .ok w => .ok (q ++ [(p, g, w)])
    | .err => .err
    | .panic => .panic
  | .ok _ => .ok q
  | .err => .err
  | .panic => .panic

def scanRels (ct : Table) (e2w : EMap) (point : Nat) : List (List Int) → Queue → Outcome Queue
  | [], q => .ok q
  | r :: rs, q =>
    match scanRel ct e2w point r q with
    | .ok q' => scanRels ct e2w point rs q'
    | .err => .err
    | .panic => .panic

/-- `while let Some((point, gen, w)) = queue.pop_front() { … }` (D13 repaired:
    `if let Some(rs) = rels_by_gen.get(&gen) { for r in rs.iter() { … } }`; the pinned tree
    indexed `rels_by_gen[&gen]` and panicked when no rotation of a relator or of an inverse
    relator starts with `gen` — every free group, every free factor, relators that are not
    cyclically reduced) -/
def closeLoop (ct : Table) (rbg : RelMap) : Nat → Queue → EMap → Outcome EMap
  | _, [], e2w => .ok e2w
  | 0, _ :: _, _ => .err
  | f + 1, (point, gen, w) :: q, e2w =>
    match ct.get point gen with
    | .ok (some tgt) =>
      let e1 := e2w.insert tgt (-gen) (FW.inverse w)
      let e2 := e1.insert point gen w
      match scanRels ct e2 point ((rbgLookup gen rbg).getD []) q with
      | .ok q' => closeLoop ct rbg f q' e2
      | .err => .err
      | .panic => .panic
    | .ok none => .panic
    | .err => .err
    | .panic => .panic

/-- number of relator rotations filed in `rels_by_gen` (a bound for the number of relators scanned
    per popped edge) -/
def relCount (rbg : RelMap) : Nat := (rbg.map fun kv => kv.2.length).sum

/-- model fuel for one call of `close_relations_in_place`.  The Rust loop has no explicit bound; it
    terminates because an edge is only queued while it has no word and every popped edge has one
    afterwards.  Counting queue entries with weight `(R+1)^(number of edges without a word when the
    entry was queued)`, every pop lowers the total weight (`Proofs/StabilizerFuel.lean`), so at most
    `(R+1)^(E+1)` edges are popped, `R = relCount`, `E` = number of (row, letter) pairs.  (The real
    number of pops is tiny; the bound only has to be provable.) -/
def closeFuel (ct : Table) (rbg : RelMap) : Nat :=
  (relCount rbg + 1) ^ (ct.len * (2 * ct.nrGens) + 1)

/-- `close_relations_in_place` -/
def closeRelations (ct : Table) (rbg : RelMap) (e2w : EMap) (start : Nat × Int) (wd : List Int) :
    Outcome EMap :=
  closeLoop ct rbg (closeFuel ct rbg) [(start.1, start.2, wd)] e2w

/-! ### `spanning_tree` -/

/-- `for gen in ct.all_gens() { let p = ct.get(point, gen).unwrap(); if !seen.contains(&p) { … } }` -/
def treeGens (ct : Table) (point : Nat) :
    List Int → List Nat × List Nat × List (Nat × Int) → Outcome (List Nat × List Nat × List (Nat × Int))
  | [], s => .ok s
  | gen :: gs, (queue, seen, edges) =>
    match ct.get point gen with
    | .ok (some p) =>
      if seen.contains p then treeGens ct point gs (queue, seen, edges)
      else treeGens ct point gs (queue ++ [p], p :: seen, edges ++ [(point, gen)])
    | .ok none => .panic
    | .err => .err
    | .panic => .panic

/-- `while let Some(point) = queue.pop_front() { … }`: a point is queued once, and a point
    that is not a row makes `get(..).unwrap()` panic, so there are at most `len + 1` rounds -/
def treeLoop (ct : Table) : Nat → List Nat → List Nat → List (Nat × Int) → Outcome (List (Nat × Int))
  | _, [], _, edges => .ok edges
  | 0, _ :: _, _, _ => .err
  | f + 1, point :: queue, seen, edges =>
    match treeGens ct point ct.allGens (queue, seen, edges) with
    | .ok (q', s', e') => treeLoop ct f q' s' e'
    | .err => .err
    | .panic => .panic

/-- `spanning_tree` -/
def spanningTree (base : Nat) (ct : Table) : Outcome (List (Nat × Int)) :=
  treeLoop ct (ct.len + 2) [base] [base] []

/-! ### `stabilizer` -/

/-- `point_to_word : HashMap<usize, FreeWord>` (only probed) -/
abbrev PMap := List (Nat × List Int)

def pLookup (k : Nat) : PMap → Option (List Int)
  | [] => none
  | (k', w) :: r => if k' = k then some w else pLookup k r

def pInsert (k : Nat) (w : List Int) : PMap → PMap
  | [] => [(k, w)]
  | (k', w') :: r => if k' = k then (k, w) :: r else (k', w') :: pInsert k w r

/-- `for (pt, gen) in spanning_tree(base_point, ct) { close_relations_in_place(…, &empty, …);
    point_to_word.insert(ct.get(pt, gen).unwrap(), &point_to_word[&pt] * gen); }` -/
def treeFold (ct : Table) (rbg : RelMap) : List (Nat × Int) → EMap → PMap → Outcome (EMap × PMap)
  | [], e, p => .ok (e, p)
  | (pt, gen) :: es, e, p =>
    match closeRelations ct rbg e (pt, gen) FW.empty with
    | .ok e' =>
      match ct.get pt gen with
      | .ok (some tgt) =>
        match pLookup pt p with
        | some w => treeFold ct rbg es e' (pInsert tgt (FW.mulLetter w gen) p)
        | none => .panic
      | .ok none => .panic
      | .err => .err
      | .panic => .panic
    | .err => .err
    | .panic => .panic

/-- `(1..=ct.nr_gens() as isize).flat_map(|i| [i, -i])` — not the order of `all_gens()` -/
def genLetters (n : Nat) : List Int :=
  (List.range' 1 n).flatMap (fun (i : Nat) => [(i : Int), -(i : Int)])

/-- the pairs `(px, g)` of the double loop that collects the generators -/
def genPairs (ct : Table) : List (Nat × Int) :=
  (List.range ct.len).flatMap (fun px => (genLetters ct.nrGens).map (fun g => (px, g)))

/-- the Schreier generator `wx * g * wy.inverse()` -/
def schreierGen (wx : List Int) (g : Int) (wy : List Int) : List Int :=
  FW.mul (FW.mulLetter wx g) (FW.inverse wy)

/-- body of the generator loop -/
def genFold (ct : Table) (rbg : RelMap) (p2w : PMap) :
    List (Nat × Int) → EMap → List (List Int) → Outcome (EMap × List (List Int))
  | [], e, gs => .ok (e, gs)
  | (px, g) :: r, e, gs =>
    match e.get px g with
    | some _ => genFold ct rbg p2w r e gs
    | none =>
      match pLookup px p2w with
      | none => .panic
      | some wx =>
        match ct.get px g with
        | .ok (some py) =>
          match pLookup py p2w with
          | none => .panic
          | some wy =>
            let gs' := gs ++ [schreierGen wx g wy]
            match closeRelations ct rbg e (px, g) (FW.new [(gs'.length : Int)]) with
            | .ok e' => genFold ct rbg p2w r e' gs'
            | .err => .err
            | .panic => .panic
        | .ok none => .panic
        | .err => .err
        | .panic => .panic

/-- `for p in 0..ct.len() { for r in &rels { let w = relator_representative(&trace_word(p, r, …));
    if w.len() > 0 && !seen.contains(&w) { seen.insert(w.clone()); subrels.push(w); } } }`
    (`seen` holds exactly the words pushed so far) -/
def subrelFold (ct : Table) (e2w : EMap) :
    List (Nat × List Int) → List (List Int) → Outcome (List (List Int))
  | [], acc => .ok acc
  | (p, r) :: rest, acc =>
    match traceWord ct e2w p r FW.empty with
    | .ok t =>
      let w := FW.relatorRepresentative t
      if w.length > 0 ∧ ¬ acc.contains w then subrelFold ct e2w rest (acc ++ [w])
      else subrelFold ct e2w rest acc
    | .err => .err
    | .panic => .panic

def subrelPairs (ct : Table) (rels : List (List Int)) : List (Nat × List Int) :=
  (List.range ct.len).flatMap (fun p => rels.map (fun r => (p, r)))

/-- `subrels.sort(); subrels.reverse();` (the words are pairwise different, so the sorted
    order is unique) -/
def sortDescending (ws : List (List Int)) : List (List Int) :=
  (ws.foldl (fun acc w => FW.insertSorted w acc) []).reverse

/-- `stabilizer(base_point, rels, ct)`; the words of `rels` are `FreeWord`s (normalised) -/
def stabilizer (base : Nat) (rels : List (List Int)) (ct : Table) :
    Outcome (List (List Int) × List (List Int)) :=
  match relatorsByStartGen rels with
  | .ok rbg =>
    match spanningTree base ct with
    | .ok tree =>
      match treeFold ct rbg tree (EMap.new ct.nrGens) [(base, FW.empty)] with
      | .ok (e1, p2w) =>
        match genFold ct rbg p2w (genPairs ct) e1 [] with
        | .ok (e2, gens) =>
          match subrelFold ct e2 (subrelPairs ct rels) [] with
          | .ok subrels => .ok (gens, sortDescending subrels)
          | .err => .err
          | .panic => .panic
        | .err => .err
        | .panic => .panic
      | .err => .err
      | .panic => .panic
    | .err => .err
    | .panic => .panic
  | .err => .err
  | .panic => .panic

/-! ### `induced_table`, `core_table` -/

def aLookup {α β : Type} [BEq α] (k : α) : List (α × β) → Option β
  | [] => none
  | (k', v) :: r => if k' == k then some v else aLookup k r

def aInsert {α β : Type} [BEq α] (k : α) (v : β) : List (α × β) → List (α × β)
  | [] => [(k, v)]
  | (k', v') :: r => if k' == k then (k, v) :: r else (k', v') :: aInsert k v r

/-- state of `induced_table`: the table, `o2n`, `n2o` -/
structure Induced (α : Type) where
  table : Table
  o2n : List (α × Nat)
  n2o : List (Nat × α)

/-- `for g in table.all_gens() { let k = img(&n2o[&i], g); let n = *o2n.entry(k.clone()).or_insert(table.len());
    n2o.insert(n, k); table.join(i, n, g); }` -/
def inducedGens {α : Type} [BEq α] (img : α → Int → Outcome α) (i : Nat) :
    List Int → Induced α → Outcome (Induced α)
  | [], s => .ok s
  | g :: gs, s =>
    match aLookup i s.n2o with
    | none => .panic
    | some x =>
      match img x g with
      | .ok k =>
        let (n, o2n') :=
          match aLookup k s.o2n with
          | some n => (n, s.o2n)
          | none => (s.table.len, s.o2n ++ [(k, s.table.len)])
        match s.table.join i n g with
        | .ok t' => inducedGens img i gs ⟨t', o2n', aInsert n k s.n2o⟩
        | .err => .err
        | .panic => .panic
      | .err => .err
      | .panic => .panic

/-- `for i in 0.. { if i >= table.len() { break; } … }` -/
def inducedLoop {α : Type} [BEq α] (img : α → Int → Outcome α) :
    Nat → Nat → Induced α → Outcome (Induced α)
  | 0, _, _ => .err
  | f + 1, i, s =>
    if i ≥ s.table.len then .ok s else
    match inducedGens img i s.table.allGens s with
    | .ok s' => inducedLoop img f (i + 1) s'
    | .err => .err
    | .panic => .panic

/-- `induced_table` (`fuel` = a bound on the number of different values `img` can reach, plus 1) -/
def inducedTable {α : Type} [BEq α] (nrGens : Nat) (img : α → Int → Outcome α) (start : α) (fuel : Nat) :
    Outcome Table :=
  match inducedLoop img fuel 0 ⟨Table.new nrGens, [(start, 0)], [(0, start)]⟩ with
  | .ok s => s.table.compact
  | .err => .err
  | .panic => .panic

/-- `|es, g| es.iter().map(|&e| base.get(e, g).unwrap()).collect()` -/
def coreImg (base : Table) : List Nat → Int → Outcome (List Nat)
  | [], _ => .ok []
  | e :: es, g =>
    match base.get e g with
    | .ok (some d) =>
      match coreImg base es g with
      | .ok r => .ok (d :: r)
      | .err => .err
      | .panic => .panic
    | .ok none => .panic
    | .err => .err
    | .panic => .panic

def factorial : Nat → Nat
  | 0 => 1
  | k + 1 => (k + 1) * factorial k

/-- `core_table`: the arrangements reached are images of `0..len` under maps `rows → rows`
    (values of `get` on a compacted table), at most `len^len` of them -/
def coreTable (base : Table) : Outcome Table :=
  inducedTable base.nrGens (coreImg base) (List.range base.len) (base.len ^ base.len + 2)

/-! ### `intersection_table` -/

structure Inter where
  table : Table
  o2n : Array (Array Int)
  n2o : Array (Nat × Nat)

/-- `for g in table.all_gens() { … }` of `intersection_table` -/
def interGens (ta tb : Table) (a b i : Nat) : List Int → Inter → Outcome Inter
  | [], s => .ok s
  | g :: gs, s =>
    match ta.get a g with
    | .ok (some ag) =>
      match tb.get b g with
      | .ok (some bg) =>
        match s.o2n[ag]? with
        | none => .panic
        | some row =>
          match row[bg]? with
          | none => .panic
          | some v =>
            let s1 : Inter :=
              if v < 0 then
                { s with o2n := s.o2n.setIfInBounds ag (row.setIfInBounds bg (s.table.len : Int))
                         n2o := s.n2o.push (ag, bg) }
              else s
            let v1 : Int := if v < 0 then (s.table.len : Int) else v
            match s1.table.join i v1.toNat g with
            | .ok t' => interGens ta tb a b i gs { s1 with table := t' }
            | .err => .err
            | .panic => .panic
      | .ok none => .panic
      | .err => .err
      | .panic => .panic
    | .ok none => .panic
    | .err => .err
    | .panic => .panic

/-- `for i in 0.. { if i >= table.len() { break; } let (a, b) = n2o[i]; … }` -/
def interLoop (ta tb : Table) : Nat → Nat → Inter → Outcome Inter
  | 0, _, _ => .err
  | f + 1, i, s =>
    if i ≥ s.table.len then .ok s else
    match s.n2o[i]? with
    | none => .panic
    | some (a, b) =>
      match interGens ta tb a b i s.table.allGens s with
      | .ok s' => interLoop ta tb f (i + 1) s'
      | .err => .err
      | .panic => .panic

/-- `intersection_table`: a new row is created only for a pair not numbered before, so there
    are at most `ta.len · tb.len` rows -/
def intersectionTable (ta tb : Table) : Outcome Table :=
  if ta.nrGens ≠ tb.nrGens then .panic else
  let o2n : Array (Array Int) := Array.replicate ta.len (Array.replicate tb.len (-1))
  match o2n[0]? with
  | none => .panic
  | some row0 =>
    if 0 < row0.size then
      let s : Inter := ⟨Table.new ta.nrGens, o2n.setIfInBounds 0 (row0.setIfInBounds 0 0), #[(0, 0)]⟩
      match interLoop ta tb (ta.len * tb.len + 2) 0 s with
      | .ok s' => s'.table.compact
      | .err => .err
      | .panic => .panic
    else .panic

end DSymVerif.Stab
