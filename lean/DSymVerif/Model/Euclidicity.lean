/-
Model of /repo/src/euclidicity.rs and of the orbifold-graph part of /repo/src/delaney3d.rs
(`orbifold_graph`, `sort_nodes`, `compress_graph`, `valid_edge`, `suborbit_numbers`,
`orbit_type_1d`) and of `derived::subsymbol`.  Executable, no Mathlib.

* `orbit_nr : HashMap<(Vec<usize>, usize), usize>` is only probed (`insert`, `get`) → association
  list (latest insertion wins).
* `compress_graph` numbers the merged nodes by the union-find representatives of
  `IntPartition` — modelled exactly with `Part.IntP` (Model/Partition.lean, C20).
* `is_euclidean` is split into (a) the intermediate FACTS it branches on and (b) the pure
  decision tree `decideVerdict : Facts → Verdict` (the theorem subject of Props/C17).  The facts
  up to "a pseudo-toroidal cover was found" are computed by models (`isEuclideanPrefix`);
  `simplify` has no model (C16; deterministic only up to isomorphism, DESIGN §5.9), so the facts
  behind it are not computed here.
* `bad_subgroup_invariants`, `bad_subgroup_count`, `bad_connected_components` are private and
  reached only behind `simplify`; they are compositions of the models of C12 (`coset_tables`), C13
  (`stabilizer`), C14 (`abelian_invariants`), C09 (`fundamental_group`) and are tied to the code
  through the cfg-guarded hooks `euclidicity::verif_hooks` (ops `bsc`, `bsi`, `bcc` of the C17
  harness: exact comparison on presentations / symbols chosen so that every outcome occurs).
* The numeric constants of the cascade and the kinds of its exits are written by hand below
  (`countArgs` … `exitsInSourceOrder`); Props/C17 `cascade_skeleton_matches_source` proves them equal
  to what tools/extract_tables.py regenerates from src/euclidicity.rs on every run.
-/
import DSymVerif.Model.Delaney3d
import DSymVerif.Model.Partition
import DSymVerif.Generated.Tables

namespace DSymVerif.Euc
open DSymVerif DSymVerif.DS DSymVerif.Cosets

/-! ### derived::subsymbol -/

def vOpt (s : DSymData) (i j d : Nat) : Option Nat :=
  match s.vPartial i j d with
  | .ok x => x
  | _ => none

/-- `subsymbol(ds, indices, seed)` for `ds: &PartialDSym` -/
def subsymbol (s : DSymData) (idcs : List Nat) (seed : Nat) : Outcome DSymData :=
  let elements := s.view.orbit idcs seed
  let img2src : Nat → Nat := fun k => elements.getD (k - 1) 0
  let src2img : Nat → Nat := fun d => if elements.contains d then elements.idxOf d + 1 else 0
  let dim := idcs.length - 1
  -- a panic of `v` inside the closure (orbit index out of range) is a panic of the call
  let vPanics := (List.range dim).any fun i => elements.any fun d =>
    match s.vPartial (idcs.getD i 0) (idcs.getD (i + 1) 0) d with
    | .panic => true
    | _ => false
  if idcs.isEmpty then .panic            -- `indices.len() - 1` underflows
  else if vPanics then .panic
  else
    match buildSet elements.length dim
        (fun i d => (s.op (idcs.getD i 0) (img2src d)).map src2img) with
    | .ok ds => buildSymUsingVs ds (fun i d => vOpt s (idcs.getD i 0) (idcs.getD (i + 1) 0) (img2src d))
    | .err => .err
    | .panic => .panic

/-! ### orbifold_graph -/

abbrev OrbitNr := List ((List Nat × Nat) × Nat)

def nrGet (m : OrbitNr) (k : List Nat × Nat) : Option Nat :=
  match m.find? (fun e => e.1 == k) with
  | some e => some e.2
  | none => none

def nrInsert (m : OrbitNr) (k : List Nat × Nat) (n : Nat) : OrbitNr := (k, n) :: m

def insertNat (x : Nat) : List Nat → List Nat
  | [] => [x]
  | y :: ys => if x < y then x :: y :: ys else if x == y then y :: ys else y :: insertNat x ys

/-- `suborbit_numbers(idcs, d, ds, orbit_nr)` (a `BTreeSet<usize>` collected in order) -/
def suborbitNumbers (s : DSymData) (idcs : List Nat) (d : Nat) (m : OrbitNr) : List Nat :=
  let orb := s.view.orbit idcs d
  idcs.foldl (fun acc k =>
    let sub := idcs.filter (· != k)
    orb.foldl (fun acc e =>
      match nrGet m (sub, e) with
      | some x => insertNat x acc
      | none => acc) acc) []

/-- `orbit_type_1d(ds, i, j, d)` -/
def orbitType1d (s : DSymData) (i j d : Nat) : Outcome String :=
  match s.vPartial i j d with
  | .ok (some v) =>
    let t := if v > 9 then s!"({v})({v})" else s!"{v}{v}"
    let onMirror := (s.view.orbit [i, j] d).any fun e => s.op i e == some e || s.op j e == some e
    .ok (if onMirror then (if v == 1 then "1*" else "*" ++ t) else (if v == 1 then "1" else t))
  | .ok none => .panic
  | .err => .err
  | .panic => .panic

structure GraphState where
  nr : OrbitNr
  types : Array String
  edges : List (Nat × Nat)        -- in push order
  deriving Inhabited

/-- the body shared by the second and third loop once the type string `t` of the orbit is known -/
def addOrbit (s : DSymData) (idcs : List Nat) (d : Nat) (t : String) (st : GraphState) : GraphState :=
  if t == "1" then st else
    let n := st.types.size
    let nr := (s.view.orbit idcs d).foldl (fun m e => nrInsert m (idcs, e) n) st.nr
    let subs := suborbitNumbers s idcs d nr
    { nr := nr, types := st.types.push t, edges := st.edges ++ subs.map fun m => (n, m) }

def pairLoop (s : DSymData) (i j : Nat) : List Nat → GraphState → Outcome GraphState
  | [], st => .ok st
  | d :: rest, st =>
    match orbitType1d s i j d with
    | .ok t => pairLoop s i j rest (addOrbit s [i, j] d t st)
    | .err => .err
    | .panic => .panic

def tripleLoop (s : DSymData) (idcs : List Nat) : List Nat → GraphState → Outcome GraphState
  | [], st => .ok st
  | d :: rest, st =>
    match subsymbol s idcs d with
    | .ok sub =>
      (match D2.orbifoldSymbolString ⟨sub, .partialSym⟩ with
       | .ok t =>
         let t := if t == "*423" then "*432" else t
         tripleLoop s idcs rest (addOrbit s idcs d t st)
       | .err => .err
       | .panic => .panic)
    | .err => .err
    | .panic => .panic

def foldO {α β : Type} (f : β → α → Outcome β) : List α → β → Outcome β
  | [], b => .ok b
  | a :: as, b =>
    match f b a with
    | .ok b' => foldO f as b'
    | .err => .err
    | .panic => .panic

/-- `valid_edge(edge, types)` -/
def validEdge (e : Nat × Nat) (types : Array String) : Outcome Bool :=
  match types[e.1]?, types[e.2]? with
  | some tv, some tw =>
    .ok (e.1 != e.2 && (tw != "1*" || (tv.length == 3 && tv.startsWith "*")))
  | _, _ => .panic

def edgeLt (a b : Nat × Nat) : Bool := a.1 < b.1 || (a.1 == b.1 && a.2 < b.2)

/-- insertion into a `BTreeSet<(usize, usize)>` -/
def insertEdge (e : Nat × Nat) : List (Nat × Nat) → List (Nat × Nat)
  | [] => [e]
  | x :: xs => if edgeLt e x then e :: x :: xs else if e == x then x :: xs else x :: insertEdge e xs

/-- `compress_graph(graph)` -/
def compressGraph (types : Array String) (edges : List (Nat × Nat)) :
    Outcome (Array String × List (Nat × Nat)) :=
  -- for &(v, w) in edges { if node_type[v] == node_type[w] { p.unite(v, w) } }
  match foldO (fun (p : Part.Forest) (e : Nat × Nat) =>
      match types[e.1]?, types[e.2]? with
      | some tv, some tw => if tv == tw then Part.IntP.unite p e.1 e.2 else .ok p
      | _, _ => .panic) edges Part.Forest.new with
  | .ok p =>
    let n := types.size
    -- first loop: representatives get the next number
    (match foldO (fun (acc : Part.Forest × Array Nat × Array String) (i : Nat) =>
        match Part.IntP.find acc.1 i with
        | .ok (p', r) =>
          if r == i then
            .ok (p', acc.2.1.setIfInBounds i acc.2.2.size, acc.2.2.push (types.getD i ""))
          else .ok (p', acc.2.1, acc.2.2)
        | .err => .err
        | .panic => .panic) (List.range n) (p, Array.replicate n 0, #[]) with
     | .ok (p1, o2n, resTypes) =>
       -- second loop: old_to_new[i] = old_to_new[p.find(i)]
       (match foldO (fun (acc : Part.Forest × Array Nat) (i : Nat) =>
           match Part.IntP.find acc.1 i with
           | .ok (p', r) =>
             (match acc.2[r]? with
              | some x => .ok (p', acc.2.setIfInBounds i x)
              | none => .panic)
           | .err => .err
           | .panic => .panic) (List.range n) (p1, o2n) with
        | .ok (_, o2n') =>
          (match foldO (fun (acc : List (Nat × Nat)) (e : Nat × Nat) =>
              match o2n'[e.1]?, o2n'[e.2]? with
              | some v, some w =>
                (match validEdge (v, w) resTypes with
                 | .ok true => .ok (insertEdge (v, w) acc)
                 | .ok false => .ok acc
                 | .err => .err
                 | .panic => .panic)
              | _, _ => .panic) edges [] with
           | .ok resEdges => .ok (resTypes, resEdges)
           | .err => .err
           | .panic => .panic)
        | .err => .err
        | .panic => .panic)
     | .err => .err
     | .panic => .panic)
  | .err => .err
  | .panic => .panic

/-- stable insertion by the key `node_type[i]` (`sort_by_key` is a stable sort): `i` is smaller
    than every index already present, so it goes before the first index whose key is not less -/
def insertByType (types : Array String) (i : Nat) : List Nat → List Nat
  | [] => [i]
  | j :: js => if types.getD j "" < types.getD i "" then j :: insertByType types i js else i :: j :: js

/-- `sort_nodes(graph)` -/
def sortNodes (types : Array String) (edges : List (Nat × Nat)) : Outcome (List String × List (Nat × Nat)) :=
  let n := types.size
  -- inserting from the right keeps equal keys in index order
  let newToOld := (List.range n).foldr (insertByType types) []
  let oldToNew := newToOld.zipIdx.foldl (fun (a : Array Nat) (x : Nat × Nat) => a.setIfInBounds x.1 x.2)
    (Array.replicate n 0)
  let resTypes := newToOld.map fun i => types.getD i ""
  match foldO (fun (acc : List (Nat × Nat)) (e : Nat × Nat) =>
      match oldToNew[e.1]?, oldToNew[e.2]? with
      | some v, some w => .ok (acc ++ [(v, w)])
      | _, _ => .panic) edges [] with
  | .ok es => .ok (resTypes, es)
  | .err => .err
  | .panic => .panic

def pairs6 : List (Nat × Nat) := [(0, 1), (0, 2), (0, 3), (1, 2), (1, 3), (2, 3)]
def triples4 : List (List Nat) := [[0, 1, 2], [0, 1, 3], [0, 2, 3], [1, 2, 3]]

/-- `orbifold_graph(ds)` for `ds: &PartialDSym` -/
def orbifoldGraph (s : DSymData) : Outcome (List String × List (Nat × Nat)) :=
  if s.dim ≠ 3 then .panic
  else if !s.isCompletePartial then .panic
  else
    -- mirrors
    let st0 : GraphState := (List.range 4).foldl (fun st i =>
      s.view.elements.foldl (fun (st : GraphState) d =>
        if s.op i d == some d then
          { st with nr := nrInsert st.nr ([i], d) st.types.size, types := st.types.push "1*" }
        else st) st) { nr := [], types := #[], edges := [] }
    match foldO (fun st (p : Nat × Nat) =>
        pairLoop s p.1 p.2 (s.view.orbitReps [p.1, p.2] s.view.elements) st) pairs6 st0 with
    | .ok st1 =>
      (match foldO (fun st idcs => tripleLoop s idcs (s.view.orbitReps idcs s.view.elements) st) triples4 st1 with
       | .ok st2 =>
         (match compressGraph st2.types st2.edges with
          | .ok (ts, es) => sortNodes ts es
          | .err => .err
          | .panic => .panic)
       | .err => .err
       | .panic => .panic)
    | .err => .err
    | .panic => .panic

/-! ### orbifold_invariant -/

/-- `parts.join("/")` of the string assembled by `orbifold_invariant` -/
def invariantString (labels : List String) (ori : Nat) (nrEdges : Nat) (invars : List Nat) : String :=
  "/".intercalate ([toString labels.length] ++ labels ++ [toString ori, toString nrEdges,
    toString invars.length] ++ invars.map toString ++ [""])

/-- orientation class: 2 oriented, 1 weakly oriented, 0 otherwise -/
def orientationClass (s : DSymData) : Nat :=
  if s.view.isOriented then 2 else if s.view.isWeaklyOriented then 1 else 0

/-- `orbifold_invariant(ds)` -/
def orbifoldInvariant (s : DSymData) : Outcome String :=
  match orbifoldGraph s with
  | .ok (labels, edges) =>
    (match FG.fundamentalGroup s with
     | .ok fg =>
       (match Inv.abelianInvariants fg.genToEdge.length fg.relators with
        | .ok invars => .ok (invariantString labels (orientationClass s) edges.length invars)
        | .err => .err
        | .panic => .panic)
     | .err => .err
     | .panic => .panic)
  | .err => .err
  | .panic => .panic

/-- `INVARIANTS.contains(..)` -/
def inInvariantTable (x : String) : Bool := Tables.euclideanInvariants.contains x

/-! ### the decision tree of `is_euclidean` -/

/-- the intermediate facts `is_euclidean` branches on (later ones are only looked at on the
    branches that reach them) -/
structure Facts where
  invInTable : Bool       -- INVARIANTS.contains(orbifold_invariant(ds))
  coverFound : Bool       -- pseudo_toroidal_cover(ds) is Some
  simplifyOk : Bool       -- simplify(&cov) is Some
  keyIsCubic : Bool       -- canonical(minimal_image(canonical(simp))).to_string() == cubic key
  connected : Bool        -- simp.is_connected()
  badComponents : Bool    -- bad_connected_components(&simp)
  invarsZ3 : Bool         -- abelian invariants of π1(simp) == [0,0,0]
  isFree : Bool           -- fg.is_free()
  badCount : Bool         -- bad_subgroup_count(&fg, 2, 8)
  badSubInv : Bool        -- bad_subgroup_invariants(&fg, 2, [0,0,0])
  deriving DecidableEq, Repr, Inhabited

inductive NoReason where
  | invariants | noCover | lensSpace | connectedSum | handle | freeGroup | subgroupCount | subgroups
  deriving DecidableEq, Repr, Inhabited

inductive MaybeReason where
  | connectedSum | noDecision
  deriving DecidableEq, Repr, Inhabited

inductive Verdict where
  | yes
  | no (r : NoReason)
  | maybe (r : MaybeReason)
  deriving DecidableEq, Repr, Inhabited

/-- the `if / else if` cascade of `is_euclidean` -/
def decideVerdict (f : Facts) : Verdict :=
  if !f.invInTable then .no .invariants
  else if !f.coverFound then .no .noCover
  else if !f.simplifyOk then .no .lensSpace
  else if f.keyIsCubic then .yes
  else if !f.connected then
    (if f.badComponents then .no .connectedSum else .maybe .connectedSum)
  else if !f.invarsZ3 then .no .handle
  else if f.isFree then .no .freeGroup
  else if f.badCount then .no .subgroupCount
  else if f.badSubInv then .no .subgroups
  else .maybe .noDecision

/-- the message strings of the code (spaces as `_`, the way the harness transmits them) -/
def NoReason.text : NoReason → String
  | .invariants => "orbifold_invariants_do_not_match"
  | .noCover => "no_pseudo-toroidal_cover"
  | .lensSpace => "cover_is_a_lens_space"
  | .connectedSum => "cover_is_a_non-trivial_connected_sum"
  | .handle => "cover_has_at_least_one_handle"
  | .freeGroup => "cover_has_free_fundamental_group"
  | .subgroupCount => "bad_subgroup_count_for_cover"
  | .subgroups => "bad_subgroups_for_cover"

def MaybeReason.text : MaybeReason → String
  | .connectedSum => "cover_is_a_(potentially_trivial)_connected_sum"
  | .noDecision => "no_decision_found"

def Verdict.render : Verdict → String
  | .yes => "yes -"
  | .no r => "no " ++ r.text
  | .maybe r => "maybe " ++ r.text

/-- the part of `is_euclidean` that the models can run: `some v` when the verdict is decided
    before `simplify` is called, `none` when a cover was found (the rest needs `simplify`) -/
def isEuclideanPrefix (s : DSymData) : Outcome (Option Verdict × Option DSymData) :=
  match orbifoldInvariant s with
  | .ok inv =>
    if !inInvariantTable inv then .ok (some (.no .invariants), none)
    else
      (match D3.pseudoToroidalCover s with
       | .ok none => .ok (some (.no .noCover), none)
       | .ok (some c) => .ok (none, some c)
       | .err => .err
       | .panic => .panic)
  | .err => .err
  | .panic => .panic

/-! ### the skeleton of the cascade, by hand (compared with the regenerated one in Props/C17) -/

/-- `bad_subgroup_count(&fg, 2, 8)` in `is_euclidean`: (index, expected) -/
def countArgs : Nat × Nat := (2, 8)
/-- `bad_subgroup_invariants(&fg, 2, vec![0, 0, 0])` in `is_euclidean`: (index, expected) -/
def subgroupArgs : Nat × List Nat := (2, [0, 0, 0])
/-- `invars != [0, 0, 0]` in `is_euclidean` -/
def homologyTest : List Nat := [0, 0, 0]
/-- `bad_connected_components`: (`invars == …`, index, expected) of its two tests, in source order -/
def componentTests : List (List Nat × Nat × List Nat) := [([0, 0, 0], 2, [0, 0, 0]), ([], 5, [])]

/-- the exits of `is_euclidean` in SOURCE order (not in the order of evaluation) -/
def exitsInSourceOrder : List Verdict :=
  [ .no .invariants, .yes, .no .connectedSum, .maybe .connectedSum, .no .handle, .no .freeGroup,
    .no .subgroupCount, .no .subgroups, .maybe .noDecision, .no .lensSpace, .no .noCover ]

/-- `fail(..)` / `give_up(..)` / `Euclidean::Yes` -/
def Verdict.kind : Verdict → String
  | .yes => "yes"
  | .no _ => "fail"
  | .maybe _ => "give_up"

/-! ### the private subgroup tests (observable through `euclidicity::verif_hooks`) -/

/-- `bad_subgroup_invariants(fg, index, expected)` -/
def badSubgroupInvariants (fg : FG.FundGroup) (index : Nat) (expected : List Nat) : Outcome Bool :=
  let rec go : List (Outcome Table) → Outcome Bool
    | [] => .ok false
    | .ok t :: rest =>
      (match D3.tabOf t with
       | .ok tab =>
         (match D3.stabilizerInvariants fg.genToEdge.length fg.relators tab with
          | .ok inv => if inv ≠ expected then .ok true else go rest
          | .err => .err
          | .panic => .panic)
       | .err => .err
       | .panic => .panic)
    | .err :: _ => .err
    | .panic :: _ => .panic
  go (cosetTables fg.genToEdge.length fg.relators index (D3.nodeFuel fg.genToEdge.length index))

/-- `bad_subgroup_count(fg, index, expected)`: `.take(expected + 1).count() != expected` -/
def badSubgroupCount (fg : FG.FundGroup) (index expected : Nat) : Outcome Bool :=
  let taken := (cosetTables fg.genToEdge.length fg.relators index (D3.nodeFuel fg.genToEdge.length index)).take (expected + 1)
  if taken.any (fun o => match o with | .panic => true | _ => false) then .panic
  else if taken.any (fun o => match o with | .err => true | _ => false) then .err
  else .ok (taken.length != expected)

/-- `bad_connected_components(ds)`; note `subsymbol(ds, 0..ds.dim(), d)` — the index range is
    exclusive in the code, restated as written -/
def badConnectedComponents (s : DSymData) : Outcome Bool :=
  let rec go : List Nat → Bool → Outcome Bool
    | [], _ => .ok false
    | d :: rest, seenZ3 =>
      match subsymbol s (List.range s.dim) d with
      | .ok comp =>
        (match FG.fundamentalGroup comp with
         | .ok fg =>
           (match Inv.abelianInvariants fg.genToEdge.length fg.relators with
            | .ok invars =>
              if invars = [0, 0, 0] then
                if seenZ3 then .ok true else
                  (match badSubgroupInvariants fg 2 [0, 0, 0] with
                   | .ok true => .ok true
                   | .ok false => go rest true
                   | .err => .err
                   | .panic => .panic)
              else if invars = [] then
                (match badSubgroupInvariants fg 5 [] with
                 | .ok true => .ok true
                 | .ok false => go rest seenZ3
                 | .err => .err
                 | .panic => .panic)
              else .ok true
            | .err => .err
            | .panic => .panic)
         | .err => .err
         | .panic => .panic)
      | .err => .err
      | .panic => .panic
  go (s.view.orbitReps s.view.indices s.view.elements) false

/-- `bad_connected_components` with its constants as a parameter (`tests` = the two
    (`invars == …`, index, expected) triples); Props/C17 `bad_connected_components_uses_constants`:
    the model above is this one at `componentTests` -/
def badConnectedComponentsWith (tests : List (List Nat × Nat × List Nat)) (s : DSymData) : Outcome Bool :=
  match tests with
  | [(z3, i2, e2), (triv, i5, e5)] =>
    let rec go : List Nat → Bool → Outcome Bool
      | [], _ => .ok false
      | d :: rest, seenZ3 =>
        match subsymbol s (List.range s.dim) d with
        | .ok comp =>
          (match FG.fundamentalGroup comp with
           | .ok fg =>
             (match Inv.abelianInvariants fg.genToEdge.length fg.relators with
              | .ok invars =>
                if invars = z3 then
                  if seenZ3 then .ok true else
                    (match badSubgroupInvariants fg i2 e2 with
                     | .ok true => .ok true
                     | .ok false => go rest true
                     | .err => .err
                     | .panic => .panic)
                else if invars = triv then
                  (match badSubgroupInvariants fg i5 e5 with
                   | .ok true => .ok true
                   | .ok false => go rest seenZ3
                   | .err => .err
                   | .panic => .panic)
                else .ok true
              | .err => .err
              | .panic => .panic)
           | .err => .err
           | .panic => .panic)
        | .err => .err
        | .panic => .panic
    go (s.view.orbitReps s.view.indices s.view.elements) false
  | _ => .err

end DSymVerif.Euc
