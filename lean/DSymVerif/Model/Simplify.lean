/-
Model of the deterministic rewriting primitives of /repo/src/simplify.rs
(import-free apart from other Model files, executable).

Re-stated statement by statement over `DS.DSetData` (= `PartialDSet`):
`dual`, `r`, `collapse`, `reglue`, `grow`, `cut_face`, `cut_tile`, `squeeze_tile_3d`,
`merge_tiles` (with `inner_edges` from the fundamental-group model), `merge_facets`,
`merge_all`, `fix_local_1_vertex`, `fix_local_2_vertex`, `fix_non_disk_face`,
`make_skeleton`.

* `enum DSetOrEmpty` → `DOE`; `Option<DSetOrEmpty>` results → `Step = Outcome (Option DOE)`
  (`.ok none` = the primitive declined, `.ok (some .empty)` = the empty D-set).
* every `.unwrap()` on `None`, `assert!`, `Vec` index out of range, `usize` underflow and every
  assertion of `PartialDSet::set` (through `build_set`) is `Outcome.panic`.
* `HashSet<usize>` `remove` of `collapse` is only asked `len()`, `is_empty()`, `contains()`:
  a mark array plus the count of distinct members.  `HashMap` `paired` of `reglue` is only
  asked `is_empty()`, `contains_key()`, `get()`: function `pairedGet` (later insertions win).
* unbounded loops (`for k in 1..` of `r`, `while src2img[e] == 0` of `collapse`,
  `while e != d` of `fix_non_disk_face`) take fuel `size + 1`; `Outcome.panic` at exhaustion
  stands for non-termination of the Rust loop (never reached on complete D-sets whose
  operations are involutions, resp. when the removed set does not contain a whole
  (connector, i)-orbit).
* `network_cut` picks `start` with `marked.iter().find(..)` over a `HashSet` (per-instance random
  iteration order, DESIGN §5.9).  `networkCut` / `splitAndGlue` are therefore functions of an
  explicit choice: the order `iter` in which the members of `marked` are visited.  Everything else
  in `network_edges`, `cut_with_insides`, `cut_pairs_in_order`, `make_key`,
  `split_and_glue_attempt` and the driver loop of `split_and_glue` is deterministic (the two
  `HashSet`s of `network_edges` only feed a `BTreeSet`; `marked` / `special` are otherwise only
  asked `contains`).  `simplify` as a whole is observed through the Spec only.
* further unbounded loops: the two inner `while`s of `cut_pairs_in_order` (fuel `size + 1`: they
  walk along one face) and its outer loop (fuel `(size + 2)²`: at most `size + 1` rounds push a
  pair, and more than `size` rounds in a row without a push repeat a chamber, i.e. never end).
* Several callers pass `1..ds.size()` (exclusive upper bound) as the seeds of `orbit_reps`:
  modelled as written (`seedsExcl`).
-/
import DSymVerif.Model.DSym
import DSymVerif.Model.FundGroup
import DSymVerif.Model.Cutsets

namespace DSymVerif.Simp
open DSymVerif DSymVerif.DS

/-- `enum DSetOrEmpty` -/
inductive DOE where
  | dset (ds : DSetData)
  | empty
  deriving Repr, DecidableEq, Inhabited

/-- `Option<DSetOrEmpty>` or a panic -/
abbrev Step := Outcome (Option DOE)

def ofBuild (o : Outcome DSetData) : Step :=
  match o with
  | .ok s => .ok (some (.dset s))
  | .err => .err
  | .panic => .panic

/-- `ds.op(i, d).unwrap()` on a `PartialDSet` -/
def opx (ds : DSetData) (i d : Nat) : Outcome Nat :=
  match ds.opPartial i d with
  | some e => .ok e
  | none => .panic

/-- `v[k]` on a `Vec<usize>` -/
def idxO (a : Array Nat) (k : Nat) : Outcome Nat :=
  match a[k]? with
  | some x => .ok x
  | none => .panic

/-- `1..=ds.size()` -/
def seedsIncl (ds : DSetData) : List Nat := (List.range ds.size).map (· + 1)
/-- `1..ds.size()` (exclusive: the last chamber is not a seed) -/
def seedsExcl (ds : DSetData) : List Nat := (List.range (ds.size - 1)).map (· + 1)

/-! ### dual, r -/

/-- `dual(ds: &DSetOrEmpty)` -/
def dual : DOE → Step
  | .empty => .ok none
  | .dset ds =>
    let n := ds.dim
    ofBuild (buildSet ds.size n (fun i d => ds.opPartial (n - i) d))

/-- the `for k in 1..` loop of `r` -/
def rLoop (ds : DSetData) (i j d : Nat) : Nat → Nat → Nat → Outcome Nat
  | 0, _, _ => .panic
  | fuel + 1, e, k =>
    match ds.opPartial i e with
    | none => .panic
    | some ei =>
      match ds.opPartial j ei with
      | none => .panic
      | some e' => if e' = d then .ok k else rLoop ds i j d fuel e' (k + 1)

/-- `r(ds, i, j, d)` (private helper of simplify.rs, panics on undefined entries) -/
def r (ds : DSetData) (i j d : Nat) : Outcome Nat := rLoop ds i j d (ds.size + 1) d 1

/-! ### build_set with a closure that may panic -/

/-- `build_set(size, dim, op)` where the closure itself contains `.unwrap()`s -/
def buildSetO (size dim : Nat) (op : Nat → Nat → Outcome (Option Nat)) : Outcome DSetData :=
  match DSetData.new size dim with
  | .ok ds0 =>
    (List.range (dim + 1)).foldl (fun (acc : Outcome DSetData) i =>
      (List.range size).foldl (fun (acc : Outcome DSetData) d0 =>
        match acc with
        | .ok ds =>
          (match op i (d0 + 1) with
           | .ok (some di) => ds.set i (d0 + 1) di
           | .ok none => .ok ds
           | .err => .err
           | .panic => .panic)
        | o => o) acc) (.ok ds0)
  | .err => .err
  | .panic => .panic

/-! ### collapse -/

/-- membership array of a `HashSet<usize>` for the chambers 0..size -/
def markOf (size : Nat) (xs : List Nat) : Array Bool :=
  xs.foldl (fun (a : Array Bool) x => a.setIfInBounds x true) (Array.replicate (size + 1) false)

/-- `remove.len()`: number of distinct members -/
def distinctCount (size : Nat) (xs : List Nat) : Nat :=
  ((markOf size xs).toList.filter id).length + (xs.filter (· > size)).eraseDups.length

structure Renum where
  src2img : Array Nat
  img2src : Array Nat
  deriving Repr, Inhabited

/-- the numbering loop `for d in 1..=ds.size() { if !remove.contains(&d) { … } }` -/
def renumber (size : Nat) (mark : Array Bool) : Renum :=
  let st := (List.range size).foldl (fun (st : Array Nat × Array Nat × Nat) d0 =>
    let d := d0 + 1
    if mark.getD d false then st
    else (st.1.setIfInBounds d st.2.2, st.2.1.setIfInBounds st.2.2 d, st.2.2 + 1))
    (Array.replicate (size + 1) 0, Array.replicate (size + 1) 0, 1)
  { src2img := st.1, img2src := st.2.1 }

/-- `while src2img[e] == 0 { e = ds.op(i, ds.op(connector, e).unwrap()).unwrap(); }` -/
def collapseWhile (ds : DSetData) (src2img : Array Nat) (i connector : Nat) : Nat → Nat → Outcome Nat
  | 0, _ => .panic
  | fuel + 1, e =>
    match src2img[e]? with
    | none => .panic
    | some x =>
      if x ≠ 0 then .ok e
      else
        match ds.opPartial connector e with
        | none => .panic
        | some c =>
          match ds.opPartial i c with
          | none => .panic
          | some e' => collapseWhile ds src2img i connector fuel e'

/-- the closure `op` handed to `build_set` by `collapse` -/
def collapseOp (ds : DSetData) (rn : Renum) (connector i d : Nat) : Outcome (Option Nat) :=
  match rn.img2src[d]? with
  | none => .panic
  | some src =>
    match ds.opPartial i src with
    | none => .panic
    | some e =>
      let e' := if i ≠ connector then collapseWhile ds rn.src2img i connector (ds.size + 1) e else .ok e
      match e' with
      | .ok e =>
        (match rn.src2img[e]? with
         | some x => .ok (some x)
         | none => .panic)
      | .err => .err
      | .panic => .panic

/-- `collapse(ds, remove, connector)` -/
def collapse (input : DOE) (remove : List Nat) (connector : Nat) : Step :=
  match input with
  | .empty => .ok none
  | .dset ds =>
    let cnt := distinctCount ds.size remove
    if cnt = 0 then .ok none
    else if cnt = ds.size then .ok (some .empty)
    else
      let rn := renumber ds.size (markOf ds.size remove)
      if cnt > ds.size then .panic          -- `ds.size() - remove.len()` underflows
      else ofBuild (buildSetO (ds.size - cnt) ds.dim (collapseOp ds rn connector))

/-! ### reglue, grow -/

/-- `paired.get(&k)` for the map collected from `pairs.flat_map(|(d, e)| [(d, e), (e, d)])`
    (a later insertion for the same key replaces the earlier one) -/
def pairedGet : List (Nat × Nat) → Nat → Option Nat
  | [], _ => none
  | (d, e) :: rest, k =>
    match pairedGet rest k with
    | some x => some x
    | none => if e = k then some d else if d = k then some e else none

/-- the closure of `reglue` -/
def reglueOp (ds : DSetData) (pairs : List (Nat × Nat)) (index : Nat) (i d : Nat) : Option Nat :=
  if i = index then
    match pairedGet pairs d with
    | some e => some e
    | none => ds.opPartial i d
  else ds.opPartial i d

/-- `reglue(ds, pairs, index)`: `.ok none` when `pairs` is empty -/
def reglue (ds : DSetData) (pairs : List (Nat × Nat)) (index : Nat) : Outcome (Option DSetData) :=
  if pairs.isEmpty then .ok none
  else
    match buildSet ds.size ds.dim (reglueOp ds pairs index) with
    | .ok s => .ok (some s)
    | .err => .err
    | .panic => .panic

/-- `reglue(…).unwrap()` -/
def reglueU (ds : DSetData) (pairs : List (Nat × Nat)) (index : Nat) : Outcome DSetData :=
  match reglue ds pairs index with
  | .ok (some s) => .ok s
  | .ok none => .panic
  | .err => .err
  | .panic => .panic

/-- the closure of `grow` -/
def growOp (ds : DSetData) (i d : Nat) : Option Nat :=
  if d > ds.size then some d else ds.opPartial i d

/-- `grow(ds, m)` -/
def grow (ds : DSetData) (m : Nat) : Outcome DSetData :=
  buildSet (ds.size + m) ds.dim (growOp ds)

/-! ### cut_face, cut_tile, squeeze_tile_3d -/

/-- `cut_face(ds, d1, d2)` -/
def cutFace (ds0 : DSetData) (d1 d2 : Nat) : Outcome DSetData := do
  let n := ds0.size
  let ds ← grow ds0 8
  let o2 ← opx ds 3 d2
  let o3 ← opx ds 3 d1
  let o4 ← opx ds 1 d1
  let o5 ← opx ds 1 d2
  let o6 ← opx ds 3 o5
  let o7 ← opx ds 3 o4
  let old := [d1, d2, o2, o3, o4, o5, o6, o7]
  let nu := fun k => n + 1 + k
  let ds ← reglueU ds [(nu 0, nu 1), (nu 2, nu 3), (nu 4, nu 5), (nu 6, nu 7)] 0
  let ds ← reglueU ds ((List.range 8).map fun k => (nu k, old.getD k 0)) 1
  let ds ← reglueU ds [(nu 0, nu 4), (nu 1, nu 5), (nu 2, nu 6), (nu 3, nu 7)] 2
  let ds ← reglueU ds [(nu 0, nu 3), (nu 1, nu 2), (nu 4, nu 7), (nu 5, nu 6)] 3
  pure ds

/-- `xs.iter().map(|&d| ds.op(2, d).unwrap()).collect()` -/
def mapOpx (ds : DSetData) (i : Nat) : List Nat → Outcome (List Nat)
  | [] => .ok []
  | d :: rest =>
    match opx ds i d with
    | .ok e =>
      (match mapOpx ds i rest with
       | .ok es => .ok (e :: es)
       | .err => .err
       | .panic => .panic)
    | .err => .err
    | .panic => .panic

def cycle0 (m start : Nat) : List (Nat × Nat) :=
  (List.range (m / 2)).map fun i => (start + 2 * i, start + 2 * i + 1)

def cycle1 (m start : Nat) : List (Nat × Nat) :=
  (List.range (m / 2)).map fun i => (start + 2 * i + 1, start + (2 * i + 2) % m)

/-- `cut_tile(ds, cut_chambers)` -/
def cutTile (ds0 : DSetData) (cut : List Nat) : Outcome DSetData := do
  let n := ds0.size
  let m := cut.length
  if m % 2 ≠ 0 then .panic else
  let opposites ← mapOpx ds0 2 cut
  let ds ← grow ds0 (2 * m)
  let ds ← reglueU ds (cycle0 m (n + 1) ++ cycle0 m (n + m + 1)) 0
  let ds ← reglueU ds (cycle1 m (n + 1) ++ cycle1 m (n + m + 1)) 1
  let ds ← reglueU ds
    ((List.range m).map (fun i => (cut.getD i 0, n + 1 + i)) ++
     (List.range m).map (fun i => (opposites.getD i 0, n + m + 1 + i))) 2
  let ds ← reglueU ds ((List.range m).map fun i => (n + 1 + i, n + m + 1 + i)) 3
  pure ds

/-- `squeeze_tile_3d(ds, d, e)` -/
def squeezeTile3d (ds : DSetData) (d e : Nat) : Outcome DSetData := do
  let f ← opx ds 0 e
  let g ← opx ds 0 d
  let f2 ← opx ds 2 f
  let g2 ← opx ds 2 g
  let d2 ← opx ds 2 d
  let e2 ← opx ds 2 e
  reglueU ds [(f, d), (g, e), (f2, d2), (g2, e2)] 2

/-! ### as_dset, as_dsym, merge_tiles, merge_facets, merge_all -/

/-- `as_dset(ds)` -/
def asDSet (ds : DSetData) : Outcome DSetData := buildSet ds.size ds.dim ds.opPartial

/-- `as_dsym(ds)` = `build_sym_using_vs(as_dset(ds), |_, _| Some(1))` -/
def asDSym (ds : DSetData) : Outcome DSymData :=
  match asDSet ds with
  | .ok s => buildSymUsingVs s (fun _ _ => some 1)
  | .err => .err
  | .panic => .panic

/-- the junk list of `merge_tiles` from a given list of inner edges -/
def tilesJunk (ds : DSetData) (inner : List (Nat × Nat)) : List Nat :=
  (inner.filter (fun e => e.2 == 3)).flatMap fun e => ds.viewPartial.orbit [3] e.1

/-- `merge_tiles(input)` -/
def mergeTiles (input : DOE) : Step :=
  match input with
  | .empty => .ok none
  | .dset ds =>
    match asDSym ds with
    | .ok sym =>
      (match FG.innerEdges sym with
       | .ok inner => collapse input (tilesJunk ds inner) 3
       | .err => .err
       | .panic => .panic)
    | .err => .err
    | .panic => .panic

/-- `reps.filter(|&d| r(ds, i, j, d) == 2)` (panics propagate) -/
def filterR2 (ds : DSetData) (i j : Nat) : List Nat → Outcome (List Nat)
  | [] => .ok []
  | d :: rest =>
    match r ds i j d with
    | .ok k =>
      (match filterR2 ds i j rest with
       | .ok ds' => .ok (if k = 2 then d :: ds' else ds')
       | .err => .err
       | .panic => .panic)
    | .err => .err
    | .panic => .panic

/-- `merge_facets(input)` -/
def mergeFacets (input : DOE) : Step :=
  match input with
  | .empty => .ok none
  | .dset ds =>
    let reps := ds.viewPartial.orbitReps [2, 3] (seedsExcl ds)
    match filterR2 ds 2 3 reps with
    | .ok sel => collapse input (sel.flatMap fun d => ds.viewPartial.orbit [2, 3] d) 2
    | .err => .err
    | .panic => .panic

/-- one round `if let Some(out) = op(&ds) { ds = out; }` -/
def applyIf (op : DOE → Step) (acc : Outcome DOE) : Outcome DOE :=
  match acc with
  | .ok ds =>
    (match op ds with
     | .ok (some out) => .ok out
     | .ok none => .ok ds
     | .err => .err
     | .panic => .panic)
  | o => o

/-- `merge_all(ds)` -/
def mergeAll (ds : DOE) : Step :=
  match [mergeTiles, mergeFacets, dual, mergeTiles, mergeFacets, dual].foldl
      (fun acc op => applyIf op acc) (.ok ds) with
  | .ok out => .ok (some out)
  | .err => .err
  | .panic => .panic

/-! ### fix_local_1_vertex -/

def fixLocal1Body (ds : DSetData) (c : Nat) : Step := do
  let c1 ← opx ds 1 c
  let d ← opx ds 0 c1
  let c0 ← opx ds 0 c
  let e ← opx ds 1 c0
  let f ← opx ds 3 d
  let g ← opx ds 3 e
  let d1 ← opx ds 1 d
  let e1 ← opx ds 1 e
  let f1 ← opx ds 1 f
  let g1 ← opx ds 1 g
  let tmp ← reglueU ds [(d, e1), (e, d1), (f, g1), (g, f1)] 1
  let orb := tmp.viewPartial.orbit [0, 1, 3] c
  collapse (.dset tmp) orb 3

def fixLocal1Loop (ds : DSetData) : List Nat → Step
  | [] => .ok none
  | c :: cs =>
    if ds.opPartial 1 c == ds.opPartial 2 c then fixLocal1Body ds c
    else fixLocal1Loop ds cs

/-- `fix_local_1_vertex(input)` -/
def fixLocal1Vertex (input : DOE) : Step :=
  match input with
  | .empty => .ok none
  | .dset ds => fixLocal1Loop ds (ds.viewPartial.orbitReps [1, 2] (seedsExcl ds))

/-! ### fix_local_2_vertex -/

/-- the `continue` test `d == e || d == op1(op0 e) || d == op0(op1 e)` with its short circuit -/
def fixLocal2Skip (ds : DSetData) (d : Nat) : Outcome Bool := do
  let d2 ← opx ds 2 d
  let e ← opx ds 3 d2
  if d = e then pure true else
  let e0 ← opx ds 0 e
  let e01 ← opx ds 1 e0
  if d = e01 then pure true else
  let e1 ← opx ds 1 e
  let e10 ← opx ds 0 e1
  pure (d = e10)

/-- `if r(&ds, 0, 1, x) > 3 { ds = cut_face(&ds, op0 x, op0(op1 x)); }` -/
def cutIfLong (ds : DSetData) (x : Nat) : Outcome DSetData := do
  let k ← r ds 0 1 x
  if k > 3 then
    let a ← opx ds 0 x
    let x1 ← opx ds 1 x
    let b ← opx ds 0 x1
    cutFace ds a b
  else pure ds

def fixLocal2Body (ds0 : DSetData) (d : Nat) : Step := do
  let ds ← asDSet ds0
  let d1 ← opx ds 1 d
  let e ← opx ds 2 d1
  let ds ← cutIfLong ds d
  let ds ← cutIfLong ds e
  let d0 ← opx ds 0 d
  let a ← opx ds 1 d0
  let e0 ← opx ds 0 e
  let b ← opx ds 1 e0
  let ds ← squeezeTile3d ds a b
  let orb := ds.viewPartial.orbit [0, 1, 3] d
  collapse (.dset ds) orb 3

def fixLocal2Loop (ds : DSetData) : List Nat → Step
  | [] => .ok none
  | d :: rest =>
    match r ds 1 2 d with
    | .ok k =>
      if k = 2 then
        (match fixLocal2Skip ds d with
         | .ok true => fixLocal2Loop ds rest
         | .ok false => fixLocal2Body ds d
         | .err => .err
         | .panic => .panic)
      else fixLocal2Loop ds rest
    | .err => .err
    | .panic => .panic

/-- `fix_local_2_vertex(input)` -/
def fixLocal2Vertex (input : DOE) : Step :=
  match input with
  | .empty => .ok none
  | .dset ds => fixLocal2Loop ds (ds.viewPartial.orbitReps [1, 2] (seedsExcl ds))

/-! ### fix_non_disk_face -/

/-- `face_rep[e] = d` for every (0,1)-orbit -/
def faceRep (ds : DSetData) : Array Nat :=
  (ds.viewPartial.orbitReps [0, 1] (seedsIncl ds)).foldl (fun (a : Array Nat) d =>
    (ds.viewPartial.orbit [0, 1] d).foldl (fun (a : Array Nat) e => a.setIfInBounds e d) a)
    (Array.replicate (ds.size + 1) 0)

def nonDiskGlue (ds : DSetData) (d e : Nat) : Step := do
  let f ← opx ds 3 d
  let g ← opx ds 3 e
  let d1 ← opx ds 1 d
  let e1 ← opx ds 1 e
  let f1 ← opx ds 1 f
  let g1 ← opx ds 1 g
  let out ← reglueU ds [(d, e1), (e, d1), (f, g1), (g, f1)] 1
  pure (some (.dset out))

/-- the `while e != d` loop; `.ok none` = fell through (next `d`) -/
def nonDiskWhile (ds : DSetData) (face : Array Nat) (d : Nat) : Nat → Nat → Step
  | 0, _ => .panic
  | fuel + 1, e =>
    if e = d then .ok none
    else
      match idxO face e, idxO face d with
      | .ok fe, .ok fd =>
        if fe = fd then nonDiskGlue ds d e
        else
          (match opx ds 2 e with
           | .ok e2 =>
             (match opx ds 1 e2 with
              | .ok e' => nonDiskWhile ds face d fuel e'
              | .err => .err
              | .panic => .panic)
           | .err => .err
           | .panic => .panic)
      | .panic, _ => .panic
      | _, .panic => .panic
      | _, _ => .err

def nonDiskLoop (ds : DSetData) (face : Array Nat) : List Nat → Step
  | [] => .ok none
  | d :: rest =>
    match opx ds 2 d with
    | .ok d2 =>
      (match opx ds 1 d2 with
       | .ok e =>
         (match nonDiskWhile ds face d (ds.size + 1) e with
          | .ok none => nonDiskLoop ds face rest
          | o => o)
       | .err => .err
       | .panic => .panic)
    | .err => .err
    | .panic => .panic

/-- `fix_non_disk_face(input)` -/
def fixNonDiskFace (input : DOE) : Step :=
  match input with
  | .empty => .ok none
  | .dset ds => nonDiskLoop ds (faceRep ds) (ds.viewPartial.orbitReps [1, 2] (seedsIncl ds))

/-! ### make_skeleton -/

/-- `BTreeSet<(usize, usize)>::insert` into the sorted duplicate-free list -/
def pairLt (a b : Nat × Nat) : Bool := a.1 < b.1 || (a.1 == b.1 && a.2 < b.2)

def pairInsert (p : Nat × Nat) : List (Nat × Nat) → List (Nat × Nat)
  | [] => [p]
  | q :: qs => if p = q then q :: qs else if pairLt p q then p :: q :: qs else q :: pairInsert p qs

/-- `make_skeleton(ds)` = (elm_to_index, reps, edges) -/
def makeSkeleton (ds : DSetData) : Outcome (Array Nat × List Nat × List (Nat × Nat)) :=
  let reps := ds.viewPartial.orbitReps [1, 2] (seedsIncl ds)
  let e2i := reps.zipIdx.foldl (fun (a : Array Nat) (di : Nat × Nat) =>
    (ds.viewPartial.orbit [1, 2] di.1).foldl (fun (a : Array Nat) e => a.setIfInBounds e di.2) a)
    (Array.replicate (ds.size + 1) 0)
  let edges := (ds.viewPartial.orbitReps [0, 2] (seedsIncl ds)).foldl
    (fun (acc : Outcome (List (Nat × Nat))) d =>
      match acc with
      | .ok es =>
        (match opx ds 0 d with
         | .ok d0 =>
           (match idxO e2i d, idxO e2i d0 with
            | .ok a, .ok b => .ok (pairInsert (min a b, max a b) es)
            | _, _ => .panic)
         | .err => .err
         | .panic => .panic)
      | o => o) (.ok [])
  match edges with
  | .ok es => .ok (e2i, reps, es)
  | .err => .err
  | .panic => .panic

/-! ### network_edges -/

/-- `elm_to_index.iter().cloned().max().unwrap_or(0) + 1` : the source vertex of `network_cut`
    (the sink is `source + 1`) -/
def skelSource (e2i : Array Nat) : Nat := e2i.foldl max 0 + 1

/-- `xs.map(|&e| elm_to_index[e])` -/
def mapIdx (a : Array Nat) : List Nat → Outcome (List Nat)
  | [] => .ok []
  | e :: rest =>
    match idxO a e with
    | .ok x =>
      (match mapIdx a rest with
       | .ok xs => .ok (x :: xs)
       | .err => .err
       | .panic => .panic)
    | .err => .err
    | .panic => .panic

/-- `network_edges(ds, d, edge_mode, elm_to_index, edges, source, sink)`: the skeleton edges, an
    edge from the source to every vertex of the face of `d` (in edge mode also of the face of
    `s2 d`), and an edge to the sink from every vertex of the face of `s3 d`.  The two `HashSet`s
    `v_in`, `v_out` are iterated in an unspecified (per-process random) order: the model lists them
    ascending; every statement about the network is made for all lists with the same members. -/
def networkEdges (ds : DSetData) (d : Nat) (edgeMode : Bool) (e2i : Array Nat) (edges : List (Nat × Nat))
    (source sink : Nat) : Outcome (List (Nat × Nat)) := do
  let inChambers ←
    (if edgeMode then (do
        let d2 ← opx ds 2 d
        pure (ds.viewPartial.orbit [0, 1] d ++ ds.viewPartial.orbit [0, 1] d2))
      else pure (ds.viewPartial.orbit [0, 1] d) : Outcome (List Nat))
  let vIn ← mapIdx e2i inChambers
  let d3 ← opx ds 3 d
  let vOut ← mapIdx e2i (ds.viewPartial.orbit [0, 1] d3)
  pure (edges ++ (View.sortDedup vIn).map (fun v => (source, v)) ++ (View.sortDedup vOut).map (fun v => (v, sink)))

/-! ### cut_with_insides, make_key -/

/-- `cut_with_insides(cut_raw, reps, ds, d)`: the chambers of the face of `d`, then one chamber
    (`reps[v]`) per cut vertex, then one per inside vertex that is a skeleton vertex (source and
    sink are filtered out by `v < reps.len()`; the cut vertices are indexed unfiltered) -/
def cutWithInsides (cutV insideV reps : List Nat) (ds : DSetData) (d : Nat) : Outcome (List Nat) :=
  match mapIdx reps.toArray cutV with
  | .ok cutReps =>
    (match mapIdx reps.toArray (insideV.filter (· < reps.length)) with
     | .ok insideReps => .ok (ds.viewPartial.orbit [0, 1] d ++ cutReps ++ insideReps)
     | .err => .err
     | .panic => .panic)
  | .err => .err
  | .panic => .panic

/-- `ds.walk(d, [1, 0, 1]) != Some(e)`: the pair is not joined by an edge of its face -/
def notAlongEdge (ds : DSetData) (p : Nat × Nat) : Bool :=
  ds.viewPartial.walk p.1 [1, 0, 1] != some p.2

/-- `make_key(ds_in, d, ordered)` = (cut length − glue face length, cut length, number of pairs
    that cut across a face) -/
def makeKey (ds : DSetData) (d : Nat) (ordered : List (Nat × Nat)) : Outcome (Int × Nat × Nat) :=
  match ds.viewPartial.r 0 1 d with
  | .ok (some glue) =>
    .ok ((ordered.length : Int) - (glue : Int), ordered.length, (ordered.filter (notAlongEdge ds)).length)
  | .ok none => .panic
  | .err => .err
  | .panic => .panic

/-! ### cut_pairs_in_order -/

/-- `set.contains(&x)` for a `HashSet<usize>` collected from `xs`, asked about chambers only -/
def memFn (size : Nat) (xs : List Nat) : Nat → Bool :=
  let a := markOf size xs
  fun x => a.getD x false

/-- `while marked.contains(&ds.op(0, e).unwrap()) { e = ds.walk(e, [0, 1]).unwrap(); }` -/
def cpInner (ds : DSetData) (marked : Nat → Bool) : Nat → Nat → Outcome Nat
  | 0, _ => .panic
  | fuel + 1, e =>
    match ds.opPartial 0 e with
    | none => .panic
    | some e0 =>
      if marked e0 then
        (match ds.viewPartial.walk e [0, 1] with
         | none => .panic
         | some e' => cpInner ds marked fuel e')
      else .ok e

/-- `while ds.op(1, d) != Some(e) { result.push((d, ds.walk(d, [1, 0, 1]).unwrap()));
    d = ds.walk(d, [1, 0]).unwrap(); }` — returns the pairs pushed -/
def cpSpecial (ds : DSetData) (e : Nat) : Nat → Nat → List (Nat × Nat) → Outcome (List (Nat × Nat))
  | 0, _, _ => .panic
  | fuel + 1, d, acc =>
    if ds.opPartial 1 d = some e then .ok acc
    else
      match ds.viewPartial.walk d [1, 0, 1] with
      | none => .panic
      | some w =>
        (match ds.viewPartial.walk d [1, 0] with
         | none => .panic
         | some d' => cpSpecial ds e fuel d' (acc ++ [(d, w)]))

/-- one round of the outer loop of `cut_pairs_in_order` at chamber `d`: the pairs it pushes and the
    chamber the next round starts from -/
def cpStep (ds : DSetData) (marked special : Nat → Bool) (d : Nat) : Outcome (List (Nat × Nat) × Nat) :=
  match ds.opPartial 1 d with
  | none => .panic
  | some e0 =>
    match cpInner ds marked (ds.size + 1) e0 with
    | .ok e =>
      let pushed : Outcome (List (Nat × Nat)) :=
        if special d then cpSpecial ds e (ds.size + 1) d []
        else if e0 ≠ e then .ok [(d, e)] else .ok []
      (match pushed with
       | .ok c =>
         (match ds.opPartial 2 e with
          | none => .panic
          | some d' => .ok (c, d'))
       | .err => .err
       | .panic => .panic)
    | .err => .err
    | .panic => .panic

/-- `while result.len() < ds.size() + 1 { …; d = ds.op(2, e).unwrap(); if d == start { break; } }` -/
def cpOuter (ds : DSetData) (marked special : Nat → Bool) (start : Nat) :
    Nat → Nat → List (Nat × Nat) → Outcome (List (Nat × Nat))
  | 0, _, _ => .panic
  | fuel + 1, d, result =>
    if result.length < ds.size + 1 then
      match cpStep ds marked special d with
      | .ok (c, d') =>
        if d' = start then .ok (result ++ c) else cpOuter ds marked special start fuel d' (result ++ c)
      | .err => .err
      | .panic => .panic
    else .ok result

/-- `cut_pairs_in_order(ds, start, marked, special)` -/
def cutPairsInOrder (ds : DSetData) (start : Nat) (marked special : Nat → Bool) : Outcome (List (Nat × Nat)) :=
  cpOuter ds marked special start ((ds.size + 2) * (ds.size + 2)) start []

/-! ### network_cut as a function of the iteration order of `marked` -/

/-- the two `HashSet`s of `network_cut`, as the lists they are collected from -/
structure CutPre where
  marked : List Nat
  special : List Nat
  deriving Repr

/-- `network_cut` up to the choice of `start` -/
def networkCutPre (ds : DSetData) (d : Nat) (edgeMode : Bool) : Outcome CutPre :=
  match makeSkeleton ds with
  | .ok (e2i, reps, edges) =>
    let source := skelSource e2i
    let sink := source + 1
    (match networkEdges ds d edgeMode e2i edges source sink with
     | .ok net =>
       (match Cut.minVertexCutUndirected net source sink with
        | .ok raw =>
          (match cutWithInsides raw.cut raw.inside reps ds d with
           | .ok ins =>
             (match opx ds 3 d with
              | .ok d3 =>
                .ok { marked := ins.flatMap (fun e => ds.viewPartial.orbit [1, 2] e),
                      special := ds.viewPartial.orbit [0, 1] d3 }
              | .err => .err
              | .panic => .panic)
           | .err => .err
           | .panic => .panic)
        | .err => .err
        | .panic => .panic)
     | .err => .err
     | .panic => .panic)
  | .err => .err
  | .panic => .panic

/-- `iter.find(|&&e| !marked.contains(&ds.op(0, e).unwrap()))` over the members in the order `iter` -/
def findStart (ds : DSetData) (marked : Nat → Bool) : List Nat → Outcome (Option Nat)
  | [] => .ok none
  | e :: rest =>
    match ds.opPartial 0 e with
    | none => .panic
    | some e0 => if !marked e0 then .ok (some e) else findStart ds marked rest

/-- the chambers `find` can return on a D-set whose operation 0 is defined on `marked`:
    the admissible starts, ascending -/
def admissibleStarts (ds : DSetData) (marked : List Nat) : List Nat :=
  (View.sortDedup marked).filter fun e =>
    match ds.opPartial 0 e with
    | some e0 => !(memFn ds.size marked e0)
    | none => false

/-- `network_cut(ds, d, edge_mode)`; `iter` maps the list `marked` is collected from to the order in
    which the `HashSet` hands out its (distinct) members -/
def networkCut (ds : DSetData) (d : Nat) (edgeMode : Bool) (iter : List Nat → List Nat) :
    Outcome (Option (List (Nat × Nat))) :=
  match networkCutPre ds d edgeMode with
  | .ok pre =>
    let marked := memFn ds.size pre.marked
    (match findStart ds marked (iter pre.marked) with
     | .ok (some start) =>
       (match cutPairsInOrder ds start marked (memFn ds.size pre.special) with
        | .ok r => .ok (some r)
        | .err => .err
        | .panic => .panic)
     | .ok none => .ok none
     | .err => .err
     | .panic => .panic)
  | .err => .err
  | .panic => .panic

/-! ### split_and_glue_attempt -/

/-- the `for (d, e) in ordered` loop: the D-set after the face cuts and `cut_chambers`;
    `.ok none` = the early `return None` -/
def sgCuts : DSetData → List (Nat × Nat) → List Nat → Outcome (Option (DSetData × List Nat))
  | ds, [], cut => .ok (some (ds, cut))
  | ds, (d, e) :: rest, cut =>
    let dsO : Outcome (Option DSetData) :=
      if ds.viewPartial.walk d [1, 0, 1] ≠ some e then
        if (ds.viewPartial.orbit [0, 1] d).contains e then
          (match cutFace ds d e with
           | .ok s => .ok (some s)
           | .err => .err
           | .panic => .panic)
        else .ok none
      else .ok (some ds)
    match dsO with
    | .ok (some ds') =>
      (match opx ds' 1 d, opx ds' 1 e with
       | .ok a, .ok b => sgCuts ds' rest (cut ++ [a, b])
       | .panic, _ => .panic
       | _, .panic => .panic
       | _, _ => .err)
    | .ok none => .ok none
    | .err => .err
    | .panic => .panic

/-- `split_and_glue_attempt(ds, glue_chamber, ordered)` -/
def splitAndGlueAttempt (ds0 : DSetData) (glue : Nat) (ordered : List (Nat × Nat)) : Step :=
  match asDSet ds0 with
  | .ok ds =>
    (match sgCuts ds ordered [] with
     | .ok (some (ds1, cut)) =>
       (match cutTile ds1 cut with
        | .ok ds2 => collapse (.dset ds2) (ds2.viewPartial.orbit [0, 1, 3] glue) 3
        | .err => .err
        | .panic => .panic)
     | .ok none => .ok none
     | .err => .err
     | .panic => .panic)
  | .err => .err
  | .panic => .panic

/-! ### split_and_glue -/

/-- an entry of `cuts`: `(key, (d, ordered))` -/
structure CutEntry where
  key : Int × Nat × Nat
  d : Nat
  ordered : List (Nat × Nat)
  deriving Repr, DecidableEq

/-- derived `Ord` of `Vec<(usize, usize)>` (lexicographic, a proper prefix is smaller) -/
def pairsLt : List (Nat × Nat) → List (Nat × Nat) → Bool
  | [], [] => false
  | [], _ :: _ => true
  | _ :: _, [] => false
  | a :: as, b :: bs => pairLt a b || (a == b && pairsLt as bs)

/-- derived `Ord` of `((isize, usize, usize), (usize, Vec<(usize, usize)>))`, strict -/
def CutEntry.lt (a b : CutEntry) : Bool :=
  if a.key.1 ≠ b.key.1 then decide (a.key.1 < b.key.1)
  else if a.key.2.1 ≠ b.key.2.1 then decide (a.key.2.1 < b.key.2.1)
  else if a.key.2.2 ≠ b.key.2.2 then decide (a.key.2.2 < b.key.2.2)
  else if a.d ≠ b.d then decide (a.d < b.d)
  else pairsLt a.ordered b.ordered

/-- insertion into a sorted list, after the entries that are not greater (stable) -/
def cutInsert (x : CutEntry) : List CutEntry → List CutEntry
  | [] => [x]
  | y :: ys => if x.lt y then x :: y :: ys else y :: cutInsert x ys

/-- `cuts.sort()` -/
def cutSort (l : List CutEntry) : List CutEntry := l.foldl (fun acc x => cutInsert x acc) []

/-- one round of the two collecting loops: `if let Some(ordered) = network_cut(..) { let key =
    make_key(..); if keep(key.0) { cuts.push(..) } }` -/
def sgCollectOne (ds : DSetData) (edgeMode : Bool) (keep : Int → Bool) (iter : Nat → Bool → List Nat → List Nat)
    (d : Nat) (cuts : List CutEntry) : Outcome (List CutEntry) :=
  match networkCut ds d edgeMode (iter d edgeMode) with
  | .ok (some ordered) =>
    (match makeKey ds d ordered with
     | .ok key => .ok (if keep key.1 then cuts ++ [{ key := key, d := d, ordered := ordered }] else cuts)
     | .err => .err
     | .panic => .panic)
  | .ok none => .ok cuts
  | .err => .err
  | .panic => .panic

/-- `for d in ds_in.orbit_reps([0, 1, 3], 1..=ds_in.size())` (face mode, keys with `key.0 < 0`) -/
def sgCollectFaces (ds : DSetData) (iter : Nat → Bool → List Nat → List Nat) :
    List Nat → List CutEntry → Outcome (List CutEntry)
  | [], cuts => .ok cuts
  | d :: rest, cuts =>
    match sgCollectOne ds false (fun k => decide (k < 0)) iter d cuts with
    | .ok cuts' => sgCollectFaces ds iter rest cuts'
    | .err => .err
    | .panic => .panic

/-- `for d in ds_in.orbit_reps([0], 1..=ds_in.size())` (edge mode, edges of degree 3 only, keys with
    `key.0 == 0`) -/
def sgCollectEdges (ds : DSetData) (iter : Nat → Bool → List Nat → List Nat) :
    List Nat → List CutEntry → Outcome (List CutEntry)
  | [], cuts => .ok cuts
  | d :: rest, cuts =>
    match ds.viewPartial.r 2 3 d with
    | .ok r23 =>
      if r23 ≠ some 3 then sgCollectEdges ds iter rest cuts
      else
        (match sgCollectOne ds true (fun k => decide (k = 0)) iter d cuts with
         | .ok cuts' => sgCollectEdges ds iter rest cuts'
         | .err => .err
         | .panic => .panic)
    | .err => .err
    | .panic => .panic

/-- what the body of the last loop of `split_and_glue` computes for one entry:
    `split_and_glue_attempt(..)`, for `key.0 == 0` followed by `.and_then(|r| merge_facets(&r))`
    (so an attempt whose result `merge_facets` declines to change is dropped) -/
def sgTry (ds : DSetData) (c : CutEntry) : Step :=
  match splitAndGlueAttempt ds c.d c.ordered with
  | .ok (some r) => if c.key.1 = 0 then mergeFacets r else .ok (some r)
  | o => o

/-- `for (key, (glue_chamber, ordered)) in cuts { … }`: the first attempt that yields a smaller
    D-set wins -/
def sgFirst (ds : DSetData) : List CutEntry → Step
  | [] => .ok none
  | c :: rest =>
    match sgTry ds c with
    | .ok (some (.dset out)) => if out.size < ds.size then .ok (some (.dset out)) else sgFirst ds rest
    | .ok (some .empty) => sgFirst ds rest
    | .ok none => sgFirst ds rest
    | .err => .err
    | .panic => .panic

/-- the sorted list `cuts` of `split_and_glue` -/
def sgCuts? (ds : DSetData) (iter : Nat → Bool → List Nat → List Nat) : Outcome (List CutEntry) :=
  match sgCollectFaces ds iter (ds.viewPartial.orbitReps [0, 1, 3] (seedsIncl ds)) [] with
  | .ok cuts1 =>
    (match sgCollectEdges ds iter (ds.viewPartial.orbitReps [0] (seedsIncl ds)) cuts1 with
     | .ok cuts2 => .ok (cutSort cuts2)
     | .err => .err
     | .panic => .panic)
  | .err => .err
  | .panic => .panic

/-- `split_and_glue(input)`; `iter d edge_mode` is the iteration order of the `HashSet` `marked`
    inside the call `network_cut(ds, d, edge_mode)` -/
def splitAndGlue (input : DOE) (iter : Nat → Bool → List Nat → List Nat) : Step :=
  match input with
  | .empty => .ok none
  | .dset ds =>
    match sgCuts? ds iter with
    | .ok cuts => sgFirst ds cuts
    | .err => .err
    | .panic => .panic

end DSymVerif.Simp
