/-
Model of the exact linear algebra of /repo/src/geometry  (import-free, executable):

  traits.rs            `gcdx`, `Entry::{can_divide, pivot_row, clear_col}` for `i64`,
                       `BigRational`
  modular_solver.rs    `Entry for PrimeResidueClass<P>`, `rational_reconstruction`,
                       the p-adic loop of `solve`
  vec_matrix.rs        `RowEchelonVecMatrix::new`, `rank`, `null_space`,
                       `null_space_matrix`, `solve`, `determinant`, `inverse`, and the
                       helpers they call (`identity`, `transpose`, `swap_rows`,
                       `submatrix`, `Mul`)
  matrix.rs            the const-generic twin `RowEchelonMatrix` … is the same text with
                       `N`, `M` for `nr_rows()`, `nr_columns()`: one model, two
                       correspondences.

A matrix is `Mat α nr nc = Vector (Vector α nc) nr`: the shape is part of the type, the
entries are total, and the *only* way an access can fail is the Rust one — the
`assert!(i < self.nr_rows)` / `assert!(j < self.nr_cols)` of `Index`/`IndexMut`, which
is `Outcome.panic` in `Mat.get`/`Mat.set`/`Mat.swapRows`.  All loop indices are plain
`Nat`s exactly as the `usize`s of the code, so "never indexes out of range" is a
theorem (`echelon_no_panic`), not a typing artefact.

Scalars are abstracted by `Backend α` (the `Entry` trait): `i64Backend c` (`c = PRC.chk`
is the overflow-checked machine integer of the harness build, `c = Outcome.ok` the
idealised integer the theorems talk about, DESIGN §5.6), `ratBackend`, `prcBackend p`.
-/
import DSymVerif.Model.Outcome
import DSymVerif.Model.PrimeResidue
import DSymVerif.Model.Rational

namespace DSymVerif.LA

abbrev Mat (α : Type) (nr nc : Nat) := Vector (Vector α nc) nr

namespace Mat
variable {α : Type} {nr nc : Nat}

/-- `Index<(usize, usize)>` : two asserts, then the entry -/
def get (m : Mat α nr nc) (i j : Nat) : Outcome α :=
  if h : i < nr then
    if h' : j < nc then .ok ((m[i])[j]) else .panic
  else .panic

/-- `IndexMut<(usize, usize)>` -/
def set (m : Mat α nr nc) (i j : Nat) (x : α) : Outcome (Mat α nr nc) :=
  if h : i < nr then
    if h' : j < nc then .ok (Vector.set m i (Vector.set (m[i]) j x h') h) else .panic
  else .panic

/-- `swap_rows` : `assert!(i < nr)`, `assert!(j < nr)`, `assert_ne!(i, j)` -/
def swapRows (m : Mat α nr nc) (i j : Nat) : Outcome (Mat α nr nc) :=
  if h : i < nr then
    if h' : j < nr then
      if i = j then .panic else .ok (Vector.swap m i j h h')
    else .panic
  else .panic

/-- `VecMatrix::new(nr, nc)` with every entry `x` (`vec![T::zero(); nr * nc]`) -/
def fill (x : α) : Mat α nr nc := Vector.replicate nr (Vector.replicate nc x)

def toLists (m : Mat α nr nc) : List (List α) := m.toList.map (·.toList)

def rowOfList? (nc : Nat) (xs : List α) : Option (Vector α nc) :=
  if h : xs.toArray.size = nc then some ⟨xs.toArray, h⟩ else none

/-- build a matrix from parsed rows (driver side) -/
def ofLists? (nr nc : Nat) (xss : List (List α)) : Option (Mat α nr nc) :=
  match xss.mapM (rowOfList? nc) with
  | some rows => if h : rows.toArray.size = nr then some ⟨rows.toArray, h⟩ else none
  | none => none

def map {β : Type} (f : α → β) (m : Mat α nr nc) : Mat β nr nc := Vector.map (Vector.map f) m

end Mat

/-- `for k in lo..hi { s = f(k, s)? }` -/
def forLoop {σ : Type} (f : Nat → σ → Outcome σ) : Nat → Nat → σ → Outcome σ
  | 0, _, s => .ok s
  | n + 1, k, s =>
    match f k s with
    | .ok s' => forLoop f n (k + 1) s'
    | .err => .err
    | .panic => .panic

def forRange {σ : Type} (lo hi : Nat) (init : σ) (f : Nat → σ → Outcome σ) : Outcome σ :=
  forLoop f (hi - lo) lo init

/-- `for k in (0..n).rev() { s = f(k, s)? }` -/
def forDown {σ : Type} (f : Nat → σ → Outcome σ) : Nat → σ → Outcome σ
  | 0, s => .ok s
  | n + 1, s =>
    match f n s with
    | .ok s' => forDown f n s'
    | .err => .err
    | .panic => .panic

/-- `xs.iter().map(f).collect()` where `f` may panic -/
def mapO {α β : Type} (f : α → Outcome β) : List α → Outcome (List β)
  | [] => .ok []
  | x :: xs =>
    match f x with
    | .ok y =>
      match mapO f xs with
      | .ok ys => .ok (y :: ys)
      | .err => .err
      | .panic => .panic
    | .err => .err
    | .panic => .panic

/-- the `Entry` trait (plus the `Scalar` operations the generic code uses) -/
structure Backend (α : Type) where
  zero : α
  one : α
  isZero : α → Bool
  add : α → α → Outcome α
  sub : α → α → Outcome α
  mul : α → α → Outcome α
  neg : α → Outcome α
  div : α → α → Outcome α
  canDivide : α → α → Outcome Bool
  pivotRow : {nr nc : Nat} → Nat → Nat → Mat α nr nc → Outcome (Option Nat)
  clearCol : {nr nc nx : Nat} → Nat → Nat → Nat → Mat α nr nc → Mat α nr nx →
    Outcome (Mat α nr nc × Mat α nr nx)

/-! ### `traits::gcdx` and `Entry for i64` -/

/-- the `while !a_next.is_zero()` loop of `gcdx`; `c` is the integer type's range check.
    Fuel: `|a_next|` strictly decreases (`gcdx_spec` shows it never runs out). -/
def gcdxLoop (c : Int → Outcome Int) :
    Nat → Int → Int → Int → Int → Int → Int → Outcome (Int × Int × Int × Int × Int)
  | 0, _, _, _, _, _, _ => .panic
  | f + 1, a, an, r, rn, s, sn =>
    if an = 0 then .ok (a, r, s, rn, sn) else
    (c (a.tdiv an)).bind fun q =>
    (c (q * an)).bind fun qa => (c (a - qa)).bind fun a2 =>
    (c (q * rn)).bind fun qr => (c (r - qr)).bind fun r2 =>
    (c (q * sn)).bind fun qs => (c (s - qs)).bind fun s2 =>
    gcdxLoop c f an a2 rn r2 sn s2

/-- `pub fn gcdx<T>(a, b) -> (T, T, T, T, T)` at `T = i64` -/
def gcdx (c : Int → Outcome Int) (a b : Int) : Outcome (Int × Int × Int × Int × Int) :=
  gcdxLoop c (b.natAbs + 1) a b 1 0 0 1

/-- `i64::abs` -/
def iabs (c : Int → Outcome Int) (x : Int) : Outcome Int := c (x.natAbs : Int)

/-- `Entry for i64 :: can_divide` : `*b != 0 && a / b * b == *a` -/
def i64CanDivide (c : Int → Outcome Int) (a b : Int) : Outcome Bool :=
  if b = 0 then .ok false else
  (c (a.tdiv b)).bind fun q => (c (q * b)).bind fun qb => .ok (qb == a)

/-- `Entry for i64 :: pivot_row` : non-zero entry of least absolute value at or below
    `row0`; note the unconditional `a[(best_row, col)]` with `best_row = row0`. -/
def i64PivotRow (c : Int → Outcome Int) {nr nc : Nat} (col row0 : Nat) (a : Mat Int nr nc) :
    Outcome (Option Nat) :=
  (forRange (row0 + 1) nr row0 fun row best =>
    (a.get row col).bind fun x => (a.get best col).bind fun y =>
    if x ≠ 0 then
      if y = 0 then .ok row
      else (iabs c x).bind fun ax => (iabs c y).bind fun ay => .ok (if ax < ay then row else best)
    else .ok best).bind fun best =>
  (a.get best col).bind fun v => .ok (if v ≠ 0 then some best else none)

/-- the two `for k` loops of `Entry for i64 :: clear_col` share this body -/
def i64ClearRowPair (c : Int → Outcome Int) {nr n : Nat} (lo : Nat) (row1 row2 : Nat)
    (det r s t u : Int) (a : Mat Int nr n) : Outcome (Mat Int nr n) :=
  forRange lo n a fun k a =>
    (a.get row2 k).bind fun x2 => (a.get row1 k).bind fun x1 =>
    (c (x2 * r)).bind fun p1 => (c (x1 * s)).bind fun p2 => (c (p1 + p2)).bind fun sm =>
    (c (det * sm)).bind fun tmp =>
    (a.get row2 k).bind fun y2 => (a.get row1 k).bind fun y1 =>
    (c (y2 * t)).bind fun p3 => (c (y1 * u)).bind fun p4 => (c (p3 + p4)).bind fun n1 =>
    (a.set row1 k n1).bind fun a => a.set row2 k tmp

/-- `Entry for i64 :: clear_col` : unimodular 2×2 step from the extended gcd -/
def i64ClearCol (c : Int → Outcome Int) {nr nc nx : Nat} (col row1 row2 : Nat)
    (a : Mat Int nr nc) (x : Mat Int nr nx) : Outcome (Mat Int nr nc × Mat Int nr nx) :=
  (a.get row2 col).bind fun a2 => (a.get row1 col).bind fun a1 =>
  (gcdx c a2 a1).bind fun (_, r, s, t, u) =>
  (c (r * u)).bind fun ru => (c (s * t)).bind fun st => (c (ru - st)).bind fun det =>
  (i64ClearRowPair c col row1 row2 det r s t u a).bind fun a' =>
  (i64ClearRowPair c 0 row1 row2 det r s t u x).bind fun x' => .ok (a', x')

def i64Backend (c : Int → Outcome Int) : Backend Int where
  zero := 0
  one := 1
  isZero := fun a => a == 0
  add := fun a b => c (a + b)
  sub := fun a b => c (a - b)
  mul := fun a b => c (a * b)
  neg := fun a => c (-a)
  div := fun a b => if b = 0 then .panic else c (a.tdiv b)
  canDivide := i64CanDivide c
  pivotRow := i64PivotRow c
  clearCol := i64ClearCol c

/-! ### `Entry for BigRational`, `Entry for PrimeResidueClass<P>` -/

/-- `clear_col` of both field back-ends: `f = a[row1][col] / a[row2][col]`, zero the
    entry, subtract `f` times row2 from the rest of row1 and from `x`'s row1. -/
def fieldClearCol {α : Type} (zero : α) (sub mul div : α → α → Outcome α) {nr nc nx : Nat}
    (col row1 row2 : Nat) (a : Mat α nr nc) (x : Mat α nr nx) :
    Outcome (Mat α nr nc × Mat α nr nx) :=
  (a.get row1 col).bind fun a1 => (a.get row2 col).bind fun a2 =>
  (div a1 a2).bind fun f =>
  (a.set row1 col zero).bind fun a =>
  (forRange (col + 1) nc a fun k a =>
    (a.get row1 k).bind fun v1 => (a.get row2 k).bind fun v2 =>
    (mul v2 f).bind fun p => (sub v1 p).bind fun d => a.set row1 k d).bind fun a' =>
  (forRange 0 nx x fun k x =>
    (x.get row1 k).bind fun v1 => (x.get row2 k).bind fun v2 =>
    (mul v2 f).bind fun p => (sub v1 p).bind fun d => x.set row1 k d).bind fun x' =>
  .ok (a', x')

/-- `Entry for BigRational :: pivot_row` : entry of largest absolute value -/
def ratPivotRow {nr nc : Nat} (col row0 : Nat) (a : Mat Q nr nc) : Outcome (Option Nat) :=
  (forRange (row0 + 1) nr row0 fun row best =>
    (a.get row col).bind fun x => (a.get best col).bind fun y =>
    .ok (if Q.gt x.abs y.abs then row else best)).bind fun best =>
  (a.get best col).bind fun v => .ok (if v.isZero then none else some best)

def ratBackend : Backend Q where
  zero := Q.zero
  one := Q.one
  isZero := Q.isZero
  add := fun a b => .ok (Q.add a b)
  sub := fun a b => .ok (Q.sub a b)
  mul := fun a b => .ok (Q.mul a b)
  neg := fun a => .ok (Q.neg a)
  div := Q.div
  canDivide := fun _ b => .ok (!b.isZero)
  pivotRow := ratPivotRow
  clearCol := fieldClearCol Q.zero (fun a b => .ok (Q.sub a b)) (fun a b => .ok (Q.mul a b)) Q.div

/-- `Entry for PrimeResidueClass<P> :: pivot_row` : first non-zero entry,
    `for row in row0..nr { if !zero { return Some(row) } } None` -/
def prcPivotLoop {nr nc : Nat} (col : Nat) (a : Mat Int nr nc) : Nat → Nat → Outcome (Option Nat)
  | 0, _ => .ok none
  | n + 1, row =>
    match a.get row col with
    | .ok v => if PRC.isZero v then prcPivotLoop col a n (row + 1) else .ok (some row)
    | .err => .err
    | .panic => .panic

def prcPivotRow {nr nc : Nat} (col row0 : Nat) (a : Mat Int nr nc) : Outcome (Option Nat) :=
  prcPivotLoop col a (nr - row0) row0

def prcBackend (p : Int) : Backend Int where
  zero := PRC.zero p
  one := PRC.one p
  isZero := PRC.isZero
  add := PRC.add p
  sub := PRC.sub p
  mul := PRC.mul p
  neg := PRC.neg p
  div := PRC.div p
  canDivide := fun _ b => .ok (!PRC.isZero b)
  pivotRow := prcPivotRow
  clearCol := fieldClearCol (PRC.zero p) (PRC.sub p) (PRC.mul p) (PRC.div p)

/-! ### generic matrix helpers -/

section generic
variable {α : Type}

/-- `VecMatrix::identity(n)` -/
def identity (B : Backend α) (n : Nat) : Outcome (Mat α n n) :=
  forRange 0 n (Mat.fill B.zero) fun i m => m.set i i B.one

/-- `transpose` -/
def transpose (B : Backend α) {nr nc : Nat} (m : Mat α nr nc) : Outcome (Mat α nc nr) :=
  forRange 0 nc (Mat.fill B.zero) fun i res =>
    forRange 0 nr res fun j res => (m.get j i).bind fun x => res.set i j x

/-- `impl Mul<&VecMatrix<T>> for &VecMatrix<T>` : `x = x + &self[i][k] * &rhs[k][j]` -/
def matMul (B : Backend α) {n m k : Nat} (a : Mat α n m) (b : Mat α m k) : Outcome (Mat α n k) :=
  forRange 0 n (Mat.fill B.zero) fun i res =>
    forRange 0 k res fun j res =>
      (forRange 0 m B.zero fun l x =>
        (a.get i l).bind fun ail => (b.get l j).bind fun blj =>
        (B.mul ail blj).bind fun p => B.add x p).bind fun x =>
      res.set i j x

/-- `submatrix(rows, columns)` : both index lists are asserted to be in range first -/
def submatrix {nr nc : Nat} (m : Mat α nr nc) (rows cols : List Nat) : Outcome (List (List α)) :=
  if rows.all (· < nr) && cols.all (· < nc) then
    mapO (fun i => mapO (fun j => m.get i j) cols) rows
  else .panic

/-! ### `RowEchelonVecMatrix` -/

structure RowEchelon (α : Type) (nr nc : Nat) where
  multiplier : Mat α nr nr
  result : Mat α nr nc
  columns : Vector Nat nr
  rank : Nat
  nrSwaps : Nat

/-- the mutable locals of `RowEchelonVecMatrix::new` -/
structure EchState (α : Type) (nr nc : Nat) where
  u : Mat α nr nc
  s : Mat α nr nr
  row : Nat
  nrSwaps : Nat
  cols : Vector Nat nr

/-- one iteration of `for col in 0..m.nr_columns()`.  With `repaired` (the tree after
    the `fix:` commit for defect D9) the loop is left as soon as `row == nr_rows`
    (`break`; here: the remaining iterations return the state unchanged).  The pinned
    loop (`repaired = false`) goes on to call `pivot_row(col, row = nr_rows, …)`. -/
def colStep (B : Backend α) (repaired : Bool) {nr nc : Nat} (col : Nat) (st : EchState α nr nc) :
    Outcome (EchState α nr nc) :=
  if repaired && st.row == nr then .ok st else
  (B.pivotRow col st.row st.u).bind fun
    | none => .ok st
    | some pr =>
      (if pr ≠ st.row then
        (st.u.swapRows pr st.row).bind fun u => (st.s.swapRows pr st.row).bind fun s =>
          .ok (u, s, st.nrSwaps + 1)
       else .ok (st.u, st.s, st.nrSwaps)).bind fun (u, s, sw) =>
      (forRange (st.row + 1) nr (u, s) fun r us => B.clearCol col r st.row us.1 us.2).bind fun us =>
      (if h : st.row < nr then Outcome.ok (st.cols.set st.row col h) else Outcome.panic).bind fun cols =>
      .ok { u := us.1, s := us.2, row := st.row + 1, nrSwaps := sw, cols := cols }

/-- `RowEchelonVecMatrix::new` / `RowEchelonMatrix::new` -/
def echelon (B : Backend α) (repaired : Bool) {nr nc : Nat} (m : Mat α nr nc) :
    Outcome (RowEchelon α nr nc) :=
  (identity B nr).bind fun s0 =>
  (forRange 0 nc
    ({ u := m, s := s0, row := 0, nrSwaps := 0, cols := Vector.replicate nr nr } : EchState α nr nc)
    (colStep B repaired)).bind fun st =>
  .ok { multiplier := st.s, result := st.u, columns := st.cols, rank := st.row, nrSwaps := st.nrSwaps }

/-- `rank` -/
def rank (B : Backend α) {nr nc : Nat} (m : Mat α nr nc) : Outcome Nat :=
  (echelon B true m).bind fun re => .ok re.rank

/-- `null_space_matrix` : columns `rank..nc` of the transposed multiplier of the
    transposed matrix; result has `nc` rows and `nc - rank` columns -/
def nullSpaceMatrix (B : Backend α) {nr nc : Nat} (m : Mat α nr nc) : Outcome (List (List α)) :=
  (transpose B m).bind fun mt => (echelon B true mt).bind fun re =>
  (transpose B re.multiplier).bind fun s =>
  submatrix s (List.range nc) ((List.range nc).drop re.rank)

/-- `null_space` : the same columns, one `nc × 1` matrix each -/
def nullSpace (B : Backend α) {nr nc : Nat} (m : Mat α nr nc) : Outcome (List (List (List α))) :=
  (transpose B m).bind fun mt => (echelon B true mt).bind fun re =>
  (transpose B re.multiplier).bind fun s =>
  mapO (fun i => submatrix s (List.range nc) [i]) ((List.range nc).drop re.rank)

/-- `&re.result[row] * &result` : `(VecMatrix::from(slice) * rhs)[0]` -/
def rowTimes (B : Backend α) {nr nc k : Nat} (a : Mat α nr nc) (row : Nat) (x : Mat α nc k) :
    Outcome (Mat α 1 k) :=
  (forRange 0 nc (Mat.fill B.zero : Mat α 1 nc) fun j r =>
    (a.get row j).bind fun v => r.set 0 j v).bind fun r =>
  matMul B r x

/-- `solve` : `err` is the returned `None` -/
def solve (B : Backend α) {nr nc k : Nat} (a : Mat α nr nc) (rhs : Mat α nr k) :
    Outcome (Mat α nc k) :=
  (echelon B true a).bind fun re =>
  (matMul B re.multiplier rhs).bind fun y =>
  (forRange re.rank nr true fun i acc =>
    forRange 0 k acc fun j acc => (y.get i j).bind fun v => .ok (acc && B.isZero v)).bind fun cons =>
  if !cons then .err else
  forDown (fun row result =>
    (rowTimes B re.result row result).bind fun av =>
    (if h : row < nr then Outcome.ok re.columns[row] else Outcome.panic).bind fun c =>
    (re.result.get row c).bind fun x =>
    forRange 0 k result fun kk result =>
      (y.get row kk).bind fun b => (av.get 0 kk).bind fun ak =>
      (B.sub b ak).bind fun t =>
      (B.canDivide t x).bind fun cd =>
      if cd then (B.div t x).bind fun q => result.set c kk q else .err)
    re.rank (Mat.fill B.zero)

/-- `determinant` (square; the `assert_eq!(nr_rows, nr_columns)` of the `VecMatrix`
    version is discharged by the type) : closed formulas up to 3×3, product of the
    echelon diagonal with the swap parity beyond -/
def determinant (B : Backend α) {n : Nat} (m : Mat α n n) : Outcome α :=
  if n = 0 then .ok B.one
  else if n = 1 then m.get 0 0
  else if n = 2 then
    (m.get 0 0).bind fun a => (m.get 1 1).bind fun d => (m.get 0 1).bind fun b =>
    (m.get 1 0).bind fun c =>
    (B.mul a d).bind fun ad => (B.mul b c).bind fun bc => B.sub ad bc
  else if n = 3 then
    (m.get 0 0).bind fun a00 => (m.get 0 1).bind fun a01 => (m.get 0 2).bind fun a02 =>
    (m.get 1 0).bind fun a10 => (m.get 1 1).bind fun a11 => (m.get 1 2).bind fun a12 =>
    (m.get 2 0).bind fun a20 => (m.get 2 1).bind fun a21 => (m.get 2 2).bind fun a22 =>
    (B.mul a11 a22).bind fun t => (B.mul a00 t).bind fun p1 =>
    (B.mul a12 a20).bind fun t => (B.mul a01 t).bind fun p2 =>
    (B.add p1 p2).bind fun acc =>
    (B.mul a10 a21).bind fun t => (B.mul a02 t).bind fun p3 =>
    (B.add acc p3).bind fun acc =>
    (B.mul a11 a20).bind fun t => (B.mul a02 t).bind fun p4 =>
    (B.sub acc p4).bind fun acc =>
    (B.mul a12 a21).bind fun t => (B.mul a00 t).bind fun p5 =>
    (B.sub acc p5).bind fun acc =>
    (B.mul a10 a22).bind fun t => (B.mul a01 t).bind fun p6 =>
    B.sub acc p6
  else
    (echelon B true m).bind fun re =>
    (forRange 0 n B.one fun i acc => (re.result.get i i).bind fun d => B.mul acc d).bind fun res =>
    if re.nrSwaps % 2 == 0 then .ok res else B.neg res

/-- `inverse` : `self.solve(&identity)` -/
def inverse (B : Backend α) {n : Nat} (m : Mat α n n) : Outcome (Mat α n n) :=
  (identity B n).bind fun i => solve B m i

end generic

/-! ### `modular_solver.rs` -/

/-- `rational_reconstruction(s, h)` : the `while u1^2 > h` loop on `BigInt`s; the fuel
    bounds the `while` (`u1` strictly decreases once `u1 ≤ u`).  `BigInt` division by
    zero panics. -/
def ratRecLoop (h : Int) : Nat → Int → Int → Int → Int → Int → Outcome Q
  | 0, _, _, _, _, _ => .panic
  | f + 1, u, u1, v, v1, sign =>
    if u1 * u1 > h then
      if u1 = 0 then .panic else
      let q := u.tdiv u1
      let r := u.tmod u1
      ratRecLoop h f u1 r v1 (v + q * v1) (-sign)
    else Q.new (sign * u1) v1

def rationalReconstruction (s h : Int) : Outcome Q :=
  ratRecLoop h (s.natAbs + 3) h s 0 1 1

/-- state of the lifting loop: right-hand side `b`, partial solution `s`, `p = P^step` -/
structure LiftState (n k : Nat) where
  b : Mat Int n k
  s : Mat Int n k
  p : Int

/-- one iteration of `for step in 0..nr_steps` :
    `x = (&c * b.to()).to(); s = s + &x * &p; p *= &prime;`
    `if step + 1 < nr_steps { b = &(b - &a * x) / &prime; }` (all on `BigInt`) -/
def liftStep (prime : Int) {n k : Nat} (a : Mat Int n n) (cinv : Mat Int n n) (nrSteps : Nat)
    (step : Nat) (st : LiftState n k) : Outcome (LiftState n k) :=
  (matMul (prcBackend prime) cinv (st.b.map (PRC.fromBigInt prime))).bind fun x =>
  let s' : Mat Int n k := Vector.zipWith (Vector.zipWith fun sv xv => sv + xv * st.p) st.s x
  let p' := st.p * prime
  if step + 1 < nrSteps then
    (matMul (i64Backend .ok) a x).bind fun ax =>
    let b' : Mat Int n k :=
      Vector.zipWith (Vector.zipWith fun bv av => (bv - av).tdiv prime) st.b ax
    .ok { b := b', s := s', p := p' }
  else .ok { b := st.b, s := s', p := p' }

/-- `modular_solver::solve(a, b)` with the modulus and the (floating-point derived)
    number of lifting steps as inputs; `err` is the returned `None`.
    `a.to::<PrimeResidueClass<PRIME>>().inverse()` asserts a square matrix: `n × n` here. -/
def modSolve (prime : Int) (nrSteps : Nat) {n k : Nat} (a : Mat Int n n) (b : Mat Int n k) :
    Outcome (Mat Q n k) :=
  match inverse (prcBackend prime) (a.map (PRC.fromI64 prime)) with
  | .panic => .panic
  | .err => .err
  | .ok cinv =>
    (forRange 0 nrSteps ({ b := b, s := Mat.fill 0, p := 1 } : LiftState n k)
      (liftStep prime a cinv nrSteps)).bind fun st =>
    forRange 0 n (Mat.fill Q.zero) fun i res =>
      forRange 0 k res fun j res =>
        (st.s.get i j).bind fun sij => (rationalReconstruction sij st.p).bind fun q => res.set i j q

end DSymVerif.LA
