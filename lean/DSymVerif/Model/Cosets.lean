/-
Model of /repo/src/fpgroups/cosets.rs (import-free, executable): the coset table
with its union-find of coincident rows, the scanning primitives, the Todd–Coxeter
enumeration `coset_table`, `coset_representative`, and the low-index machinery
(`first_free_in_table`, `derived_table`, `potential_children`,
`compare_renumbered_from`, `is_canonical`, the `BackTracking` instance, `coset_tables`).

Conventions (DESIGN §3.2): every Rust statement is re-stated; `&mut` becomes a returned
value; `panic!`/`assert!`/index out of range become `Outcome.panic`; `Outcome.err` is
used only for "model fuel exhausted" (never produced when the loop invariants of the
Rust code hold — the fuel is the bound the code itself guarantees).

Repaired behaviour is modelled for these defects (the pinned tree differed):
* D6  `coset_table` scanned the subgroup generators at `canon(1)`; repaired: `canon(0)`.
* D7  `coset_representative` never consulted the table; repaired: follows `get(i, g)`.
* D10 `scan_both_ways` / `coset_table` read `w[0]` of an empty word (panic); repaired:
      the letter is only read when the scan stopped inside the word, and only
      non-empty relators are matched against the defining letter.
* D11 `coset_table` scanned relators only through freshly *defined* entries; entries
      made by deductions or copied by coincidences were never scanned (Z3, H = ⟨a²⟩
      gave 2 rows); repaired: a closing pass scans every relator at every row and the
      subgroup generators at the base row until nothing changes.
* D12 `compact` numbered the live rows by index; a coincidence can make row 0
      non-canonical, and then the base coset was not row 0 of the result; repaired:
      classes are numbered in order of first appearance of a member.

`IntPartition` (src/util/partitions.rs) is modelled by parent/rank vectors; `find`
does not compress paths and does not grow the vectors — both are unobservable through
`find`/`unite` (roots and ranks are unchanged by compression; a missing element is its
own root).
-/
import DSymVerif.Model.Outcome
import DSymVerif.Model.FreeWord

namespace DSymVerif.Cosets
open DSymVerif

/-! ### `IntPartition` -/

structure Part where
  parent : Array Nat
  rank : Array Nat
  /-- modelling device only: a bound (> every rank) for the number of iterations of the
      root walk; `Proofs/CosetPart.lean` proves it always suffices -/
  fuel : Nat
  deriving Repr

/-- `IntPartition::new` -/
def Part.new : Part := ⟨#[], #[], 1⟩

/-- `for i in self.parent.len()..=a { self.parent.push(i); self.rank.push(0) }` -/
def Part.grow (p : Part) (a : Nat) : Part :=
  ⟨p.parent ++ (List.range' p.parent.size (a + 1 - p.parent.size)).toArray,
   p.rank ++ Array.replicate (a + 1 - p.parent.size) 0, p.fuel⟩

/-- `while self.parent[root] != root { root = self.parent[root] }` (ranks strictly
    increase along a parent chain, so `fuel` > every rank bounds its length) -/
def rootFuel (parent : Array Nat) : Nat → Nat → Nat
  | 0, x => x
  | f + 1, x =>
    let y := parent.getD x x
    if y = x then x else rootFuel parent f y

/-- `IntPartition::find` -/
def Part.find (p : Part) (a : Nat) : Nat := rootFuel p.parent p.fuel a

/-- `IntPartition::unite` (union by rank; ties make the first argument's root the parent) -/
def Part.unite (p : Part) (a b : Nat) : Part :=
  let p := (p.grow a).grow b
  let x := p.find a
  let y := p.find b
  if x = y then p else
    let rx := p.rank.getD x 0
    let ry := p.rank.getD y 0
    if rx < ry then { p with parent := p.parent.setIfInBounds x y }
    else
      { parent := p.parent.setIfInBounds y x
        rank := if rx = ry then p.rank.setIfInBounds x (rx + 1) else p.rank
        fuel := if rx = ry then p.fuel + 1 else p.fuel }

/-! ### `CosetTable` -/

structure Table where
  nrGens : Nat
  rows : Array (Array Int)
  part : Part
  deriving Repr

def blankRow (nrGens : Nat) : Array Int := Array.replicate (nrGens * 2 + 1) (-1)

/-- `CosetTable::new` -/
def Table.new (nrGens : Nat) : Table := ⟨nrGens, #[blankRow nrGens], Part.new⟩

/-- the letters `1..=nr_gens` followed by their negatives -/
def allGensOf (nrGens : Nat) : List Int :=
  (List.range' 1 nrGens).map (fun (g : Nat) => (g : Int)) ++
    (List.range' 1 nrGens).map (fun (g : Nat) => -(g : Int))

/-- `CosetTable::all_gens` -/
def Table.allGens (t : Table) : List Int := allGensOf t.nrGens

/-- `CosetTable::len` -/
def Table.len (t : Table) : Nat := t.rows.size

/-- `CosetTable::canon` -/
def Table.canon (t : Table) (c : Nat) : Nat := t.part.find c

/-- `CosetTable::get`.  `(g + nr_gens as isize) as usize` wraps to a huge index when
    negative, so every letter outside `-nr_gens..=nr_gens` is an index panic — but only
    when the row exists. -/
def Table.get (t : Table) (c : Nat) (g : Int) : Outcome (Option Nat) :=
  if h : c < t.rows.size then
    if g + t.nrGens < 0 then .panic else
    match t.rows[c][(g + t.nrGens).toNat]? with
    | none => .panic
    | some r => if r ≥ 0 then .ok (some (t.canon r.toNat)) else .ok none
  else .ok none

/-- `while c >= self.len() { self.table.push(vec![-1; …]) }` -/
def padRows (nrGens : Nat) (rows : Array (Array Int)) (c : Nat) : Array (Array Int) :=
  rows ++ Array.replicate (c + 1 - rows.size) (blankRow nrGens)

/-- `CosetTable::set` -/
def Table.set (t : Table) (c : Nat) (g : Int) (d : Nat) : Outcome Table :=
  let rows := padRows t.nrGens t.rows c
  if g + t.nrGens < 0 then .panic else
  let j := (g + t.nrGens).toNat
  match rows[c]? with
  | none => .panic
  | some row =>
    if j < row.size then .ok { t with rows := rows.setIfInBounds c (row.setIfInBounds j (d : Int)) }
    else .panic

/-- `CosetTable::join` -/
def Table.join (t : Table) (c d : Nat) (g : Int) : Outcome Table :=
  match t.set c g d with
  | .ok t' => t'.set d (-g) c
  | .err => .err
  | .panic => .panic

/-- the `for g in self.all_gens()` loop of `merge` (rows `a ≠ b` canonical) -/
def Table.mergeGens (a b : Nat) : List Int → Table → List (Nat × Nat) →
    Outcome (Table × List (Nat × Nat))
  | [], t, q => .ok (t, q)
  | g :: gs, t, q =>
    match t.get a g, t.get b g with
    | .ok (some ag), .ok (some bg) => mergeGens a b gs t (q ++ [(ag, bg)])
    | .ok (some ag), .ok none =>
      match t.set b g ag with
      | .ok t' => mergeGens a b gs t' q
      | .err => .err
      | .panic => .panic
    | .ok none, .ok (some bg) =>
      match t.set a g bg with
      | .ok t' => mergeGens a b gs t' q
      | .err => .err
      | .panic => .panic
    | .ok none, .ok none => mergeGens a b gs t q
    | .panic, _ => .panic
    | _, .panic => .panic
    | _, _ => .err

/-- the `while let Some((a, b)) = queue.pop_front()` loop of `merge` -/
def Table.mergeLoop : Nat → Table → List (Nat × Nat) → Outcome Table
  | _, t, [] => .ok t
  | 0, _, _ :: _ => .err
  | f + 1, t, (a, b) :: q =>
    let a := t.canon a
    let b := t.canon b
    if a = b then mergeLoop f t q else
      match Table.mergeGens a b t.allGens t q with
      | .ok (t', q') => mergeLoop f { t' with part := t'.part.unite a b } q'
      | .err => .err
      | .panic => .panic

/-- `CosetTable::merge`: every iteration that pushes to the queue also unites two
    classes, so there are at most `1 + (len − 1) · 2·nr_gens` iterations. -/
def Table.merge (t : Table) (a b : Nat) : Outcome Table :=
  Table.mergeLoop (t.rows.size * (2 * t.nrGens) + 1) t [(a, b)]

/-- first loop of `compact` (D12 repair: classes are numbered in the order of first
    appearance of a member, so the class of row 0 is number 0):
    `let c = canon(k); if old_to_new[c] == usize::MAX { old_to_new[c] = n; n += 1 }`;
    `none` stands for `usize::MAX`; `old_to_new[c]` out of range is an index panic -/
def Table.oldToNewGo (t : Table) : List Nat → Array (Option Nat) × Nat → Outcome (Array (Option Nat))
  | [], acc => .ok acc.1
  | k :: ks, (o2n, n) =>
    let c := t.canon k
    match o2n[c]? with
    | none => .panic
    | some none => oldToNewGo t ks (o2n.setIfInBounds c (some n), n + 1)
    | some (some _) => oldToNewGo t ks (o2n, n)

def Table.oldToNew (t : Table) : Outcome (Array (Option Nat)) :=
  t.oldToNewGo (List.range t.len) (Array.replicate t.len none, 0)

/-- inner loop of `compact` over the letters of the live row `k`; a canonical row always
    has a number (it was visited as its own member), so the `usize::MAX` branch
    (`some none`, an allocation failure in `set`) is unreachable and rendered as panic -/
def Table.compactRow (t : Table) (o2n : Array (Option Nat)) (k : Nat) : List Int → Table → Outcome Table
  | [], res => .ok res
  | g :: gs, res =>
    match t.get k g with
    | .ok (some c) =>
      match o2n[k]?, o2n[c]? with
      | some (some k'), some (some c') =>
        match res.set k' g c' with
        | .ok res' => compactRow t o2n k gs res'
        | .err => .err
        | .panic => .panic
      | _, _ => .panic
    | .ok none => compactRow t o2n k gs res
    | .err => .err
    | .panic => .panic

/-- second loop of `compact` -/
def Table.compactRows (t : Table) (o2n : Array (Option Nat)) : List Nat → Table → Outcome Table
  | [], res => .ok res
  | k :: ks, res =>
    if t.canon k = k then
      match t.compactRow o2n k t.allGens res with
      | .ok res' => compactRows t o2n ks res'
      | .err => .err
      | .panic => .panic
    else compactRows t o2n ks res

/-- `CosetTable::compact` -/
def Table.compact (t : Table) : Outcome Table :=
  match t.oldToNew with
  | .ok o2n => t.compactRows o2n (List.range t.len) (Table.new t.nrGens)
  | .err => .err
  | .panic => .panic

/-- what the public API shows of a table: for each row the images under `all_gens()`
    in that order, `-1` for `None` (`Outcome` because `get` can panic) -/
def Table.viewRow (t : Table) (c : Nat) : List Int → Outcome (List Int)
  | [] => .ok []
  | g :: gs =>
    match t.get c g, viewRow t c gs with
    | .ok (some d), .ok r => .ok ((d : Int) :: r)
    | .ok none, .ok r => .ok (-1 :: r)
    | .panic, _ => .panic
    | _, .panic => .panic
    | _, _ => .err

def Table.viewRows (t : Table) : List Nat → Outcome (List (List Int))
  | [] => .ok []
  | c :: cs =>
    match t.viewRow c t.allGens, viewRows t cs with
    | .ok r, .ok rs => .ok (r :: rs)
    | .panic, _ => .panic
    | _, .panic => .panic
    | _, _ => .err

def Table.view (t : Table) : Outcome (List (List Int)) := t.viewRows (List.range t.len)

/-! ### scanning -/

/-- `expanded_relator_set`: a `BTreeSet<FreeWord>` is a `cmp`-sorted duplicate-free list -/
def expandedRelatorSet (relators : List (List Int)) : List (List Int) :=
  relators.foldl (fun acc rel => (FW.relatorPermutations rel).foldl (fun a w => FW.insertSorted w a) acc) []

/-- common loop of `scan` and `scan_inverse` over the letters still to be read;
    `w[index]` past the end of the word is an index panic -/
def scanGo (t : Table) (limit : Nat) : List Int → Nat → Nat → Outcome (Nat × Nat)
  | [], row, index => if index = limit then .ok (row, limit) else .panic
  | x :: xs, row, index =>
    match t.get row x with
    | .ok (some next) => scanGo t limit xs next (index + 1)
    | .ok none => .ok (row, index)
    | .err => .err
    | .panic => .panic

/-- `scan` -/
def scan (t : Table) (w : List Int) (start limit : Nat) : Outcome (Nat × Nat) :=
  scanGo t limit (w.take limit) start 0

/-- `scan_inverse`: reads `-w[n-1-index]` -/
def scanInverse (t : Table) (w : List Int) (start limit : Nat) : Outcome (Nat × Nat) :=
  scanGo t limit ((w.reverse.map (fun x => -x)).take limit) start 0

/-- `scan_both_ways` (D10 repaired: the returned letter is `w[i]` when `i < n`, else 0) -/
def scanBothWays (t : Table) (w : List Int) (start : Nat) : Outcome (Nat × Nat × Nat × Int) :=
  let n := w.length
  match scan t w start n with
  | .ok (head, i) =>
    match scanInverse t w start (n - i) with
    | .ok (tail, j) => .ok (head, tail, n - i - j, if i < n then w.getD i 0 else 0)
    | .err => .err
    | .panic => .panic
  | .err => .err
  | .panic => .panic

/-- `scan_and_connect` -/
def scanAndConnect (t : Table) (w : List Int) (start : Nat) : Outcome Table :=
  match scanBothWays t w start with
  | .ok (head, tail, gap, c) =>
    if gap = 1 then t.join head tail c
    else if gap = 0 ∧ head ≠ tail then t.merge head tail
    else .ok t
  | .err => .err
  | .panic => .panic

/-! ### `coset_table` -/

/-- the code's `assert!(n < 100_000, …)` -/
def rowLimit : Nat := 100000

/-- `for w in &rels { if w[0] == g { scan_and_connect(table, w, table.canon(i)) } }`
    (D10 repaired: `w.len() > 0 && w[0] == g`) -/
def scanRelators (i : Nat) (g : Int) : List (List Int) → Table → Outcome Table
  | [], t => .ok t
  | w :: ws, t =>
    match w with
    | x :: _ =>
      if x = g then
        match scanAndConnect t w (t.canon i) with
        | .ok t' => scanRelators i g ws t'
        | .err => .err
        | .panic => .panic
      else scanRelators i g ws t
    | [] => scanRelators i g ws t

/-- `for w in subgroup_gens { scan_and_connect(table, w, table.canon(0)) }` (D6 repaired) -/
def scanSubgens : List (List Int) → Table → Outcome Table
  | [], t => .ok t
  | w :: ws, t =>
    match scanAndConnect t w (t.canon 0) with
    | .ok t' => scanSubgens ws t'
    | .err => .err
    | .panic => .panic

/-- body of `if table.get(i, g).is_none() { … }` -/
def defineAndScan (rels subs : List (List Int)) (t : Table) (i : Nat) (g : Int) : Outcome Table :=
  let n := t.len
  if n < rowLimit then
    match t.join i n g with
    | .ok t1 =>
      match scanRelators i g rels t1 with
      | .ok t2 => scanSubgens subs t2
      | .err => .err
      | .panic => .panic
    | .err => .err
    | .panic => .panic
  else .panic

/-- `for g in table.all_gens() { if i != canon(i) { break } … }` -/
def processRow (rels subs : List (List Int)) (i : Nat) : List Int → Table → Outcome Table
  | [], t => .ok t
  | g :: gs, t =>
    if i ≠ t.canon i then .ok t else
    match t.get i g with
    | .ok (some _) => processRow rels subs i gs t
    | .ok none =>
      match defineAndScan rels subs t i g with
      | .ok t' => processRow rels subs i gs t'
      | .err => .err
      | .panic => .panic
    | .err => .err
    | .panic => .panic

/-- `for i in 0.. { if i >= table.len() { break } … }`; at most `rowLimit + 1` rounds
    because a table never has more than `rowLimit` rows -/
def mainLoop (rels subs : List (List Int)) : Nat → Nat → Table → Outcome Table
  | 0, _, _ => .err
  | f + 1, i, t =>
    if i ≥ t.len then .ok t else
    match processRow rels subs i t.allGens t with
    | .ok t' => mainLoop rels subs f (i + 1) t'
    | .err => .err
    | .panic => .panic

/-- `scan_and_merge` (D11 repair): merge the two ends of a completely scanned word -/
def scanAndMerge (t : Table) (w : List Int) (start : Nat) : Outcome (Table × Bool) :=
  match scanBothWays t w (t.canon start) with
  | .ok (head, tail, gap, _) =>
    if gap = 0 ∧ head ≠ tail then
      match t.merge head tail with
      | .ok t' => .ok (t', true)
      | .err => .err
      | .panic => .panic
    else .ok (t, false)
  | .err => .err
  | .panic => .panic

/-- `for w in words { changed |= scan_and_merge(table, w, i) }` -/
def closeWords (i : Nat) : List (List Int) → Table × Bool → Outcome (Table × Bool)
  | [], s => .ok s
  | w :: ws, (t, changed) =>
    match scanAndMerge t w i with
    | .ok (t', c) => closeWords i ws (t', changed || c)
    | .err => .err
    | .panic => .panic

/-- `for i in 0..table.len() { for w in relators { … } }` -/
def closeRows (relators : List (List Int)) : List Nat → Table × Bool → Outcome (Table × Bool)
  | [], s => .ok s
  | i :: is, s =>
    match closeWords i relators s with
    | .ok s' => closeRows relators is s'
    | .err => .err
    | .panic => .panic

/-- the closing `loop { … if !changed { break } }` of `coset_table` (D11 repair: entries
    made by deductions and coincidences are scanned).  Every round but the last merges
    two classes, so there are at most `len + 1` rounds. -/
def closeLoop (relators subs : List (List Int)) : Nat → Table → Outcome Table
  | 0, _ => .err
  | f + 1, t =>
    match closeRows relators (List.range t.len) (t, false) with
    | .ok s =>
      match closeWords 0 subs s with
      | .ok (t', changed) => if changed then closeLoop relators subs f t' else .ok t'
      | .err => .err
      | .panic => .panic
    | .err => .err
    | .panic => .panic

/-- `coset_table` before the final `compact()` -/
def cosetTableRaw (nrGens : Nat) (relators subgroupGens : List (List Int)) : Outcome Table :=
  match mainLoop (expandedRelatorSet relators) subgroupGens (rowLimit + 1) 0 (Table.new nrGens) with
  | .ok t => closeLoop relators subgroupGens (t.len + 1) t
  | .err => .err
  | .panic => .panic

/-- `coset_table` -/
def cosetTable (nrGens : Nat) (relators subgroupGens : List (List Int)) : Outcome Table :=
  match cosetTableRaw nrGens relators subgroupGens with
  | .ok t => t.compact
  | .err => .err
  | .panic => .panic

/-! ### `coset_representative` (D7 repaired) -/

def lookupRep (k : Nat) : List (Nat × List Int) → Option (List Int)
  | [] => none
  | (k', w) :: r => if k' = k then some w else lookupRep k r

/-- `BTreeMap::insert` of a key known to be absent, keeping the keys sorted -/
def insertRep (k : Nat) (w : List Int) : List (Nat × List Int) → List (Nat × List Int)
  | [] => [(k, w)]
  | (k', w') :: r =>
    if k < k' then (k, w) :: (k', w') :: r
    else if k = k' then (k, w) :: r
    else (k', w') :: insertRep k w r

/-- `for g in table.all_gens() { if let Some(k) = table.get(i, g) { if !result.contains_key(&k) { … } } }` -/
def repsGens (t : Table) (i : Nat) (w : List Int) :
    List Int → List Nat → List (Nat × List Int) → Outcome (List Nat × List (Nat × List Int))
  | [], q, res => .ok (q, res)
  | g :: gs, q, res =>
    match t.get i g with
    | .ok (some k) =>
      match lookupRep k res with
      | some _ => repsGens t i w gs q res
      | none => repsGens t i w gs (q ++ [k]) (insertRep k (FW.mulLetter w g) res)
    | .ok none => repsGens t i w gs q res
    | .err => .err
    | .panic => .panic

/-- `while let Some(i) = queue.pop_front() { … }`; `result[&i]` panics on a missing key -/
def repsLoop (t : Table) : Nat → List Nat → List (Nat × List Int) → Outcome (List (Nat × List Int))
  | _, [], res => .ok res
  | 0, _ :: _, _ => .err
  | f + 1, i :: q, res =>
    match lookupRep i res with
    | none => .panic
    | some w =>
      match repsGens t i w t.allGens q res with
      | .ok (q', res') => repsLoop t f q' res'
      | .err => .err
      | .panic => .panic

/-- `coset_representative`: every queued row is a new key, keys are 0 or images of
    existing rows, so there are at most `len · 2·nr_gens + 1` iterations -/
def cosetRepresentative (t : Table) : Outcome (List (Nat × List Int)) :=
  repsLoop t (t.len * (2 * t.nrGens + 1) + 1) [0] [(0, FW.empty)]

/-! ### a table from its public view -/

/-- column of the letter `g` in the public view (`all_gens()` order: `1..n`, `−1..−n`) -/
def viewCol (n : Nat) (g : Int) : Option Nat :=
  if 1 ≤ g ∧ g ≤ n then some (g.toNat - 1)
  else if 1 ≤ -g ∧ -g ≤ n then some (n + (-g).toNat - 1)
  else none

/-- the `CosetTable` value with the given public view and no pending coincidences (the
    shape `compact()` returns): rows are indexed by `g + nr_gens`, the middle column is
    never used -/
def Table.ofView (n : Nat) (view : Array (Array Int)) : Table :=
  { nrGens := n
    rows := view.map fun r =>
      ((List.range (2 * n + 1)).map fun (j : Nat) =>
        match viewCol n ((j : Int) - n) with
        | some c => r.getD c (-1)
        | none => (-1 : Int)).toArray
    part := Part.new }

end DSymVerif.Cosets
