/-
Model of /repo/src/delaney2d.rs (lines 1–227): `orbit_types_2d`, `curvature`,
`is_euclidean`, `is_hyperbolic`, `is_spherical`, `opposite`, `best_cyclic`,
`trace_boundary`, `euler_characteristic`, `degree_list_as_string`, `cone_degrees`,
`orbifold_symbol`.   Import-free (only other Model files), executable.

The Rust functions are generic over `T: DSym`; what they see of a representation is
`size/dim/op` (through the trait defaults modelled in `DS.View`), `v` and
`is_complete`.  `Sym` bundles the shared storage `DSymData` with the representation
tag that selects the `v` / `is_complete` override.

`Rational64` is modelled by exact fractions `Frac` (numerator : Int, denominator : Nat)
kept in lowest terms, as `num_rational::Ratio` keeps them; 64-bit overflow of the
intermediate products is outside the universe of the property (explored: v ≤ 15, ≤ 42 chambers;
see `assumptions` in conf/C08.json).
-/
import DSymVerif.Model.DSym

namespace DSymVerif.D2
open DSymVerif.DS

/-! ### exact rationals in lowest terms -/

structure Frac where
  num : Int
  den : Nat
  deriving DecidableEq, Repr, Inhabited

namespace Frac

/-- reduce `n/d` (`d > 0`) to lowest terms — what `Ratio::new` / every arithmetic
    operation of `Ratio` does with its result -/
def norm (n : Int) (d : Nat) : Frac :=
  let g := Nat.gcd n.natAbs d
  ⟨n / (g : Int), d / g⟩

/-- `Rational64::from(n)` -/
def ofInt (n : Int) : Frac := ⟨n, 1⟩

def add (a b : Frac) : Frac := norm (a.num * b.den + b.num * a.den) (a.den * b.den)
def sub (a b : Frac) : Frac := norm (a.num * b.den - b.num * a.den) (a.den * b.den)

/-- `is_zero`, `is_negative`, `is_positive` of a normalised ratio look at the numerator -/
def isZero (a : Frac) : Bool := a.num == 0
def isNeg (a : Frac) : Bool := decide (a.num < 0)
def isPos (a : Frac) : Bool := decide (a.num > 0)

end Frac

/-! ### what `T: DSym` offers -/

inductive Rep where
  | partialSym      -- `PartialDSym`
  | simpleSym       -- `SimpleDSym`
  deriving DecidableEq, Repr, Inhabited

structure Sym where
  data : DSymData
  rep : Rep
  deriving Repr, Inhabited

namespace Sym

def view (s : Sym) : View := s.data.view
def size (s : Sym) : Nat := s.data.size
def dim (s : Sym) : Nat := s.data.dim
def op (s : Sym) (i d : Nat) : Option Nat := s.data.op i d

/-- `DSym::v` of the representation -/
def v (s : Sym) (i j d : Nat) : Outcome (Option Nat) :=
  match s.rep with
  | .partialSym => s.data.vPartial i j d
  | .simpleSym => s.data.vSimple i j d

/-- `DSet::is_complete` of the representation (`SimpleDSym` answers `true`: checked on creation) -/
def isComplete (s : Sym) : Bool :=
  match s.rep with
  | .partialSym => s.data.isCompletePartial
  | .simpleSym => true

end Sym

/-- `x.unwrap()` on the `Option` returned by `v` -/
def unwrapV : Outcome (Option Nat) → Outcome Nat
  | .ok (some x) => .ok x
  | .ok none => .panic
  | .err => .err
  | .panic => .panic

/-- sequential evaluation of a list of modelled calls (first panic wins) -/
def mapO {α β : Type} (f : α → Outcome β) : List α → Outcome (List β)
  | [] => .ok []
  | a :: as =>
    match f a with
    | .ok b =>
      (match mapO f as with
       | .ok bs => .ok (b :: bs)
       | .err => .err
       | .panic => .panic)
    | .err => .err
    | .panic => .panic

/-! ### orbit_types_2d, curvature, geometry predicates -/

/-- the `(i, j, d)` visited by the three nested loops of `orbit_types_2d` -/
def orbitKeys (s : Sym) : List (Nat × Nat × Nat) :=
  (List.range s.dim).flatMap fun i =>
    ((List.range (s.dim - i)).map (· + (i + 1))).flatMap fun j =>
      (s.view.orbitReps2d i j).map fun d => (i, j, d)

/-- `ds.orbit([i, j], d).iter().all(|&e| ds.op(i, e) != Some(e) && ds.op(j, e) != Some(e))` -/
def orbitLoopless (s : Sym) (i j d : Nat) : Bool :=
  (s.view.orbit [i, j] d).all fun e => s.op i e != some e && s.op j e != some e

/-- `orbit_types_2d(ds)` -/
def orbitTypes2d (s : Sym) : Outcome (List (Nat × Bool)) :=
  mapO (fun (k : Nat × Nat × Nat) =>
    match unwrapV (s.v k.1 k.2.1 k.2.2) with
    | .ok v => .ok (v, orbitLoopless s k.1 k.2.1 k.2.2)
    | .err => .err
    | .panic => .panic) (orbitKeys s)

/-- the `.map(..).sum()` of `curvature`: `Ratio::sum` folds `+` from zero -/
def sumTypes (ts : List (Nat × Bool)) : Frac :=
  ts.foldl (fun acc t => Frac.add acc (Frac.norm (if t.2 then 2 else 1) t.1)) (Frac.ofInt 0)

/-- `curvature(ds)`; the two assertions and `Rational64::new(_, 0)` panic -/
def curvature (s : Sym) : Outcome Frac :=
  if s.dim != 2 then .panic
  else if !s.isComplete then .panic
  else
    match orbitTypes2d s with
    | .ok ts =>
      if ts.any (fun t => t.1 == 0) then .panic
      else .ok (Frac.sub (sumTypes ts) (Frac.ofInt s.size))
    | .err => .err
    | .panic => .panic

def isEuclidean (s : Sym) : Outcome Bool :=
  match curvature s with
  | .ok k => .ok k.isZero
  | .err => .err
  | .panic => .panic

def isHyperbolic (s : Sym) : Outcome Bool :=
  match curvature s with
  | .ok k => .ok k.isNeg
  | .err => .err
  | .panic => .panic

/-- the `match cones.len()` of `is_spherical` -/
def censusRule (cones : List Nat) : Bool :=
  match cones with
  | [_] => false
  | [a, b] => a == b
  | _ => true

/-- `is_spherical(ds)` -/
def isSpherical (s : Sym) : Outcome Bool :=
  match curvature s with
  | .ok k =>
    if !k.isPos then .ok false
    else
      match orientedCover s.data with
      | .ok dso =>
        (match orbitTypes2d ⟨dso, .partialSym⟩ with
         | .ok ts => .ok (censusRule ((ts.map (·.1)).filter (· > 1)))
         | .err => .err
         | .panic => .panic)
      | .err => .err
      | .panic => .panic
  | .err => .err
  | .panic => .panic

/-! ### boundary tracing -/

/-- the `while` loop of `opposite`; fuel exhaustion stands for non-termination
    (an `(i,j)`-orbit without loops), never reached from `trace_boundary` on a D-set -/
def oppositeLoop (s : Sym) (i j : Nat) : Nat → Nat → Nat → Outcome (Nat × Nat)
  | 0, _, _ => .panic
  | fuel + 1, k, e =>
    match s.op k e with
    | none => .ok (k, e)
    | some f => if f = e then .ok (k, e) else oppositeLoop s i j fuel (i + j - k) f

/-- `opposite(ds, i, j, d)` -/
def opposite (s : Sym) (i j d : Nat) : Outcome (Nat × Nat) :=
  oppositeLoop s i j (2 * s.size + 2) i d

/-- `Ord` of `Vec<usize>`: lexicographic, a proper prefix is smaller -/
def lexLt : List Nat → List Nat → Bool
  | [], [] => false
  | [], _ :: _ => true
  | _ :: _, [] => false
  | a :: as, b :: bs => a < b || (a == b && lexLt as bs)

def rotations (c : List Nat) : List (List Nat) :=
  (List.range c.length).map fun i => c.drop i ++ c.take i

/-- maximum of a list of vectors (`Iterator::max`), `[]` for the empty iterator (`unwrap_or(vec![])`) -/
def lexMax : List (List Nat) → List Nat
  | [] => []
  | x :: xs => xs.foldl (fun m y => if lexLt y m then m else y) x

/-- `best_cyclic(corners)` -/
def bestCyclic (c : List Nat) : List Nat := lexMax (rotations c)

/-- insertion into a descending list -/
def insertDesc (x : List Nat) : List (List Nat) → List (List Nat)
  | [] => [x]
  | y :: ys => if lexLt x y then y :: insertDesc x ys else x :: y :: ys

/-- `result.sort(); result.reverse()` -/
def sortDesc (xs : List (List Nat)) : List (List Nat) := xs.foldr insertDesc []

/-- the inner `loop` of `trace_boundary`; `seen` is the `HashSet`, used for membership only.
    Fuel exhaustion stands for non-termination. -/
def traceLoop (s : Sym) : Nat → Nat → Nat → Nat → List Nat → List (Nat × Nat) →
    Outcome (List Nat × List (Nat × Nat))
  | 0, _, _, _, _, _ => .panic
  | fuel + 1, j, k, e, corners, seen =>
    match unwrapV (s.v j k e) with
    | .ok v =>
      let corners := if v > 1 then corners ++ [v] else corners
      let seen := (j, e) :: seen
      (match opposite s k j e with
       | .ok (nu, e') =>
         if j + k > 3 then .panic        -- `3 - j - k` on usize
         else
           let k' := 3 - j - k
           if seen.contains (nu, e') then .ok (corners, seen)
           else traceLoop s fuel nu k' e' corners seen
       | .err => .err
       | .panic => .panic)
    | .err => .err
    | .panic => .panic

structure TraceState where
  result : List (List Nat)
  seen : List (Nat × Nat)

/-- body of the two nested `for` loops of `trace_boundary` for one `(i, d)` -/
def traceStep (s : Sym) (ori : Array Nat) (st : TraceState) (i d : Nat) : Outcome TraceState :=
  if s.op i d != some d || st.seen.contains (i, d) then .ok st
  else
    match ori.getD d 0 with
    | 0 => .panic                         -- "orientation should be total"
    | sg =>
      let k := if sg = 1 then (i + 1) % 3 else (i + 2) % 3
      match traceLoop s (3 * s.size + 4) i k d [] st.seen with
      | .ok (corners, seen) => .ok { result := st.result ++ [bestCyclic corners], seen := seen }
      | .err => .err
      | .panic => .panic

/-- `trace_boundary(ds)` -/
def traceBoundary (s : Sym) : Outcome (List (List Nat)) :=
  let ori := s.view.partialOrientation
  let keys := (List.range (s.dim + 1)).flatMap fun i => (List.range s.size).map fun d0 => (i, d0 + 1)
  match keys.foldl (fun (acc : Outcome TraceState) k =>
      match acc with
      | .ok st => traceStep s ori st k.1 k.2
      | o => o) (.ok { result := [], seen := [] }) with
  | .ok st => .ok (sortDesc st.result)
  | .err => .err
  | .panic => .panic

/-! ### Euler characteristic, cone degrees, the symbol -/

def nrLoops (s : Sym) (i : Nat) : Nat :=
  (s.view.elements.filter fun d => s.op i d == some d).length

/-- `euler_characteristic(ds)` -/
def eulerCharacteristic (s : Sym) : Int :=
  let nf := s.size
  let ne := (3 * nf + nrLoops s 0 + nrLoops s 1 + nrLoops s 2) / 2
  let nv := (s.view.orbitReps2d 0 1).length + (s.view.orbitReps2d 0 2).length + (s.view.orbitReps2d 1 2).length
  ((nf + nv : Nat) : Int) - (ne : Int)

/-- `cone_degrees(ds)` -/
def coneDegrees (s : Sym) : Outcome (List Nat) :=
  match orbitTypes2d s with
  | .ok ts => .ok ((ts.filter fun t => t.2 && t.1 > 1).map (·.1))
  | .err => .err
  | .panic => .panic

/-- insertion into a descending list of numbers -/
def insertDescNat (x : Nat) : List Nat → List Nat
  | [] => [x]
  | y :: ys => if x < y then y :: insertDescNat x ys else x :: y :: ys

/-- `cones.sort(); cones.reverse()` -/
def sortDescNat (xs : List Nat) : List Nat := xs.foldr insertDescNat []

/-- the structured content of the string built by `orbifold_symbol` -/
structure OrbSym where
  cones : List Nat               -- descending
  bnds : List (List Nat)         -- one corner cycle per boundary component, as `trace_boundary` returns them
  orientable : Bool              -- `is_weakly_oriented()`
  count : Nat                    -- number of trailing `o` (orientable) resp. `x` (non-orientable)
  deriving DecidableEq, Repr, Inhabited

/-- `orbifold_symbol(ds)`, before rendering -/
def orbifoldSymbol (s : Sym) : Outcome OrbSym :=
  if s.dim != 2 then .panic
  else if !s.isComplete then .panic
  else
    match traceBoundary s with
    | .ok bnds =>
      let chi : Int := eulerCharacteristic s + (bnds.length : Int)
      let x : Int := 2 - chi
      (match coneDegrees s with
       | .ok cones =>
         -- `vec!["o"; x as usize]` with negative x: capacity overflow
         if x < 0 then .panic
         else
           let ori := s.view.isWeaklyOriented
           .ok { cones := sortDescNat cones, bnds := bnds, orientable := ori,
                 count := if ori then x.toNat / 2 else x.toNat }
       | .err => .err
       | .panic => .panic)
    | .err => .err
    | .panic => .panic

/-- the orders of the mirror corners: 2-orbits with a fixed chamber and v > 1
    (not a function of delaney2d.rs; the census `orbifold_symbol` has to reproduce) -/
def cornerDegrees (s : Sym) : Outcome (List Nat) :=
  match orbitTypes2d s with
  | .ok ts => .ok ((ts.filter fun t => !t.2 && t.1 > 1).map (·.1))
  | .err => .err
  | .panic => .panic

/-- **monitor** (evaluated by the driver on every explored symbol; since Props/C08.lean sections
    11–12 a redundant cross-check: every conjunct is a theorem for connected good symbols —
    `trace_boundary_corners_exact`, `parity_monitor_holds`, `genus_monitor_holds`): the boundary
    tracing collected every mirror corner
    exactly once (as a multiset: the corners of all boundary components together are the corner
    census), an orientable symbol has an even `2 - χ` (so that `x / 2` handles lose nothing), and
    the symbol is closed without cross-cap exactly when the D-symbol is oriented. -/
def symbolExact (s : Sym) : Bool :=
  match traceBoundary s, cornerDegrees s, orbifoldSymbol s with
  | .ok bnds, .ok corners, .ok o =>
    sortDescNat bnds.flatten == sortDescNat corners &&
    (!o.orientable || (2 - (eulerCharacteristic s + (bnds.length : Int))) % 2 == 0) &&
    ((bnds.isEmpty && (o.orientable || o.count == 0)) == s.view.isOriented)
  | _, _, _ => false

/-- the parity premise of `gauss_bonnet_conditional`: an orientable symbol has an even `2 - χ`
    (so that the `x / 2` handles lose nothing); vacuous for non-orientable symbols.  A theorem
    whenever `orbifold_symbol` answers (`parity_monitor_holds`, Props/C08.lean). -/
def parityMonitor (s : Sym) : Bool :=
  match traceBoundary s, orbifoldSymbol s with
  | .ok bnds, .ok o =>
    !o.orientable || (2 - (eulerCharacteristic s + (bnds.length : Int))) % 2 == 0
  | _, _ => false

/-- the genus part of the monitor: an orientable symbol has an even `2 - χ`, and the symbol is
    closed without cross-cap exactly when the D-symbol is oriented.  A theorem for connected
    symbols (`genus_monitor_holds`, Props/C08.lean). -/
def genusMonitor (s : Sym) : Bool :=
  match traceBoundary s, orbifoldSymbol s with
  | .ok bnds, .ok o =>
    (!o.orientable || (2 - (eulerCharacteristic s + (bnds.length : Int))) % 2 == 0) &&
    ((bnds.isEmpty && (o.orientable || o.count == 0)) == s.view.isOriented)
  | _, _ => false

/-- `degree_list_as_string` -/
def degreeListAsString (vs : List Nat) : String :=
  String.join (vs.map fun v => if v < 10 then toString v else "(" ++ toString v ++ ")")

/-- the string `orbifold_symbol` returns -/
def OrbSym.render (o : OrbSym) : String :=
  let s := degreeListAsString o.cones ++
    String.join (o.bnds.map fun c => "*" ++ degreeListAsString c) ++
    String.join (List.replicate o.count (if o.orientable then "o" else "x"))
  if s == "x" then "1x" else if s == "*" then "1*" else if s == "" then "1" else s

def orbifoldSymbolString (s : Sym) : Outcome String :=
  match orbifoldSymbol s with
  | .ok o => .ok o.render
  | .err => .err
  | .panic => .panic

end DSymVerif.D2
