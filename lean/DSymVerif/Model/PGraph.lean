/-
Model of the client of the modular solver in /repo/src/pgraphs.rs  (import-free, executable):
`VectorLabelledEdge::{neg, canonical, Ord}`, `PeriodicGraph::from`, `vertices`, `incidences`,
`barycentric_placement` (the Laplacian-type system `a·x = t` it assembles and hands to
`modular_solver::solve`) and `position`.

An edge is `head --(shift)-> tail`; the shift is a `dim × 1` `VecMatrix<i64>`, here `List Int`.
`BTreeSet`/`BTreeMap`/`HashMap` are sorted duplicate-free lists / association by search; the
`HashMap` of incidences is only ever read per key, and each value is filled in edge order, so
no hash order is observable.  Machine-integer arithmetic on shifts and on the (tiny) system
entries is idealised (`Int`).  The step count of the solver is an input (LinAlg.modSolve).
-/
import DSymVerif.Model.LinAlg

namespace DSymVerif.PG

open DSymVerif DSymVerif.LA

structure Edge where
  head : Nat
  tail : Nat
  shift : List Int
  deriving DecidableEq, Repr

/-- `Neg for VectorLabelledEdge` -/
def Edge.neg (e : Edge) : Edge := ⟨e.tail, e.head, e.shift.map fun x => -x⟩

/-- `canonical` : orient towards the larger vertex; a loop is reversed as soon as *some*
    component of its shift is negative (as written: `for i { if shift[i] < 0 { return -self } }`) -/
def Edge.canonical (e : Edge) : Edge :=
  if e.tail < e.head then e.neg
  else if e.tail = e.head then (if e.shift.any (fun x => x < 0) then e.neg else e)
  else e

/-- the component loop of `partial_cmp` -/
def cmpShift : List Int → List Int → Ordering
  | x :: xs, y :: ys => if x < y then .lt else if y < x then .gt else cmpShift xs ys
  | _, _ => .eq

/-- `Ord for VectorLabelledEdge` : head, tail, then the shift componentwise -/
def Edge.cmp (a b : Edge) : Ordering :=
  if a.head < b.head then .lt else if b.head < a.head then .gt
  else if a.tail < b.tail then .lt else if b.tail < a.tail then .gt
  else cmpShift a.shift b.shift

/-- insertion into a `BTreeSet<VectorLabelledEdge>` (sorted, duplicate-free) -/
def insertEdge (e : Edge) : List Edge → List Edge
  | [] => [e]
  | x :: xs =>
    match e.cmp x with
    | .lt => e :: x :: xs
    | .eq => x :: xs
    | .gt => x :: insertEdge e xs

/-- insertion into a `BTreeSet<usize>` -/
def insertNat (v : Nat) : List Nat → List Nat
  | [] => [v]
  | x :: xs => if v < x then v :: x :: xs else if v = x then x :: xs else x :: insertNat v xs

structure Graph where
  edges : List Edge
  vertices : List Nat
  deriving Repr

/-- `impl From<I> for PeriodicGraph` : canonical edges, sorted and deduplicated;
    `assert!(edges.len() > 0)`; all edges of one dimension (the `assert_eq!` in `partial_cmp`
    and the `assert!(… all(|e| e.dim() == d))`); the sorted vertex list -/
def Graph.ofEdges (raw : List Edge) : Outcome Graph :=
  let es := (raw.map Edge.canonical).foldl (fun acc e => insertEdge e acc) []
  match es with
  | [] => .panic
  | e0 :: _ =>
    if (raw.all fun e => e.shift.length == e0.shift.length) then
      .ok { edges := es,
            vertices := es.foldl (fun acc e => insertNat e.tail (insertNat e.head acc)) [] }
    else .panic

def Graph.dim (g : Graph) : Nat :=
  match g.edges with
  | [] => 0
  | e :: _ => e.shift.length

/-- the `incidences` entry of `v` : `e` for every edge with head `v`, `-e` for every edge with
    tail `v`, in edge order (a loop contributes both) -/
def Graph.incidences (g : Graph) (v : Nat) : List Edge :=
  g.edges.flatMap fun e =>
    (if e.head = v then [e] else []) ++ (if e.tail = v then [e.neg] else [])

/-- `vidcs[&v]` : index of a vertex in the sorted vertex list (panics when absent) -/
def indexOf (vs : List Nat) (v : Nat) : Outcome Nat :=
  match vs.idxOf? v with
  | some i => .ok i
  | none => .panic

/-- `for x in xs { s = f(s, x)? }` -/
def foldO {σ α : Type} (f : σ → α → Outcome σ) : σ → List α → Outcome σ
  | s, [] => .ok s
  | s, x :: xs =>
    match f s x with
    | .ok s' => foldO f s' xs
    | .err => .err
    | .panic => .panic

/-- `m[i][j] += x` -/
def addAt {nr nc : Nat} (m : Mat Int nr nc) (i j : Nat) (x : Int) : Outcome (Mat Int nr nc) :=
  (m.get i j).bind fun v => m.set i j (v + x)

/-- `t[i][k] = t[i][k] + s[k][0]` -/
def shiftStep {n d : Nat} (ngb : Edge) (i k : Nat) (t : Mat Int n d) : Outcome (Mat Int n d) :=
  match ngb.shift[k]? with
  | some s => addAt t i k s
  | none => .panic

/-- the body of `for ngb in g.incidences(verts[i])` -/
def placeStep (verts : List Nat) {n d : Nat} (i : Nat) (st : Mat Int n n × Mat Int n d)
    (ngb : Edge) : Outcome (Mat Int n n × Mat Int n d) :=
  (indexOf verts ngb.tail).bind fun j =>
  (addAt st.1 i j (-1)).bind fun a =>
  (addAt a i i 1).bind fun a =>
  (forRange 0 d st.2 (shiftStep ngb i)).bind fun t =>
  .ok (a, t)

/-- the body of `for i in 1..n` -/
def rowStep (g : Graph) {n d : Nat} (i : Nat) (st : Mat Int n n × Mat Int n d) :
    Outcome (Mat Int n n × Mat Int n d) :=
  match g.vertices[i]? with
  | some v => foldO (placeStep g.vertices i) st (g.incidences v)
  | none => .panic

/-- the system `a·x = t` of `barycentric_placement` : row 0 pins the first vertex, row `i`
    says `Σ_ngb (x_i − x_tail) = Σ_ngb shift` -/
def assemble (g : Graph) (n d : Nat) : Outcome (Mat Int n n × Mat Int n d) :=
  ((Mat.fill 0 : Mat Int n n).set 0 0 1).bind fun a0 =>
  forRange 1 n (a0, (Mat.fill 0 : Mat Int n d)) (rowStep g)

/-- `barycentric_placement` : `solve(&a, &t).unwrap()`, then vertex `verts[i]` ↦ row `i` -/
def placement (prime : Int) (steps : Nat) (g : Graph) : Outcome (List (Nat × List Q)) :=
  (assemble g g.vertices.length g.dim).bind fun at_ =>
  match modSolve prime steps at_.1 at_.2 with
  | .ok p => .ok (g.vertices.zip p.toLists)
  | .err => .panic
  | .panic => .panic

/-- `position(v)` : `assert!(self.incidences.contains_key(&v))`, then the entry of the map -/
def position (prime : Int) (steps : Nat) (g : Graph) (v : Nat) : Outcome (List Q) :=
  if g.vertices.contains v then
    (placement prime steps g).bind fun ps =>
      match ps.find? (fun pq => pq.1 == v) with
      | some pq => .ok pq.2
      | none => .panic
  else .panic

end DSymVerif.PG
