/-
`Outcome α` — result of a modelled Rust call.  `err` is a returned error value
(`Err(_)`/`None` where the model distinguishes it), `panic` is any `panic!`,
failed `assert!`, out-of-range index, `unwrap` on `None` or arithmetic overflow
(the harness builds the implementation with overflow checks on).
Nothing is ever defaulted: a modelled panic is a value the theorems talk about.
-/
namespace DSymVerif

inductive Outcome (α : Type) where
  | ok (a : α)
  | err
  | panic
  deriving Repr, DecidableEq

namespace Outcome

def bind {α β} (x : Outcome α) (f : α → Outcome β) : Outcome β :=
  match x with
  | ok a => f a
  | err => err
  | panic => panic

instance : Monad Outcome where
  pure := ok
  bind := bind

def isOk {α} : Outcome α → Bool
  | ok _ => true
  | _ => false

def toOption {α} : Outcome α → Option α
  | ok a => some a
  | _ => none

end Outcome
end DSymVerif
