/-
Model of /repo/src/util/backtrack.rs — the generic depth-first `BackTrackIterator`.
Import-free, executable.  Shared by C06 (D-set generator), C07 (D-symbol generator)
and C12 (low-index coset tables).

`stack : Vec<Vec<State>>` is modelled as a list of frames, top frame first; a frame
`Vec<State>` (children pushed in reverse so that `.last()` is the first child) is
modelled as the list of states in child order, head = `.last()` = the current state.
-/
namespace DSymVerif.BT

structure Problem (σ α : Type) where
  root : σ
  extract : σ → Option α
  children : σ → List σ

variable {σ α : Type}

/-- the `while stack.last().len() < 2 { pop }` loop followed by `todo.pop()` -/
def unwind : List (List σ) → List (List σ)
  | [] => []
  | f :: rest => if f.length < 2 then unwind rest else f.tail :: rest

/-- one pass through the body of the outer `while` loop of `next`:
    returns the extracted value of the current state and the new stack.
    `none` = the Rust code would `unwrap()` a `None` (empty frame; unreachable, see
    `Proofs/Backtrack.lean`). -/
def step (p : Problem σ α) : List (List σ) → Option (Option α × List (List σ))
  | [] => none
  | [] :: _ => none
  | (cur :: sibs) :: rest =>
    let value := p.extract cur
    let todo := p.children cur
    if todo.length > 0 then some (value, todo :: (cur :: sibs) :: rest)
    else some (value, unwind ((cur :: sibs) :: rest))

/-- all items the iterator yields, running the loop body at most `fuel` times -/
def iter (p : Problem σ α) : Nat → List (List σ) → List α
  | 0, _ => []
  | _ + 1, [] => []
  | fuel + 1, stack =>
    match step p stack with
    | none => []
    | some (value, stack') => value.toList ++ iter p fuel stack'

/-- `BackTrackIterator::new(bt).collect()` with a bound on loop iterations -/
def run (p : Problem σ α) (fuel : Nat) : List α := iter p fuel [[p.root]]

/-- reference: depth-first preorder listing of the tree below `s`, to depth `n` -/
def dfsN (p : Problem σ α) : Nat → σ → List σ
  | 0, _ => []
  | n + 1, s => s :: (p.children s).flatMap (dfsN p n)

end DSymVerif.BT
