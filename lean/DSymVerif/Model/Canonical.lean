/-
Model of the canonical-form machinery:
  /repo/src/dsyms.rs   `TraversalCode` (new/advance/get/get_code/get_map),
                       `compare_codes`, `minimal_traversal_code`
  /repo/src/derived.rs `canonical`
Import-free (Model files only), executable.

`TraversalCode` wraps the `Traversal` iterator of dsets.rs (modelled in Model/DSet.lean,
validated by C02) started at one seed with all indices, and translates every reported
item into a few integers.  The Rust buffer is filled lazily (`get(i)` advances only as far
as needed); nothing of that laziness is observable except through `compare_codes`, which
only reads, so the model computes the whole buffer and the whole `element_map` at once.
(On a symbol whose `v` is `None` somewhere the Rust code would panic only when the lazy
evaluation reaches that chamber, the model whenever the seed's component contains it;
`PartialDSym::v` is never `None` in range, so the difference needs an ill-formed symbol.)

NB. the Rust iterator yields `(maybe_i, d, op_i(d))`; `advance` binds this triple to the
names `(maybe_i, di, d)`, i.e. there `di` is the *source* and `d` the *target* chamber.
The model calls them `src` and `tgt`.
-/
import DSymVerif.Model.DSym

namespace DSymVerif.DS

/-- the mutable fields of `TraversalCode` besides the traversal itself -/
structure CodeState where
  next : Nat              -- next_element
  emap : Array Nat        -- element_map, length size+1
  buf : Array Int         -- buffer
  deriving Repr, DecidableEq, Inhabited

/-- `TraversalCode::new` -/
def CodeState.init (size : Nat) : CodeState :=
  { next := 1, emap := Array.replicate (size + 1) 0, buf := #[] }

/-- `for i in 0..dim { buffer.push(ds.v(i, i+1, d).unwrap()) }` -/
def pushVs (v : Nat → Nat → Option Nat) (d : Nat) : List Nat → Array Int → Outcome (Array Int)
  | [], buf => .ok buf
  | i :: is, buf =>
    match v i d with
    | some x => pushVs v d is (buf.push (x : Int))
    | none => .panic

/-- the body of `advance()` for one item `(maybe_i, src, tgt)` reported by the traversal.
    `element_map[·]` is a checked `Vec` index (panic when out of range). -/
def codeAdvance (dim : Nat) (v : Nat → Nat → Option Nat) (st : CodeState) (item : View.TravItem) :
    Outcome CodeState :=
  match item with
  | (mi, src, tgt) =>
    match st.emap[tgt]? with
    | none => .panic
    | some m0 =>
      let emap := if m0 = 0 then st.emap.setIfInBounds tgt st.next else st.emap
      let mt := if m0 = 0 then st.next else m0
      match emap[src]? with
      | none => .panic
      | some ms =>
        let buf := match mi with
          | some i => ((st.buf.push (i : Int)).push (ms : Int)).push (mt : Int)
          | none => (st.buf.push (-1)).push (ms : Int)
        if mt = st.next then
          match pushVs v tgt (List.range dim) buf with
          | .ok buf' => .ok { next := st.next + 1, emap := emap, buf := buf' }
          | .err => .err
          | .panic => .panic
        else .ok { next := st.next, emap := emap, buf := buf }

/-- `while self.advance() {}` over the items the traversal reports -/
def codeFold (dim : Nat) (v : Nat → Nat → Option Nat) : List View.TravItem → CodeState → Outcome CodeState
  | [], st => .ok st
  | it :: its, st =>
    match codeAdvance dim v st it with
    | .ok st' => codeFold dim v its st'
    | .err => .err
    | .panic => .panic

/-- what a `TraversalCode` is once exhausted: `get_code()` and `get_map()` -/
structure Code where
  code : List Int
  map : Array Nat
  deriving Repr, DecidableEq, Inhabited

/-- the code over an arbitrary `View` with branching numbers `v i d` (adjacent pair i,i+1) -/
def traversalCodeOf (s : View) (v : Nat → Nat → Option Nat) (seed : Nat) : Outcome Code :=
  match codeFold s.dim v (s.traversal s.indices [seed]) (CodeState.init s.size) with
  | .ok st => .ok { code := st.buf.toList, map := st.emap }
  | .err => .err
  | .panic => .panic

/-- `TraversalCode::new(ds, seed)` exhausted: `(get_code(), get_map())` -/
def traversalCode (s : DSymData) (seed : Nat) : Outcome Code :=
  traversalCodeOf s.view s.vAdj seed

/-- `compare_codes(trav, best)`: first non-zero difference over the positions of `trav`;
    `best.get(i).unwrap()` panics if `best` ends first -/
def compareCodes : List Int → List Int → Outcome Int
  | [], _ => .ok 0
  | _ :: _, [] => .panic
  | x :: xs, y :: ys => if x - y ≠ 0 then .ok (x - y) else compareCodes xs ys

/-- the `for d in 2..=ds.size()` loop of `minimal_traversal_code` -/
def minimalLoop (s : DSymData) : List Nat → Code → Outcome Code
  | [], best => .ok best
  | d :: ds, best =>
    match traversalCode s d with
    | .ok trav =>
      (match compareCodes trav.code best.code with
       | .ok c => minimalLoop s ds (if c < 0 then trav else best)
       | .err => .err
       | .panic => .panic)
    | .err => .err
    | .panic => .panic

/-- `minimal_traversal_code(ds)` (exhausted) -/
def minimalTraversalCode (s : DSymData) : Outcome Code :=
  match traversalCode s 1 with
  | .ok best => minimalLoop s ((List.range (s.size - 1)).map (· + 2)) best
  | .err => .err
  | .panic => .panic

/-- `for d in 1..=size { img2src[src2img[d]] = d }` with checked indexing -/
def invertMap (size : Nat) (src2img : Array Nat) : Outcome (Array Nat) :=
  (List.range size).foldl (fun (acc : Outcome (Array Nat)) d0 =>
    match acc with
    | .ok a =>
      (match src2img[d0 + 1]? with
       | some e => if e < a.size then .ok (a.setIfInBounds e (d0 + 1)) else .panic
       | none => .panic)
    | o => o) (.ok (Array.replicate (size + 1) 0))

/-- the tail of `canonical`: rebuild `ds` through a chamber map `src2img`
    (`build_set` + `build_sym_using_vs`).  The two closures index `img2src[d]` for
    d ≤ size (in range by construction) and `src2img[e]` for `e` an operation image. -/
def rebuild (s : DSymData) (src2img : Array Nat) : Outcome DSymData :=
  match invertMap s.size src2img with
  | .ok img2src =>
    let op := fun i d => (s.op i (img2src.getD d 0)).map (fun e => src2img.getD e 0)
    let v := fun i d => s.vAdj i (img2src.getD d 0)
    (match buildSet s.size s.dim op with
     | .ok ds => buildSymUsingVs ds v
     | .err => .err
     | .panic => .panic)
  | .err => .err
  | .panic => .panic

/-- `canonical(ds)` -/
def canonical (s : DSymData) : Outcome DSymData :=
  match minimalTraversalCode s with
  | .ok best => rebuild s best.map
  | .err => .err
  | .panic => .panic

end DSymVerif.DS
