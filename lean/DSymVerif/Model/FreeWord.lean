/-
Model of /repo/src/fpgroups/free_words.rs  (import-free, executable).

A `FreeWord` is its letter vector `w : Vec<isize>`; the model is `List Int`
(property C10 is not about `isize` overflow: letters |x| < 2^62, DESIGN §5.4).
Every Rust function below is re-stated statement by statement.
-/
import DSymVerif.Model.Outcome

namespace DSymVerif.FW

/-- one iteration of the loop body of `normalized`; the buffer is kept reversed
    (`buffer.last()` = head). -/
def step (acc : List Int) (x : Int) : List Int :=
  match acc with
  | y :: ys => if x = -y then ys else if x ≠ 0 then x :: acc else acc
  | [] => if x ≠ 0 then [x] else []

/-- `fn normalized(w) -> Vec<isize>` -/
def normalized (w : List Int) : List Int := (w.foldl step []).reverse

/-- `FreeWord::new` -/
def new (w : List Int) : List Int := normalized w

/-- `FreeWord::empty` -/
def empty : List Int := new []

/-- `impl Index<usize> for FreeWord` : `&self.w[index]`; a slice index out of range panics -/
def index (a : List Int) (k : Nat) : Outcome Int :=
  match a[k]? with
  | some x => .ok x
  | none => .panic

/-- the private helper `fn mul(lhs, rhs) -> Vec<isize>` (raw concatenation) -/
def rawMul (a b : List Int) : List Int := a ++ b

/-- all four `Mul<FreeWord>` impls route through `&self * &rhs` -/
def mul (a b : List Int) : List Int := new (rawMul a b)

/-- `Mul<isize>` -/
def mulLetter (a : List Int) (x : Int) : List Int := new (rawMul a [x])

/-- `MulAssign<&FreeWord>` (after the `fix:` commit for defect D4: the concatenation
    is normalised; the pinned tree assigned `rawMul a b`). -/
def mulAssign (a b : List Int) : List Int := new (rawMul a b)

/-- `FreeWord::inverse` -/
def inverse (a : List Int) : List Int := new (a.reverse.map (fun x => -x))

/-- `(0..m).fold(empty, |a, _| a * self)` -/
def powNat (a : List Int) : Nat → List Int
  | 0 => empty
  | n + 1 => mul (powNat a n) a

/-- `FreeWord::raised_to` -/
def raisedTo (a : List Int) (m : Int) : List Int :=
  if m < 0 then powNat (inverse a) (-m).toNat else powNat a m.toNat

/-- `FreeWord::commutator` : `self * other * self.inverse() * other.inverse()` -/
def commutator (a b : List Int) : List Int :=
  mul (mul (mul a b) (inverse a)) (inverse b)

/-- `FreeWord::rotated` (after the `fix:` commit for defect D5: the empty word is
    returned unchanged; the pinned tree evaluated `i.rem_euclid(0)` and panicked). -/
def rotated (a : List Int) (i : Int) : List Int :=
  let n : Int := a.length
  if n = 0 then a else
  let k := (i.emod n).toNat
  new (a.drop k ++ a.take k)

/-- key inducing the letter order of `Ord for FreeWord`:
    positive letters before negative ones, then by magnitude. -/
def letterLt (x y : Int) : Bool :=
  if x > 0 && y > 0 then decide (x < y) else decide (y < x)

/-- `Ord::cmp` -/
def cmp : List Int → List Int → Ordering
  | [], [] => .eq
  | [], _ :: _ => .lt
  | _ :: _, [] => .gt
  | x :: xs, y :: ys =>
    if x ≠ y then (if letterLt x y then .lt else .gt) else cmp xs ys

def lt (a b : List Int) : Bool := cmp a b == .lt

/-- insertion into a `BTreeSet<FreeWord>` kept as a `cmp`-sorted duplicate-free list -/
def insertSorted (w : List Int) : List (List Int) → List (List Int)
  | [] => [w]
  | v :: vs =>
    match cmp w v with
    | .lt => w :: v :: vs
    | .eq => v :: vs
    | .gt => v :: insertSorted w vs

/-- `relator_permutations` -/
def relatorPermutations (a : List Int) : List (List Int) :=
  if a.length = 0 then [a] else
  (List.range a.length).foldl
    (fun acc (i : Nat) =>
      let w := rotated a (i : Int)
      insertSorted w (insertSorted (inverse w) acc))
    []

/-- `relator_representative` -/
def relatorRepresentative (a : List Int) : List Int :=
  if a.length = 0 then a else
  (List.range a.length).foldl
    (fun best (i : Nat) =>
      let w := rotated a (i : Int)
      let winv := inverse w
      let best := if lt winv best then winv else best
      if lt w best then w else best)
    a

end DSymVerif.FW
