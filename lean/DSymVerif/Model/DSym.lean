/-
Model of the concrete representations of /repo/src/dsets.rs and /repo/src/dsyms.rs
(`PartialDSet`, `SimpleDSet`, `PartialDSym`, `SimpleDSym`), of `collect_orbits`, and
of the constructors in /repo/src/derived.rs (`build_set`, `build_sym_using_vs/ms`,
`dual`, `cover`, `as_partial_dsym`, `as_dset`, `as_dsym`, `oriented_cover`).
Import-free, executable.
-/
import DSymVerif.Model.DSet

namespace DSymVerif.DS

/-- storage shared by `PartialDSet` and `SimpleDSet`:
    `op[(d-1)*(dim+1)+i]`, 0 = undefined -/
structure DSetData where
  size : Nat
  dim : Nat
  op : Array Nat
  deriving Repr, DecidableEq, Inhabited

namespace DSetData

def idx (s : DSetData) (i d : Nat) : Nat := (d - 1) * (s.dim + 1) + i

/-- `op_unchecked(i, d)`; callers guarantee 1 ≤ d ≤ size, i ≤ dim -/
def opU (s : DSetData) (i d : Nat) : Nat := s.op.getD (s.idx i d) 0

/-- `PartialDSet::new` (asserts size ≥ 1, dim ≥ 1) -/
def new (size dim : Nat) : Outcome DSetData :=
  if size < 1 || dim < 1 then .panic
  else .ok { size := size, dim := dim, op := Array.replicate (size * (dim + 1)) 0 }

/-- `PartialDSet::set(i, d, e)` with its five assertions -/
def set (s : DSetData) (i d e : Nat) : Outcome DSetData :=
  if !(i ≤ s.dim) then .panic
  else if !(1 ≤ d && d ≤ s.size) then .panic
  else if !(1 ≤ e && e ≤ s.size) then .panic
  else
    let di := s.opU i d
    let ei := s.opU i e
    if di ≠ 0 && di ≠ e then .panic
    else if ei ≠ 0 && ei ≠ d then .panic
    else .ok { s with op := (s.op.setIfInBounds (s.idx i d) e).setIfInBounds (s.idx i e) d }

/-- `PartialDSet::grow(count)` -/
def grow (s : DSetData) (count : Nat) : DSetData :=
  { s with size := s.size + count, op := s.op ++ Array.replicate (count * (s.dim + 1)) 0 }

/-- `impl DSet for PartialDSet :: op` -/
def opPartial (s : DSetData) (i d : Nat) : Option Nat :=
  if i > s.dim || d < 1 || d > s.size then none
  else match s.opU i d with
    | 0 => none
    | di => some di

/-- `impl DSet for SimpleDSet :: op` (no zero test: complete by construction) -/
def opSimple (s : DSetData) (i d : Nat) : Option Nat :=
  if i > s.dim || d < 1 || d > s.size then none
  else some (s.opU i d)

/-- `PartialDSet::is_complete` override -/
def isCompletePartial (s : DSetData) : Bool :=
  (List.range (s.dim + 1)).all (fun i => (List.range s.size).all (fun d => s.opU i (d + 1) != 0))

def viewPartial (s : DSetData) : View := { size := s.size, dim := s.dim, op := s.opPartial }
def viewSimple (s : DSetData) : View := { size := s.size, dim := s.dim, op := s.opSimple }

/-- `SimpleDSet::from_partial` (asserts completeness) -/
def toSimple (s : DSetData) : Outcome DSetData :=
  if s.isCompletePartial then .ok s else .panic

end DSetData

/-! ### collect_orbits -/

structure Orbits where
  rs : Array Nat
  isChain : Array Bool
  index : Array (Array Nat)      -- index[i][d], i < dim, d ≤ size
  deriving Repr, DecidableEq, Inhabited

structure CollectState where
  rs : Array Nat
  chain : Array Bool
  index : Array (Array Nat)
  seen : Array Bool

/-- the inner `loop` of `collect_orbits` for orbit number `nr` of index pair (i,i+1) started at d -/
def collectLoop (ds : DSetData) (i d nr : Nat) :
    Nat → Nat → Nat → Bool → Array Nat → Array Bool → Nat × Bool × Array Nat × Array Bool
  | 0, _, steps, ch, ix, seen => (steps, ch, ix, seen)
  | fuel + 1, e, steps, ch, ix, seen =>
    let ei := ds.opU i e
    let ch := ch || ei == e
    let ix := ix.setIfInBounds ei nr
    let seen := seen.setIfInBounds ei true
    let e' := ds.opU (i + 1) ei
    let ch := ch || e' == ei
    let ix := ix.setIfInBounds e' nr
    let seen := seen.setIfInBounds e' true
    if e' = d then (steps + 1, ch, ix, seen)
    else collectLoop ds i d nr fuel e' (steps + 1) ch ix seen

/-- `collect_orbits(ds: &SimpleDSet)` -/
def collectOrbits (ds : DSetData) : Orbits :=
  let st0 : CollectState :=
    { rs := #[], chain := #[], index := Array.replicate ds.dim (Array.replicate (ds.size + 1) 0),
      seen := Array.replicate (ds.size + 1) false }
  let st := (List.range ds.dim).foldl (fun (st : CollectState) i =>
    let st := { st with seen := Array.replicate (ds.size + 1) false }
    (List.range ds.size).foldl (fun (st : CollectState) d0 =>
      let d := d0 + 1
      if st.seen.getD d false then st
      else
        let nr := st.rs.size
        let (steps, ch, ix, seen) :=
          collectLoop ds i d nr (ds.size + 1) d 0 false (st.index.getD i #[]) st.seen
        { rs := st.rs.push steps, chain := st.chain.push ch,
          index := st.index.setIfInBounds i ix, seen := seen }) st) st0
  { rs := st.rs, isChain := st.chain, index := st.index }

/-! ### PartialDSym / SimpleDSym -/

/-- fields shared by `PartialDSym` and `SimpleDSym` -/
structure DSymData where
  dset : DSetData
  orbitIndex : Array (Array Nat)
  orbitRs : Array Nat
  orbitVs : Array Nat
  deriving Repr, DecidableEq, Inhabited

namespace DSymData

def size (s : DSymData) : Nat := s.dset.size
def dim (s : DSymData) : Nat := s.dset.dim

/-- `impl From<SimpleDSet> for PartialDSym` -/
def ofSimple (ds : DSetData) : DSymData :=
  let o := collectOrbits ds
  { dset := ds, orbitIndex := o.index, orbitRs := o.rs, orbitVs := Array.replicate o.rs.size 0 }

/-- `impl From<PartialDSet> for PartialDSym` (via `SimpleDSet::from`, which asserts completeness) -/
def ofPartial (ds : DSetData) : Outcome DSymData :=
  match ds.toSimple with
  | .ok s => .ok (ofSimple s)
  | .err => .err
  | .panic => .panic

/-- `orbit_index[i][d]` — Rust indexing panics when out of range -/
def oix (s : DSymData) (i d : Nat) : Outcome Nat :=
  match s.orbitIndex[i]? with
  | some row => match row[d]? with
    | some k => .ok k
    | none => .panic
  | none => .panic

def orbAt (a : Array Nat) (k : Nat) : Outcome Nat :=
  match a[k]? with
  | some x => .ok x
  | none => .panic

/-- `PartialDSym::set_v(i, d, v)` (asserts 1 ≤ d) -/
def setV (s : DSymData) (i d v : Nat) : Outcome DSymData :=
  if d < 1 then .panic else
  match s.oix i d with
  | .ok k => if k < s.orbitVs.size then .ok { s with orbitVs := s.orbitVs.setIfInBounds k v } else .panic
  | .err => .err
  | .panic => .panic

/-- `op` is delegated to the inner SimpleDSet -/
def op (s : DSymData) (i d : Nat) : Option Nat := s.dset.opSimple i d

def outOfRange (s : DSymData) (i j d : Nat) : Bool :=
  i > s.dim || j > s.dim || d < 1 || d > s.size

/-- `impl DSet for PartialDSym :: r` -/
def rPartial (s : DSymData) (i j d : Nat) : Outcome (Option Nat) :=
  if s.outOfRange i j d then .ok none
  else if j = i then .ok (some 1)
  else if j = i + 1 then (do let k ← s.oix i d; let x ← orbAt s.orbitRs k; pure (some x))
  else if i = j + 1 then (do let k ← s.oix j d; let x ← orbAt s.orbitRs k; pure (some x))
  else if s.op i d = s.op j d then .ok (some 1)
  else .ok (some 2)

/-- `impl DSym for PartialDSym :: v` -/
def vPartial (s : DSymData) (i j d : Nat) : Outcome (Option Nat) :=
  if s.outOfRange i j d then .ok none
  else if j = i then .ok (some 1)
  else if j = i + 1 then (do let k ← s.oix i d; let x ← orbAt s.orbitVs k; pure (some x))
  else if i = j + 1 then (do let k ← s.oix j d; let x ← orbAt s.orbitVs k; pure (some x))
  else if s.op i d = s.op j d then .ok (some 2)
  else .ok (some 1)

/-- `impl DSet for SimpleDSym :: r` after the `fix:` commit for defect D2
    (`i == j + 1`; the pinned tree tested `j == i - 1` on `usize`, which overflows
    for i = 0 in builds with overflow checks). -/
def rSimple (s : DSymData) (i j d : Nat) : Outcome (Option Nat) :=
  if s.outOfRange i j d then .ok none
  else if j = i then .ok (some 1)
  else if j = i + 1 then (do let k ← s.oix i d; let x ← orbAt s.orbitRs k; pure (some x))
  else if i = j + 1 then (do let k ← s.oix j d; let x ← orbAt s.orbitRs k; pure (some x))
  else if s.op i d = s.op j d then .ok (some 1)
  else .ok (some 2)

/-- `impl DSym for SimpleDSym :: v` (same remark) -/
def vSimple (s : DSymData) (i j d : Nat) : Outcome (Option Nat) :=
  if s.outOfRange i j d then .ok none
  else if j = i then .ok (some 1)
  else if j = i + 1 then (do let k ← s.oix i d; let x ← orbAt s.orbitVs k; pure (some x))
  else if i = j + 1 then (do let k ← s.oix j d; let x ← orbAt s.orbitVs k; pure (some x))
  else if s.op i d = s.op j d then .ok (some 2)
  else .ok (some 1)

/-- `m = Some(r? * v?)` (both overrides) -/
def mOf (r v : Outcome (Option Nat)) : Outcome (Option Nat) :=
  match r, v with
  | .ok (some a), .ok (some b) => .ok (some (a * b))
  | .ok none, _ => .ok none
  | .ok (some _), .ok none => .ok none
  | .panic, _ => .panic
  | _, .panic => .panic
  | _, _ => .err

def mPartial (s : DSymData) (i j d : Nat) : Outcome (Option Nat) := mOf (s.rPartial i j d) (s.vPartial i j d)
def mSimple (s : DSymData) (i j d : Nat) : Outcome (Option Nat) := mOf (s.rSimple i j d) (s.vSimple i j d)

/-- `PartialDSym::is_complete` -/
def isCompletePartial (s : DSymData) : Bool :=
  s.dset.isCompletePartial && s.orbitVs.all (· > 0)

def view (s : DSymData) : View := { size := s.size, dim := s.dim, op := s.op }

/-- total accessors used by the constructions below (0 stands for `None`/panic; only
    used where the Rust code has already established range and completeness) -/
def vAdj (s : DSymData) (i d : Nat) : Option Nat :=
  match s.vPartial i (i + 1) d with
  | .ok x => x
  | _ => none

def rAdj (s : DSymData) (i d : Nat) : Option Nat :=
  match s.rPartial i (i + 1) d with
  | .ok x => x
  | _ => none

def mAdj (s : DSymData) (i d : Nat) : Option Nat :=
  match s.mPartial i (i + 1) d with
  | .ok x => x
  | _ => none

end DSymData

/-! ### derived.rs constructors -/

/-- `build_set(size, dim, op)` -/
def buildSet (size dim : Nat) (op : Nat → Nat → Option Nat) : Outcome DSetData :=
  match DSetData.new size dim with
  | .ok ds0 =>
    (List.range (dim + 1)).foldl (fun (acc : Outcome DSetData) i =>
      (List.range size).foldl (fun (acc : Outcome DSetData) d0 =>
        match acc with
        | .ok ds =>
          (match op i (d0 + 1) with
           | some di => ds.set i (d0 + 1) di
           | none => .ok ds)
        | o => o) acc) (.ok ds0)
  | .err => .err
  | .panic => .panic

/-- `build_sym_using_vs(dset, v)` -/
def buildSymUsingVs (dset : DSetData) (v : Nat → Nat → Option Nat) : Outcome DSymData :=
  match DSymData.ofPartial dset with
  | .ok sym0 =>
    (List.range sym0.dim).foldl (fun (acc : Outcome DSymData) i =>
      match acc with
      | .ok sym =>
        (sym.view.orbitReps2d i (i + 1)).foldl (fun (acc : Outcome DSymData) d =>
          match acc with
          | .ok sym =>
            (match v i d with
             | some x => sym.setV i d x
             | none => .ok sym)
          | o => o) (.ok sym)
      | o => o) (.ok sym0)
  | .err => .err
  | .panic => .panic

/-- `build_sym_using_ms(dset, m)`: `set_v(i, d, m / r)` -/
def buildSymUsingMs (dset : DSetData) (m : Nat → Nat → Option Nat) : Outcome DSymData :=
  match DSymData.ofPartial dset with
  | .ok sym0 =>
    (List.range sym0.dim).foldl (fun (acc : Outcome DSymData) i =>
      match acc with
      | .ok sym =>
        (sym.view.orbitReps2d i (i + 1)).foldl (fun (acc : Outcome DSymData) d =>
          match acc with
          | .ok sym =>
            (match sym.rPartial i (i + 1) d with
             | .ok (some r) =>
               (match m i d with
                | some mm => if r = 0 then .panic else sym.setV i d (mm / r)
                | none => .ok sym)
             | .ok none => .ok sym
             | .err => .err
             | .panic => .panic)
          | o => o) (.ok sym)
      | o => o) (.ok sym0)
  | .err => .err
  | .panic => .panic

/-- `as_partial_dsym` -/
def asPartialDSym (s : DSymData) : Outcome DSymData :=
  match buildSet s.size s.dim s.op with
  | .ok ds => buildSymUsingVs ds (fun i d => s.vAdj i d)
  | .err => .err
  | .panic => .panic

/-- `dual` -/
def dual (s : DSymData) : Outcome DSymData :=
  let n := s.dim
  match buildSet s.size n (fun i d => s.op (n - i) d) with
  | .ok ds => buildSymUsingVs ds (fun i d => s.vAdj (n - i - 1) d)
  | .err => .err
  | .panic => .panic

/-- `cover(ds, nr_sheets, sheet_map)` -/
def cover (s : DSymData) (nrSheets : Nat) (sheetMap : Nat → Nat → Nat → Nat) : Outcome DSymData :=
  let sz := s.size
  let src := fun d => (d - 1) % sz + 1
  let op := fun i d => (s.op i (src d)).map (fun di => sz * sheetMap ((d - src d) / sz) i (src d) + di)
  match buildSet (nrSheets * sz) s.dim op with
  | .ok ds => buildSymUsingMs ds (fun i d => s.mAdj i ((d - 1) % sz + 1))
  | .err => .err
  | .panic => .panic

/-- `oriented_cover` -/
def orientedCover (s : DSymData) : Outcome DSymData :=
  if s.view.isOriented then asPartialDSym s
  else
    let ori := s.view.partialOrientation
    let sheetMap := fun k i d =>
      match s.op i d with
      | some di => if ori.getD d 0 = ori.getD di 0 then k ^^^ 1 else k
      | none => k      -- `unwrap()` on None: unreachable for complete symbols (checked by the driver)
    cover s 2 sheetMap

/-- the symbol given by explicit tables, built the way the harness transmits symbols:
    `op i d` and adjacent `v i d` for every chamber (protocol decoding) -/
def ofTables (size dim : Nat) (op : Nat → Nat → Nat) (v : Nat → Nat → Nat) : Outcome DSymData :=
  match buildSet size dim (fun i d => let e := op i d; if e = 0 then none else some e) with
  | .ok ds => buildSymUsingVs ds (fun i d => some (v i d))
  | .err => .err
  | .panic => .panic

end DSymVerif.DS
