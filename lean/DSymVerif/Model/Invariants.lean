/-
Model of /repo/src/fpgroups/invariants.rs  (import-free, executable).

Since the `fix:` commit for finding F-C14-overflow the routines are generic over
`T: Signed + Clone + PartialOrd` and `abelian_invariants` instantiates them with `BigInt`: the model
over `Int` (`/` and `%` truncate: `Int.tdiv`, `Int.tmod`) is their exact semantics.  (The pinned
tree computed over `isize` and overflowed on small inputs.)  A second, instrumented copy of every
routine (`…B`, bottom of the file) also returns the largest absolute value of any intermediate
result; it is no longer needed for the correspondence and is kept for the statements that mention
the old no-overflow bound.  `…B_fst` lemmas (Proofs/InvariantsBound.lean) show that the
instrumented copy computes the same value.

A matrix `Vec<Vec<T>>` is a `List (List Int)`.  Every matrix that reaches
`diagonalize_in_place` is built by `abelian_invariants` from `relator_as_vector` rows, hence is
non-empty and rectangular with `m = nr_gens ≥ 1` columns; all index expressions of the Rust code
range over `0..n` / `0..m`, so they are in range and the accessors below are total
(`Rect.*` / `rect_*` lemmas in Proofs/InvariantsDiag.lean).  The only reachable panics are the
index expressions of `relator_as_vector` (letter 0 or |letter| > nr_gens) and a factor that does
not fit `usize` in the final conversion (the model returns unbounded naturals).
`move_pivot_in_place` swaps whole rows (`mat.swap`) and entries of each row (`mat[r].swap`).
-/
import DSymVerif.Model.Outcome

namespace DSymVerif.Inv

/-! ### `gcdx` -/

/-- the `while a_next != 0` loop of `gcdx`; state `(a, a_next, r, r_next, s, s_next)` -/
def gcdxLoop (a a' r r' s s' : Int) : Int × Int × Int × Int × Int :=
  if _h : a' = 0 then (a, r, s, r', s')
  else
    let q := a.tdiv a'
    gcdxLoop a' (a - q * a') r' (r - q * r') s' (s - q * s')
termination_by a'.natAbs
decreasing_by
  have e : a - a.tdiv a' * a' = a.tmod a' := by rw [Int.tmod_def, Int.mul_comm]
  rw [e, Int.natAbs_tmod]
  exact Nat.mod_lt _ (by omega)

/-- `fn gcdx(a, b) -> (a, r, s, r_next, s_next)` -/
def gcdx (a b : Int) : Int × Int × Int × Int × Int := gcdxLoop a b 1 0 0 1

/-! ### matrices -/

abbrev Mat := List (List Int)

/-- `mat.len()` -/
def nrows (mat : Mat) : Nat := mat.length
/-- `mat[0].len()` -/
def ncols (mat : Mat) : Nat := (mat.headD []).length

/-- `mat[r][c]` -/
def get (mat : Mat) (r c : Nat) : Int := (mat.getD r []).getD c 0
/-- `mat[r][c] = v` -/
def set (mat : Mat) (r c : Nat) (v : Int) : Mat := List.set mat r ((mat.getD r []).set c v)

/-- `isize::MAX` (no longer used by the model since the `fix:` commit for F-C14-overflow; kept for
    the statements that still mention the old no-overflow bound) -/
def isizeMax : Int := 9223372036854775807

/-- `min.as_ref().map_or(true, |min| v < *min)` -/
def ltMin (v : Int) : Option Int → Bool
  | none => true
  | some m => decide (v < m)

/-- body of the double loop of `find_pivot`; state `(row, col, min)`, `min : Option<T>`
    (after the `fix:` commit for F-C14-overflow; the pinned tree started the search at
    `isize::MAX` and overlooked entries of that magnitude) -/
def pivotStep (mat : Mat) (r : Nat) (st : Nat × Nat × Option Int) (c : Nat) : Nat × Nat × Option Int :=
  let v : Int := (get mat r c).natAbs
  if v ≠ 0 ∧ ltMin v st.2.2 = true then (r, c, some v) else st

/-- `fn find_pivot(mat, start) -> (row, col)` -/
def findPivot (mat : Mat) (start : Nat) : Nat × Nat :=
  let n := nrows mat
  let m := ncols mat
  let st := (List.range' start (n - start)).foldl
    (fun st r => (List.range' start (m - start)).foldl (pivotStep mat r) st)
    (start, start, none)
  (st.1, st.2.1)

/-- `for c in 0..m { swap(mat[row][c], mat[target][c]) }` on rows of equal length `m` -/
def swapRows (mat : Mat) (a b : Nat) : Mat :=
  List.set (List.set mat a (mat.getD b [])) b (mat.getD a [])

/-- `for r in 0..n { swap(mat[r][col], mat[r][target]) }` -/
def swapCols (mat : Mat) (a b : Nat) : Mat :=
  mat.map (fun row => List.set (List.set row a (row.getD b 0)) b (row.getD a 0))

/-- `fn move_pivot_in_place(mat, target, (row, col))` -/
def movePivot (mat : Mat) (target : Nat) (p : Nat × Nat) : Mat :=
  let mat := if p.1 ≠ target then swapRows mat p.1 target else mat
  if p.2 ≠ target then swapCols mat p.2 target else mat

/-- `for col in i..m { u[col] = u[col] * p + w[col] * q }` — the part left of `i` keeps `u` -/
def combine (i : Nat) (p q : Int) (u w : List Int) : List Int :=
  u.mapIdx (fun col v => if i ≤ col then v * p + w.getD col 0 * q else v)

/-- body of `for row in (i+1)..n` in `clear_later_rows_in_place`; state `(mat, count)` -/
def clearRowStep (i : Nat) (st : Mat × Nat) (row : Nat) : Mat × Nat :=
  let mat := st.1
  let e := get mat i i
  let f := get mat row i
  if e ≠ 0 ∧ f.tmod e = 0 then
    let x := f.tdiv e
    -- mat[row][col] -= x * mat[i][col]
    (List.set mat row (combine i 1 (-x) (mat.getD row []) (mat.getD i [])), st.2)
  else if f ≠ 0 then
    let g := gcdx e f
    let (a, b, c, d) := (g.2.1, g.2.2.1, g.2.2.2.1, g.2.2.2.2)
    let ri := mat.getD i []
    let rr := mat.getD row []
    -- mat[i][col] = v * a + w * b;  mat[row][col] = v * c + w * d   (v = mat[i][col], w = mat[row][col])
    (List.set (List.set mat i (combine i a b ri rr)) row (combine i d c rr ri), st.2 + 1)
  else st

/-- `fn clear_later_rows_in_place(mat, i) -> count` -/
def clearLaterRows (mat : Mat) (i : Nat) : Mat × Nat :=
  (List.range' (i + 1) (nrows mat - (i + 1))).foldl (clearRowStep i) (mat, 0)

/-- one row of the inner `for row in i..n` loops of `clear_later_cols_in_place`:
    entries `i` and `col` of the row become `(v*p + w*q, v*r + w*s)`, `v = row[i]`, `w = row[col]` -/
def colOp (i col : Nat) (p q r s : Int) (rowv : List Int) : List Int :=
  let v := rowv.getD i 0
  let w := rowv.getD col 0
  List.set (List.set rowv i (v * p + w * q)) col (v * r + w * s)

/-- body of `for col in (i+1)..m` in `clear_later_cols_in_place` -/
def clearColStep (i : Nat) (st : Mat × Nat) (col : Nat) : Mat × Nat :=
  let mat := st.1
  let e := get mat i i
  let f := get mat i col
  if e ≠ 0 ∧ f.tmod e = 0 then
    let x := f.tdiv e
    -- mat[row][col] -= x * mat[row][i]      (row in i..n)
    (mat.mapIdx (fun r rowv => if i ≤ r then colOp i col 1 0 (-x) 1 rowv else rowv), st.2)
  else if f ≠ 0 then
    let g := gcdx e f
    let (a, b, c, d) := (g.2.1, g.2.2.1, g.2.2.2.1, g.2.2.2.2)
    -- mat[row][i] = v * a + w * b;  mat[row][col] = v * c + w * d
    (mat.mapIdx (fun r rowv => if i ≤ r then colOp i col a b c d rowv else rowv), st.2 + 1)
  else st

/-- `fn clear_later_cols_in_place(mat, i) -> count` -/
def clearLaterCols (mat : Mat) (i : Nat) : Mat × Nat :=
  (List.range' (i + 1) (ncols mat - (i + 1))).foldl (clearColStep i) (mat, 0)

/-- the `loop { rows; if cols == 0 { break } }` of `diagonalize_in_place`; `none` = fuel exhausted
    (would be non-termination of the Rust loop; `innerLoop_fuel` shows it does not happen) -/
def innerLoop : Nat → Mat → Nat → Option Mat
  | 0, _, _ => none
  | fuel + 1, mat, i =>
    let mat := (clearLaterRows mat i).1
    let r := clearLaterCols mat i
    if r.2 = 0 then some r.1 else innerLoop fuel r.1 i

/-- body of `for i in 0..n.min(m)` -/
def diagStep (mat : Mat) (i : Nat) : Option Mat :=
  let p := findPivot mat i
  let r :=
    if get mat p.1 p.2 ≠ 0 then
      let mat := movePivot mat i p
      innerLoop ((get mat i i).natAbs + 1) mat i
    else some mat
  match r with
  | some mat => some (set mat i i ((get mat i i).natAbs : Int))
  | none => none

def diagFrom : List Nat → Mat → Option Mat
  | [], mat => some mat
  | i :: is, mat =>
    match diagStep mat i with
    | some mat => diagFrom is mat
    | none => none

/-- `fn diagonalize_in_place(mat)` -/
def diagonalize (mat : Mat) : Option Mat :=
  diagFrom (List.range (min (nrows mat) (ncols mat))) mat

/-! ### `relator_as_vector` -/

/-- loop body: `row[(-g - 1) as usize] -= 1` / `row[(g - 1) as usize] += 1`;
    an index outside `0..nr_gens` (letter 0 gives `usize::MAX`) panics -/
def bump (row : List Int) (g : Int) : Outcome (List Int) :=
  if g < 0 then
    let k := (-g - 1).toNat
    if k < row.length then .ok (List.set row k (row.getD k 0 - 1)) else .panic
  else if g = 0 then .panic
  else
    let k := (g - 1).toNat
    if k < row.length then .ok (List.set row k (row.getD k 0 + 1)) else .panic

def bumpAll : List Int → List Int → Outcome (List Int)
  | row, [] => .ok row
  | row, g :: w =>
    match bump row g with
    | .ok row => bumpAll row w
    | .err => .err
    | .panic => .panic

/-- `pub fn relator_as_vector<T>(nr_gens, w) -> Vec<T>`  (letters of the `FreeWord` as a list) -/
def relatorAsVector (nrGens : Nat) (w : List Int) : Outcome (List Int) :=
  bumpAll (List.replicate nrGens 0) w

def rowsOf (nrGens : Nat) : List (List Int) → Outcome Mat
  | [] => .ok []
  | w :: ws =>
    match relatorAsVector nrGens w with
    | .ok row =>
      (match rowsOf nrGens ws with
       | .ok rows => .ok (row :: rows)
       | .err => .err
       | .panic => .panic)
    | .err => .err
    | .panic => .panic

/-! ### `abelian_invariants` -/

/-- body of `for j in (i+1)..n` of the divisibility pass -/
def chainInner (i : Nat) (f : List Int) (j : Nat) : List Int :=
  let a := f.getD i 0
  let b := f.getD j 0
  if a ≠ 0 ∧ b.tmod a ≠ 0 then
    let g := (gcdx a b).1
    List.set (List.set f i g) j (a.tdiv g * b)
  else f

def chainRow (n : Nat) (f : List Int) (i : Nat) : List Int :=
  (List.range' (i + 1) (n - (i + 1))).foldl (chainInner i) f

/-- `for i in 0..n { for j in (i+1)..n { … } }` -/
def chainPass (n : Nat) (f : List Int) : List Int :=
  (List.range n).foldl (chainRow n) f

def leNat (a b : Nat) : Bool := decide (a ≤ b)

/-- filter `!= 1`, append `nr_gens - n` zeros, `abs() as usize`, `sort()` -/
def finish (nrGens n : Nat) (factors : List Int) : List Nat :=
  ((factors.filter (fun x => x ≠ 1) ++ List.replicate (nrGens - n) 0).map Int.natAbs).mergeSort leNat

def diagonal (mat : Mat) (n : Nat) : List Int := (List.range n).map (fun i => get mat i i)

/-- `pub fn abelian_invariants(nr_gens, rels) -> Vec<usize>`; `.err` stands for exhausted fuel in
    `diagonalize` (no such outcome exists in Rust: the model of a loop that would not end). -/
def abelianInvariants (nrGens : Nat) (rels : List (List Int)) : Outcome (List Nat) :=
  match rowsOf nrGens rels with
  | .err => .err
  | .panic => .panic
  | .ok mat =>
    if nrGens = 0 then .ok []
    else if mat.length = 0 then .ok (List.replicate nrGens 0)
    else
      match diagonalize mat with
      | none => .err
      | some mat =>
        let n := min mat.length nrGens
        .ok (finish nrGens n (chainPass n (diagonal mat n)))

/-! ### instrumented copy: value and largest intermediate absolute value

Every `…B` function returns what its plain twin returns, paired with `max` of the incoming bound
and `|x|` for every value `x` the Rust code computes on the way (each product, sum, difference,
quotient, remainder, `abs`).  If the final bound is `< 2^62` no `isize` operation overflowed. -/

def mx (b : Nat) (xs : List Int) : Nat := xs.foldl (fun b x => max b x.natAbs) b

def gcdxLoopB (a a' r r' s s' : Int) (b : Nat) : Nat :=
  if _h : a' = 0 then b
  else
    let q := a.tdiv a'
    gcdxLoopB a' (a - q * a') r' (r - q * r') s' (s - q * s')
      (mx b [q, q * a', a - q * a', q * r', r - q * r', q * s', s - q * s'])
termination_by a'.natAbs
decreasing_by
  have e : a - a.tdiv a' * a' = a.tmod a' := by rw [Int.tmod_def, Int.mul_comm]
  rw [e, Int.natAbs_tmod]
  exact Nat.mod_lt _ (by omega)

def gcdxB (a b : Int) (bd : Nat) : Nat := gcdxLoopB a b 1 0 0 1 (mx bd [a, b])

def matB (mat : Mat) (b : Nat) : Nat := mat.foldl mx b

/-- intermediates of `u[col] = u[col] * p + w[col] * q` for `col ≥ i` -/
def combineB (i : Nat) (p q : Int) (u w : List Int) (b : Nat) : Nat :=
  (List.range u.length).foldl (fun b col =>
    if i ≤ col then
      let v := u.getD col 0
      let x := w.getD col 0
      mx b [v * p, x * q, v * p + x * q]
    else b) b

def clearRowStepB (i : Nat) (mat : Mat) (row : Nat) (b : Nat) : Nat :=
  let e := get mat i i
  let f := get mat row i
  if e ≠ 0 ∧ f.tmod e = 0 then
    let x := f.tdiv e
    combineB i 1 (-x) (mat.getD row []) (mat.getD i []) (mx b [f.tmod e, x])
  else if f ≠ 0 then
    let g := gcdx e f
    let (a, bb, c, d) := (g.2.1, g.2.2.1, g.2.2.2.1, g.2.2.2.2)
    let ri := mat.getD i []
    let rr := mat.getD row []
    combineB i d c rr ri (combineB i a bb ri rr (gcdxB e f (mx b [f.tmod e])))
  else b

def clearLaterRowsB (mat : Mat) (i : Nat) (b : Nat) : (Mat × Nat) × Nat :=
  (List.range' (i + 1) (nrows mat - (i + 1))).foldl
    (fun p row => (clearRowStep i p.1 row, clearRowStepB i p.1.1 row p.2)) ((mat, 0), b)

def colOpB (i col : Nat) (p q r s : Int) (rowv : List Int) (b : Nat) : Nat :=
  let v := rowv.getD i 0
  let w := rowv.getD col 0
  mx b [v * p, w * q, v * p + w * q, v * r, w * s, v * r + w * s]

def colOpsB (i col : Nat) (p q r s : Int) (mat : Mat) (b : Nat) : Nat :=
  (List.range mat.length).foldl (fun b rw =>
    if i ≤ rw then colOpB i col p q r s (mat.getD rw []) b else b) b

def clearColStepB (i : Nat) (mat : Mat) (col : Nat) (b : Nat) : Nat :=
  let e := get mat i i
  let f := get mat i col
  if e ≠ 0 ∧ f.tmod e = 0 then
    let x := f.tdiv e
    colOpsB i col 1 0 (-x) 1 mat (mx b [f.tmod e, x])
  else if f ≠ 0 then
    let g := gcdx e f
    let (a, bb, c, d) := (g.2.1, g.2.2.1, g.2.2.2.1, g.2.2.2.2)
    colOpsB i col a bb c d mat (gcdxB e f (mx b [f.tmod e]))
  else b

def clearLaterColsB (mat : Mat) (i : Nat) (b : Nat) : (Mat × Nat) × Nat :=
  (List.range' (i + 1) (ncols mat - (i + 1))).foldl
    (fun p col => (clearColStep i p.1 col, clearColStepB i p.1.1 col p.2)) ((mat, 0), b)

def innerLoopB : Nat → Mat → Nat → Nat → Option Mat × Nat
  | 0, _, _, b => (none, b)
  | fuel + 1, mat, i, b =>
    let r1 := clearLaterRowsB mat i b
    let r2 := clearLaterColsB r1.1.1 i r1.2
    if r2.1.2 = 0 then (some r2.1.1, r2.2) else innerLoopB fuel r2.1.1 i r2.2

def diagStepB (mat : Mat) (i : Nat) (b : Nat) : Option Mat × Nat :=
  let p := findPivot mat i
  let r :=
    if get mat p.1 p.2 ≠ 0 then
      let mat := movePivot mat i p
      innerLoopB ((get mat i i).natAbs + 1) mat i b
    else (some mat, b)
  match r.1 with
  | some mat => (some (set mat i i ((get mat i i).natAbs : Int)), r.2)
  | none => (none, r.2)

def diagFromB : List Nat → Mat → Nat → Option Mat × Nat
  | [], mat, b => (some mat, b)
  | i :: is, mat, b =>
    match diagStepB mat i b with
    | (some mat, b) => diagFromB is mat b
    | (none, b) => (none, b)

def diagonalizeB (mat : Mat) (b : Nat) : Option Mat × Nat :=
  diagFromB (List.range (min (nrows mat) (ncols mat))) mat (matB mat b)

def chainInnerB (i : Nat) (f : List Int) (j : Nat) (bd : Nat) : Nat :=
  let a := f.getD i 0
  let b := f.getD j 0
  if a ≠ 0 ∧ b.tmod a ≠ 0 then
    let g := (gcdx a b).1
    gcdxB a b (mx bd [b.tmod a, a.tdiv g, a.tdiv g * b])
  else if a ≠ 0 then mx bd [b.tmod a] else bd

def chainRowB (n : Nat) (f : List Int) (i : Nat) (bd : Nat) : List Int × Nat :=
  (List.range' (i + 1) (n - (i + 1))).foldl
    (fun p j => (chainInner i p.1 j, chainInnerB i p.1 j p.2)) (f, bd)

def chainPassB (n : Nat) (f : List Int) (bd : Nat) : List Int × Nat :=
  (List.range n).foldl (fun p i => chainRowB n p.1 i p.2) (f, bd)

/-- value of `abelian_invariants` and the largest intermediate absolute value -/
def abelianInvariantsB (nrGens : Nat) (rels : List (List Int)) : Outcome (List Nat) × Nat :=
  match rowsOf nrGens rels with
  | .err => (.err, 0)
  | .panic => (.panic, 0)
  | .ok mat =>
    if nrGens = 0 then (.ok [], 0)
    else if mat.length = 0 then (.ok (List.replicate nrGens 0), 0)
    else
      match diagonalizeB mat 0 with
      | (none, b) => (.err, b)
      | (some mat, b) =>
        let n := min mat.length nrGens
        let r := chainPassB n (diagonal mat n) b
        (.ok (finish nrGens n r.1), r.2)

/-- the conservative no-overflow range of DESIGN §5.6 -/
def safeBound : Nat := 4611686018427387904  -- 2^62

end DSymVerif.Inv
