/-
Model of /repo/src/generators/dsym_generators.rs — the D-symbol generator `DSyms`
(`Geometries::{min,max}_curvature`, `DSymBackTracking::{new, orbit_count,
is_minimally_hyperbolic, is_canonical, is_good, orbifold_symbol, is_weakly_oriented}`,
`degree_list_as_string`, `compute_vmins`, `orbit_maps`, `impl BackTracking`
(`root`, `extract`, `children`) and `DSyms::{new, next}`), run through the model of
`BackTrackIterator` (`Model/Backtrack.lean`).   Executable; imports only Model files and
the generated literal tables.

* every literal of the Rust file is read from `Generated/Tables.lean` (`curvFac`, the
  min/max curvature per geometry, the cut-off `-CURV_FAC` and the divisor 2 of `new`, the `compute_vmins` rules, the upper end 7 of the `for v`
  loop, the list inside `is_good`), which `tools/extract_tables.py` regenerates from the
  source on every run.
* `i64` arithmetic is `Int` (all values are bounded by `4 * CURV_FAC` in absolute value up
  to the size of the D-set); `/` on `i64` is truncating division `Int.tdiv`, a zero divisor
  is a panic.
* `Vec` indexing (`vs[i]`, `self.orbit_vmins[i]`, `self.orbit_is_chain[i]`, `m[i]`,
  `sgn[di]` …) out of range is `Outcome.panic`; a panic inside `children` is the search
  node `Node.panicked`, which `extract` turns into a `panic` item (as in the model of the
  D-set generator).  `Props/C07.lean : generator_index_safe` shows that no reachable state
  panics in `children`.
* `Option::unwrap` of `orbit_maps` in `is_canonical` is a panic when the maps were not
  computed (`base_curvature < 0`); `extract` does not reach it then (short-circuit `||`).
* the `while let Some(d) = queue.pop_front()` loop of the private `is_weakly_oriented` is a
  recursion on fuel `size + 2` (every chamber is queued at most once, when its sign is set);
  exhaustion is `Outcome.panic`.
-/
import DSymVerif.Model.DSym
import DSymVerif.Model.Morphism
import DSymVerif.Model.Backtrack
import DSymVerif.Generated.Tables

namespace DSymVerif.SymGen
open DSymVerif.DS

/-! ### `Geometries` -/

inductive Geom where
  | spherical | euclidean | hyperbolic | all
  deriving DecidableEq, Repr, Inhabited

/-- position in the generated tables (order S, E, H, All) -/
def Geom.idx : Geom → Nat
  | .spherical => 0
  | .euclidean => 1
  | .hyperbolic => 2
  | .all => 3

def Geom.ofIdx : Nat → Option Geom
  | 0 => some .spherical
  | 1 => some .euclidean
  | 2 => some .hyperbolic
  | 3 => some .all
  | _ => none

/-- `i64::MIN` -/
def i64Min : Int := -9223372036854775808

/-- `CURV_FAC` -/
def curvFac : Int := Tables.curvFac

def tableEntry (t : List (Option Int)) (g : Geom) : Int := (t.getD g.idx none).getD i64Min

/-- `Geometries::min_curvature` -/
def Geom.minCurvature (g : Geom) : Int := tableEntry Tables.geomMinCurvature g
/-- `Geometries::max_curvature` -/
def Geom.maxCurvature (g : Geom) : Int := tableEntry Tables.geomMaxCurvature g

/-! ### small helpers -/

/-- `a / b` on `i64` (truncating; division by zero panics) -/
def idiv (a b : Int) : Outcome Int := if b = 0 then .panic else .ok (Int.tdiv a b)

/-- `if self.orbit_is_chain[i] { 1 } else { 2 }` -/
def kOf (chain : Bool) : Int := if chain then 1 else 2

/-- `compute_vmins`: the `match orbit_rs[i] { 1 => 3, 2 => 2, _ => 1 }` -/
def vminOf (r : Nat) : Nat :=
  match Tables.vminRules.find? (fun p => p.1 == r) with
  | some p => p.2
  | none => Tables.vminDefault

/-- `compute_vmins(orbit_rs)` -/
def computeVmins (rs : List Nat) : List Nat := rs.map vminOf

/-- `Ord` of slices: lexicographic, a proper prefix is smaller -/
def lexLt : List Nat → List Nat → Bool
  | [], [] => false
  | [], _ :: _ => true
  | _ :: _, [] => false
  | a :: as, b :: bs => a < b || (a == b && lexLt as bs)

/-- insertion into a descending list -/
def insertDesc (x : Nat) : List Nat → List Nat
  | [] => [x]
  | y :: ys => if x < y then y :: insertDesc x ys else x :: y :: ys

/-- `xs.sort(); xs.reverse()` -/
def sortDesc (xs : List Nat) : List Nat := xs.foldr insertDesc []

/-- this file's `degree_list_as_string` (no parentheses, unlike delaney2d's) -/
def degreeListAsString (vs : List Nat) : String := String.join (vs.map toString)

/-- sequential evaluation of modelled calls over a list (first panic wins) -/
def mapO {α β : Type} (f : α → Outcome β) : List α → Outcome (List β)
  | [] => .ok []
  | a :: as =>
    match f a with
    | .ok b =>
      (match mapO f as with
       | .ok bs => .ok (b :: bs)
       | .err => .err
       | .panic => .panic)
    | .err => .err
    | .panic => .panic

/-! ### the backtracking context `DSymBackTracking` -/

structure Ctx where
  dset : DSetData
  orbitIndex : Array (Array Nat)
  rs : List Nat
  vmins : List Nat
  isChain : List Bool
  maps : Option (List (List Nat))
  baseCurv : Int
  minCurv : Int
  maxCurv : Int
  deriving Repr, Inhabited

/-- `orbit_count()` -/
def Ctx.count (c : Ctx) : Nat := c.vmins.length

/-- the view of a `SimpleDSet` that `automorphisms` → `morphism` sees: its own `op`, and the
    trait's default `m` (a plain D-set) -/
def mvSimple (ds : DSetData) : Mor.MV :=
  { size := ds.size, dim := ds.dim, op := ds.opSimple, m := fun i d => ds.viewSimple.m i (i + 1) d }

/-- `m[orbit_index[i][d]] = orbit_index[i][map[d]]` for one `(i, d)` -/
def orbitMapStep (index : Array (Array Nat)) (map : Array Nat) (m : Array Nat) (i d : Nat) :
    Outcome (Array Nat) :=
  match index[i]? with
  | none => .panic
  | some row =>
    match row[d]?, map[d]? with
    | some k, some e =>
      (match row[e]? with
       | some k' => if k < m.size then .ok (m.setIfInBounds k k') else .panic
       | none => .panic)
    | _, _ => .panic

/-- one iteration of the nested loops, a panic being sticky -/
def orbitMapFoldStep (index : Array (Array Nat)) (map : Array Nat) (acc : Outcome (Array Nat))
    (k : Nat × Nat) : Outcome (Array Nat) :=
  match acc with
  | .ok m => orbitMapStep index map m k.1 k.2
  | o => o

/-- the two nested `for` loops of `orbit_maps` for one automorphism -/
def orbitMapOf (ds : DSetData) (count : Nat) (index : Array (Array Nat)) (map : Array Nat) :
    Outcome (List Nat) :=
  let keys := (List.range ds.dim).flatMap fun i => (List.range ds.size).map fun d0 => (i, d0 + 1)
  match keys.foldl (orbitMapFoldStep index map) (.ok (Array.replicate count 0)) with
  | .ok m => .ok m.toList
  | .err => .err
  | .panic => .panic

/-- `orbit_maps(dset, orbit_count, orbit_index)` -/
def orbitMaps (ds : DSetData) (count : Nat) (index : Array (Array Nat)) : Outcome (List (List Nat)) :=
  match Mor.automorphisms (mvSimple ds) with
  | .ok auts => mapO (orbitMapOf ds count index) auts
  | .err => .err
  | .panic => .panic

/-- the `for i in 0..orbit_vmins.len()` loop of `new` -/
def baseLoop (vmins : List Nat) (isChain : List Bool) : List Nat → Int → Outcome Int
  | [], b => .ok b
  | i :: is, b =>
    match isChain[i]?, vmins[i]? with
    | some ch, some vm =>
      (match idiv (curvFac * kOf ch) (vm : Int) with
       | .ok q => baseLoop vmins isChain is (b + q)
       | .err => .err
       | .panic => .panic)
    | _, _ => .panic

/-- `base_curvature` as computed by `new` -/
def baseCurvature (size : Nat) (vmins : List Nat) (isChain : List Bool) : Outcome Int :=
  baseLoop vmins isChain (List.range vmins.length) (Int.tdiv (-curvFac) Tables.chamberDivisor * (size : Int))

/-- `DSymBackTracking::new(dset, geoms)` -/
def mkCtx (ds : DSetData) (g : Geom) : Outcome Ctx :=
  let o := collectOrbits ds
  let rs := o.rs.toList
  let isChain := o.isChain.toList
  let vmins := computeVmins rs
  match baseCurvature ds.size vmins isChain with
  | .ok base =>
    let minC := max g.minCurvature (if base < 0 then base else Tables.minHypCutoff)
    let maxC := g.maxCurvature
    if base ≥ 0 then
      match orbitMaps ds vmins.length o.index with
      | .ok ms =>
        .ok { dset := ds, orbitIndex := o.index, rs := rs, vmins := vmins, isChain := isChain,
              maps := some ms, baseCurv := base, minCurv := minC, maxCurv := maxC }
      | .err => .err
      | .panic => .panic
    else
      .ok { dset := ds, orbitIndex := o.index, rs := rs, vmins := vmins, isChain := isChain,
            maps := none, baseCurv := base, minCurv := minC, maxCurv := maxC }
  | .err => .err
  | .panic => .panic

/-! ### `is_minimally_hyperbolic` -/

/-- the `for i in 0..self.orbit_count()` loop (early `return false`) -/
def minHypLoop (c : Ctx) (vs : List Nat) (curv : Int) : List Nat → Outcome Bool
  | [] => .ok true
  | i :: is =>
    match vs[i]?, c.vmins[i]? with
    | some v, some vm =>
      if v > vm then
        match c.isChain[i]? with
        | some ch =>
          (match idiv (kOf ch * curvFac) (v : Int), idiv (kOf ch * curvFac) ((v : Int) - 1) with
           | .ok a, .ok b =>
             if curv - a + b < 0 then .ok false else minHypLoop c vs curv is
           | _, _ => .panic)
        | none => .panic
      else minHypLoop c vs curv is
    | _, _ => .panic

/-- `is_minimally_hyperbolic(vs, curv)` -/
def isMinimallyHyperbolic (c : Ctx) (vs : List Nat) (curv : Int) : Outcome Bool :=
  if curv < 0 then minHypLoop c vs curv (List.range c.count) else .ok false

/-! ### `is_canonical` -/

/-- `(0..vs.len()).map(|i| vs[m[i]]).collect()` -/
def permuted (m vs : List Nat) : Outcome (List Nat) :=
  mapO (fun i =>
    match m[i]? with
    | some j =>
      (match vs[j]? with
       | some x => .ok x
       | none => .panic)
    | none => .panic) (List.range vs.length)

/-- the `for m in …` loop of `is_canonical` -/
def canonLoop (vs : List Nat) : List (List Nat) → Outcome Bool
  | [] => .ok true
  | m :: ms =>
    match permuted m vs with
    | .ok ws => if lexLt vs ws then .ok false else canonLoop vs ms
    | .err => .err
    | .panic => .panic

/-- `is_canonical(vs)` -/
def isCanonical (c : Ctx) (vs : List Nat) : Outcome Bool :=
  match c.maps with
  | none => .panic
  | some ms => canonLoop vs ms

/-! ### the private `is_weakly_oriented`, `orbifold_symbol`, `is_good` -/

/-- the `for i in 0..=self.dset.dim()` loop for one dequeued chamber; `.ok none` = `return false` -/
def woInner (ds : DSetData) (d : Nat) : List Nat → List Nat → Array Int →
    Outcome (Option (List Nat × Array Int))
  | [], q, sgn => .ok (some (q, sgn))
  | i :: is, q, sgn =>
    match ds.opSimple i d with
    | some di =>
      (match sgn[di]?, sgn[d]? with
       | some x, some sd =>
         if x = 0 then woInner ds d is (q ++ [di]) (sgn.setIfInBounds di (-sd))
         else if di ≠ d ∧ x ≠ -sd then .ok none
         else woInner ds d is q sgn
       | _, _ => .panic)
    | none => woInner ds d is q sgn

/-- the `while let Some(d) = queue.pop_front()` loop -/
def woLoop (ds : DSetData) : Nat → List Nat → Array Int → Outcome Bool
  | 0, _, _ => .panic
  | _ + 1, [], _ => .ok true
  | fuel + 1, d :: q, sgn =>
    match woInner ds d (List.range (ds.dim + 1)) q sgn with
    | .ok (some (q', sgn')) => woLoop ds fuel q' sgn'
    | .ok none => .ok false
    | .err => .err
    | .panic => .panic

/-- this file's private `is_weakly_oriented()` -/
def isWeaklyOriented (ds : DSetData) : Outcome Bool :=
  let sgn : Array Int := Array.replicate (ds.size + 1) 0
  if 1 < sgn.size then woLoop ds (ds.size + 2) [1] (sgn.setIfInBounds 1 1) else .panic

/-- the first loop of `orbifold_symbol`: order-2 corners and cones on the (0,2)-orbits -/
def points02 (ds : DSetData) : List Nat × List Nat :=
  (ds.viewSimple.orbitReps2d 0 2).foldl (fun (acc : List Nat × List Nat) d =>
    let d0 := ds.opU 0 d
    let d2 := ds.opU 2 d
    if d0 == d && d2 == d then (acc.1, acc.2 ++ [2])
    else if d0 != d && d2 == d0 then (acc.1 ++ [2], acc.2)
    else acc) ([], [])

/-- the second loop: `for i in 0..self.orbit_count()`; state = (cones, corners) -/
def pointsVs (c : Ctx) (vs : List Nat) : List Nat → List Nat × List Nat → Outcome (List Nat × List Nat)
  | [], acc => .ok acc
  | i :: is, acc =>
    match vs[i]? with
    | some v =>
      if v > 1 then
        match c.isChain[i]? with
        | some true => pointsVs c vs is (acc.1, acc.2 ++ [v])
        | some false => pointsVs c vs is (acc.1 ++ [v], acc.2)
        | none => .panic
      else pointsVs c vs is acc
    | none => .panic

/-- this file's private `orbifold_symbol(vs)` -/
def orbifoldSymbol (c : Ctx) (vs : List Nat) : Outcome String :=
  match pointsVs c vs (List.range c.count) (points02 c.dset) with
  | .ok (cones, corners) =>
    let front := degreeListAsString (sortDesc cones)
    let middle := if c.dset.viewSimple.isLoopless then "" else "*"
    let back := degreeListAsString (sortDesc corners)
    (match isWeaklyOriented c.dset with
     | .ok wo => .ok (front ++ middle ++ back ++ (if wo then "" else "x"))
     | .err => .err
     | .panic => .panic)
  | .err => .err
  | .panic => .panic

/-- `is_good(vs, curv)` -/
def isGood (c : Ctx) (vs : List Nat) (curv : Int) : Outcome Bool :=
  if curv ≤ 0 then .ok true
  else
    match orbifoldSymbol c vs with
    | .ok key => .ok (Tables.goodSphericalOrbifolds.contains key)
    | .err => .err
    | .panic => .panic

/-! ### `impl BackTracking for DSymBackTracking` -/

/-- `DSymGenState` -/
structure State where
  vs : List Nat
  curv : Int
  next : Nat
  deriving Repr, DecidableEq, Inhabited

/-- a search node: a state, or "the call of `children` that should have produced this node panicked" -/
inductive Node where
  | st (s : State)
  | panicked
  deriving Repr, DecidableEq, Inhabited

/-- `root()` -/
def root (c : Ctx) : Node :=
  .st { vs := c.vmins, curv := c.baseCurv, next := if c.baseCurv < 0 then c.count else 0 }

/-- `extract(state)`: the branching numbers `vs` of the emitted symbol (its other fields are the
    context's `dset`, `orbit_index`, `orbit_rs`) -/
def extract (c : Ctx) : Node → Option (Outcome (List Nat))
  | .panicked => some .panic
  | .st s =>
    if s.curv ≥ c.minCurv && s.curv ≤ c.maxCurv then
      if c.baseCurv < 0 then some (.ok s.vs)
      else if s.next ≥ c.count then
        match isGood c s.vs s.curv with
        | .ok true =>
          (match isCanonical c s.vs with
           | .ok true => some (.ok s.vs)
           | .ok false => none
           | .err => some .err
           | .panic => some .panic)
        | .ok false => none
        | .err => some .err
        | .panic => some .panic
      else none
    else none

/-- the `for v in vmin..=7` loop of `children` over the remaining values of `v` -/
def childLoop (c : Ctx) (s : State) (n : Nat) (vmin : Nat) : List Nat → Outcome (List State)
  | [] => .ok []
  | v :: rest =>
    if n < s.vs.length then
      let vs := s.vs.set n v
      match c.isChain[n]? with
      | some ch =>
        (match idiv (kOf ch * curvFac) (vmin : Int), idiv (kOf ch * curvFac) (v : Int) with
         | .ok a, .ok b =>
           let curv := s.curv - a + b
           if curv ≥ c.minCurv then
             if curv < 0 then
               match isMinimallyHyperbolic c vs curv with
               | .ok true => .ok [{ vs := vs, curv := curv, next := c.count }]
               | .ok false => .ok []
               | .err => .err
               | .panic => .panic
             else
               match childLoop c s n vmin rest with
               | .ok r => .ok ({ vs := vs, curv := curv, next := s.next + 1 } :: r)
               | .err => .err
               | .panic => .panic
           else childLoop c s n vmin rest
         | _, _ => .panic)
      | none => .panic
    else .panic

/-- `children(state)` -/
def children (c : Ctx) : Node → List Node
  | .panicked => []
  | .st s =>
    let n := s.next
    if n ≥ c.count || c.baseCurv < 0 then []
    else
      match s.vs[n]? with
      | none => [.panicked]
      | some vmin =>
        match childLoop c s n vmin (List.range' vmin (Tables.genVMax + 1 - vmin)) with
        | .ok cs => cs.map .st
        | _ => [.panicked]

def problem (c : Ctx) : BT.Problem Node (Outcome (List Nat)) :=
  { root := root c, extract := extract c, children := children c }

/-- enough iterations of the iterator's loop for the whole tree: at most `genVMax + 1`
    children per node, height at most `count + 1` (`Proofs/DSymGen.lean : fuel_adequate`) -/
def fuel (c : Ctx) : Nat := (Tables.genVMax + 2) ^ (c.count + 1)

/-- everything `BackTrackIterator::new(DSymBackTracking::new(dset, geoms))` yields: the `vs`
    vectors in emission order -/
def dsyms (c : Ctx) : List (Outcome (List Nat)) := BT.run (problem c) (fuel c)

/-- `DSyms::next`: `counter += 1; SimpleDSym::from_partial(ds, counter)` (asserts completeness:
    the D-set is a `SimpleDSet`, so that every `v > 0`) -/
def numbered : List (Outcome (List Nat)) → Nat → Outcome (List (Nat × List Nat))
  | [], _ => .ok []
  | .ok vs :: r, k =>
    if vs.all (· > 0) then
      match numbered r (k + 1) with
      | .ok l => .ok ((k + 1, vs) :: l)
      | .err => .err
      | .panic => .panic
    else .panic
  | _ :: _, _ => .panic

/-- `DSyms::new(dset, geoms).collect()`: (`symbol_count`, `orbit_vs`) of every symbol in order -/
def generate (ds : DSetData) (g : Geom) : Outcome (List (Nat × List Nat) × Ctx) :=
  match mkCtx ds g with
  | .ok c =>
    (match numbered (dsyms c) 0 with
     | .ok l => .ok (l, c)
     | .err => .err
     | .panic => .panic)
  | .err => .err
  | .panic => .panic

/-- `v(i, i + 1, d)` of an emitted symbol: `orbit_vs[orbit_index[i][d]]` -/
def vTable (c : Ctx) (vs : List Nat) (i d : Nat) : Nat :=
  vs.getD ((c.orbitIndex.getD i #[]).getD d 0) 0

end DSymVerif.SymGen
