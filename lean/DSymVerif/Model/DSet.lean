/-
Model of the `DSet` trait of /repo/src/dsets.rs — the default (generic) methods,
stated over a `View` (size, dim, op) so that they apply to every concrete
representation exactly as the Rust trait defaults do.   Import-free, executable.

Chambers are 1..size, indices 0..dim.  `op i d : Option Nat` is the trait method
`op(&self, i, d) -> Option<usize>` (None = out of range or undefined).
-/
import DSymVerif.Model.Outcome

namespace DSymVerif.DS

/-- what the trait's default methods see of a representation -/
structure View where
  size : Nat
  dim : Nat
  op : Nat → Nat → Option Nat

namespace View

/-- `elements()` = 1..=size -/
def elements (s : View) : List Nat := (List.range s.size).map (· + 1)
/-- `indices()` = 0..=dim -/
def indices (s : View) : List Nat := List.range (s.dim + 1)

/-- `walk(d, path)` -/
def walk (s : View) (d : Nat) (path : List Nat) : Option Nat :=
  path.foldl (fun d i => d.bind (fun d => s.op i d)) (some d)

/-- the `loop` of the default `r`: `fuel` iterations at most (the Rust loop has no
    bound; `r_generic_terminates` in Props/C02 shows `size` suffices when the two
    operations are injective on 1..size).  `none` at fuel exhaustion stands for
    non-termination and is never returned on valid D-sets. -/
def rLoop (s : View) (i j d : Nat) : Nat → Nat → Nat → Outcome (Option Nat)
  | 0, _, _ => .panic
  | fuel + 1, e, r =>
    match s.walk e [i, j] with
    | some c => if c = d then .ok (some (r + 1)) else rLoop s i j d fuel c (r + 1)
    | none => .ok none

/-- default `r(i, j, d)`; `Outcome.panic` here means "the Rust loop does not terminate" -/
def r (s : View) (i j d : Nat) : Outcome (Option Nat) :=
  if i > s.dim || j > s.dim || d < 1 || d > s.size then .ok none
  else rLoop s i j d (s.size + 1) d 0

/-- default `m(i, j, d)` of a plain D-set -/
def m (s : View) (i j d : Nat) : Option Nat :=
  if i > s.dim || j > s.dim || d < 1 || d > s.size then none
  else if j = i then some 1
  else if i = j + 1 || j = i + 1 then some 0
  else some 2

/-! ### Traversal (struct `Traversal`, `impl Iterator`) -/

/-- `todo: BTreeMap<usize, VecDeque<usize>>` as an index-sorted association list -/
abbrev Todo := List (Nat × List Nat)

def todoInit (indices : List Nat) : Todo :=
  let sorted := indices.foldl (fun acc i =>
    if acc.contains i then acc else
      (acc.filter (· < i)) ++ [i] ++ (acc.filter (· > i))) ([] : List Nat)
  sorted.map (fun i => (i, []))

/-- first index with a non-empty queue, its front element, and the map after `pop_front` -/
def todoPop : Todo → Option (Nat × Nat × Todo)
  | [] => none
  | (i, q) :: rest =>
    match q with
    | d :: q' => some (i, d, (i, q') :: rest)
    | [] => (todoPop rest).map (fun (j, d, rest') => (j, d, (i, []) :: rest'))

/-- `q.push_front(di)` if `k < 2` else `q.push_back(di)` on the queue of index k -/
def todoPush (t : Todo) (k di : Nat) : Todo :=
  t.map (fun (i, q) => if i = k then (i, if k < 2 then di :: q else q ++ [di]) else (i, q))

structure TravState where
  seeds : List Nat
  seen : List (Nat × Option Nat)
  todo : Todo

abbrev TravItem := Option Nat × Nat × Nat

/-- one call of `Iterator::next`; the inner `loop` consumes queue entries / seeds that
    are already seen, so it takes fuel (bounded by the total number of queued entries
    plus remaining seeds, see `travFuel`). -/
def travNext (s : View) (indices : List Nat) : Nat → TravState → Option (TravItem × TravState)
  | 0, _ => none
  | fuel + 1, st =>
    let popped : Option (Option Nat × Nat × TravState) :=
      match todoPop st.todo with
      | some (i, d, todo') => some (some i, d, { st with todo := todo' })
      | none =>
        match st.seeds with
        | d :: rest => some (none, d, { st with seeds := rest })
        | [] => none
    match popped with
    | none => none
    | some (mi, d, st) =>
      if st.seen.contains (d, mi) then travNext s indices fuel st
      else
        let di := match mi with
          | some i => (s.op i d).getD d
          | none => d
        let todo := indices.foldl (fun t k => todoPush t k di) st.todo
        let seen := (d, mi) :: (di, mi) :: (di, none) :: st.seen
        some ((mi, d, di), { st with seen := seen, todo := todo })

/-- enough fuel for a whole traversal: every report queues `indices.length` entries
    and there are at most (chambers touched) × (indices + 1) reports. -/
def travFuel (s : View) (indices seeds : List Nat) : Nat :=
  let k := indices.length + 1
  (s.size + seeds.length + 1) * k * k + seeds.length + 2

def travCollect (s : View) (indices : List Nat) (fuelPerCall : Nat) :
    Nat → TravState → List TravItem → List TravItem
  | 0, _, acc => acc.reverse
  | n + 1, st, acc =>
    match travNext s indices fuelPerCall st with
    | none => acc.reverse
    | some (item, st') => travCollect s indices fuelPerCall n st' (item :: acc)

/-- `traversal(indices, seeds).collect()` -/
def traversal (s : View) (indices seeds : List Nat) : List TravItem :=
  let f := travFuel s indices seeds
  travCollect s indices f f { seeds := seeds, seen := [], todo := todoInit indices } []

def fullTraversal (s : View) : List TravItem := s.traversal s.indices s.elements

/-- sorted duplicate-free list (a `BTreeSet<usize>` collected into a Vec) -/
def sortDedup (xs : List Nat) : List Nat :=
  xs.foldl (fun acc x =>
    if acc.contains x then acc else (acc.filter (· < x)) ++ [x] ++ (acc.filter (· > x))) []

/-- `orbit(indices, seed)` -/
def orbit (s : View) (indices : List Nat) (seed : Nat) : List Nat :=
  sortDedup ((s.traversal indices [seed]).map (fun (_, _, d) => d))

def fullOrbit (s : View) (seed : Nat) : List Nat := s.orbit s.indices seed

/-- `orbit_reps(indices, seeds)` -/
def orbitReps (s : View) (indices seeds : List Nat) : List Nat :=
  (s.traversal indices seeds).filterMap (fun (i, d, _) => if i.isNone then some d else none)

/-- `is_connected()` -/
def isConnected (s : View) : Bool :=
  s.fullTraversal.all (fun (i, d, _) => !(i.isNone && d > 1))

/-- default `is_complete()` -/
def isComplete (s : View) : Bool :=
  s.indices.all (fun i => s.elements.all (fun d => (s.op i d).isSome))

def isLoopless (s : View) : Bool :=
  s.indices.all (fun i => s.elements.all (fun d => s.op i d != some d))

/-- `Sign`: 0 = ZERO, 1 = PLUS, 2 = MINUS -/
def partialOrientation (s : View) : Array Nat :=
  s.fullTraversal.foldl (fun sgn (_, d, di) =>
    if sgn.getD di 0 = 0 then sgn.setIfInBounds di (if sgn.getD d 0 = 1 then 2 else 1) else sgn)
    (Array.replicate (s.size + 1) 0)

def orientationsMatch (s : View) (i d : Nat) (ori : Array Nat) : Bool :=
  match s.op i d with
  | some di => di == d || ori.getD d 0 == 0 || ori.getD di 0 != ori.getD d 0
  | none => true

def isWeaklyOriented (s : View) : Bool :=
  let ori := s.partialOrientation
  s.indices.all (fun i => s.elements.all (fun d => s.orientationsMatch i d ori))

def isOriented (s : View) : Bool := s.isLoopless && s.isWeaklyOriented

/-- the inner `loop` of `orbit_reps_2d` (fuel: at most `size` rounds on a D-set) -/
def reps2dLoop (s : View) (i j d : Nat) : Nat → Nat → Array Bool → Array Bool
  | 0, _, seen => seen
  | fuel + 1, e, seen =>
    let ei := (s.op i e).getD e
    let seen := seen.setIfInBounds ei true
    let e' := (s.op j ei).getD ei
    let seen := seen.setIfInBounds e' true
    if e' = d then seen else reps2dLoop s i j d fuel e' seen

/-- `orbit_reps_2d(i, j)` -/
def orbitReps2d (s : View) (i j : Nat) : List Nat :=
  (s.elements.foldl (fun (acc : List Nat × Array Bool) d =>
    if acc.2.getD d false then acc
    else (d :: acc.1, reps2dLoop s i j d (s.size + 1) d (acc.2.setIfInBounds d true)))
    ([], Array.replicate (s.size + 1) false)).1.reverse

end View
end DSymVerif.DS
