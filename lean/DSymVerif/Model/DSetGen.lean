/-
Model of /repo/src/generators/dset_generators.rs — the orderly generator `DSets` of
connected complete D-sets, as an instance of the generic backtracking iterator
(`Model/Backtrack.lean`).  Import-free (only other Model files), executable.

Rust statement ↦ model:
* `op_unchecked(i, d)` = `self.op[(d - 1) * (dim + 1) + i]` ↦ `opC`: `d = 0` is the
  `usize` underflow panic of overflow-checked builds, an index past the end of the
  vector is the `Vec` bounds panic.  Nothing is defaulted.
* `PartialDSet::set` ↦ `setC` = the five asserts of `DSetData.set` (Model/DSym.lean)
  plus the two `Vec` index checks.
* every `for` loop ↦ structural recursion over the list of loop values; the
  `while !queue.is_empty()` loop ↦ `implLoop` with fuel (`Outcome.panic` on
  exhaustion stands for non-termination; `Proofs/DSetGen.lean` shows it is never
  reached from a well-formed partial D-set).
* a panic anywhere inside `children` unwinds through `BackTrackIterator::next`;
  the model's `children` then returns the single node `Node.panicked`, whose
  `extract` is `Outcome.panic`.
-/
import DSymVerif.Model.DSym
import DSymVerif.Model.Backtrack

namespace DSymVerif.DSG
open DSymVerif.DS

/-- `ds.op_unchecked(i, d)` with Rust's checked arithmetic and checked indexing -/
def opC (s : DSetData) (i d : Nat) : Outcome Nat :=
  if d = 0 then .panic
  else match s.op[s.idx i d]? with
    | some x => .ok x
    | none => .panic

/-- `dset.set(i, d, e)`: asserts as in `DSetData.set`, `Vec` indexing checked -/
def setC (s : DSetData) (i d e : Nat) : Outcome DSetData :=
  if s.idx i d < s.op.size ∧ s.idx i e < s.op.size then s.set i d e else .panic

/-- checked `a[k]` -/
def getC {α : Type} (a : Array α) (k : Nat) : Outcome α :=
  match a[k]? with
  | some x => .ok x
  | none => .panic

/-- checked `a[k] = v` -/
def putC {α : Type} (a : Array α) (k : Nat) (v : α) : Outcome (Array α) :=
  if k < a.size then .ok (a.setIfInBounds k v) else .panic

/-! ### scan_single_direction / scan_orbit -/

/-- `scan_single_direction(ds, w, d, limit)`; the caller passes `w.take limit`, `e = d`,
    `k = 0`.  Returns `(e, k)`. -/
def scanSingle (ds : DSetData) : List Nat → Nat → Nat → Outcome (Nat × Nat)
  | [], e, k => .ok (e, k)
  | i :: w, e, k =>
    match opC ds i e with
    | .ok en => if en ≠ 0 then scanSingle ds w en (k + 1) else .ok (e, k)
    | _ => .panic

/-- `scan_orbit(ds, i, j, d) = (head, tail, gap, k)` -/
def scanOrbit (ds : DSetData) (i j d : Nat) : Outcome (Nat × Nat × Nat × Nat) :=
  match scanSingle ds [i, j, i, j] d 0 with
  | .ok (head, a) =>
    (match scanSingle ds ([j, i, j, i].take (4 - a)) d 0 with
     | .ok (tail, b) => .ok (head, tail, 4 - a - b, if a % 2 = 0 then i else j)
     | _ => .panic)
  | _ => .panic

/-! ### check_and_apply_implications -/

/-- `i.abs_diff(j)` -/
def absDiff (i j : Nat) : Nat := if i ≤ j then j - i else i - j

/-- the `for j in 0..=dset.dim()` loop for one popped `(i, d)`.
    `ok none` = `return false`; `ok (some (ds, q))` = loop finished. -/
def implRow (i d : Nat) :
    List Nat → DSetData → List (Nat × Nat) → Outcome (Option (DSetData × List (Nat × Nat)))
  | [], ds, q => .ok (some (ds, q))
  | j :: js, ds, q =>
    if absDiff i j > 1 then
      match scanOrbit ds i j d with
      | .ok (head, tail, gap, k) =>
        if gap = 0 ∧ head ≠ tail then .ok none
        else if gap = 1 then
          (match setC ds k head tail with
           | .ok ds' => implRow i d js ds' (q ++ [(k, head)])
           | _ => .panic)
        else implRow i d js ds q
      | _ => .panic
    else implRow i d js ds q

/-- the `while !queue.is_empty()` loop; fuel = bound on the number of pops -/
def implLoop : Nat → DSetData → List (Nat × Nat) → Outcome (Option DSetData)
  | _, ds, [] => .ok (some ds)
  | 0, _, _ :: _ => .panic
  | fuel + 1, ds, (i, d) :: q =>
    match implRow i d (List.range (ds.dim + 1)) ds q with
    | .ok (some (ds', q')) => implLoop fuel ds' q'
    | .ok none => .ok none
    | _ => .panic

/-- number of undefined entries of the table -/
def zeros (a : Array Nat) : Nat := a.count 0

/-- `check_and_apply_implications(&mut dset, idx, elm)`: `ok none` = false,
    `ok (some ds')` = true with the updated set.  Every push is preceded by a `set`
    that defines a previously undefined entry, so `zeros + 1` pops suffice. -/
def checkImpl (ds : DSetData) (idx elm : Nat) : Outcome (Option DSetData) :=
  implLoop (zeros ds.op + 1) ds [(idx, elm)]

/-! ### compare_renumbered_from / check_canonicity -/

structure Renum where
  n2o : Array Nat
  o2n : Array Nat
  next : Nat
  deriving Repr, DecidableEq

/-- all `(d, i)` of the double loop `for d in 1..=size { for i in 0..=dim {…} }` -/
def loopPairs (size dim : Nat) : List (Nat × Nat) :=
  (List.range size).flatMap (fun d0 => (List.range (dim + 1)).map (fun i => (d0 + 1, i)))

/-- body of the double loop of `compare_renumbered_from` -/
def cmpLoop (ds : DSetData) : List (Nat × Nat) → Renum → Outcome Int
  | [], _ => .ok 0
  | (d, i) :: rest, r =>
    match getC r.n2o d with
    | .ok od =>
      (match opC ds i od with
       | .ok ei =>
         if ei = 0 then .ok 0
         else
           (match getC r.o2n ei with
            | .ok x =>
              let upd : Outcome Renum :=
                if x = 0 then
                  (match putC r.o2n ei r.next with
                   | .ok o2n =>
                     (match putC r.n2o r.next ei with
                      | .ok n2o => .ok { n2o := n2o, o2n := o2n, next := r.next + 1 }
                      | _ => .panic)
                   | _ => .panic)
                else .ok r
              (match upd with
               | .ok r' =>
                 (match opC ds i d with
                  | .ok di =>
                    if di = 0 then .ok 0
                    else
                      (match getC r'.o2n ei with
                       | .ok y => if y ≠ di then .ok ((y : Int) - (di : Int)) else cmpLoop ds rest r'
                       | _ => .panic)
                  | _ => .panic)
               | _ => .panic)
            | _ => .panic)
       | _ => .panic)
    | _ => .panic

/-- `compare_renumbered_from(ds, d0, new2old, old2new)`; both slices have length
    `max_size + 1` and are zero-filled first -/
def compareRenumberedFrom (ds : DSetData) (d0 maxSize : Nat) : Outcome Int :=
  let z := Array.replicate (maxSize + 1) 0
  match putC z 1 d0 with
  | .ok n2o =>
    (match putC z d0 1 with
     | .ok o2n => cmpLoop ds (loopPairs ds.size ds.dim) { n2o := n2o, o2n := o2n, next := 2 }
     | _ => .panic)
  | _ => .panic

/-- the loop of `check_canonicity`; `ok none` = false, `ok (some irs)` = true with the
    updated `is_remap_start` -/
def canonLoop (ds : DSetData) (maxSize : Nat) :
    List Nat → Array Bool → Outcome (Option (Array Bool))
  | [], irs => .ok (some irs)
  | d :: rest, irs =>
    match getC irs d with
    | .ok false => canonLoop ds maxSize rest irs
    | .ok true =>
      (match compareRenumberedFrom ds d maxSize with
       | .ok diff =>
         if diff < 0 then .ok none
         else if diff > 0 then
           (match putC irs d false with
            | .ok irs' => canonLoop ds maxSize rest irs'
            | _ => .panic)
         else canonLoop ds maxSize rest irs
       | _ => .panic)
    | _ => .panic

def checkCanonicity (ds : DSetData) (maxSize : Nat) (irs : Array Bool) :
    Outcome (Option (Array Bool)) :=
  canonLoop ds maxSize ((List.range ds.size).map (· + 1)) irs

/-! ### next_undefined -/

def firstUndef (ds : DSetData) : List (Nat × Nat) → Outcome (Option (Nat × Nat))
  | [] => .ok none
  | (i, d) :: r =>
    match opC ds i d with
    | .ok x => if x = 0 then .ok (some (i, d)) else firstUndef ds r
    | _ => .panic

/-- the positions inspected by `next_undefined(ds, i0, d0)`, in order -/
def scanPositions (ds : DSetData) (i0 d0 : Nat) : List (Nat × Nat) :=
  (List.range' i0 (ds.dim + 1 - i0)).map (fun i => (i, d0)) ++
  (List.range' (d0 + 1) (ds.size - d0)).flatMap
    (fun d => (List.range (ds.dim + 1)).map (fun i => (i, d)))

def nextUndefined (ds : DSetData) (i0 d0 : Nat) : Outcome (Option (Nat × Nat)) :=
  firstUndef ds (scanPositions ds i0 d0)

/-! ### the backtracking problem -/

structure GenState where
  dset : DSetData
  isRemapStart : Array Bool
  next : Option (Nat × Nat)
  deriving Repr, DecidableEq

inductive Node where
  | st (s : GenState)
  | panicked
  deriving Repr, DecidableEq

/-- one iteration of `for e in d..=max_e` whose `if` condition holds:
    `ok none` = `continue` / not canonical, `ok (some child)` = pushed -/
def childFor (maxSize : Nat) (s : GenState) (i d e : Nat) : Outcome (Option GenState) :=
  let grown : Outcome (DSetData × Array Bool) :=
    if e > s.dset.size then
      (match putC s.isRemapStart e true with
       | .ok irs => .ok (s.dset.grow 1, irs)
       | _ => .panic)
    else .ok (s.dset, s.isRemapStart)
  match grown with
  | .ok (ds0, irs0) =>
    (match setC ds0 i d e with
     | .ok ds1 =>
       (match checkImpl ds1 i d with
        | .ok (some ds2) =>
          (match checkCanonicity ds2 maxSize irs0 with
           | .ok (some irs) =>
             (match nextUndefined ds2 i d with
              | .ok nx => .ok (some { dset := ds2, isRemapStart := irs, next := nx })
              | _ => .panic)
           | .ok none => .ok none
           | _ => .panic)
        | .ok none => .ok none
        | _ => .panic)
     | _ => .panic)
  | _ => .panic

/-- the `for e in d..=max_e` loop, collecting `result` -/
def childLoop (maxSize : Nat) (s : GenState) (i d : Nat) : List Nat → Outcome (List GenState)
  | [] => .ok []
  | e :: es =>
    let take : Outcome Bool :=
      if e > s.dset.size then .ok true
      else match opC s.dset i e with
        | .ok x => .ok (x = 0)
        | _ => .panic
    match take with
    | .ok true =>
      (match childFor maxSize s i d e with
       | .ok (some c) =>
         (match childLoop maxSize s i d es with
          | .ok cs => .ok (c :: cs)
          | _ => .panic)
       | .ok none => childLoop maxSize s i d es
       | _ => .panic)
    | .ok false => childLoop maxSize s i d es
    | _ => .panic

/-- the representation invariant of `PartialDSet` (private fields; established by `new`,
    kept by `grow` and `set`).  `children` refuses to work on a table of the wrong
    length — `Props/C06.lean : store_guard_dead` shows this never happens. -/
def storeOk (ds : DSetData) : Bool := ds.op.size == ds.size * (ds.dim + 1)

def children (maxSize : Nat) : Node → List Node
  | .panicked => []
  | .st s =>
    match s.next with
    | none => []
    | some (i, d) =>
      if !storeOk s.dset then [.panicked]
      else
        let maxE := min (s.dset.size + 1) maxSize
        match childLoop maxSize s i d (List.range' d (maxE + 1 - d)) with
        | .ok cs => cs.map .st
        | _ => [.panicked]

def root (dim maxSize : Nat) : Node :=
  match DSetData.new 1 dim with
  | .ok ds => .st { dset := ds, isRemapStart := Array.replicate (maxSize + 1) false, next := some (0, 1) }
  | _ => .panicked

def extract : Node → Option (Outcome DSetData)
  | .panicked => some .panic
  | .st s => if s.next.isNone then some (.ok s.dset) else none

def problem (dim maxSize : Nat) : BT.Problem Node (Outcome DSetData) :=
  { root := root dim maxSize, extract := extract, children := children maxSize }

/-- enough iterations of the iterator's loop for the whole tree: at most `maxSize + 1`
    children per node, height at most `(maxSize + 1) * (dim + 1) + 2`
    (`Proofs/DSetGen.lean : fuel_adequate`) -/
def fuel (dim maxSize : Nat) : Nat := (maxSize + 2) ^ ((maxSize + 1) * (dim + 1) + 2)

/-- everything `BackTrackIterator::new(DSetBackTracking { dim, max_size })` yields -/
def dsets (dim maxSize : Nat) : List (Outcome DSetData) :=
  BT.run (problem dim maxSize) (fuel dim maxSize)

/-- `DSets::new(dim, max_size).collect()`: the sets with their `set_count` numbers;
    `none` = the iterator panicked (at construction or in some `next`) -/
def numbered : List (Outcome DSetData) → Nat → Option (List (DSetData × Nat))
  | [], _ => some []
  | .ok ds :: r, c => (numbered r (c + 1)).map ((ds, c + 1) :: ·)
  | _ :: _, _ => none

def dsetsNumbered (dim maxSize : Nat) : Option (List (DSetData × Nat)) :=
  numbered (dsets dim maxSize) 0

end DSymVerif.DSG
