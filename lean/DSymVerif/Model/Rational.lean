/-
Model of `num_rational::BigRational` as used by /repo/src/geometry (import-free).

A `BigRational` is always kept reduced with a positive denominator, so its value is
determined by the normal form `num/den`, `den > 0`, `gcd(|num|, den) = 1`; the model
keeps exactly that pair and re-normalises after each operation (which algorithm the
crate uses to get there is not observable).  Division by zero and `new(_, 0)` panic,
as in the crate.
-/
import DSymVerif.Model.Outcome

namespace DSymVerif

structure Q where
  num : Int
  den : Nat
  deriving DecidableEq, Repr, Inhabited

namespace Q

/-- reduce `n/d` (`d > 0`) to lowest terms -/
def norm (n : Int) (d : Nat) : Q :=
  let g := Nat.gcd n.natAbs d
  if g = 0 then ⟨0, 1⟩ else ⟨n / (g : Int), d / g⟩

/-- `BigRational::new(n, d)` : panics for `d = 0`, moves the sign to the numerator -/
def new (n d : Int) : Outcome Q :=
  if d = 0 then .panic
  else if d < 0 then .ok (norm (-n) (-d).toNat) else .ok (norm n d.toNat)

def ofInt (n : Int) : Q := ⟨n, 1⟩
def zero : Q := ⟨0, 1⟩
def one : Q := ⟨1, 1⟩
def isZero (a : Q) : Bool := a.num == 0

def add (a b : Q) : Q := norm (a.num * b.den + b.num * a.den) (a.den * b.den)
def sub (a b : Q) : Q := norm (a.num * b.den - b.num * a.den) (a.den * b.den)
def mul (a b : Q) : Q := norm (a.num * b.num) (a.den * b.den)
def neg (a : Q) : Q := ⟨-a.num, a.den⟩
def abs (a : Q) : Q := ⟨(a.num.natAbs : Int), a.den⟩

/-- `a / b` : panics exactly when `b` is zero; the quotient `a.num·b.den / (a.den·b.num)`
    is reduced and the sign moved to the numerator -/
def div (a b : Q) : Outcome Q :=
  if b.num = 0 then .panic
  else
    let n := a.num * b.den
    let d := (a.den : Int) * b.num
    if d < 0 then .ok (norm (-n) (-d).toNat) else .ok (norm n d.toNat)

/-- `a > b` (`PartialOrd` of `Ratio`: compares values) -/
def gt (a b : Q) : Bool := decide (a.num * b.den > b.num * a.den)

end Q
end DSymVerif
