/-
Model of /repo/src/util/cutsets.rs  (import-free, executable).

`BTreeSet<usize>` / `BTreeSet<(usize,usize)>` are strictly ascending lists,
`BTreeMap<usize, BTreeSet<usize>>` is a key-ascending association list, so every
`for … in &set` of the Rust code is a traversal of the list from the left and the
model returns the cut the code returns, element for element.
`usize` is modelled as `Nat` (vertex labels stay far below 2^62, so `v + offset`
cannot overflow — DESIGN §5.7 / conf assumptions).

Outcomes:  `ok r`   the function returned `r`;
           `panic`  an index expression `neighbors[&v]` / `back[&w]` failed;
           `err`    the *model's* loop fuel ran out (the Rust code has `loop`/`while`
                    without a bound).  Proved impossible for every input
                    (`Props/C19.lean: fuel_adequate`): BFS pops every vertex at most
                    once, every augmentation raises the flow value by one.
-/
import DSymVerif.Model.Outcome

namespace DSymVerif.Cut

abbrev Edge := Nat × Nat

/-! ### ordered containers -/

/-- `BTreeSet<usize>::insert` on a strictly ascending list -/
def insNat (x : Nat) : List Nat → List Nat
  | [] => [x]
  | y :: ys => if x < y then x :: y :: ys else if x = y then y :: ys else y :: insNat x ys

/-- `iter.collect::<BTreeSet<usize>>()` -/
def natSet (l : List Nat) : List Nat := l.foldl (fun acc x => insNat x acc) []

/-- derived `Ord` of `(usize, usize)` -/
def edgeLt (a b : Edge) : Bool :=
  decide (a.1 < b.1) || (a.1 == b.1 && decide (a.2 < b.2))

/-- `BTreeSet<(usize,usize)>::insert` -/
def insEdge (e : Edge) : List Edge → List Edge
  | [] => [e]
  | x :: xs =>
    if edgeLt e x then e :: x :: xs else if e = x then x :: xs else x :: insEdge e xs

/-- `BTreeSet<(usize,usize)>::remove` -/
def remEdge (e : Edge) : List Edge → List Edge
  | [] => []
  | x :: xs => if e = x then xs else x :: remEdge e xs

/-- `iter.collect::<BTreeSet<(usize,usize)>>()` -/
def edgeSet (l : List Edge) : List Edge := l.foldl (fun acc e => insEdge e acc) []

/-- one step of `by_first`: `result.entry(v).and_modify(|a| a.insert(w)).or_insert({w})` -/
def insPair (v w : Nat) : List (Nat × List Nat) → List (Nat × List Nat)
  | [] => [(v, [w])]
  | (k, ws) :: r =>
    if v < k then (v, [w]) :: (k, ws) :: r
    else if v = k then (k, insNat w ws) :: r
    else (k, ws) :: insPair v w r

/-- `fn by_first(pairs) -> BTreeMap<usize, BTreeSet<usize>>` -/
def byFirst (pairs : List Edge) : List (Nat × List Nat) :=
  pairs.foldl (fun m p => insPair p.1 p.2 m) []

/-- `map.contains_key(&k)` for `back : BTreeMap<usize,usize>` (kept as an association
    list, newest binding first; a key is never bound twice because only unseen
    vertices are bound) -/
def hasKey (k : Nat) (m : List (Nat × Nat)) : Bool := (m.lookup k).isSome

/-! ### `augment` -/

structure Bfs where
  q : List Nat
  seen : List Nat
  back : List (Nat × Nat)

/-- body of `for &w in &neighbors[&v] { … }` -/
def visit (edges path : List Edge) (v : Nat) (st : Bfs) (w : Nat) : Bfs :=
  if !st.seen.contains w && !path.contains (v, w) then
    if edges.contains (v, w) || path.contains (w, v) then
      { q := st.q ++ [w], seen := insNat w st.seen, back := (w, v) :: st.back }
    else st
  else st

/-- `while let Some(v) = q.pop_front() { for … ; if back.contains_key(&sink) { break } }` -/
def bfs (edges path : List Edge) (nbrs : List (Nat × List Nat)) (sink : Nat) :
    Nat → Bfs → Outcome Bfs
  | 0, _ => .err
  | fuel + 1, st =>
    match st.q with
    | [] => .ok st
    | v :: q' =>
      match nbrs.lookup v with
      | none => .panic                       -- `neighbors[&v]` on a missing key
      | some ws =>
        let st' := ws.foldl (visit edges path v) { st with q := q' }
        if hasKey sink st'.back then .ok st' else bfs edges path nbrs sink fuel st'

/-- `while w != source { let v = back[&w]; toggle; w = v }` -/
def trace (back : List (Nat × Nat)) (source : Nat) :
    Nat → Nat → List Edge → Outcome (List Edge)
  | 0, _, _ => .err
  | fuel + 1, w, result =>
    if w = source then .ok result else
    match back.lookup w with
    | none => .panic                         -- `back[&w]` on a missing key
    | some v =>
      let result' :=
        if result.contains (w, v) then remEdge (w, v) result else insEdge (v, w) result
      trace back source fuel v result'

/-- `fn augment(edges, neighbors, source, sink, path_edges) -> (Option<BTreeSet<_>>, BTreeSet<usize>)` -/
def augment (edges : List Edge) (nbrs : List (Nat × List Nat)) (source sink : Nat)
    (path : List Edge) : Outcome (Option (List Edge) × List Nat) :=
  match bfs edges path nbrs sink (nbrs.length + 2) { q := [source], seen := [source], back := [] } with
  | .ok st =>
    if hasKey sink st.back then
      match trace st.back source (st.back.length + 1) sink path with
      | .ok result => .ok (some result, st.seen)
      | .err => .err
      | .panic => .panic
    else .ok (none, st.seen)
  | .err => .err
  | .panic => .panic

/-! ### edge cuts -/

structure EdgeCut where
  cut : List Edge
  inside : List Nat
  /-- not part of the Rust struct: the final `path_edges` (a maximum flow), exposed so
      that the driver can decompose it into disjoint paths (the minimality certificate) -/
  flow : List Edge
  deriving Repr

/-- the edges leaving `seen` -/
def leaving (edges : List Edge) (seen : List Nat) : List Edge :=
  edges.filter (fun e => seen.contains e.1 && !seen.contains e.2)

/-- the `loop { … }` of `min_edge_cut` -/
def cutLoop (edges : List Edge) (nbrs : List (Nat × List Nat)) (source sink : Nat) :
    Nat → List Edge → Outcome EdgeCut
  | 0, _ => .err
  | fuel + 1, path =>
    match augment edges nbrs source sink path with
    | .ok (some next, _) => cutLoop edges nbrs source sink fuel next
    | .ok (none, seen) => .ok { cut := leaving edges seen, inside := seen, flow := path }
    | .err => .err
    | .panic => .panic

/-- `pub fn min_edge_cut(edges, source, sink) -> EdgeCut` -/
def minEdgeCut (input : List Edge) (source sink : Nat) : Outcome EdgeCut :=
  let edges := edgeSet input
  let nbrs := byFirst (edges.flatMap (fun e => [(e.1, e.2), (e.2, e.1)]))
  cutLoop edges nbrs source sink (edges.length + 2) []

/-- the symmetrisation `flat_map(|(v,w)| [(v,w),(w,v)])` -/
def symm (input : List Edge) : List Edge := input.flatMap (fun e => [(e.1, e.2), (e.2, e.1)])

/-- `pub fn min_edge_cut_undirected` -/
def minEdgeCutUndirected (input : List Edge) (source sink : Nat) : Outcome EdgeCut :=
  minEdgeCut (edgeSet (symm input)) source sink

/-! ### vertex cuts -/

structure VertexCut where
  cut : List Nat
  inside : List Nat
  /-- final flow of the split graph and the offset used (for the certificate) -/
  flow : List Edge
  offset : Nat
  deriving Repr

/-- the split graph: `(v+offset, w)` per edge, then `(v, v+offset)` per vertex -/
def splitEdges (edges : List Edge) (vertices : List Nat) (offset : Nat) : List Edge :=
  edges.map (fun e => (e.1 + offset, e.2)) ++ vertices.map (fun v => (v, v + offset))

/-- `vertices.iter().max().unwrap_or(&0) + 1` -/
def offsetOf (vertices : List Nat) : Nat := vertices.foldl max 0 + 1

/-- `pub fn min_vertex_cut(edges, source, sink) -> VertexCut` -/
def minVertexCut (input : List Edge) (source sink : Nat) : Outcome VertexCut :=
  let edges := edgeSet input
  let vertices := natSet (edges.flatMap (fun e => [e.1, e.2]))
  let offset := offsetOf vertices
  match minEdgeCut (splitEdges edges vertices offset) (source + offset) sink with
  | .ok ec =>
    let cutV := ec.cut.map (fun e => min e.1 e.2)
    .ok { cut := cutV
          inside := ec.inside.filter (fun v => decide (v < offset) && !cutV.contains v)
          flow := ec.flow
          offset := offset }
  | .err => .err
  | .panic => .panic

/-- `pub fn min_vertex_cut_undirected` -/
def minVertexCutUndirected (input : List Edge) (source sink : Nat) : Outcome VertexCut :=
  minVertexCut (edgeSet (symm input)) source sink

end DSymVerif.Cut
