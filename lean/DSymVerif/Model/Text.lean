/-
Model of the text form of D-symbols:

* `DSet::fmt` of /repo/src/dsets.rs (shared by the four `Display` impls)            → `fmt`, `display`, `render`
* the nom grammar of /repo/src/parse_dsym.rs                                       → `lex`
* `impl FromStr for PartialDSym` of /repo/src/dsyms.rs, after the `fix:` commits
  for defect D1                                                                    → `fromSpec`, `parse`
* the same function as it stood on the pinned tree, with its panic branches        → `fromSpecPinned`

Executable, imports only other Model files.  `usize` is 64 bit (the harness target):
every place where the Rust code can overflow, index out of range, fail an `assert!`,
`unwrap` a `None` or request an impossible allocation is an explicit `Outcome.panic`.
-/
import DSymVerif.Model.DSym

namespace DSymVerif.Text
open DSymVerif DSymVerif.DS

/-- `usize::MAX + 1` -/
def usizeLimit : Nat := 2 ^ 64

/-- `vec![0usize; n]` panics with "capacity overflow" when `8 n > isize::MAX`, i.e. `n ≥ 2^60`.
    (Requests below that bound which the allocator refuses abort the process; the model does not
    describe the allocator — after the repair the request is bounded by twice the number of
    integers in the input text, see `Props/C01.lean`.) -/
def allocLimit : Nat := 2 ^ 60

/-- `parse_dsym::DSymSpec` -/
structure DSymSpec where
  setCount : Nat
  symCount : Nat
  size : Nat
  dim : Nat
  opSpec : List (List Nat)
  mSpec : List (List Nat)
  deriving Repr, DecidableEq, Inhabited

/-! ### Decimal printing (`write!(f, "{}", n)` for `usize`) -/

def digitChar (k : Nat) : Char := Char.ofNat (48 + k)

def natDigitsAux : Nat → Nat → List Char → List Char
  | 0, _, acc => acc
  | fuel + 1, n, acc =>
    if n < 10 then digitChar n :: acc
    else natDigitsAux fuel (n / 10) (digitChar (n % 10) :: acc)

def natDigits (n : Nat) : List Char := natDigitsAux (n + 1) n []

/-! ### `DSet::fmt` -/

/-- what `DSet::fmt` reads from `self` -/
structure Printable where
  setCount : Nat                              -- `self.set_count()`
  symCount : Nat                              -- `self.symbol_count()`
  size : Nat
  dim : Nat
  op : Nat → Nat → Option Nat                 -- `self.op(i, d)`
  reps : Nat → List Nat                       -- `self.orbit_reps_2d(i, i + 1)`
  m : Nat → Nat → Outcome (Option Nat)        -- `self.m(i, i + 1, d)`

/-- `if d > 1 { write!(f, " ") }` — keyed on the chamber, not on "first printed" -/
def sp (d : Nat) : List Char := if d > 1 then [' '] else []
/-- `if i > 0 { write!(f, ",") }` -/
def comma (i : Nat) : List Char := if i > 0 then [','] else []

def mapO {α β} (f : α → Outcome β) : List α → Outcome (List β)
  | [] => .ok []
  | x :: xs =>
    match f x with
    | .ok y =>
      (match mapO f xs with
       | .ok ys => .ok (y :: ys)
       | .err => .err
       | .panic => .panic)
    | .err => .err
    | .panic => .panic

/-- the images printed for index `i`: `(d, e)` for every chamber d with `e == 0 || e >= d` -/
def opRow (p : Printable) (i : Nat) : List (Nat × Nat) :=
  (List.range p.size).filterMap fun d0 =>
    let d := d0 + 1
    let e := (p.op i d).getD 0
    if e = 0 || e ≥ d then some (d, e) else none

/-- the degrees printed for index `i`: `(d, m(i,i+1,d).unwrap_or(0))` per representative -/
def degRow (p : Printable) (i : Nat) : Outcome (List (Nat × Nat)) :=
  mapO (fun d =>
    match p.m i d with
    | .ok x => .ok (d, x.getD 0)
    | .err => .err
    | .panic => .panic) (p.reps i)

def degRows (p : Printable) : Outcome (List (List (Nat × Nat))) :=
  mapO (degRow p) (List.range p.dim)

/-- one printed list: every entry preceded by a blank iff its chamber is > 1 -/
def fmtRow (row : List (Nat × Nat)) : List Char :=
  row.flatMap fun (d, x) => sp d ++ natDigits x

def fmtRows (rows : List (List (Nat × Nat))) : List Char :=
  rows.zipIdx.flatMap fun (row, i) => comma i ++ fmtRow row

def fmtHead (setCount symCount size dim : Nat) : List Char :=
  ['<'] ++ natDigits setCount ++ ['.'] ++ natDigits symCount ++ [':'] ++
  (if dim = 2 then natDigits size ++ [':']
   else natDigits size ++ [' '] ++ natDigits dim ++ [':'])

/-- `DSet::fmt` -/
def fmt (p : Printable) : Outcome (List Char) :=
  match degRows p with
  | .ok rows =>
    .ok (fmtHead p.setCount p.symCount p.size p.dim ++
         fmtRows ((List.range (p.dim + 1)).map (opRow p)) ++ [':'] ++ fmtRows rows ++ ['>'])
  | .err => .err
  | .panic => .panic

/-- the specification a printed text denotes (what the grammar reads back) -/
def display (p : Printable) : Outcome DSymSpec :=
  match degRows p with
  | .ok rows =>
    .ok { setCount := p.setCount, symCount := p.symCount, size := p.size, dim := p.dim,
          opSpec := (List.range (p.dim + 1)).map fun i => (opRow p i).map (·.2),
          mSpec := rows.map fun r => r.map (·.2) }
  | .err => .err
  | .panic => .panic

/-- canonical text of a specification: single blanks, no blank around punctuation -/
def renderList (xs : List Nat) : List Char :=
  match xs with
  | [] => []
  | x :: rest => natDigits x ++ rest.flatMap fun y => ' ' :: natDigits y

def renderLists (xss : List (List Nat)) : List Char :=
  match xss with
  | [] => []
  | xs :: rest => renderList xs ++ rest.flatMap fun ys => ',' :: renderList ys

def render (s : DSymSpec) : List Char :=
  fmtHead s.setCount s.symCount s.size s.dim ++ renderLists s.opSpec ++ [':'] ++
  renderLists s.mSpec ++ ['>']

/-- the four `Display` impls -/
def Printable.ofPartialDSet (ds : DSetData) : Printable :=
  { setCount := 1, symCount := 1, size := ds.size, dim := ds.dim, op := ds.opPartial,
    reps := fun i => ds.viewPartial.orbitReps2d i (i + 1),
    m := fun i d => .ok (ds.viewPartial.m i (i + 1) d) }

def Printable.ofSimpleDSet (ds : DSetData) (counter : Nat) : Printable :=
  { setCount := counter, symCount := 1, size := ds.size, dim := ds.dim, op := ds.opSimple,
    reps := fun i => ds.viewSimple.orbitReps2d i (i + 1),
    m := fun i d => .ok (ds.viewSimple.m i (i + 1) d) }

def Printable.ofPartialDSym (s : DSymData) (setCounter : Nat) : Printable :=
  { setCount := setCounter, symCount := 1, size := s.size, dim := s.dim, op := s.op,
    reps := fun i => s.view.orbitReps2d i (i + 1),
    m := fun i d => s.mPartial i (i + 1) d }

def Printable.ofSimpleDSym (s : DSymData) (setCounter symCounter : Nat) : Printable :=
  { setCount := setCounter, symCount := symCounter, size := s.size, dim := s.dim, op := s.op,
    reps := fun i => s.view.orbitReps2d i (i + 1),
    m := fun i d => s.mSimple i (i + 1) d }

/-! ### The grammar of parse_dsym.rs (nom 7.1.3, `complete` combinators on `&str`)

Every combinator fails with `Err::Error` only, so `alt` and `separated_list1`
backtrack exactly as written below.  `none` = the parser returned an error. -/

/-- `multispace`: blank, tab, CR, LF -/
def isWs (c : Char) : Bool := c = ' ' || c = '\t' || c = '\r' || c = '\n'
/-- `digit1` on `&str`: ASCII digits only -/
def isDigit (c : Char) : Bool := 48 ≤ c.toNat && c.toNat ≤ 57

/-- `ws0 = multispace0` -/
def ws0 (cs : List Char) : List Char := cs.dropWhile isWs

/-- `ws1 = multispace1` -/
def ws1 (cs : List Char) : Option (List Char) :=
  match cs with
  | c :: r => if isWs c then some (ws0 r) else none
  | [] => none

/-- `char(c)` -/
def chr (c : Char) (cs : List Char) : Option (List Char) :=
  match cs with
  | x :: r => if x = c then some r else none
  | [] => none

def digitsVal (ds : List Char) : Nat := ds.foldl (fun acc c => acc * 10 + (c.toNat - 48)) 0

/-- `integer = map_opt(digit1, |digits| digits.parse::<usize>().ok())`: a run of digits whose
    value does not fit `usize` makes the parser fail (and the enclosing `alt` /
    `separated_list1` backtrack). -/
def integer (cs : List Char) : Option (Nat × List Char) :=
  let ds := cs.takeWhile isDigit
  if ds.isEmpty then none
  else
    let v := digitsVal ds
    if v < usizeLimit then some (v, cs.dropWhile isDigit) else none

/-- `tuple((ws0, char(c), ws0))` -/
def punct (c : Char) (cs : List Char) : Option (List Char) :=
  match chr c (ws0 cs) with
  | some r => some (ws0 r)
  | none => none

/-- the `loop` of `separated_list1(ws1, integer)`; the fuel is the input length (every round
    consumes at least two characters) -/
def intListLoop : Nat → List Char → List Nat × List Char
  | 0, cs => ([], cs)
  | fuel + 1, cs =>
    match ws1 cs with
    | none => ([], cs)
    | some cs1 =>
      match integer cs1 with
      | none => ([], cs)                    -- the separator is given back
      | some (v, cs2) =>
        let r := intListLoop fuel cs2
        (v :: r.1, r.2)

/-- `int_list = separated_list1(ws1, integer)` -/
def intList (cs : List Char) : Option (List Nat × List Char) :=
  match integer cs with
  | none => none
  | some (v, cs1) =>
    let r := intListLoop cs1.length cs1
    some (v :: r.1, r.2)

def intListsLoop : Nat → List Char → List (List Nat) × List Char
  | 0, cs => ([], cs)
  | fuel + 1, cs =>
    match punct ',' cs with
    | none => ([], cs)
    | some cs1 =>
      match intList cs1 with
      | none => ([], cs)
      | some (l, cs2) =>
        let r := intListsLoop fuel cs2
        (l :: r.1, r.2)

/-- `int_lists = separated_list1(tuple((ws0, char(','), ws0)), int_list)` -/
def intLists (cs : List Char) : Option (List (List Nat) × List Char) :=
  match intList cs with
  | none => none
  | some (l, cs1) =>
    let r := intListsLoop cs1.length cs1
    some (l :: r.1, r.2)

/-- `counts = separated_pair(integer, char('.'), integer)` -/
def counts (cs : List Char) : Option ((Nat × Nat) × List Char) :=
  match integer cs with
  | none => none
  | some (a, cs1) =>
    match chr '.' cs1 with
    | none => none
    | some cs2 =>
      match integer cs2 with
      | none => none
      | some (b, cs3) => some ((a, b), cs3)

/-- `extents = alt((separated_pair(integer, ws1, integer), map(integer, |n| (n, 2))))` -/
def extents (cs : List Char) : Option ((Nat × Nat) × List Char) :=
  match integer cs with
  | none => none
  | some (a, cs1) =>
    let second : Option ((Nat × Nat) × List Char) := some ((a, 2), cs1)
    match ws1 cs1 with
    | none => second
    | some cs2 =>
      match integer cs2 with
      | none => second
      | some (b, cs3) => some ((a, b), cs3)

/-- `dsymbol`; the rest of the input after `ws0 '>' ws0` is discarded by `from_str`
    (`let (_, spec) = parse_dsymbol(s)?`), so trailing text is allowed. -/
def lex (cs : List Char) : Option DSymSpec :=
  match punct '<' cs with
  | none => none
  | some c1 =>
    match counts c1 with
    | none => none
    | some ((setCount, symCount), c2) =>
      match punct ':' c2 with
      | none => none
      | some c3 =>
        match extents c3 with
        | none => none
        | some ((size, dim), c4) =>
          match punct ':' c4 with
          | none => none
          | some c5 =>
            match intLists c5 with
            | none => none
            | some (opSpec, c6) =>
              match punct ':' c6 with
              | none => none
              | some c7 =>
                match intLists c7 with
                | none => none
                | some (mSpec, c8) =>
                  match punct '>' c8 with
                  | none => none
                  | some _ => some { setCount, symCount, size, dim, opSpec, mSpec }

/-! ### `PartialDSet` with machine arithmetic and checked indexing -/

/-- `PartialDSet::new(size, dim)`: two asserts, `dim + 1`, `size * (dim + 1)`, the allocation -/
def newC (size dim : Nat) : Outcome DSetData :=
  if size < 1 || dim < 1 then .panic
  else if dim + 1 ≥ usizeLimit then .panic
  else if size * (dim + 1) ≥ usizeLimit then .panic
  else if size * (dim + 1) ≥ allocLimit then .panic
  else .ok { size := size, dim := dim, op := Array.replicate (size * (dim + 1)) 0 }

/-- `op_unchecked(i, d)` = `self.op[(d - 1) * (self.dim + 1) + i]` (subtraction and index checked) -/
def opC (s : DSetData) (i d : Nat) : Outcome Nat :=
  if d < 1 then .panic
  else
    match s.op[s.idx i d]? with
    | some x => .ok x
    | none => .panic

/-- `PartialDSet::set(i, d, e)`: three range asserts, two consistency asserts, checked indexing -/
def setC (s : DSetData) (i d e : Nat) : Outcome DSetData :=
  if !(i ≤ s.dim) then .panic
  else if !(1 ≤ d && d ≤ s.size) then .panic
  else if !(1 ≤ e && e ≤ s.size) then .panic
  else
    match s.op[s.idx i d]?, s.op[s.idx i e]? with
    | some di, some ei =>
      if di ≠ 0 && di ≠ e then .panic
      else if ei ≠ 0 && ei ≠ d then .panic
      else .ok { s with op := (s.op.setIfInBounds (s.idx i d) e).setIfInBounds (s.idx i e) d }
    | _, _ => .panic

/-- `PartialDSym::from(dset)` = `SimpleDSet::from(dset).into()`: asserts completeness, then
    `collect_orbits` (which allocates `size + 1` entries per index) -/
def ofPartialC (ds : DSetData) : Outcome DSymData :=
  if ds.size + 1 ≥ allocLimit then .panic
  else DSymData.ofPartial ds

/-- `usize::div_ceil(2)` -/
def divCeil2 (n : Nat) : Nat := n / 2 + (if n % 2 > 0 then 1 else 0)

/-- `usize::checked_add` -/
def checkedAdd (a b : Nat) : Option Nat := if a + b < usizeLimit then some (a + b) else none

/-! ### `FromStr` after the repair of D1

`op_i.get(k)` with the running `k` is modelled by the not yet consumed suffix `rest` of the
list (`get(k) = rest.head?`, `k += 1` = `tail`, `k < op_i.len()` = `rest ≠ []`). -/

/-- `for d in 1..=spec.size { if dset.op_unchecked(i, d) == 0 { … } }`, chambers d, d+1, … (n left) -/
def opLoop (i : Nat) : Nat → Nat → DSetData → List Nat → Outcome (DSetData × List Nat)
  | 0, _, ds, rest => .ok (ds, rest)
  | n + 1, d, ds, rest =>
    match opC ds i d with
    | .ok x =>
      if x = 0 then
        match rest with
        | [] => .err                                        -- "incomplete op spec"
        | di :: rest' =>
          if di < 1 || di > ds.size then .err               -- "op image out of range"
          else
            match opC ds i di with
            | .ok y =>
              if y ≠ 0 then .err                            -- "inconsistent op spec"
              else
                match setC ds i d di with
                | .ok ds' => opLoop i n (d + 1) ds' rest'
                | .err => .err
                | .panic => .panic
            | .err => .err
            | .panic => .panic
      else opLoop i n (d + 1) ds rest
    | .err => .err
    | .panic => .panic

/-- `for i in 0..=spec.dim { let op_i = spec.op_spec.get(i).unwrap(); … }` -/
def opOuter (spec : DSymSpec) : Nat → Nat → DSetData → Outcome DSetData
  | 0, _, ds => .ok ds
  | n + 1, i, ds =>
    match spec.opSpec[i]? with
    | none => .panic                                        -- `.unwrap()`
    | some opI =>
      match opLoop i spec.size 1 ds opI with
      | .ok (ds', rest) =>
        if rest ≠ [] then .err                              -- "unused data in op spec"
        else opOuter spec n (i + 1) ds'
      | .err => .err
      | .panic => .panic

/-- the degree loop for index i: one entry per (i,i+1)-orbit, taken at the first chamber of the
    orbit (the order in which `DSet::fmt` prints them) -/
def degLoop (i : Nat) : Nat → Nat → DSymData → Array Bool → List Nat →
    Outcome (DSymData × Array Bool × List Nat)
  | 0, _, s, seen, rest => .ok (s, seen, rest)
  | n + 1, d, s, seen, rest =>
    match s.oix i d with                                    -- `dsym.orbit_index[i][d]`
    | .ok orb =>
      (match seen[orb]? with
       | none => .panic
       | some true => degLoop i n (d + 1) s seen rest
       | some false =>
         let seen := seen.setIfInBounds orb true
         match rest with
         | [] => .err                                       -- "incomplete degree spec"
         | m :: rest' =>
           match s.rPartial i (i + 1) d with                -- `dsym.r(i, i + 1, d).unwrap()`
           | .ok (some r) =>
             if r = 0 then .panic                           -- `m % r`
             else if m % r ≠ 0 then .err                    -- "illegal degree value"
             else
               match s.setV i d (m / r) with
               | .ok s' => degLoop i n (d + 1) s' seen rest'
               | .err => .err
               | .panic => .panic
           | .ok none => .panic
           | .err => .err
           | .panic => .panic)
    | .err => .err
    | .panic => .panic

def degOuter (spec : DSymSpec) : Nat → Nat → DSymData → Array Bool → Outcome DSymData
  | 0, _, s, _ => .ok s
  | n + 1, i, s, seen =>
    match spec.mSpec[i]? with
    | none => .panic                                        -- `.unwrap()`
    | some msI =>
      match degLoop i spec.size 1 s seen msI with
      | .ok (s', seen', rest) =>
        if rest ≠ [] then .err                              -- "unused data in degree spec"
        else degOuter spec n (i + 1) s' seen'
      | .err => .err
      | .panic => .panic

/-- `<PartialDSym as FromStr>::from_str` after the grammar, repaired version -/
def fromSpec (spec : DSymSpec) : Outcome DSymData :=
  if spec.size < 1 then .err
  else if spec.dim < 1 then .err
  else if some spec.opSpec.length ≠ checkedAdd spec.dim 1 then .err
  else if spec.mSpec.length ≠ spec.dim then .err
  else if spec.opSpec.any (fun l => l.length < divCeil2 spec.size) then .err
  else
    match newC spec.size spec.dim with
    | .ok ds0 =>
      (match opOuter spec (spec.dim + 1) 0 ds0 with
       | .ok ds =>
         (match ofPartialC ds with
          | .ok sym0 => degOuter spec spec.dim 0 sym0 (Array.replicate sym0.orbitRs.size false)
          | .err => .err
          | .panic => .panic)
       | .err => .err
       | .panic => .panic)
    | .err => .err
    | .panic => .panic

/-- `s.parse::<PartialDSym>()` -/
def parse (cs : List Char) : Outcome DSymData :=
  match lex cs with
  | none => .err
  | some spec => fromSpec spec

/-! ### `FromStr` as on the pinned tree (defect D1), kept for the documented counter-examples -/

def opLoopPinned (i : Nat) : Nat → Nat → DSetData → List Nat → Outcome (DSetData × List Nat)
  | 0, _, ds, rest => .ok (ds, rest)
  | n + 1, d, ds, rest =>
    match opC ds i d with
    | .ok x =>
      if x = 0 then
        match rest with
        | [] => .err
        | di :: rest' =>
          match setC ds i d di with                          -- asserts instead of `Err`
          | .ok ds' => opLoopPinned i n (d + 1) ds' rest'
          | .err => .err
          | .panic => .panic
      else opLoopPinned i n (d + 1) ds rest
    | .err => .err
    | .panic => .panic

def opOuterPinned (spec : DSymSpec) : Nat → Nat → DSetData → Outcome DSetData
  | 0, _, ds => .ok ds
  | n + 1, i, ds =>
    match spec.opSpec[i]? with
    | none => .panic
    | some opI =>
      match opLoopPinned i spec.size 1 ds opI with
      | .ok (ds', rest) => if rest ≠ [] then .err else opOuterPinned spec n (i + 1) ds'
      | .err => .err
      | .panic => .panic

/-- pinned degree loop: a chamber asks for an entry whenever `v(i, i+1, d) == Some(0)`, so a
    degree 0 leaves the orbit "open" and its next chamber consumes another entry -/
def degLoopPinned (i : Nat) : Nat → Nat → DSymData → List Nat → Outcome (DSymData × List Nat)
  | 0, _, s, rest => .ok (s, rest)
  | n + 1, d, s, rest =>
    match s.vPartial i (i + 1) d with
    | .ok (some 0) =>
      (match rest with
       | [] => .err
       | m :: rest' =>
         match s.rPartial i (i + 1) d with
         | .ok (some r) =>
           if r = 0 then .panic
           else if m % r ≠ 0 then .err
           else
             match s.setV i d (m / r) with
             | .ok s' => degLoopPinned i n (d + 1) s' rest'
             | .err => .err
             | .panic => .panic
         | .ok none => .panic
         | .err => .err
         | .panic => .panic)
    | .ok _ => degLoopPinned i n (d + 1) s rest
    | .err => .err
    | .panic => .panic

def degOuterPinned (spec : DSymSpec) : Nat → Nat → DSymData → Outcome DSymData
  | 0, _, s => .ok s
  | n + 1, i, s =>
    match spec.mSpec[i]? with
    | none => .panic
    | some msI =>
      match degLoopPinned i spec.size 1 s msI with
      | .ok (s', rest) => if rest ≠ [] then .err else degOuterPinned spec n (i + 1) s'
      | .err => .err
      | .panic => .panic

def fromSpecPinned (spec : DSymSpec) : Outcome DSymData :=
  if spec.size < 1 then .err
  else if spec.dim < 1 then .err
  else if spec.dim + 1 ≥ usizeLimit then .panic              -- `spec.dim as usize + 1`
  else if spec.opSpec.length ≠ spec.dim + 1 then .err
  else if spec.mSpec.length ≠ spec.dim then .err
  else
    match newC spec.size spec.dim with
    | .ok ds0 =>
      (match opOuterPinned spec (spec.dim + 1) 0 ds0 with
       | .ok ds =>
         (match ofPartialC ds with
          | .ok sym0 => degOuterPinned spec spec.dim 0 sym0
          | .err => .err
          | .panic => .panic)
       | .err => .err
       | .panic => .panic)
    | .err => .err
    | .panic => .panic

def parsePinned (cs : List Char) : Outcome DSymData :=
  match lex cs with
  | none => .err
  | some spec => fromSpecPinned spec

end DSymVerif.Text
