/-
Model of `delaney2d::toroidal_cover` (/repo/src/delaney2d.rs) and of the pseudo-toroidal cover
part of /repo/src/delaney3d.rs: `point_groups`, `core_type_by_size`, `is_fully_involutive`,
`core_type`, `degree`, `flattens_all`, `construct_candidates`, `pseudo_toroidal_cover`.
Executable, no Mathlib; imports only other models and the GENERATED tables (so that the
literal tables are those of the source on every run).

The two cover functions are compositions of functions modelled elsewhere:
`oriented_cover`, `cover` (Model/DSym), `fundamental_group` (Model/FundGroup), `coset_tables`
(Model/LowIndex), `core_table`, `intersection_table`, `stabilizer` (Model/Stabilizer),
`abelian_invariants` (Model/Invariants), `cover_for_table` (Model/Covers), `orbit_types_2d`,
`is_euclidean` (Model/Delaney2d).

Conventions: `panic!`, failed `assert!`, `unwrap()` on `None`, a missing map key → `Outcome.panic`;
`Outcome.err` = model fuel exhausted (stands for non-termination of the Rust loop).
`BTreeMap<String, Vec<CosetTable>>` is only probed by key → association list.
The literals of the second loop of `construct_candidates` (3, 6, 12, 2, "z6", "d6", cone
degrees 2 and 3) and the target `[0, 0, 0]` are restated by hand.
-/
import DSymVerif.Model.DSym
import DSymVerif.Model.FundGroup
import DSymVerif.Model.Cosets
import DSymVerif.Model.LowIndex
import DSymVerif.Model.Stabilizer
import DSymVerif.Model.Invariants
import DSymVerif.Model.Covers
import DSymVerif.Model.CoversAll
import DSymVerif.Model.Delaney2d
import DSymVerif.Generated.Tables

namespace DSymVerif.D3
open DSymVerif DSymVerif.DS DSymVerif.Cosets

/-! ### constant tables -/

/-- `point_groups()` -/
def pointGroups : List String := Tables.pointGroups

/-- `core_type_by_size(n)`; the `_ => panic!()` arm -/
def coreTypeBySize (n : Nat) : Outcome String :=
  match Tables.coreTypeBySize.find? (fun p => p.1 == n) with
  | some p => .ok p.2
  | none => .panic

/-! ### coset tables as public views

A `CosetTable` value is read by this module only through `get`, `len` and `nr_gens` — its public
view.  As in the models and theorems of C11–C13 (whose statements are about `Table.ofView n tab`)
and in their correspondence harnesses (which transmit tables as views), a table is carried here
as its view `tab : Tab` (one row per coset, the images under `all_gens()` in that order) and
handed to a table model as `tbl n tab = Table.ofView n tab`, the `CosetTable` value with that
view and no pending coincidences (the shape `compact()` returns).  `tabOf` takes the view of a
table a model returned. -/

abbrev Tab := Array (Array Int)

/-- the `CosetTable` value with public view `tab` -/
def tbl (n : Nat) (tab : Tab) : Table := Table.ofView n tab

/-- the public view of a table -/
def tabOf (t : Table) : Outcome Tab :=
  match t.view with
  | .ok v => .ok (v.map List.toArray).toArray
  | .err => .err
  | .panic => .panic

/-! ### tables as permutation actions -/

/-- the double loop of `is_fully_involutive` over (row, letter) in loop order -/
def involutiveLoop (get : Nat → Int → Outcome (Option Nat)) : List (Nat × Int) → Outcome Bool
  | [] => .ok true
  | (row, g) :: rest =>
    match get row g, get row (-g) with
    | .ok a, .ok b => if a != b then .ok false else involutiveLoop get rest
    | .panic, _ => .panic
    | _, .panic => .panic
    | _, _ => .err

def rowLetterPairs (len : Nat) (gens : List Int) : List (Nat × Int) :=
  (List.range len).flatMap fun row => gens.map fun g => (row, g)

/-- `is_fully_involutive(ct)` -/
def isFullyInvolutive (n : Nat) (ct : Tab) : Outcome Bool :=
  involutiveLoop (tbl n ct).get (rowLetterPairs ct.size (allGensOf n))

/-- `core_type(ct)` -/
def coreType (n : Nat) (ct : Tab) : Outcome String :=
  if ct.size = Tables.coreTypeSpecialSize then
    match isFullyInvolutive n ct with
    | .ok true => .ok Tables.coreTypeSpecialNames.1
    | .ok false => .ok Tables.coreTypeSpecialNames.2
    | .err => .err
    | .panic => .panic
  else coreTypeBySize ct.size

/-- `w.iter().fold(row, |a, g| ct.get(a, *g).unwrap())` -/
def traceRow (get : Nat → Int → Outcome (Option Nat)) (row : Nat) (w : List Int) : Outcome Nat :=
  w.foldl (fun (acc : Outcome Nat) g =>
    match acc with
    | .ok a =>
      (match get a g with
       | .ok (some r) => .ok r
       | .ok none => .panic
       | .err => .err
       | .panic => .panic)
    | o => o) (.ok row)

/-- the lazy chain `successors(Some((0,0)), …).skip(1).skip_while(row != 0).map(i).next().unwrap()`:
    `i` rounds done, current `row`; the iterator has no bound — `fuel` rounds at most,
    exhaustion = `.err` (non-termination) -/
def degreeLoop (step : Nat → Outcome Nat) : Nat → Nat → Nat → Outcome Nat
  | 0, _, _ => .err
  | fuel + 1, i, row =>
    match step row with
    | .ok r => if r = 0 then .ok (i + 1) else degreeLoop step fuel (i + 1) r
    | .err => .err
    | .panic => .panic

/-- `degree` over any `get`; `len` rounds suffice when `w` acts as a permutation of `len` rows
    (`Props/C15.degree_spec`) -/
def degreeOf (get : Nat → Int → Outcome (Option Nat)) (len : Nat) (w : List Int) : Outcome Nat :=
  degreeLoop (fun row => traceRow get row w) len 0 0

/-- `degree(ct, w)` -/
def degree (n : Nat) (ct : Tab) (w : List Int) : Outcome Nat := degreeOf (tbl n ct).get ct.size w

/-- `cones.iter().all(|(wd, deg)| degree(ct, wd) == *deg)` (short-circuit) -/
def flattensAll (n : Nat) (ct : Tab) : List (List Int × Nat) → Outcome Bool
  | [] => .ok true
  | (wd, deg) :: rest =>
    match degree n ct wd with
    | .ok k => if k = deg then flattensAll n ct rest else .ok false
    | .err => .err
    | .panic => .panic

/-! ### construct_candidates -/

abbrev Candidates := List (String × List Tab)

/-- `result.get_mut(name).unwrap().push(t)` -/
def candPush (c : Candidates) (name : String) (t : Tab) : Outcome Candidates :=
  if c.any (fun e => e.1 == name) then
    .ok (c.map fun e => if e.1 == name then (e.1, e.2 ++ [t]) else e)
  else .panic

/-- `candidates[&name]` -/
def candGet (c : Candidates) (name : String) : Outcome (List Tab) :=
  match c.find? (fun e => e.1 == name) with
  | some e => .ok e.2
  | none => .panic

/-- search-node budget for the model of `coset_tables` (the Rust iterator has none): C12's
    `searchFuel`, which provably exhausts the search tree (`CanonP.cosetTables_fuel_adequate`); the
    iterator model stops on the empty stack, so the size of the number costs nothing -/
def nodeFuel (nrGens maxRows : Nat) : Nat := searchFuel nrGens maxRows

/-- `core_table(&ct)` on views -/
def coreTab (n : Nat) (ct : Tab) : Outcome Tab :=
  match Stab.coreTable (tbl n ct) with
  | .ok c => tabOf c
  | .err => .err
  | .panic => .panic

/-- `intersection_table(ta, tb)` on views -/
def interTab (n : Nat) (ta tb : Tab) : Outcome Tab :=
  match Stab.intersectionTable (tbl n ta) (tbl n tb) with
  | .ok c => tabOf c
  | .err => .err
  | .panic => .panic

/-- `coset_tables(nr_gens, rels, max).map(|ct| core_table(&ct)).collect()` -/
def coreTables (n : Nat) : List (Outcome Table) → Outcome (List Tab)
  | [] => .ok []
  | .ok t :: rest =>
    match tabOf t with
    | .ok ct =>
      (match coreTab n ct with
       | .ok c =>
         (match coreTables n rest with
          | .ok cs => .ok (c :: cs)
          | .err => .err
          | .panic => .panic)
       | .err => .err
       | .panic => .panic)
    | .err => .err
    | .panic => .panic
  | .err :: _ => .err
  | .panic :: _ => .panic

/-- first loop: `if flattens_all(table, &cones) { result[core_type(table)].push(table) }` -/
def firstLoop (n : Nat) (cones : List (List Int × Nat)) : List Tab → Candidates → Outcome Candidates
  | [], c => .ok c
  | t :: rest, c =>
    match flattensAll n t cones with
    | .ok true =>
      (match coreType n t with
       | .ok name =>
         (match candPush c name t with
          | .ok c' => firstLoop n cones rest c'
          | .err => .err
          | .panic => .panic)
       | .err => .err
       | .panic => .panic)
    | .ok false => firstLoop n cones rest c
    | .err => .err
    | .panic => .panic

/-- body of the inner loop for one pair (ta, tb) -/
def pairStep (n : Nat) (cones cones2 : List (List Int × Nat)) (ta tb : Tab) (c : Candidates) :
    Outcome Candidates :=
  match interTab n ta tb with
  | .ok tx =>
    (match flattensAll n tx cones with
     | .ok true =>
       if ta.size = 3 ∧ tx.size = 6 then
         (match flattensAll n tb cones2 with
          | .ok true => candPush c "z6" tx
          | .ok false => .ok c
          | .err => .err
          | .panic => .panic)
       else if ta.size = 6 ∧ tx.size = 12 then
         (match flattensAll n tb cones2 with
          | .ok true => .ok c
          | .ok false => candPush c "d6" tx
          | .err => .err
          | .panic => .panic)
       else .ok c
     | .ok false => .ok c
     | .err => .err
     | .panic => .panic)
  | .err => .err
  | .panic => .panic

def innerLoop (n : Nat) (cones cones2 : List (List Int × Nat)) (ta : Tab) :
    List Tab → Candidates → Outcome Candidates
  | [], c => .ok c
  | tb :: rest, c =>
    if tb.size = 2 then
      match pairStep n cones cones2 ta tb c with
      | .ok c' => innerLoop n cones cones2 ta rest c'
      | .err => .err
      | .panic => .panic
    else innerLoop n cones cones2 ta rest c

/-- second loop: `for ta in core_tables.filter(flattens_all(_, cones3)) { for tb in … } }` -/
def secondLoop (n : Nat) (cones cones2 cones3 : List (List Int × Nat)) (all : List Tab) :
    List Tab → Candidates → Outcome Candidates
  | [], c => .ok c
  | ta :: rest, c =>
    match flattensAll n ta cones3 with
    | .ok true =>
      (match innerLoop n cones cones2 ta all c with
       | .ok c' => secondLoop n cones cones2 cones3 all rest c'
       | .err => .err
       | .panic => .panic)
    | .ok false => secondLoop n cones cones2 cones3 all rest c
    | .err => .err
    | .panic => .panic

/-- `construct_candidates(fg)` -/
def constructCandidates (fg : FG.FundGroup) : Outcome Candidates :=
  let nrGens := fg.genToEdge.length
  let cones := fg.cones
  match coreTables nrGens (cosetTables nrGens fg.relators Tables.candidateIndexBound (nodeFuel nrGens Tables.candidateIndexBound)) with
  | .ok cts =>
    let cones2 := cones.filter (fun c => c.2 == 2)
    let cones3 := cones.filter (fun c => c.2 == 3)
    let init : Candidates := pointGroups.map fun p => (p, [])
    (match firstLoop nrGens cones cts init with
     | .ok c1 => secondLoop nrGens cones cones2 cones3 cts cts c1
     | .err => .err
     | .panic => .panic)
  | .err => .err
  | .panic => .panic

/-! ### pseudo_toroidal_cover -/

/-- the public view of a `CosetTable` as the plain table `cover_for_table` reads through `get` -/
def tableData (t : Table) : Covers.Table :=
  { nrGens := t.nrGens
    rows := ((List.range t.len).map fun c =>
      ((List.range (2 * t.nrGens + 1)).map fun (j : Nat) =>
        let g : Int := (j : Int) - (t.nrGens : Int)
        if g = 0 then (-1 : Int) else
        match t.get c g with
        | .ok (some d) => (d : Int)
        | _ => (-1 : Int)).toArray).toArray }

/-- the assertion loop: every branching number `v ≤ 6 && v != 5` -/
def crystLoop (s : DSymData) (i : Nat) : List Nat → Outcome Unit
  | [] => .ok ()
  | d :: rest =>
    match s.vPartial i (i + 1) d with
    | .ok (some v) =>
      if v ≤ Tables.crystMax ∧ v ≠ Tables.crystExcluded then crystLoop s i rest else .panic
    | .ok none => .panic
    | .err => .err
    | .panic => .panic

def crystCheck (s : DSymData) : List Nat → Outcome Unit
  | [] => .ok ()
  | i :: rest =>
    match crystLoop s i (s.view.orbitReps2d i (i + 1)) with
    | .ok () => crystCheck s rest
    | .err => .err
    | .panic => .panic

/-- `stabilizer(0, rels, table)` followed by `abelian_invariants(sgens.len(), &srels)` -/
def stabilizerInvariants (n : Nat) (rels : List (List Int)) (t : Tab) : Outcome (List Nat) :=
  match Stab.stabilizer 0 rels (tbl n t) with
  | .ok (sgens, srels) => Inv.abelianInvariants sgens.length srels
  | .err => .err
  | .panic => .panic

/-- `for table in candidates[&tp].iter() { … if inv == [0,0,0] { return Some(..) } }` -/
def firstTorusTable (n : Nat) (rels : List (List Int)) : List Tab → Outcome (Option Tab)
  | [] => .ok none
  | t :: rest =>
    match stabilizerInvariants n rels t with
    | .ok inv => if inv = [0, 0, 0] then .ok (some t) else firstTorusTable n rels rest
    | .err => .err
    | .panic => .panic

def groupLoop (n : Nat) (rels : List (List Int)) (cands : Candidates) : List String → Outcome (Option Tab)
  | [] => .ok none
  | tp :: rest =>
    match candGet cands tp with
    | .ok ts =>
      (match firstTorusTable n rels ts with
       | .ok (some t) => .ok (some t)
       | .ok none => groupLoop n rels cands rest
       | .err => .err
       | .panic => .panic)
    | .err => .err
    | .panic => .panic

/-- `pseudo_toroidal_cover(ds)` for `ds: &PartialDSym`; `.ok none` = `None` -/
def pseudoToroidalCover (s : DSymData) : Outcome (Option DSymData) :=
  if s.dim ≠ 3 then .panic
  else if !s.isCompletePartial then .panic
  else
    match crystCheck s (List.range s.dim) with
    | .ok () =>
      (match orientedCover s with
       | .ok oc =>
         (match FG.fundamentalGroup oc with
          | .ok fg =>
            (match constructCandidates fg with
             | .ok cands =>
               (match groupLoop fg.genToEdge.length fg.relators cands pointGroups with
                | .ok (some t) =>
                  (match Covers.coverForTable oc (tableData (tbl fg.genToEdge.length t)) fg.edgeToWord with
                   | .ok c => .ok (some c)
                   | .err => .err
                   | .panic => .panic)
                | .ok none => .ok none
                | .err => .err
                | .panic => .panic)
             | .err => .err
             | .panic => .panic)
          | .err => .err
          | .panic => .panic)
       | .err => .err
       | .panic => .panic)
    | .err => .err
    | .panic => .panic

/-! ### delaney2d::toroidal_cover -/

/-- `covers(ds, max_deg)`: the wired, fuel-free model of C05 (Model/CoversAll.lean:
    `fundamental_group`, then one `cover_for_table` per table yielded by `coset_tables`, run with
    C12's `searchFuel`, on the model of `CosetTable` itself) -/
def covers (s : DSymData) (maxDeg : Nat) : Outcome (List DSymData) :=
  Covers.coversAll s maxDeg

/-- the search `for cov in covers(ds, degree) { if all v == 1 { return cov } }` -/
def firstFlat : List DSymData → Outcome DSymData
  | [] => .panic        -- "symbol is 2d euclidean, should have found a toroidal cover"
  | c :: rest =>
    match D2.orbitTypes2d ⟨c, .partialSym⟩ with
    | .ok ts => if ts.all (fun t => t.1 == 1) then .ok c else firstFlat rest
    | .err => .err
    | .panic => .panic

/-- `orbit_types_2d(ds).iter().map(|&(v, _)| v).max().unwrap_or(1)` -/
def coverDegree (ts : List (Nat × Bool)) : Nat :=
  if ts.isEmpty then 1 else ts.foldl (fun m t => max m t.1) 0

/-- `toroidal_cover(ds)` for `ds: &PartialDSym` -/
def toroidalCover (s : DSymData) : Outcome DSymData :=
  if s.dim ≠ 2 then .panic
  else
    match D2.isEuclidean ⟨s, .partialSym⟩ with
    | .ok true =>
      (match orientedCover s with
       | .ok oc =>
         (match D2.orbitTypes2d ⟨oc, .partialSym⟩ with
          | .ok ts =>
            (match covers oc (coverDegree ts) with
             | .ok cs => firstFlat cs
             | .err => .err
             | .panic => .panic)
          | .err => .err
          | .panic => .panic)
       | .err => .err
       | .panic => .panic)
    | .ok false => .panic
    | .err => .err
    | .panic => .panic

end DSymVerif.D3
