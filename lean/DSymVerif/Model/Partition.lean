/-
Model of /repo/src/util/partitions.rs  (import-free, executable).

`IntPartitionImpl { rank: Vec<usize>, parent: Vec<usize> }` is `Forest`; the generic
`PartitionImpl<T> { index: HashMap<T,usize>, elements: Vec<T>, rank, parent }` is `GPart`
(keys `T` travel as natural numbers in the protocol; the `HashMap` is an association
list with unique keys, looked up by key only).  Every Rust function is re-stated
statement by statement:

* the two `while` loops of `root_index` are structural recursions on a fuel argument;
  `Outcome.err` is used for exactly one thing in this file: *fuel exhausted* (the Rust
  loop would still be running).  `Props/C20.root_terminates` proves it is never
  returned from a well-formed forest, i.e. the fuel `max rank + 1` always suffices;
* every `self.parent[i]` / `self.rank[i]` / `self.elements[i]` / `classes[i]` with `i`
  out of range is `Outcome.panic`, never a default value;
* `&mut self` is a returned value; `find(&self)` of the `UnsafeCell` wrappers mutates the
  forest (path compression), so `find` returns the new state together with the answer;
* `Clone` is value copy (`Store.clone`); that the `UnsafeCell`-based manual `Clone`
  really behaves as a value copy is what the differential run observes.

usize arithmetic: `rx + 1` cannot overflow for ranks (rank ≤ log₂ size); elements are
< 2^32 in every explored universe, so `parent.len()..=a` is modelled on `Nat`.
-/
import DSymVerif.Model.Outcome

namespace DSymVerif.Part

/-- `IntPartitionImpl` (also the forest part of `PartitionImpl<T>`). -/
structure Forest where
  parent : Array Nat
  rank : Array Nat
  deriving Repr

/-- `IntPartitionImpl::new` -/
def Forest.new : Forest := ⟨#[], #[]⟩

/-- `for i in self.parent.len()..=a { self.parent.push(i); self.rank.push(0); }`
    — `n` iterations left, loop variable `i`. -/
def extendLoop : Nat → Nat → Forest → Forest
  | 0, _, f => f
  | n + 1, i, f => extendLoop n (i + 1) ⟨f.parent.push i, f.rank.push 0⟩

/-- the range `len..=a` is evaluated once: it has `a + 1 - len` elements. -/
def extend (f : Forest) (a : Nat) : Forest :=
  extendLoop (a + 1 - f.parent.size) f.parent.size f

/-- modelling device only: an upper bound for the number of loop iterations. -/
def maxRank (f : Forest) : Nat := f.rank.toList.foldr Nat.max 0

/-- `while self.parent[root] != root { root = self.parent[root]; }` -/
def findRoot (p : Array Nat) : Nat → Nat → Outcome Nat
  | 0, _ => .err
  | fuel + 1, root =>
    if h : root < p.size then
      if p[root] = root then .ok root else findRoot p fuel p[root]
    else .panic

/-- `while x != root { let t = x; x = self.parent[x]; self.parent[t] = root; }` -/
def compress (root : Nat) : Nat → Array Nat → Nat → Outcome (Array Nat)
  | 0, _, _ => .err
  | fuel + 1, p, x =>
    if x = root then .ok p
    else if h : x < p.size then compress root fuel (p.set x root h) p[x]
    else .panic

/-- the two loops of `root_index` (shared by both implementations). -/
def rootWalk (f : Forest) (a : Nat) : Outcome (Forest × Nat) :=
  match findRoot f.parent (maxRank f + 1) a with
  | .ok root =>
    match compress root (maxRank f + 1) f.parent a with
    | .ok p => .ok (⟨p, f.rank⟩, root)
    | .err => .err
    | .panic => .panic
  | .err => .err
  | .panic => .panic

/-- the body of `unite` after the two `root_index` calls:
    `if x != y { rank rule }` -/
def link (f : Forest) (x y : Nat) : Outcome Forest :=
  if x = y then .ok f
  else if hx : x < f.rank.size then
    if hy : y < f.rank.size then
      if f.rank[x] < f.rank[y] then
        if hx' : x < f.parent.size then .ok ⟨f.parent.set x y hx', f.rank⟩ else .panic
      else
        if f.rank[x] = f.rank[y] then
          if hy' : y < f.parent.size then
            .ok ⟨f.parent.set y x hy', f.rank.set x (f.rank[x] + 1) hx⟩
          else .panic
        else
          if hy' : y < f.parent.size then .ok ⟨f.parent.set y x hy', f.rank⟩ else .panic
    else .panic
  else .panic

/-! ### IntPartitionImpl -/
namespace IntP

/-- `IntPartitionImpl::root_index` -/
def rootIndex (f : Forest) (a : Nat) : Outcome (Forest × Nat) := rootWalk (extend f a) a

/-- `IntPartitionImpl::find` = `IntPartition::find(&self)` -/
def find (f : Forest) (a : Nat) : Outcome (Forest × Nat) := rootIndex f a

/-- `IntPartitionImpl::unite` = `IntPartition::unite(&mut self)` -/
def unite (f : Forest) (a b : Nat) : Outcome Forest :=
  match rootIndex f a with
  | .ok (f1, x) =>
    match rootIndex f1 b with
    | .ok (f2, y) => link f2 x y
    | .err => .err
    | .panic => .panic
  | .err => .err
  | .panic => .panic

end IntP

/-! ### PartitionImpl<T> -/

/-- `HashMap::get` on an association list -/
def lookup : List (Nat × Nat) → Nat → Option Nat
  | [], _ => none
  | (k, v) :: m, a => if k = a then some v else lookup m a

structure GPart where
  index : List (Nat × Nat)
  elements : Array Nat
  forest : Forest
  deriving Repr

namespace GPart

/-- `PartitionImpl::new` -/
def new : GPart := ⟨[], #[], Forest.new⟩

/-- `PartitionImpl::get_index` -/
def getIndex (g : GPart) (a : Nat) : GPart × Nat :=
  match lookup g.index a with
  | some x => (g, x)
  | none =>
    let i := g.elements.size
    (⟨(a, i) :: g.index, g.elements.push a, ⟨g.forest.parent.push i, g.forest.rank.push 0⟩⟩, i)

/-- `PartitionImpl::root_index` -/
def rootIndex (g : GPart) (a : Nat) : Outcome (GPart × Nat) :=
  match rootWalk (g.getIndex a).1.forest (g.getIndex a).2 with
  | .ok (f, root) => .ok (⟨(g.getIndex a).1.index, (g.getIndex a).1.elements, f⟩, root)
  | .err => .err
  | .panic => .panic

/-- `PartitionImpl::find` = `Partition::find(&self)` : `self.elements[root].clone()` -/
def find (g : GPart) (a : Nat) : Outcome (GPart × Nat) :=
  match rootIndex g a with
  | .ok (g1, root) =>
    if h : root < g1.elements.size then .ok (g1, g1.elements[root]) else .panic
  | .err => .err
  | .panic => .panic

/-- `PartitionImpl::unite` = `Partition::unite(&mut self)` -/
def unite (g : GPart) (a b : Nat) : Outcome GPart :=
  match rootIndex g a with
  | .ok (g1, x) =>
    match rootIndex g1 b with
    | .ok (g2, y) =>
      match link g2.forest x y with
      | .ok f => .ok ⟨g2.index, g2.elements, f⟩
      | .err => .err
      | .panic => .panic
    | .err => .err
    | .panic => .panic
  | .err => .err
  | .panic => .panic

end GPart

/-! ### `classes` (same text in both wrappers), instance store, histories -/

/-- what the public wrappers offer -/
structure Impl (S : Type) where
  new : S
  find : S → Nat → Outcome (S × Nat)
  unite : S → Nat → Nat → Outcome S

def intImpl : Impl Forest := ⟨Forest.new, IntP.find, IntP.unite⟩
def genImpl : Impl GPart := ⟨GPart.new, GPart.find, GPart.unite⟩

/-- `classes[*cl].push(e)`; `none` = index out of range -/
def pushAt : List (List Nat) → Nat → Nat → Option (List (List Nat))
  | [], _, _ => none
  | c :: cs, 0, e => some ((c ++ [e]) :: cs)
  | c :: cs, i + 1, e => (pushAt cs i e).map (c :: ·)

/-- the `for e in elms` loop of `classes`; `cfr` = `class_for_rep` -/
def classesLoop {S : Type} (I : Impl S) :
    List Nat → S → List (Nat × Nat) → List (List Nat) → Outcome (S × List (List Nat))
  | [], s, _, cls => .ok (s, cls)
  | e :: es, s, cfr, cls =>
    match I.find s e with
    | .ok (s1, rep) =>
      match lookup cfr rep with
      | some cl =>
        match pushAt cls cl e with
        | some cls' => classesLoop I es s1 cfr cls'
        | none => .panic
      | none => classesLoop I es s1 ((rep, cls.length) :: cfr) (cls ++ [[e]])
    | .err => .err
    | .panic => .panic

/-- `Partition::classes(&self, elms)` / `IntPartition::classes(&self, elms)` -/
def classes {S : Type} (I : Impl S) (s : S) (elms : List Nat) : Outcome (S × List (List Nat)) :=
  classesLoop I elms s [] []

inductive Op where
  | unite (k a b : Nat)
  | find (k a : Nat)
  | classes (k : Nat) (elms : List Nat)
  | clone (i j : Nat)            -- slot j := slot i .clone()
  deriving Repr, DecidableEq

inductive Obs where
  | rep (r : Nat)
  | classes (css : List (List Nat))
  deriving Repr, DecidableEq

/-- instance store: an association list, latest binding first; a slot that was never
    written holds `new()`.  (Not a function `Nat → S`: closures would re-evaluate.) -/
def Store (S : Type) := List (Nat × S)

def Store.init {S : Type} : Store S := []

def Store.get {S : Type} (I : Impl S) : Store S → Nat → S
  | [], _ => I.new
  | (j, s) :: r, k => if j = k then s else Store.get I r k

def Store.set {S : Type} (st : Store S) (k : Nat) (s : S) : Store S := (k, s) :: st

/-- one operation on the store -/
def step {S : Type} (I : Impl S) (st : Store S) : Op → Outcome (Store S × Option Obs)
  | .unite k a b =>
    match I.unite (st.get I k) a b with
    | .ok s => .ok (st.set k s, none)
    | .err => .err
    | .panic => .panic
  | .find k a =>
    match I.find (st.get I k) a with
    | .ok (s, r) => .ok (st.set k s, some (.rep r))
    | .err => .err
    | .panic => .panic
  | .classes k elms =>
    match classes I (st.get I k) elms with
    | .ok (s, css) => .ok (st.set k s, some (.classes css))
    | .err => .err
    | .panic => .panic
  | .clone i j => .ok (st.set j (st.get I i), none)

/-- replay a history; observations in order -/
def run {S : Type} (I : Impl S) : Store S → List Op → Outcome (Store S × List Obs)
  | st, [] => .ok (st, [])
  | st, op :: ops =>
    match step I st op with
    | .ok (st1, o) =>
      match run I st1 ops with
      | .ok (st2, os) => .ok (st2, match o with | some x => x :: os | none => os)
      | .err => .err
      | .panic => .panic
    | .err => .err
    | .panic => .panic

/-- the unions applied to instance `k` by a history (latest first), inherited at clone time -/
def unions : List Op → (Nat → List (Nat × Nat)) → Nat → List (Nat × Nat)
  | [], u => u
  | .unite k a b :: ops, u => unions ops (fun j => if j = k then (a, b) :: u j else u j)
  | .clone i j :: ops, u => unions ops (fun l => if l = j then u i else u l)
  | _ :: ops, u => unions ops u

end DSymVerif.Part
