/-
Model of the low-index part of /repo/src/fpgroups/cosets.rs (import-free, executable):
`first_free_in_table`, `derived_table`, `potential_children`, `compare_renumbered_from`,
`is_canonical`, the `BackTracking` instance `CosetTableBacktracking` and `coset_tables`.

The search states of the backtracking model are `Outcome Table`: a panic inside
`children` (an index panic in `get`/`set`, the "coset table is not transitive" assertion)
becomes a child `.panic` that is yielded as an item and has no children — the items
before it are exactly what the Rust iterator yields before it panics.
(`scan_both_ways` is the D10-repaired version, so the empty relator is harmless;
`compare_renumbered_from` is the D15-repaired version.)
-/
import DSymVerif.Model.Cosets
import DSymVerif.Model.Backtrack

namespace DSymVerif.Cosets
open DSymVerif

/-- inner loop of `first_free_in_table` over the letters of row `k` -/
def firstFreeRow (t : Table) (k : Nat) : List Int → Outcome (Option (Nat × Int))
  | [] => .ok none
  | g :: gs =>
    match t.get k g with
    | .ok none => .ok (some (k, g))
    | .ok (some _) => firstFreeRow t k gs
    | .err => .err
    | .panic => .panic

/-- outer loop of `first_free_in_table` -/
def firstFreeRows (t : Table) : List Nat → Outcome (Option (Nat × Int))
  | [] => .ok none
  | k :: ks =>
    match firstFreeRow t k t.allGens with
    | .ok none => firstFreeRows t ks
    | r => r

/-- `first_free_in_table` -/
def firstFreeInTable (t : Table) : Outcome (Option (Nat × Int)) :=
  firstFreeRows t (List.range t.len)

/-- the `for rel in expanded_rels` loop of `derived_table` for the dequeued `row`;
    `none` = a relator closes on two different rows (`return None`) -/
def derivedRels (row : Nat) : List (List Int) → Table → List Nat → Outcome (Option (Table × List Nat))
  | [], t, q => .ok (some (t, q))
  | rel :: rels, t, q =>
    match scanBothWays t rel row with
    | .ok (head, tail, gap, c) =>
      if gap = 1 then
        match t.join head tail c with
        | .ok t' => derivedRels row rels t' (q ++ [head])
        | .err => .err
        | .panic => .panic
      else if gap = 0 ∧ head ≠ tail then .ok none
      else derivedRels row rels t q
    | .err => .err
    | .panic => .panic

/-- the `while let Some(row) = q.pop_front()` loop of `derived_table` -/
def derivedLoop (rels : List (List Int)) : Nat → Table → List Nat → Outcome (Option Table)
  | _, t, [] => .ok (some t)
  | 0, _, _ :: _ => .err
  | f + 1, t, row :: q =>
    match derivedRels row rels t q with
    | .ok (some (t', q')) => derivedLoop rels f t' q'
    | .ok none => .ok none
    | .err => .err
    | .panic => .panic

/-- `derived_table`; every queue entry but the first comes with a `join` that fills two
    free slots, so `(len + 1)·(2·nr_gens + 1) + 1` iterations suffice -/
def derivedTable (t : Table) (rels : List (List Int)) (frm to : Nat) (g : Int) : Outcome (Option Table) :=
  match t.get frm g with
  | .ok (some _) => .ok none
  | .ok none =>
    match t.get to (-g) with
    | .ok (some _) => .ok none
    | .ok none =>
      match t.join frm to g with
      | .ok result => derivedLoop rels ((t.len + 1) * (2 * t.nrGens + 1) + 1) result [frm]
      | .err => .err
      | .panic => .panic
    | .err => .err
    | .panic => .panic
  | .err => .err
  | .panic => .panic

/-- the `for pos in k..limit` loop of `potential_children` -/
def childrenFrom (t : Table) (rels : List (List Int)) (k : Nat) (g : Int) : List Nat → Outcome (List Table)
  | [] => .ok []
  | pos :: ps =>
    match derivedTable t rels k pos g with
    | .ok r =>
      match childrenFrom t rels k g ps with
      | .ok rest => .ok (match r with | some t' => t' :: rest | none => rest)
      | .err => .err
      | .panic => .panic
    | .err => .err
    | .panic => .panic

/-- `potential_children` -/
def potentialChildren (t : Table) (rels : List (List Int)) (maxRows : Nat) : Outcome (List Table) :=
  match firstFreeInTable t with
  | .ok (some (k, g)) =>
    let limit := min maxRows (t.len + 1)
    childrenFrom t rels k g (List.range' k (limit - k))
  | .ok none => .ok []
  | .err => .err
  | .panic => .panic

/-! ### `compare_renumbered_from` -/

def lookupNat (k : Nat) : List (Nat × Nat) → Option Nat
  | [] => none
  | (k', v) :: r => if k' = k then some v else lookupNat k r

/-- inner `for g in table.all_gens()` loop; state = (`n2o` as a vector, `o2n` as an
    association list); result `some r` = `return r`.  D15 repaired: an undefined entry of
    the table itself means "cannot decide yet" (`return 0`); the pinned tree compared it as
    the large value `n`, so a renumbering with a defined entry there looked smaller and
    `is_canonical` pruned partial tables whose completion is canonical. -/
def compareGens (t : Table) (n row : Nat) :
    List Int → Array Nat × List (Nat × Nat) → Outcome (Option Int × (Array Nat × List (Nat × Nat)))
  | [], s => .ok (none, s)
  | g :: gs, (n2o, o2n) =>
    match t.get row g with
    | .ok none => .ok (some 0, (n2o, o2n))
    | .ok (some oval) =>
      match n2o[row]? with
      | none => .panic
      | some r =>
        match t.get r g with
        | .ok (some tv) =>
          let (n2o', o2n') :=
            match lookupNat tv o2n with
            | some _ => (n2o, o2n)
            | none => (n2o.push tv, (tv, n2o.size) :: o2n)
          match lookupNat tv o2n' with
          | none => .panic
          | some nval =>
            let result : Int := (nval : Int) - (oval : Int)
            if result ≠ 0 then .ok (some result, (n2o', o2n')) else compareGens t n row gs (n2o', o2n')
        | .ok none =>
          let result : Int := (n : Int) - (oval : Int)
          if result ≠ 0 then .ok (some result, (n2o, o2n)) else compareGens t n row gs (n2o, o2n)
        | .err => .err
        | .panic => .panic
    | .err => .err
    | .panic => .panic

/-- outer `for row in 0..table.len()` loop with its transitivity assertion -/
def compareRows (t : Table) (n : Nat) : List Nat → Array Nat × List (Nat × Nat) → Outcome Int
  | [], _ => .ok 0
  | row :: rows, (n2o, o2n) =>
    if row < n2o.size then
      match compareGens t n row t.allGens (n2o, o2n) with
      | .ok (some r, _) => .ok r
      | .ok (none, s) => compareRows t n rows s
      | .err => .err
      | .panic => .panic
    else .panic

/-- `compare_renumbered_from` -/
def compareRenumberedFrom (t : Table) (start : Nat) : Outcome Int :=
  compareRows t t.len (List.range t.len) (#[start], [(start, 0)])

/-- the `for start in 1..table.len()` loop of `is_canonical` -/
def isCanonicalFrom (t : Table) : List Nat → Outcome Bool
  | [] => .ok true
  | s :: ss =>
    match compareRenumberedFrom t s with
    | .ok r => if r < 0 then .ok false else isCanonicalFrom t ss
    | .err => .err
    | .panic => .panic

/-- `is_canonical` -/
def isCanonical (t : Table) : Outcome Bool := isCanonicalFrom t (List.range' 1 (t.len - 1))

/-! ### the `BackTracking` instance -/

/-- `.filter(is_canonical)` -/
def filterCanonical : List Table → Outcome (List Table)
  | [] => .ok []
  | t :: ts =>
    match isCanonical t, filterCanonical ts with
    | .ok b, .ok rest => .ok (if b then t :: rest else rest)
    | .panic, _ => .panic
    | _, .panic => .panic
    | _, _ => .err

/-- `CosetTableBacktracking::children` on a search state -/
def btChildren (rels : List (List Int)) (maxRows : Nat) : Outcome Table → List (Outcome Table)
  | .ok t =>
    match potentialChildren t rels maxRows with
    | .ok ts =>
      match filterCanonical ts with
      | .ok cs => cs.map .ok
      | .err => [.err]
      | .panic => [.panic]
    | .err => [.err]
    | .panic => [.panic]
  | _ => []

/-- `CosetTableBacktracking::extract` on a search state -/
def btExtract : Outcome Table → Option (Outcome Table)
  | .ok t =>
    match firstFreeInTable t with
    | .ok none => some t.compact
    | .ok (some _) => none
    | .err => some .err
    | .panic => some .panic
  | .err => some .err
  | .panic => some .panic

/-- `CosetTableBacktracking { nr_gens, expanded_relators, max_rows }` -/
def btProblem (nrGens : Nat) (expandedRels : List (List Int)) (maxRows : Nat) :
    BT.Problem (Outcome Table) (Outcome Table) :=
  { root := .ok (Table.new nrGens)
    extract := btExtract
    children := btChildren expandedRels maxRows }

/-- `coset_tables(nr_gens, rels, max_rows).collect()`, at most `fuel` search nodes -/
def cosetTables (nrGens : Nat) (rels : List (List Int)) (maxRows : Nat) (fuel : Nat) : List (Outcome Table) :=
  BT.run (btProblem nrGens (expandedRelatorSet rels) maxRows) fuel

/-- a fuel that always exhausts the search tree of `coset_tables`: every node has at most
    `max maxRows 1` children (one per candidate row for the first free slot) and every child
    fills one of the `maxRows · 2·nrGens` slots of the first `maxRows` rows
    (`Proofs/LowIndexFuel.lean`: `cosetTables_fuel_adequate`).  The iterator model stops as soon
    as its stack is empty, so the size of this number costs nothing. -/
def searchFuel (nrGens maxRows : Nat) : Nat :=
  (max maxRows 1 + 1) ^ (maxRows * (2 * nrGens) + 1)

end DSymVerif.Cosets
