/-
Model of /repo/src/fundamental_group.rs  (import-free, executable).

`Boundary::{new, opposite, glue, glue_recursively}`, `spanning_tree`, `inner_edges`,
`trace_word`, `find_generators`, `fundamental_group`, re-stated statement by statement
over the symbol model `DS.DSymData` (the `PartialDSym` answers `op`, `mPartial`,
`vPartial`, the trait defaults `traversal` and `orbit_reps_2d`).

* `HashMap<Ridge,(Ridge,usize)>` (only `get`/`insert`/`remove`, never iterated) → association
  list `OppMap`; `HashSet` `seen` of `spanning_tree` (only `contains`/`insert`) → list.
* `BTreeMap<Edge,FreeWord>`, `BTreeMap<usize,Edge>`, `BTreeSet<FreeWord>`,
  `BTreeSet<(FreeWord,usize)>` → key-sorted association lists / sorted duplicate-free lists
  (they are iterated in key order; `FreeWord`'s `Ord` is `FW.cmp`, tuples compare
  lexicographically).
* `unwrap()` on `None`, `Vec` index out of range → `Outcome.panic`; the unbounded loops
  (`while let` of `glue_recursively`, `loop` of `trace_word`) take fuel and
  `Outcome.panic` at exhaustion stands for non-termination.
-/
import DSymVerif.Model.DSym
import DSymVerif.Model.FreeWord

namespace DSymVerif.FG
open DSymVerif DSymVerif.DS

/-- `type Ridge = (usize, usize, usize)` -/
abbrev Ridge := Nat × Nat × Nat
/-- `type Edge = (usize, usize)` : (chamber, index) -/
abbrev Edge := Nat × Nat
/-- `(usize, usize, Option<usize>)` : entries of the glue queue -/
abbrev Item := Nat × Nat × Option Nat

/-! ### `HashMap<Ridge, (Ridge, usize)>` -/

abbrev OppMap := List (Ridge × (Ridge × Nat))

def oppGet (m : OppMap) (k : Ridge) : Option (Ridge × Nat) :=
  match m with
  | [] => none
  | (k', v) :: rest => if k' = k then some v else oppGet rest k

def oppInsert (m : OppMap) (k : Ridge) (v : Ridge × Nat) : OppMap :=
  match m with
  | [] => [(k, v)]
  | (k', v') :: rest => if k' = k then (k, v) :: rest else (k', v') :: oppInsert rest k v

def oppRemove (m : OppMap) (k : Ridge) : OppMap :=
  match m with
  | [] => []
  | (k', v') :: rest => if k' = k then rest else (k', v') :: oppRemove rest k

/-! ### `BTreeMap<Edge, FreeWord>` and `BTreeMap<usize, Edge>` as key-sorted lists -/

def edgeLt (a b : Edge) : Bool := a.1 < b.1 || (a.1 == b.1 && a.2 < b.2)

abbrev E2W := List (Edge × List Int)

def e2wInsert (m : E2W) (k : Edge) (w : List Int) : E2W :=
  match m with
  | [] => [(k, w)]
  | (k', w') :: rest =>
    if k' = k then (k, w) :: rest
    else if edgeLt k k' then (k, w) :: (k', w') :: rest
    else (k', w') :: e2wInsert rest k w

def e2wGet? (m : E2W) (k : Edge) : Option (List Int) :=
  match m with
  | [] => none
  | (k', w') :: rest => if k' = k then some w' else e2wGet? rest k

/-- `edge_to_word.get(&k).unwrap_or(&nil)` -/
def e2wGet (m : E2W) (k : Edge) : List Int := (e2wGet? m k).getD FW.empty

abbrev G2E := List (Nat × Edge)

def g2eInsert (m : G2E) (k : Nat) (e : Edge) : G2E :=
  match m with
  | [] => [(k, e)]
  | (k', e') :: rest =>
    if k' = k then (k, e) :: rest
    else if k < k' then (k, e) :: (k', e') :: rest
    else (k', e') :: g2eInsert rest k e

/-! ### Boundary -/

/-- all ridges (d,i,j), i ≠ j, in the order of the triple loop of `Boundary::new` -/
def ridges (ds : DSymData) : List Ridge :=
  (List.range ds.size).flatMap fun d0 =>
    (List.range (ds.dim + 1)).flatMap fun i =>
      (List.range (ds.dim + 1)).filterMap fun j =>
        if i ≠ j then some (d0 + 1, i, j) else none

/-- `Boundary::new` : every ridge (d,i,j), i ≠ j, is opposite to (d,j,i) with count 1 -/
def boundaryNew (ds : DSymData) : OppMap :=
  (ridges ds).map fun k => (k, ((k.1, k.2.2, k.2.1), 1))

/-- body of the `for j` loop of `glue` -/
def glueStep (ds : DSymData) (d i di : Nat) (acc : Outcome (OppMap × List Ridge)) (j : Nat) :
    Outcome (OppMap × List Ridge) :=
  match acc with
  | .ok (m, res) =>
    match oppGet m (d, i, j) with
    | none => .ok (m, res)
    | some (dOpp, dCnt) =>
      let e := dOpp.1
      let k := dOpp.2.1
      if d = di then
        let m := oppInsert m dOpp ((0, 0, 0), dCnt)
        let m := oppRemove m (d, i, j)
        .ok (m, if ds.op k e = some e then res ++ [dOpp] else res)
      else
        match oppGet m (di, i, j) with
        | none => .panic                                   -- `.unwrap()`
        | some (diOpp, diCnt) =>
          let count := dCnt + diCnt
          let m := oppInsert m dOpp (diOpp, count)
          let m := oppInsert m diOpp (dOpp, count)
          let m := oppRemove m (d, i, j)
          let m := oppRemove m (di, i, j)
          .ok (m, if ds.op k e ≠ some e then res ++ [dOpp] else res)
  | .err => .err
  | .panic => .panic

/-- `Boundary::glue(d, i)` -/
def glue (ds : DSymData) (m : OppMap) (d i : Nat) : Outcome (OppMap × List Ridge) :=
  match ds.op i d with
  | none => .panic                                         -- `.unwrap()`
  | some di =>
    ((List.range (ds.dim + 1)).filter (· ≠ i)).foldl (glueStep ds d i di) (.ok (m, []))

/-- the test `good` of `glue_recursively` -/
def glueGood (ds : DSymData) (m : OppMap) (d i : Nat) (j : Option Nat) : Outcome Bool :=
  match j with
  | none => .ok true
  | some j =>
    let t := if ds.op i d = some d then 1 else 2
    match ds.mPartial i j d with
    | .ok mm =>
      let mt := mm.getD 0 * t
      .ok (match oppGet m (d, i, j) with
           | some (_, n) => n == mt
           | none => false)
    | .err => .err
    | .panic => .panic

/-- the `while let Some(next) = todo.pop_front()` loop -/
def glueRecLoop (ds : DSymData) : Nat → OppMap → List Item → List Item → Outcome (OppMap × List Item)
  | _, m, [], res => .ok (m, res.reverse)
  | 0, _, _ :: _, _ => .panic
  | fuel + 1, m, (d, i, j) :: todo, res =>
    match glueGood ds m d i j with
    | .ok true =>
      match glue ds m d i with
      | .ok (m', rs) =>
        glueRecLoop ds fuel m' (todo ++ rs.map (fun r => (r.1, r.2.1, some r.2.2))) ((d, i, j) :: res)
      | .err => .err
      | .panic => .panic
    | .ok false => glueRecLoop ds fuel m todo res
    | .err => .err
    | .panic => .panic

/-- every queue entry beyond the initial ones is pushed for a ridge just removed from the map -/
def glueFuel (ds : DSymData) (todo : List Item) : Nat :=
  todo.length + 2 * (ds.size + 1) * (ds.dim + 1) * (ds.dim + 1) + 16

/-- `Boundary::glue_recursively(todo)` -/
def glueRecursively (ds : DSymData) (m : OppMap) (todo : List Item) : Outcome (OppMap × List Item) :=
  glueRecLoop ds (glueFuel ds todo) m todo []

/-! ### spanning_tree, inner_edges -/

/-- `spanning_tree(ds)` : traversal over all indices with the seeds in descending order -/
def spanningTree (ds : DSymData) : List Item :=
  let tr := ds.view.traversal ds.view.indices ds.view.elements.reverse
  (tr.foldl (fun (acc : List Nat × List Item) (t : View.TravItem) =>
      if acc.1.contains t.2.2 then acc
      else (t.2.2 :: acc.1,
            match t.1 with
            | some i => acc.2 ++ [(t.2.1, i, none)]
            | none => acc.2)) ([], [])).2

/-- `inner_edges(ds)` -/
def innerEdges (ds : DSymData) : Outcome (List Edge) :=
  match glueRecursively ds (boundaryNew ds) (spanningTree ds) with
  | .ok (_, glued) => .ok (glued.map fun t => (t.1, t.2.1))
  | .err => .err
  | .panic => .panic

/-! ### trace_word -/

/-- the `loop` of `trace_word` for `i = Some(i)`, `j = Some(j)` -/
def traceLoop (ds : DSymData) (e2w : E2W) (d i j : Nat) : Nat → Nat → List Int → Outcome (List Int)
  | 0, _, _ => .panic
  | fuel + 1, e, res =>
    let res := FW.mulAssign res (e2wGet e2w (e, i))
    let e := (ds.op i e).getD e
    let res := FW.mulAssign res (e2wGet e2w (e, j))
    let e := (ds.op j e).getD e
    if e = d then .ok res else traceLoop ds e2w d i j fuel e res

/-- `trace_word(ds, edge_to_word, d, i, j)` -/
def traceWord (ds : DSymData) (e2w : E2W) (d : Nat) (i j : Option Nat) : Outcome (List Int) :=
  match i, j with
  | some i, some j => traceLoop ds e2w d i j (ds.size + 1) d FW.empty
  | some i, none => .ok (FW.mulAssign FW.empty (e2wGet e2w (d, i)))
  | none, some j => .ok (FW.mulAssign FW.empty (e2wGet e2w (d, j)))
  | none, none => .ok FW.empty

/-! ### find_generators -/

/-- `for (e, i, j) in glued { … }` -/
def applyGlued (ds : DSymData) : E2W → List Item → Outcome E2W
  | e2w, [] => .ok e2w
  | e2w, (e, i, j) :: rest =>
    match ds.op i e with
    | none => .panic                                       -- `.unwrap()`
    | some ei =>
      match traceWord ds e2w ei j (some i) with
      | .ok w =>
        if w.length > 0 then
          applyGlued ds (e2wInsert (e2wInsert e2w (e, i) (FW.inverse w)) (ei, i) w) rest
        else applyGlued ds e2w rest
      | .err => .err
      | .panic => .panic

structure GenState where
  bnd : OppMap
  e2w : E2W
  g2e : G2E
  deriving Repr, Inhabited

/-- body of the double loop `for d in 1..=size { for i in 0..=dim { … } }` -/
def genStep (ds : DSymData) (st : GenState) (d i : Nat) : Outcome GenState :=
  if (List.range (ds.dim + 1)).any (fun j => (oppGet st.bnd (d, i, j)).isSome) then
    match ds.op i d with
    | none => .panic                                       -- `.unwrap()`
    | some di =>
      let gen := st.g2e.length + 1
      let g2e := g2eInsert st.g2e gen (d, i)
      let e2w := e2wInsert st.e2w (d, i) (FW.new [(gen : Int)])
      let e2w := e2wInsert e2w (di, i) (FW.new [-(gen : Int)])
      match glueRecursively ds st.bnd [(d, i, none)] with
      | .ok (bnd, glued) =>
        match applyGlued ds e2w glued with
        | .ok e2w => .ok { bnd := bnd, e2w := e2w, g2e := g2e }
        | .err => .err
        | .panic => .panic
      | .err => .err
      | .panic => .panic
  else .ok st

/-- all facets in the order of the double loop -/
def facets (ds : DSymData) : List Edge :=
  (List.range ds.size).flatMap fun d0 => (List.range (ds.dim + 1)).map fun i => (d0 + 1, i)

def genLoop (ds : DSymData) : GenState → List Edge → Outcome GenState
  | st, [] => .ok st
  | st, (d, i) :: rest =>
    match genStep ds st d i with
    | .ok st' => genLoop ds st' rest
    | .err => .err
    | .panic => .panic

/-- `find_generators(ds)` -/
def findGenerators (ds : DSymData) : Outcome (E2W × G2E) :=
  match glueRecursively ds (boundaryNew ds) (spanningTree ds) with
  | .ok (bnd, _) =>
    match genLoop ds { bnd := bnd, e2w := [], g2e := [] } (facets ds) with
    | .ok st => .ok (st.e2w, st.g2e)
    | .err => .err
    | .panic => .panic
  | .err => .err
  | .panic => .panic

/-! ### fundamental_group -/

/-- `pub struct FundamentalGroup` : `relators` in `Vec` order, `cones` in set order,
    the two maps in key order -/
structure FundGroup where
  relators : List (List Int)
  cones : List (List Int × Nat)
  genToEdge : G2E
  edgeToWord : E2W
  deriving Repr, DecidableEq, Inhabited

def FundGroup.nrGenerators (g : FundGroup) : Nat := g.genToEdge.length
def FundGroup.isFree (g : FundGroup) : Bool := g.relators.isEmpty

/-- `Ord` of `(FreeWord, usize)` -/
def coneCmp (a b : List Int × Nat) : Ordering :=
  match FW.cmp a.1 b.1 with
  | .lt => .lt
  | .gt => .gt
  | .eq => compare a.2 b.2

/-- `BTreeSet<(FreeWord, usize)>::insert` -/
def coneInsert (c : List Int × Nat) : List (List Int × Nat) → List (List Int × Nat)
  | [] => [c]
  | v :: vs =>
    match coneCmp c v with
    | .lt => c :: v :: vs
    | .eq => v :: vs
    | .gt => v :: coneInsert c vs

structure RelState where
  relators : List (List Int)          -- `BTreeSet<FreeWord>`
  cones : List (List Int × Nat)       -- `BTreeSet<(FreeWord, usize)>`
  deriving Repr, Inhabited

/-- body of `for d in ds.orbit_reps_2d(i, j) { … }` -/
def relStep (ds : DSymData) (e2w : E2W) (i j : Nat) (st : RelState) (d : Nat) : Outcome RelState :=
  match ds.op i d with
  | none => .panic                                         -- `.unwrap()`
  | some di =>
    match traceWord ds e2w di (some j) (some i) with
    | .ok word =>
      match ds.vPartial i j d with
      | .ok (some degree) =>
        let rel := FW.raisedTo word (degree : Int)
        let relators :=
          if rel.length > 0 then FW.insertSorted (FW.relatorRepresentative rel) st.relators
          else st.relators
        let cones :=
          if degree > 1 then coneInsert (FW.relatorRepresentative word, degree) st.cones
          else st.cones
        .ok { relators := relators, cones := cones }
      | .ok none => .panic                                 -- `.unwrap()`
      | .err => .err
      | .panic => .panic
    | .err => .err
    | .panic => .panic

def relLoop (ds : DSymData) (e2w : E2W) (i j : Nat) : RelState → List Nat → Outcome RelState
  | st, [] => .ok st
  | st, d :: rest =>
    match relStep ds e2w i j st d with
    | .ok st' => relLoop ds e2w i j st' rest
    | .err => .err
    | .panic => .panic

/-- the index pairs of `for i in 0..=dim { for j in i..=dim { … } }` in loop order -/
def indexPairs (ds : DSymData) : List (Nat × Nat) :=
  (List.range (ds.dim + 1)).flatMap fun i =>
    ((List.range (ds.dim + 1)).filter (fun j => i ≤ j)).map fun j => (i, j)

def pairLoop (ds : DSymData) (e2w : E2W) : RelState → List (Nat × Nat) → Outcome RelState
  | st, [] => .ok st
  | st, (i, j) :: rest =>
    match relLoop ds e2w i j st (ds.view.orbitReps2d i j) with
    | .ok st' => pairLoop ds e2w st' rest
    | .err => .err
    | .panic => .panic

/-- `fundamental_group(ds)` -/
def fundamentalGroup (ds : DSymData) : Outcome FundGroup :=
  match findGenerators ds with
  | .ok (e2w, g2e) =>
    match pairLoop ds e2w { relators := [], cones := [] } (indexPairs ds) with
    | .ok st =>
      .ok { relators := st.relators, cones := st.cones, genToEdge := g2e, edgeToWord := e2w }
    | .err => .err
    | .panic => .panic
  | .err => .err
  | .panic => .panic

end DSymVerif.FG
