/-
Model of the morphism layer of /repo/src/dsets.rs (`degrees_match`, `morphism`,
`automorphisms`, `fold`, `is_minimal`; trait default methods of `DSet`) and of
`minimal_image` in /repo/src/derived.rs.   Executable; imports only Model files.

The trait methods see a representation only through `size()`, `dim()`, `op(i, d)` and
`m(i, i + 1, d)`; that is the record `MV` ("morphism view").  For a `PartialDSym` the
degrees are `DSymData.mPartial`, for a plain D-set the default `m` of the trait
(`Some(0)` for adjacent indices).

* the `while let Some(..) = queue.pop_front()` loops are structural recursions on a fuel
  argument; the fuel given by `morphism`/`fold` is an upper bound for the number of
  iterations on every D-set (`Proofs/Morphism.lean`: `morphLoop_no_panic`; `Proofs/MorphismFuel.lean`: `fold_no_panic`).  Fuel exhaustion is
  `Outcome.panic` and is never returned on a valid D-set.
* `Option<_>` results: `None` is `Outcome.err`, `Some(x)` is `Outcome.ok x`; an index out of
  range (`m[di]`, `src2img[e]`, …) is `Outcome.panic`, never a default value.
* `morphism` is the function after the `fix:` commit for defect D3 (degrees of every
  dequeued pair `(d, e)` are compared, `self.m` for `d` against `other.m` for `e`).
  `morphismPinned` is the text of the pinned tree (degrees compared only while a neighbour
  is still unassigned, and `self.m` used for both chambers); it is kept for the documented
  counter-example (`Props/C04.lean`, `d3_pinned_accepts_wrong_map`).
* `Partition<usize>` (union–find in /repo/src/util/partitions.rs) is the EXACT model of
  property C20 (`Model/Partition.lean`, `GPart`: interning `HashMap` + `elements`, the two loops
  of `root_index` with path compression, union by rank, `find` = `elements[root]`): `foldUF`,
  `isMinimalUF`, `foldAllUF`, `numberLoopUF` and `minimalImage` re-state the Rust text statement
  by statement on it — `p0.clone()` is a value copy, `p.find(&d)` returns the new state of the
  `UnsafeCell` together with the answer (so interning and path compression done by a `find` are
  kept exactly where the Rust code keeps them: inside the clone made by `fold`, dropped when
  `fold` answers `None`), `p.unite(&d, &e)` links the roots by rank.  The representative
  `p.find(&d)` that `minimal_image` writes into `img2src` is therefore the representative the
  code computes, and the raw partition returned by `fold` (representatives, `classes`) is
  compared token by token with the implementation.  In `Model/Partition.lean` `Outcome.err`
  means "root walk out of fuel" (the Rust loop would still be running); here that is reported
  as `Outcome.panic` (`ufFind`, `ufUnite`), `Outcome.err` being `None`.  Props/C20.lean proves
  it never happens on a partition reached from `Partition::new()`.
* the *class table* `Part` (a finite list of (element, class label) pairs; `find x` is the label,
  `unite(a, b)` relabels the class of `b` with the label of `a`) and the functions `fold`,
  `isMinimal`, `foldAll`, `numberLoop` on it are NOT run against the implementation any more:
  they are the abstract semantics used by the proofs.  `Proofs/MorphismUF.lean` proves, for
  ALL inputs, that the union–find functions simulate them (`foldUF_sim`: same `Some`/`None`/
  panic answer and the same same-class relation; `isMinimalUF_eq`: the same Boolean;
  `foldAllUF_sim`; `numberLoopUF_eq`: the numbering loop on the union–find is the numbering loop
  on the table of its representatives), restated in Props/C04.lean §13.
-/
import DSymVerif.Model.DSym
import DSymVerif.Model.Partition

namespace DSymVerif.Mor
open DSymVerif.DS

/-- what `morphism`, `fold`, … see of a `DSet` implementation -/
structure MV where
  size : Nat
  dim : Nat
  /-- `op(i, d)` -/
  op : Nat → Nat → Option Nat
  /-- `m(i, i + 1, d)` -/
  m : Nat → Nat → Option Nat

namespace MV

/-- `elements()` = 1..=size -/
def elements (s : MV) : List Nat := (List.range s.size).map (· + 1)

/-- `degrees_match(d, e)`: `(0..dim).all(|i| self.m(i, i+1, d) == self.m(i, i+1, e))` -/
def degreesMatch (s : MV) (d e : Nat) : Bool :=
  (List.range s.dim).all fun i => s.m i d == s.m i e

end MV

/-- `(0..self.dim()).all(|i| self.m(i, i + 1, d) == other.m(i, i + 1, e))` (repaired `morphism`) -/
def degreesMatch2 (a b : MV) (d e : Nat) : Bool :=
  (List.range a.dim).all fun i => a.m i d == b.m i e

abbrev Queue := List (Nat × Nat)

/-! ### `morphism` (repaired, D3) -/

/-- the `for i in 0..=self.dim()` loop of `morphism` for one dequeued pair `(d, e)`;
    `is` = indices still to do, `q` = queue, `m` = image vector (0 = unassigned) -/
def morphInner (a b : MV) (d e : Nat) :
    List Nat → Queue → Array Nat → Outcome (Queue × Array Nat)
  | [], q, m => .ok (q, m)
  | i :: is, q, m =>
    match a.op i d, b.op i e with
    | some di, some ei =>
      if h : di < m.size then
        if m[di] = 0 then morphInner a b d e is (q ++ [(di, ei)]) (m.set di ei h)
        else if m[di] ≠ ei then .err
        else morphInner a b d e is q m
      else .panic
    | _, _ => morphInner a b d e is q m

/-- the `while let Some((d, e)) = queue.pop_front()` loop -/
def morphLoop (a b : MV) : Nat → Queue → Array Nat → Outcome (Array Nat)
  | 0, _, _ => .panic
  | _ + 1, [], m => .ok m
  | fuel + 1, (d, e) :: q, m =>
    if degreesMatch2 a b d e then
      match morphInner a b d e (List.range (a.dim + 1)) q m with
      | .ok (q', m') => morphLoop a b fuel q' m'
      | .err => .err
      | .panic => .panic
    else .err

/-- `self.morphism(other, img0)`; `m = vec![0; size + 1]; m[1] = img0` -/
def morphism (a b : MV) (img0 : Nat) : Outcome (Array Nat) :=
  if h : 1 < (Array.replicate (a.size + 1) 0).size then
    morphLoop a b (a.size + 3) [(1, img0)] ((Array.replicate (a.size + 1) 0).set 1 img0 h)
  else .panic

/-! ### `morphism` as in the pinned tree (defect D3) -/

def pinnedInner (a b : MV) (d e : Nat) :
    List Nat → Queue → Array Nat → Outcome (Queue × Array Nat)
  | [], q, m => .ok (q, m)
  | i :: is, q, m =>
    match a.op i d, b.op i e with
    | some di, some ei =>
      if h : di < m.size then
        if m[di] = 0 && a.degreesMatch d e then
          pinnedInner a b d e is (q ++ [(di, ei)]) (m.set di ei h)
        else if m[di] ≠ ei then .err
        else pinnedInner a b d e is q m
      else .panic
    | _, _ => pinnedInner a b d e is q m

def pinnedLoop (a b : MV) : Nat → Queue → Array Nat → Outcome (Array Nat)
  | 0, _, _ => .panic
  | _ + 1, [], m => .ok m
  | fuel + 1, (d, e) :: q, m =>
    match pinnedInner a b d e (List.range (a.dim + 1)) q m with
    | .ok (q', m') => pinnedLoop a b fuel q' m'
    | .err => .err
    | .panic => .panic

def morphismPinned (a b : MV) (img0 : Nat) : Outcome (Array Nat) :=
  if h : 1 < (Array.replicate (a.size + 1) 0).size then
    pinnedLoop a b (a.size + 3) [(1, img0)] ((Array.replicate (a.size + 1) 0).set 1 img0 h)
  else .panic

/-! ### `automorphisms` -/

/-- `for d in 1..=size { if let Some(map) = self.morphism(self, d) { result.push(map) } }` -/
def autLoop (mor : Nat → Outcome (Array Nat)) : List Nat → Outcome (List (Array Nat))
  | [] => .ok []
  | d :: ds =>
    match mor d with
    | .ok f =>
      match autLoop mor ds with
      | .ok r => .ok (f :: r)
      | .err => .err
      | .panic => .panic
    | .err => autLoop mor ds
    | .panic => .panic

def automorphisms (a : MV) : Outcome (List (Array Nat)) := autLoop (morphism a a) a.elements

def automorphismsPinned (a : MV) : Outcome (List (Array Nat)) :=
  autLoop (morphismPinned a a) a.elements

/-! ### abstract semantics: `Partition<usize>` as a class table, `fold`, `is_minimal`
(specification device of the proofs; the functions compared with the code are the `…UF` ones below) -/

/-- (element, class label) for every element that has been united with another one -/
structure Part where
  tbl : List (Nat × Nat)

def lookupLab : List (Nat × Nat) → Nat → Option Nat
  | [], _ => none
  | (k, l) :: t, x => if k = x then some l else lookupLab t x

/-- `p.find(&x)` up to the choice of representative (see the header) -/
def Part.find (p : Part) (x : Nat) : Nat :=
  match lookupLab p.tbl x with
  | some l => l
  | none => x

instance : CoeFun Part (fun _ => Nat → Nat) := ⟨Part.find⟩

/-- `Partition::new()` -/
def Part.new : Part := ⟨[]⟩

/-- `p.unite(&a, &b)`: the class of `b` gets the label of `a` -/
def Part.unite (p : Part) (a b : Nat) : Part :=
  let pa := p.find a
  let pb := p.find b
  let t := p.tbl.map (fun kl => (kl.1, if kl.2 = pb then pa else kl.2))
  ⟨if (lookupLab p.tbl pb).isSome then t else (pb, pa) :: t⟩

/-- the `for i in 0..=self.dim()` loop of `fold` after `p.unite(&d, &e)`;
    `none` = `return None` -/
def foldInner (s : MV) (d e : Nat) : List Nat → Queue → Option Queue
  | [], q => some q
  | i :: is, q =>
    match s.op i d, s.op i e with
    | some di, some ei =>
      if s.degreesMatch di ei then foldInner s d e is (q ++ [(di, ei)]) else none
    | _, _ => foldInner s d e is q

/-- the `while let Some((d, e)) = queue.pop_front()` loop of `fold` -/
def foldLoop (s : MV) : Nat → Queue → Part → Outcome Part
  | 0, _, _ => .panic
  | _ + 1, [], p => .ok p
  | fuel + 1, (d, e) :: q, p =>
    if p d ≠ p e then
      match foldInner s d e (List.range (s.dim + 1)) q with
      | some q' => foldLoop s fuel q' (p.unite d e)
      | none => .err
    else foldLoop s fuel q p

/-- an upper bound for the number of iterations of the `fold` loop: every iteration that
    pushes performs a union, at most `size` unions can happen, each pushes ≤ dim+1 pairs -/
def foldFuel (s : MV) : Nat := (s.size + 1) * (s.dim + 1) + 2

/-- `self.fold(p0, d, e)` -/
def fold (s : MV) (p0 : Part) (d e : Nat) : Outcome Part :=
  if d = 0 || e = 0 || !s.degreesMatch d e then .err
  else foldLoop s (foldFuel s) [(d, e)] p0

/-- `(2..=size).all(|d| self.fold(&p, 1, d).is_none())` (short-circuiting) -/
def isMinimalLoop (s : MV) : List Nat → Outcome Bool
  | [] => .ok true
  | d :: ds =>
    match fold s Part.new 1 d with
    | .err => isMinimalLoop s ds
    | .ok _ => .ok false
    | .panic => .panic

def isMinimal (s : MV) : Outcome Bool := isMinimalLoop s (s.elements.drop 1)

/-! ### `minimal_image`: partition and numbering loop on the class table (abstract semantics) -/

/-- `(2..=size).fold(Partition::new(), |p, d| ds.fold(&p, 1, d).unwrap_or(p))` -/
def foldAll (s : MV) : List Nat → Part → Outcome Part
  | [], p => .ok p
  | d :: ds, p =>
    match fold s p 1 d with
    | .ok q => foldAll s ds q
    | .err => foldAll s ds p
    | .panic => .panic

structure NumState where
  src2img : Array Nat
  img2src : Array Nat
  next : Nat

/-- the numbering loop `for d in 1..=ds.size() { let e = p.find(&d); … }` -/
def numberLoop (p : Part) : List Nat → NumState → Outcome NumState
  | [], st => .ok st
  | d :: ds, st =>
    let e := p d
    match st.src2img[e]? with
    | none => .panic
    | some x =>
      let st1 : Outcome NumState :=
        if x = 0 then
          if st.next < st.img2src.size then
            .ok { src2img := st.src2img.setIfInBounds e st.next,
                  img2src := st.img2src.setIfInBounds st.next e, next := st.next + 1 }
          else .panic
        else .ok st
      match st1 with
      | .ok st1 =>
        match st1.src2img[e]? with
        | some y =>
          if d < st1.src2img.size then
            numberLoop p ds { st1 with src2img := st1.src2img.setIfInBounds d y }
          else .panic
        | none => .panic
      | .err => .err
      | .panic => .panic

/-! ### `Partition<usize>` as the union–find of /repo/src/util/partitions.rs (C20 model):
`fold`, `is_minimal`, the partition and the numbering loop of `minimal_image`, exactly -/

/-- the generic `Partition<T>` of C20 (`T = usize`) -/
abbrev UF := DSymVerif.Part.GPart

/-- `Partition::new()` -/
def UF.new : UF := DSymVerif.Part.GPart.new

/-- `p.find(&x)`: the answer and the new state behind the `UnsafeCell` (interning, path
    compression); a root walk that runs out of fuel (non-termination) is a panic here -/
def ufFind (g : UF) (x : Nat) : Outcome (UF × Nat) :=
  match DSymVerif.Part.GPart.find g x with
  | .ok r => .ok r
  | .err => .panic
  | .panic => .panic

/-- `p.unite(&a, &b)` -/
def ufUnite (g : UF) (a b : Nat) : Outcome UF :=
  match DSymVerif.Part.GPart.unite g a b with
  | .ok r => .ok r
  | .err => .panic
  | .panic => .panic

/-- the `while let Some((d, e)) = queue.pop_front()` loop of `fold`:
    `if p.find(&d) != p.find(&e) { p.unite(&d, &e); for i in 0..=dim { … } }` -/
def foldLoopUF (s : MV) : Nat → Queue → UF → Outcome UF
  | 0, _, _ => .panic
  | _ + 1, [], g => .ok g
  | fuel + 1, (d, e) :: q, g =>
    match ufFind g d with
    | .ok (g1, rd) =>
      match ufFind g1 e with
      | .ok (g2, re) =>
        if rd ≠ re then
          match ufUnite g2 d e with
          | .ok g3 =>
            match foldInner s d e (List.range (s.dim + 1)) q with
            | some q' => foldLoopUF s fuel q' g3
            | none => .err
          | .err => .panic
          | .panic => .panic
        else foldLoopUF s fuel q g2
      | .err => .panic
      | .panic => .panic
    | .err => .panic
    | .panic => .panic

/-- `self.fold(p0, d, e)`; `let mut p = p0.clone()` is a value copy -/
def foldUF (s : MV) (g0 : UF) (d e : Nat) : Outcome UF :=
  if d = 0 || e = 0 || !s.degreesMatch d e then .err
  else foldLoopUF s (foldFuel s) [(d, e)] g0

/-- `(2..=size).all(|d| self.fold(&p, 1, d).is_none())` with `p = Partition::new()` never
    touched (every `fold` works on its own clone) -/
def isMinimalLoopUF (s : MV) : List Nat → Outcome Bool
  | [] => .ok true
  | d :: ds =>
    match foldUF s UF.new 1 d with
    | .err => isMinimalLoopUF s ds
    | .ok _ => .ok false
    | .panic => .panic

/-- `is_minimal()` -/
def isMinimalUF (s : MV) : Outcome Bool := isMinimalLoopUF s (s.elements.drop 1)

/-- `(2..=size).fold(Partition::new(), |p, d| ds.fold(&p, 1, d).unwrap_or(p))`: on `None` the
    untouched `p` is kept (what `fold` interned or compressed lived in its clone) -/
def foldAllUF (s : MV) : List Nat → UF → Outcome UF
  | [], g => .ok g
  | d :: ds, g =>
    match foldUF s g 1 d with
    | .ok g' => foldAllUF s ds g'
    | .err => foldAllUF s ds g
    | .panic => .panic

/-- the numbering loop `for d in 1..=ds.size() { let e = p.find(&d); … }` on the union–find
    (`find` goes through the `UnsafeCell`: the state is threaded) -/
def numberLoopUF : UF → List Nat → NumState → Outcome NumState
  | _, [], st => .ok st
  | g, d :: ds, st =>
    match ufFind g d with
    | .ok (g1, e) =>
      match st.src2img[e]? with
      | none => .panic
      | some x =>
        let st1 : Outcome NumState :=
          if x = 0 then
            if st.next < st.img2src.size then
              .ok { src2img := st.src2img.setIfInBounds e st.next,
                    img2src := st.img2src.setIfInBounds st.next e, next := st.next + 1 }
            else .panic
          else .ok st
        match st1 with
        | .ok st1 =>
          match st1.src2img[e]? with
          | some y =>
            if d < st1.src2img.size then
              numberLoopUF g1 ds { st1 with src2img := st1.src2img.setIfInBounds d y }
            else .panic
          | none => .panic
        | .err => .err
        | .panic => .panic
    | .err => .panic
    | .panic => .panic

/-- the view of a `PartialDSym` (`DSymData`): `m(i, i+1, d)` is `mPartial`.  `mAdj` maps a
    modelled panic of `mPartial` (orbit tables out of range) to `none`; the driver reports
    `PANIC` as the model's answer whenever `mPanics` holds, so nothing is defaulted silently. -/
def ofSym (ds : DSymData) : MV := { size := ds.size, dim := ds.dim, op := ds.op, m := ds.mAdj }

def mPanics (ds : DSymData) : Bool :=
  (List.range ds.dim).any fun i => (List.range ds.size).any fun d0 =>
    match ds.mPartial i (i + 1) (d0 + 1) with
    | .ok _ => false
    | _ => true

/-- the view of a plain D-set (`PartialDSet`): default `m` of the trait -/
def ofSet (ds : DSetData) : MV :=
  { size := ds.size, dim := ds.dim, op := ds.opPartial, m := fun i d => ds.viewPartial.m i (i + 1) d }

/-- every index used by the two closures handed to `build_set` / `build_sym_using_ms` is in range -/
def closuresInRange (ds : DSymData) (st : NumState) : Bool :=
  (List.range (ds.dim + 1)).all fun i => (List.range (st.next - 1)).all fun d0 =>
    match st.img2src[d0 + 1]? with
    | none => false
    | some c =>
      match ds.op i c with
      | some e => e < st.src2img.size
      | none => true

/-- `minimal_image(ds)` (on the union–find) -/
def minimalImage (ds : DSymData) : Outcome DSymData :=
  let s := ofSym ds
  match isMinimalUF s with
  | .ok true => asPartialDSym ds
  | .ok false =>
    match foldAllUF s (s.elements.drop 1) UF.new with
    | .ok p =>
      match numberLoopUF p s.elements
          { src2img := Array.replicate (ds.size + 1) 0, img2src := Array.replicate (ds.size + 1) 0, next := 1 } with
      | .ok st =>
        if st.next < 1 then .panic          -- `next - 1` on usize
        else if !closuresInRange ds st then .panic
        else
          match buildSet (st.next - 1) ds.dim
              (fun i d => (ds.op i (st.img2src.getD d 0)).map (fun e => st.src2img.getD e 0)) with
          | .ok dset => buildSymUsingMs dset (fun i d => ds.mAdj i (st.img2src.getD d 0))
          | .err => .err
          | .panic => .panic
      | .err => .err
      | .panic => .panic
    | .err => .err
    | .panic => .panic
  | .err => .err
  | .panic => .panic

end DSymVerif.Mor
