/-
Model of /repo/src/covers.rs, composed with the models of `fundamental_group`
(Model/FundGroup.lean), `coset_table` (Model/Cosets.lean) and `coset_tables`
(Model/LowIndex.lean):  `cover_for_table` on the model of `CosetTable` itself (its real
`get`, including `canon`), `subgroup_cover`, `finite_universal_cover`, `covers`.
Import-free beyond other Model files, executable.

    fn trace_word(table, start, word) = word.iter().fold(start, |row, g| table.get(row, *g).unwrap())
    cover_for_table(ds, table, e2w)   = cover(ds, table.len(), |sheet, i, d|
                                          trace_word(table, sheet, e2w.get(&(d, i)).unwrap_or(&empty)))
    subgroup_cover(ds, subgens)       = { g = fundamental_group(ds);
                                          cover_for_table(ds, coset_table(g.nr_generators(), &g.relators, subgens), &g.edge_to_word) }
    finite_universal_cover(ds)        = subgroup_cover(ds, &vec![])
    covers(ds, max_deg)               = coset_tables(g.nr_generators(), &g.relators, max_deg)
                                          .map(|t| cover_for_table(ds, &t, &g.edge_to_word)).collect()
-/
import DSymVerif.Model.Covers
import DSymVerif.Model.FundGroup
import DSymVerif.Model.LowIndex

namespace DSymVerif.Covers
open DSymVerif DSymVerif.DS

/-- `trace_word(table, start, word)` on the model of `CosetTable` -/
def traceC (t : Cosets.Table) (start : Nat) (word : List Int) : Outcome Nat :=
  word.foldl (fun (acc : Outcome Nat) g =>
    match acc with
    | .ok row =>
      (match t.get row g with
       | .ok (some r) => .ok r
       | _ => .panic)
    | o => o) (.ok start)

/-- the closure handed to `cover` -/
def sheetTraceC (t : Cosets.Table) (e2w : FG.E2W) (k i d : Nat) : Outcome Nat :=
  traceC t k (FG.e2wGet e2w (d, i))

/-- every call of the closure that `build_set` makes returns -/
def allTracesDefinedC (s : DSymData) (t : Cosets.Table) (e2w : FG.E2W) : Bool :=
  (List.range t.len).all fun k => (List.range (s.dim + 1)).all fun i =>
    (List.range s.size).all fun d0 =>
      (s.op i (d0 + 1)).isNone || (sheetTraceC t e2w k i (d0 + 1)).isOk

def sheetMapC (t : Cosets.Table) (e2w : FG.E2W) (k i d : Nat) : Nat :=
  match sheetTraceC t e2w k i d with
  | .ok r => r
  | _ => 0

/-- `cover_for_table(ds, table, edge_to_word)` -/
def coverForTableC (s : DSymData) (t : Cosets.Table) (e2w : FG.E2W) : Outcome DSymData :=
  if allTracesDefinedC s t e2w then cover s t.len (sheetMapC t e2w) else .panic

/-- `subgroup_cover(ds, subgens)`; `.err` = the fuel of the Todd–Coxeter model ran out -/
def subgroupCover (s : DSymData) (subgens : List (List Int)) : Outcome DSymData :=
  match FG.fundamentalGroup s with
  | .ok g =>
    (match Cosets.cosetTable g.nrGenerators g.relators subgens with
     | .ok t => coverForTableC s t g.edgeToWord
     | .err => .err
     | .panic => .panic)
  | .err => .err
  | .panic => .panic

/-- `finite_universal_cover(ds)` -/
def finiteUniversalCover (s : DSymData) : Outcome DSymData := subgroupCover s []

/-- the `for table in coset_tables(…)` loop of `covers` -/
def coversFrom (s : DSymData) (e2w : FG.E2W) : List (Outcome Cosets.Table) → Outcome (List DSymData)
  | [] => .ok []
  | .ok t :: rest =>
    (match coverForTableC s t e2w with
     | .ok c =>
       (match coversFrom s e2w rest with
        | .ok cs => .ok (c :: cs)
        | .err => .err
        | .panic => .panic)
     | .err => .err
     | .panic => .panic)
  | .err :: _ => .err
  | .panic :: _ => .panic

/-- `covers(ds, max_deg)`; `fuel` = search-node budget of the model of `coset_tables` (the Rust
    iterator has none; C12 `coset_tables_fuel_irrelevant`) -/
def covers (s : DSymData) (maxDeg fuel : Nat) : Outcome (List DSymData) :=
  match FG.fundamentalGroup s with
  | .ok g => coversFrom s g.edgeToWord (Cosets.cosetTables g.nrGenerators g.relators maxDeg fuel)
  | .err => .err
  | .panic => .panic

end DSymVerif.Covers
