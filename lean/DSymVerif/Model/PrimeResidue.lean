/-
Model of /repo/src/geometry/prime_residue_classes.rs  (import-free, executable).

`PrimeResidueClass<P>` is the struct `{ value: i64 }`; the model is the `Int` stored in
`value`, the modulus `p` is an explicit argument.  Every `i64` operation of the Rust
code is passed through `chk`, which is `panic` outside `[-2^63, 2^63)` (the harness
builds the library with overflow checks on, so a wrap-around *is* a panic), so that
`prc_no_overflow` can be stated: for the moduli `valid()` admits no operation on
canonical values ever leaves the range.
-/
import DSymVerif.Model.Outcome

namespace DSymVerif.PRC

def i64Min : Int := -9223372036854775808
def i64Max : Int := 9223372036854775807

def inI64 (x : Int) : Bool := decide (i64Min ≤ x) && decide (x ≤ i64Max)

/-- an `i64` result in an overflow-checked build -/
def chk (x : Int) : Outcome Int := if inI64 x then .ok x else .panic

/-- largest modulus accepted by `valid()`:
    `P as f64 > (i64::MAX as f64).sqrt()` ⇔ `P > 3037000499` (√2^63 = 3037000499.97…) -/
def maxP : Int := 3037000499

/-- `fn valid() -> bool` : range test, then trial division `for n in 2..` until `n*n > P`.
    `fuel` bounds the unbounded `for` (p iterations always suffice). -/
def validLoop (p : Int) : Nat → Int → Bool
  | 0, _ => true
  | f + 1, n => if n * n > p then true else if p.tmod n = 0 then false else validLoop p f (n + 1)

def valid (p : Int) : Bool :=
  if p < 2 || p > maxP then false else validLoop p p.toNat 2

/-- `From<i64>` after the `fix:` commit for defect D8 (`n.rem_euclid(P)`). -/
def fromI64 (p n : Int) : Int := n.emod p

/-- `From<i64>` of the pinned tree: `if n >= 0 { n % P } else { n % P + P }`
    (Rust `%` truncates: for a negative multiple of `P` this is `0 + P = P`, defect D8). -/
def fromI64Pinned (p n : Int) : Int := if n ≥ 0 then n.tmod p else n.tmod p + p

/-- `From<PrimeResidueClass<P>> for i64` -/
def toI64 (a : Int) : Int := a

/-- `Add` : `(self.value + rhs.value).into()` -/
def add (p a b : Int) : Outcome Int := (chk (a + b)).bind fun s => .ok (fromI64 p s)

/-- `Sub` : `(self.value - rhs.value).into()` -/
def sub (p a b : Int) : Outcome Int := (chk (a - b)).bind fun s => .ok (fromI64 p s)

/-- `Mul` : `(self.value * rhs.value).into()` -/
def mul (p a b : Int) : Outcome Int := (chk (a * b)).bind fun s => .ok (fromI64 p s)

/-- `Neg` : `(-self.value).into()` -/
def neg (p a : Int) : Outcome Int := (chk (-a)).bind fun s => .ok (fromI64 p s)

def zero (p : Int) : Int := fromI64 p 0
def one (p : Int) : Int := fromI64 p 1
def isZero (a : Int) : Bool := a == 0
def isOne (a : Int) : Bool := a == 1

/-- the `while r1 != 0` loop of `inverse` (state `t t1 r r1`), every product and
    difference overflow-checked; returns the final `(t, r)`.  The fuel bounds the
    `while`; `r1` strictly decreases, so `r1 + 1` iterations suffice
    (`Proofs/PrimeResidue.lean`: the fuel never runs out on canonical values; if it
    did the model would say `panic`, which the correspondence would expose). -/
def invLoop : Nat → Int → Int → Int → Int → Outcome (Int × Int)
  | 0, _, _, _, _ => .panic
  | f + 1, t, t1, r, r1 =>
    if r1 = 0 then .ok (t, r) else
    (chk (r.tdiv r1)).bind fun q =>
    (chk (q * t1)).bind fun qt =>
    (chk (t - qt)).bind fun t2 =>
    (chk (q * r1)).bind fun qr =>
    (chk (r - qr)).bind fun r2 =>
    invLoop f t1 t2 r1 r2

/-- `fn inverse(self) -> Self` : extended Euclid on `(P, value)`, `assert_eq!(r, 1)`,
    `t.into()`. -/
def inverse (p a : Int) : Outcome Int :=
  (invLoop (a.toNat + 2) 0 1 p a).bind fun tr =>
    if tr.2 = 1 then .ok (fromI64 p tr.1) else .panic

/-- `Div` : `self * rhs.inverse()` -/
def div (p a b : Int) : Outcome Int := (inverse p b).bind fun i => mul p a i

/-- `From<BigInt>` (modular_solver.rs): `(n % P).to_i64().unwrap().into()`;
    `BigInt %` truncates, the remainder always fits an `i64`. -/
def fromBigInt (p n : Int) : Int := fromI64 p (n.tmod p)

end DSymVerif.PRC
