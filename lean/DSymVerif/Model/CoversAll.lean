/-
Model of `covers(ds, max_deg)` of /repo/src/covers.rs without a fuel parameter: the model of
`coset_tables` is run with the search-node budget `Cosets.searchFuel nr_gens max_deg`, which is
proved to exceed the size of the whole search tree (C12 `coset_tables_fuel_adequate`), so the
budget never cuts the enumeration short.  Import-free beyond other Model files, executable.
-/
import DSymVerif.Model.CoversWired

namespace DSymVerif.Covers
open DSymVerif DSymVerif.DS

/-- `covers(ds, max_deg)` -/
def coversAll (s : DSymData) (maxDeg : Nat) : Outcome (List DSymData) :=
  match FG.fundamentalGroup s with
  | .ok g => coversFrom s g.edgeToWord
      (Cosets.cosetTables g.nrGenerators g.relators maxDeg (Cosets.searchFuel g.nrGenerators maxDeg))
  | .err => .err
  | .panic => .panic

end DSymVerif.Covers
