/-
Spec of property C01 — written from the statement of the property, not from the code.
Import-free.

  "Printing any complete D-symbol and parsing the text back yields an equal symbol, and
   printing a parsed symbol gives text that parses to that same symbol again.  Parsing an
   arbitrary string always terminates with either a symbol whose operations are
   involutions on 1..size and whose degrees are multiples of the corresponding orbit
   lengths, or an error value; it never panics."

A symbol is observed as plain tables: `op i d` (0 = undefined), the branching numbers
`v i d` and the degrees `m i d` of the (i,i+1)-orbit of chamber d.  "Equal symbol" =
equal size, dimension, operation table and branching table (DESIGN §5.1; the
`<set.sym:` counters are not part of a symbol).
-/
namespace DSymVerif.SpecC01

structure Sym where
  size : Nat
  dim : Nat
  op : Nat → Nat → Nat
  v : Nat → Nat → Nat
  m : Nat → Nat → Nat

namespace Sym

def chambers (s : Sym) : List Nat := (List.range s.size).map (· + 1)
def indices (s : Sym) : List Nat := List.range (s.dim + 1)

/-- every operation is an involution on 1..size (in particular everywhere defined) -/
def involutions (s : Sym) : Bool :=
  s.indices.all fun i => s.chambers.all fun d =>
    let e := s.op i d
    1 ≤ e && e ≤ s.size && s.op i e == d

/-- the operation table is completely defined (no 0 entry) -/
def opComplete (s : Sym) : Bool :=
  s.indices.all fun i => s.chambers.all fun d => s.op i d != 0

/-- least k ≥ 1 with (s_{i+1} s_i)^k d = d, by naive iteration -/
def orbitLenAux (s : Sym) (i d : Nat) : Nat → Nat → Nat → Option Nat
  | 0, _, _ => none
  | fuel + 1, e, k =>
    let e' := s.op (i + 1) (s.op i e)
    if e' == d then some (k + 1) else orbitLenAux s i d fuel e' (k + 1)

def orbitLen (s : Sym) (i d : Nat) : Option Nat := orbitLenAux s i d (s.size + 1) d 0

/-- every degree is a multiple of the length of its orbit, and is that length times the
    stored branching number -/
def degreesAreMultiples (s : Sym) : Bool :=
  (List.range s.dim).all fun i => s.chambers.all fun d =>
    match s.orbitLen i d with
    | some r => r > 0 && s.m i d % r == 0 && s.m i d == r * s.v i d
    | none => false

/-- the same orbit lengths computed for all chambers at once: every cycle of s_{i+1} s_i is walked
    once from its least chamber and its length written to all its members (linear in the size;
    used for symbols with tens of thousands of chambers, where asking `orbitLen` per chamber
    is quadratic on long orbits; the driver evaluates both on small symbols and reports any
    difference) -/
def cycleFrom (s : Sym) (i d : Nat) : Nat → Nat → List Nat → List Nat
  | 0, _, acc => acc
  | fuel + 1, e, acc =>
    let e' := s.op (i + 1) (s.op i e)
    if e' == d then e' :: acc else cycleFrom s i d fuel e' (e' :: acc)

def orbitLenTable (s : Sym) (i : Nat) : Array Nat :=
  s.chambers.foldl (fun tab d =>
    if tab.getD d 0 != 0 then tab
    else
      let cyc := cycleFrom s i d (s.size + 1) d []
      let k := cyc.length
      cyc.foldl (fun t x => t.setIfInBounds x k) tab)
    (Array.replicate (s.size + 1) 0)

def degreesAreMultiplesFast (s : Sym) : Bool :=
  (List.range s.dim).all fun i =>
    let tab := s.orbitLenTable i
    s.chambers.all fun d =>
      let r := tab.getD d 0
      r > 0 && s.m i d % r == 0 && s.m i d == r * s.v i d

def oraclesAgree (s : Sym) : Bool :=
  (List.range s.dim).all fun i =>
    let tab := s.orbitLenTable i
    s.chambers.all fun d => s.orbitLen i d == some (tab.getD d 0)

/-- degrees are constant on (i,i+1)-orbits (they belong to the orbit, not the chamber) -/
def degreesOnOrbits (s : Sym) : Bool :=
  (List.range s.dim).all fun i => s.chambers.all fun d =>
    s.m i (s.op i d) == s.m i d && s.m i (s.op (i + 1) d) == s.m i d &&
    s.v i (s.op i d) == s.v i d && s.v i (s.op (i + 1) d) == s.v i d

/-- equal symbols (DESIGN §5.1) -/
def same (a b : Sym) : Bool :=
  a.size == b.size && a.dim == b.dim &&
  (a.indices.all fun i => a.chambers.all fun d => a.op i d == b.op i d) &&
  ((List.range a.dim).all fun i => a.chambers.all fun d => a.v i d == b.v i d && a.m i d == b.m i d)

end Sym

/-- observable result of one `parse::<PartialDSym>()` call -/
inductive Res where
  | err
  | panic
  | ok (s : Sym)

def Res.notPanic : Res → Bool
  | .panic => false
  | _ => true

/-- symbols up to this size are judged with the per-chamber oracle (and the two oracles compared) -/
def naiveLimit : Nat := 1500

/-- clauses about the result of parsing an arbitrary string -/
def parsedClauses (r : Res) : List (String × Bool) :=
  match r with
  | .panic => [("parsing-never-panics", false)]
  | .err => []
  | .ok s =>
    [ ("parsed-size-and-dim-at-least-1", s.size ≥ 1 && s.dim ≥ 1),
      ("parsed-ops-are-involutions-on-1..size", s.involutions),
      ("parsed-degrees-are-multiples-of-orbit-lengths",
        if s.size ≤ naiveLimit then s.degreesAreMultiples else s.degreesAreMultiplesFast),
      ("spec-orbit-length-oracles-agree", s.size > naiveLimit || s.oraclesAgree),
      ("parsed-degrees-constant-on-orbits", s.degreesOnOrbits) ]

/-- "printing a parsed symbol gives text that parses to that same symbol again":
    `again` is the result of parsing the printed text of `s` -/
def reparseClauses (s : Sym) (again : Res) : List (String × Bool) :=
  match again with
  | .panic => [("parsing-never-panics", false)]
  | .err => [("printed-text-parses-again", false)]
  | .ok t => [("printed-text-parses-to-the-same-symbol", s.same t)] ++ parsedClauses again

/-- "printing any complete D-symbol and parsing the text back yields an equal symbol".
    Demanded whenever the operation table is complete and involutive (a symbol whose
    branching numbers are partly undefined prints them as 0 and is the parse result of its
    own text, so the second sentence of the property covers it); for incomplete operation
    tables only "never panics" is demanded. -/
def printClauses (s : Sym) (again : Res) : List (String × Bool) :=
  if s.involutions then reparseClauses s again
  else [("parsing-never-panics", again.notPanic)]

end DSymVerif.SpecC01
