/-
Spec of property C16 — written from the definitions, not from simplify.rs.  No Mathlib; reuses
the plain-table view `SpecC02.G` and the word / presentation oracles of `SpecC09`
(abelianisation by integer row and column reduction, brute-force subgroup counts, HLT
Todd–Coxeter).

A branch-free 3D Delaney set (chambers 1..n, operations s_0..s_3, all m_ij = r_ij) describes a
closed 3-manifold cell complex exactly when

  * it is complete and every operation is an involution without fixed points (a fixed point of
    s_i is a mirror: boundary, not a closed manifold),
  * far operations commute and differ (r_02 = r_03 = r_13 = 2; r = 1 would need a branching
    number 2 to reach m = 2, i.e. a cone axis),
  * every tile ({0,1,2}-component) and every vertex figure ({1,2,3}-component) is a sphere.

For a loopless 2D component with commuting, differing outer operations the faces, edges and
vertices of the cell decomposition are the (a,a+1)-, (a,a+2)- and (a+1,a+2)-orbits, so the
surface is closed with Euler characteristic χ = F − E + V, and a closed connected surface is
a sphere iff χ = 2 (this is "curvature 4" for branch-free symbols: K = 2χ).

Topology is compared through isomorphism invariants of the fundamental group of the manifold
= orbifold fundamental group of the branch-free symbol, presented from the chamber graph:
generators = facets not on a breadth-first spanning tree (one per facet pair), relators = the
closed walks around all 2-orbits (Reidemeister–Schreier; the textbook presentation of
`SpecC09.textbook` with the tree and pairing relators already used for elimination, which keeps
400-chamber inputs tractable), then Tietze elimination of generators that occur exactly once
in a relator.
-/
import DSymVerif.Spec.C02
import DSymVerif.Spec.C09

namespace DSymVerif.SpecC16
open DSymVerif.SpecC02 DSymVerif.SpecC09

/-! ## orbits of a set of operations by flood fill -/

/-- label every chamber reachable from the stack with `c` -/
def flood (g : G) (idx : List Nat) (c : Nat) : Nat → List Nat → Array Nat → Array Nat
  | 0, _, lab => lab
  | _, [], lab => lab
  | fuel + 1, d :: stack, lab =>
    let acc := idx.foldl (fun (acc : List Nat × Array Nat) i =>
      let e := g.op i d
      if e == 0 || acc.2.getD e 1 != 0 then acc else (e :: acc.1, acc.2.setIfInBounds e c)) (stack, lab)
    flood g idx c fuel acc.1 acc.2

/-- (label of the `idx`-orbit of every chamber, number of orbits); labels are 1..k in the order
    of the least chambers -/
def orbitLabels (g : G) (idx : List Nat) : Array Nat × Nat :=
  g.chambers.foldl (fun (acc : Array Nat × Nat) d =>
    if acc.1.getD d 0 != 0 then acc
    else
      let c := acc.2 + 1
      (flood g idx c (g.size + 1) [d] (acc.1.setIfInBounds d c), c))
    (Array.replicate (g.size + 1) 0, 0)

def orbitCount (g : G) (idx : List Nat) : Nat := (orbitLabels g idx).2

/-- least chamber of every `idx`-orbit -/
def orbitLeast (g : G) (idx : List Nat) : List Nat :=
  let lab := (orbitLabels g idx).1
  (g.chambers.foldl (fun (acc : List Nat × Nat) d =>
    if lab.getD d 0 > acc.2 then (d :: acc.1, lab.getD d 0) else acc) ([], 0)).1.reverse

/-! ## the manifold conditions -/

def inRangeInvolutive (g : G) : Bool := g.size ≥ 1 && g.dim == 3 && g.involutive

def looplessOn (g : G) (idx : List Nat) : Bool :=
  idx.all fun i => g.chambers.all fun d => g.op i d != d

/-- all adjacent branching numbers are 1 -/
def adjacentBranchFree (g : G) : Bool :=
  (List.range g.dim).all fun i => g.chambers.all fun d => g.v i d == 1

/-- far operations commute … -/
def farCommute (g : G) : Bool := g.farCommute

/-- … and differ (r_ij = 2 exactly, no hidden branching number 2) -/
def farDiffer (g : G) : Bool :=
  g.indices.all fun i => g.indices.all fun j =>
    !(i + 1 < j) || g.chambers.all fun d => g.op i d != g.op j d

/-- Euler characteristics F − E + V of the components of the 2D part on indices a, a+1, a+2 -/
def eulerChars (g : G) (a : Nat) : List Int :=
  let (comp, k) := orbitLabels g [a, a + 1, a + 2]
  let add := fun (chi : Array Int) (i j : Nat) (sign : Int) =>
    (orbitLeast g [i, j]).foldl (fun (chi : Array Int) d =>
      let c := comp.getD d 0
      chi.setIfInBounds c (chi.getD c 0 + sign)) chi
  let chi := add (Array.replicate (k + 1) 0) a (a + 1) 1
  let chi := add chi a (a + 2) (-1)
  let chi := add chi (a + 1) (a + 2) 1
  (chi.toList.drop 1)

/-- every component of the 2D part on a, a+1, a+2 is a sphere -/
def partsAreSpheres (g : G) (a : Nat) : Bool :=
  looplessOn g [a, a + 1, a + 2] && (eulerChars g a).all (· == 2)

/-- the domain of the property and, at the same time, the first conclusion: a complete
    branch-free 3D D-set whose tiles and vertex figures are spheres -/
def manifoldClauses (g : G) : List (String × Bool) :=
  [ ("entries-in-range-and-involutive", inRangeInvolutive g),
    ("complete", g.complete),
    ("branch-free-adjacent", adjacentBranchFree g),
    ("far-operations-commute", farCommute g),
    ("branch-free-far", farDiffer g),
    ("tiles-are-spheres", partsAreSpheres g 0),
    ("vertex-figures-are-spheres", partsAreSpheres g 1) ]

def isManifold (g : G) : Bool := (manifoldClauses g).all (·.2)

def connected (g : G) : Bool := orbitCount g g.indices == 1

/-! ## census clauses for pseudo-toroidal covers -/

/-- r_ij(d) = 2 for some chamber: (s_j s_i)² d = d but s_j s_i d ≠ d -/
def someR2 (g : G) (i j : Nat) : Bool :=
  g.chambers.any fun d =>
    let e := g.op j (g.op i d)
    e != d && g.op j (g.op i e) == d

def censusClauses (g : G) : List (String × Bool) :=
  [ ("single-tile", orbitCount g [0, 1, 2] == 1),
    ("single-vertex", orbitCount g [1, 2, 3] == 1),
    ("no-edge-of-degree-2", !someR2 g 2 3),
    ("no-face-of-degree-2", !someR2 g 0 1),
    ("no-vertex-of-degree-2-in-a-tile", !someR2 g 1 2) ]

/-! ## fundamental group from the chamber graph -/

def facetIx (g : G) (d i : Nat) : Nat := (d - 1) * (g.dim + 1) + i

/-- signed generator of every facet (0 on the spanning tree), number of generators, and the
    relators g² of mirror facets -/
def facetGens (g : G) : Array Int × Nat × List (List Int) :=
  let tree := (spanTree g).foldl (fun (t : Array Bool) (f : Nat × Nat) =>
    (t.setIfInBounds (facetIx g f.1 f.2) true).setIfInBounds (facetIx g (g.op f.2 f.1) f.2) true)
    (Array.replicate (g.size * (g.dim + 1)) false)
  g.chambers.foldl (fun (acc : Array Int × Nat × List (List Int)) d =>
    g.indices.foldl (fun (acc : Array Int × Nat × List (List Int)) i =>
      let e := g.op i d
      if tree.getD (facetIx g d i) true || e < d || e == 0 then acc
      else
        let k := acc.2.1 + 1
        let a := acc.1.setIfInBounds (facetIx g d i) (k : Int)
        if e == d then (a, k, [(k : Int), (k : Int)] :: acc.2.2)
        else (a.setIfInBounds (facetIx g e i) (-(k : Int)), k, acc.2.2)) acc)
    (Array.replicate (g.size * (g.dim + 1)) 0, 0, [])

/-- the presentation: one relator per 2-orbit (raised to its branching number) -/
def presentation (g : G) : Pres :=
  let (gens, n, mirrors) := facetGens g
  let f := fun (d i : Nat) => let x := gens.getD (facetIx g d i) 0; if x == 0 then [] else [x]
  let orbits := (indexPairs g).flatMap fun (i, j) =>
    (orbitLeast g [i, j]).map fun d => pow (orbitWord g f i j d) (vOf g i j d)
  { ngens := n, rels := mirrors ++ orbits }

/-- Tietze elimination `A y B = 1`, y = x^{±1} occurring once: x^{±1} = (B A)⁻¹ -/
def tietzeLoop : Nat → List (List Int) → List Nat → List (List Int) × List Nat
  | 0, rels, gone => (rels, gone)
  | fuel + 1, rels, gone =>
    match findElim rels with
    | none => (rels, gone)
    | some (w, y) =>
      let k := w.idxOf y
      let a := w.take k
      let b := w.drop (k + 1)
      let u := if y > 0 then inv (b ++ a) else b ++ a
      let rels' := ((rels.map (subst y.natAbs u)).map cycReduce).filter (!·.isEmpty)
      tietzeLoop fuel rels' (y.natAbs :: gone)

/-- simplified presentation, remaining generators renumbered 1..k in ascending order,
    relators up to conjugation and inversion without repetitions -/
def tietze (p : Pres) : Pres :=
  let (rels, gone) := tietzeLoop p.ngens ((p.rels.map cycReduce).filter (!·.isEmpty)) []
  let goneMark := gone.foldl (fun (a : Array Bool) x => a.setIfInBounds x true) (Array.replicate (p.ngens + 1) false)
  let keep := ((List.range p.ngens).map (· + 1)).filter (fun x => !goneMark.getD x false)
  let newIdx : Array Nat := keep.zipIdx.foldl (fun (a : Array Nat) (x : Nat × Nat) => a.setIfInBounds x.1 (x.2 + 1))
    (Array.replicate (p.ngens + 1) 0)
  let ren := fun (y : Int) => if y > 0 then (newIdx.getD y.natAbs 0 : Int) else -(newIdx.getD y.natAbs 0 : Int)
  { ngens := keep.length, rels := dedup ((rels.map (·.map ren)).map conjRep) }

def groupOf (g : G) : Pres := tietze (presentation g)

/-! ## invariants -/

/-- number of subgroups of index 2 from the abelianisation: 2^(free rank + even factors) − 1 -/
def index2FromH1 (h : Nat × List Nat) : Nat :=
  2 ^ (h.1 + (h.2.filter (· % 2 == 0)).length) - 1

structure Invariants where
  h1 : Option (Nat × List Nat)
  index2 : Option Nat            -- classes = subgroups of index 2
  classes3 : Option Nat          -- conjugacy classes of subgroups of index 3 (brute force)
  deriving Repr, BEq

def invariants (p : Pres) (budget : Nat) : Invariants :=
  let h1 := abelianInvariants p
  { h1 := h1,
    index2 := (match subgroupCounts p 2 budget with
               | some c => some c.2
               | none => h1.map index2FromH1),
    classes3 := (subgroupCounts p 3 budget).map (·.2) }

def optAgree {α} [BEq α] (a b : Option α) : Bool :=
  match a, b with
  | some x, some y => x == y
  | _, _ => true

/-- same first homology, same number of subgroups of index 2, same number of classes of
    subgroups of index 3 (each compared when both sides could be computed; the first homology
    must be computable on both sides) -/
def topologyClauses (a b : Invariants) : List (String × Bool) :=
  [ ("first-homology-computed", a.h1.isSome && b.h1.isSome),
    ("same-first-homology", optAgree a.h1 b.h1),
    ("index-2-count-consistent-with-homology",
        optAgree a.index2 (a.h1.map index2FromH1) && optAgree b.index2 (b.h1.map index2FromH1)),
    ("same-number-of-index-2-subgroups", optAgree a.index2 b.index2),
    ("same-number-of-index-3-classes", optAgree a.classes3 b.classes3) ]

/-! ## minimal image by partition refinement (for the corpus invariance clause)

The minimal image of a connected D-symbol is its quotient by the coarsest equivalence that is
compatible with all operations and with the degrees m_{i,i+1} = r·v.  It is computed the way a
minimal automaton is: start from the classes of equal degree vectors and split classes whose
members have neighbours in different classes until nothing changes.  Two symbols have
isomorphic minimal images iff their canonical minimal images are equal. -/

/-- number the distinct keys in order of first occurrence; returns the class of every chamber
    (index 0 unused) and the number of classes -/
def classify {α} [BEq α] (n : Nat) (key : Nat → α) : Array Nat × Nat :=
  let r := (List.range n).foldl (fun (acc : Array Nat × List (α × Nat) × Nat) d0 =>
    let k := key (d0 + 1)
    match acc.2.1.find? (fun e => e.1 == k) with
    | some e => (acc.1.setIfInBounds (d0 + 1) e.2, acc.2.1, acc.2.2)
    | none => (acc.1.setIfInBounds (d0 + 1) (acc.2.2 + 1), (k, acc.2.2 + 1) :: acc.2.1, acc.2.2 + 1))
    (Array.replicate (n + 1) 0, [], 0)
  (r.1, r.2.2)

def refineLoop (g : G) : Nat → Array Nat × Nat → Array Nat × Nat
  | 0, c => c
  | fuel + 1, c =>
    let c' := classify g.size (fun d => c.1.getD d 0 :: g.indices.map (fun i => c.1.getD (g.op i d) 0))
    if c'.2 == c.2 then c else refineLoop g fuel c'

/-- the coarsest compatible partition: (class of every chamber, number of classes) -/
def coarsest (g : G) : Array Nat × Nat :=
  refineLoop g (g.size + 1)
    (classify g.size (fun d => (List.range g.dim).map (fun i => (g.orbitLen i (i + 1) d).getD 0 * g.v i d)))

/-- the quotient symbol: classes are numbered in order of their least members -/
def minimalImage (g : G) : G :=
  let (cls, k) := coarsest g
  let rep : Array Nat := (g.chambers.reverse).foldl (fun (a : Array Nat) d => a.setIfInBounds (cls.getD d 0) d)
    (Array.replicate (k + 1) 0)
  let op := fun (i c : Nat) => if 1 ≤ c && c ≤ k && i ≤ g.dim then cls.getD (g.op i (rep.getD c 0)) 0 else 0
  let q0 : G := { size := k, dim := g.dim, op := op, v := fun _ _ => 0 }
  { q0 with v := fun i c =>
      let d := rep.getD c 0
      let m := (g.orbitLen i (i + 1) d).getD 0 * g.v i d
      let r := (q0.orbitLen i (i + 1) c).getD 0
      if r == 0 then 0 else m / r }

end DSymVerif.SpecC16
