/-
Spec of property C20 — written from the statement, not from the code (import-free).

An *event* is an operation of a history together with the answer the implementation
gave.  Per instance the Spec keeps

* `lab`  : a naive labelling of the element universe `0..n-1` — the quadratic
           relabelling oracle: `unite a b` rewrites every label equal to `lab b` into
           `lab a`.  (`Props/C20.oracle_sound` proves `lab u = lab v ↔ Conn us u v`
           for the list `us` of unions applied to that instance.)
* `seen` : the representatives observed so far that the property says must still be
           valid: pairs (element, answer of `find`), dropped when a union involves the
           element's class ("stays the same until a union involving that class").

Clauses
* find      : the answer is connected to the queried element (representative is a member
              of its class); against every still-valid earlier observation on the same
              instance: equal answers ⇔ connected (same representative exactly when
              connected; representative stable across operations that are not unions
              involving the class — finds, class listings, clones, and everything
              done to other instances).
* classes   : the listing is a partition of the queried elements, duplicates kept as given
              (same multiset), no empty class; members of a class pairwise connected,
              members of different classes not connected; classes and members in
              first-occurrence order (= the naive first-occurrence grouping).
* clone     : the clone inherits the unions (labelling) of its original; afterwards the
              two evolve separately — operations on one never touch the other's `lab`
              or `seen`, so independence in both directions is what the find/classes
              clauses check on interleaved histories.  Representatives are not required to
              be carried over to the clone (the statement does not say so).
-/
namespace DSymVerif.SpecC20

inductive Ev where
  | unite (k a b : Nat)
  | find (k a r : Nat)
  | classes (k : Nat) (elms : List Nat) (css : List (List Nat))
  | clone (i j : Nat)
  deriving Repr

def get (l : List Nat) (z : Nat) : Nat := l.getD z z

/-- quadratic relabelling: every label equal to that of `b` becomes that of `a` -/
def relabel (l : List Nat) (a b : Nat) : List Nat :=
  l.map (fun x => if x = get l b then get l a else x)

/-- labelling after the unions `us` (latest first) on the universe `0..n-1` -/
def labels (n : Nat) : List (Nat × Nat) → List Nat
  | [] => List.range n
  | (a, b) :: us => relabel (labels n us) a b

def conn (l : List Nat) (a b : Nat) : Bool := get l a == get l b

structure Inst where
  lab : List Nat
  seen : List (Nat × Nat)

/-- naive first-occurrence grouping of `elms` under a relation -/
def insertFO (rel : Nat → Nat → Bool) (e : Nat) : List (List Nat) → List (List Nat)
  | [] => [[e]]
  | [] :: cs => [] :: insertFO rel e cs
  | (h :: t) :: cs => if rel h e then (h :: t ++ [e]) :: cs else (h :: t) :: insertFO rel e cs

def groupFO (rel : Nat → Nat → Bool) (elms : List Nat) : List (List Nat) :=
  elms.foldl (fun acc e => insertFO rel e acc) []

def count (x : Nat) (l : List Nat) : Nat := (l.filter (· == x)).length

def sameMultiset (a b : List Nat) : Bool :=
  a.length == b.length && a.all (fun x => count x a == count x b)

def allPairs {α} (p : α → α → Bool) : List α → Bool
  | [] => true
  | x :: xs => xs.all (p x) && allPairs p xs

/-- clauses for a `find` answer -/
def findClauses (i : Inst) (a r : Nat) : List (String × Bool) :=
  [("representative-is-member-of-its-class", conn i.lab a r),
   ("connected-elements-same-representative-and-representative-stable",
      i.seen.all (fun p => !(conn i.lab a p.1) || r == p.2)),
   ("unconnected-elements-different-representatives",
      i.seen.all (fun p => conn i.lab a p.1 || r != p.2))]

/-- clauses for a `classes` answer -/
def classesClauses (i : Inst) (elms : List Nat) (css : List (List Nat)) : List (String × Bool) :=
  [("classes-partition-the-queried-elements", sameMultiset css.flatten elms && css.all (· != [])),
   ("class-members-connected", css.all (fun c => allPairs (conn i.lab) c)),
   ("different-classes-not-connected",
      allPairs (fun c d => c.all (fun x => d.all (fun y => !(conn i.lab x y)))) css),
   ("first-occurrence-order", css == groupFO (conn i.lab) elms)]

/-- instance store of the Spec: association list, latest binding first; a slot never
    written is the discrete partition of the universe `0..n-1` -/
def getI (n : Nat) : List (Nat × Inst) → Nat → Inst
  | [], _ => ⟨List.range n, []⟩
  | (j, i) :: r, k => if j = k then i else getI n r k

/-- state update of the Spec (no judgement) -/
def advance (n : Nat) (st : List (Nat × Inst)) : Ev → List (Nat × Inst)
  | .unite k a b =>
    let i := getI n st k
    let lab' := relabel i.lab a b
    (k, ⟨lab', i.seen.filter (fun p => !(conn lab' p.1 a))⟩) :: st
  | .find k a r =>
    let i := getI n st k
    (k, ⟨i.lab, if i.seen.any (fun p => p.1 == a && p.2 == r) then i.seen else (a, r) :: i.seen⟩) :: st
  | .classes _ _ _ => st
  | .clone i j => (j, ⟨(getI n st i).lab, []⟩) :: st

def clausesOf (n : Nat) (st : List (Nat × Inst)) : Ev → List (String × Bool)
  | .find k a r => findClauses (getI n st k) a r
  | .classes k elms css => classesClauses (getI n st k) elms css
  | _ => []

/-- first failing clause of a trace, `none` = the property holds on this trace -/
def checkFrom (n : Nat) (st : List (Nat × Inst)) : List Ev → Option String
  | [] => none
  | e :: es =>
    match (clausesOf n st e).find? (fun c => !c.2) with
    | some c => some c.1
    | none => checkFrom n (advance n st e) es

/-- universe size of a trace: 1 + largest element mentioned (answers included) -/
def evMax : Ev → Nat
  | .unite _ a b => max a b
  | .find _ a r => max a r
  | .classes _ elms css => max (elms.foldl max 0) (css.flatten.foldl max 0)
  | .clone _ _ => 0

def universeOf (es : List Ev) : Nat := (es.map evMax).foldl max 0 + 1

def check (es : List Ev) : Option String := checkFrom (universeOf es) [] es

end DSymVerif.SpecC20
