/-
Spec of property C05 — what it means for a D-symbol `cov` to be a covering of a D-symbol
`base`, written from the definitions (only `Spec/C02.lean` — plain tables, orbit length as
least period, naive reachability, 2-colouring — is reused; no model code).

Conventions of every cover constructor of the library: `cov` has `k · |base|` chambers and the
projection is `π(d) = (d − 1) mod |base| + 1`.

Contents
* `validSym`          — complete D-symbol (involutions, branching numbers ≥ 1 constant on
                        orbits, far operations commute)
* `coveringClauses`   — `π` commutes with every operation, preserves every degree
                        `m_ij = r_ij · v_ij` (both sides recomputed from the tables), uniform fibres
* `isoOver`           — isomorphism of two covers *as covers* (commuting with the projections),
                        brute force over the images of chamber 1
* `curvature`, `simplyConnected2d` — 2-dimensional orbifold invariants from the definitions
* `countCovers`       — independent count of the isomorphism classes of connected `j`-sheeted
                        coverings = conjugacy classes of index-`j` subgroups of the orbifold
                        fundamental group: backtracking over all sheet-permutation assignments
                        (one permutation of the `j` sheets per edge, inverse on the partner, the
                        holonomy round every (i,j)-orbit raised to `v_ij` trivial), spanning-tree
                        edges gauged to the identity, transitive assignments only, orbits of the
                        remaining global relabelling group `S_j` counted by Burnside's lemma.
* `adjacentDivides`, `adjacentPreserved`, `branchingIsFloor` — what `derived::cover` does with a
                        compatible sheet map whose orbit lengths do not divide the base degrees
* bases with several components (outside the quantifier of the property; the library's
  `fundamental_group` then presents the free product of the groups of the components, i.e. the
  group of the components joined at base points): `connectedJoined` (the cover is connected once
  the chambers of one sheet are joined across the components), `isoOverJoined` (isomorphism over
  the base inducing ONE permutation of the sheets), `countCoversJoined` (the same count with a
  spanning forest: conjugacy classes of index-`j` subgroups of the free product).
-/
import DSymVerif.Spec.C02

namespace DSymVerif.SpecC05
open DSymVerif.SpecC02

/-- the projection of the cover's chambers onto the base -/
def proj (n d : Nat) : Nat := (d - 1) % n + 1

/-- degree `m_ij(d) = r_ij(d) · v_ij(d)`, both factors from the definitions of `Spec/C02` -/
def mDef (g : G) (i j d : Nat) : Option Nat :=
  match g.orbitLen i j d, g.vDef i j d with
  | some r, some v => some (r * v)
  | _, _ => none

/-- index pairs i < j ≤ dim -/
def pairsLt (dim : Nat) : List (Nat × Nat) :=
  (List.range (dim + 1)).flatMap fun i =>
    ((List.range (dim + 1)).filter (i < ·)).map fun j => (i, j)

/-- `g` is a complete D-symbol -/
def validSym (g : G) : List (String × Bool) :=
  [ ("operations-are-involutions-in-range", g.involutive),
    ("complete", g.complete),
    ("branching-numbers-defined", (List.range g.dim).all fun i => g.chambers.all fun d => g.v i d ≥ 1),
    ("branching-numbers-constant-on-orbits", (List.range g.dim).all fun i => g.chambers.all fun d =>
        g.v i (g.op i d) == g.v i d && g.v i (g.op (i + 1) d) == g.v i d),
    ("far-operations-commute", (pairsLt g.dim).all fun (i, j) =>
        j == i + 1 || g.chambers.all fun d => mDef g i j d == some 2) ]

def isValidSym (g : G) : Bool := (validSym g).all (·.2)

/-! ### connectedness (worklist search; agrees with `SpecC02.G.connected`, used for large covers) -/

def bfs (g : G) : Nat → List Nat → Array Bool → Array Bool
  | 0, _, seen => seen
  | _, [], seen => seen
  | f + 1, d :: rest, seen =>
    let acc := g.indices.foldl (fun (acc : List Nat × Array Bool) i =>
      let e := g.op i d
      if e == 0 || e > g.size || acc.2.getD e true then acc
      else (e :: acc.1, acc.2.setIfInBounds e true)) (rest, seen)
    bfs g f acc.1 acc.2

def bfsConnected (g : G) : Bool :=
  let seen := bfs g (g.size + 1) [1] ((Array.replicate (g.size + 1) false).setIfInBounds 1 true)
  g.chambers.all fun d => seen.getD d false

def connected (g : G) : Bool :=
  if g.size ≤ 40 then g.connected && bfsConnected g else bfsConnected g

/-! ### covering -/

/-- number of sheets, if `|cov|` is a positive multiple of `|base|` -/
def sheets (base cov : G) : Option Nat :=
  if base.size == 0 || cov.size == 0 || cov.size % base.size != 0 then none
  else some (cov.size / base.size)

/-- the projection commutes with every operation -/
def projCommutes (base cov : G) : Bool :=
  cov.indices.all fun i => cov.chambers.all fun d =>
    proj base.size (cov.op i d) == base.op i (proj base.size d)

/-- every degree is preserved: m_ij(d) in the cover = m_ij(π d) in the base, all i < j -/
def degreesPreserved (base cov : G) : Bool :=
  (pairsLt cov.dim).all fun (i, j) => cov.chambers.all fun d =>
    match mDef cov i j d with
    | some m => mDef base i j (proj base.size d) == some m
    | none => false

/-- every fibre has exactly `k` elements -/
def uniformFibres (base cov : G) (k : Nat) : Bool :=
  base.chambers.all fun b => (cov.chambers.filter fun d => proj base.size d == b).length == k

/-- the clauses "cov is a covering of base via π" (without connectedness) -/
def coveringClauses (base cov : G) : List (String × Bool) :=
  [ ("cover-has-the-dimension-of-the-base", cov.dim == base.dim),
    ("cover-size-is-a-positive-multiple-of-the-base-size", (sheets base cov).isSome) ] ++
  (validSym cov).map (fun c => ("cover-" ++ c.1, c.2)) ++
  [ ("projection-commutes-with-every-operation", projCommutes base cov),
    ("projection-preserves-every-degree", degreesPreserved base cov),
    ("every-fibre-has-the-same-number-of-chambers",
        match sheets base cov with
        | some k => uniformFibres base cov k
        | none => false) ]

def connectedCoveringClauses (base cov : G) : List (String × Bool) :=
  coveringClauses base cov ++ [("cover-is-connected", connected cov)]

def isCovering (base cov : G) : Bool := (connectedCoveringClauses base cov).all (·.2)

/-- orientedness from the definition: no operation fixes a chamber and the graph is bipartite -/
def oriented (g : G) : Bool := g.loopless && g.bipartite

/-! ### sheet maps for `derived::cover` -/

/-- (a) σ(·,i,d) maps sheets 0..n-1 into 0..n-1; (b) σ(σ(k,i,d),i,op_i d) = k -/
def sheetMapCompatible (base : G) (n : Nat) (sigma : Nat → Nat → Nat → Nat) : Bool :=
  (List.range n).all fun k => base.indices.all fun i => base.chambers.all fun d =>
    sigma k i d < n && sigma (sigma k i d) i (base.op i d) == k

/-- every (i,j)-orbit of the cover (all i < j) has a length dividing the degree `m_ij` of the
    base (2 for non-adjacent indices) -/
def orbitLengthsDivideDegrees (base cov : G) : Bool :=
  (pairsLt cov.dim).all fun (i, j) => cov.chambers.all fun d =>
    match cov.orbitLen i j d, mDef base i j (proj base.size d) with
    | some r, some m => r != 0 && m % r == 0
    | _, _ => false

/-! ### isomorphism of covers over the base -/

/-- extend `1 ↦ start` to a map `c1 → c2` commuting with the operations (`size` rounds of
    propagation); 0 = unassigned, `none` = contradiction -/
def extendIso (c1 c2 : G) (start : Nat) : Option (Array Nat) :=
  let f0 := (Array.replicate (c1.size + 1) 0).setIfInBounds 1 start
  let round (f : Option (Array Nat)) : Option (Array Nat) :=
    c1.chambers.foldl (fun (f : Option (Array Nat)) d =>
      match f with
      | none => none
      | some f =>
        let fd := f.getD d 0
        if fd == 0 then some f else
        c1.indices.foldl (fun (f : Option (Array Nat)) i =>
          match f with
          | none => none
          | some f =>
            let e := c1.op i d
            let fe := c2.op i fd
            if f.getD e 0 == 0 then some (f.setIfInBounds e fe)
            else if f.getD e 0 == fe then some f else none) (some f)) f
  (List.range c1.size).foldl (fun f _ => round f) (some f0)

/-- `c1 ≅ c2` by a bijection commuting with operations, branching numbers and projections -/
def isoOver (base c1 c2 : G) : Bool :=
  c1.size == c2.size && c1.dim == c2.dim &&
  match sheets base c2 with
  | none => false
  | some k =>
    (List.range k).any fun s =>
      let start := 1 + s * base.size
      match extendIso c1 c2 start with
      | none => false
      | some f =>
        c1.chambers.all (fun d => 1 ≤ f.getD d 0 && f.getD d 0 ≤ c2.size) &&
        c2.chambers.all (fun e => (c1.chambers.filter fun d => f.getD d 0 == e).length == 1) &&
        c1.indices.all (fun i => c1.chambers.all fun d => f.getD (c1.op i d) 0 == c2.op i (f.getD d 0)) &&
        (List.range c1.dim).all (fun i => c1.chambers.all fun d => c1.v i d == c2.v i (f.getD d 0)) &&
        c1.chambers.all (fun d => proj base.size (f.getD d 0) == proj base.size d)

def pairwiseNonIsomorphic (base : G) (cs : List G) : Bool :=
  let a := cs.toArray
  (List.range a.size).all fun x => (List.range a.size).all fun y =>
    !(x < y) || !(isoOver base (a.getD x base) (a.getD y base))

/-! ### a complete invariant of connected covers over the base (for long lists)

Number the chambers of the cover breadth-first from a start chamber (operations in index
order) and write down, chamber by chamber in that numbering, the numbers of the images, the
projection and the branching numbers.  Two connected covers are isomorphic over the base by a
map sending start to start' iff the two codes coincide; every isomorphism over the base maps
the fibre over base chamber 1 to itself, so the least code over the starts in that fibre is
a complete isomorphism invariant. -/

def bfsOrder (c : G) (start : Nat) : Array Nat × Array Nat :=
  let rec go : Nat → Nat → Array Nat → Array Nat → Array Nat × Array Nat
    | 0, _, order, num => (order, num)
    | f + 1, pos, order, num =>
      if pos ≥ order.size then (order, num) else
      let d := order.getD pos 0
      let r := c.indices.foldl (fun (r : Array Nat × Array Nat) i =>
        let e := c.op i d
        if e == 0 || e > c.size || r.2.getD e 1 != 0 then r
        else (r.1.push e, r.2.setIfInBounds e (r.1.size + 1))) (order, num)
      go f (pos + 1) r.1 r.2
  go (c.size + 1) 0 #[start] ((Array.replicate (c.size + 1) 0).setIfInBounds start 1)

def coverCodeFrom (base c : G) (start : Nat) : List Nat :=
  let (order, num) := bfsOrder c start
  order.toList.flatMap fun d =>
    (c.indices.map fun i => num.getD (c.op i d) 0) ++ [proj base.size d] ++
    ((List.range c.dim).map fun i => c.v i d)

def lexLt : List Nat → List Nat → Bool
  | [], [] => false
  | [], _ :: _ => true
  | _ :: _, [] => false
  | x :: xs, y :: ys => x < y || (x == y && lexLt xs ys)

/-- least code over the starts in the fibre over base chamber 1, preceded by the size -/
def coverCode (base c : G) : List Nat :=
  let starts := c.chambers.filter fun d => proj base.size d == 1
  let codes := starts.map (coverCodeFrom base c)
  c.size :: c.dim :: codes.foldl (fun best x => if best.isEmpty || lexLt x best then x else best) []

def distinctCodes (base : G) (cs : List G) : Bool :=
  let codes := (cs.map (coverCode base)).toArray
  (List.range codes.size).all fun x => (List.range codes.size).all fun y =>
    !(x < y) || codes.getD x [] != codes.getD y []

/-- brute-force isomorphism search for short lists (and there cross-checked with the codes),
    the complete invariant for long lists -/
def nonIsomorphicOver (base : G) (cs : List G) : Bool :=
  if cs.length ≤ 64 then pairwiseNonIsomorphic base cs && distinctCodes base cs
  else distinctCodes base cs

/-! ### exact rationals, curvature, simple connectivity in dimension 2 -/

structure Q where
  num : Int
  den : Nat
  deriving Repr

namespace Q
def norm (a : Q) : Q :=
  let g := Nat.gcd a.num.natAbs a.den
  if g == 0 then a else ⟨a.num / g, a.den / g⟩
def add (a b : Q) : Q := norm ⟨a.num * b.den + b.num * a.den, a.den * b.den⟩
def ofNat (n : Nat) : Q := ⟨n, 1⟩
def neg (a : Q) : Q := ⟨-a.num, a.den⟩
def mulNat (a : Q) (n : Nat) : Q := norm ⟨a.num * n, a.den⟩
def eq (a b : Q) : Bool := a.num * b.den == b.num * a.den
def pos (a : Q) : Bool := a.num > 0 && a.den > 0
end Q

/-- curvature of a 2-dimensional symbol: Σ_d (1/m01 + 1/m12 + 1/m02) − |D|  (sphere: 4) -/
def curvature (g : G) : Option Q :=
  if g.dim != 2 then none else
  let terms := g.chambers.flatMap fun d => [(0, 1, d), (1, 2, d), (0, 2, d)]
  let s := terms.foldl (fun (acc : Option Q) (t : Nat × Nat × Nat) =>
    match acc, mDef g t.1 t.2.1 t.2.2 with
    | some a, some m => if m == 0 then none else some (a.add ⟨1, m⟩)
    | _, _ => none) (some (Q.ofNat 0))
  s.map fun s => s.add (Q.neg (Q.ofNat g.size))

/-- least chamber of the ⟨op i, op j⟩-orbit of every chamber, by propagating the minimum along
    both operations until nothing changes (at most `size` rounds) -/
def orbitMin (g : G) (i j : Nat) : Array Nat :=
  let step (lab : Array Nat) : Array Nat :=
    g.chambers.foldl (fun (lab : Array Nat) d =>
      let a := lab.getD d 0
      let b := lab.getD (g.op i d) a
      let c := lab.getD (g.op j d) a
      let m := min a (min b c)
      ((lab.setIfInBounds d m).setIfInBounds (g.op i d) m).setIfInBounds (g.op j d) m) lab
  let rec go : Nat → Array Nat → Array Nat
    | 0, lab => lab
    | n + 1, lab =>
      let lab' := step lab
      if lab' == lab then lab else go n lab'
  go g.size (List.range (g.size + 1)).toArray

/-- least chambers of the (i,j)-orbits -/
def orbitReps (g : G) (i j : Nat) : List Nat :=
  let lab := orbitMin g i j
  g.chambers.filter fun d => lab.getD d 0 == d

/-- orders of the cone points of a 2-dimensional symbol: the branching numbers > 1 of the
    2-orbits, one per orbit, all three index pairs (`v_02 = 2 / r_02`); 0 marks an undefined one -/
def conePoints2d (g : G) : List Nat :=
  [(0, 1), (1, 2), (0, 2)].flatMap fun (ij : Nat × Nat) =>
    (orbitReps g ij.1 ij.2).filterMap fun d =>
      match g.vDef ij.1 ij.2 d with
      | some v => if v == 1 then none else some v
      | none => some 0

/-- A connected 2-dimensional symbol has trivial orbifold fundamental group iff it has no
    mirrors (loopless), is orientable (bipartite), its underlying closed surface has Euler
    characteristic 2 and it has no cone point, one cone point, or two of coprime orders.
    Euler characteristic of the triangulation by chambers of a loopless symbol:
    vertices = number of 2-orbits (all three index pairs), edges = 3·|D|/2, triangles = |D|. -/
def simplyConnected2d (g : G) : Bool :=
  g.dim == 2 && g.loopless && g.bipartite && connected g &&
  2 * ((orbitReps g 1 2).length + (orbitReps g 0 1).length + (orbitReps g 0 2).length) == g.size + 4 &&
  (match conePoints2d g with
   | [] => true
   | [v] => v != 0
   | [v, w] => v != 0 && w != 0 && Nat.gcd v w == 1
   | _ => false)

/-! ### the independent count of coverings -/

abbrev Perm := Array Nat

def insertAll (x : Nat) : List Nat → List (List Nat)
  | [] => [[x]]
  | y :: ys => (x :: y :: ys) :: (insertAll x ys).map (y :: ·)

def permLists : List Nat → List (List Nat)
  | [] => [[]]
  | x :: xs => (permLists xs).flatMap (insertAll x)

/-- all permutations of 0..j-1 -/
def allPerms (j : Nat) : List Perm := (permLists (List.range j)).map List.toArray

def Perm.inv (p : Perm) : Perm :=
  (List.range p.size).foldl (fun (q : Perm) s => q.setIfInBounds (p.getD s 0) s) (Array.replicate p.size 0)

def Perm.isInvolution (p : Perm) : Bool :=
  (List.range p.size).all fun s => p.getD (p.getD s 0) 0 == s

def Perm.identity (j : Nat) : Perm := (List.range j).toArray

/-- the data of the search -/
structure Search where
  g : G
  j : Nat
  perms : List Perm
  invols : List Perm

def Search.idx (s : Search) (d i : Nat) : Nat := (d - 1) * (s.g.dim + 1) + i

/-- sheet reached from sheet `t` over chamber `e` after `steps` double steps (i then j) -/
def walkSheet (s : Search) (sig : Array Perm) (i j : Nat) : Nat → Nat → Nat → Nat
  | 0, _, t => t
  | n + 1, e, t =>
    let t := (sig.getD (s.idx e i) #[]).getD t 0
    let e := s.g.op i e
    let t := (sig.getD (s.idx e j) #[]).getD t 0
    let e := s.g.op j e
    walkSheet s sig i j n e t

def iterNat (f : Nat → Nat) : Nat → Nat → Nat
  | 0, x => x
  | n + 1, x => iterNat f n (f x)

/-- the holonomy round the (i,j)-orbit of `d`, raised to `v_ij(d)`, is trivial -/
def orbitOK (s : Search) (sig : Array Perm) (i j d : Nat) : Bool :=
  match s.g.orbitLen i j d, s.g.vDef i j d with
  | some r, some v =>
    (List.range s.j).all fun t => iterNat (walkSheet s sig i j r d) v t == t
  | _, _ => false

/-- spanning tree of the base by breadth-first search from chamber 1: the set of canonical
    edge slots `idx (min d e) i` used -/
def treeEdges (s : Search) : List Nat :=
  let g := s.g
  let rec go : Nat → List Nat → Array Bool → List Nat → List Nat
    | 0, _, _, acc => acc
    | _, [], _, acc => acc
    | f + 1, d :: rest, seen, acc =>
      let r := g.indices.foldl (fun (r : List Nat × Array Bool × List Nat) i =>
        let e := g.op i d
        if e == 0 || e > g.size || r.2.1.getD e true then r
        else (r.1 ++ [e], r.2.1.setIfInBounds e true, s.idx (min d e) i :: r.2.2)) (rest, seen, acc)
      go f r.1 r.2.1 r.2.2
  go (g.size + 1) [1] ((Array.replicate (g.size + 1) false).setIfInBounds 1 true) []

/-- transitivity of the group generated by the assigned permutations on the sheets -/
def transitive (s : Search) (sig : Array Perm) : Bool :=
  let step (seen : Array Bool) : Array Bool :=
    sig.foldl (fun (seen : Array Bool) p =>
      if p.size == 0 then seen else
      (List.range s.j).foldl (fun (seen : Array Bool) t =>
        if seen.getD t false then seen.setIfInBounds (p.getD t 0) true else seen) seen) seen
  let seen := (List.range s.j).foldl (fun seen _ => step seen)
    ((Array.replicate s.j false).setIfInBounds 0 true)
  seen.all id

/-- number of global relabellings fixing the assignment -/
def centralizerSize (s : Search) (sig : Array Perm) : Nat :=
  (s.perms.filter fun q =>
    sig.all fun p => p.size == 0 ||
      (List.range s.j).all fun t => q.getD (p.getD t 0) 0 == p.getD (q.getD t 0) 0).length

/-- depth-first search over the free edges; `checks t` = orbits that become fully assigned
    with the `t`-th free edge.  Returns Σ |centralizer| over transitive solutions. -/
def searchGo (s : Search) (checks : Array (List (Nat × Nat × Nat))) :
    List (Nat × Nat × Nat) → Array Perm → Nat
  | [], sig => if transitive s sig then centralizerSize s sig else 0
  | (d, i, t) :: rest, sig =>
    let e := s.g.op i d
    let cands := if e == d then s.invols else s.perms
    cands.foldl (fun acc p =>
      let sig' := (sig.setIfInBounds (s.idx d i) p).setIfInBounds (s.idx e i) (if e == d then p else p.inv)
      if (checks.getD t []).all (fun (o : Nat × Nat × Nat) => orbitOK s sig' o.1 o.2.1 o.2.2)
      then acc + searchGo s checks rest sig' else acc) 0

def factorial : Nat → Nat
  | 0 => 1
  | n + 1 => (n + 1) * factorial n

/-- the count with the gauge fixed along the edges `tree s` -/
def countCoversWith (tree : Search → List Nat) (g : G) (j : Nat) : Nat :=
  if j == 0 then 0 else
  let perms := allPerms j
  let s : Search := { g := g, j := j, perms := perms, invols := perms.filter Perm.isInvolution }
  let tree := tree s
  -- free edges in lexicographic order, numbered from 1
  let free0 := g.chambers.flatMap fun d => g.indices.filterMap fun i =>
    if d ≤ g.op i d && !tree.contains (s.idx d i) then some (d, i) else none
  let free := (List.range free0.length).zip free0 |>.map fun (t, di) => (di.1, di.2, t + 1)
  let pos (d i : Nat) : Nat :=
    let e := g.op i d
    match free.find? (fun f => f.1 == min d e && f.2.1 == i) with
    | some f => f.2.2
    | none => 0
  -- orbits with the position of their last free edge
  let orbits := (pairsLt g.dim).flatMap fun (i, j') => (orbitReps g i j').map fun d =>
    let ready := (g.component [i, j'] d).foldl (fun m e => max m (max (pos e i) (pos e j'))) 0
    (ready, i, j', d)
  let checks : Array (List (Nat × Nat × Nat)) :=
    ((List.range (free.length + 1)).map fun t => (orbits.filter (·.1 == t)).map (·.2)).toArray
  -- initial assignment: identity on tree edges (both directions), unassigned elsewhere
  let sig0 : Array Perm := (g.chambers.flatMap fun d => g.indices.map fun i =>
    if tree.contains (s.idx (min d (g.op i d)) i) then Perm.identity j else #[]).toArray
  if !((checks.getD 0 []).all fun o => orbitOK s sig0 o.1 o.2.1 o.2.2) then 0
  else searchGo s checks free sig0 / factorial j

/-- number of isomorphism classes (over the base) of connected `j`-sheeted coverings of the
    connected complete symbol `g` -/
def countCovers (g : G) (j : Nat) : Nat := countCoversWith treeEdges g j

/-- histogram check: for every sheet number 1..k the number of listed covers with that many
    sheets equals the independent count -/
def countsAgree (base : G) (k : Nat) (cs : List G) : Bool :=
  (List.range k).all fun j0 =>
    let j := j0 + 1
    (cs.filter fun c => sheets base c == some j).length == countCovers base j

/-! ### `derived::cover` with a compatible sheet map: the branching number is `⌊m / r⌋` -/

/-- adjacent pairs: the orbit length of every chamber of the cover divides the degree of the base -/
def adjacentDivides (base cov : G) : Bool :=
  (List.range cov.dim).all fun i => cov.chambers.all fun d =>
    match cov.orbitLen i (i + 1) d, mDef base i (i + 1) (proj base.size d) with
    | some r, some m => r != 0 && m % r == 0
    | _, _ => false

/-- adjacent pairs: the degree of every chamber of the cover is that of its projection -/
def adjacentPreserved (base cov : G) : Bool :=
  (List.range cov.dim).all fun i => cov.chambers.all fun d =>
    match mDef cov i (i + 1) d with
    | some m => mDef base i (i + 1) (proj base.size d) == some m
    | none => false

/-- the branching number of every chamber of the cover is `⌊m / r⌋`, `m` the degree of the base at
    the projection and `r` the orbit length in the cover -/
def branchingIsFloor (base cov : G) : Bool :=
  (List.range cov.dim).all fun i => cov.chambers.all fun d =>
    match cov.orbitLen i (i + 1) d, mDef base i (i + 1) (proj base.size d) with
    | some r, some m => r != 0 && cov.v i d == m / r
    | _, _ => false

/-! ### bases with several components -/

/-- the sheet of a chamber of the cover -/
def sheetOf (n d : Nat) : Nat := (d - 1) / n

/-- worklist search in the cover with, in addition to the operations, all chambers of the same
    sheet as neighbours -/
def bfsJ (base g : G) : Nat → List Nat → Array Bool → Array Bool
  | 0, _, seen => seen
  | _, [], seen => seen
  | f + 1, d :: rest, seen =>
    let k := sheetOf base.size d
    let nbrs := (g.indices.map fun i => g.op i d) ++ (base.chambers.map fun b => k * base.size + b)
    let acc := nbrs.foldl (fun (acc : List Nat × Array Bool) e =>
      if e == 0 || e > g.size || acc.2.getD e true then acc
      else (e :: acc.1, acc.2.setIfInBounds e true)) (rest, seen)
    bfsJ base g f acc.1 acc.2

/-- the cover is connected once, for every sheet, the chambers of that sheet are joined across
    the components of the base (for a connected base whose cover keeps the sheet along a spanning
    tree this is plain connectedness) -/
def connectedJoined (base g : G) : Bool :=
  base.size != 0 &&
  let seen := bfsJ base g (g.size + 1) [1] ((Array.replicate (g.size + 1) false).setIfInBounds 1 true)
  g.chambers.all fun d => seen.getD d false

/-- `extendIso` with the additional rule that the image of one chamber of a sheet fixes the image
    of every chamber of that sheet: `(k, b) ↦ (k', b)` for all `b` -/
def extendIsoJ (base c1 c2 : G) (start : Nat) : Option (Array Nat) :=
  let f0 := (Array.replicate (c1.size + 1) 0).setIfInBounds 1 start
  let put (f : Option (Array Nat)) (e fe : Nat) : Option (Array Nat) :=
    match f with
    | none => none
    | some f =>
      if f.getD e 0 == 0 then some (f.setIfInBounds e fe)
      else if f.getD e 0 == fe then some f else none
  let round (f : Option (Array Nat)) : Option (Array Nat) :=
    c1.chambers.foldl (fun (f : Option (Array Nat)) d =>
      match f with
      | none => none
      | some f =>
        let fd := f.getD d 0
        if fd == 0 then some f else
        let f1 := c1.indices.foldl (fun (f : Option (Array Nat)) i => put f (c1.op i d) (c2.op i fd)) (some f)
        base.chambers.foldl (fun (f : Option (Array Nat)) b =>
          put f (sheetOf base.size d * base.size + b) (sheetOf base.size fd * base.size + b)) f1) f
  (List.range c1.size).foldl (fun f _ => round f) (some f0)

/-- `c1 ≅ c2` over the base by a bijection commuting with operations, branching numbers and
    projections and inducing one permutation of the sheets -/
def isoOverJoined (base c1 c2 : G) : Bool :=
  c1.size == c2.size && c1.dim == c2.dim &&
  match sheets base c2 with
  | none => false
  | some k =>
    (List.range k).any fun s =>
      let start := 1 + s * base.size
      match extendIsoJ base c1 c2 start with
      | none => false
      | some f =>
        c1.chambers.all (fun d => 1 ≤ f.getD d 0 && f.getD d 0 ≤ c2.size) &&
        c2.chambers.all (fun e => (c1.chambers.filter fun d => f.getD d 0 == e).length == 1) &&
        c1.indices.all (fun i => c1.chambers.all fun d => f.getD (c1.op i d) 0 == c2.op i (f.getD d 0)) &&
        (List.range c1.dim).all (fun i => c1.chambers.all fun d => c1.v i d == c2.v i (f.getD d 0)) &&
        c1.chambers.all (fun d => proj base.size (f.getD d 0) == proj base.size d) &&
        c1.chambers.all (fun d => c1.chambers.all fun d' =>
          sheetOf base.size d != sheetOf base.size d' ||
            sheetOf base.size (f.getD d 0) == sheetOf base.size (f.getD d' 0))

def pairwiseNonIsomorphicJoined (base : G) (cs : List G) : Bool :=
  let a := cs.toArray
  (List.range a.size).all fun x => (List.range a.size).all fun y =>
    !(x < y) || !(isoOverJoined base (a.getD x base) (a.getD y base))

/-- spanning forest of the base: breadth-first search from the least chamber of every component
    (the set of canonical edge slots `idx (min d e) i` used) -/
def forestEdges (s : Search) : List Nat :=
  let g := s.g
  let rec go : Nat → List Nat → Array Bool → List Nat → Array Bool × List Nat
    | 0, _, seen, acc => (seen, acc)
    | _, [], seen, acc => (seen, acc)
    | f + 1, d :: rest, seen, acc =>
      let r := g.indices.foldl (fun (r : List Nat × Array Bool × List Nat) i =>
        let e := g.op i d
        if e == 0 || e > g.size || r.2.1.getD e true then r
        else (r.1 ++ [e], r.2.1.setIfInBounds e true, s.idx (min d e) i :: r.2.2)) (rest, seen, acc)
      go f r.1 r.2.1 r.2.2
  (g.chambers.foldl (fun (st : Array Bool × List Nat) d =>
    if st.1.getD d true then st
    else go (g.size + 1) [d] (st.1.setIfInBounds d true) st.2)
    (Array.replicate (g.size + 1) false, [])).2

/-- number of conjugacy classes of subgroups of index `j` of the free product of the orbifold
    groups of the components of `g` = classes of `j`-sheeted coverings connected in the sense of
    `connectedJoined`, up to `isoOverJoined` -/
def countCoversJoined (g : G) (j : Nat) : Nat := countCoversWith forestEdges g j

def countsAgreeJoined (base : G) (k : Nat) (cs : List G) : Bool :=
  (List.range k).all fun j0 =>
    let j := j0 + 1
    (cs.filter fun c => sheets base c == some j).length == countCoversJoined base j

/-! ### triviality of a finitely presented group (as far as the covers of C05 need it) -/

/-- exponent sum of generator `x` in a word -/
def expSum (w : List Int) (x : Nat) : Int :=
  w.foldl (fun acc l => if l == (x : Int) then acc + 1 else if l == -(x : Int) then acc - 1 else acc) 0

/-- `⟨x₁…x_n | rels⟩` is certified trivial: no generators, or one generator whose relator
    exponents have gcd 1 (the simply connected 2-orbifolds S²(p), S²(p,q) with coprime p, q
    have such presentations).  `none` = not decided by this criterion. -/
def presentationTrivial (gens : Nat) (rels : List (List Int)) : Option Bool :=
  if gens == 0 then some true
  else if gens == 1 then
    some (rels.foldl (fun g w => Nat.gcd g (expSum w 1).natAbs) 0 == 1)
  else
    -- necessary: the abelianisation must be trivial, so some relator must involve each generator
    if (List.range gens).any fun x => rels.all fun w => expSum w (x + 1) == 0 then some false else none

end DSymVerif.SpecC05
