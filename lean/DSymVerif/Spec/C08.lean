/-
Spec of property C08 — 2D curvature, orbifold symbol and geometry class are mutually
consistent.   Import-free, written from the mathematics:

* a Conway-style orbifold symbol (cone orders, one cyclic list of corner orders per
  mirror boundary component, number of handles `o`, number of cross-caps `x`) names a
  2-orbifold of Euler characteristic
      χ = 2 − Σ_cones (1 − 1/v) − Σ_boundaries (1 + Σ_corners (1 − 1/v)/2) − 2·#o − #x ;
* the curvature of a 2D D-symbol is K = Σ_chambers (1/m01 + 1/m12 − 1/2), and
  Gauss–Bonnet says K = 2χ;
* a 2-orbifold with χ > 0 is spherical unless it is *bad*: the tear-drop S²(p), the
  spindle S²(p,q) with p ≠ q, or their mirror quotients D²(;p) = `*p`, D²(;p,q) = `*pq`
  with p ≠ q  ("one cone or corner point, or two of different order");
* two symbols name the same orbifold when cones agree as multisets, boundary
  components agree as a multiset of corner cycles modulo rotation and reversal, and
  handles / cross-caps agree (DESIGN §5.3).

Fractions are pairs (numerator : Int, denominator : Nat) compared by cross
multiplication; nothing is normalised here.
-/
namespace DSymVerif.SpecC08

/-! ### fractions -/

structure Fr where
  num : Int
  den : Nat
  deriving Repr, Inhabited

namespace Fr
def ofInt (n : Int) : Fr := ⟨n, 1⟩
def add (a b : Fr) : Fr := ⟨a.num * b.den + b.num * a.den, a.den * b.den⟩
def sub (a b : Fr) : Fr := ⟨a.num * b.den - b.num * a.den, a.den * b.den⟩
def scale (k : Int) (a : Fr) : Fr := ⟨k * a.num, a.den⟩
/-- equality of values (denominators positive) -/
def eqv (a b : Fr) : Bool := a.den != 0 && b.den != 0 && a.num * b.den == b.num * a.den
def isPos (a : Fr) : Bool := a.den != 0 && decide (a.num > 0)
def isNeg (a : Fr) : Bool := a.den != 0 && decide (a.num < 0)
def isZero (a : Fr) : Bool := a.den != 0 && a.num == 0
def sum (xs : List Fr) : Fr := xs.foldl add (ofInt 0)
end Fr

/-! ### orbifold symbols -/

structure Orb where
  cones : List Nat
  bnds : List (List Nat)
  handles : Nat
  caps : Nat
  deriving Repr, Inhabited, DecidableEq

/-- the defect 1 − 1/v of a cone point of order v (0 for v = 1: no cone) -/
def defect (v : Nat) : Fr := ⟨(v : Int) - 1, v⟩

/-- χ of the orbifold named by the symbol -/
def orbifoldChi (o : Orb) : Fr :=
  let coneSum := Fr.sum (o.cones.map defect)
  let cornerSum := Fr.sum (o.bnds.map fun c => Fr.sum (c.map defect))
  -- 2 − Σ cones − #boundaries − (Σ corners)/2 − 2·handles − caps
  Fr.sub (Fr.sub (Fr.ofInt (2 - (o.bnds.length : Int) - 2 * (o.handles : Int) - (o.caps : Int))) coneSum)
    ⟨cornerSum.num, 2 * cornerSum.den⟩

/-- orders that are proper (a cone or corner "of order 1" is no singular point) -/
def proper (vs : List Nat) : List Nat := vs.filter (· > 1)

/-- one point, or two of different order -/
def oneOrTwoDifferent (vs : List Nat) : Bool :=
  match vs with
  | [_] => true
  | [a, b] => a != b
  | _ => false

/-- tear-drop S²(p), spindle S²(p,q) p≠q, or their mirror quotients `*p`, `*pq` p≠q -/
def bad (o : Orb) : Bool :=
  o.handles == 0 && o.caps == 0 &&
  ((o.bnds.isEmpty && oneOrTwoDifferent (proper o.cones)) ||
   (match o.bnds with
    | [c] => (proper o.cones).isEmpty && oneOrTwoDifferent (proper c)
    | _ => false))

/-! ### sameness of symbols (§5.3) -/

def rotations (c : List Nat) : List (List Nat) :=
  if c.isEmpty then [[]] else (List.range c.length).map fun i => c.drop i ++ c.take i

/-- equal as cyclic lists up to reversal -/
def cycEquiv (a b : List Nat) : Bool :=
  (rotations a).contains b || (rotations a.reverse).contains b

def countBy {α} (p : α → Bool) (xs : List α) : Nat := (xs.filter p).length

/-- equal as multisets with respect to an equivalence `e` -/
def multisetEq {α} (e : α → α → Bool) (xs ys : List α) : Bool :=
  xs.length == ys.length && xs.all fun x => countBy (e x) xs == countBy (e x) ys

def sameOrbifold (a b : Orb) : Bool :=
  multisetEq (· == ·) (proper a.cones) (proper b.cones) &&
  multisetEq cycEquiv (a.bnds.map proper) (b.bnds.map proper) &&
  a.handles == b.handles && a.caps == b.caps

/-! ### reading the string format of `orbifold_symbol`

  symbol := degrees ( '*' degrees )* 'o'* 'x'*       degrees := ( digit | '(' digit+ ')' )*

`1`, `1*`, `1x` are ordinary members of this language: the degree 1 is a cone of
order 1, i.e. no cone. -/

def isDigit (c : Char) : Bool := '0' ≤ c && c ≤ '9'
def digitVal (c : Char) : Nat := c.toNat - '0'.toNat

/-- digits up to the closing parenthesis -/
def parseParen : List Char → Nat → Bool → Option (Nat × List Char)
  | [], _, _ => none
  | c :: cs, acc, any =>
    if c == ')' then (if any then some (acc, cs) else none)
    else if isDigit c then parseParen cs (acc * 10 + digitVal c) true
    else none

/-- a maximal run of degrees; fuel = remaining length -/
def parseDegrees : Nat → List Char → List Nat → Option (List Nat × List Char)
  | 0, cs, acc => some (acc.reverse, cs)
  | fuel + 1, cs, acc =>
    match cs with
    | [] => some (acc.reverse, [])
    | c :: rest =>
      if isDigit c then parseDegrees fuel rest (digitVal c :: acc)
      else if c == '(' then
        match parseParen rest 0 false with
        | some (v, rest') => parseDegrees fuel rest' (v :: acc)
        | none => none
      else some (acc.reverse, cs)

def parseBnds : Nat → List Char → List (List Nat) → Option (List (List Nat) × List Char)
  | 0, cs, acc => some (acc.reverse, cs)
  | fuel + 1, cs, acc =>
    match cs with
    | '*' :: rest =>
      (match parseDegrees (rest.length + 1) rest [] with
       | some (c, rest') => parseBnds fuel rest' (c :: acc)
       | none => none)
    | _ => some (acc.reverse, cs)

def parseSymbol (s : String) : Option Orb :=
  let cs := s.toList
  match parseDegrees (cs.length + 1) cs [] with
  | none => none
  | some (cones, r1) =>
    match parseBnds (r1.length + 1) r1 [] with
    | none => none
    | some (bnds, r2) =>
      let os := r2.takeWhile (· == 'o')
      let r3 := r2.dropWhile (· == 'o')
      let xs := r3.takeWhile (· == 'x')
      let r4 := r3.dropWhile (· == 'x')
      if r4.isEmpty && (cones ++ bnds.flatten).all (· ≥ 1) then
        some { cones := cones, bnds := bnds, handles := os.length, caps := xs.length }
      else none

/-! ### D-symbols as plain tables, curvature from the definition -/

structure G where
  size : Nat
  op : Nat → Nat → Nat         -- op i d, i ∈ {0,1,2}, 0 = undefined
  v : Nat → Nat → Nat          -- v i d for the pair (i,i+1), i ∈ {0,1}

namespace G

def chambers (g : G) : List Nat := (List.range g.size).map (· + 1)

/-- complete, in range, involutive, s0 s2 = s2 s0, branching numbers positive and constant on orbits -/
def wellFormed (g : G) : Bool :=
  g.chambers.all fun d =>
    ([0, 1, 2].all fun i =>
      let e := g.op i d
      1 ≤ e && e ≤ g.size && g.op i e == d) &&
    g.op 2 (g.op 0 d) == g.op 0 (g.op 2 d) &&
    ([0, 1].all fun i => g.v i d ≥ 1 && g.v i (g.op i d) == g.v i d && g.v i (g.op (i + 1) d) == g.v i d)

/-- least k ≥ 1 with (s_j s_i)^k d = d -/
def orbitLenAux (g : G) (i j d : Nat) : Nat → Nat → Nat → Nat
  | 0, _, _ => 0
  | fuel + 1, e, k =>
    let e' := g.op j (g.op i e)
    if e' == d then k + 1 else orbitLenAux g i j d fuel e' (k + 1)

def orbitLen (g : G) (i j d : Nat) : Nat := orbitLenAux g i j d (g.size + 1) d 0

/-- m_{i,i+1}(d) = r · v -/
def m (g : G) (i d : Nat) : Nat := g.orbitLen i (i + 1) d * g.v i d

/-- K = Σ_d (1/m01(d) + 1/m12(d) − 1/2) -/
def curvature (g : G) : Fr :=
  Fr.sum (g.chambers.map fun d =>
    Fr.sub (Fr.add ⟨1, g.m 0 d⟩ ⟨1, g.m 1 d⟩) ⟨1, 2⟩)

/-- chamber d ↦ p d -/
def isRenumbering (g h : G) (p : Nat → Nat) : Bool :=
  g.size == h.size &&
  (g.chambers.all fun d => 1 ≤ p d && p d ≤ g.size) &&
  (g.chambers.all fun d => g.chambers.all fun e => d == e || p d != p e) &&
  (g.chambers.all fun d =>
    ([0, 1, 2].all fun i => h.op i (p d) == p (g.op i d)) &&
    ([0, 1].all fun i => h.v i (p d) == g.v i d))

/-- indices reversed -/
def isDual (g h : G) : Bool :=
  g.size == h.size &&
  g.chambers.all fun d =>
    ([0, 1, 2].all fun i => h.op i d == g.op (2 - i) d) &&
    ([0, 1].all fun i => h.v i d == g.v (1 - i) d)

/-- `c` with the map `π` is a k-sheeted covering of `g`: π is onto with fibres of
    size k (|c| = k·|g| and π commutes with the operations on a connected base gives
    this; we check the size and the fibres directly), commutes with the operations and
    preserves m01, m12 -/
def isCovering (g c : G) (k : Nat) (π : Nat → Nat) : Bool :=
  c.size == k * g.size &&
  (g.chambers.all fun d => countBy (fun e => π e == d) c.chambers == k) &&
  (c.chambers.all fun e =>
    ([0, 1, 2].all fun i => π (c.op i e) == g.op i (π e)) &&
    ([0, 1].all fun i => c.m i e == g.m i (π e)))

end G

end DSymVerif.SpecC08
