/-
Spec of property C11 — written from the mathematics, not from the code (import-free).

A coset table is what the public API shows: `rows × 2·nrGens` integers, row `c`
listing the images of `c` under the letters `1, …, n, −1, …, −n` (`−1` = undefined).
`validTable` is the Boolean conjunction the property states.  `Props/C11.lean` proves
(`validTable_action`) that a table passing it *is* a transitive permutation action of
the presented group whose point stabiliser of row 0 contains the subgroup and has
index `rows`.

The exact index is computed from data independent of the code under test: every corpus
group carries a faithful permutation representation; `|G|` and `|H|` are obtained by
naive closure of the generated permutation sets.
-/
namespace DSymVerif.SpecC11

abbrev Tab := Array (Array Int)

/-- the letters in the column order of a table: `1..n` then `−1..−n` -/
def letters (n : Nat) : List Int :=
  (List.range n).map (fun (i : Nat) => ((i + 1 : Nat) : Int)) ++
    (List.range n).map (fun (i : Nat) => -((i + 1 : Nat) : Int))

/-- column of the letter `g` -/
def col (n : Nat) (g : Int) : Option Nat :=
  if 1 ≤ g ∧ g ≤ n then some (g.toNat - 1)
  else if 1 ≤ -g ∧ -g ≤ n then some (n + (-g).toNat - 1)
  else none

/-- image of row `c` under the letter `g`, if defined and a row of the table -/
def entry (t : Tab) (n : Nat) (c : Nat) (g : Int) : Option Nat :=
  match col n g with
  | none => none
  | some j =>
    match t[c]? with
    | none => none
    | some row =>
      match row[j]? with
      | none => none
      | some v => if 0 ≤ v ∧ v < t.size then some v.toNat else none

/-- follow the word `w` letter by letter from row `c` -/
def traceWord (t : Tab) (n : Nat) : Nat → List Int → Option Nat
  | c, [] => some c
  | c, g :: w =>
    match entry t n c g with
    | none => none
    | some d => traceWord t n d w

def rowsOf (t : Tab) : List Nat := List.range t.size

/-- every entry is defined and in range -/
def complete (t : Tab) (n : Nat) : Bool :=
  (rowsOf t).all fun c => (letters n).all fun g => (entry t n c g).isSome

/-- `t[t[c][g]][−g] = c` wherever `t[c][g]` is defined -/
def inverseConsistent (t : Tab) (n : Nat) : Bool :=
  (rowsOf t).all fun c => (letters n).all fun g =>
    match entry t n c g with
    | some d => entry t n d (-g) == some c
    | none => true

/-- every relator traced from every row returns to it -/
def relatorsClose (t : Tab) (n : Nat) (rels : List (List Int)) : Bool :=
  rels.all fun r => (rowsOf t).all fun c => traceWord t n c r == some c

/-- every subgroup generator traced from row 0 returns to row 0 -/
def subgensFix (t : Tab) (n : Nat) (subs : List (List Int)) : Bool :=
  subs.all fun s => traceWord t n 0 s == some 0

/-! breadth-first search: visiting order and, per row, the (reversed) word that reached it -/

def bfsLetters (t : Tab) (n : Nat) (c : Nat) (wc : List Int) :
    List Int → Array Nat × Array (Option (List Int)) → Array Nat × Array (Option (List Int))
  | [], s => s
  | g :: gs, (ord, ws) =>
    match entry t n c g with
    | some d =>
      if (ws.getD d none).isNone then
        bfsLetters t n c wc gs (ord.push d, ws.setIfInBounds d (some (g :: wc)))
      else bfsLetters t n c wc gs (ord, ws)
    | none => bfsLetters t n c wc gs (ord, ws)

def bfsLoop (t : Tab) (n : Nat) :
    Nat → Nat → Array Nat × Array (Option (List Int)) → Array Nat × Array (Option (List Int))
  | 0, _, s => s
  | f + 1, i, (ord, ws) =>
    if h : i < ord.size then
      let c := ord[i]
      let wc := (ws.getD c none).getD []
      bfsLoop t n f (i + 1) (bfsLetters t n c wc (letters n) (ord, ws))
    else (ord, ws)

/-- BFS from `start` with the letters in column order -/
def bfs (t : Tab) (n : Nat) (start : Nat) : Array Nat × Array (Option (List Int)) :=
  bfsLoop t n t.size 0 (#[start], (Array.replicate t.size none).setIfInBounds start (some []))

/-- candidate witnesses of reachability (no claim is made about them: `connected`
    re-checks each by tracing) -/
def witnesses (t : Tab) (n : Nat) : Array (Option (List Int)) :=
  (bfs t n 0).2.map (fun o => o.map List.reverse)

/-- every row is reached from row 0 by the word stored for it -/
def connectedBy (t : Tab) (n : Nat) (wit : Array (Option (List Int))) : Bool :=
  (rowsOf t).all fun c =>
    match wit.getD c none with
    | some w => traceWord t n 0 w == some c
    | none => false

def connected (t : Tab) (n : Nat) : Bool := connectedBy t n (witnesses t n)

/-- the table part of property C11 -/
def validTable (t : Tab) (n : Nat) (rels subs : List (List Int)) : Bool :=
  decide (0 < t.size) && complete t n && inverseConsistent t n && relatorsClose t n rels &&
    subgensFix t n subs && connected t n

/-- first failing clause, for the verdict line -/
def validTableClauses (t : Tab) (n : Nat) (rels subs : List (List Int)) : List (String × Bool) :=
  [("table-nonempty", decide (0 < t.size)),
   ("every-entry-defined-and-in-range", complete t n),
   ("inverse-letter-is-inverse-map", inverseConsistent t n),
   ("every-relator-closes-at-every-row", relatorsClose t n rels),
   ("subgroup-generators-fix-row-0", subgensFix t n subs),
   ("transitive", connected t n)]

/-- the accessors outside the table: `nr_gens()` is the number of generators, and `get` at a
    row that does not exist (`len`, `usize::MAX`) is `None` (-1) for every letter -/
def probesOk (n nrGens : Nat) (atLen atMax : List Int) : Bool :=
  nrGens == n && atLen == (letters n).map (fun _ => (-1 : Int)) &&
    atMax == (letters n).map (fun _ => (-1 : Int))

/-- coset representatives: exactly one word per row, listed by row, each tracing from
    row 0 to its row -/
def repsOk (t : Tab) (n : Nat) (reps : List (Nat × List Int)) : Bool :=
  reps.map (·.1) == rowsOf t && reps.all fun (k, w) => traceWord t n 0 w == some k

/-! ### BFS renumbering (the freedom a coset table leaves: names of the rows ≠ 0) -/

def invertOrder (size : Nat) (ord : Array Nat) : Array Nat :=
  (List.range ord.size).foldl (fun acc i => acc.setIfInBounds (ord.getD i 0) i) (Array.replicate size 0)

/-- rows renamed in BFS order from `start`; `none` if some row is not reached -/
def renumberFrom (t : Tab) (n : Nat) (start : Nat) : Option Tab :=
  let ord := (bfs t n start).1
  if ord.size ≠ t.size then none else
  let o2n := invertOrder t.size ord
  some (ord.map fun c =>
    ((letters n).map fun g =>
      match entry t n c g with
      | some d => ((o2n.getD d 0 : Nat) : Int)
      | none => (-1 : Int)).toArray)

/-! ### permutations on `0..d-1` (oracle for the exact index) -/

abbrev Perm := Array Nat

def isPerm (d : Nat) (p : Perm) : Bool :=
  p.size == d && p.all (· < d) && (List.range d).all (fun i => p.contains i)

def permId (d : Nat) : Perm := Array.range d

/-- first `p`, then `q` (words act from the left to the right, as in a coset table) -/
def permMul (p q : Perm) : Perm := p.map (fun i => q.getD i 0)

def permInv (p : Perm) : Perm :=
  (List.range p.size).foldl (fun acc i => acc.setIfInBounds (p.getD i 0) i) (Array.replicate p.size 0)

def letterPerm (d : Nat) (imgs : Array Perm) (g : Int) : Perm :=
  if g > 0 then imgs.getD (g.toNat - 1) (permId d)
  else permInv (imgs.getD ((-g).toNat - 1) (permId d))

def evalWord (d : Nat) (imgs : Array Perm) (w : List Int) : Perm :=
  w.foldl (fun acc g => permMul acc (letterPerm d imgs g)) (permId d)

def nBuckets : Nat := 4093

def permKey (p : Perm) : Nat := p.foldl (fun a x => (a * 31 + x + 1) % nBuckets) 7

/-- insert into a bucketed set; `none` if already present -/
def setInsert (s : Array (List Perm)) (p : Perm) : Option (Array (List Perm)) :=
  let k := permKey p
  let b := s.getD k []
  if b.contains p then none else some (s.setIfInBounds k (p :: b))

def closureGens (gens : List Perm) (p : Perm) :
    List Perm → Array (List Perm) × List Perm × Nat → Array (List Perm) × List Perm × Nat
  | [], s => s
  | g :: gs, (set, todo, count) =>
    let q := permMul p g
    match setInsert set q with
    | some set' => closureGens gens p gs (set', q :: todo, count + 1)
    | none => closureGens gens p gs (set, todo, count)

def closureLoop (gens : List Perm) (limit : Nat) :
    Nat → Array (List Perm) × List Perm × Nat → Option Nat
  | 0, _ => none
  | f + 1, (set, todo, count) =>
    if count > limit then none else
    match todo with
    | [] => some count
    | p :: rest => closureLoop gens limit f (closureGens gens p gens (set, rest, count))

/-- order of the group generated by `gens` inside `Sym(d)` (a finite submonoid of a
    group is a subgroup), `none` above `limit` -/
def closureOrder (d : Nat) (gens : List Perm) (limit : Nat) : Option Nat :=
  let e := permId d
  match setInsert (Array.replicate nBuckets []) e with
  | some set => closureLoop gens limit (limit + 2) (set, [e], 1)
  | none => none

def orderLimit : Nat := 20000

/-- the stored representation is a homomorphic image of the presented group, of the
    stated order (faithfulness = "the presentation has this order" is the corpus' claim) -/
def corpusClauses (n : Nat) (rels : List (List Int)) (d : Nat) (imgs : Array Perm) (order : Nat) :
    List (String × Bool) :=
  [("corpus-images-are-permutations", imgs.size == n && imgs.all (isPerm d)),
   ("corpus-images-satisfy-relators", rels.all fun r => evalWord d imgs r == permId d),
   ("corpus-order-matches-representation", closureOrder d imgs.toList orderLimit == some order)]

/-- `rows = |G| / |H|` with both orders computed in the permutation representation -/
def exactIndex (rows : Nat) (subs : List (List Int)) (d : Nat) (imgs : Array Perm) : Bool :=
  match closureOrder d imgs.toList orderLimit,
        closureOrder d (subs.map (evalWord d imgs)) orderLimit with
  | some g, some h => rows * h == g
  | _, _ => false

end DSymVerif.SpecC11
