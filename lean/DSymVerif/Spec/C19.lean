/-
Spec of property C19 — written from the mathematics, not from the code (import-free).

A graph is its list of directed edges `G : List (Nat × Nat)`; an undirected graph is
the symmetric closure of its edge list.  A walk is a list of vertices whose consecutive
pairs are edges.

* `reach G s`        vertices reachable from `s`, by naive closure (sweep over all edges
                     until nothing changes).  Every clause that uses it also evaluates
                     `closed G R`, so a `true` verdict never rests on the fuel: a closed
                     set containing `s` contains everything reachable
                     (`Props/C19.lean: reach_exact`).
* `separatesE/U/V`   `t` is not reachable from `s` once the cut is removed.
* `validPathsE/U/V`  k walks from `s` to `t`, pairwise edge-disjoint (directed edges /
                     unordered edges) resp. pairwise disjoint in their internal vertices.
                     Together with `separates…` this is the minimality certificate
                     (`Props/C19.lean: certificate_*`).
* `noSmaller…`       brute force over all smaller subsets (tiny graphs only): an
                     independent second opinion on minimality.
-/
namespace DSymVerif.SpecC19

abbrev Edge := Nat × Nat

def swap (e : Edge) : Edge := (e.2, e.1)

/-- symmetric closure: the directed edge list of an undirected graph -/
def sym (G : List Edge) : List Edge := G ++ G.map swap

/-- unordered edge `{v,w}` as the pair (min, max) -/
def norm (e : Edge) : Edge := if e.1 ≤ e.2 then e else swap e

/-- all endpoints (with repetitions) -/
def endpoints (G : List Edge) : List Nat := G.flatMap (fun e => [e.1, e.2])

/-! ### reachability -/

/-- one sweep: follow every edge that starts inside `R` -/
def sweep (G : List Edge) (R : List Nat) : List Nat :=
  G.foldl (fun R e => if R.contains e.1 && !R.contains e.2 then e.2 :: R else R) R

def reachFuel (G : List Edge) : Nat → List Nat → List Nat
  | 0, R => R
  | n + 1, R =>
    let R' := sweep G R
    if R'.length == R.length then R else reachFuel G n R'

/-- vertices reachable from `s` along edges of `G` (`s` itself included) -/
def reach (G : List Edge) (s : Nat) : List Nat := reachFuel G (G.length + 1) [s]

/-- `R` is closed under the edges of `G` -/
def closed (G : List Edge) (R : List Nat) : Bool :=
  G.all (fun e => !R.contains e.1 || R.contains e.2)

def sameSet (xs ys : List Nat) : Bool :=
  xs.all (ys.contains ·) && ys.all (xs.contains ·)

/-- `R` is exactly the set of vertices reachable from `s` in `G`
    (checked against the naive closure, whose closedness is re-checked) -/
def isReachSet (G : List Edge) (s : Nat) (R : List Nat) : Bool :=
  let R0 := reach G s
  closed G R0 && sameSet R R0

/-! ### removing a cut -/

def removeEdges (G cut : List Edge) : List Edge := G.filter (fun e => !cut.contains e)

/-- remove unordered edges: both orientations go -/
def removeEdgesU (G cut : List Edge) : List Edge :=
  G.filter (fun e => !cut.contains e && !cut.contains (swap e))

def removeVertices (G : List Edge) (C : List Nat) : List Edge :=
  G.filter (fun e => !C.contains e.1 && !C.contains e.2)

/-- in `G` there is no walk from `s` to `t` (witnessed by a closed set) -/
def unreachable (G : List Edge) (s t : Nat) : Bool :=
  let R := reach G s
  closed G R && R.contains s && !R.contains t

/-- removing the directed edges `cut` from `G` disconnects `t` from `s` -/
def separatesE (G cut : List Edge) (s t : Nat) : Bool := unreachable (removeEdges G cut) s t

/-- undirected graph given by the edge list `G` (any orientation), unordered cut edges -/
def separatesU (G cut : List Edge) (s t : Nat) : Bool := unreachable (removeEdgesU (sym G) cut) s t

/-- removing the vertices `C` from `G` disconnects `t` from `s` -/
def separatesV (G : List Edge) (C : List Nat) (s t : Nat) : Bool :=
  unreachable (removeVertices G C) s t

/-! ### walks and disjoint path systems -/

def walkEdges : List Nat → List Edge
  | a :: b :: r => (a, b) :: walkEdges (b :: r)
  | _ => []

/-- `p` is a walk from `s` to `t` along edges of `G` -/
def isWalk (G : List Edge) (s t : Nat) (p : List Nat) : Bool :=
  p.head? == some s && p.getLast? == some t && (walkEdges p).all (G.contains ·)

/-- the vertices of a walk other than its first and last entry -/
def internal (p : List Nat) : List Nat := p.tail.dropLast

def disjoint {α} [BEq α] (a b : List α) : Bool := a.all (fun x => !b.contains x)

def pairwiseDisjoint {α} [BEq α] : List (List α) → Bool
  | [] => true
  | x :: r => r.all (disjoint x) && pairwiseDisjoint r

/-- k pairwise edge-disjoint walks from `s` to `t` in the digraph `G` -/
def validPathsE (G : List Edge) (s t : Nat) (ps : List (List Nat)) : Bool :=
  s != t && ps.all (isWalk G s t) && pairwiseDisjoint (ps.map walkEdges)

/-- k walks from `s` to `t` in the undirected graph `G`, no unordered edge used twice -/
def validPathsU (G : List Edge) (s t : Nat) (ps : List (List Nat)) : Bool :=
  s != t && ps.all (isWalk (sym G) s t) &&
    pairwiseDisjoint (ps.map (fun p => (walkEdges p).map norm))

/-- k internally vertex-disjoint walks from `s` to `t` in the digraph `G` -/
def validPathsV (G : List Edge) (s t : Nat) (ps : List (List Nat)) : Bool :=
  s != t && ps.all (isWalk G s t) && pairwiseDisjoint (ps.map internal)

/-! ### brute force (tiny graphs) -/

/-- all sublists with exactly `k` elements -/
def choose {α} : List α → Nat → List (List α)
  | _, 0 => [[]]
  | [], _ + 1 => []
  | x :: r, k + 1 => (choose r k).map (x :: ·) ++ choose r (k + 1)

def dedup {α} [BEq α] (l : List α) : List α := l.eraseDups

/-- no set of fewer than `k` directed edges of `G` separates `t` from `s` -/
def noSmallerE (G : List Edge) (s t k : Nat) : Bool :=
  let E := dedup G
  (List.range k).all (fun j => (choose E j).all (fun c => !separatesE E c s t))

/-- the same for unordered edges -/
def noSmallerU (G : List Edge) (s t k : Nat) : Bool :=
  let E := dedup (G.map norm)
  (List.range k).all (fun j => (choose E j).all (fun c => !separatesU E c s t))

/-- no set of fewer than `k` vertices other than `s`, `t` separates -/
def noSmallerV (G : List Edge) (s t k : Nat) : Bool :=
  let V := (dedup (endpoints G)).filter (fun v => v != s && v != t)
  (List.range k).all (fun j => (choose V j).all (fun c => !separatesV G c s t))

/-! ### the clauses of the property -/

def nodupNat (l : List Nat) : Bool := l.eraseDups.length == l.length
def nodupEdge (l : List Edge) : Bool := l.eraseDups.length == l.length

/-- "the reported inside vertices, together with the source itself, are exactly the
    vertices still reachable from the source once the cut is removed" -/
def insideOkE (G cut : List Edge) (s : Nat) (inside : List Nat) : Bool :=
  isReachSet (removeEdges G cut) s (s :: inside)

def insideOkU (G cut : List Edge) (s : Nat) (inside : List Nat) : Bool :=
  isReachSet (removeEdgesU (sym G) cut) s (s :: inside)

def insideOkV (G : List Edge) (C : List Nat) (s : Nat) (inside : List Nat) : Bool :=
  isReachSet (removeVertices G C) s (s :: inside)

/-- the domain of the property (DESIGN §5.7), edge cuts: distinct terminals, the source an
    endpoint of an edge (the sink may be a vertex that occurs in no edge) -/
def inDomainE (G : List Edge) (s t : Nat) : Bool :=
  s != t && (endpoints G).contains s

/-- vertex cuts, directed: both terminals endpoints of edges, no edge `s → t` -/
def inDomainV (G : List Edge) (s t : Nat) : Bool :=
  inDomainE G s t && (endpoints G).contains t && !G.contains (s, t)

/-- vertex cuts, undirected: no edge between `s` and `t` in either direction -/
def inDomainVU (G : List Edge) (s t : Nat) : Bool :=
  inDomainV G s t && !G.contains (t, s)

end DSymVerif.SpecC19
