/-
Spec of property C10 — written from the mathematics, not from the code.

A word over generators 1,2,… is a list of non-zero integers (x and -x mutually
inverse letters).  `reduceSpec` is the textbook rewriting system: repeatedly delete
the left-most adjacent inverse pair (and zero letters, which stand for nothing).
`Props/C10.lean` proves `enc (reduceSpec w) = FreeGroup.reduce (enc w)`, so the
Boolean clauses below mean what they say in Mathlib's free group.
-/
namespace DSymVerif.SpecC10

/-- freely reduced: no zero letter, no adjacent inverse pair -/
def isReduced : List Int → Bool
  | [] => true
  | [x] => x != 0
  | x :: y :: r => x != 0 && x != -y && isReduced (y :: r)

/-- delete the left-most cancelling pair / zero letter, if any -/
def cancelOnce : List Int → Option (List Int)
  | [] => none
  | [x] => if x == 0 then some [] else none
  | x :: y :: r =>
    if x == 0 then some (y :: r)
    else if x == -y then some r
    else (cancelOnce (y :: r)).map (x :: ·)

def reduceFuel : Nat → List Int → List Int
  | 0, w => w
  | n + 1, w =>
    match cancelOnce w with
    | some w' => reduceFuel n w'
    | none => w

/-- the reduced form by naive rewriting (each step shortens the word) -/
def reduceSpec (w : List Int) : List Int := reduceFuel w.length w

/-- the `k`-th letter of a word (counting from 0); a word of length n has no `k`-th
    letter for k ≥ n -/
def letterAt : List Int → Nat → Option Int
  | [], _ => none
  | x :: _, 0 => some x
  | _ :: r, k + 1 => letterAt r k

def inv (w : List Int) : List Int := w.reverse.map (fun x => -x)

def rot (w : List Int) (k : Nat) : List Int := w.drop k ++ w.take k

def powRaw (w : List Int) : Nat → List Int
  | 0 => []
  | n + 1 => powRaw w n ++ w

/-- order on letters: key x = (x<0, |x|) compared lexicographically -/
def keyLt (x y : Int) : Bool :=
  let kx := (if x < 0 then 1 else 0, x.natAbs)
  let ky := (if y < 0 then 1 else 0, y.natAbs)
  kx.1 < ky.1 || (kx.1 == ky.1 && kx.2 < ky.2)

/-- lexicographic order induced by `keyLt`, proper prefixes first: -1 lt, 0 eq, 1 gt -/
def wordCmp : List Int → List Int → Int
  | [], [] => 0
  | [], _ :: _ => -1
  | _ :: _, [] => 1
  | x :: xs, y :: ys =>
    if x == y then wordCmp xs ys else if keyLt x y then -1 else 1

def wordLe (a b : List Int) : Bool := wordCmp a b ≤ 0

/-- cyclically reduced: reduced and first letter not inverse to the last -/
def isCyclicallyReduced (w : List Int) : Bool :=
  isReduced w && (match w.head?, w.getLast? with
    | some a, some b => w.length < 2 || a != -b
    | _, _ => true)

/-- the set the property talks about: all rotations of w and of its inverse
    (each freely reduced, as values of the word type are) -/
def relatorSet (w : List Int) : List (List Int) :=
  if w.isEmpty then [w] else
  (List.range w.length).flatMap (fun k =>
    [reduceSpec (rot w k), reduceSpec (inv (reduceSpec (rot w k)))])

def isSortedStrict : List (List Int) → Bool
  | [] => true
  | [_] => true
  | a :: b :: r => wordCmp a b == -1 && isSortedStrict (b :: r)

def sameSet (xs ys : List (List Int)) : Bool :=
  xs.all (ys.contains ·) && ys.all (xs.contains ·)

end DSymVerif.SpecC10
