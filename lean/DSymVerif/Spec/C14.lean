/-
Spec of property C14 — written from the mathematics, not from the code (import-free).

For `n` generators and relators `w₁ … w_r` the relation matrix `A` (r × n) has the exponent sums
of the relators as rows.  `Z^n / rowspace(A) ≅ ⊕ Z/s_k ⊕ Z^(n − rank A)` where the invariant
factors are `s_k = d_k / d_{k−1}`, `d_0 = 1`, `d_k` = gcd of all k×k minors of `A`
(determinantal divisors), `k = 1 … rank A`, and `rank A` = the largest `k` with `d_k ≠ 0`.
The property's list is: the `s_k ≠ 1` and one `0` per free generator, in ascending numerical
order (so the zeros come first: the code's tests expect `[0, 0, 0]` for Z³).
Minors are computed by Laplace expansion over all k-subsets of rows and columns: exponential,
meant for matrices up to about 8 × 6.
-/
namespace DSymVerif.SpecC14

/-- exponent sum of generator `k+1` in the word `w` (letters `±(k+1)`) -/
def expSum (k : Nat) (w : List Int) : Int :=
  (w.count ((k : Int) + 1) : Int) - (w.count (-((k : Int) + 1)) : Int)

/-- exponent-sum vector of a word in `n` generators -/
def expVec (n : Nat) (w : List Int) : List Int := (List.range n).map (fun k => expSum k w)

def relMatrix (n : Nat) (rels : List (List Int)) : List (List Int) := rels.map (expVec n)

/-- letters are `±1 … ±n` -/
def wordInRange (n : Nat) (w : List Int) : Bool := w.all (fun g => g != 0 && g.natAbs ≤ n)

/-- all sublists of length `k`, in order -/
def subsets {α : Type} : Nat → List α → List (List α)
  | 0, _ => [[]]
  | _ + 1, [] => []
  | k + 1, x :: xs => (subsets k xs).map (x :: ·) ++ subsets (k + 1) xs

def alt : Nat → List Int → List Int
  | _, [] => []
  | j, x :: xs => (if j % 2 = 0 then x else -x) :: alt (j + 1) xs

/-- determinant of a `k × k` matrix (list of rows) by expansion along the first row -/
def det : Nat → List (List Int) → Int
  | 0, _ => 1
  | _ + 1, [] => 0
  | k + 1, row :: rest =>
    ((alt 0 row).zipIdx.map (fun (p : Int × Nat) =>
      p.1 * det k (rest.map (fun r => r.eraseIdx p.2)))).foldl (· + ·) 0

def pick (l : List Int) (idx : List Nat) : List Int := idx.map (fun i => l.getD i 0)

/-- all `k × k` minors of the `r × n` matrix `a` -/
def minors (a : List (List Int)) (n k : Nat) : List Int :=
  (subsets k (List.range a.length)).flatMap (fun rs =>
    (subsets k (List.range n)).map (fun cs =>
      det k (rs.map (fun r => pick (a.getD r []) cs))))

/-- `d_k` (as a natural number; `d_0 = 1`) -/
def detDivisor (a : List (List Int)) (n k : Nat) : Nat :=
  (minors a n k).foldl (fun g x => Nat.gcd g x.natAbs) 0

/-- rank = number of leading non-zero determinantal divisors `d_1, d_2, …` -/
def rankFrom (a : List (List Int)) (n : Nat) : Nat → Nat → Nat
  | 0, _ => 0
  | fuel + 1, k => if detDivisor a n k ≠ 0 then 1 + rankFrom a n fuel (k + 1) else 0

def rank (a : List (List Int)) (n : Nat) : Nat := rankFrom a n (min a.length n) 1

/-- `s_1 … s_rank` -/
def invariantFactors (a : List (List Int)) (n : Nat) : List Nat :=
  (List.range (rank a n)).map (fun k => detDivisor a n (k + 1) / detDivisor a n k)

def insertAsc (x : Nat) : List Nat → List Nat
  | [] => [x]
  | y :: ys => if x ≤ y then x :: y :: ys else y :: insertAsc x ys

def sortAsc (l : List Nat) : List Nat := l.foldr insertAsc []

def isAscending : List Nat → Bool
  | [] => true
  | [_] => true
  | a :: b :: r => a ≤ b && isAscending (b :: r)

/-- the list the property describes, for a relation matrix with `n` columns -/
def expectedOfMatrix (a : List (List Int)) (n : Nat) : List Nat :=
  sortAsc ((invariantFactors a n).filter (· ≠ 1) ++ List.replicate (n - rank a n) 0)

def expected (n : Nat) (rels : List (List Int)) : List Nat := expectedOfMatrix (relMatrix n rels) n

/-- clause list for one returned list -/
def clauses (n : Nat) (rels : List (List Int)) (out : List Nat) : List (String × Bool) :=
  let a := relMatrix n rels
  let fs := (invariantFactors a n).filter (· ≠ 1)
  [ ("ascending", isAscending out),
    ("no-entry-equal-1", out.all (· ≠ 1)),
    ("one-zero-per-free-generator", out.count 0 = n - rank a n),
    ("nonzero-entries-are-the-invariant-factors", sortAsc (out.filter (· ≠ 0)) = sortAsc fs),
    ("equals-expected-list", out = expectedOfMatrix a n) ]

end DSymVerif.SpecC14
