/-
Spec of property C09 — written from the theory of Delaney symbols, not from the code.
No Mathlib; reuses the plain-table view `SpecC02.G` and `SpecC10.isReduced / wordCmp`.

The orbifold fundamental group of a connected D-symbol (chambers 1..n, operations
s_0..s_dim, branching numbers v_ij) is the group of "chamber walks" from a base chamber back
to itself modulo backtracking and modulo the walks (s_i s_j)^{m_ij(d)} around 2-orbits.
Reidemeister–Schreier on the chamber graph gives the TEXTBOOK presentation built here:

  generators  g(d,i)            one per chamber facet (crossing facet i out of chamber d)
  pairing     g(d,i) g(s_i d,i)              (mirror facets s_i d = d:  g(d,i)²)
  2-orbits    (g(d,i) g(d_i,j) g(d_ij,i) …)^{v_ij(d)}   one per (i,j)-orbit, i < j
  tree        g(d,i)            for the facets of a spanning tree of the chamber graph

Two presentations are compared through isomorphism invariants computed by independent naive
oracles: abelianisation (integer row/column reduction), the number of transitive permutation
representations and of conjugacy classes of subgroups per index (brute force over generator
images in S_k), and the order (HLT Todd–Coxeter with a coset limit).  Both presentations go
through the same Tietze simplification (eliminate a generator that occurs exactly once in a
relator) to keep the searches small.
-/
import DSymVerif.Spec.C02
import DSymVerif.Spec.C10

namespace DSymVerif.SpecC09
open DSymVerif.SpecC02

/-! ## words -/

/-- free reduction with a stack (zero letters stand for nothing) -/
def freeReduce (w : List Int) : List Int :=
  (w.foldl (fun (st : List Int) x =>
    if x == 0 then st else
    match st with
    | y :: r => if x == -y then r else x :: st
    | [] => [x]) []).reverse

def inv (w : List Int) : List Int := w.reverse.map (fun x => -x)

def pow (w : List Int) : Nat → List Int
  | 0 => []
  | n + 1 => pow w n ++ w

/-- strip mutually inverse end letters of a freely reduced word -/
def cycStrip : Nat → List Int → List Int
  | 0, w => w
  | n + 1, w =>
    match w.head?, w.getLast? with
    | some a, some b => if w.length ≥ 2 && a == -b then cycStrip n ((w.drop 1).dropLast) else w
    | _, _ => w

def cycReduce (w : List Int) : List Int :=
  let r := freeReduce w
  cycStrip r.length r

def rotations (w : List Int) : List (List Int) :=
  if w.isEmpty then [w] else (List.range w.length).map fun k => w.drop k ++ w.take k

def leastWord (ws : List (List Int)) : List Int :=
  ws.foldl (fun best w => if SpecC10.wordCmp w best == -1 then w else best) (ws.headD [])

/-- canonical representative of a word up to conjugation and inversion
    (= up to the choice of starting chamber and direction of a closed walk) -/
def conjRep (w : List Int) : List Int :=
  let c := cycReduce w
  leastWord (rotations c ++ rotations (inv c))

def dedup {α} [BEq α] (xs : List α) : List α :=
  xs.foldl (fun acc x => if acc.contains x then acc else acc ++ [x]) []

def sameSet {α} [BEq α] (xs ys : List α) : Bool :=
  xs.all (ys.contains ·) && ys.all (xs.contains ·)

/-! ## the symbol -/

/-- v constant along adjacent 2-orbits and ≥ 1 -/
def vConsistent (g : G) : Bool :=
  (List.range g.dim).all fun i => g.chambers.all fun d =>
    g.v i d ≥ 1 && g.v i (g.op i d) == g.v i d && g.v i (g.op (i + 1) d) == g.v i d

/-- chambers reachable from 1 (plain breadth-first search) -/
def bfsLoop (g : G) : Nat → List Nat → Array Bool → List (Nat × Nat) → Array Bool × List (Nat × Nat)
  | 0, _, seen, tree => (seen, tree)
  | _, [], seen, tree => (seen, tree)
  | fuel + 1, d :: queue, seen, tree =>
    let (seen, queue, tree) := g.indices.foldl (fun (acc : Array Bool × List Nat × List (Nat × Nat)) i =>
      let e := g.op i d
      if e == 0 || acc.1.getD e true then acc
      else (acc.1.setIfInBounds e true, acc.2.1 ++ [e], acc.2.2 ++ [(d, i)])) (seen, queue, tree)
    bfsLoop g fuel queue seen tree

/-- facets (d,i) of a breadth-first spanning tree rooted at chamber 1 -/
def spanTree (g : G) : List (Nat × Nat) :=
  (bfsLoop g (g.size + 1) [1] ((Array.replicate (g.size + 1) false).setIfInBounds 1 true) []).2

def connectedBfs (g : G) : Bool := (spanTree g).length + 1 == g.size

/-- the input is in the domain of the property: a connected complete D-symbol -/
def validSymbol (g : G) : Bool :=
  g.size ≥ 1 && g.dim ≥ 1 && g.involutive && g.complete && g.farCommute && connectedBfs g && vConsistent g

/-- the (i,j)-orbit of d: d, s_i d, s_j s_i d, … -/
def orbitWalk (g : G) (i j d : Nat) : Nat → Nat → List Nat → List Nat
  | 0, _, acc => acc
  | fuel + 1, e, acc =>
    let e1 := g.op i e
    let e2 := g.op j e1
    let acc := acc ++ [e, e1]
    if e2 == d then acc else orbitWalk g i j d fuel e2 acc

def orbit2 (g : G) (i j d : Nat) : List Nat := orbitWalk g i j d (g.size + 1) d []

/-- least chamber of every (i,j)-orbit -/
def orbitReps (g : G) (i j : Nat) : List Nat :=
  g.chambers.filter fun d => (orbit2 g i j d).all (d ≤ ·)

/-- does the orbit contain a chamber fixed by s_i or s_j (a mirror)? -/
def orbitHasMirror (g : G) (i j d : Nat) : Bool :=
  (orbit2 g i j d).any fun e => g.op i e == e || g.op j e == e

def vOf (g : G) (i j d : Nat) : Nat := (g.vDef i j d).getD 0

def indexPairs (g : G) : List (Nat × Nat) :=
  g.indices.flatMap fun i => (g.indices.filter (i < ·)).map fun j => (i, j)

/-- the closed walk around the (i,j)-orbit starting at d with facet i, written with the facet
    words `f` -/
def orbitWordAux (g : G) (f : Nat → Nat → List Int) (i j d : Nat) : Nat → Nat → List Int → List Int
  | 0, _, acc => acc
  | fuel + 1, e, acc =>
    let e1 := g.op i e
    let e2 := g.op j e1
    let acc := acc ++ f e i ++ f e1 j
    if e2 == d then acc else orbitWordAux g f i j d fuel e2 acc

def orbitWord (g : G) (f : Nat → Nat → List Int) (i j d : Nat) : List Int :=
  orbitWordAux g f i j d (g.size + 1) d []

/-! ## presentations -/

structure Pres where
  ngens : Nat
  rels : List (List Int)
  deriving Repr, BEq, Inhabited

def genOf (g : G) (d i : Nat) : Int := (((d - 1) * (g.dim + 1) + i + 1 : Nat) : Int)

/-- the textbook presentation of the orbifold fundamental group -/
def textbook (g : G) : Pres :=
  let f := fun d i => [genOf g d i]
  let pairing := g.chambers.flatMap fun d => (g.indices.filter fun i => d ≤ g.op i d).map fun i =>
    [genOf g d i, genOf g (g.op i d) i]
  let orbits := (indexPairs g).flatMap fun (i, j) =>
    (orbitReps g i j).map fun d => pow (orbitWord g f i j d) (vOf g i j d)
  let tree := (spanTree g).map fun (d, i) => [genOf g d i]
  { ngens := g.size * (g.dim + 1), rels := tree ++ pairing ++ orbits }

/-- replace the generator `x` by the word `u` -/
def subst (x : Nat) (u : List Int) (w : List Int) : List Int :=
  w.flatMap fun y => if y == (x : Int) then u else if y == -(x : Int) then inv u else [y]

/-- a letter whose generator occurs exactly once in `w` -/
def singleLetter (w : List Int) : Option Int :=
  w.find? fun y => (w.countP fun z => z.natAbs == y.natAbs) == 1

/-- among the relators that contain a once-only generator, the shortest (first on ties) -/
def findElim (rels : List (List Int)) : Option (List Int × Int) :=
  rels.foldl (fun (best : Option (List Int × Int)) w =>
    match singleLetter w with
    | none => best
    | some y =>
      match best with
      | some (b, _) => if w.length < b.length then some (w, y) else best
      | none => some (w, y)) none

def normRels (rels : List (List Int)) : List (List Int) :=
  dedup ((rels.map cycReduce).filter (!·.isEmpty))

/-- Tietze elimination: `A y B = 1` with `y = x^{±1}` occurring once gives `x^{±1} = (B A)⁻¹` -/
def elimLoop : Nat → List (List Int) → List Nat → List (List Int) × List Nat
  | 0, rels, gone => (rels, gone)
  | fuel + 1, rels, gone =>
    match findElim rels with
    | none => (rels, gone)
    | some (w, y) =>
      let k := w.idxOf y
      let a := w.take k
      let b := w.drop (k + 1)
      let u := if y > 0 then inv (b ++ a) else b ++ a
      elimLoop fuel (normRels (rels.map (subst y.natAbs u))) (y.natAbs :: gone)

/-- simplified presentation, remaining generators renumbered 1..g in ascending order -/
def simplify (p : Pres) : Pres :=
  let (rels, gone) := elimLoop p.ngens (normRels p.rels) []
  let keep := ((List.range p.ngens).map (· + 1)).filter (!gone.contains ·)
  let newIdx : Array Nat := keep.zipIdx.foldl (fun (a : Array Nat) (x : Nat × Nat) => a.setIfInBounds x.1 (x.2 + 1))
    (Array.replicate (p.ngens + 1) 0)
  let ren := fun (y : Int) => if y > 0 then (newIdx.getD y.natAbs 0 : Int) else -(newIdx.getD y.natAbs 0 : Int)
  { ngens := keep.length, rels := rels.map (·.map ren) }

def lettersInRange (n : Nat) (w : List Int) : Bool := w.all fun y => y != 0 && y.natAbs ≤ n

/-! ## invariant (a): abelianisation -/

def expVec (n : Nat) (w : List Int) : List Int :=
  (List.range n).map fun k => w.foldl (fun s y => if y == ((k + 1 : Nat) : Int) then s + 1
                                                  else if y == -((k + 1 : Nat) : Int) then s - 1 else s) 0

/-- position and value of a non-zero entry of least absolute value -/
def minEntry (rows : List (List Int)) : Option (Nat × Nat × Int) :=
  rows.zipIdx.foldl (fun best (row, r) =>
    row.zipIdx.foldl (fun best (x, c) =>
      if x == 0 then best else
      match best with
      | some (_, _, b) => if x.natAbs < b.natAbs then some (r, c, x) else best
      | none => some (r, c, x)) best) none

/-- diagonalisation by integer row and column operations; returns the absolute values of the
    diagonal entries (`none`: fuel exhausted) -/
def diagLoop : Nat → List (List Int) → List Nat → Option (List Nat)
  | 0, _, _ => none
  | fuel + 1, rows, acc =>
    match minEntry rows with
    | none => some acc
    | some (r, c, p) =>
      let prow := rows.getD r []
      -- clear column c in the other rows as far as possible
      let rows1 := rows.zipIdx.map fun (row, k) =>
        if k == r then row else
          let q := (row.getD c 0) / p
          if q == 0 then row else (row.zip prow).map fun (x, y) => x - q * y
      if rows1.zipIdx.any (fun (row, k) => k != r && row.getD c 0 != 0) then diagLoop fuel rows1 acc
      else
        -- column c is zero outside the pivot row: column operations only change the pivot row
        let prow1 : List Int := prow.zipIdx.map fun ((x : Int), (k : Nat)) => if k == c then x else x % p
        if prow1.zipIdx.any (fun (x, k) => k != c && x != 0) then
          diagLoop fuel (rows1.zipIdx.map fun (row, k) => if k == r then prow1 else row) acc
        else
          diagLoop fuel ((rows1.zipIdx.filter (fun (_, k) => k != r)).map fun (row, _) => row.eraseIdx c)
            (p.natAbs :: acc)

/-- make the diagonal a divisibility chain: (a, b) ↦ (gcd, lcm) -/
def chainPass (d : Nat) : List Nat → Nat × List Nat
  | [] => (d, [])
  | x :: xs =>
    let g := Nat.gcd d x
    let l := if g == 0 then 0 else d / g * x
    let (d', rest) := chainPass g xs
    (d', l :: rest)

def chain : Nat → List Nat → List Nat
  | 0, ds => ds
  | _, [] => []
  | fuel + 1, d :: ds =>
    let (d', rest) := chainPass d ds
    d' :: chain fuel rest

/-- (free rank, invariant factors ≠ 1 in divisibility order) of `Z^n / ⟨rows⟩` -/
def abelianInvariants (p : Pres) : Option (Nat × List Nat) :=
  let rows := (p.rels.map (expVec p.ngens)).filter (·.any (· != 0))
  match diagLoop (64 * (rows.length + p.ngens + 4) * (rows.length + p.ngens + 4)) rows [] with
  | none => none
  | some diag =>
    let ch := chain diag.length diag
    some (p.ngens - diag.length, ch.filter (· != 1))

/-! ## invariant (b): subgroups of small index by brute force over generator images in S_k -/

def insertAll (x : Nat) : List Nat → List (List Nat)
  | [] => [[x]]
  | y :: ys => (x :: y :: ys) :: (insertAll x ys).map (y :: ·)

/-- all permutations of 0..k-1 as image arrays -/
def perms (k : Nat) : List (Array Nat) :=
  ((List.range k).foldl (fun acc x => acc.flatMap (insertAll x)) [[]]).map (·.toArray)

def permInv (p : Array Nat) : Array Nat :=
  (List.range p.size).foldl (fun (a : Array Nat) x => a.setIfInBounds (p.getD x 0) x) (Array.replicate p.size 0)

/-- image of the point x under the word w (letters act from left to right) -/
def actWord (ps qs : Array (Array Nat)) (w : List Int) (x : Nat) : Nat :=
  w.foldl (fun x y =>
    if y > 0 then (ps.getD (y.natAbs - 1) #[]).getD x x else (qs.getD (y.natAbs - 1) #[]).getD x x) x

def relHolds (k : Nat) (ps qs : Array (Array Nat)) (w : List Int) : Bool :=
  (List.range k).all fun x => actWord ps qs w x == x

/-- is the group generated by the images transitive on 0..k-1 ? -/
def transitive (k : Nat) (ps : Array (Array Nat)) : Bool :=
  let step := fun (s : List Nat) =>
    ps.foldl (fun s p => s.foldl (fun s x => let y := p.getD x x; if s.contains y then s else s ++ [y]) s) s
  let s := (List.range k).foldl (fun s _ => step s) [0]
  s.length == k

def conjTuple (ps : Array (Array Nat)) (s sInv : Array Nat) : List Nat :=
  ps.toList.flatMap fun p => (List.range p.size).map fun x => s.getD (p.getD (sInv.getD x 0) 0) 0

def lexLe : List Nat → List Nat → Bool
  | [], _ => true
  | _ :: _, [] => false
  | a :: as, b :: bs => a < b || (a == b && lexLe as bs)

/-- the tuple is the least among its conjugates under S_k -/
def isCanonical (all : List (Array Nat × Array Nat)) (ps : Array (Array Nat)) : Bool :=
  let me := ps.toList.flatMap (·.toList)
  all.all fun (s, sInv) => lexLe me (conjTuple ps s sInv)

structure Count where
  homs : Nat := 0
  classes : Nat := 0
  budget : Nat
  exhausted : Bool := false
  deriving Repr

/-- candidate images of one generator: (image, inverse, multiplicity) -/
abbrev Cand := Array Nat × Array Nat × Nat

/-- assign images to generators `m, m+1, …` (n = number still unassigned), checking every
    relator as soon as all its generators have images.  `mult` is the number of tuples the
    current branch stands for (the first generator only runs over the least member of each
    conjugacy class of S_k, weighted by the class size; a tuple that is least among its
    conjugates has such a first component, so classes are still counted one by one). -/
def search (k : Nat) (all : List (Array Nat × Array Nat)) (relsAt : Array (List (List Int))) :
    Nat → List Cand → Nat → Array (Array Nat) → Array (Array Nat) → Count → Count
  | 0, _, mult, ps, _, c =>
    if transitive k ps then
      { c with homs := c.homs + mult, classes := c.classes + (if isCanonical all ps then 1 else 0) }
    else c
  | n + 1, cands, mult, ps, qs, c =>
    cands.foldl (fun (c : Count) (pq : Cand) =>
      if c.exhausted then c
      else if c.budget == 0 then { c with exhausted := true }
      else
        let c := { c with budget := c.budget - 1 }
        let ps' := ps.push pq.1
        let qs' := qs.push pq.2.1
        if (relsAt.getD ps'.size []).all (relHolds k ps' qs') then
          search k all relsAt n (all.map fun s => (s.1, s.2, 1)) (mult * pq.2.2) ps' qs' c
        else c) c

/-- the least member of every conjugacy class of S_k with the size of the class -/
def classReps (all : List (Array Nat × Array Nat)) : List Cand :=
  all.filterMap fun (p, pInv) =>
    let conj := all.map fun (s, sInv) => conjTuple #[p] s sInv
    let me := p.toList
    if conj.all (lexLe me ·) then some (p, pInv, (conj.filter (· == me)).length |> fun fix => all.length / fix)
    else none

/-- (number of transitive homomorphisms to S_k, number of conjugacy classes of subgroups of
    index k); `none` when the node budget is used up.  The number of subgroups of index k is the
    first component divided by (k-1)!. -/
def subgroupCounts (p : Pres) (k : Nat) (budget : Nat) : Option (Nat × Nat) :=
  let all := (perms k).map fun s => (s, permInv s)
  let relsAt : Array (List (List Int)) :=
    p.rels.foldl (fun (a : Array (List (List Int))) w =>
      let m := w.foldl (fun m y => max m y.natAbs) 0
      a.setIfInBounds m (w :: a.getD m [])) (Array.replicate (p.ngens + 1) [])
  let c := search k all relsAt p.ngens (classReps all) 1 #[] #[] { budget := budget }
  if c.exhausted then none else some (c.homs, c.classes)

/-! ## invariant (c): order by Todd–Coxeter (HLT, trivial subgroup, coset limit) -/

structure TC where
  ncols : Nat
  tab : Array Nat          -- row c at [c*ncols, (c+1)*ncols), 0 = undefined; cosets 1..n
  par : Array Nat          -- union-find parent; live cosets are their own parent
  n : Nat
  limit : Nat

namespace TC

def get (t : TC) (c x : Nat) : Nat := t.tab.getD (c * t.ncols + x) 0
def set (t : TC) (c x v : Nat) : TC := { t with tab := t.tab.setIfInBounds (c * t.ncols + x) v }

def repAux (t : TC) : Nat → Nat → Nat
  | 0, c => c
  | f + 1, c => let q := t.par.getD c c; if q == c then c else repAux t f q

def rep (t : TC) (c : Nat) : Nat := repAux t (t.n + 1) c

def live (t : TC) (c : Nat) : Bool := t.par.getD c 0 == c

def merge (t : TC) (q : List Nat) (a b : Nat) : TC × List Nat :=
  let φ := t.rep a
  let ψ := t.rep b
  if φ == ψ then (t, q) else
  let μ := min φ ψ
  let ν := max φ ψ
  ({ t with par := t.par.setIfInBounds ν μ }, q ++ [ν])

def coincLoop : Nat → TC → List Nat → TC
  | 0, t, _ => t
  | _, t, [] => t
  | f + 1, t, γ :: q =>
    let (t, q) := (List.range t.ncols).foldl (fun (tq : TC × List Nat) x =>
      let t := tq.1
      let δ := t.get γ x
      if δ == 0 then tq else
        let t := t.set δ (x ^^^ 1) 0
        let t := t.set γ x 0
        let μ := t.rep γ
        let ν := t.rep δ
        if t.get μ x != 0 then merge t tq.2 ν (t.get μ x)
        else if t.get ν (x ^^^ 1) != 0 then merge t tq.2 μ (t.get ν (x ^^^ 1))
        else ((t.set μ x ν).set ν (x ^^^ 1) μ, tq.2)) (t, q)
    coincLoop f t q

def coincidence (t : TC) (a b : Nat) : TC :=
  let (t, q) := merge t [] a b
  coincLoop (t.n + 2) t q

def scanFwd (t : TC) : Nat → List Nat → Nat × List Nat
  | f, [] => (f, [])
  | f, x :: xs => let e := t.get f x; if e == 0 then (f, x :: xs) else scanFwd t e xs

/-- scan the reversed remainder backwards from b -/
def scanBwd (t : TC) : Nat → List Nat → Nat × List Nat
  | b, [] => (b, [])
  | b, x :: xs => let e := t.get b (x ^^^ 1); if e == 0 then (b, x :: xs) else scanBwd t e xs

def define (t : TC) (c x : Nat) : Option TC :=
  if t.n ≥ t.limit then none else
  let β := t.n + 1
  let t := { t with n := β, tab := t.tab ++ Array.replicate t.ncols 0, par := t.par.push β }
  some ((t.set c x β).set β (x ^^^ 1) c)

/-- SCAN-AND-FILL of the word `mid` (column numbers) from `f` forward and `b` backward -/
def scanFill : Nat → TC → Nat → Nat → List Nat → Option TC
  | 0, t, _, _, _ => some t
  | fuel + 1, t, f, b, mid =>
    let (f, mid) := scanFwd t f mid
    match mid with
    | [] => some (if f != b then coincidence t f b else t)
    | _ =>
      let (b, midRev) := scanBwd t b mid.reverse
      match midRev.reverse with
      | [] => some (coincidence t f b)
      | [x] => some ((t.set f x b).set b (x ^^^ 1) f)
      | x :: rest =>
        match define t f x with
        | none => none
        | some t => scanFill fuel t f b (x :: rest)

def colOf (y : Int) : Nat := if y > 0 then 2 * (y.natAbs - 1) else 2 * (y.natAbs - 1) + 1

def mainLoop (rels : List (List Nat)) : Nat → TC → Nat → Option TC
  | 0, _, _ => none
  | fuel + 1, t, α =>
    if α > t.n then some t else
    let r := rels.foldl (fun (ot : Option TC) w =>
      match ot with
      | none => none
      | some t => if t.live α then scanFill (w.length + 2) t α α w else some t) (some t)
    match r with
    | none => none
    | some t => mainLoop rels fuel t (α + 1)

end TC

def insertByLength (w : List Nat) : List (List Nat) → List (List Nat)
  | [] => [w]
  | v :: vs => if w.length ≤ v.length then w :: v :: vs else v :: insertByLength w vs

/-- order of the presented group if the enumeration closes with at most `limit` cosets
    (relators are scanned shortest first) -/
def orderTC (p : Pres) (limit : Nat) : Option Nat :=
  if p.ngens == 0 then some 1 else
  let ncols := 2 * p.ngens
  let triv := (List.range p.ngens).map fun k => [2 * k, 2 * k + 1]
  let rels := triv ++ (p.rels.map (·.map TC.colOf)).foldr insertByLength []
  let t0 : TC := { ncols := ncols, tab := Array.replicate (2 * ncols) 0, par := #[0, 1], n := 1, limit := limit }
  match TC.mainLoop rels (limit + 2) t0 1 with
  | none => none
  | some t => some (((List.range t.n).map (· + 1)).countP t.live)

/-- two-stage enumeration: the small limit first, the large one only if that does not close -/
def orderTC2 (p : Pres) (small large : Nat) : Option Nat :=
  match orderTC p small with
  | some n => some n
  | none => orderTC p large

/-! ## curvature and sphericity of 2D symbols, from the definitions -/

def mOf (g : G) (i j d : Nat) : Nat := (g.orbitLen i j d).getD 0 * vOf g i j d

/-- K = Σ_d (1/m01 + 1/m02 + 1/m12 − 1) as (numerator, denominator), denominator > 0 -/
def curvature2d (g : G) : Int × Nat :=
  let ms := g.chambers.flatMap fun d => [mOf g 0 1 d, mOf g 0 2 d, mOf g 1 2 d]
  let l := ms.foldl (fun l m => if m == 0 then l else l / Nat.gcd l m * m) 1
  let num : Int := g.chambers.foldl (fun (s : Int) d =>
    s + ((l / max 1 (mOf g 0 1 d) + l / max 1 (mOf g 0 2 d) + l / max 1 (mOf g 1 2 d) : Nat) : Int) - (l : Int)) 0
  (num, l)

/-- orders of the cone points (2-orbits without mirror, v > 1) and of the corners
    (2-orbits with a mirror, v > 1) -/
def conesCorners (g : G) : List Nat × List Nat :=
  let orbs := (indexPairs g).flatMap fun (i, j) => (orbitReps g i j).map fun d => (vOf g i j d, orbitHasMirror g i j d)
  (((orbs.filter fun o => o.1 > 1 && !o.2).map (·.1)), ((orbs.filter fun o => o.1 > 1 && o.2).map (·.1)))

def unequalOneOrTwo (l : List Nat) : Bool :=
  match l with
  | [_] => true
  | [p, q] => p != q
  | _ => false

/-- a 2D symbol of positive curvature is a bad orbifold (no spherical structure) exactly for
    S²(p), S²(p,q), *p, *pq with p ≠ q -/
def badOrbifold (g : G) : Bool :=
  let (cones, corners) := conesCorners g
  if g.loopless then g.bipartite && unequalOneOrTwo cones
  else cones.isEmpty && unequalOneOrTwo corners

/-- `some N` : the symbol is a spherical 2D symbol and its group has order N = 4/K -/
def sphericalOrder (g : G) : Option Nat :=
  if g.dim != 2 then none else
  let (num, den) := curvature2d g
  if num ≤ 0 || badOrbifold g then none
  else if (4 * den) % num.natAbs == 0 then some (4 * den / num.natAbs) else some 0

end DSymVerif.SpecC09
