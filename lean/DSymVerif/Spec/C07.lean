/-
Spec of property C07 — "the D-symbol generator is sound, complete and irredundant per
geometry" — written from the definitions, by brute force.  No Mathlib; imports the C03 Spec
(isomorphism of symbols by brute force), the C08 Spec (fractions, the orbifold-symbol grammar,
sameness of symbols) and the C08 *model* of `delaney2d::orbifold_symbol` — "the exact orbifold
symbol computed elsewhere in the crate" that the property refers to (tied to the crate by C08's
correspondence, and re-compared with the crate's answer for every emitted symbol here).

For a connected complete 2D D-set `g` (tables: `op i d`, chambers 1..size):

* the (i,i+1)-orbits, i = 0, 1, are computed by naive closure; `r` = least k ≥ 1 with
  (s_{i+1} s_i)^k d = d; a branching assignment gives every orbit a number v ≥ 1; the degree
  is m = r·v; "every degree at least 3" makes `vmin r` = least v ≥ 1 with r·v ≥ 3 the least
  admissible value;
* curvature (definition): K = Σ_chambers (1/m01 + 1/m12 − 1/2); all |o| chambers of an orbit o
  share m = r·v, so K = Σ_orbits |o|/(r·v) − size/2 — exact fractions, sign by cross
  multiplication (nothing of the generator's scaled integer bookkeeping is used; the chamber
  sum itself, `SpecC08.G.curvature`, and the crate's own `curvature` are compared with this
  value on every emitted symbol);
* the oracle enumerates the whole box  vmin ≤ v ≤ 8  per orbit and filters:
    euclidean   K = 0
    hyperbolic  K < 0, and lowering any single v by one (where the result is still
                admissible, v − 1 ≥ vmin) gives K ≥ 0
    spherical   K > 0, every v ≤ 7, and the orbifold symbol names an orbifold of the
                generator's fixed list `Tables.goodSphericalOrbifolds` (compared as orbifolds:
                cone multiset, boundary components modulo rotation/reversal, handles,
                cross-caps — `SpecC08.sameOrbifold`; the generator's own strings `""`, `"*"`,
                `"x"` are the sphere, the disc and the projective plane)
    all         the union of the three (disjoint by the sign of K);
  `boxPremise` is the decidable hypothesis under which `Props/C07.lean : box_suffices` proves
  that the box contains every euclidean and every minimally hyperbolic assignment whatsoever;
  the box is not materialised: `candidates` walks it orbit by orbit and stops below a prefix
  whose curvature with all later orbits at their minimum is already negative (K is antitone in
  every v, so below such a prefix only that one vector can be minimally hyperbolic and nothing
  can have K ≥ 0) — `Props/C07.lean : candidates_complete` proves that every member of the box
  with K ≥ 0 or minimally hyperbolic is a candidate, and `premise_of_candidates` that the
  premise evaluated on the candidates is the premise on the whole box;
* automorphisms of the D-set: every map obtained by sending chamber 1 to a chamber e and
  extending along the operations, kept if it is a bijection commuting with all operations;
  two assignments are the same modulo automorphisms if one is the other composed with an
  automorphism.
-/
import DSymVerif.Model.Delaney2d
import DSymVerif.Spec.C03
import DSymVerif.Spec.C08
import DSymVerif.Generated.Tables

namespace DSymVerif.SpecC07
open DSymVerif.SpecC08 (Fr Orb)

abbrev Sym := SpecC03.Sym

/-- upper end of the oracle's box -/
def boxTop : Nat := 8
/-- "branching at most 7" of the spherical clause -/
def sphericalMaxV : Nat := 7

/-! ### the input -/

/-- a connected complete two-dimensional D-set: total involutions, s0 s2 = s2 s0 -/
def inDomain (g : Sym) : Bool :=
  g.dim == 2 && g.wellFormed && g.connected &&
  g.chambers.all fun d => g.opAt 2 (g.opAt 0 d) == g.opAt 0 (g.opAt 2 d)

/-! ### orbits, periods, least admissible branching -/

structure Orbit where
  idx : Nat              -- the orbit is one of the index pair (idx, idx + 1)
  members : List Nat     -- ascending
  r : Nat
  deriving Repr, DecidableEq, Inhabited

def closeStep (g : Sym) (i : Nat) (cur : List Nat) : List Nat :=
  g.chambers.filter fun x => cur.contains x || cur.any fun e => g.opAt i e == x || g.opAt (i + 1) e == x

def closeN (g : Sym) (i : Nat) : Nat → List Nat → List Nat
  | 0, cur => cur
  | n + 1, cur => closeN g i n (closeStep g i cur)

/-- the orbit of `d` under ⟨s_i, s_{i+1}⟩, ascending -/
def orbitOf (g : Sym) (i d : Nat) : List Nat := closeN g i g.size [d]

def periodAux (g : Sym) (i d : Nat) : Nat → Nat → Nat → Nat
  | 0, _, _ => 0
  | fuel + 1, e, k =>
    let e' := g.opAt (i + 1) (g.opAt i e)
    if e' == d then k + 1 else periodAux g i d fuel e' (k + 1)

/-- least k ≥ 1 with (s_{i+1} s_i)^k d = d (0 if there is none ≤ size: impossible for involutions) -/
def period (g : Sym) (i d : Nat) : Nat := periodAux g i d g.size d 0

/-- the (0,1)-orbits, then the (1,2)-orbits, each by its least chamber -/
def orbits (g : Sym) : List Orbit :=
  [0, 1].flatMap fun i => g.chambers.filterMap fun d =>
    let o := orbitOf g i d
    if o.head? == some d then some { idx := i, members := o, r := period g i d } else none

/-- least v ≥ 1 with r·v ≥ 3 -/
def vminOf (r : Nat) : Nat := if r * 1 ≥ 3 then 1 else if r * 2 ≥ 3 then 2 else 3

def orbitsOk (orbs : List Orbit) : Bool := orbs.all fun o => o.r ≥ 1 && !o.members.isEmpty

/-! ### curvature of an assignment (one value per orbit, in the order of `orbits`) -/

/-- Σ_{d ∈ o} 1/m(d) with m = r·v -/
def term (o : Orbit) (v : Nat) : Fr := ⟨(o.members.length : Int), o.r * v⟩

/-- K = Σ_orbits |o|/(r·v) − size/2 -/
def curvature (n : Nat) (orbs : List Orbit) (a : List Nat) : Fr :=
  Fr.sub (Fr.sum (List.zipWith term orbs a)) ⟨(n : Int), 2⟩

/-- lower the k-th branching number by one -/
def lowered (a : List Nat) (k : Nat) : List Nat := a.set k (a.getD k 0 - 1)

/-- K < 0, and K ≥ 0 after lowering any single branching number that stays admissible -/
def minimallyHyperbolic (n : Nat) (orbs : List Orbit) (vmins a : List Nat) : Bool :=
  (curvature n orbs a).isNeg &&
  (List.range a.length).all fun k =>
    !(a.getD k 0 > vmins.getD k 0) || !(curvature n orbs (lowered a k)).isNeg

/-! ### the box -/

/-- all lists with lo_k ≤ a_k ≤ hi_k -/
def box : List (Nat × Nat) → List (List Nat)
  | [] => [[]]
  | (lo, hi) :: rest =>
    let tail := box rest
    (List.range' lo (hi + 1 - lo)).flatMap fun v => tail.map (v :: ·)

def boxOf (vmins : List Nat) (top : Nat) : List (List Nat) := box (vmins.map fun lo => (lo, top))

/-- the part of K contributed by the orbits whose value is `top` -/
def topTerms (orbs : List Orbit) (a : List Nat) (top : Nat) : List Fr :=
  List.zipWith (fun o v => if v == top then term o v else ⟨0, 1⟩) orbs a

/-- hypothesis of `box_suffices`: wherever a member of the box has K ≥ 0, K stays ≥ 0 when the
    contributions of all orbits sitting at the top value are removed (the limit v → ∞) -/
def boxPremise (n : Nat) (orbs : List Orbit) (vmins : List Nat) (top : Nat) : Bool :=
  (boxOf vmins top).all fun a =>
    let k := curvature n orbs a
    k.isNeg || !(Fr.sub k (Fr.sum (topTerms orbs a top))).isNeg

/-- orbit-by-orbit walk through the box: `a` carries the values chosen for the orbits before `k`
    and the minima from `k` on; `fuel` = number of orbits still to choose.  A prefix whose vector
    already has K < 0 is not extended (it is itself the only candidate below it). -/
def candidates (n : Nat) (orbs : List Orbit) (vmins : List Nat) (top : Nat) :
    Nat → Nat → List Nat → List (List Nat)
  | 0, _, a => [a]
  | fuel + 1, k, a =>
    (List.range' (vmins.getD k 0) (top + 1 - vmins.getD k 0)).flatMap fun v =>
      if (curvature n orbs (a.set k v)).isNeg then [a.set k v]
      else candidates n orbs vmins top fuel (k + 1) (a.set k v)

def candidatesOf (n : Nat) (orbs : List Orbit) (vmins : List Nat) (top : Nat) : List (List Nat) :=
  candidates n orbs vmins top vmins.length 0 vmins

/-- `boxPremise` evaluated on the candidates only (members of the box with K < 0 satisfy it
    trivially, all others are candidates) -/
def candPremise (n : Nat) (orbs : List Orbit) (vmins : List Nat) (top : Nat) : Bool :=
  (candidatesOf n orbs vmins top).all fun a =>
    let k := curvature n orbs a
    k.isNeg || !(Fr.sub k (Fr.sum (topTerms orbs a top))).isNeg

/-! ### branching tables, orbifold symbols -/

/-- the table v(i, d), index `i * size + (d - 1)`, of an assignment -/
def vTab (g : Sym) (orbs : List Orbit) (a : List Nat) : Array Nat :=
  (orbs.zip a).foldl (fun (t : Array Nat) (p : Orbit × Nat) =>
    p.1.members.foldl (fun (t : Array Nat) d => t.setIfInBounds (p.1.idx * g.size + (d - 1)) p.2) t)
    (Array.replicate (2 * g.size) 0)

/-- the assignment read off a symbol on `g` -/
def assignmentOf (orbs : List Orbit) (s : Sym) : List Nat :=
  orbs.map fun o => s.vAt o.idx (o.members.headD 0)

/-- the orbifold named by the crate's `orbifold_symbol` (C08 model) for the symbol (g, v) -/
def orbOf (g : Sym) (v : Array Nat) : Option Orb :=
  match DS.ofTables g.size 2 g.opAt (fun i d => v.getD (i * g.size + (d - 1)) 0) with
  | .ok data =>
    (match D2.orbifoldSymbol ⟨data, .partialSym⟩ with
     | .ok o =>
       some { cones := o.cones, bnds := o.bnds,
              handles := if o.orientable then o.count else 0,
              caps := if o.orientable then 0 else o.count }
     | _ => none)
  | _ => none

/-- the decidable monitors under which `Props/C07.lean : private_orbifold_symbol_agrees` shows
    that the generator's private key is on the list iff this orbifold is: the symbol is defined
    (C08's parity monitor, kept here although it is a theorem by now) and "a
    symbol that is not weakly oriented has at least one cross-cap" — facts of surface topology
    about the handle / cross-cap count of `delaney2d::orbifold_symbol`, not about the generator -/
def monitorsOf (g : Sym) (v : Array Nat) : Bool :=
  match DS.ofTables g.size 2 g.opAt (fun i d => v.getD (i * g.size + (d - 1)) 0) with
  | .ok data =>
    D2.parityMonitor ⟨data, .partialSym⟩ &&
    (match D2.orbifoldSymbol ⟨data, .partialSym⟩ with
     | .ok o => o.orientable || decide (o.count ≥ 1)
     | _ => false)
  | _ => false

/-- the orbifolds named by the generator's fixed list -/
def goodOrbs : List Orb := Tables.goodSphericalOrbifolds.filterMap SpecC08.parseSymbol

def goodListParses : Bool := goodOrbs.length == Tables.goodSphericalOrbifolds.length

def onGoodList (o : Orb) : Bool := goodOrbs.any (SpecC08.sameOrbifold o)

/-! ### automorphisms of the D-set -/

/-- one round of extending a partial map along the operations (0 = unassigned) -/
def extendRound (g : Sym) (f : Array Nat) : Array Nat :=
  g.chambers.foldl (fun (f : Array Nat) d =>
    let fd := f.getD d 0
    if fd == 0 then f else
      g.indices.foldl (fun (f : Array Nat) i =>
        let e := g.opAt i d
        if f.getD e 0 == 0 then f.setIfInBounds e (g.opAt i fd) else f) f) f

def extendN (g : Sym) : Nat → Array Nat → Array Nat
  | 0, f => f
  | n + 1, f => extendN g n (extendRound g f)

/-- the definition: a bijection of the chambers commuting with every operation -/
def isAutomorphism (g : Sym) (f : Array Nat) : Bool :=
  SpecC03.isBijection g.size f &&
  g.indices.all fun i => g.chambers.all fun d => f.getD (g.opAt i d) 0 == g.opAt i (f.getD d 0)

/-- all automorphisms of a connected D-set (each is determined by the image of chamber 1) -/
def automorphisms (g : Sym) : List (Array Nat) :=
  g.chambers.filterMap fun e =>
    let f := extendN g g.size ((Array.replicate (g.size + 1) 0).setIfInBounds 1 e)
    if isAutomorphism g f then some f else none

/-- `vb = va ∘ γ` for some automorphism γ (tables as built by `vTab`) -/
def equivalent (g : Sym) (auts : List (Array Nat)) (va vb : Array Nat) : Bool :=
  auts.any fun f =>
    [0, 1].all fun i => g.chambers.all fun d =>
      vb.getD (i * g.size + (d - 1)) 0 == va.getD (i * g.size + (f.getD d 0 - 1)) 0

/-- lexicographic `<` on vectors of equal length -/
def lexLt : List Nat → List Nat → Bool
  | [], [] => false
  | [], _ :: _ => true
  | _ :: _, [] => false
  | a :: as, b :: bs => a < b || (a == b && lexLt as bs)

/-- `va ∘ γ` as a vector (both index pairs, chambers in order) -/
def composed (g : Sym) (va : Array Nat) (f : Array Nat) : List Nat :=
  [0, 1].flatMap fun i => g.chambers.map fun d => va.getD (i * g.size + (f.getD d 0 - 1)) 0

/-- class invariant: the lexicographically largest `va ∘ γ`, γ running through all automorphisms
    (a group: every bijection commuting with the operations is in `automorphisms g`, and
    composites of such are such).  `equivalent g auts va vb` iff the invariants agree. -/
def classKey (g : Sym) (auts : List (Array Nat)) (va : Array Nat) : List Nat :=
  auts.foldl (fun best f => let w := composed g va f; if lexLt best w then w else best) []

/-! ### the expected sets -/

/-- 0 spherical, 1 euclidean, 2 hyperbolic, 3 all -/
abbrev GeomIdx := Nat

structure Oracle where
  g : Sym
  orbs : List Orbit
  vmins : List Nat
  auts : List (Array Nat)
  /-- box members (all found among the candidates) with K = 0 -/
  euclidean : List (List Nat)
  /-- box members that are minimally hyperbolic -/
  hyperbolic : List (List Nat)
  /-- box members with K > 0 and all v ≤ 7, with the orbifold the C08 model names (none = undefined) -/
  positive : List (List Nat × Option Orb)
  /-- the monitors hold on every member of `positive` -/
  monitors : Bool

def mkOracle (g : Sym) : Oracle :=
  let orbs := orbits g
  let vmins := orbs.map fun o => vminOf o.r
  let n := g.size
  let bx := (candidatesOf n orbs vmins boxTop).map fun a => (a, curvature n orbs a)
  { g := g, orbs := orbs, vmins := vmins, auts := automorphisms g,
    euclidean := (bx.filter fun p => p.2.isZero).map (·.1),
    hyperbolic := (bx.filter fun p => p.2.isNeg && minimallyHyperbolic n orbs vmins p.1).map (·.1),
    positive := (bx.filter fun p => p.2.isPos && p.1.all (· ≤ sphericalMaxV)).map fun p =>
      (p.1, orbOf g (vTab g orbs p.1)),
    monitors := (bx.filter fun p => p.2.isPos && p.1.all (· ≤ sphericalMaxV)).all fun p =>
      monitorsOf g (vTab g orbs p.1) }

def Oracle.spherical (o : Oracle) : List (List Nat) :=
  (o.positive.filter fun p => match p.2 with | some b => onGoodList b | none => false).map (·.1)

def Oracle.expected (o : Oracle) (geom : GeomIdx) : List (List Nat) :=
  match geom with
  | 0 => o.spherical
  | 1 => o.euclidean
  | 2 => o.hyperbolic
  | _ => o.spherical ++ o.euclidean ++ o.hyperbolic

/-- the property's membership test for an arbitrary admissible assignment on `g`
    (used for the emitted symbols, whether or not they lie in the box) -/
def Oracle.admits (o : Oracle) (geom : GeomIdx) (a : List Nat) : Bool :=
  let n := o.g.size
  let k := curvature n o.orbs a
  let sph := k.isPos && a.all (· ≤ sphericalMaxV) &&
    (match orbOf o.g (vTab o.g o.orbs a) with | some b => onGoodList b | none => false)
  let euc := k.isZero
  let hyp := minimallyHyperbolic n o.orbs o.vmins a
  match geom with
  | 0 => sph
  | 1 => euc
  | 2 => hyp
  | _ => sph || euc || hyp

/-! ### clauses on the implementation's output -/

/-- one emitted symbol: `symbol_count`, the tables, and the crate's own `curvature` and
    `orbifold_symbol` for it -/
structure Emitted where
  counter : Nat
  sym : Sym
  k : Fr
  orb : String
  deriving Inhabited

def signOk (geom : GeomIdx) (k : Fr) : Bool :=
  match geom with
  | 0 => k.isPos
  | 1 => k.isZero
  | 2 => k.isNeg
  | _ => k.isPos || k.isZero || k.isNeg

def specG (s : Sym) : SpecC08.G := { size := s.size, op := s.opAt, v := s.vAt }

/-- ascending insertion sort -/
def insertAsc (x : Nat) : List Nat → List Nat
  | [] => [x]
  | y :: ys => if x ≤ y then x :: y :: ys else y :: insertAsc x ys

def sortAsc (xs : List Nat) : List Nat := xs.foldr insertAsc []

def pairwise {α} (p : α → α → Bool) : List α → Bool
  | [] => true
  | x :: xs => xs.all (p x) && pairwise p xs

def clauses (g : Sym) (geom : GeomIdx) (out : List Emitted) : List (String × Bool) :=
  if !inDomain g then [("input-is-a-connected-complete-2d-dset", false)] else
  let o := mkOracle g
  let n := g.size
  let syms := out.map (·.sym)
  let asg := syms.map (assignmentOf o.orbs)
  let tabs := asg.map (vTab g o.orbs)
  [ ("oracle-orbits-are-well-defined", orbitsOk o.orbs),
    ("good-list-entries-are-orbifold-symbols", goodListParses),
    ("oracle-box-premise-holds", candPremise n o.orbs o.vmins boxTop),
    ("oracle-orbifold-symbols-are-defined", o.positive.all fun p => p.2.isSome),
    ("oracle-genus-monitors-hold", o.monitors),
    ("emitted-symbol-is-on-exactly-the-input-dset",
      syms.all fun s => s.size == g.size && s.dim == g.dim && s.op == g.op),
    ("emitted-symbol-is-complete",
      syms.all fun s => s.v.size == s.dim * s.size && s.v.all (· ≥ 1) && s.vOnOrbits),
    ("every-degree-at-least-3",
      syms.all fun s => s.chambers.all fun d => [0, 1].all fun i => period g i d * s.vAt i d ≥ 3),
    ("curvature-has-the-requested-sign",
      out.all fun e => signOk geom (curvature n o.orbs (assignmentOf o.orbs e.sym))),
    ("curvature-is-the-chamber-sum-and-the-crates-curvature",
      out.all fun e =>
        let k := curvature n o.orbs (assignmentOf o.orbs e.sym)
        Fr.eqv k (specG e.sym).curvature && Fr.eqv k e.k),
    ("crates-orbifold-symbol-is-on-the-good-list-when-curvature-positive",
      out.all fun e => !e.k.isPos ||
        (match SpecC08.parseSymbol e.orb with | some b => onGoodList b | none => false)),
    ("no-two-emitted-symbols-isomorphic",
      -- isomorphic symbols have the same multiset of branching numbers: only such pairs are searched
      pairwise (fun (a b : List Nat × Sym) => a.1 != b.1 || !SpecC03.isomorphic a.2 b.2)
        (syms.map fun s => (sortAsc s.v.toList, s))),
    ("numbered-consecutively-from-1",
      out.map (·.counter) == (List.range out.length).map (· + 1)),
    ("every-emitted-symbol-is-in-the-expected-set", asg.all fun a => o.admits geom a),
    ("every-expected-class-is-emitted-exactly-once",
      let emittedKeys := tabs.map (classKey g o.auts)
      (o.expected geom).all fun a =>
        let key := classKey g o.auts (vTab g o.orbs a)
        SpecC08.countBy (fun k => k == key) emittedKeys == 1) ]

end DSymVerif.SpecC07
