/-
Spec of property C12 — written from the mathematics, not from the code (import-free).

Conjugacy classes of subgroups of index `j` of `G = ⟨1..n | rels⟩` correspond to
isomorphism classes of transitive `G`-sets with `j` points.  A complete coset table with
`j` rows *is* such a `G`-set with a base point (row 0); changing the base point to `s`
and renaming the rows in breadth-first order gives `renumberFrom t n s`.  The set of these
re-based tables depends only on the isomorphism class of the action, so its
lexicographic minimum `canonicalForm` is a complete invariant.

Oracle (independent of the code under test): enumerate *all* tuples of permutations of
`j` points by brute force, keep those that satisfy the relators and are transitive, and
keep of each isomorphism class the one tuple whose table is its own canonical form.
The implementation's tables with `j` rows must have exactly these canonical forms,
each once.  The number of *subgroups* (not classes) of index `j` is `t_j/(j−1)!` with
`t_j` the number of transitive homomorphisms; it must equal the sum of the class sizes
(number of distinct re-basings) of the returned tables.
-/
import DSymVerif.Spec.C11

namespace DSymVerif.SpecC12
open DSymVerif.SpecC11

/-- a table as one list: number of rows, then the rows one after the other -/
def tabKey (t : Tab) : List Int := (t.size : Int) :: t.toList.flatMap Array.toList

def lexLt : List Int → List Int → Bool
  | [], [] => false
  | [], _ :: _ => true
  | _ :: _, [] => false
  | x :: xs, y :: ys => if x < y then true else if y < x then false else lexLt xs ys

/-- all re-based BFS renumberings of a table (one per base point that reaches every row) -/
def rebasings (t : Tab) (n : Nat) : List (List Int) :=
  (rowsOf t).filterMap (fun s => (renumberFrom t n s).map tabKey)

def lexMin : List (List Int) → Option (List Int)
  | [] => none
  | x :: xs =>
    match lexMin xs with
    | none => some x
    | some m => some (if lexLt m x then m else x)

/-- complete invariant of a transitive action given by a table -/
def canonicalForm (t : Tab) (n : Nat) : Option (List Int) := lexMin (rebasings t n)

/-- number of conjugates of the point stabiliser = number of distinct re-based tables -/
def classSize (t : Tab) (n : Nat) : Nat := (rebasings t n).eraseDups.length

/-! ### brute-force oracle -/

/-- all permutations of `0..j-1` as image vectors -/
def insertAll (x : Nat) : List Nat → List (List Nat)
  | [] => [[x]]
  | y :: ys => (x :: y :: ys) :: (insertAll x ys).map (y :: ·)

def permLists : Nat → List (List Nat)
  | 0 => [[]]
  | j + 1 => (permLists j).flatMap (insertAll j)

def allPerms (j : Nat) : List Perm := (permLists j).map List.toArray

/-- the relators that involve only the generator `i+1` -/
def ownRelators (rels : List (List Int)) (i : Nat) : List (List Int) :=
  rels.filter fun r => r.all fun g => g == ((i + 1 : Nat) : Int) || g == -((i + 1 : Nat) : Int)

/-- permutations `p` of `j` points such that every relator in the single generator `i+1`
    holds for `p` -/
def candidates (j : Nat) (rels : List (List Int)) (n i : Nat) : List Perm :=
  let own := ownRelators rels i
  let idp := permId j
  (allPerms j).filter fun p =>
    let imgs : Array Perm := (Array.replicate n idp).setIfInBounds i p
    own.all fun r => evalWord j imgs r == idp

/-- the table of a tuple of generator images: row `c` lists `c·g` for the letters in order -/
def tableOf (j n : Nat) (imgs : Array Perm) : Tab :=
  ((List.range j).map fun c =>
    ((letters n).map fun g => ((((letterPerm j imgs g).getD c 0 : Nat)) : Int)).toArray).toArray

structure Tally where
  transitive : Nat := 0
  classes : List (List Int) := []

/-- examine one complete tuple -/
def examine (j n : Nat) (rels : List (List Int)) (imgs : Array Perm) (acc : Tally) : Tally :=
  if rels.all (fun r => evalWord j imgs r == permId j) then
    let t := tableOf j n imgs
    match renumberFrom t n 0 with
    | none => acc
    | some t0 =>
      let acc := { acc with transitive := acc.transitive + 1 }
      if tabKey t0 == tabKey t && canonicalForm t n == some (tabKey t) then
        { acc with classes := tabKey t :: acc.classes }
      else acc
  else acc

/-- all tuples, generator by generator -/
def enumerate (j n : Nat) (rels : List (List Int)) : List (List Perm) → Array Perm → Tally → Tally
  | [], imgs, acc => examine j n rels imgs acc
  | cands :: rest, imgs, acc =>
    cands.foldl (fun a p => enumerate j n rels rest (imgs.push p) a) acc

def tupleLimit : Nat := 4000000

/-- `8! = 40320` permutations per generator are listed before pruning -/
def maxPoints : Nat := 8

/-- brute-force census of the transitive actions of `⟨1..n | rels⟩` on `j` points:
    (number of transitive homomorphisms, canonical forms of the isomorphism classes);
    `none` if there are more than `maxPoints` points or more than `tupleLimit` candidate tuples -/
def census (j n : Nat) (rels : List (List Int)) : Option Tally :=
  if j > maxPoints then none else
  let cands := (List.range n).map (candidates j rels n)
  let size := cands.foldl (fun a c => a * c.length) 1
  if size > tupleLimit then none else some (enumerate j n rels cands #[] {})

def factorial : Nat → Nat
  | 0 => 1
  | k + 1 => (k + 1) * factorial k

def sameSet (xs ys : List (List Int)) : Bool :=
  xs.all (ys.contains ·) && ys.all (xs.contains ·)

/-! ### literature counts (used only beyond the brute-force limit) -/

def isCommutator (r : List Int) (i j : Nat) : Bool :=
  r == [((i : Nat) : Int), ((j : Nat) : Int), -((i : Nat) : Int), -((j : Nat) : Int)]

/-- the presentation is literally `⟨1..n | [i,j], i<j⟩` -/
def isFreeAbelianPresentation (n : Nat) (rels : List (List Int)) : Bool :=
  let pairs := (List.range n).flatMap fun i => (List.range n).filterMap fun j =>
    if i < j then some (i + 1, j + 1) else none
  rels.length == pairs.length && pairs.all fun (i, j) => rels.any fun r => isCommutator r i j

def sigma (k : Nat) : Nat := ((List.range (k + 1)).filter fun d => d > 0 && k % d == 0).foldl (· + ·) 0

/-- conjugacy classes of subgroups of index `j`: free group of rank 2 (OEIS A057005),
    rank 3 (A057006), rank 1; `ℤ²` (σ(j)), `ℤ³` (A001001) -/
def literatureCount (n : Nat) (rels : List (List Int)) (j : Nat) : Option Nat :=
  if rels.isEmpty then
    match n with
    | 0 => some (if j == 1 then 1 else 0)
    | 1 => some 1
    | 2 => [1, 3, 7, 26, 97, 624, 4163, 34470][j - 1]?
    | 3 => [1, 7, 41, 604, 13753][j - 1]?
    | _ => none
  else if isFreeAbelianPresentation n rels then
    match n with
    | 2 => some (sigma j)
    | 3 => [1, 7, 13, 35, 31, 91, 57, 155][j - 1]?
    | _ => none
  else none

/-! ### the property -/

/-- clauses about the tables with exactly `j` rows -/
def indexClauses (n : Nat) (rels : List (List Int)) (tables : List Tab) (j : Nat) : List (String × Bool) :=
  let mine := tables.filter (·.size == j)
  let forms := mine.filterMap (canonicalForm · n)
  match census j n rels with
  | some tally =>
    [(s!"index-{j}-classes-equal-brute-force-classes", forms.length == mine.length && sameSet forms tally.classes
        && forms.length == tally.classes.length),
     (s!"index-{j}-subgroup-count-identity",
        (mine.foldl (fun a t => a + classSize t n) 0) * factorial (j - 1) == tally.transitive)]
  | none =>
    match literatureCount n rels j with
    | some c => [(s!"index-{j}-count-equals-literature", mine.length == c)]
    | none => []

/-- the oracle-free clauses: every table complete, inverse-consistent, transitive, every
    relator closing at every row (`validTable`), at most `k` rows, pairwise inequivalent -/
def basicClauses (n : Nat) (rels : List (List Int)) (k : Nat) (tables : List Tab) : List (String × Bool) :=
  let forms := tables.filterMap (canonicalForm · n)
  [("each-table-valid-transitive-relators-close", tables.all fun t => validTable t n rels []),
   ("at-most-k-rows", tables.all fun t => decide (t.size ≤ k)),
   ("pairwise-inequivalent", forms.length == tables.length && forms.eraseDups.length == forms.length)]

def clauses (n : Nat) (rels : List (List Int)) (k : Nat) (tables : List Tab) : List (String × Bool) :=
  basicClauses n rels k tables ++ ((List.range k).flatMap fun i => indexClauses n rels tables (i + 1))

end DSymVerif.SpecC12
