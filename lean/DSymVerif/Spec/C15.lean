/-
Spec of property C15 — toroidal and pseudo-toroidal covers are branch-free tori.
Written from the definitions; no model code.  Reused specs: plain tables `SpecC02.G`,
covering clauses `SpecC05`, textbook presentation / curvature / bad-orbifold census `SpecC09`,
determinantal-divisor invariant factors `SpecC14`, brute-force isomorphism `SpecC03`.

Contents
* input domains: euclidean 2D symbol; 3D symbol obeying the crystallographic restriction whose
  tiles ({0,1,2}-subsymbols) and vertex figures ({1,2,3}-subsymbols) are spherical 2D symbols
  (positive curvature and not one of the bad orbifolds) — the same filters the harness applies,
  re-evaluated here;
* `abelianisation`: invariants of H₁ of the orbifold fundamental group computed from the
  TEXTBOOK presentation of a symbol (one generator per chamber facet, pairing relations,
  spanning tree, one relation per 2-orbit — `SpecC09.textbook`): the exponent-sum matrix is
  reduced by unit pivots (each such step splits off a trivial summand Z/1 and is a Tietze
  move), the small residual matrix goes through integer diagonalisation and, when at most
  6 × 6, is cross-checked against the determinantal-divisor definition of `SpecC14`;
* `index2Count`: number of subgroups of index 2 = 2^dim H¹(G; Z/2) − 1, by Gaussian elimination
  over GF(2) on the same relation matrix (bit masks); `index2Homs` lists the surjections to Z/2
  and `twoCover` builds the 2-sheeted covering symbol of each (C17 uses them);
* the clause lists for the two cover functions.
-/
import DSymVerif.Spec.C02
import DSymVerif.Spec.C03
import DSymVerif.Spec.C05
import DSymVerif.Spec.C09
import DSymVerif.Spec.C10
import DSymVerif.Spec.C14

namespace DSymVerif.SpecC15
open DSymVerif.SpecC02

/-! ## input domains -/

/-- the property's crystallographic restriction: every branching number is 1, 2, 3, 4 or 6 -/
def crystallographic (g : G) : Bool :=
  (List.range g.dim).all fun i => g.chambers.all fun d =>
    let v := g.v i d
    v == 1 || v == 2 || v == 3 || v == 4 || v == 6

/-- the `idcs`-subsymbol through `d`: the chambers reachable from `d` by the operations in
    `idcs`, renumbered in ascending order; operation `a` is `s_{idcs[a]}`; branching numbers of
    consecutive index pairs from the definition (table for adjacent indices, `2 / r` otherwise) -/
def subSymbol (g : G) (idcs : List Nat) (d : Nat) : G :=
  let comp := g.component idcs d
  let src := fun k => comp.getD (k - 1) 0
  { size := comp.length
    dim := idcs.length - 1
    op := fun a k => comp.idxOf (g.op (idcs.getD a 0) (src k)) + 1
    v := fun a k => SpecC09.vOf g (idcs.getD a 0) (idcs.getD (a + 1) 0) (src k) }

/-- least chambers of the `idcs`-components -/
def componentReps (g : G) (idcs : List Nat) : List Nat :=
  g.chambers.filter fun d => (g.component idcs d).all (d ≤ ·)

/-- a connected complete 2D symbol is spherical: positive curvature, not a bad orbifold -/
def spherical2d (g : G) : Bool :=
  g.dim == 2 && (SpecC09.curvature2d g).1 > 0 && !SpecC09.badOrbifold g

def euclidean2d (g : G) : Bool := g.dim == 2 && (SpecC09.curvature2d g).1 == 0

/-- tiles and vertex figures are spheres -/
def locallySpherical (g : G) : Bool :=
  (componentReps g [0, 1, 2]).all (fun d => spherical2d (subSymbol g [0, 1, 2] d)) &&
  (componentReps g [1, 2, 3]).all (fun d => spherical2d (subSymbol g [1, 2, 3] d))

/-- domain of the 2D clause -/
def inDomain2d (g : G) : Bool := SpecC09.validSymbol g && euclidean2d g

/-- domain of the 3D clauses -/
def inDomain3d (g : G) : Bool :=
  SpecC09.validSymbol g && g.dim == 3 && crystallographic g && locallySpherical g

/-! ## sparse integer rows -/

/-- strictly ascending columns, non-zero coefficients -/
abbrev Row := List (Nat × Int)

/-- `a + k · b` -/
def addMulAux (k : Int) : Nat → Row → Row → Row
  | 0, a, _ => a
  | _ + 1, [], b => b.filterMap fun (c, x) => let y := k * x; if y == 0 then none else some (c, y)
  | _ + 1, a, [] => a
  | f + 1, (ca, xa) :: ra, (cb, xb) :: rb =>
    if ca < cb then (ca, xa) :: addMulAux k f ra ((cb, xb) :: rb)
    else if cb < ca then
      let y := k * xb
      if y == 0 then addMulAux k f ((ca, xa) :: ra) rb else (cb, y) :: addMulAux k f ((ca, xa) :: ra) rb
    else
      let y := xa + k * xb
      if y == 0 then addMulAux k f ra rb else (ca, y) :: addMulAux k f ra rb

def addMul (a : Row) (k : Int) (b : Row) : Row := addMulAux k (a.length + b.length + 1) a b

/-- exponent-sum row of a word (letter ±(c+1) is column c) -/
def rowOfWord (w : List Int) : Row :=
  w.foldl (fun r x => if x == 0 then r else addMul r 1 [(x.natAbs - 1, if x > 0 then 1 else -1)]) []

def coeffAt (r : Row) (c : Nat) : Int :=
  match r.find? (fun e => e.1 == c) with
  | some e => e.2
  | none => 0

/-- a column of `r` with coefficient ±1 -/
def unitEntry (r : Row) : Option (Nat × Int) := r.find? fun e => e.2 == 1 || e.2 == -1

/-- the shortest row that has a unit entry: (position, column, coefficient) -/
def findUnitRow (rows : List Row) : Option (Nat × Nat × Int) :=
  (rows.zipIdx.foldl (fun (best : Option (Nat × Nat × Nat × Int)) (r, k) =>
    match unitEntry r with
    | none => best
    | some (c, e) =>
      match best with
      | some (len, _, _, _) => if r.length < len then some (r.length, k, c, e) else best
      | none => some (r.length, k, c, e)) none).map fun b => b.2

/-- eliminate unit pivots until none is left; returns the residual rows and the number of
    pivots (= trivial invariant factors) split off -/
def unitLoop : Nat → List Row → Nat → List Row × Nat
  | 0, rows, units => (rows, units)
  | fuel + 1, rows, units =>
    match findUnitRow rows with
    | none => (rows, units)
    | some (k, c, e) =>
      let p := rows.getD k []
      let rest := (rows.zipIdx.filter (fun x => x.2 != k)).map (·.1)
      let rest := rest.filterMap fun r =>
        let a := coeffAt r c
        let r' := if a == 0 then r else addMul r (-(a * e)) p
        if r'.isEmpty then none else some r'
      unitLoop fuel rest (units + 1)

def insertNat (x : Nat) : List Nat → List Nat
  | [] => [x]
  | y :: ys => if x < y then x :: y :: ys else if x == y then y :: ys else y :: insertNat x ys

def usedColumns (rows : List Row) : List Nat :=
  rows.foldl (fun acc r => r.foldl (fun acc e => insertNat e.1 acc) acc) []

def denseOf (rows : List Row) (cols : List Nat) : List (List Int) :=
  rows.map fun r => cols.map fun c => coeffAt r c

/-- abelian invariants of `Z^ngens / ⟨rows⟩` in the format of the property C14: one `0` per free
    generator, then the invariant factors ≠ 1 in divisibility order.  `none`: an oracle gave up
    (fuel) or the two oracles for the residual matrix disagree. -/
def invariantsOfRows (ngens : Nat) (rows : List Row) : Option (List Nat) :=
  let rows := rows.filter (!·.isEmpty)
  let (res, units) := unitLoop (rows.length + 1) rows 0
  let cols := usedColumns res
  let dense := denseOf res cols
  match SpecC09.diagLoop (64 * (res.length + cols.length + 4) * (res.length + cols.length + 4)) dense [] with
  | none => none
  | some diag =>
    let ch := (SpecC09.chain diag.length diag).filter (· != 1)
    let free := ngens - units - diag.length
    let answer := List.replicate free 0 ++ ch
    -- cross-check of the residual against the determinantal-divisor definition
    if res.length ≤ 6 && cols.length ≤ 6 then
      let viaMinors := SpecC14.expectedOfMatrix dense cols.length
      let mine := List.replicate (cols.length - diag.length) 0 ++ ch
      if viaMinors == mine then some answer else none
    else some answer

/-- the relation rows of the textbook presentation of a symbol -/
def textbookRows (g : G) : Nat × List Row :=
  let p := SpecC09.textbook g
  (p.ngens, p.rels.map rowOfWord)

/-- H₁ of the orbifold fundamental group of a connected complete symbol -/
def abelianisation (g : G) : Option (List Nat) :=
  let (n, rows) := textbookRows g
  invariantsOfRows n rows

/-! ## linear algebra over GF(2) on bit masks -/

def maskOfWord (w : List Int) : Nat :=
  w.foldl (fun (m : Nat) (x : Int) => if x == 0 then m else m ^^^ (1 <<< (x.natAbs - 1))) 0

/-- reduced row echelon form: (pivot column, row) with every pivot column in one row only -/
def gf2Insert (piv : List (Nat × Nat)) (r : Nat) : List (Nat × Nat) :=
  let r := piv.foldl (fun r (p, m) => if r.testBit p then r ^^^ m else r) r
  if r == 0 then piv else
    let p := r.log2
    (p, r) :: piv.map fun (q, m) => (q, if m.testBit p then m ^^^ r else m)

def gf2Echelon (rows : List Nat) : List (Nat × Nat) := rows.foldl gf2Insert []

/-- a basis of the null space `{x | ∀ row, ⟨row, x⟩ = 0}` of the row space in `(Z/2)^n` -/
def gf2NullBasis (n : Nat) (piv : List (Nat × Nat)) : List Nat :=
  let free := (List.range n).filter fun c => !piv.any (fun p => p.1 == c)
  free.map fun f =>
    piv.foldl (fun x (p, m) => if m.testBit f then x ||| (1 <<< p) else x) (1 <<< f)

/-- all non-empty sums of basis vectors -/
def gf2Span : List Nat → List Nat
  | [] => []
  | b :: bs => let s := gf2Span bs; b :: s ++ s.map (· ^^^ b)

def textbookMasks (g : G) : Nat × List Nat :=
  let p := SpecC09.textbook g
  (p.ngens, p.rels.map maskOfWord)

/-- dim H¹(G; Z/2) -/
def mod2Corank (g : G) : Nat :=
  let (n, rows) := textbookMasks g
  n - (gf2Echelon rows).length

/-- number of subgroups of index 2 (kernels of the non-zero homomorphisms to Z/2) -/
def index2Count (g : G) : Nat := 2 ^ mod2Corank g - 1

/-- the non-zero homomorphisms G → Z/2 as bit masks over the facet generators
    (`none` if there are more than 2^6 of them) -/
def index2Homs (g : G) : Option (List Nat) :=
  let (n, rows) := textbookMasks g
  let basis := gf2NullBasis n (gf2Echelon rows)
  if basis.length ≤ 6 then some (gf2Span basis) else none

/-- tables of a symbol given by functions, stored in arrays -/
def materialize (g : G) : G :=
  let opA : Array Nat := ((List.range g.size).flatMap fun d0 => (List.range (g.dim + 1)).map fun i => g.op i (d0 + 1)).toArray
  let vA : Array Nat := ((List.range g.dim).flatMap fun i => (List.range g.size).map fun d0 => g.v i (d0 + 1)).toArray
  { size := g.size, dim := g.dim
    op := fun i d => opA.getD ((d - 1) * (g.dim + 1) + i) 0
    v := fun i d => vA.getD (i * g.size + (d - 1)) 0 }

/-- the 2-sheeted covering symbol belonging to a homomorphism φ : G → Z/2 given on the facet
    generators: chamber (d, s) is `d + s·n`; crossing facet i of d changes the sheet iff
    φ(g(d,i)) = 1; degrees are those of the base -/
def twoCover (g : G) (phi : Nat) : G :=
  let n := g.size
  let bare : G :=
    { size := 2 * n, dim := g.dim, v := fun _ _ => 1
      op := fun i d' =>
        let d := SpecC05.proj n d'
        let s := (d' - 1) / n
        let flip := phi.testBit (SpecC09.genOf g d i - 1).toNat
        let s' := if flip then 1 - s else s
        g.op i d + s' * n }
  let bare := materialize bare
  materialize { bare with
    v := fun i d' =>
      match SpecC05.mDef g i (i + 1) (SpecC05.proj n d'), bare.orbitLen i (i + 1) d' with
      | some m, some r => if r == 0 then 0 else m / r
      | _, _ => 0 }

/-! ## clauses -/

/-- every 2-orbit of every index pair i < j has branching number 1 (no cone, no corner) -/
def branchFree (g : G) : Bool :=
  (SpecC05.pairsLt g.dim).all fun (i, j) => g.chambers.all fun d => SpecC09.vOf g i j d == 1

/-- orders of the eleven crystallographic rotation groups C1 C2 C3 C4 D2 D3 C6 D4 D6 T O -/
def pointGroupOrders : List (String × Nat) :=
  [("z1", 1), ("z2", 2), ("z3", 3), ("z4", 4), ("v4", 4), ("s3", 6), ("z6", 6), ("d4", 8),
   ("d6", 12), ("a4", 12), ("s4", 24)]

def admissibleOrders : List Nat := [1, 2, 3, 4, 6, 8, 12, 24]

/-- sheets of `cov` over the oriented cover of `g` (which is `g` itself when `g` is oriented) -/
def sheetsOverOriented (g cov : G) : Option Nat :=
  let base := if SpecC05.oriented g then g.size else 2 * g.size
  if base == 0 || cov.size % base != 0 then none else some (cov.size / base)

/-- `cov` is an oriented, branch-free covering of `g` (projection `d ↦ (d−1) mod |g| + 1`, which
    is also the composite projection through the oriented cover, whose size is a multiple of
    `|g|`) with H₁ = Z^dim -/
def torusCoverClauses (g cov : G) : List (String × Bool) :=
  (SpecC05.connectedCoveringClauses g cov).map (fun c => ("covering-" ++ c.1, c.2)) ++
  [ ("cover-is-oriented", SpecC05.oriented cov),
    ("cover-is-branch-free", branchFree cov),
    ("abelianisation-is-free-of-rank-dim", abelianisation cov == some (List.replicate g.dim 0)) ]

/-- 2D: the toroidal cover of a euclidean symbol -/
def clauses2d (g : G) (out : Option G) : List (String × Bool) :=
  [ ("harness-error-input-outside-domain", inDomain2d g),
    ("returns-without-panic", out.isSome) ] ++
  (match out with
   | some cov => torusCoverClauses g cov
   | none => [])

/-- 3D: `out = none` is a panic, `some none` is `None`, `some (some cov)` a returned cover -/
def clauses3d (g : G) (out : Option (Option G)) (corpus : Bool) : List (String × Bool) :=
  [ ("harness-error-input-outside-domain", inDomain3d g),
    ("returns-without-panic", out.isSome) ] ++
  (match out with
   | some (some cov) =>
     torusCoverClauses g cov ++
     [ ("sheets-over-oriented-cover-is-a-point-group-order",
         match sheetsOverOriented g cov with
         | some k => admissibleOrders.contains k
         | none => false) ]
   | some none => [("corpus-symbol-has-a-cover", !corpus)]
   | none => [])

/-! ### invariance under renumbering and dualisation -/

def toSym03 (size dim : Nat) (op v : Array Nat) : SpecC03.Sym := { size, dim, op, v }

/-- the dual symbol: indices reversed -/
def dualSym (s : SpecC03.Sym) : SpecC03.Sym :=
  { size := s.size, dim := s.dim
    op := ((List.range s.size).flatMap fun d0 => (List.range (s.dim + 1)).map fun i => s.opAt (s.dim - i) (d0 + 1)).toArray
    v := ((List.range s.dim).flatMap fun i => (List.range s.size).map fun d0 => s.vAt (s.dim - 1 - i) (d0 + 1)).toArray }

/-- `answers`: per variant −2 = panic, −1 = `None`, otherwise the size of the cover.
    variants = the symbol, its renumberings, and last its dual -/
def invarianceClauses (variants : List SpecC03.Sym) (answers : List Int) : List (String × Bool) :=
  match variants with
  | [] => [("harness-error-no-variants", false)]
  | base :: rest =>
    let rens := rest.dropLast
    [ ("harness-error-variant-is-not-a-renumbering", rens.all fun r => SpecC03.isomorphic base r),
      ("harness-error-last-variant-is-not-the-dual",
        match rest.getLast? with
        | some d => SpecC03.isomorphic (dualSym base) d
        | none => false),
      ("one-answer-per-variant", answers.length == variants.length),
      ("no-variant-panics", answers.all (· != -2)),
      ("found-or-not-independent-of-numbering-and-dual", answers.all fun a => (a == -1) == (answers.headD 0 == -1)),
      ("sheet-number-independent-of-numbering-and-dual", answers.all (· == answers.headD 0)) ]

end DSymVerif.SpecC15
