/-
Spec of property C17 — 3D euclidicity verdicts are total, invariant and never contradictory.
Written from the property text; no model code.  Reuses the domain filter, the covering
clauses, the abelianisation oracle on the TEXTBOOK presentation and the GF(2) index-2 machinery
of `Spec/C15.lean`.

* verdict classes yes / no / undecided (+ panic), and the documented reasons of the two
  non-yes classes;
* `certificateClauses`: the independent certificate behind a `yes` — the symbol returned by the
  public `pseudo_toroidal_cover` is an oriented branch-free connected covering of the input
  whose textbook fundamental group has H₁ = Z³ and exactly 7 subgroups of index 2
  (2^dim H¹(G;Z/2) − 1 by elimination over GF(2)); with `deep`, every one of the 7 subgroups
  (kernel of a surjection to Z/2, realised geometrically as the 2-sheeted covering symbol whose
  textbook presentation is the Reidemeister–Schreier presentation of the kernel) has H₁ = Z³;
* invariance under renumbering / dual, and consistency along finite covers.
-/
import DSymVerif.Spec.C15

namespace DSymVerif.SpecC17
open DSymVerif.SpecC02 DSymVerif.SpecC15

inductive Cls where
  | yes | no | maybe | panic
  deriving DecidableEq, Repr, Inhabited, BEq

def Cls.ofString : String → Option Cls
  | "yes" => some .yes
  | "no" => some .no
  | "maybe" => some .maybe
  | "panic" => some .panic
  | _ => none

/-- the reasons the code documents for a `No` (spaces transmitted as `_`) -/
def noReasons : List String :=
  [ "orbifold_invariants_do_not_match", "no_pseudo-toroidal_cover", "cover_is_a_lens_space",
    "cover_is_a_non-trivial_connected_sum", "cover_has_at_least_one_handle",
    "cover_has_free_fundamental_group", "bad_subgroup_count_for_cover", "bad_subgroups_for_cover" ]

/-- … and for a `Maybe` -/
def maybeReasons : List String :=
  [ "cover_is_a_(potentially_trivial)_connected_sum", "no_decision_found" ]

def reasonDocumented (c : Cls) (reason : String) : Bool :=
  match c with
  | .yes => reason == "-"
  | .no => noReasons.contains reason
  | .maybe => maybeReasons.contains reason
  | .panic => true

/-- the certificate behind a `yes`: `cov` is what the public `pseudo_toroidal_cover` returned -/
def certificateClauses (g cov : G) (deep : Bool) : List (String × Bool) :=
  (torusCoverClauses g cov).map (fun c => ("certificate-" ++ c.1, c.2)) ++
  [ ("certificate-exactly-7-subgroups-of-index-2", index2Count cov == 7) ] ++
  (if deep then
    match index2Homs cov with
    | some homs =>
      [ ("certificate-7-surjections-to-Z2", homs.length == 7 && homs.all (· != 0)),
        ("certificate-index-2-covers-are-connected-coverings",
          homs.all fun phi => SpecC05.isCovering cov (twoCover cov phi)),
        ("certificate-every-index-2-subgroup-abelianises-to-Z3",
          homs.all fun phi => abelianisation (twoCover cov phi) == some [0, 0, 0]) ]
    | none => [("certificate-7-surjections-to-Z2", false)]
  else [])

/-- one verdict: `cover` is the result of the public `pseudo_toroidal_cover` (sent on `yes`).
    The MESSAGE of a `no` / `maybe` is not part of the property (it speaks of the verdict class
    only) and is not looked at: a rewording of the diagnostics must not alarm. -/
def verdictClauses (g : G) (c : Cls) (cover : Option G) (corpus deep : Bool) :
    List (String × Bool) :=
  [ ("harness-error-input-outside-domain", inDomain3d g),
    ("returns-a-verdict-without-panic", c != .panic),
    ("corpus-symbol-receives-yes", !corpus || c == .yes) ] ++
  (if c == .yes then
    match cover with
    | some cov => certificateClauses g cov deep
    | none => [("certificate-pseudo-toroidal-cover-exists", false)]
  else [])

/-- variants = the symbol, its renumberings and last its dual; one class per variant -/
def invarianceClauses (variants : List SpecC03.Sym) (classes : List Cls) : List (String × Bool) :=
  match variants with
  | [] => [("harness-error-no-variants", false)]
  | base :: rest =>
    [ ("harness-error-variant-is-not-a-renumbering", rest.dropLast.all fun r => SpecC03.isomorphic base r),
      ("harness-error-last-variant-is-not-the-dual",
        match rest.getLast? with
        | some d => SpecC03.isomorphic (dualSym base) d
        | none => false),
      ("one-verdict-per-variant", classes.length == variants.length),
      ("no-variant-panics", classes.all (· != .panic)),
      ("verdict-class-independent-of-numbering-and-dual", classes.all (· == classes.headD .panic)) ]

/-- `classes` = class of the symbol followed by the classes of its covers -/
def coverConsistencyClauses (g : G) (covers : List G) (classes : List Cls) : List (String × Bool) :=
  [ ("harness-error-input-outside-domain", inDomain3d g),
    ("harness-error-not-a-covering", covers.all fun c => SpecC05.isCovering g c),
    ("one-verdict-per-symbol", classes.length == covers.length + 1),
    ("no-panic-on-symbol-or-cover", classes.all (· != .panic)),
    ("symbol-yes-then-no-cover-is-no", !(classes.headD .panic == .yes && (classes.drop 1).contains .no)),
    ("symbol-no-then-no-cover-is-yes", !(classes.headD .panic == .no && (classes.drop 1).contains .yes)) ]

/-! ### the helpers of the cascade (hooks), from their mathematical meaning -/

/-- the fields of an invariant string `n/label…/ori/edges/k/inv…/` -/
structure InvFields where
  labels : List String
  ori : Nat
  edges : Nat
  invars : List Nat

def parseInvariant (s : String) : Option InvFields :=
  match s.splitOn "/" with
  | [] => none
  | nTok :: rest =>
    match nTok.toNat? with
    | none => none
    | some n =>
      let labels := rest.take n
      match rest.drop n with
      | oriTok :: edgesTok :: kTok :: tail =>
        (match oriTok.toNat?, edgesTok.toNat?, kTok.toNat? with
         | some ori, some edges, some k =>
           if labels.length == n && tail.length == k + 1 && tail.getLast? == some "" then
             ((tail.take k).mapM String.toNat?).map fun invs => ⟨labels, ori, edges, invs⟩
           else none
         | _, _, _ => none)
      | _ => none

/-- orientation class by definition: 2 oriented (no loops, bipartite), 1 weakly oriented
    (bipartite when loops are ignored), 0 otherwise -/
def orientationClass (g : G) : Nat :=
  if g.bipartite then (if g.loopless then 2 else 1) else 0

def ascendingStrings : List String → Bool
  | a :: b :: rest => decide (a ≤ b) && ascendingStrings (b :: rest)
  | _ => true

/-- the full string of `orbifold_invariant` -/
def invariantStringClauses (g : G) (panic : Bool) (inv : String) (_contains : Bool) : List (String × Bool) :=
  [ ("returns-without-panic", !inDomain3d g || !panic) ] ++
  (if panic then [] else
    match parseInvariant inv with
    | none => [("invariant-string-has-the-shape-n/labels/ori/edges/k/invariants/", false)]
    | some f =>
      [ ("orientation-field-is-the-orientation-class", f.ori == orientationClass g),
        ("node-labels-ascending", ascendingStrings f.labels),
        ("invariant-fields-are-H1-of-the-textbook-group",
          !(SpecC09.validSymbol g) ||
            (match abelianisation g with
             | some h => f.invars == h
             | none => true)) ])

/-- number of subgroups of index ≤ 2 of `⟨1..n | rels⟩`: the homomorphisms to Z/2, i.e.
    2^(n − rank over GF(2) of the exponent matrix) (every subgroup of index 2 is normal, so
    classes = subgroups) -/
def classesIndexLE2 (n : Nat) (rels : List (List Int)) : Nat :=
  2 ^ (n - (gf2Echelon (rels.map maskOfWord)).length)

/-- `bad_subgroup_count`: bad iff the number of conjugacy classes of subgroups of index ≤ `idx`
    differs from `expected` (oracles for index 1 and 2) -/
def subgroupCountClauses (n : Nat) (rels : List (List Int)) (idx expected : Nat) (panic out : Bool) :
    List (String × Bool) :=
  let lettersOK := rels.all (SpecC14.wordInRange n)
  [ ("harness-error-letters-out-of-range", lettersOK),
    ("returns-without-panic", !panic) ] ++
  (if panic || !lettersOK then [] else
    [ ("index-1-one-class", idx != 1 || out == (1 != expected)),
      ("index-2-classes-are-the-homomorphisms-to-Z2", idx != 2 || out == (classesIndexLE2 n rels != expected)) ])

/-- `bad_subgroup_invariants`: bad iff SOME subgroup of index ≤ `idx` has abelian invariants other
    than `expected`; the whole group is one of them (H₁ by the Spec's own Smith form) -/
def subgroupInvariantsClauses (n : Nat) (rels : List (List Int)) (idx : Nat) (expected : List Nat)
    (panic out : Bool) : List (String × Bool) :=
  let lettersOK := rels.all (SpecC14.wordInRange n)
  [ ("harness-error-letters-out-of-range", lettersOK),
    ("returns-without-panic", !panic) ] ++
  (if panic || !lettersOK then [] else
    match invariantsOfRows n (rels.map rowOfWord) with
    | none => []
    | some h =>
      [ ("whole-group-with-other-homology-is-bad", idx == 0 || h == expected || out),
        ("index-1-bad-iff-homology-differs", idx != 1 || out == (h != expected)) ])

end DSymVerif.SpecC17
