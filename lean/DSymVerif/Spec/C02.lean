/-
Spec of property C02 — the graph-theoretic definitions the queries must agree with.
Import-free.  A D-set is given by plain tables: `op i d` (0 = undefined), chambers
1..size, indices 0..dim; a D-symbol adds `v i d` for the adjacent pair (i,i+1).
-/
namespace DSymVerif.SpecC02

structure G where
  size : Nat
  dim : Nat
  op : Nat → Nat → Nat        -- 0 = undefined
  v : Nat → Nat → Nat         -- adjacent branching numbers, 0 = undefined

namespace G

def chambers (g : G) : List Nat := (List.range g.size).map (· + 1)
def indices (g : G) : List Nat := List.range (g.dim + 1)

def inRange (g : G) (i d : Nat) : Bool := i ≤ g.dim && 1 ≤ d && d ≤ g.size

/-- every defined operation entry is in range and is undone by the same operation -/
def involutive (g : G) : Bool :=
  g.indices.all fun i => g.chambers.all fun d =>
    let e := g.op i d
    e == 0 || (1 ≤ e && e ≤ g.size && g.op i e == d)

def complete (g : G) : Bool :=
  g.indices.all fun i => g.chambers.all fun d => g.op i d != 0

/-- least k ≥ 1 with (s_j ∘ s_i)^k d = d; `none` if an undefined entry is met (or no
    period ≤ size exists, impossible for involutions) -/
def orbitLenAux (g : G) (i j d : Nat) : Nat → Nat → Nat → Option Nat
  | 0, _, _ => none
  | fuel + 1, e, k =>
    let ei := g.op i e
    if ei == 0 then none else
    let e' := g.op j ei
    if e' == 0 then none else
    if e' == d then some (k + 1) else orbitLenAux g i j d fuel e' (k + 1)

def orbitLen (g : G) (i j d : Nat) : Option Nat := orbitLenAux g i j d (g.size + 1) d 0

/-- reachable set from `seeds` using operations in `idx` (naive closure), ascending -/
def closeStep (g : G) (idx : List Nat) (s : List Nat) : List Nat :=
  g.chambers.filter fun d => s.contains d || idx.any fun i =>
    s.any fun e => g.op i e == d

def closure (g : G) (idx : List Nat) (s : List Nat) : Nat → List Nat
  | 0 => s
  | n + 1 =>
    let s' := closeStep g idx s
    if s'.length == s.length then s else closure g idx s' n

def reach (g : G) (idx : List Nat) (seeds : List Nat) : List Nat :=
  closure g idx (g.chambers.filter (seeds.contains ·)) g.size

def component (g : G) (idx : List Nat) (d : Nat) : List Nat := reach g idx [d]

def connected (g : G) : Bool := (g.component g.indices 1).length == g.size

def loopless (g : G) : Bool :=
  g.indices.all fun i => g.chambers.all fun d => g.op i d != d

/-- 2-colouring by BFS layers from the least chamber of each component; bipartite iff
    no non-loop edge joins equal colours -/
def colourFrom (g : G) (col : Array Nat) : Nat → Array Nat
  | 0 => col
  | n + 1 =>
    let col' := g.chambers.foldl (fun (c : Array Nat) d =>
      if c.getD d 0 != 0 then c else
        match g.indices.findSome? (fun i =>
          let e := g.op i d
          if e != 0 && e != d && c.getD e 0 != 0 then some (3 - c.getD e 0) else none) with
        | some x => c.setIfInBounds d x
        | none => c) col
    if col' == col then col else colourFrom g col' n

def colouring (g : G) : Array Nat :=
  g.chambers.foldl (fun (c : Array Nat) d =>
    if c.getD d 0 != 0 then c else colourFrom g (c.setIfInBounds d 1) g.size)
    (Array.replicate (g.size + 1) 0)

def properColouring (g : G) (c : Array Nat) : Bool :=
  g.indices.all fun i => g.chambers.all fun d =>
    let e := g.op i d
    e == 0 || e == d || c.getD e 0 != c.getD d 0

def bipartite (g : G) : Bool := g.properColouring g.colouring

/-- branching number of the (i,j)-orbit of d according to the definition:
    1 on the diagonal, the given table for adjacent indices, and 2 / r otherwise
    (m_ij = 2 for |i-j| > 1) -/
def vDef (g : G) (i j d : Nat) : Option Nat :=
  if !(g.inRange i d && j ≤ g.dim) then none
  else if i == j then some 1
  else if j == i + 1 then some (g.v i d)
  else if i == j + 1 then some (g.v j d)
  else match g.orbitLen i j d with
    | some r => if r == 0 then none else some (2 / r)
    | none => none

/-- far operations commute (the D-symbol axiom m_ij = 2) -/
def farCommute (g : G) : Bool :=
  g.indices.all fun i => g.indices.all fun j =>
    !(i + 1 < j) || g.chambers.all fun d => g.op j (g.op i d) == g.op i (g.op j d)

end G

/-- minimum of a non-empty list -/
def listMin (xs : List Nat) : Nat := xs.foldl min (xs.headD 0)

end DSymVerif.SpecC02
