/-
Spec of property C03 — "canonical form is a complete isomorphism invariant" — written
from the mathematical definitions, import-free.

A D-symbol is given by plain tables (the protocol layout):
  op[(d-1)*(dim+1)+i]  image of chamber d under operation i (0 = undefined)
  v [i*size+(d-1)]     branching number of the (i,i+1)-orbit of chamber d
chambers 1..size, indices 0..dim.

An isomorphism a → b is a bijection f of 1..size with  b.op i (f d) = f (a.op i d)  for
every index and  b.v i (f d) = a.v i d  for every adjacent pair.  Whether two connected
symbols are isomorphic is decided by brute force: an isomorphism of a connected symbol is
determined by the image of chamber 1, so each of the `size` candidate images is tried,
extended along the operations, and the resulting map verified against the definition.
-/
namespace DSymVerif.SpecC03

structure Sym where
  size : Nat
  dim : Nat
  op : Array Nat
  v : Array Nat
  deriving Repr, DecidableEq, Inhabited

namespace Sym

def opAt (s : Sym) (i d : Nat) : Nat := s.op.getD ((d - 1) * (s.dim + 1) + i) 0
def vAt (s : Sym) (i d : Nat) : Nat := s.v.getD (i * s.size + (d - 1)) 0

def chambers (s : Sym) : List Nat := (List.range s.size).map (· + 1)
def indices (s : Sym) : List Nat := List.range (s.dim + 1)

/-- tables of the right length, every operation a total involution of 1..size -/
def wellFormed (s : Sym) : Bool :=
  s.size ≥ 1 && s.op.size == s.size * (s.dim + 1) && s.v.size == s.dim * s.size &&
  s.indices.all fun i => s.chambers.all fun d =>
    let e := s.opAt i d
    1 ≤ e && e ≤ s.size && s.opAt i e == d

/-- branching numbers are attached to (i,i+1)-orbits: constant along both operations -/
def vOnOrbits (s : Sym) : Bool :=
  (List.range s.dim).all fun i => s.chambers.all fun d =>
    s.vAt i (s.opAt i d) == s.vAt i d && s.vAt i (s.opAt (i + 1) d) == s.vAt i d

/-- operations whose indices differ by more than one commute (the D-symbol axiom m_ij = 2) -/
def farCommute (s : Sym) : Bool :=
  s.indices.all fun i => s.indices.all fun j =>
    !(i + 1 < j) || s.chambers.all fun d => s.opAt j (s.opAt i d) == s.opAt i (s.opAt j d)

/-- chambers reachable from chamber 1, as a marking (naive closure, `size` rounds) -/
def reachRound (s : Sym) (mark : Array Bool) : Array Bool :=
  s.chambers.foldl (fun (m : Array Bool) d =>
    if m.getD d false then
      s.indices.foldl (fun (m : Array Bool) i => m.setIfInBounds (s.opAt i d) true) m
    else m) mark

def reachFrom1 (s : Sym) : Array Bool :=
  let rec go : Nat → Array Bool → Array Bool
    | 0, m => m
    | k + 1, m =>
      let m' := reachRound s m
      if m' == m then m else go k m'
  go s.size ((Array.replicate (s.size + 1) false).setIfInBounds 1 true)

def connected (s : Sym) : Bool :=
  let m := s.reachFrom1
  s.chambers.all fun d => m.getD d false

end Sym

/-- `f` (entries 1..n used) maps 1..n into 1..n and hits no chamber twice -/
def isBijection (n : Nat) (f : Array Nat) : Bool :=
  ((List.range n).foldl (fun (acc : Bool × Array Bool) d0 =>
    let e := f.getD (d0 + 1) 0
    (acc.1 && 1 ≤ e && e ≤ n && !acc.2.getD e true, acc.2.setIfInBounds e true))
    (true, Array.replicate (n + 1) false)).1

/-- the definition of "f is an isomorphism from a onto b" -/
def isIso (f : Array Nat) (a b : Sym) : Bool :=
  a.size == b.size && a.dim == b.dim && isBijection a.size f &&
  (a.indices.all fun i => a.chambers.all fun d =>
    b.opAt i (f.getD d 0) == f.getD (a.opAt i d) 0) &&
  ((List.range a.dim).all fun i => a.chambers.all fun d =>
    b.vAt i (f.getD d 0) == a.vAt i d)

/-- extend a partial map (0 = not yet assigned) along the operations: whenever `d` has an
    image, `a.op i d` must go to `b.op i (f d)`.  `none` on a contradiction. -/
def extendRound (a b : Sym) (f : Array Nat) : Option (Array Nat) :=
  a.chambers.foldl (fun (acc : Option (Array Nat)) d =>
    match acc with
    | none => none
    | some f =>
      let fd := f.getD d 0
      if fd == 0 then some f else
      a.indices.foldl (fun (acc : Option (Array Nat)) i =>
        match acc with
        | none => none
        | some f =>
          let e := a.opAt i d
          let fe := b.opAt i fd
          let cur := f.getD e 0
          if cur == 0 then some (f.setIfInBounds e fe)
          else if cur == fe then some f else none) (some f)) (some f)

def extendFrom (a b : Sym) (img1 : Nat) : Option (Array Nat) :=
  let rec go : Nat → Array Nat → Option (Array Nat)
    | 0, f => some f
    | k + 1, f =>
      match extendRound a b f with
      | none => none
      | some f' => if f' == f then some f else go k f'
  go a.size ((Array.replicate (a.size + 1) 0).setIfInBounds 1 img1)

/-- brute-force isomorphism search (complete for connected `a`) -/
def findIso (a b : Sym) : Option (Array Nat) :=
  if a.size != b.size || a.dim != b.dim then none else
  b.chambers.findSome? fun img1 =>
    match extendFrom a b img1 with
    | some f => if isIso f a b then some f else none
    | none => none

def isomorphic (a b : Sym) : Bool := (findIso a b).isSome

/-- the renumbering of `a` by `p` (chamber d becomes p[d]) -/
def renumber (a : Sym) (p : Array Nat) : Sym :=
  let op := a.chambers.foldl (fun (t : Array Nat) d =>
    a.indices.foldl (fun (t : Array Nat) i =>
      t.setIfInBounds ((p.getD d 0 - 1) * (a.dim + 1) + i) (p.getD (a.opAt i d) 0)) t)
    (Array.replicate (a.size * (a.dim + 1)) 0)
  let v := (List.range a.dim).foldl (fun (t : Array Nat) i =>
    a.chambers.foldl (fun (t : Array Nat) d =>
      t.setIfInBounds (i * a.size + (p.getD d 0 - 1)) (a.vAt i d)) t)
    (Array.replicate (a.dim * a.size) 0)
  { size := a.size, dim := a.dim, op := op, v := v }

/-! ### clauses -/

/-- the input is inside the property's domain: a connected, complete D-symbol -/
def inDomain (a : Sym) : Bool :=
  decide (a.dim ≥ 1) && a.wellFormed && a.farCommute && a.vOnOrbits && a.connected

/-- "the canonical form of a connected D-symbol is isomorphic to the input" -/
def canonIsoClause (a c : Sym) : Bool := c.wellFormed && isomorphic a c

/-- "two connected D-symbols have equal canonical forms iff they are isomorphic" -/
def separationClause (a b ca cb : Sym) : Bool := (ca == cb) == isomorphic a b

/-! ### the per-seed codes (conclusions of `seeds_good`, `code_determines_symbol`,
`minimalTraversalCode_least` of Props/C03.lean, evaluated on the implementation's outputs) -/

/-- lexicographic `≤` on integer lists -/
def lexLe : List Int → List Int → Bool
  | [], _ => true
  | _ :: _, [] => false
  | x :: xs, y :: ys => x < y || (x == y && lexLe xs ys)

/-- every seed's element map is a bijection of the chambers -/
def seedsNumberAll (n : Nat) (maps : List (Array Nat)) : Bool :=
  maps.all fun m => isBijection n m

/-- all codes have one length -/
def codesOneLength (codes : List (List Int)) : Bool :=
  match codes with
  | [] => true
  | c :: cs => cs.all fun c' => c'.length == c.length

/-- seeds with equal codes renumber the symbol to equal symbols -/
def equalCodesEqualSymbols (a : Sym) (cms : List (List Int × Array Nat)) : Bool :=
  let rec go : List (List Int × Array Nat) → List (List Int × Sym) → Bool
    | [], _ => true
    | (c, m) :: rest, seen =>
      let r := renumber a m
      match seen.find? (fun p => p.1 == c) with
      | some p => p.2 == r && go rest seen
      | none => go rest ((c, r) :: seen)
  go cms []

/-- `best` is one of the codes and no code is lexicographically smaller -/
def isLeastCode (best : List Int) (codes : List (List Int)) : Bool :=
  codes.contains best && codes.all fun c => lexLe best c

end DSymVerif.SpecC03
