/-
Spec of property C18 — written from the mathematics, not from the code (import-free).

Reference arithmetic: the rationals as reduced fractions `R` and the prime field Z/p as
integers in `[0,p)` with the inverse by Fermat's little theorem (`a^(p-2)`), packaged as
a `Fld`.  Reference algorithms: textbook Gaussian elimination on lists of rows (rank,
determinant) and the Laplace expansion along the first row over the integers as a second,
independent determinant oracle.  Every clause of the property is a Boolean predicate on
the *implementation's* output:

  determinant      the exact value
  rank             the rank over ℚ (over Z/p for the modular back-end)
  null space       `nc - rank A` columns, `A·N = 0`, `rank N = nc - rank A`
  solve            returned `X` ⇒ `A·X = B`;  over a field: `None` ⇒ `rank [A|B] > rank A`
  inverse          returned `X` ⇒ `A·X = I`;  over a field: `None` ⇒ `rank A < n`
  prime classes    the stored value `r` of `from(n)` has `0 ≤ r < p` and `p ∣ n - r`;
                   `+ - · neg /` agree with Z/p; the field laws hold on the outputs
  modular solver   `det A ≢ 0 mod p` ⇒ the result is `X` with `A·X = B`

For the machine-integer back-end `solve`/`inverse` may return `None` on systems that are
consistent over ℚ (the property only demands completeness "over a field").

Machine integers and overflow (evaluated in Driver/C18.lean with the overflow-checked
model `i64Backend PRC.chk`, which by `C18.i64_checked_refines_exact` differs from the exact
integer model only by panicking): when the overflow-checked model panics — an intermediate
of the `i64` computation leaves `[-2^63, 2^63)` — and the exact answer does not fit an `i64`
either, the case is outside the property (DESIGN §5.6); when the checked model panics
although the exact answer fits, and the implementation panics or answers anything but the
exact answer, the verdict is `machine-integer-overflow` (checked before all other clauses).
-/
namespace DSymVerif.SpecC18

/-! ### reference fields -/

/-- a rational number `n/d`, `d > 0`, in lowest terms -/
structure R where
  n : Int
  d : Int
  deriving DecidableEq, Repr, Inhabited

namespace R

/-- the fraction `n/d` (`d ≠ 0`) in lowest terms with positive denominator -/
def frac (n d : Int) : R :=
  let g : Int := (Int.gcd n d : Nat)
  if g == 0 then ⟨0, 1⟩
  else if d < 0 then ⟨-n / g, -d / g⟩ else ⟨n / g, d / g⟩

def ofInt (n : Int) : R := ⟨n, 1⟩
def add (a b : R) : R := frac (a.n * b.d + b.n * a.d) (a.d * b.d)
def sub (a b : R) : R := frac (a.n * b.d - b.n * a.d) (a.d * b.d)
def mul (a b : R) : R := frac (a.n * b.n) (a.d * b.d)
/-- reciprocal of a non-zero fraction -/
def inv (a : R) : R := frac a.d a.n
def isZero (a : R) : Bool := a.n == 0

end R

structure Fld (α : Type) where
  ofInt : Int → α
  add : α → α → α
  sub : α → α → α
  mul : α → α → α
  inv : α → α
  isZero : α → Bool
  eq : α → α → Bool

def ratF : Fld R where
  ofInt := R.ofInt
  add := R.add
  sub := R.sub
  mul := R.mul
  inv := R.inv
  isZero := R.isZero
  eq := fun a b => a.n * b.d == b.n * a.d

/-- `b^e mod p` by repeated squaring (fuel = number of binary digits of `e`) -/
def powMod (p : Int) : Nat → Int → Nat → Int
  | 0, _, _ => 1 % p
  | f + 1, b, e =>
    if e = 0 then 1 % p
    else
      let h := powMod p f (b * b % p) (e / 2)
      if e % 2 = 1 then h * b % p else h

def zpF (p : Int) : Fld Int where
  ofInt := fun n => n % p
  add := fun a b => (a + b) % p
  sub := fun a b => (a - b) % p
  mul := fun a b => a * b % p
  inv := fun a => powMod p 64 a (p - 2).toNat
  isZero := fun a => a % p == 0
  eq := fun a b => (a - b) % p == 0

/-! ### matrices as lists of rows -/

section linalg
variable {α : Type}

def ofIntMat (F : Fld α) (a : List (List Int)) : List (List α) := a.map (·.map F.ofInt)

def transposeL : Nat → List (List α) → List (List α)
  | 0, _ => []
  | nc + 1, rows => rows.filterMap List.head? :: transposeL nc (rows.map List.tail)

def dot (F : Fld α) (x y : List α) : α :=
  (List.zipWith F.mul x y).foldl F.add (F.ofInt 0)

/-- `a · b` where `b` has `k` columns -/
def mulMat (F : Fld α) (a b : List (List α)) (k : Nat) : List (List α) :=
  let bt := transposeL k b
  a.map fun row => bt.map fun col => dot F row col

def eqMat (F : Fld α) (a b : List (List α)) : Bool :=
  a.length == b.length &&
    (List.zipWith (fun r s => r.length == s.length && (List.zipWith F.eq r s).all id) a b).all id

def isZeroMat (F : Fld α) (a : List (List α)) : Bool := a.all (·.all F.isZero)

def identityL (F : Fld α) (n : Nat) : List (List α) :=
  (List.range n).map fun i => (List.range n).map fun j => F.ofInt (if i = j then 1 else 0)

/-- split off the first row whose head is non-zero: `(index, row, other rows)` -/
def findPivot (F : Fld α) : List (List α) → Option (Nat × List α × List (List α))
  | [] => none
  | r :: rs =>
    match r with
    | [] => none
    | h :: _ =>
      if !F.isZero h then some (0, r, rs)
      else match findPivot F rs with
        | some (i, p, others) => some (i + 1, p, r :: others)
        | none => none

/-- subtract the multiple of the pivot row that clears the head, then drop the head -/
def reduceRow (F : Fld α) (piv : List α) (r : List α) : List α :=
  match piv, r with
  | a :: ps, h :: ts =>
    let f := F.mul h (F.inv a)
    List.zipWith (fun t p => F.sub t (F.mul f p)) ts ps
  | _, _ => []

/-- rank by Gaussian elimination, column by column (`nc` columns) -/
def rankF (F : Fld α) : Nat → List (List α) → Nat
  | 0, _ => 0
  | nc + 1, rows =>
    match findPivot F rows with
    | none => rankF F nc (rows.map List.tail)
    | some (_, piv, others) => 1 + rankF F nc (others.map (reduceRow F piv))

/-- determinant of an `n × n` matrix by Gaussian elimination -/
def detF (F : Fld α) : Nat → List (List α) → α
  | 0, _ => F.ofInt 1
  | n + 1, rows =>
    match findPivot F rows with
    | none => F.ofInt 0
    | some (i, piv, others) =>
      let d := F.mul (piv.headD (F.ofInt 0)) (detF F n (others.map (reduceRow F piv)))
      if i % 2 = 0 then d else F.sub (F.ofInt 0) d

end linalg

/-- delete column `j` -/
def dropCol (j : Nat) (r : List Int) : List Int := r.take j ++ r.drop (j + 1)

/-- Laplace expansion along the first row, over the integers -/
def laplace : Nat → List (List Int) → Int
  | 0, _ => 1
  | n + 1, rows =>
    match rows with
    | [] => 1
    | r :: rs =>
      (List.range r.length).foldl
        (fun acc j =>
          let a := r.getD j 0
          if a == 0 then acc
          else
            let m := laplace n (rs.map (dropCol j))
            acc + (if j % 2 = 0 then a * m else -(a * m)))
        0

/-! ### clauses -/

section clauses
variable {α : Type}

def hstackL (a b : List (List α)) : List (List α) := List.zipWith (· ++ ·) a b

/-- the two determinant oracles agree (checked for every square input of size ≤ 5) -/
def oraclesAgree (F : Fld α) (n : Nat) (a : List (List Int)) : Bool :=
  n > 5 || F.eq (detF F n (ofIntMat F a)) (F.ofInt (laplace n a))

def rankOk (F : Fld α) (nc : Nat) (a : List (List Int)) (out : Nat) : Bool :=
  out == rankF F nc (ofIntMat F a)

def detOk (F : Fld α) (n : Nat) (a : List (List Int)) (out : α) : Bool :=
  F.eq out (detF F n (ofIntMat F a))

/-- the null-space matrix `N` (`nc` rows, `k` columns): exactly `nc - rank A` columns … -/
def nullCount (F : Fld α) (nc : Nat) (a : List (List Int)) (k : Nat) : Bool :=
  k + rankF F nc (ofIntMat F a) == nc

/-- … annihilated by `A` … -/
def nullAnnihilated (F : Fld α) (a : List (List Int)) (nmat : List (List α)) (k : Nat) : Bool :=
  isZeroMat F (mulMat F (ofIntMat F a) nmat k)

/-- … and linearly independent -/
def nullIndependent (F : Fld α) (nmat : List (List α)) (k : Nat) : Bool :=
  rankF F k nmat == k

def wellShaped (rows : List (List α)) (nr nc : Nat) : Bool :=
  rows.length == nr && rows.all (·.length == nc)

/-- a returned `X` is a true solution -/
def solutionOk (F : Fld α) (a b : List (List Int)) (x : List (List α)) (k : Nat) : Bool :=
  eqMat F (mulMat F (ofIntMat F a) x k) (ofIntMat F b)

/-- Rouché–Capelli: `A·X = B` is solvable over the field iff `rank [A|B] = rank A` -/
def consistent (F : Fld α) (nc k : Nat) (a b : List (List Int)) : Bool :=
  rankF F (nc + k) (ofIntMat F (hstackL a b)) == rankF F nc (ofIntMat F a)

def fullRankSquare (F : Fld α) (n : Nat) (a : List (List Int)) : Bool :=
  rankF F n (ofIntMat F a) == n

end clauses

/-- canonical representative: `0 ≤ r < p` and `p ∣ n - r` -/
def canonicalFor (p n r : Int) : Bool :=
  decide (0 ≤ r) && decide (r < p) && (n - r) % p == 0

/-! ### barycentric placement of a periodic graph

A periodic graph is a *set* of edges `h --(s)-> t`; `t --(-s)-> h` is the same edge.  Loops
contribute `s + (-s) = 0` to their vertex's equation and are left out.  The placement is
barycentric when, for every vertex `v` and coordinate `k`,
`Σ_{edges h=v} (pos t + s − pos v) + Σ_{edges t=v} (pos h − s − pos v) = 0`,
and it is normalised by `pos(first vertex) = 0`. -/

abbrev PEdge := Nat × Nat × List Int

/-- orient a non-loop edge towards the larger vertex -/
def orientEdge (e : PEdge) : PEdge :=
  if e.1 < e.2.1 then e else (e.2.1, e.1, e.2.2.map fun x => -x)

def edgeSet (es : List PEdge) : List PEdge :=
  ((es.filter fun e => e.1 != e.2.1).map orientEdge).eraseDups

def posOf (pos : List (Nat × List R)) (v : Nat) : Option (List R) :=
  (pos.find? fun pq => pq.1 == v).map (·.2)

def rsum (xs : List R) : R := xs.foldl R.add (R.ofInt 0)

/-- the `k`-th barycentric equation at `v` -/
def baryEq (es : List PEdge) (pos : List (Nat × List R)) (v k : Nat) : Bool :=
  match posOf pos v with
  | none => false
  | some pv =>
    let terms := es.filterMap fun e =>
      let (h, t, s) := e
      if h == v then
        (posOf pos t).map fun pt => R.sub (R.add (pt.getD k (R.ofInt 0)) (R.ofInt (s.getD k 0))) (pv.getD k (R.ofInt 0))
      else if t == v then
        (posOf pos h).map fun ph => R.sub (R.sub (ph.getD k (R.ofInt 0)) (R.ofInt (s.getD k 0))) (pv.getD k (R.ofInt 0))
      else none
    let expected := (es.filter fun e => e.1 == v || e.2.1 == v).length
    terms.length == expected && (rsum terms).isZero

def barycentricOk (raw : List PEdge) (d : Nat) (pos : List (Nat × List R)) : Bool :=
  let es := edgeSet raw
  let verts := (raw.flatMap fun e => [e.1, e.2.1]).eraseDups
  let first := verts.foldl Nat.min (verts.headD 0)
  pos.length == verts.length && verts.all (fun v => (posOf pos v).isSome) &&
  pos.all (fun pq => pq.2.length == d) &&
  (match posOf pos first with
    | some p0 => p0.all R.isZero
    | none => false) &&
  verts.all fun v => (List.range d).all fun k => baryEq es pos v k

end DSymVerif.SpecC18
