/-
Property C12 — low-index enumeration lists each conjugacy class of subgroups once.
Property theorems only.

What is proved, for the hand-written model of `coset_tables` and arbitrary relators over the
letters `±1..±n`: the whole property.  The model yields, in depth-first preorder, the
extracted tables of the search states reachable through `children` (traversal, termination by
an explicit height function); it never panics or exhausts internal fuel
(`search_never_panics`); every yielded table is valid (`extract_valid`); no two yielded
tables are isomorphic (`coset_tables_irredundant`: `compare_renumbered_from` is the
lexicographic comparison with a re-based renumbering, two canonical standard isomorphic
tables are equal); every valid table with at most `k` rows is isomorphic to a yielded one
(`coset_tables_complete`: the re-basing with the smallest key passes `is_canonical`, the
search follows it slot by slot, and no state inside it is pruned — `pruning_sound`).
`coset_tables_complete_irredundant` combines the three.  Relators that are not cyclically
reduced are handled through stand-in relators (`relator_cores`: cyclically reduced conjugates
all of whose rotations are among the freely reduced rotations in `expanded_relator_set`).
`coset_tables_subgroup_classes` restates it in group-theoretic terms: the stabilisers of row 0
of the yielded tables represent the conjugacy classes of subgroups of index ≤ `k` of Mathlib's
`PresentedGroup`, each exactly once (valid tables are isomorphic iff their stabilisers are
conjugate; every subgroup of finite index is the stabiliser of a valid table).
The tie model ↔ Rust code is the differential correspondence of the check (conf/C12.json).
-/
import DSymVerif.Proofs.Backtrack
import DSymVerif.Proofs.LowIndex
import DSymVerif.Proofs.LowIndexSound
import DSymVerif.Proofs.Rebase
import DSymVerif.Proofs.LowIndexValid
import DSymVerif.Proofs.LowIndexCanon6
import DSymVerif.Proofs.LowIndexMain
import DSymVerif.Proofs.LowIndexGeneral
import DSymVerif.Proofs.LowIndexClasses
import DSymVerif.Proofs.LowIndexFuel

namespace DSymVerif.C12
open DSymVerif DSymVerif.Cosets DSymVerif.LowIndexP DSymVerif.SpecC11 DSymVerif.SpecC12 DSymVerif.RebaseP DSymVerif.CosetInvP DSymVerif.CanonP

/-- ✔ `backtrack_preorder` (generic, shared with C06/C07): for a search tree of finite
    height the model of `BackTrackIterator`, run with at least as much fuel as the tree has
    nodes, yields `extract s` for the nodes `s` of the tree in depth-first preorder. -/
theorem backtrack_preorder {σ α : Type} (p : BT.Problem σ α) (h : σ → Nat) (hd : BT.Decreasing p h)
    (fuel : Nat) (hf : (BT.dfs p h p.root).length ≤ fuel) :
    BT.run p fuel = (BT.dfs p h p.root).filterMap p.extract ∧
      ∀ t, t ∈ BT.dfs p h p.root ↔ BT.Reach p p.root t :=
  ⟨BT.run_eq_dfs p h hd fuel hf, BT.mem_dfs_iff p h hd p.root⟩

/-- ✔ every child of a low-index search state is strictly lower: it keeps all entries of
    its parent and fills the parent's first free slot, which lies among the first
    `max_rows` rows (a state standing for a panic is a leaf). -/
theorem children_decrease (nrGens : Nat) (expandedRels : List (List Int)) (maxRows : Nat) :
    BT.Decreasing (btProblem nrGens expandedRels maxRows) (height maxRows) :=
  btProblem_decreasing nrGens expandedRels maxRows

/-- ✔ `backtrack_preorder` for `coset_tables`: for every presentation and every bound the
    modelled iterator yields, in depth-first preorder and each once, the extracted
    (compacted, complete) tables of exactly the search states reachable from the empty
    table through `CosetTableBacktracking::children`. -/
theorem coset_tables_preorder (nrGens : Nat) (rels : List (List Int)) (maxRows fuel : Nat)
    (hf : (BT.dfs (btProblem nrGens (expandedRelatorSet rels) maxRows) (height maxRows)
            (.ok (Table.new nrGens))).length ≤ fuel) :
    cosetTables nrGens rels maxRows fuel =
        (BT.dfs (btProblem nrGens (expandedRelatorSet rels) maxRows) (height maxRows)
          (.ok (Table.new nrGens))).filterMap btExtract ∧
      ∀ s, s ∈ BT.dfs (btProblem nrGens (expandedRelatorSet rels) maxRows) (height maxRows)
            (.ok (Table.new nrGens)) ↔
          BT.Reach (btProblem nrGens (expandedRelatorSet rels) maxRows) (.ok (Table.new nrGens)) s :=
  backtrack_preorder (btProblem nrGens (expandedRelatorSet rels) maxRows) (height maxRows)
    (children_decrease nrGens _ maxRows) fuel hf

/-- ✔ the result does not depend on the fuel once the tree is exhausted (the fuel is a
    model artefact: the Rust iterator has none) -/
theorem coset_tables_fuel_irrelevant (nrGens : Nat) (rels : List (List Int)) (maxRows f₁ f₂ : Nat)
    (h₁ : (BT.dfs (btProblem nrGens (expandedRelatorSet rels) maxRows) (height maxRows)
            (.ok (Table.new nrGens))).length ≤ f₁)
    (h₂ : (BT.dfs (btProblem nrGens (expandedRelatorSet rels) maxRows) (height maxRows)
            (.ok (Table.new nrGens))).length ≤ f₂) :
    cosetTables nrGens rels maxRows f₁ = cosetTables nrGens rels maxRows f₂ :=
  BT.run_fuel_irrelevant _ (height maxRows) (children_decrease nrGens _ maxRows) f₁ f₂ h₁ h₂

/-- ✔ `derived_table` only adds entries and fills the requested slot -/
theorem derived_table_extends (t t' : Table) (rels : List (List Int)) (frm dst : Nat) (g : Int)
    (h : derivedTable t rels frm dst g = .ok (some t')) :
    t'.nrGens = t.nrGens ∧ t'.part = t.part ∧
      (∀ c x, (∃ d, t.get c x = .ok (some d)) → ∃ d, t'.get c x = .ok (some d)) ∧
      t.get frm g = .ok none ∧ ∃ d, t'.get frm g = .ok (some d) := by
  obtain ⟨e, _, h2⟩ := derivedTable_ext h
  refine ⟨e.1, e.2.1, ?_, ?_, (get_some_iff _ _ _).mpr h2⟩
  · intro c x hx
    exact (get_some_iff _ _ _).mpr (e.2.2 c x ((get_some_iff _ _ _).mp hx))
  · unfold derivedTable at h
    cases h1 : t.get frm g with
    | ok o => cases o with
      | none => rfl
      | some _ => simp [h1] at h
    | err => simp [h1] at h
    | panic => simp [h1] at h

/-- ○ `derived_table_sound` (success branch).  `Good t` = no pending coincidences and
    `t[t[c][g]][−g] = c` wherever defined; `Ext2 t t'` = same generators, same partition and
    every defined entry of `t` is an entry of `t'` with the same value (nothing is
    overwritten).  The derived table extends its input, stays `Good`, and joins `frm` and
    `dst` under `g`. -/
theorem derived_table_sound (t t' : Table) (rels : List (List Int)) (frm dst : Nat) (g : Int)
    (hg : Good t) (hgen : g ∈ t.allGens) (h : derivedTable t rels frm dst g = .ok (some t')) :
    Ext2 t t' ∧ Good t' ∧ t.get frm g = .ok none ∧ t.get dst (-g) = .ok none ∧
      t'.get frm g = .ok (some dst) ∧ t'.get dst (-g) = .ok (some frm) :=
  derivedTable_some hg hgen h

/-- ○ `derived_table_sound` (rejection branch): `None` only if a slot is already taken or,
    in some value-preserving inverse-consistent extension of the table with the new entry,
    a relator that is completely defined from some row closes on two different rows
    (`Conflict`). -/
theorem derived_table_rejects_only_on_conflict (t : Table) (rels : List (List Int)) (frm dst : Nat)
    (g : Int) (hg : Good t) (h : derivedTable t rels frm dst g = .ok none) :
    (∃ d, t.get frm g = .ok (some d)) ∨ (∃ d, t.get dst (-g) = .ok (some d)) ∨
      ∃ t0, t.join frm dst g = .ok t0 ∧ Ext2 t t0 ∧ Conflict t0 rels :=
  derivedTable_none hg h

/-- ○ part of `extract_valid`: every table the search ever holds (every state reachable from
    the empty table) has no pending coincidences and is inverse-consistent. -/
theorem search_states_inverse_consistent (nrGens : Nat) (rels : List (List Int)) (maxRows : Nat)
    (t : Table)
    (hr : BT.Reach (btProblem nrGens rels maxRows) (.ok (Table.new nrGens)) (.ok t)) : Good t :=
  reachable_good hr

/-- ○ part of `extract_valid`: a table is yielded only from a search state in which every
    slot of every row is defined (no free entry), and it is the `compact()` of that state. -/
theorem extract_complete (t t' : Table) (h : btExtract (.ok t) = some (.ok t')) :
    t.compact = .ok t' ∧ ∀ k, k < t.len → ∀ g ∈ t.allGens, ∃ d, t.get k g = .ok (some d) :=
  btExtract_complete h

/-- ✔ **`extract_valid`**: for arbitrary relators over the letters `±1..±n`, every table yielded by the model of `coset_tables`, run with enough
    fuel to exhaust the search tree, passes the Boolean Spec `validTable rels []` — every
    entry defined and in range, inverse letters inverse, every relator closing at every row,
    every row reached from row 0 (transitive) — and has at most `max k 1` rows.
    (`viewTab` is the driver's `tabOfLists`; the search-state invariant behind it is
    `CosetInvP.SInv`, the deduction-queue invariant `CosetInvP.derivedLoop_qinv`.) -/
theorem extract_valid (n : Nat) (rels : List (List Int)) (k fuel : Nat)
    (hlet : ∀ w ∈ rels, ∀ x ∈ w, x ∈ allGensOf n)
    (hf : (BT.dfs (btProblem n (expandedRelatorSet rels) k) (height k) (.ok (Table.new n))).length ≤ fuel) :
    ∀ x ∈ cosetTables n rels k fuel, ∀ t', x = .ok t' →
      ∃ v, t'.view = .ok v ∧ validTable (viewTab v) n rels [] = true ∧ (viewTab v).size ≤ max k 1 :=
  cosetTables_valid_all n rels k fuel hlet hf

/-- ✔ the deduction queue of `derived_table`: if every completely defined relator path closes
    in the parent (`QInv t [] rels`), the same holds in every derived table, because a
    two-sided scan from a row `h` of the rotation `a ++ b` detects every non-closing path
    `r —b→ h —a→ r' ≠ r` through `h`. -/
theorem derived_table_relators_close (maxRows n : Nat) (rels R : List (List Int))
    (hrot : RotClosed rels R) (hwr : ∀ w ∈ rels, ∀ x ∈ w, x ∈ allGensOf n)
    (hwR : ∀ u ∈ R, ∀ x ∈ u, x ∈ allGensOf n) (t t' : Table) (s : SInv maxRows n rels t)
    (frm dst : Nat) (g : Int) (hg : g ∈ t.allGens) (hf : frm < t.len)
    (hd : dst < t.len ∨ (dst = t.len ∧ frm < dst)) (hdm : dst < maxRows)
    (h : derivedTable t R frm dst g = .ok (some t')) : SInv maxRows n rels t' :=
  (derivedTable_sinv hrot hwr hwR s hg hf hd hdm h).1

/-- ✔ `renumbered_compare_spec`: for a standard table `T1` (every row has a creation slot before
    which, in row-major order, everything is defined and smaller: `CS`) and an isomorphism
    `σ : T1 → T2` of complete tables, `compare_renumbered_from(T2, σ 0)` returns the first
    non-zero difference `T1[slot] − T2[slot]` in row-major order — the on-the-fly renumbering
    of `T2` from the base point `σ 0` reproduces `T1`, and the result is the lexicographic
    comparison of the renumbered table with the table itself. -/
theorem renumbered_compare_spec (T1 T2 : Table) (σ : Nat → Nat) (N : Nat) (h : IsoStd T1 T2 σ N)
    (hN : 0 < N) :
    compareRenumberedFrom T2 (σ 0) = .ok (fdRows T1 T2 T1.allGens (List.range N)) :=
  compareRenumberedFrom_iso h hN

/-- ✔ **soundness of the pruning** (the D15 repair, proved): a table `P` all of whose defined
    entries are entries of a table `T` that passes `is_canonical` passes `is_canonical` itself
    — a negative comparison on `P` would be reproduced with the same value on `T`, because an
    undefined entry never yields a negative value.  Hence no search state that has a canonical
    completion is pruned. -/
theorem pruning_sound (P T : Table) (hsub : Sub P T)
    (hrange : ∀ c g d, g ∈ P.allGens → P.get c g = .ok (some d) → d < P.len)
    (htot : ∀ c g, g ∈ P.allGens → P.get c g = .ok none ∨ ∃ d, P.get c g = .ok (some d))
    (h : isCanonical T = .ok true) : isCanonical P = .ok true :=
  isCanonical_sub hsub hrange htot h

/-- ✔ every search state is standard (`CS`), and every state but the empty table has passed
    `is_canonical` -/
theorem search_states_standard (n : Nat) (rels : List (List Int)) (k : Nat)
    (hcr : ∀ ρ ∈ rels, ρ = [] ∨ FWP.CR ρ) (hlet : ∀ w ∈ rels, ∀ x ∈ w, x ∈ allGensOf n) (t : Table)
    (hr : BT.Reach (btProblem n (expandedRelatorSet rels) k) (.ok (Table.new n)) (.ok t)) :
    SInv2 k n rels t :=
  reach_sinv2 (rotClosed_expanded hcr) hlet
    (expandedRelatorSet_letters (S := fun y => y ∈ allGensOf n) (fun y hy => neg_mem_allGensOf hy) hlet)
    hr (fun t0 h0 => by injection h0 with h0; exact h0 ▸ ⟨sinv_new k n rels, cs_new n⟩) t rfl

/-- ✔ **irredundancy**: no two tables at
    different positions of the sequence yielded by the model of `coset_tables` are isomorphic
    (`TIso`: a bijection of the rows commuting with every generator) — each conjugacy class
    of subgroups is listed at most once.  Core: two complete standard tables that both pass
    `is_canonical` and are isomorphic have identical entries (`CanonP.iso_canonical_eq`), and
    the children of a state differ in the value of its first free slot. -/
theorem coset_tables_irredundant (n : Nat) (rels : List (List Int)) (k fuel : Nat)
    (hlet : ∀ w ∈ rels, ∀ x ∈ w, x ∈ allGensOf n)
    (hf : (BT.dfs (btProblem n (expandedRelatorSet rels) k) (height k) (.ok (Table.new n))).length ≤ fuel) :
    (cosetTables n rels k fuel).Pairwise
      (fun x y => ∀ t1 t2, x = .ok t1 → y = .ok t2 → ¬ TIso n t1 t2) :=
  cosetTables_irredundant_all n rels k fuel hlet hf

/-- ✔ stand-in relators: for arbitrary relators over the letters `±1..±n` there are words over
    the same letters (cyclically reduced cores, conjugates of the relators) such that every
    rotation of each of them is in `expanded_relator_set(rels)` — so the deduction queue of
    `derived_table` closes them — and a table that closes them closes the relators -/
theorem relator_cores (n : Nat) (rels : List (List Int)) (hlet : ∀ w ∈ rels, ∀ x ∈ w, x ∈ allGensOf n) :
    ∃ rels', (∀ w ∈ rels', ∀ x ∈ w, x ∈ allGensOf n) ∧ RotClosed rels' (expandedRelatorSet rels) ∧
      ∀ u : Tab, CosetP.Valid u n rels' [] → CosetP.Valid u n rels [] :=
  cores_exist n rels hlet

/-- ✔ the model of `coset_tables` never panics and never exhausts the internal fuel of
    `derived_table`/`merge`/`find`: every yielded item is a table; it is complete and its
    `view` is the Spec table of its entries -/
theorem search_never_panics (n : Nat) (rels : List (List Int)) (k fuel : Nat)
    (hlet : ∀ w ∈ rels, ∀ x ∈ w, x ∈ allGensOf n)
    (hf : (BT.dfs (btProblem n (expandedRelatorSet rels) k) (height k) (.ok (Table.new n))).length ≤ fuel) :
    ∀ x ∈ cosetTables n rels k fuel, ∃ t' v, x = .ok t' ∧ t'.view = .ok v ∧
      (viewTab v).size = t'.len ∧
      ∀ j, j < t'.len → ∀ g ∈ allGensOf n, ∃ d, t'.get j g = .ok (some d) ∧ entry (viewTab v) n j g = some d :=
  cosetTables_ok_all n rels k fuel hlet hf

/-- ✔ re-basing (Spec side): from every base point `b` of a valid table the BFS renumbering
    succeeds, is isomorphic to the table with new row 0 = `b`, and is in standard form
    (`StdTab`: every row `j ≥ 1` has a creation slot in an earlier row before which, in row-major
    order, every slot leads to a row `< j`) -/
theorem rebase_standard (t : Tab) (n : Nat) (rels : List (List Int))
    (h : validTable t n rels [] = true) (b : Nat) (hb : b < t.size) :
    ∃ u ord o2n, renumberFrom t n b = some u ∧ Renum t n b u ord o2n ∧ ord.getD 0 0 = b ∧ StdTab u n :=
  renumberFrom_std (CosetP.valid_of_validTable h) b hb

/-- ✔ the re-basing with the smallest key passes `is_canonical`: if `u` is a re-basing of a
    valid table and no re-basing of `u` has a lexicographically smaller key, the model table
    of `u` is accepted — every `compare_renumbered_from(u, s)` is the first difference of the
    re-basing from `s` against `u` (`renumbered_compare_spec`), which is not negative -/
theorem min_rebasing_canonical (n : Nat) (rels : List (List Int)) (t u : Tab) (b : Nat)
    (ord o2n : Array Nat) (ht : validTable t n rels [] = true) (r : Renum t n b u ord o2n)
    (hstd : StdTab u n) (hmin : ∀ x ∈ rebasings u n, lexLt x (tabKey u) = false) :
    isCanonical (Table.ofView n u) = .ok true :=
  ofView_canonical (valid_iso_std r.iso_fwd (CosetP.valid_of_validTable ht) hstd) hstd
    (CosetP.valid_of_validTable ht) r hmin

/-- ✔ **the path**: a complete, standard table `T` that passes `is_canonical`, closes every
    expanded relator at every row and has at most `k` rows is reached by the search and
    yielded entry for entry: a state all of whose entries are entries of `T` has, unless it
    is complete, a child with the same property that survives the canonicity filter
    (deductions inside `T` agree with `T`, a relator cannot close on two rows) -/
theorem canonical_target_found (maxRows n : Nat) (rels R : List (List Int)) (hrot : RotClosed rels R)
    (hwr : ∀ w ∈ rels, ∀ x ∈ w, x ∈ allGensOf n) (hwR : ∀ u ∈ R, ∀ x ∈ u, x ∈ allGensOf n)
    (T : Table) (tg : Target maxRows n R T) :
    ∃ Q t', BT.Reach (btProblem n R maxRows) (.ok (Table.new n)) (.ok Q) ∧
      btExtract (.ok Q) = some (.ok t') ∧ t'.len = T.len ∧ t'.nrGens = n ∧
      ∀ k g d, k < T.len → g ∈ allGensOf n → T.get k g = .ok (some d) → t'.get k g = .ok (some d) :=
  target_found hrot hwr hwR tg

/-- ✔ **completeness**: every valid table
    (complete, inverse-consistent, closing every relator at every row, transitive — a
    transitive action of the presented group with a base point) with at most `k` rows is
    isomorphic to the view of one of the tables yielded by the model of `coset_tables`: no
    conjugacy class of subgroups of index ≤ `k` is missed -/
theorem coset_tables_complete (n : Nat) (rels : List (List Int)) (k fuel : Nat)
    (hlet : ∀ w ∈ rels, ∀ x ∈ w, x ∈ allGensOf n)
    (hf : (BT.dfs (btProblem n (expandedRelatorSet rels) k) (height k) (.ok (Table.new n))).length ≤ fuel)
    (A : Tab) (hA : validTable A n rels [] = true) (hk : A.size ≤ k) :
    ∃ t' v σ, (Outcome.ok t') ∈ cosetTables n rels k fuel ∧ t'.view = .ok v ∧ TabIso A (viewTab v) n σ :=
  cosetTables_complete_all n rels k fuel hlet hf A hA hk

/-- ✔ **C12 for the model** (`coset_tables_complete_irredundant`): the views of the tables
    yielded by the model of `coset_tables(n, rels, k)` are a system of representatives of the
    isomorphism classes of valid tables with at most `k` rows — every item is a valid table
    with at most `max k 1` rows, no two items at different positions are isomorphic, and every
    valid table with at most `k` rows is isomorphic to an item.  (Isomorphism classes of valid
    tables with `j` rows = conjugacy classes of subgroups of index `j`: C11 `validTable_action`
    gives the stabiliser of row 0, of index `j`.) -/
theorem coset_tables_complete_irredundant (n : Nat) (rels : List (List Int)) (k fuel : Nat)
    (hlet : ∀ w ∈ rels, ∀ x ∈ w, x ∈ allGensOf n)
    (hf : (BT.dfs (btProblem n (expandedRelatorSet rels) k) (height k) (.ok (Table.new n))).length ≤ fuel) :
    (∀ x ∈ cosetTables n rels k fuel, ∃ t' v, x = .ok t' ∧ t'.view = .ok v ∧
      validTable (viewTab v) n rels [] = true ∧ (viewTab v).size ≤ max k 1) ∧
    (cosetTables n rels k fuel).Pairwise (fun x y => ∀ t1 t2 v1 v2, x = .ok t1 → y = .ok t2 →
      t1.view = .ok v1 → t2.view = .ok v2 → ¬ ∃ σ, TabIso (viewTab v1) (viewTab v2) n σ) ∧
    (∀ A : Tab, validTable A n rels [] = true → A.size ≤ k →
      ∃ t' v σ, (Outcome.ok t') ∈ cosetTables n rels k fuel ∧ t'.view = .ok v ∧ TabIso A (viewTab v) n σ) :=
  cosetTables_complete_irredundant_all n rels k fuel hlet hf

/-- ✔ valid tables are isomorphic exactly when the stabilisers of row 0 in the presented group
    (`CosetP.stab0`, of index = number of rows: C11 `rows_dvd_index`) are conjugate subgroups -/
theorem iso_iff_conjugate_stabilisers (n : Nat) (rels : List (List Int)) (A B : Tab)
    (hvA : CosetP.Valid A n rels []) (hvB : CosetP.Valid B n rels []) :
    (∃ σ, TabIso A B n σ) ↔ SubConj (CosetP.stab0 hvA) (CosetP.stab0 hvB) :=
  ⟨fun ⟨_, iso⟩ => stab_conj_of_iso iso hvA hvB, iso_of_stab_conj hvA hvB⟩

/-- ✔ every subgroup of finite index of the presented group is the stabiliser of row 0 of a
    valid table with as many rows as its index (the action on its cosets) -/
theorem subgroup_has_table (n : Nat) (rels : List (List Int))
    (hlet : ∀ w ∈ rels, ∀ x ∈ w, x ∈ allGensOf n) (H : Subgroup (CosetSoundP.G n rels))
    (hj : H.index ≠ 0) :
    ∃ (A : Tab) (hv : CosetP.Valid A n rels []), A.size = H.index ∧ CosetP.stab0 hv = H :=
  table_of_subgroup hlet H hj

/-- ✔ **C12 for the model in group-theoretic terms**: the stabilisers of row 0 of the tables
    yielded by the model of `coset_tables(n, rels, k)` are a system of representatives of the
    conjugacy classes of subgroups of index at most `k` of `⟨1..n | rels⟩` (Mathlib's
    `PresentedGroup`) — every item is a valid table whose stabiliser has index = its number of
    rows `≤ max k 1`, the stabilisers of two items at different positions are not conjugate,
    and every subgroup of index `1..k` is conjugate to the stabiliser of an item: each
    conjugacy class of subgroups of index ≤ `k` is listed exactly once -/
theorem coset_tables_subgroup_classes (n : Nat) (rels : List (List Int)) (k fuel : Nat)
    (hlet : ∀ w ∈ rels, ∀ x ∈ w, x ∈ allGensOf n)
    (hf : (BT.dfs (btProblem n (expandedRelatorSet rels) k) (height k) (.ok (Table.new n))).length ≤ fuel) :
    (∀ x ∈ cosetTables n rels k fuel, ∃ (t' : Table) (v : List (List Int))
      (hv : CosetP.Valid (viewTab v) n rels []),
      x = .ok t' ∧ t'.view = .ok v ∧ (CosetP.stab0 hv).index = (viewTab v).size ∧
        (viewTab v).size ≤ max k 1) ∧
    (cosetTables n rels k fuel).Pairwise (fun x y => ∀ (t1 t2 : Table) (v1 v2 : List (List Int))
      (hv1 : CosetP.Valid (viewTab v1) n rels []) (hv2 : CosetP.Valid (viewTab v2) n rels []),
      x = .ok t1 → y = .ok t2 → t1.view = .ok v1 → t2.view = .ok v2 →
      ¬ SubConj (CosetP.stab0 hv1) (CosetP.stab0 hv2)) ∧
    (∀ H : Subgroup (CosetSoundP.G n rels), H.index ≠ 0 → H.index ≤ k →
      ∃ (t' : Table) (v : List (List Int)) (hv : CosetP.Valid (viewTab v) n rels []),
        (Outcome.ok t') ∈ cosetTables n rels k fuel ∧ t'.view = .ok v ∧
          SubConj H (CosetP.stab0 hv)) :=
  cosetTables_subgroup_classes n rels k fuel hlet hf

/-! ### the fuel is not a hypothesis: `searchFuel n k` exhausts the search tree -/

/-- ✔ **fuel adequacy**: the search tree of `coset_tables(n, rels, k)` has at most
    `searchFuel n k = (max k 1 + 1)^(k·2n + 1)` nodes — every node has at most `max k 1` children
    (one per candidate row for its first free slot) and every child fills one more of the
    `k·2n` slots of the first `k` rows (`children_decrease`).  Hence every fuel
    `≥ searchFuel n k` satisfies the fuel hypothesis of the theorems of this file. -/
theorem coset_tables_fuel_adequate (n : Nat) (rels : List (List Int)) (k fuel : Nat)
    (h : searchFuel n k ≤ fuel) :
    (BT.dfs (btProblem n (expandedRelatorSet rels) k) (height k) (.ok (Table.new n))).length ≤ fuel :=
  fuelOK_of_ge_searchFuel n rels k fuel h

/-- ✔ more fuel than `searchFuel n k` changes nothing (the iterator stops when its stack is
    empty; the Rust iterator has no fuel) -/
theorem coset_tables_more_fuel_same (n : Nat) (rels : List (List Int)) (k fuel : Nat)
    (h : searchFuel n k ≤ fuel) :
    cosetTables n rels k fuel = cosetTables n rels k (searchFuel n k) :=
  cosetTables_more_fuel_same n rels k fuel h

/-- ✔ `extract_valid` without a fuel hypothesis -/
theorem extract_valid_nofuel (n : Nat) (rels : List (List Int)) (k : Nat)
    (hlet : ∀ w ∈ rels, ∀ x ∈ w, x ∈ allGensOf n) :
    ∀ x ∈ cosetTables n rels k (searchFuel n k), ∀ t', x = .ok t' →
      ∃ v, t'.view = .ok v ∧ validTable (viewTab v) n rels [] = true ∧ (viewTab v).size ≤ max k 1 :=
  extract_valid n rels k _ hlet (cosetTables_fuel_adequate n rels k)

/-- ✔ `search_never_panics` without a fuel hypothesis -/
theorem search_never_panics_nofuel (n : Nat) (rels : List (List Int)) (k : Nat)
    (hlet : ∀ w ∈ rels, ∀ x ∈ w, x ∈ allGensOf n) :
    ∀ x ∈ cosetTables n rels k (searchFuel n k), ∃ t' v, x = .ok t' ∧ t'.view = .ok v ∧
      (viewTab v).size = t'.len ∧
      ∀ j, j < t'.len → ∀ g ∈ allGensOf n, ∃ d, t'.get j g = .ok (some d) ∧ entry (viewTab v) n j g = some d :=
  search_never_panics n rels k _ hlet (cosetTables_fuel_adequate n rels k)

/-- ✔ **C12 for the model, no hypothesis but the letters**: `coset_tables_complete_irredundant`
    for the fuel `searchFuel n k` (and, by `coset_tables_more_fuel_same`, for every larger one) -/
theorem coset_tables_complete_irredundant_nofuel (n : Nat) (rels : List (List Int)) (k : Nat)
    (hlet : ∀ w ∈ rels, ∀ x ∈ w, x ∈ allGensOf n) :
    (∀ x ∈ cosetTables n rels k (searchFuel n k), ∃ t' v, x = .ok t' ∧ t'.view = .ok v ∧
      validTable (viewTab v) n rels [] = true ∧ (viewTab v).size ≤ max k 1) ∧
    (cosetTables n rels k (searchFuel n k)).Pairwise (fun x y => ∀ t1 t2 v1 v2, x = .ok t1 → y = .ok t2 →
      t1.view = .ok v1 → t2.view = .ok v2 → ¬ ∃ σ, TabIso (viewTab v1) (viewTab v2) n σ) ∧
    (∀ A : Tab, validTable A n rels [] = true → A.size ≤ k →
      ∃ t' v σ, (Outcome.ok t') ∈ cosetTables n rels k (searchFuel n k) ∧ t'.view = .ok v ∧
        TabIso A (viewTab v) n σ) :=
  coset_tables_complete_irredundant n rels k _ hlet (cosetTables_fuel_adequate n rels k)

/-- ✔ **C12 for the model in group-theoretic terms, no hypothesis but the letters** -/
theorem coset_tables_subgroup_classes_nofuel (n : Nat) (rels : List (List Int)) (k : Nat)
    (hlet : ∀ w ∈ rels, ∀ x ∈ w, x ∈ allGensOf n) :
    (∀ x ∈ cosetTables n rels k (searchFuel n k), ∃ (t' : Table) (v : List (List Int))
      (hv : CosetP.Valid (viewTab v) n rels []),
      x = .ok t' ∧ t'.view = .ok v ∧ (CosetP.stab0 hv).index = (viewTab v).size ∧
        (viewTab v).size ≤ max k 1) ∧
    (cosetTables n rels k (searchFuel n k)).Pairwise (fun x y => ∀ (t1 t2 : Table) (v1 v2 : List (List Int))
      (hv1 : CosetP.Valid (viewTab v1) n rels []) (hv2 : CosetP.Valid (viewTab v2) n rels []),
      x = .ok t1 → y = .ok t2 → t1.view = .ok v1 → t2.view = .ok v2 →
      ¬ SubConj (CosetP.stab0 hv1) (CosetP.stab0 hv2)) ∧
    (∀ H : Subgroup (CosetSoundP.G n rels), H.index ≠ 0 → H.index ≤ k →
      ∃ (t' : Table) (v : List (List Int)) (hv : CosetP.Valid (viewTab v) n rels []),
        (Outcome.ok t') ∈ cosetTables n rels k (searchFuel n k) ∧ t'.view = .ok v ∧
          SubConj H (CosetP.stab0 hv)) :=
  coset_tables_subgroup_classes n rels k _ hlet (cosetTables_fuel_adequate n rels k)

/-- ○ `rebase_min_invariant`: the Spec's `canonicalForm` (minimum over all base points of
    the BFS-renumbered table) is a complete invariant of a table up to isomorphism
    (`TabIso t t' n σ`: `σ` is a bijection of the rows with `t'[σ c][g] = σ (t[c][g])` for
    every letter): isomorphic tables have equal canonical forms, and tables with the same
    canonical form `some m` are isomorphic.  No assumption on the tables (partial tables
    included); for tables in which some base point reaches every row the form is `some _`. -/
theorem rebase_min_invariant (t t' : Tab) (n : Nat) :
    (∀ σ, TabIso t t' n σ → canonicalForm t' n = canonicalForm t n) ∧
      (∀ m, canonicalForm t n = some m → canonicalForm t' n = some m → ∃ σ, TabIso t t' n σ) :=
  ⟨fun _ iso => canonicalForm_iso iso, fun _ h h' => iso_of_canonicalForm_eq h h'⟩

/-- ○ re-basing commutes with isomorphisms, and the renumbered table is isomorphic to the
    original (the two facts behind `rebase_min_invariant`) -/
theorem renumber_iso (t t' : Tab) (n : Nat) (σ : Nat → Nat) (iso : TabIso t t' n σ) (s : Nat)
    (hs : s < t.size) :
    renumberFrom t' n (σ s) = renumberFrom t n s ∧
      ∀ u, renumberFrom t n s = some u → ∃ τ, TabIso t u n τ :=
  ⟨renumberFrom_iso iso s hs, fun _ hu => ⟨_, (renum_of_some hs hu).iso_fwd⟩⟩

/-! non-vacuity: every table is isomorphic to itself; the S3 action on the cosets of ⟨b⟩ has a
    canonical form, shared by its re-based copy -/
example (t : Tab) (n : Nat) : TabIso t t n id :=
  ⟨rfl, fun _ h => h, fun _ _ _ _ h => h, fun c g _ => by simp⟩

example : canonicalForm #[#[1, 0, 1, 0], #[0, 2, 0, 2], #[2, 1, 2, 1]] 2 =
    canonicalForm #[#[1, 2, 1, 2], #[0, 1, 0, 1], #[2, 0, 2, 0]] 2 := by decide +kernel

example : (canonicalForm #[#[1, 0, 1, 0], #[0, 2, 0, 2], #[2, 1, 2, 1]] 2).isSome = true := by
  decide +kernel

/-! non-vacuity: the empty table satisfies the invariant; the first derived table of the
    free group of rank 1 -/
example : Good (Table.new 2) := good_new 2
example : ∃ t', derivedTable (Table.new 1) [] 0 0 1 = .ok (some t') := ⟨_, rfl⟩
example : 1 ∈ (Table.new 1).allGens := by decide

/-! non-vacuity: the subgroups of index ≤ 2 of the free group of rank 1 and of
    `ℤ/2 × ℤ/2 = ⟨a, b | a², b², (ab)²⟩` up to index 4 (the suite's own example: sizes 1,2,2,2,4) -/

def viewOf : Outcome Table → Outcome (List (List Int))
  | .ok t => t.view
  | .err => .err
  | .panic => .panic

example : (cosetTables 1 [] 2 100).map viewOf = [.ok [[0, 0]], .ok [[1, 1], [0, 0]]] := by
  decide +kernel

example : ((cosetTables 2 [[1, 1], [2, 2], [1, 2, 1, 2]] 4 1000).map viewOf).map
    (fun o => match o with | .ok v => v.length | _ => 0) = [1, 2, 2, 2, 4] := by
  decide +kernel

end DSymVerif.C12
