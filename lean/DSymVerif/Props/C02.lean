/-
Property C02 — basic D-set queries agree with their definitions in every representation.
Theorems about the models `DSymVerif/Model/DSet.lean`, `DSymVerif/Model/DSym.lean`, for all
sizes and dimensions.  Validity predicates (`ValidSet`, `ValidPartialSet`, `FarCommute`,
`ValidSym`) are in `Proofs/DSetBasic.lean`.
-/
import DSymVerif.Proofs.DSetSym

namespace DSymVerif.C02
open DSymVerif.DS

/-! ### small witnesses for the non-vacuity examples -/

/-- one chamber, dimension 2, all operations fix it -/
def ex1 : DSetData := { size := 1, dim := 2, op := #[1, 1, 1] }
/-- two chambers, dimension 2: s0 = s1 = (1 2), s2 = id -/
def ex2 : DSetData := { size := 2, dim := 2, op := #[2, 2, 1, 1, 1, 2] }

theorem ex2_valid : ValidSet ex2 := by
  refine ⟨by decide, ?_, ?_⟩
  · intro i d hi h1 h2
    have hi' : i ≤ 2 := hi
    have h2' : d ≤ 2 := h2
    have : (i = 0 ∨ i = 1 ∨ i = 2) ∧ (d = 1 ∨ d = 2) := by omega
    rcases this with ⟨rfl | rfl | rfl, rfl | rfl⟩ <;> decide
  · intro i d hi h1 h2
    have hi' : i ≤ 2 := hi
    have h2' : d ≤ 2 := h2
    have : (i = 0 ∨ i = 1 ∨ i = 2) ∧ (d = 1 ∨ d = 2) := by omega
    rcases this with ⟨rfl | rfl | rfl, rfl | rfl⟩ <;> decide

theorem ex2_far : FarCommute ex2 := by
  intro i j d hij hj h1 h2
  have hj' : j ≤ 2 := hj
  have h2' : d ≤ 2 := h2
  have : i = 0 ∧ j = 2 ∧ (d = 1 ∨ d = 2) := by omega
  rcases this with ⟨rfl, rfl, rfl | rfl⟩ <;> decide

/-! ### 1. out-of-range arguments give `None`, never a panic — for all data -/

theorem out_of_range_none_op (s : DSetData) (i d : Nat) (h : i > s.dim ∨ d < 1 ∨ d > s.size) :
    s.opPartial i d = none ∧ s.opSimple i d = none ∧ (DSymData.op ⟨s, #[], #[], #[]⟩ i d = none) :=
  ⟨opPartial_oor s i d h, opSimple_oor s i d h, opSimple_oor s i d h⟩

example : ex2.opPartial 3 1 = none ∧ ex2.opSimple 0 0 = none := by decide

/-- generic `r`, `m` of any representation (any `View`, in particular `viewPartial`, `viewSimple`,
    `DSymData.view`) -/
theorem out_of_range_none_generic (s : View) (i j d : Nat)
    (h : i > s.dim ∨ j > s.dim ∨ d < 1 ∨ d > s.size) :
    s.r i j d = .ok none ∧ s.m i j d = none :=
  ⟨View.r_oor s i j d h, View.m_oor s i j d h⟩

example : ex2.viewPartial.r 0 3 1 = .ok none ∧ ex2.viewSimple.m 0 1 3 = none := by decide

/-- the six table-based overrides, for arbitrary (even ill-formed) symbol data -/
theorem out_of_range_none (s : DSymData) (i j d : Nat)
    (h : i > s.dim ∨ j > s.dim ∨ d < 1 ∨ d > s.size) :
    s.rPartial i j d = .ok none ∧ s.vPartial i j d = .ok none ∧ s.mPartial i j d = .ok none ∧
    s.rSimple i j d = .ok none ∧ s.vSimple i j d = .ok none ∧ s.mSimple i j d = .ok none ∧
    s.view.r i j d = .ok none ∧ s.view.m i j d = none :=
  ⟨s.rPartial_oor i j d h, s.vPartial_oor i j d h, s.mPartial_oor i j d h,
   s.rPartial_oor i j d h, s.vPartial_oor i j d h, s.mPartial_oor i j d h,
   View.r_oor s.view i j d h, View.m_oor s.view i j d h⟩

example : (DSymData.ofSimple ex2).rSimple 0 2 0 = .ok none := by decide

/-! ### 2. the `PartialDSym` and `SimpleDSym` overrides are the same functions -/

theorem overrides_agree (s : DSymData) :
    s.rSimple = s.rPartial ∧ s.vSimple = s.vPartial ∧ s.mSimple = s.mPartial :=
  ⟨rfl, rfl, rfl⟩

/-! ### 3. m = r·v, symmetry in (i, j) -/

/-- `m` is defined exactly when `r` and `v` are, and then it is their product -/
theorem m_eq_r_mul_v (s : DSymData) (i j d : Nat) :
    (∀ a b, s.rPartial i j d = .ok (some a) → s.vPartial i j d = .ok (some b) →
      s.mPartial i j d = .ok (some (a * b))) ∧
    (∀ c, s.mPartial i j d = .ok (some c) →
      ∃ a b, s.rPartial i j d = .ok (some a) ∧ s.vPartial i j d = .ok (some b) ∧ c = a * b) :=
  ⟨fun _ _ hr hv => DSymData.mOf_some hr hv, fun _ h => DSymData.mOf_eq_some h⟩

example : (DSymData.ofSimple ex2).rPartial 0 1 1 = .ok (some 1) ∧
    (DSymData.ofSimple ex2).vPartial 0 1 1 = .ok (some 0) := by decide

/-- symmetric in the two indices — for every argument and all data (so in particular for
    in-range arguments of a `ValidSym`) -/
theorem r_v_m_symm (s : DSymData) (i j d : Nat) :
    s.rPartial i j d = s.rPartial j i d ∧ s.vPartial i j d = s.vPartial j i d ∧
    s.mPartial i j d = s.mPartial j i d ∧
    s.rSimple i j d = s.rSimple j i d ∧ s.vSimple i j d = s.vSimple j i d ∧
    s.mSimple i j d = s.mSimple j i d :=
  ⟨s.rPartial_symm i j d, s.vPartial_symm i j d, s.mPartial_symm i j d,
   s.rPartial_symm i j d, s.vPartial_symm i j d, s.mPartial_symm i j d⟩

/-! ### 4. the generic `r` terminates and is the orbit length -/

/-- On a complete involutive D-set the fuelled model of the unbounded Rust loop never runs out
    of fuel (`panic` = non-termination): in both plain representations it returns the least
    `k ≥ 1` with `(op j ∘ op i)^k d = d`, `k ≤ size`, and that is the Spec's `orbitLen`. -/
theorem r_generic_eq_orbitLen (s : DSetData) (h : ValidSet s) (i j d : Nat)
    (hi : i ≤ s.dim) (hj : j ≤ s.dim) (h1 : 1 ≤ d) (h2 : d ≤ s.size) :
    ∃ k, 1 ≤ k ∧ k ≤ s.size ∧
      s.viewSimple.r i j d = .ok (some k) ∧ s.viewPartial.r i j d = .ok (some k) ∧
      (fun e => s.opU j (s.opU i e))^[k] d = d ∧
      (∀ t, 1 ≤ t → t < k → (fun e => s.opU j (s.opU i e))^[t] d ≠ d) ∧
      ∀ v, SpecC02.G.orbitLen (s.toG v) i j d = some k := by
  obtain ⟨k, a, b, c, e, f, g⟩ := h.r_generic hi hj h1 h2
  refine ⟨k, a, b, c, e, f, g, ?_⟩
  intro v
  have := h.toPartial.r_eq_orbitLen v hi hj h1 h2
  rw [e] at this
  injection this with this
  exact this.symm

example : ValidSet ex2 ∧ (0 ≤ ex2.dim ∧ 1 ≤ ex2.dim ∧ 1 ≤ 1 ∧ 1 ≤ ex2.size) :=
  ⟨ex2_valid, by decide⟩

/-- On a possibly incomplete D-set (`PartialDSet`; defined entries are involutive) the generic
    `r` still terminates, and it is the Spec's `orbitLen` (`none` = an undefined entry is met). -/
theorem r_generic_partial_eq_orbitLen (s : DSetData) (h : ValidPartialSet s) (v : Nat → Nat → Nat)
    (i j d : Nat) (hi : i ≤ s.dim) (hj : j ≤ s.dim) (h1 : 1 ≤ d) (h2 : d ≤ s.size) :
    s.viewPartial.r i j d = .ok (SpecC02.G.orbitLen (s.toG v) i j d) :=
  h.r_eq_orbitLen v hi hj h1 h2

example : ValidPartialSet ex2 := ex2_valid.toPartial

/-! ### 5. non-adjacent indices -/

/-- For |i-j| > 1 the overrides answer "1 if `op i d = op j d` else 2" without looking at the
    orbit tables; on a complete D-set with commuting far operations this is the generic orbit
    length. -/
theorem r_nonadjacent (s : DSymData) (h : ValidSet s.dset) (hf : FarCommute s.dset) (i j d : Nat)
    (hij : i + 1 < j ∨ j + 1 < i) (hi : i ≤ s.dim) (hj : j ≤ s.dim) (h1 : 1 ≤ d) (h2 : d ≤ s.size) :
    s.rPartial i j d = s.view.r i j d ∧ s.rSimple i j d = s.view.r i j d ∧
    s.rPartial i j d = .ok (some (if s.dset.opU i d = s.dset.opU j d then 1 else 2)) := by
  have a := s.rPartial_far hij hi hj h1 h2
  have b := h.r_far hf hij hi hj h1 h2
  rw [s.view_eq]
  exact ⟨a.trans b.symm, a.trans b.symm, a⟩

example : ValidSet (DSymData.ofSimple ex2).dset ∧ FarCommute (DSymData.ofSimple ex2).dset ∧
    (0 + 1 < 2 ∧ 0 ≤ (DSymData.ofSimple ex2).dim ∧ 2 ≤ (DSymData.ofSimple ex2).dim) :=
  ⟨ex2_valid, ex2_far, by decide⟩

/-! ### 6. `collect_orbits`, and table-based = generic on valid symbols -/

/-- `collect_orbits` on a complete involutive D-set (any size, any dimension): row `i` of the
    index table has an entry for every chamber, the entry points into `rs`, the `rs` entry is the
    least period of the chamber under `op (i+1) ∘ op i` — which is what the generic `r` and the
    Spec's `orbitLen` return — and two chambers get the same orbit number exactly when they are
    joined by a path of `op i` / `op (i+1)` steps (`Orb2`, the inductive closure). Different rows
    use different numbers. -/
theorem collectOrbits_spec (s : DSetData) (h : ValidSet s) (i : Nat) (hi : i < s.dim) :
    let o := collectOrbits s
    let ix := fun (i d : Nat) => (o.index.getD i #[]).getD d 0
    o.index.size = s.dim ∧ (o.index.getD i #[]).size = s.size + 1 ∧
    (∀ d, 1 ≤ d → d ≤ s.size →
      ix i d < o.rs.size ∧
      IsLeastPeriod s i (i + 1) d (o.rs.getD (ix i d) 0) ∧
      s.viewSimple.r i (i + 1) d = .ok (some (o.rs.getD (ix i d) 0)) ∧
      ∀ v, SpecC02.G.orbitLen (s.toG v) i (i + 1) d = some (o.rs.getD (ix i d) 0)) ∧
    (∀ d e, 1 ≤ d → d ≤ s.size → 1 ≤ e → e ≤ s.size → (ix i d = ix i e ↔ Orb2 s i (i + 1) d e)) ∧
    (∀ i' d e, i' < i → 1 ≤ d → d ≤ s.size → 1 ≤ e → e ≤ s.size → ix i' d < ix i e) := by
  intro o ix
  have hrows := collectOrbits_rows h
  have hrow := hrows.2 i hi
  refine ⟨hrows.1, hrow.size, ?_, hrow.iff, ?_⟩
  · intro d h1 h2
    have hi0 : i ≤ s.dim := Nat.le_of_lt hi
    obtain ⟨k, _, _, hr, _, hp, hmin, hspec⟩ := r_generic_eq_orbitLen s h i (i + 1) d hi0 hi h1 h2
    have hk : IsLeastPeriod s i (i + 1) d k := ⟨by omega, hp, hmin⟩
    have := (hrow.per d h1 h2).unique hk
    refine ⟨hrow.lt d h1 h2, hrow.per d h1 h2, ?_, ?_⟩
    · rw [hr]; exact congrArg (fun k => Outcome.ok (some k)) this.symm
    · intro v; rw [hspec v]; exact congrArg some this.symm
  · intro i' d e hi' hd1 hd2 he1 he2
    exact collectOrbits_rows_lt h hi' hi hd1 hd2 he1 he2

example : ValidSet ex2 ∧ 0 < ex2.dim := ⟨ex2_valid, by decide⟩

/-- **All representations agree**: on a valid symbol the table-based `r` of `PartialDSym` and
    `SimpleDSym` is the generic (orbit-walking) `r` of the underlying D-set, for every in-range
    argument — adjacent, equal and far index pairs, in either order. -/
theorem representations_agree (s : DSymData) (h : ValidSym s) (i j d : Nat)
    (hi : i ≤ s.dim) (hj : j ≤ s.dim) (h1 : 1 ≤ d) (h2 : d ≤ s.size) :
    s.rPartial i j d = s.view.r i j d ∧ s.rSimple i j d = s.view.r i j d ∧
    s.view.r i j d = s.dset.viewSimple.r i j d ∧ s.view.r i j d = s.dset.viewPartial.r i j d := by
  have := h.rPartial_eq_generic hi hj h1 h2
  refine ⟨this, this, rfl, ?_⟩
  rw [h.set.viewPartial_eq_viewSimple]; rfl

theorem ex2_validSym : ValidSym (DSymData.ofSimple ex2) := ValidSym.ofSimple ex2_valid ex2_far

example : ValidSym (DSymData.ofSimple ex2) ∧ (1 ≤ (DSymData.ofSimple ex2).dim ∧ 1 ≤ (DSymData.ofSimple ex2).size) :=
  ⟨ex2_validSym, by decide⟩

/-- On a valid symbol no in-range query panics or is undefined: `r ∈ 1..size`, `v` is the stored
    branching entry, `m = r·v`. -/
theorem queries_total (s : DSymData) (h : ValidSym s) (i j d : Nat)
    (hi : i ≤ s.dim) (hj : j ≤ s.dim) (h1 : 1 ≤ d) (h2 : d ≤ s.size) :
    ∃ a b, 1 ≤ a ∧ a ≤ s.size ∧ s.rPartial i j d = .ok (some a) ∧ s.vPartial i j d = .ok (some b) ∧
      s.mPartial i j d = .ok (some (a * b)) := by
  obtain ⟨a, ha1, ha2, ha⟩ := h.rPartial_some hi hj h1 h2
  obtain ⟨b, hb⟩ := h.vPartial_some hi hj h1 h2
  exact ⟨a, b, ha1, ha2, ha, hb, DSymData.mOf_some ha hb⟩

example : ValidSym (DSymData.ofSimple ex2) := ex2_validSym

/-- `r`, `v`, `m` are constant along `op i` and `op j`, hence on (i,j)-orbits. -/
theorem r_v_m_const_on_orbit (s : DSymData) (h : ValidSym s) (i j d : Nat)
    (hi : i ≤ s.dim) (hj : j ≤ s.dim) (h1 : 1 ≤ d) (h2 : d ≤ s.size) :
    (s.rPartial i j (s.dset.opU i d) = s.rPartial i j d ∧ s.rPartial i j (s.dset.opU j d) = s.rPartial i j d) ∧
    (s.vPartial i j (s.dset.opU i d) = s.vPartial i j d ∧ s.vPartial i j (s.dset.opU j d) = s.vPartial i j d) ∧
    (s.mPartial i j (s.dset.opU i d) = s.mPartial i j d ∧ s.mPartial i j (s.dset.opU j d) = s.mPartial i j d) :=
  h.const_on_orbit hi hj h1 h2

example : ValidSym (DSymData.ofSimple ex2) := ex2_validSym

/-- validity is what the library's constructors establish: `From<SimpleDSet>` on a valid set with
    commuting far operations, and it is preserved by `set_v` -/
theorem validSym_constructors (ds : DSetData) (h : ValidSet ds) (hf : FarCommute ds) :
    ValidSym (DSymData.ofSimple ds) ∧
    ∀ s t i d v, ValidSym s → s.setV i d v = .ok t → ValidSym t :=
  ⟨ValidSym.ofSimple h hf, fun _ _ _ _ _ hs ht => hs.setV ht⟩

example : ValidSet ex2 ∧ FarCommute ex2 := ⟨ex2_valid, ex2_far⟩

end DSymVerif.C02
