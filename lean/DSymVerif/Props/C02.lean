/-
Property C02 — basic D-set queries agree with their definitions in every representation.
Theorems about the models `DSymVerif/Model/DSet.lean`, `DSymVerif/Model/DSym.lean`, for all
sizes and dimensions.  Validity predicates (`ValidSet`, `ValidPartialSet`, `FarCommute`,
`ValidSym`) are in `Proofs/DSetBasic.lean`.
-/
import DSymVerif.Proofs.DSetSym
import DSymVerif.Proofs.DSetTravSpec
import DSymVerif.Proofs.DSetOrient
import DSymVerif.Proofs.DSetExamples
import DSymVerif.Proofs.DSetConvert

namespace DSymVerif.C02
open DSymVerif.DS
open DSymVerif.DS.View (TravItem travFuel travCollect todoInit)

/-! ### 1. out-of-range arguments give `None`, never a panic — for all data -/

theorem out_of_range_none_op (s : DSetData) (i d : Nat) (h : i > s.dim ∨ d < 1 ∨ d > s.size) :
    s.opPartial i d = none ∧ s.opSimple i d = none ∧ (∀ y : DSymData, y.dset = s → y.op i d = none) :=
  ⟨opPartial_oor s i d h, opSimple_oor s i d h, fun y hy => by subst hy; exact opSimple_oor _ i d h⟩

example : ex2.opPartial 3 1 = none ∧ ex2.opSimple 0 0 = none := by decide

/-- generic `r`, `m` of any representation (any `View`, in particular `viewPartial`, `viewSimple`,
    `DSymData.view`) -/
theorem out_of_range_none_generic (s : View) (i j d : Nat)
    (h : i > s.dim ∨ j > s.dim ∨ d < 1 ∨ d > s.size) :
    s.r i j d = .ok none ∧ s.m i j d = none :=
  ⟨View.r_oor s i j d h, View.m_oor s i j d h⟩

example : ex2.viewPartial.r 0 3 1 = .ok none ∧ ex2.viewSimple.m 0 1 3 = none := by decide

/-- the six table-based overrides, for arbitrary (even ill-formed) symbol data -/
theorem out_of_range_none (s : DSymData) (i j d : Nat)
    (h : i > s.dim ∨ j > s.dim ∨ d < 1 ∨ d > s.size) :
    s.rPartial i j d = .ok none ∧ s.vPartial i j d = .ok none ∧ s.mPartial i j d = .ok none ∧
    s.rSimple i j d = .ok none ∧ s.vSimple i j d = .ok none ∧ s.mSimple i j d = .ok none ∧
    s.view.r i j d = .ok none ∧ s.view.m i j d = none :=
  ⟨s.rPartial_oor i j d h, s.vPartial_oor i j d h, s.mPartial_oor i j d h,
   s.rPartial_oor i j d h, s.vPartial_oor i j d h, s.mPartial_oor i j d h,
   View.r_oor s.view i j d h, View.m_oor s.view i j d h⟩

example : (DSymData.ofSimple ex2).rSimple 0 2 0 = .ok none := by decide

/-! ### 2. the `PartialDSym` and `SimpleDSym` overrides are the same functions -/

/-- NB: this is `rfl` because the *model* states `SimpleDSym::r/v/m` (dsyms.rs:412-448, after the
    D2 fix) by the same text as `PartialDSym::r/v/m` (dsyms.rs:213-249); it documents that fact about
    the model.  That the two *Rust* overrides are the same function is not proved here: it rests on
    the differential correspondence (ops `tables` / `probe` compare both Rust overrides with their
    model counterpart on every explored case, and the Spec clause `representations-agree-*`
    compares the two Rust answers with each other). -/
theorem overrides_agree (s : DSymData) :
    s.rSimple = s.rPartial ∧ s.vSimple = s.vPartial ∧ s.mSimple = s.mPartial :=
  ⟨rfl, rfl, rfl⟩

/-! ### 3. m = r·v, symmetry in (i, j) -/

/-- `m` is defined exactly when `r` and `v` are, and then it is their product -/
theorem m_eq_r_mul_v (s : DSymData) (i j d : Nat) :
    (∀ a b, s.rPartial i j d = .ok (some a) → s.vPartial i j d = .ok (some b) →
      s.mPartial i j d = .ok (some (a * b))) ∧
    (∀ c, s.mPartial i j d = .ok (some c) →
      ∃ a b, s.rPartial i j d = .ok (some a) ∧ s.vPartial i j d = .ok (some b) ∧ c = a * b) :=
  ⟨fun _ _ hr hv => DSymData.mOf_some hr hv, fun _ h => DSymData.mOf_eq_some h⟩

example : (DSymData.ofSimple ex2).rPartial 0 1 1 = .ok (some 1) ∧
    (DSymData.ofSimple ex2).vPartial 0 1 1 = .ok (some 0) := by decide

/-- symmetric in the two indices — for every argument and all data (so in particular for
    in-range arguments of a `ValidSym`) -/
theorem r_v_m_symm (s : DSymData) (i j d : Nat) :
    s.rPartial i j d = s.rPartial j i d ∧ s.vPartial i j d = s.vPartial j i d ∧
    s.mPartial i j d = s.mPartial j i d ∧
    s.rSimple i j d = s.rSimple j i d ∧ s.vSimple i j d = s.vSimple j i d ∧
    s.mSimple i j d = s.mSimple j i d :=
  ⟨s.rPartial_symm i j d, s.vPartial_symm i j d, s.mPartial_symm i j d,
   s.rPartial_symm i j d, s.vPartial_symm i j d, s.mPartial_symm i j d⟩

/-! ### 4. the generic `r` terminates and is the orbit length -/

/-- On a complete involutive D-set the fuelled model of the unbounded Rust loop never runs out
    of fuel (`panic` = non-termination): in both plain representations it returns the least
    `k ≥ 1` with `(op j ∘ op i)^k d = d`, `k ≤ size`, and that is the Spec's `orbitLen`. -/
theorem r_generic_eq_orbitLen (s : DSetData) (h : ValidSet s) (i j d : Nat)
    (hi : i ≤ s.dim) (hj : j ≤ s.dim) (h1 : 1 ≤ d) (h2 : d ≤ s.size) :
    ∃ k, 1 ≤ k ∧ k ≤ s.size ∧
      s.viewSimple.r i j d = .ok (some k) ∧ s.viewPartial.r i j d = .ok (some k) ∧
      (fun e => s.opU j (s.opU i e))^[k] d = d ∧
      (∀ t, 1 ≤ t → t < k → (fun e => s.opU j (s.opU i e))^[t] d ≠ d) ∧
      ∀ v, SpecC02.G.orbitLen (s.toG v) i j d = some k := by
  obtain ⟨k, a, b, c, e, f, g⟩ := h.r_generic hi hj h1 h2
  refine ⟨k, a, b, c, e, f, g, ?_⟩
  intro v
  have := h.toPartial.r_eq_orbitLen v hi hj h1 h2
  rw [e] at this
  injection this with this
  exact this.symm

example : ValidSet ex2 ∧ (0 ≤ ex2.dim ∧ 1 ≤ ex2.dim ∧ 1 ≤ 1 ∧ 1 ≤ ex2.size) :=
  ⟨ex2_valid, by decide⟩

/-- On a possibly incomplete D-set (`PartialDSet`; defined entries are involutive) the generic
    `r` still terminates, and it is the Spec's `orbitLen` (`none` = an undefined entry is met). -/
theorem r_generic_partial_eq_orbitLen (s : DSetData) (h : ValidPartialSet s) (v : Nat → Nat → Nat)
    (i j d : Nat) (hi : i ≤ s.dim) (hj : j ≤ s.dim) (h1 : 1 ≤ d) (h2 : d ≤ s.size) :
    s.viewPartial.r i j d = .ok (SpecC02.G.orbitLen (s.toG v) i j d) :=
  h.r_eq_orbitLen v hi hj h1 h2

example : ValidPartialSet ex2 := ex2_valid.toPartial

/-! ### 5. non-adjacent indices -/

/-- For |i-j| > 1 the overrides answer "1 if `op i d = op j d` else 2" without looking at the
    orbit tables; on a complete D-set with commuting far operations this is the generic orbit
    length; `v = 2 / r` and `m = 2` (the D-symbol axiom m_ij = 2). -/
theorem r_nonadjacent (s : DSymData) (h : ValidSet s.dset) (hf : FarCommute s.dset) (i j d : Nat)
    (hij : i + 1 < j ∨ j + 1 < i) (hi : i ≤ s.dim) (hj : j ≤ s.dim) (h1 : 1 ≤ d) (h2 : d ≤ s.size) :
    s.rPartial i j d = s.view.r i j d ∧ s.rSimple i j d = s.view.r i j d ∧
    s.rPartial i j d = .ok (some (if s.dset.opU i d = s.dset.opU j d then 1 else 2)) ∧
    s.vPartial i j d = .ok (some (if s.dset.opU i d = s.dset.opU j d then 2 else 1)) ∧
    s.mPartial i j d = .ok (some 2) := by
  have a := s.rPartial_far hij hi hj h1 h2
  have b := h.r_far hf hij hi hj h1 h2
  have c : s.vPartial i j d = .ok (some (if s.dset.opU i d = s.dset.opU j d then 2 else 1)) := by
    rw [s.vPartial_far' hij hi hj h1 h2]
    have e1 : s.op i d = some (s.dset.opU i d) := opSimple_eq_some.2 ⟨hi, h1, h2, rfl⟩
    have e2 : s.op j d = some (s.dset.opU j d) := opSimple_eq_some.2 ⟨hj, h1, h2, rfl⟩
    rw [e1, e2]
    by_cases he : s.dset.opU i d = s.dset.opU j d
    · rw [if_pos (by rw [he]), if_pos he]
    · rw [if_neg (fun hc => he (Option.some.inj hc)), if_neg he]
  rw [s.view_eq]
  refine ⟨a.trans b.symm, a.trans b.symm, a, c, ?_⟩
  unfold DSymData.mPartial
  rw [a, c]
  by_cases he : s.dset.opU i d = s.dset.opU j d
  · rw [if_pos he, if_pos he]; rfl
  · rw [if_neg he, if_neg he]; rfl

example : ValidSet (DSymData.ofSimple ex2).dset ∧ FarCommute (DSymData.ofSimple ex2).dset ∧
    (0 + 1 < 2 ∧ 0 ≤ (DSymData.ofSimple ex2).dim ∧ 2 ≤ (DSymData.ofSimple ex2).dim) :=
  ⟨ex2_valid, ex2_far, by decide⟩

/-! ### 6. `collect_orbits`, and table-based = generic on valid symbols -/

/-- `collect_orbits` on a complete involutive D-set (any size, any dimension): row `i` of the
    index table has an entry for every chamber, the entry points into `rs`, the `rs` entry is the
    least period of the chamber under `op (i+1) ∘ op i` — which is what the generic `r` and the
    Spec's `orbitLen` return — and two chambers get the same orbit number exactly when they are
    joined by a path of `op i` / `op (i+1)` steps (`Orb2`, the inductive closure). Different rows
    use different numbers. -/
theorem collectOrbits_spec (s : DSetData) (h : ValidSet s) (i : Nat) (hi : i < s.dim) :
    let o := collectOrbits s
    let ix := fun (i d : Nat) => (o.index.getD i #[]).getD d 0
    o.index.size = s.dim ∧ (o.index.getD i #[]).size = s.size + 1 ∧
    (∀ d, 1 ≤ d → d ≤ s.size →
      ix i d < o.rs.size ∧
      IsLeastPeriod s i (i + 1) d (o.rs.getD (ix i d) 0) ∧
      s.viewSimple.r i (i + 1) d = .ok (some (o.rs.getD (ix i d) 0)) ∧
      ∀ v, SpecC02.G.orbitLen (s.toG v) i (i + 1) d = some (o.rs.getD (ix i d) 0)) ∧
    (∀ d e, 1 ≤ d → d ≤ s.size → 1 ≤ e → e ≤ s.size → (ix i d = ix i e ↔ Orb2 s i (i + 1) d e)) ∧
    (∀ i' d e, i' < i → 1 ≤ d → d ≤ s.size → 1 ≤ e → e ≤ s.size → ix i' d < ix i e) := by
  intro o ix
  have hrows := collectOrbits_rows h
  have hrow := hrows.2 i hi
  refine ⟨hrows.1, hrow.size, ?_, hrow.iff, ?_⟩
  · intro d h1 h2
    have hi0 : i ≤ s.dim := Nat.le_of_lt hi
    obtain ⟨k, _, _, hr, _, hp, hmin, hspec⟩ := r_generic_eq_orbitLen s h i (i + 1) d hi0 hi h1 h2
    have hk : IsLeastPeriod s i (i + 1) d k := ⟨by omega, hp, hmin⟩
    have := (hrow.per d h1 h2).unique hk
    refine ⟨hrow.lt d h1 h2, hrow.per d h1 h2, ?_, ?_⟩
    · rw [hr]; exact congrArg (fun k => Outcome.ok (some k)) this.symm
    · intro v; rw [hspec v]; exact congrArg some this.symm
  · intro i' d e hi' hd1 hd2 he1 he2
    exact collectOrbits_rows_lt h hi' hi hd1 hd2 he1 he2

example : ValidSet ex2 ∧ 0 < ex2.dim := ⟨ex2_valid, by decide⟩

/-- **All representations agree**: on a valid symbol the table-based `r` of `PartialDSym` and
    `SimpleDSym` is the generic (orbit-walking) `r` of the underlying D-set, for every in-range
    argument — adjacent, equal and far index pairs, in either order. -/
theorem representations_agree (s : DSymData) (h : ValidSym s) (i j d : Nat)
    (hi : i ≤ s.dim) (hj : j ≤ s.dim) (h1 : 1 ≤ d) (h2 : d ≤ s.size) :
    s.rPartial i j d = s.view.r i j d ∧ s.rSimple i j d = s.view.r i j d ∧
    s.view.r i j d = s.dset.viewSimple.r i j d ∧ s.view.r i j d = s.dset.viewPartial.r i j d := by
  have := h.rPartial_eq_generic hi hj h1 h2
  refine ⟨this, this, rfl, ?_⟩
  rw [h.set.viewPartial_eq_viewSimple]; rfl

example : ValidSym (DSymData.ofSimple ex2) ∧ (1 ≤ (DSymData.ofSimple ex2).dim ∧ 1 ≤ (DSymData.ofSimple ex2).size) :=
  ⟨ex2_validSym, by decide⟩

/-- On a valid symbol no in-range query panics or is undefined: `r ∈ 1..size`, `v` is the stored
    branching entry, `m = r·v`. -/
theorem queries_total (s : DSymData) (h : ValidSym s) (i j d : Nat)
    (hi : i ≤ s.dim) (hj : j ≤ s.dim) (h1 : 1 ≤ d) (h2 : d ≤ s.size) :
    ∃ a b, 1 ≤ a ∧ a ≤ s.size ∧ s.rPartial i j d = .ok (some a) ∧ s.vPartial i j d = .ok (some b) ∧
      s.mPartial i j d = .ok (some (a * b)) := by
  obtain ⟨a, ha1, ha2, ha⟩ := h.rPartial_some hi hj h1 h2
  obtain ⟨b, hb⟩ := h.vPartial_some hi hj h1 h2
  exact ⟨a, b, ha1, ha2, ha, hb, DSymData.mOf_some ha hb⟩

example : ValidSym (DSymData.ofSimple ex2) := ex2_validSym

/-- `r`, `v`, `m` are constant along `op i` and `op j`, hence on (i,j)-orbits. -/
theorem r_v_m_const_on_orbit (s : DSymData) (h : ValidSym s) (i j d : Nat)
    (hi : i ≤ s.dim) (hj : j ≤ s.dim) (h1 : 1 ≤ d) (h2 : d ≤ s.size) :
    (s.rPartial i j (s.dset.opU i d) = s.rPartial i j d ∧ s.rPartial i j (s.dset.opU j d) = s.rPartial i j d) ∧
    (s.vPartial i j (s.dset.opU i d) = s.vPartial i j d ∧ s.vPartial i j (s.dset.opU j d) = s.vPartial i j d) ∧
    (s.mPartial i j (s.dset.opU i d) = s.mPartial i j d ∧ s.mPartial i j (s.dset.opU j d) = s.mPartial i j d) :=
  h.const_on_orbit hi hj h1 h2

example : ValidSym (DSymData.ofSimple ex2) := ex2_validSym

/-- validity is what the library's constructors establish: `From<SimpleDSet>` on a valid set with
    commuting far operations, and it is preserved by `set_v` -/
theorem validSym_constructors (ds : DSetData) (h : ValidSet ds) (hf : FarCommute ds) :
    ValidSym (DSymData.ofSimple ds) ∧
    ∀ s t i d v, ValidSym s → s.setV i d v = .ok t → ValidSym t :=
  ⟨ValidSym.ofSimple h hf, fun _ _ _ _ _ hs ht => hs.setV ht⟩

example : ValidSet ex2 ∧ FarCommute ex2 := ⟨ex2_valid, ex2_far⟩

/-! ### 7. the `Traversal` iterator -/

/-- **Soundness of every reported item**, for every view (no assumption on `op`), all index
    lists and all seed lists.  If `(mi, d, di)` is reported after the items `pre`:
    * `mi = some i`: `i` is one of the indices, `di = op(i,d).unwrap_or(d)`, and `d` was reported
      earlier as a target (a start item `(None, d, d)` has target `d`);
    * `mi = None`: `di = d`, `d` is a seed, `d` was not reached before, and all `k`-edges
      (`k ∈ indices`) of all chambers reached before have already been reported
      (the previous components are finished when a new one is started), and the seeds listed
      before `d` have all been reached (seeds are tried in the given order);
    * the pair (chamber `d`, index `mi`) was not touched by an earlier item with the same index:
      no (chamber, index) pair is reported twice. -/
theorem traversal_sound (s : View) (indices seeds : List Nat) (pre post : List TravItem) (t : TravItem)
    (h : s.traversal indices seeds = pre ++ t :: post) :
    (∀ i, t.1 = some i → i ∈ indices ∧ t.2.2 = (s.op i t.2.1).getD t.2.1 ∧ ∃ u ∈ pre, u.2.2 = t.2.1) ∧
    (t.1 = none → t.2.2 = t.2.1 ∧ t.2.1 ∈ seeds ∧ (∀ u ∈ pre, u.2.2 ≠ t.2.1) ∧
      (∀ u ∈ pre, ∀ k ∈ indices, ∃ w ∈ pre, w.1 = some k ∧ (w.2.1 = u.2.2 ∨ w.2.2 = u.2.2)) ∧
      ∃ l1 l2, seeds = l1 ++ t.2.1 :: l2 ∧ ∀ x ∈ l1, ∃ u ∈ pre, u.2.2 = x) ∧
    (∀ u ∈ pre, u.1 = t.1 → u.2.1 ≠ t.2.1 ∧ u.2.2 ≠ t.2.1) := by
  have hok := traversal_item_ok s indices seeds pre post t h
  refine ⟨?_, ?_, ?_⟩
  · intro i hi
    obtain ⟨a, b, u, hu, hue⟩ := hok.edge i hi
    exact ⟨a, b, u, List.mem_reverse.1 hu, hue⟩
  · intro hn
    obtain ⟨a, b, c, l1, l2, hsplit, hl1⟩ := hok.start hn
    refine ⟨a, b, ?_, ?_, l1, l2, hsplit, ?_⟩
    · intro u hu he
      apply hok.fresh
      exact ⟨u, List.mem_reverse.2 hu, by simp [seenOf, hn, he]⟩
    · intro u hu k hk
      obtain ⟨w, hw, hwk⟩ := c u.2.2 ⟨u, List.mem_reverse.2 hu, rfl⟩ k hk
      exact ⟨w, List.mem_reverse.1 hw, hwk⟩
    · intro x hx
      obtain ⟨u, hu, hue⟩ := hl1 x hx
      exact ⟨u, List.mem_reverse.1 hu, hue⟩
  · intro u hu hmi
    constructor
    · intro he; apply hok.fresh
      exact ⟨u, List.mem_reverse.2 hu, by simp [seenOf, hmi, he]⟩
    · intro he; apply hok.fresh
      exact ⟨u, List.mem_reverse.2 hu, by simp [seenOf, hmi, he]⟩

example : ex2.viewSimple.traversal [0, 1] [1] = [] ++ (none, 1, 1) :: [(some 0, 1, 2), (some 1, 2, 1)] := by
  decide

/-- **Completeness**, for every view whose operations are partial involutions with values in
    `1..size` (`View.PInvol`; e.g. `viewPartial` of a `ValidPartialSet`, `viewSimple` / `DSymData.view`
    of a `ValidSet`), all index lists and all seed lists (`out` = the collected traversal):
    1. the chambers reported as targets are exactly those reachable from a seed;
    2. for every reached chamber and every index the corresponding edge is reported …
    3. … and no two items with the same index touch a common chamber (exactly once);
    4. every reached chamber lies in the component of a start item `(None, d, d)` …
    5. … and different start items lie in different components (exactly one per component);
    6. the fuel `travFuel` suffices: any larger fuel values give the same output (the model's
       bounds never cut the Rust iterator short). -/
theorem traversal_complete (s : View) (h : s.PInvol) (indices seeds : List Nat) :
    let out := s.traversal indices seeds
    (∀ e, (∃ t ∈ out, t.2.2 = e) ↔ ∃ d ∈ seeds, s.Reach indices d e) ∧
    (∀ e, (∃ t ∈ out, t.2.2 = e) → ∀ k ∈ indices, ∃ w ∈ out, w.1 = some k ∧ (w.2.1 = e ∨ w.2.2 = e)) ∧
    out.Pairwise (fun t t' => ∀ i, t.1 = some i → t'.1 = some i →
      t.2.1 ≠ t'.2.1 ∧ t.2.1 ≠ t'.2.2 ∧ t.2.2 ≠ t'.2.1 ∧ t.2.2 ≠ t'.2.2) ∧
    (∀ e, (∃ t ∈ out, t.2.2 = e) → ∃ u ∈ out, u.1 = none ∧ u.2.1 ∈ seeds ∧ s.Reach indices u.2.1 e) ∧
    out.Pairwise (fun t t' => t.1 = none → t'.1 = none → ¬ s.Reach indices t.2.1 t'.2.1) ∧
    (∀ f n, travFuel s indices seeds ≤ f → travFuel s indices seeds ≤ n →
      travCollect s indices f n { seeds := seeds, seen := [], todo := todoInit indices } [] = out) := by
  intro out
  obtain ⟨acc, st', hacc, inv, hex⟩ := traversal_run h.range indices seeds
  have hout : out = acc.reverse := hacc
  have hfin := inv.final hex
  have hall := inv.allOK
  have hT : ∀ e, (∃ t ∈ out, t.2.2 = e) ↔ IsTarget acc e := by
    intro e; rw [hout]
    constructor
    · rintro ⟨t, ht, he⟩; exact ⟨t, List.mem_reverse.1 ht, he⟩
    · rintro ⟨t, ht, he⟩; exact ⟨t, List.mem_reverse.2 ht, he⟩
  refine ⟨?_, ?_, ?_, ?_, ?_, ?_⟩
  · intro e
    rw [hT]
    constructor
    · rintro ⟨t, ht, rfl⟩
      obtain ⟨u, _, _, hu2, _, hu4⟩ := hall.reach t ht
      exact ⟨u.2.1, hu2, hu4⟩
    · rintro ⟨d, hd, hr⟩
      exact target_closed h hall hfin.1 (hfin.2 d hd) hr
  · intro e he k hk
    obtain ⟨w, hw, hwk⟩ := hfin.1 e ((hT e).1 he) k hk
    exact ⟨w, by rw [hout]; exact List.mem_reverse.2 hw, hwk⟩
  · rw [hout, List.pairwise_reverse]
    exact edges_pairwise h hall
  · intro e he
    obtain ⟨t, ht, rfl⟩ := (hT e).1 he
    obtain ⟨u, hu, hu1, hu2, _, hu4⟩ := hall.reach t ht
    exact ⟨u, by rw [hout]; exact List.mem_reverse.2 hu, hu1, hu2, hu4⟩
  · rw [hout, List.pairwise_reverse]
    exact starts_pairwise h hall
  · intro f n hf hn
    exact traversal_fuel h.range indices seeds f n hf hn

example : ex2.viewSimple.PInvol ∧ ex2.viewPartial.PInvol :=
  ⟨ex2_valid.pinvol, ex2_valid.toPartial.pinvol⟩

/-- the hypotheses of `traversal_complete` hold for every representation of valid data -/
theorem traversal_hyp (ds : DSetData) :
    (ValidPartialSet ds → ds.viewPartial.PInvol) ∧ (ValidSet ds → ds.viewSimple.PInvol) ∧
    (∀ s : DSymData, ValidSet s.dset → s.view.PInvol) :=
  ⟨fun h => h.pinvol, fun h => h.pinvol, fun _ h => h.pinvol⟩

example : ValidSet ex2 := ex2_valid

/-- `orbit(indices, seed)` is the set of chambers reachable from the seed, strictly ascending -/
theorem orbit_eq_reachable (s : View) (h : s.PInvol) (indices : List Nat) (seed : Nat) :
    (∀ x, x ∈ s.orbit indices seed ↔ s.Reach indices seed x) ∧
    (s.orbit indices seed).Pairwise (· < ·) := by
  refine ⟨?_, sorted_sortDedup _⟩
  intro x
  unfold View.orbit
  rw [mem_sortDedup]
  have := (traversal_complete s h indices [seed]).1 x
  simp only [List.mem_singleton, exists_eq_left] at this
  rw [← this]
  simp only [List.mem_map]

example : ex2.viewSimple.orbit [0, 1] 1 = [1, 2] := by decide

/-- `orbit_reps(indices, seeds)`: seeds, one in the component of every seed, no two in the same
    component -/
theorem orbitReps_one_per_component (s : View) (h : s.PInvol) (indices seeds : List Nat) :
    (∀ r ∈ s.orbitReps indices seeds, r ∈ seeds) ∧
    (∀ d ∈ seeds, ∃ r ∈ s.orbitReps indices seeds, s.Reach indices r d) ∧
    (s.orbitReps indices seeds).Pairwise (fun a b => ¬ s.Reach indices a b) := by
  obtain ⟨h1, _, _, h4, h5, _⟩ := traversal_complete s h indices seeds
  have hmem : ∀ r, r ∈ s.orbitReps indices seeds ↔ ∃ t ∈ s.traversal indices seeds, t.1 = none ∧ t.2.1 = r := by
    intro r
    unfold View.orbitReps
    rw [List.mem_filterMap]
    constructor
    · rintro ⟨⟨mi, d, di⟩, ht, hf⟩
      cases mi with
      | none => simp at hf; exact ⟨_, ht, rfl, hf⟩
      | some i => simp at hf
    · rintro ⟨⟨mi, d, di⟩, ht, hn, hr⟩
      simp only at hn hr
      subst hn hr
      exact ⟨_, ht, by simp⟩
  refine ⟨?_, ?_, ?_⟩
  · intro r hr
    obtain ⟨t, ht, hn, rfl⟩ := (hmem r).1 hr
    obtain ⟨pre, post, hsplit⟩ := List.append_of_mem ht
    exact ((traversal_sound s indices seeds pre post t hsplit).2.1 hn).2.1
  · intro d hd
    obtain ⟨u, hu, hu1, _, hu3⟩ := h4 d ((h1 d).2 ⟨d, hd, View.Reach.refl d⟩)
    exact ⟨u.2.1, (hmem _).2 ⟨u, hu, hu1, rfl⟩, hu3⟩
  · unfold View.orbitReps
    refine List.Pairwise.filterMap _ ?_ h5
    rintro ⟨mi, d, di⟩ ⟨mi', d', di'⟩ hR b hb b' hb'
    cases mi with
    | some i => simp at hb
    | none =>
      cases mi' with
      | some i => simp at hb'
      | none =>
        simp at hb hb'
        subst hb hb'
        exact hR rfl rfl

example : ex2.viewSimple.orbitReps [2] [1, 2] = [1, 2] := by decide

/-! ### 8. predicates -/

/-- `is_connected()` ⇔ every chamber is reachable from chamber 1 (all indices) -/
theorem isConnected_iff (s : View) (h : s.PInvol) :
    s.isConnected = true ↔ ∀ d, 1 ≤ d → d ≤ s.size → s.Reach s.indices 1 d :=
  DSymVerif.DS.isConnected_iff h

example : ex2.viewSimple.PInvol := ex2_valid.pinvol

/-- `is_complete()` (default and `PartialDSet` override), `is_loopless()` are their definitions -/
theorem isComplete_isLoopless_iff (s : View) (ds : DSetData) :
    (s.isComplete = true ↔ ∀ i d, i ≤ s.dim → 1 ≤ d → d ≤ s.size → (s.op i d).isSome = true) ∧
    (s.isLoopless = true ↔ ∀ i d, i ≤ s.dim → 1 ≤ d → d ≤ s.size → s.op i d ≠ some d) ∧
    (ds.isCompletePartial = true ↔ ∀ i d, i ≤ ds.dim → 1 ≤ d → d ≤ ds.size → ds.opU i d ≠ 0) := by
  refine ⟨?_, ?_, ?_⟩
  · unfold View.isComplete View.indices View.elements
    simp only [List.all_eq_true, List.mem_range, List.mem_map, forall_exists_index, and_imp,
      forall_apply_eq_imp_iff₂]
    constructor
    · intro hc i d hi h1 h2
      have := hc i (by omega) (d - 1) (by omega)
      rwa [Nat.sub_add_cancel h1] at this
    · intro hc i hi d hd
      exact hc i (d + 1) (by omega) (by omega) (by omega)
  · unfold View.isLoopless View.indices View.elements
    simp only [List.all_eq_true, List.mem_range, List.mem_map, forall_exists_index, and_imp,
      forall_apply_eq_imp_iff₂, bne_iff_ne, ne_eq]
    constructor
    · intro hc i d hi h1 h2
      have := hc i (by omega) (d - 1) (by omega)
      rwa [Nat.sub_add_cancel h1] at this
    · intro hc i hi d hd
      exact hc i (d + 1) (by omega) (by omega) (by omega)
  · unfold DSetData.isCompletePartial
    simp only [List.all_eq_true, List.mem_range, bne_iff_ne, ne_eq]
    constructor
    · intro hc i d hi h1 h2
      have := hc i (by omega) (d - 1) (by omega)
      rwa [Nat.sub_add_cancel h1] at this
    · intro hc i hi d hd
      exact hc i (d + 1) (by omega) (by omega) (by omega)

/-- on complete data the two plain representations answer `op` identically -/
theorem representations_agree_op (ds : DSetData) (h : ValidSet ds) :
    ds.opPartial = ds.opSimple ∧ ds.viewPartial = ds.viewSimple ∧
    ∀ s : DSymData, s.dset = ds → s.op = ds.opSimple :=
  ⟨h.opPartial_eq_opSimple, h.viewPartial_eq_viewSimple, fun _ hs => by rw [← hs]; rfl⟩

example : ValidSet ex2 := ex2_valid

/-- `is_weakly_oriented()` ⇔ the chamber graph without loops is bipartite (a proper 2-colouring
    of the non-loop edges exists); `is_oriented()` ⇔ loopless and bipartite.  The signs computed by
    `partial_orientation` along the full traversal are such a colouring whenever one exists. -/
theorem isWeaklyOriented_iff_bipartite (s : View) (h : s.PInvol) :
    (s.isWeaklyOriented = true ↔
      ∃ c : Nat → Bool, ∀ i d e, i ≤ s.dim → 1 ≤ d → d ≤ s.size → s.op i d = some e → e ≠ d → c e ≠ c d) ∧
    (s.isOriented = true ↔
      (∀ i d, i ≤ s.dim → 1 ≤ d → d ≤ s.size → s.op i d ≠ some d) ∧
      ∃ c : Nat → Bool, ∀ i d e, i ≤ s.dim → 1 ≤ d → d ≤ s.size → s.op i d = some e → e ≠ d → c e ≠ c d) := by
  have hw := isWeaklyOriented_iff h
  refine ⟨hw, ?_⟩
  unfold View.isOriented
  rw [Bool.and_eq_true, (isComplete_isLoopless_iff s default).2.1, hw]
  rfl

example : ex2.viewSimple.PInvol := ex2_valid.pinvol

/-- every entry of the `rs` table of `collect_orbits` is the number of some chamber's orbit -/
theorem collectOrbits_numbering_surjective (s : DSetData) (h : ValidSet s) (k : Nat)
    (hk : k < (collectOrbits s).rs.size) :
    ∃ i x, i < s.dim ∧ 1 ≤ x ∧ x ≤ s.size ∧ ((collectOrbits s).index.getD i #[]).getD x 0 = k :=
  collectOrbits_surj h hk

example : ValidSet ex2 ∧ 0 < (collectOrbits ex2).rs.size := ⟨ex2_valid, by decide⟩

/-! ### 9. conversions (`as_dset`, `as_dsym`, `as_partial_dsym` of derived.rs) -/

/-- The conversions, as the driver models them (`buildSet`, `buildSymUsingVs`, `asPartialDSym`),
    preserve every query, for all arguments (in range and out of range):
    * `as_dset` of a symbol / D-set with valid data returns the stored D-set itself, so `op`, the
      walking `r` and `m` of the copy are those of the source;
    * `as_partial_dsym` of a symbol with valid tables returns the symbol itself (`op/r/v/m` equal);
    * `as_dsym` of a complete D-set is a symbol over the same D-set (`op` equal for all arguments)
      with valid tables, all adjacent `v = 1`, whose table-based `r` is the source's walking `r` for
      equal and adjacent index pairs, and for every index pair when far operations commute.
    `1 ≤ size`, `1 ≤ dim` are the assertions of `PartialDSet::new`. -/
theorem conversions_preserve_queries (y : DSymData) (hy : ValidTables y) (hsz : 1 ≤ y.size) (hdim : 1 ≤ y.dim) :
    (buildSet y.size y.dim y.op = .ok y.dset ∧
     buildSet y.dset.size y.dset.dim y.dset.opPartial = .ok y.dset ∧
     buildSet y.dset.size y.dset.dim y.dset.opSimple = .ok y.dset) ∧
    asPartialDSym y = .ok y ∧
    ∃ z, buildSymUsingVs y.dset (fun _ _ => some 1) = .ok z ∧ z.dset = y.dset ∧ ValidTables z ∧
      (∀ i d, z.op i d = y.dset.opSimple i d) ∧
      (∀ i d, i < y.dim → 1 ≤ d → d ≤ y.size → z.vPartial i (i + 1) d = .ok (some 1)) ∧
      (∀ i j d, (j = i ∨ j = i + 1 ∨ i = j + 1 ∨ FarCommute y.dset) →
        z.rPartial i j d = y.dset.viewSimple.r i j d) := by
  have h := hy.set
  have ha := asDset_self y.dset h hsz hdim
  refine ⟨⟨ha.1, ha.2, ha.1⟩, asPartialDSym_self y hy hsz hdim, ?_⟩
  obtain ⟨z, hz, hzd, hT, hv⟩ := asDsym_spec y.dset h
  refine ⟨z, hz, hzd, hT, fun i d => by unfold DSymData.op; rw [hzd], hv, ?_⟩
  intro i j d hcase
  by_cases hin : i ≤ y.dim ∧ j ≤ y.dim ∧ 1 ≤ d ∧ d ≤ y.size
  · obtain ⟨hi, hj, h1, h2⟩ := hin
    have hzs : z.size = y.size := by unfold DSymData.size; rw [hzd]
    have hzm : z.dim = y.dim := by unfold DSymData.dim; rw [hzd]
    have hview : z.view = y.dset.viewSimple := by rw [z.view_eq, hzd]
    rw [← hview]
    by_cases hfar : FarCommute y.dset
    · have hS : ValidSym z := ⟨hT, by rw [hzd]; exact hfar⟩
      exact hS.rPartial_eq_generic (by rw [hzm]; exact hi) (by rw [hzm]; exact hj) h1 (by rw [hzs]; exact h2)
    · rcases hcase with rfl | rfl | rfl | hf
      · -- equal indices
        obtain ⟨k, _, hk, hr⟩ := r_generic_least h hj hj ⟨h1, h2⟩
        have h1p : IsLeastPeriod y.dset j j d 1 := by
          refine ⟨Nat.le_refl _, ?_, fun t a b => by omega⟩
          show y.dset.opU j (y.dset.opU j d) = d
          exact h.invol j d hj h1 h2
        rw [hview, hr, ← h1p.unique hk]
        exact z.rPartial_diag (by rw [hzm]; exact hj) h1 (by rw [hzs]; exact h2)
      · exact hT.rPartial_adj_eq_generic (by rw [hzm]; exact hj) h1 (by rw [hzs]; exact h2)
      · rw [z.rPartial_symm]
        have hi' : j < z.dim := by rw [hzm]; exact hi
        have hj0 : j ≤ y.dset.dim := hj
        obtain ⟨k, _, hk, hr⟩ := r_generic_least h (show j + 1 ≤ y.dset.dim from hi) hj0 ⟨h1, h2⟩
        rw [hview, hr, hT.rPartial_adj hi' h1 (by rw [hzs]; exact h2)]
        have hl := hT.rs_least hi' h1 (by rw [hzs]; exact h2)
        rw [hzd] at hl
        have := hl.inv h hj0 (show j + 1 ≤ y.dset.dim from hi) ⟨h1, h2⟩
        rw [this.unique hk]
      · exact absurd hf hfar
  · have hoor : i > y.dim ∨ j > y.dim ∨ d < 1 ∨ d > y.size := by omega
    have hoz : i > z.dim ∨ j > z.dim ∨ d < 1 ∨ d > z.size := by
      unfold DSymData.dim DSymData.size; rw [hzd]; exact hoor
    rw [z.rPartial_oor i j d hoz]
    exact (View.r_oor y.dset.viewSimple i j d hoor).symm

example : ValidTables (DSymData.ofSimple ex2) ∧ 1 ≤ (DSymData.ofSimple ex2).size ∧ 1 ≤ (DSymData.ofSimple ex2).dim :=
  ⟨ex2_validSym.toValidTables, by decide, by decide⟩

end DSymVerif.C02
