/-
Property C19 — minimum cuts separate source from sink and have minimum size.

Everything below is proved for ALL graphs (no size bound), about the import-free Spec
`DSymVerif.SpecC19` and the import-free model `DSymVerif.Cut` of src/util/cutsets.rs.

  weak duality            disjoint_paths_lower_bound(_undirected/_vertex)
  closed-set lemma        closed_set_separates
  shape of the answer     cut_is_leaving_edges
  separation (model)      model_edge_cut_separates, model_undirected_edge_cut_separates,
                          model_vertex_cut_separates, model_undirected_vertex_cut_separates
  the Spec's Booleans mean what they say
                          separates_sound, reach_exact, inside_clause_meaning
  certificates            certificate_edge, certificate_undirected, certificate_vertex
                          (hypotheses = the Booleans Driver/C19.lean evaluates on the
                          implementation's own output: per-input minimality of the
                          *implementation's* cut, independent of the model)
  loop invariant          flow_conservation: `path_edges` is a duplicate-free set of edges of
                          the graph without antiparallel pairs, conserved at every vertex
                          other than source and sink, nothing flows into the source
  fuel / totality         fuel_adequate (no entry point of the model ever returns `err`),
                          total_on_domain (`ok` whenever the source is an endpoint of an edge)
  max-flow = min-cut      max_flow_min_cut: |cut| = value of the final flow (= number of
                          augmentations) and no separating edge set is smaller
  minimality (model)      model_edge_cut_minimum, model_undirected_edge_cut_minimum,
                          model_vertex_cut_minimum, model_undirected_vertex_cut_minimum
  inside = reachable      inside_is_reachable(_undirected/_vertex/_undirected_vertex)
  hygiene                 no_duplicates, split_graph_correspondence
  capstones               min_edge_cut_correct, min_edge_cut_undirected_correct,
                          min_vertex_cut_correct, min_vertex_cut_undirected_correct:
                          on the whole domain of the property (DESIGN §5.7) the model returns
                          a cut with all five clauses of the property.
Nothing is left open on the Lean side; what remains trusted is the tie model ↔ Rust code
(differential, see conf/C19.json).
-/
import DSymVerif.Proofs.Cutsets
import DSymVerif.Proofs.CutsetsModel
import DSymVerif.Proofs.CutsetsFlowInside

namespace DSymVerif.C19
open DSymVerif.Cut DSymVerif.SpecC19 DSymVerif.CutP

/-! ### weak duality -/

/-- k pairwise edge-disjoint walks from `s` to `t` ⇒ every edge set that meets all walks
    from `s` to `t` (i.e. whose removal separates `t` from `s`) has at least k elements. -/
theorem disjoint_paths_lower_bound (G : List (Nat × Nat)) (s t : Nat) (ps : List (List Nat))
    (C : List (Nat × Nat))
    (hwalk : ∀ p ∈ ps, IsWalk G s t p)
    (hdisj : ps.Pairwise (fun p q => ∀ e ∈ walkEdges p, e ∉ walkEdges q))
    (hsep : ∀ p, IsWalk G s t p → ∃ e ∈ walkEdges p, e ∈ C) :
    ps.length ≤ C.length := by
  have := hitting_bound (ps.map walkEdges) C (List.pairwise_map.2 hdisj) (by
    intro P hP
    obtain ⟨p, hp, rfl⟩ := List.mem_map.1 hP
    exact hsep p (hwalk p hp))
  simpa using this

example : IsWalk [(0, 1), (1, 2), (0, 2)] 0 2 [0, 1, 2] ∧ IsWalk [(0, 1), (1, 2), (0, 2)] 0 2 [0, 2] ∧
    [[0, 1, 2], [0, 2]].Pairwise (fun p q => ∀ e ∈ walkEdges p, e ∉ walkEdges q) := by
  simp [IsWalk, walkEdges]
  omega

/-- undirected form: walks in the symmetric closure, no unordered edge used twice, the
    cut is a set of unordered edges (either orientation counts) -/
theorem disjoint_paths_lower_bound_undirected (G : List (Nat × Nat)) (s t : Nat)
    (ps : List (List Nat)) (C : List (Nat × Nat))
    (hwalk : ∀ p ∈ ps, IsWalk (sym G) s t p)
    (hdisj : ps.Pairwise (fun p q => ∀ e ∈ (walkEdges p).map norm, e ∉ (walkEdges q).map norm))
    (hsep : ∀ p, IsWalk (sym G) s t p → ∃ e ∈ walkEdges p, e ∈ C ∨ swap e ∈ C) :
    ps.length ≤ C.length := by
  have := hitting_bound (ps.map (fun p => (walkEdges p).map norm)) (C.map norm)
    (List.pairwise_map.2 hdisj) (by
    intro P hP
    obtain ⟨p, hp, rfl⟩ := List.mem_map.1 hP
    obtain ⟨e, he, hc⟩ := hsep p (hwalk p hp)
    refine ⟨norm e, List.mem_map_of_mem he, ?_⟩
    rcases hc with h | h
    · exact List.mem_map_of_mem h
    · rw [← norm_swap e]; exact List.mem_map_of_mem h)
  simpa using this

/-- vertex form: k internally vertex-disjoint walks from `s` to `t` ⇒ every vertex set
    avoiding `s`, `t` that meets all walks has at least k elements -/
theorem disjoint_paths_lower_bound_vertex (G : List (Nat × Nat)) (s t : Nat) (ps : List (List Nat))
    (C : List Nat)
    (hwalk : ∀ p ∈ ps, IsWalk G s t p)
    (hdisj : ps.Pairwise (fun p q => ∀ x ∈ internal p, x ∉ internal q))
    (hs : s ∉ C) (ht : t ∉ C)
    (hsep : ∀ p, IsWalk G s t p → ∃ x ∈ p, x ∈ C) :
    ps.length ≤ C.length := by
  have := hitting_bound (ps.map internal) C (List.pairwise_map.2 hdisj) (by
    intro P hP
    obtain ⟨p, hp, rfl⟩ := List.mem_map.1 hP
    have hw := hwalk p hp
    obtain ⟨x, hx, hc⟩ := hsep p hw
    exact ⟨x, mem_internal hw.1 hw.2.1 hx (fun h => hs (h ▸ hc)) (fun h => ht (h ▸ hc)), hc⟩)
  simpa using this

example : IsWalk [(0, 1), (1, 3), (0, 2), (2, 3)] 0 3 [0, 1, 3] ∧
    [[0, 1, 3], [0, 2, 3]].Pairwise (fun p q => ∀ x ∈ internal p, x ∉ internal q) := by
  simp [IsWalk, walkEdges, internal]

/-! ### the closed-set lemma and the shape of the code's answer -/

/-- If a vertex set contains `s`, not `t`, and `C` contains every edge leaving it, then
    every walk from `s` to `t` uses an edge of `C`. -/
theorem closed_set_separates (G C : List (Nat × Nat)) (S : List Nat) (s t : Nat)
    (hs : s ∈ S) (ht : t ∉ S)
    (hC : ∀ e ∈ G, e.1 ∈ S → e.2 ∉ S → e ∈ C)
    (p : List Nat) (hp : IsWalk G s t p) : ∃ e ∈ walkEdges p, e ∈ C :=
  CutP.closed_set_separates G C (· ∈ S) s t hs ht hC p hp

example : (0 : Nat) ∈ [0, 1] ∧ (2 : Nat) ∉ [0, 1] ∧
    ∀ e ∈ [((0 : Nat), (1 : Nat)), (1, 2)], e.1 ∈ [0, 1] → e.2 ∉ [0, 1] → e ∈ [((1 : Nat), (2 : Nat))] := by
  simp

/-- The model of `min_edge_cut` returns exactly the edges (of the de-duplicated, sorted edge
    set) that leave its final `seen` set; the source is in that set and the sink is not. -/
theorem cut_is_leaving_edges (input : List (Nat × Nat)) (s t : Nat) (r : EdgeCut)
    (h : minEdgeCut input s t = .ok r) (hst : s ≠ t) :
    r.cut = (edgeSet input).filter (fun e => r.inside.contains e.1 && !r.inside.contains e.2) ∧
      s ∈ r.inside ∧ t ∉ r.inside := by
  obtain ⟨h1, h2, h3⟩ := minEdgeCut_shape input s t r h
  exact ⟨h1, h2, h3 (Ne.symm hst)⟩

example : (minEdgeCut [(0, 1), (1, 2), (0, 2)] 0 2).isOk = true := by decide

/-! ### the model's cuts always separate -/

theorem model_edge_cut_separates (input : List (Nat × Nat)) (s t : Nat) (r : EdgeCut)
    (h : minEdgeCut input s t = .ok r) (hst : s ≠ t)
    (p : List Nat) (hp : IsWalk input s t p) : ∃ e ∈ walkEdges p, e ∈ r.cut :=
  minEdgeCut_separates input s t r h hst p hp

theorem model_undirected_edge_cut_separates (input : List (Nat × Nat)) (s t : Nat) (r : EdgeCut)
    (h : minEdgeCutUndirected input s t = .ok r) (hst : s ≠ t)
    (p : List Nat) (hp : IsWalk (sym input) s t p) : ∃ e ∈ walkEdges p, e ∈ r.cut :=
  minEdgeCutUndirected_separates input s t r h hst p hp

example : (minEdgeCutUndirected [(1, 0), (1, 2), (0, 2)] 0 2).isOk = true := by decide

/-- vertex splitting and the `v.min(w)` read-back: every walk from the source to the sink
    meets the returned vertex set at a vertex after its first one -/
theorem model_vertex_cut_separates (input : List (Nat × Nat)) (s t : Nat) (r : VertexCut)
    (h : minVertexCut input s t = .ok r) (hst : s ≠ t)
    (p : List Nat) (hp : IsWalk input s t p) : ∃ x ∈ p.tail, x ∈ r.cut :=
  minVertexCut_separates input s t r h hst p hp

theorem model_undirected_vertex_cut_separates (input : List (Nat × Nat)) (s t : Nat) (r : VertexCut)
    (h : minVertexCutUndirected input s t = .ok r) (hst : s ≠ t)
    (p : List Nat) (hp : IsWalk (sym input) s t p) : ∃ x ∈ p.tail, x ∈ r.cut :=
  minVertexCutUndirected_separates input s t r h hst p hp

example : (minVertexCut [(0, 1), (1, 3), (0, 2), (2, 3)] 0 3).isOk = true := by decide
example : (minVertexCutUndirected [(1, 0), (1, 3), (0, 2), (3, 2)] 0 3).isOk = true := by decide

/-! ### the Spec's Booleans mean what they say -/

/-- the three `separates…` verdicts are sound: a `true` means every walk is met by the cut -/
theorem separates_sound (G : List (Nat × Nat)) (s t : Nat) :
    (∀ cut, separatesE G cut s t = true →
        ∀ p, IsWalk G s t p → ∃ e ∈ walkEdges p, e ∈ cut) ∧
    (∀ cut, separatesU G cut s t = true →
        ∀ p, IsWalk (sym G) s t p → ∃ e ∈ walkEdges p, e ∈ cut ∨ swap e ∈ cut) ∧
    (∀ C, separatesV G C s t = true →
        ∀ p, IsWalk G s t p → ∃ e ∈ walkEdges p, e.1 ∈ C ∨ e.2 ∈ C) :=
  ⟨fun cut h p hp => separatesE_sound G cut s t h p hp,
   fun cut h p hp => separatesU_sound G cut s t h p hp,
   fun C h p hp => separatesV_sound G C s t h p hp⟩

example : separatesE [(0, 1), (1, 2)] [(1, 2)] 0 2 = true ∧
    separatesU [(1, 0), (1, 2)] [(0, 1)] 0 2 = true ∧
    separatesV [(0, 1), (1, 2)] [1] 0 2 = true := by decide

/-- the Spec's reachability oracle, when its closedness check passes, is exact -/
theorem reach_exact (G : List (Nat × Nat)) (s : Nat) (R : List Nat) (h : isReachSet G s R = true)
    (v : Nat) : v ∈ R ↔ ∃ p, IsWalk G s v p :=
  isReachSet_exact G s R h v

example : isReachSet [(0, 1), (1, 2), (3, 0)] 0 [2, 1, 0] = true := by decide

/-- meaning of the `inside-is-reachable-set` clause: inside ∪ {source} is exactly the set of
    vertices reachable from the source by a walk avoiding the cut -/
theorem inside_clause_meaning (G : List (Nat × Nat)) (s : Nat) (inside : List Nat) :
    (∀ cut, insideOkE G cut s inside = true →
        ∀ v, (v = s ∨ v ∈ inside) ↔ ∃ p, IsWalk (removeEdges G cut) s v p) ∧
    (∀ cut, insideOkU G cut s inside = true →
        ∀ v, (v = s ∨ v ∈ inside) ↔ ∃ p, IsWalk (removeEdgesU (sym G) cut) s v p) ∧
    (∀ C, insideOkV G C s inside = true →
        ∀ v, (v = s ∨ v ∈ inside) ↔ ∃ p, IsWalk (removeVertices G C) s v p) := by
  refine ⟨fun cut h v => ?_, fun cut h v => ?_, fun C h v => ?_⟩ <;>
    rw [← isReachSet_exact _ s (s :: inside) h v, List.mem_cons]

example : insideOkE [(0, 1), (1, 2)] [(1, 2)] 0 [0, 1] = true := by decide

/-! ### the certificate theorems — per-input minimality -/

/-- directed edge cut: the driver evaluates `validPathsE G s t paths` (paths decomposed from
    the model's final flow) and `separatesE G cut s t` (cut returned by the implementation)
    and `paths.length == cut.length`; this theorem turns the first two into
    "no separating edge set is smaller than `paths.length`", so `cut` is a minimum cut. -/
theorem certificate_edge (G : List (Nat × Nat)) (s t : Nat) (paths : List (List Nat))
    (hp : validPathsE G s t paths = true) :
    ∀ cut', separatesE G cut' s t = true → paths.length ≤ cut'.length :=
  fun cut' hc => CutP.certificate_edge G s t paths cut' hp hc

example : validPathsE [(0, 1), (1, 2), (0, 2)] 0 2 [[0, 1, 2], [0, 2]] = true ∧
    separatesE [(0, 1), (1, 2), (0, 2)] [(0, 1), (0, 2)] 0 2 = true := by decide

theorem certificate_undirected (G : List (Nat × Nat)) (s t : Nat) (paths : List (List Nat))
    (hp : validPathsU G s t paths = true) :
    ∀ cut', separatesU G cut' s t = true → paths.length ≤ cut'.length :=
  fun cut' hc => CutP.certificate_undirected G s t paths cut' hp hc

example : validPathsU [(1, 0), (1, 2), (2, 0)] 0 2 [[0, 1, 2], [0, 2]] = true ∧
    separatesU [(1, 0), (1, 2), (2, 0)] [(0, 1), (0, 2)] 0 2 = true := by decide

theorem certificate_vertex (G : List (Nat × Nat)) (s t : Nat) (paths : List (List Nat))
    (hp : validPathsV G s t paths = true) :
    ∀ C', separatesV G C' s t = true → C'.contains s = false → C'.contains t = false →
      paths.length ≤ C'.length :=
  fun C' hc hs ht => CutP.certificate_vertex G s t paths C' hp hc hs ht

example : validPathsV [(0, 1), (1, 3), (0, 2), (2, 3)] 0 3 [[0, 1, 3], [0, 2, 3]] = true ∧
    separatesV [(0, 1), (1, 3), (0, 2), (2, 3)] [1, 2] 0 3 = true := by decide

/-! ### the loop invariant: flow conservation -/

/-- The final `path_edges` of the model (and, by the same invariant, every intermediate one)
    is a flow: a duplicate-free set of edges of the graph, without antiparallel pairs,
    conserved at every vertex other than source and sink, with nothing flowing into the
    source. -/
theorem flow_conservation (input : List (Nat × Nat)) (s t : Nat) (r : EdgeCut)
    (h : minEdgeCut input s t = .ok r) (hst : s ≠ t) :
    r.flow.Nodup ∧ (∀ e ∈ r.flow, e ∈ input) ∧ (∀ a b, (a, b) ∈ r.flow → (b, a) ∉ r.flow) ∧
    (∀ x, x ≠ s → x ≠ t →
      r.flow.countP (fun e => e.1 == x) = r.flow.countP (fun e => e.2 == x)) ∧
    (∀ e ∈ r.flow, e.2 ≠ s) := by
  obtain ⟨k, hF, _, _⟩ := minEdgeCut_final input s t r h hst
  exact ⟨hF.sorted.nodup, fun e he => (mem_edgeSet e input).1 (hF.sub e he), hF.anti, hF.cons,
    hF.noin⟩

example : (minEdgeCut [(0, 1), (1, 2), (0, 2), (2, 1)] 0 2).isOk = true ∧ (0 : Nat) ≠ 2 := by decide

/-! ### fuel adequacy and totality -/

/-- The fuel of the model's loops (`|E|+2` augmentations, `|V|+2` BFS pops, `|back|+1` steps
    of the path read-back) never runs out: no entry point ever returns `err`. -/
theorem fuel_adequate (input : List (Nat × Nat)) (s t : Nat) :
    minEdgeCut input s t ≠ .err ∧ minEdgeCutUndirected input s t ≠ .err ∧
    minVertexCut input s t ≠ .err ∧ minVertexCutUndirected input s t ≠ .err :=
  ⟨(minEdgeCut_total input s t).1, (minEdgeCutUndirected_total input s t).1,
   minVertexCut_ne_err input s t, (minVertexCutUndirected_total input s t).1⟩

/-- The only panic is `neighbors[&source]` for a source that is in no edge: whenever the
    source is an endpoint of an edge, all four entry points return. -/
theorem total_on_domain (input : List (Nat × Nat)) (s t : Nat)
    (hs : ∃ e ∈ input, e.1 = s ∨ e.2 = s) :
    (∃ r, minEdgeCut input s t = .ok r) ∧ (∃ r, minEdgeCutUndirected input s t = .ok r) ∧
    (∃ r, minVertexCut input s t = .ok r) ∧ (∃ r, minVertexCutUndirected input s t = .ok r) :=
  ⟨(minEdgeCut_total input s t).2 hs, (minEdgeCutUndirected_total input s t).2 hs,
   minVertexCut_total input s t hs, (minVertexCutUndirected_total input s t).2 hs⟩

example : ∃ e ∈ [((0 : Nat), (1 : Nat)), (1, 2)], e.1 = 0 ∨ e.2 = 0 := ⟨(0, 1), by simp, Or.inl rfl⟩

/-! ### max-flow = min-cut, minimality of the model's cuts -/

/-- **Max-flow = min-cut for this augmenting scheme.**  At termination the number of cut edges
    equals the value of the flow (the number of flow edges leaving the source = the number of
    augmentations, each of which raises the value by one), and no edge set meeting all walks
    from the source to the sink is smaller. -/
theorem max_flow_min_cut (input : List (Nat × Nat)) (s t : Nat) (r : EdgeCut)
    (h : minEdgeCut input s t = .ok r) (hst : s ≠ t) :
    r.cut.length = r.flow.countP (fun e => e.1 == s) ∧
    ∀ C : List (Nat × Nat), (∀ p, IsWalk input s t p → ∃ e ∈ walkEdges p, e ∈ C) →
      r.cut.length ≤ C.length :=
  ⟨(minEdgeCut_minimum input s t r h hst r.cut
      (fun p hp => minEdgeCut_separates input s t r h hst p hp)).2,
   fun C hC => (minEdgeCut_minimum input s t r h hst C hC).1⟩

/-- the model's directed edge cut is a minimum cut -/
theorem model_edge_cut_minimum (input : List (Nat × Nat)) (s t : Nat) (r : EdgeCut)
    (h : minEdgeCut input s t = .ok r) (hst : s ≠ t) (C : List (Nat × Nat))
    (hC : ∀ p, IsWalk input s t p → ∃ e ∈ walkEdges p, e ∈ C) : r.cut.length ≤ C.length :=
  (minEdgeCut_minimum input s t r h hst C hC).1

/-- the model's undirected edge cut is a minimum cut (unordered edges: an element of `C`
    blocks both orientations) -/
theorem model_undirected_edge_cut_minimum (input : List (Nat × Nat)) (s t : Nat) (r : EdgeCut)
    (h : minEdgeCutUndirected input s t = .ok r) (hst : s ≠ t) (C : List (Nat × Nat))
    (hC : ∀ p, IsWalk (sym input) s t p → ∃ e ∈ walkEdges p, e ∈ C ∨ swap e ∈ C) :
    r.cut.length ≤ C.length :=
  minEdgeCutUndirected_minimum input s t r h hst C hC

/-- the model's vertex cut is a minimum vertex cut -/
theorem model_vertex_cut_minimum (input : List (Nat × Nat)) (s t : Nat) (r : VertexCut)
    (h : minVertexCut input s t = .ok r) (hst : s ≠ t)
    (ht : ∃ e ∈ input, e.1 = t ∨ e.2 = t) (C : List Nat) (hsC : s ∉ C) (htC : t ∉ C)
    (hC : ∀ p, IsWalk input s t p → ∃ x ∈ p, x ∈ C) : r.cut.length ≤ C.length :=
  minVertexCut_minimum input s t r h hst ht C hsC htC hC

theorem model_undirected_vertex_cut_minimum (input : List (Nat × Nat)) (s t : Nat)
    (r : VertexCut) (h : minVertexCutUndirected input s t = .ok r) (hst : s ≠ t)
    (ht : ∃ e ∈ input, e.1 = t ∨ e.2 = t) (C : List Nat) (hsC : s ∉ C) (htC : t ∉ C)
    (hC : ∀ p, IsWalk (sym input) s t p → ∃ x ∈ p, x ∈ C) : r.cut.length ≤ C.length :=
  minVertexCutUndirected_minimum input s t r h hst ht C hsC htC hC

example : (minVertexCut [(0, 1), (1, 3), (0, 2), (2, 3)] 0 3).isOk = true ∧ (0 : Nat) ≠ 3 ∧
    (∃ e ∈ [((0 : Nat), (1 : Nat)), (1, 3), (0, 2), (2, 3)], e.1 = 3 ∨ e.2 = 3) ∧
    (0 : Nat) ∉ [1, 2] ∧ (3 : Nat) ∉ [1, 2] :=
  ⟨by decide, by decide, ⟨(1, 3), by simp, Or.inr rfl⟩, by decide, by decide⟩

/-! ### inside = reachable -/

/-- the model's `inside` (which contains the source) is exactly the set of vertices reachable
    from the source by a walk that avoids the cut -/
theorem inside_is_reachable (input : List (Nat × Nat)) (s t : Nat) (r : EdgeCut)
    (h : minEdgeCut input s t = .ok r) (hst : s ≠ t) (v : Nat) :
    v ∈ r.inside ↔ ∃ p, IsWalk (removeEdges input r.cut) s v p :=
  minEdgeCut_inside_iff input s t r h hst v

theorem inside_is_reachable_undirected (input : List (Nat × Nat)) (s t : Nat) (r : EdgeCut)
    (h : minEdgeCutUndirected input s t = .ok r) (hst : s ≠ t) (v : Nat) :
    v ∈ r.inside ↔ ∃ p, IsWalk (removeEdgesU (sym input) r.cut) s v p :=
  minEdgeCutUndirected_inside_iff input s t r h hst v

theorem inside_is_reachable_vertex (input : List (Nat × Nat)) (s t : Nat) (r : VertexCut)
    (h : minVertexCut input s t = .ok r) (hst : s ≠ t)
    (ht : ∃ e ∈ input, e.1 = t ∨ e.2 = t) (hadj : (s, t) ∉ input) (v : Nat) :
    (v = s ∨ v ∈ r.inside) ↔ ∃ p, IsWalk (removeVertices input r.cut) s v p :=
  minVertexCut_inside_iff input s t r h hst ht hadj v

theorem inside_is_reachable_undirected_vertex (input : List (Nat × Nat)) (s t : Nat)
    (r : VertexCut) (h : minVertexCutUndirected input s t = .ok r) (hst : s ≠ t)
    (ht : ∃ e ∈ input, e.1 = t ∨ e.2 = t) (h1 : (s, t) ∉ input) (h2 : (t, s) ∉ input) (v : Nat) :
    (v = s ∨ v ∈ r.inside) ↔ ∃ p, IsWalk (removeVertices (sym input) r.cut) s v p :=
  minVertexCutUndirected_inside_iff input s t r h hst ht h1 h2 v

example : (minVertexCutUndirected [(1, 0), (1, 3), (0, 2), (3, 2)] 0 3).isOk = true ∧
    ((0 : Nat), (3 : Nat)) ∉ [((1 : Nat), (0 : Nat)), (1, 3), (0, 2), (3, 2)] ∧
    ((3 : Nat), (0 : Nat)) ∉ [((1 : Nat), (0 : Nat)), (1, 3), (0, 2), (3, 2)] := by decide

/-! ### no repeats; the split-graph correspondence -/

/-- none of the four cuts repeats an element (edge cuts: also not as `(v,w)` and `(w,v)`;
    every cut edge is an edge of the graph) -/
theorem no_duplicates (input : List (Nat × Nat)) (s t : Nat) :
    (∀ r, minEdgeCut input s t = .ok r → r.cut.Nodup ∧ ∀ e ∈ r.cut, e ∈ input) ∧
    (∀ r, minEdgeCutUndirected input s t = .ok r →
        r.cut.Nodup ∧ (∀ e ∈ r.cut, swap e ∉ r.cut) ∧ ∀ e ∈ r.cut, e ∈ sym input) ∧
    (∀ r, minVertexCut input s t = .ok r → s ≠ t → (∃ e ∈ input, e.1 = t ∨ e.2 = t) →
        (s, t) ∉ input → r.cut.Nodup) ∧
    (∀ r, minVertexCutUndirected input s t = .ok r → s ≠ t → (∃ e ∈ input, e.1 = t ∨ e.2 = t) →
        (s, t) ∉ input → (t, s) ∉ input → r.cut.Nodup) :=
  ⟨fun r h => minEdgeCut_nodup input s t r h,
   fun r h => minEdgeCutUndirected_nodup input s t r h,
   fun r h hst ht hadj => (minVertexCut_hygiene input s t r h hst ht hadj).1,
   fun r h hst ht h1 h2 => (minVertexCutUndirected_hygiene input s t r h hst ht h1 h2).1⟩

/-- **Vertex splitting is faithful.**  The minimum edge cut of the split graph reads back,
    through `v.min(w)`, as a vertex set of the same size (no repeats) that contains neither
    source nor sink and meets every walk from the source to the sink in an internal vertex. -/
theorem split_graph_correspondence (input : List (Nat × Nat)) (s t : Nat) (r : VertexCut)
    (h : minVertexCut input s t = .ok r) (hst : s ≠ t)
    (ht : ∃ e ∈ input, e.1 = t ∨ e.2 = t) (hadj : (s, t) ∉ input) :
    r.cut.Nodup ∧ s ∉ r.cut ∧ t ∉ r.cut ∧
    ∀ p, IsWalk input s t p → ∃ x ∈ internal p, x ∈ r.cut := by
  obtain ⟨h1, h2, h3⟩ := minVertexCut_hygiene input s t r h hst ht hadj
  refine ⟨h1, h2, h3, fun p hp => ?_⟩
  obtain ⟨x, hx, hxc⟩ := minVertexCut_separates input s t r h hst p hp
  exact ⟨x, mem_internal hp.1 hp.2.1 (List.mem_of_mem_tail hx) (fun hh => h2 (hh ▸ hxc))
    (fun hh => h3 (hh ▸ hxc)), hxc⟩

/-! ### capstones: the five clauses of the property, on its whole domain, for the model -/

/-- `min_edge_cut`: for every digraph and every pair of distinct vertices whose source is an
    endpoint of an edge (the sink need not occur in any edge), the model returns a cut that (1) disconnects, (2) is minimum, (3) has
    no repeats and consists of edges of the graph, (5) with `inside` = the reachable set. -/
theorem min_edge_cut_correct (input : List (Nat × Nat)) (s t : Nat) (hst : s ≠ t)
    (hs : ∃ e ∈ input, e.1 = s ∨ e.2 = s) :
    ∃ r, minEdgeCut input s t = .ok r ∧
      (∀ p, IsWalk input s t p → ∃ e ∈ walkEdges p, e ∈ r.cut) ∧
      (∀ C : List (Nat × Nat), (∀ p, IsWalk input s t p → ∃ e ∈ walkEdges p, e ∈ C) →
        r.cut.length ≤ C.length) ∧
      r.cut.Nodup ∧ (∀ e ∈ r.cut, e ∈ input) ∧
      (∀ v, v ∈ r.inside ↔ ∃ p, IsWalk (removeEdges input r.cut) s v p) := by
  obtain ⟨r, h⟩ := (minEdgeCut_total input s t).2 hs
  exact ⟨r, h, minEdgeCut_separates input s t r h hst,
    fun C hC => (minEdgeCut_minimum input s t r h hst C hC).1,
    (minEdgeCut_nodup input s t r h).1, (minEdgeCut_nodup input s t r h).2,
    minEdgeCut_inside_iff input s t r h hst⟩

/-- `min_edge_cut_undirected` (same domain: only the source has to occur in an edge) -/
theorem min_edge_cut_undirected_correct (input : List (Nat × Nat)) (s t : Nat) (hst : s ≠ t)
    (hs : ∃ e ∈ input, e.1 = s ∨ e.2 = s) :
    ∃ r, minEdgeCutUndirected input s t = .ok r ∧
      (∀ p, IsWalk (sym input) s t p → ∃ e ∈ walkEdges p, e ∈ r.cut) ∧
      (∀ C : List (Nat × Nat),
        (∀ p, IsWalk (sym input) s t p → ∃ e ∈ walkEdges p, e ∈ C ∨ swap e ∈ C) →
        r.cut.length ≤ C.length) ∧
      r.cut.Nodup ∧ (∀ e ∈ r.cut, swap e ∉ r.cut) ∧ (∀ e ∈ r.cut, e ∈ sym input) ∧
      (∀ v, v ∈ r.inside ↔ ∃ p, IsWalk (removeEdgesU (sym input) r.cut) s v p) := by
  obtain ⟨r, h⟩ := (minEdgeCutUndirected_total input s t).2 hs
  obtain ⟨n1, n2, n3⟩ := minEdgeCutUndirected_nodup input s t r h
  exact ⟨r, h, minEdgeCutUndirected_separates input s t r h hst,
    fun C hC => minEdgeCutUndirected_minimum input s t r h hst C hC, n1, n2, n3,
    minEdgeCutUndirected_inside_iff input s t r h hst⟩

/-- `min_vertex_cut`: source and sink distinct endpoints of edges, no edge source → sink -/
theorem min_vertex_cut_correct (input : List (Nat × Nat)) (s t : Nat) (hst : s ≠ t)
    (hs : ∃ e ∈ input, e.1 = s ∨ e.2 = s) (ht : ∃ e ∈ input, e.1 = t ∨ e.2 = t)
    (hadj : (s, t) ∉ input) :
    ∃ r, minVertexCut input s t = .ok r ∧
      (∀ p, IsWalk input s t p → ∃ x ∈ internal p, x ∈ r.cut) ∧
      (∀ C : List Nat, s ∉ C → t ∉ C → (∀ p, IsWalk input s t p → ∃ x ∈ p, x ∈ C) →
        r.cut.length ≤ C.length) ∧
      r.cut.Nodup ∧ s ∉ r.cut ∧ t ∉ r.cut ∧
      (∀ v, (v = s ∨ v ∈ r.inside) ↔ ∃ p, IsWalk (removeVertices input r.cut) s v p) := by
  obtain ⟨r, h⟩ := minVertexCut_total input s t hs
  obtain ⟨n1, n2, n3, n4⟩ := split_graph_correspondence input s t r h hst ht hadj
  exact ⟨r, h, n4, fun C hsC htC hC => minVertexCut_minimum input s t r h hst ht C hsC htC hC,
    n1, n2, n3, minVertexCut_inside_iff input s t r h hst ht hadj⟩

/-- `min_vertex_cut_undirected`: no edge between source and sink in either direction -/
theorem min_vertex_cut_undirected_correct (input : List (Nat × Nat)) (s t : Nat) (hst : s ≠ t)
    (hs : ∃ e ∈ input, e.1 = s ∨ e.2 = s) (ht : ∃ e ∈ input, e.1 = t ∨ e.2 = t)
    (h1 : (s, t) ∉ input) (h2 : (t, s) ∉ input) :
    ∃ r, minVertexCutUndirected input s t = .ok r ∧
      (∀ p, IsWalk (sym input) s t p → ∃ x ∈ internal p, x ∈ r.cut) ∧
      (∀ C : List Nat, s ∉ C → t ∉ C → (∀ p, IsWalk (sym input) s t p → ∃ x ∈ p, x ∈ C) →
        r.cut.length ≤ C.length) ∧
      r.cut.Nodup ∧ s ∉ r.cut ∧ t ∉ r.cut ∧
      (∀ v, (v = s ∨ v ∈ r.inside) ↔ ∃ p, IsWalk (removeVertices (sym input) r.cut) s v p) := by
  obtain ⟨r, h⟩ := (minVertexCutUndirected_total input s t).2 hs
  obtain ⟨n1, n2, n3⟩ := minVertexCutUndirected_hygiene input s t r h hst ht h1 h2
  refine ⟨r, h, ?_, fun C hsC htC hC => minVertexCutUndirected_minimum input s t r h hst ht C hsC htC hC,
    n1, n2, n3, minVertexCutUndirected_inside_iff input s t r h hst ht h1 h2⟩
  intro p hp
  obtain ⟨x, hx, hxc⟩ := minVertexCutUndirected_separates input s t r h hst p hp
  exact ⟨x, mem_internal hp.1 hp.2.1 (List.mem_of_mem_tail hx) (fun hh => n2 (hh ▸ hxc))
    (fun hh => n3 (hh ▸ hxc)), hxc⟩

example : (0 : Nat) ≠ 3 ∧
    (∃ e ∈ [((1 : Nat), (0 : Nat)), (1, 3), (0, 2), (3, 2)], e.1 = 0 ∨ e.2 = 0) ∧
    (∃ e ∈ [((1 : Nat), (0 : Nat)), (1, 3), (0, 2), (3, 2)], e.1 = 3 ∨ e.2 = 3) :=
  ⟨by decide, ⟨(1, 0), by simp, Or.inr rfl⟩, ⟨(1, 3), by simp, Or.inr rfl⟩⟩

end DSymVerif.C19
