/-
Property C19 — minimum cuts separate source from sink and have minimum size.

What is proved here, for ALL graphs (no size bound), about the import-free Spec
`DSymVerif.SpecC19` and the import-free model `DSymVerif.Cut` of src/util/cutsets.rs:

  weak duality            disjoint_paths_lower_bound(_undirected/_vertex)
  closed-set lemma        closed_set_separates
  shape of the answer     cut_is_leaving_edges
  separation (model)      model_edge_cut_separates, model_undirected_edge_cut_separates,
                          model_vertex_cut_separates, model_undirected_vertex_cut_separates
  the Spec's Booleans mean what they say
                          separates_sound, reach_exact, inside_clause_meaning
  certificates            certificate_edge, certificate_undirected, certificate_vertex:
                          `validPaths… = true → separates… = true → k ≤ |cut|` — the
                          hypotheses are literally the Booleans that Driver/C19.lean
                          evaluates on every explored input (paths decomposed from the
                          model's flow, cut returned by the implementation), so minimality
                          of the implementation's cut on that input is a theorem instance.
  partial (○)             inside_is_reachable_partial, no_duplicates_partial,
                          split_graph_correspondence_partial
Open (see conf/C19.json open_obligations): the flow-based halves of the three ○
statements, and the universally quantified max-flow/min-cut equality for this
augmenting scheme (|cut| = number of augmentations; loop fuel never runs out).
-/
import DSymVerif.Proofs.Cutsets
import DSymVerif.Proofs.CutsetsModel

namespace DSymVerif.C19
open DSymVerif.Cut DSymVerif.SpecC19 DSymVerif.CutP

/-! ### weak duality -/

/-- k pairwise edge-disjoint walks from `s` to `t` ⇒ every edge set that meets all walks
    from `s` to `t` (i.e. whose removal separates `t` from `s`) has at least k elements. -/
theorem disjoint_paths_lower_bound (G : List (Nat × Nat)) (s t : Nat) (ps : List (List Nat))
    (C : List (Nat × Nat))
    (hwalk : ∀ p ∈ ps, IsWalk G s t p)
    (hdisj : ps.Pairwise (fun p q => ∀ e ∈ walkEdges p, e ∉ walkEdges q))
    (hsep : ∀ p, IsWalk G s t p → ∃ e ∈ walkEdges p, e ∈ C) :
    ps.length ≤ C.length := by
  have := hitting_bound (ps.map walkEdges) C (List.pairwise_map.2 hdisj) (by
    intro P hP
    obtain ⟨p, hp, rfl⟩ := List.mem_map.1 hP
    exact hsep p (hwalk p hp))
  simpa using this

example : IsWalk [(0, 1), (1, 2), (0, 2)] 0 2 [0, 1, 2] ∧ IsWalk [(0, 1), (1, 2), (0, 2)] 0 2 [0, 2] ∧
    [[0, 1, 2], [0, 2]].Pairwise (fun p q => ∀ e ∈ walkEdges p, e ∉ walkEdges q) := by
  simp [IsWalk, walkEdges]
  omega

/-- undirected form: walks in the symmetric closure, no unordered edge used twice, the
    cut is a set of unordered edges (either orientation counts) -/
theorem disjoint_paths_lower_bound_undirected (G : List (Nat × Nat)) (s t : Nat)
    (ps : List (List Nat)) (C : List (Nat × Nat))
    (hwalk : ∀ p ∈ ps, IsWalk (sym G) s t p)
    (hdisj : ps.Pairwise (fun p q => ∀ e ∈ (walkEdges p).map norm, e ∉ (walkEdges q).map norm))
    (hsep : ∀ p, IsWalk (sym G) s t p → ∃ e ∈ walkEdges p, e ∈ C ∨ swap e ∈ C) :
    ps.length ≤ C.length := by
  have := hitting_bound (ps.map (fun p => (walkEdges p).map norm)) (C.map norm)
    (List.pairwise_map.2 hdisj) (by
    intro P hP
    obtain ⟨p, hp, rfl⟩ := List.mem_map.1 hP
    obtain ⟨e, he, hc⟩ := hsep p (hwalk p hp)
    refine ⟨norm e, List.mem_map_of_mem he, ?_⟩
    rcases hc with h | h
    · exact List.mem_map_of_mem h
    · rw [← norm_swap e]; exact List.mem_map_of_mem h)
  simpa using this

/-- vertex form: k internally vertex-disjoint walks from `s` to `t` ⇒ every vertex set
    avoiding `s`, `t` that meets all walks has at least k elements -/
theorem disjoint_paths_lower_bound_vertex (G : List (Nat × Nat)) (s t : Nat) (ps : List (List Nat))
    (C : List Nat)
    (hwalk : ∀ p ∈ ps, IsWalk G s t p)
    (hdisj : ps.Pairwise (fun p q => ∀ x ∈ internal p, x ∉ internal q))
    (hs : s ∉ C) (ht : t ∉ C)
    (hsep : ∀ p, IsWalk G s t p → ∃ x ∈ p, x ∈ C) :
    ps.length ≤ C.length := by
  have := hitting_bound (ps.map internal) C (List.pairwise_map.2 hdisj) (by
    intro P hP
    obtain ⟨p, hp, rfl⟩ := List.mem_map.1 hP
    have hw := hwalk p hp
    obtain ⟨x, hx, hc⟩ := hsep p hw
    exact ⟨x, mem_internal hw.1 hw.2.1 hx (fun h => hs (h ▸ hc)) (fun h => ht (h ▸ hc)), hc⟩)
  simpa using this

example : IsWalk [(0, 1), (1, 3), (0, 2), (2, 3)] 0 3 [0, 1, 3] ∧
    [[0, 1, 3], [0, 2, 3]].Pairwise (fun p q => ∀ x ∈ internal p, x ∉ internal q) := by
  simp [IsWalk, walkEdges, internal]

/-! ### the closed-set lemma and the shape of the code's answer -/

/-- If a vertex set contains `s`, not `t`, and `C` contains every edge leaving it, then
    every walk from `s` to `t` uses an edge of `C`. -/
theorem closed_set_separates (G C : List (Nat × Nat)) (S : List Nat) (s t : Nat)
    (hs : s ∈ S) (ht : t ∉ S)
    (hC : ∀ e ∈ G, e.1 ∈ S → e.2 ∉ S → e ∈ C)
    (p : List Nat) (hp : IsWalk G s t p) : ∃ e ∈ walkEdges p, e ∈ C :=
  CutP.closed_set_separates G C (· ∈ S) s t hs ht hC p hp

example : (0 : Nat) ∈ [0, 1] ∧ (2 : Nat) ∉ [0, 1] ∧
    ∀ e ∈ [((0 : Nat), (1 : Nat)), (1, 2)], e.1 ∈ [0, 1] → e.2 ∉ [0, 1] → e ∈ [((1 : Nat), (2 : Nat))] := by
  simp

/-- The model of `min_edge_cut` returns exactly the edges (of the de-duplicated, sorted edge
    set) that leave its final `seen` set; the source is in that set and the sink is not. -/
theorem cut_is_leaving_edges (input : List (Nat × Nat)) (s t : Nat) (r : EdgeCut)
    (h : minEdgeCut input s t = .ok r) (hst : s ≠ t) :
    r.cut = (edgeSet input).filter (fun e => r.inside.contains e.1 && !r.inside.contains e.2) ∧
      s ∈ r.inside ∧ t ∉ r.inside := by
  obtain ⟨h1, h2, h3⟩ := minEdgeCut_shape input s t r h
  exact ⟨h1, h2, h3 (Ne.symm hst)⟩

example : (minEdgeCut [(0, 1), (1, 2), (0, 2)] 0 2).isOk = true := by decide

/-! ### the model's cuts always separate -/

theorem model_edge_cut_separates (input : List (Nat × Nat)) (s t : Nat) (r : EdgeCut)
    (h : minEdgeCut input s t = .ok r) (hst : s ≠ t)
    (p : List Nat) (hp : IsWalk input s t p) : ∃ e ∈ walkEdges p, e ∈ r.cut :=
  minEdgeCut_separates input s t r h hst p hp

theorem model_undirected_edge_cut_separates (input : List (Nat × Nat)) (s t : Nat) (r : EdgeCut)
    (h : minEdgeCutUndirected input s t = .ok r) (hst : s ≠ t)
    (p : List Nat) (hp : IsWalk (sym input) s t p) : ∃ e ∈ walkEdges p, e ∈ r.cut :=
  minEdgeCutUndirected_separates input s t r h hst p hp

example : (minEdgeCutUndirected [(1, 0), (1, 2), (0, 2)] 0 2).isOk = true := by decide

/-- vertex splitting and the `v.min(w)` read-back: every walk from the source to the sink
    meets the returned vertex set at a vertex after its first one -/
theorem model_vertex_cut_separates (input : List (Nat × Nat)) (s t : Nat) (r : VertexCut)
    (h : minVertexCut input s t = .ok r) (hst : s ≠ t)
    (p : List Nat) (hp : IsWalk input s t p) : ∃ x ∈ p.tail, x ∈ r.cut :=
  minVertexCut_separates input s t r h hst p hp

theorem model_undirected_vertex_cut_separates (input : List (Nat × Nat)) (s t : Nat) (r : VertexCut)
    (h : minVertexCutUndirected input s t = .ok r) (hst : s ≠ t)
    (p : List Nat) (hp : IsWalk (sym input) s t p) : ∃ x ∈ p.tail, x ∈ r.cut :=
  minVertexCutUndirected_separates input s t r h hst p hp

example : (minVertexCut [(0, 1), (1, 3), (0, 2), (2, 3)] 0 3).isOk = true := by decide
example : (minVertexCutUndirected [(1, 0), (1, 3), (0, 2), (3, 2)] 0 3).isOk = true := by decide

/-! ### the Spec's Booleans mean what they say -/

/-- the three `separates…` verdicts are sound: a `true` means every walk is met by the cut -/
theorem separates_sound (G : List (Nat × Nat)) (s t : Nat) :
    (∀ cut, separatesE G cut s t = true →
        ∀ p, IsWalk G s t p → ∃ e ∈ walkEdges p, e ∈ cut) ∧
    (∀ cut, separatesU G cut s t = true →
        ∀ p, IsWalk (sym G) s t p → ∃ e ∈ walkEdges p, e ∈ cut ∨ swap e ∈ cut) ∧
    (∀ C, separatesV G C s t = true →
        ∀ p, IsWalk G s t p → ∃ e ∈ walkEdges p, e.1 ∈ C ∨ e.2 ∈ C) :=
  ⟨fun cut h p hp => separatesE_sound G cut s t h p hp,
   fun cut h p hp => separatesU_sound G cut s t h p hp,
   fun C h p hp => separatesV_sound G C s t h p hp⟩

example : separatesE [(0, 1), (1, 2)] [(1, 2)] 0 2 = true ∧
    separatesU [(1, 0), (1, 2)] [(0, 1)] 0 2 = true ∧
    separatesV [(0, 1), (1, 2)] [1] 0 2 = true := by decide

/-- the Spec's reachability oracle, when its closedness check passes, is exact -/
theorem reach_exact (G : List (Nat × Nat)) (s : Nat) (R : List Nat) (h : isReachSet G s R = true)
    (v : Nat) : v ∈ R ↔ ∃ p, IsWalk G s v p :=
  isReachSet_exact G s R h v

example : isReachSet [(0, 1), (1, 2), (3, 0)] 0 [2, 1, 0] = true := by decide

/-- meaning of the `inside-is-reachable-set` clause: inside ∪ {source} is exactly the set of
    vertices reachable from the source by a walk avoiding the cut -/
theorem inside_clause_meaning (G : List (Nat × Nat)) (s : Nat) (inside : List Nat) :
    (∀ cut, insideOkE G cut s inside = true →
        ∀ v, (v = s ∨ v ∈ inside) ↔ ∃ p, IsWalk (removeEdges G cut) s v p) ∧
    (∀ cut, insideOkU G cut s inside = true →
        ∀ v, (v = s ∨ v ∈ inside) ↔ ∃ p, IsWalk (removeEdgesU (sym G) cut) s v p) ∧
    (∀ C, insideOkV G C s inside = true →
        ∀ v, (v = s ∨ v ∈ inside) ↔ ∃ p, IsWalk (removeVertices G C) s v p) := by
  refine ⟨fun cut h v => ?_, fun cut h v => ?_, fun C h v => ?_⟩ <;>
    rw [← isReachSet_exact _ s (s :: inside) h v, List.mem_cons]

example : insideOkE [(0, 1), (1, 2)] [(1, 2)] 0 [0, 1] = true := by decide

/-! ### the certificate theorems — per-input minimality -/

/-- directed edge cut: the driver evaluates `validPathsE G s t paths` (paths decomposed from
    the model's final flow) and `separatesE G cut s t` (cut returned by the implementation)
    and `paths.length == cut.length`; this theorem turns the first two into
    "no separating edge set is smaller than `paths.length`", so `cut` is a minimum cut. -/
theorem certificate_edge (G : List (Nat × Nat)) (s t : Nat) (paths : List (List Nat))
    (hp : validPathsE G s t paths = true) :
    ∀ cut', separatesE G cut' s t = true → paths.length ≤ cut'.length :=
  fun cut' hc => CutP.certificate_edge G s t paths cut' hp hc

example : validPathsE [(0, 1), (1, 2), (0, 2)] 0 2 [[0, 1, 2], [0, 2]] = true ∧
    separatesE [(0, 1), (1, 2), (0, 2)] [(0, 1), (0, 2)] 0 2 = true := by decide

theorem certificate_undirected (G : List (Nat × Nat)) (s t : Nat) (paths : List (List Nat))
    (hp : validPathsU G s t paths = true) :
    ∀ cut', separatesU G cut' s t = true → paths.length ≤ cut'.length :=
  fun cut' hc => CutP.certificate_undirected G s t paths cut' hp hc

example : validPathsU [(1, 0), (1, 2), (2, 0)] 0 2 [[0, 1, 2], [0, 2]] = true ∧
    separatesU [(1, 0), (1, 2), (2, 0)] [(0, 1), (0, 2)] 0 2 = true := by decide

theorem certificate_vertex (G : List (Nat × Nat)) (s t : Nat) (paths : List (List Nat))
    (hp : validPathsV G s t paths = true) :
    ∀ C', separatesV G C' s t = true → C'.contains s = false → C'.contains t = false →
      paths.length ≤ C'.length :=
  fun C' hc hs ht => CutP.certificate_vertex G s t paths C' hp hc hs ht

example : validPathsV [(0, 1), (1, 3), (0, 2), (2, 3)] 0 3 [[0, 1, 3], [0, 2, 3]] = true ∧
    separatesV [(0, 1), (1, 3), (0, 2), (2, 3)] [1, 2] 0 3 = true := by decide

/-! ### partial results on the ○ statements -/

/-- full statement: `inside` of the model = vertices reachable from the source once the cut is
    removed.  Proved: ⊇ (`inside` is closed under the remaining edges).  Missing: ⊆ — every
    vertex the residual BFS reaches through a *reversed* flow edge is also reachable forwards;
    needs flow conservation of `path_edges` as a loop invariant. -/
def inside_is_reachable_statement : Prop :=
  ∀ (input : List (Nat × Nat)) (s t : Nat) (r : EdgeCut), minEdgeCut input s t = .ok r → s ≠ t →
    ∀ v, v ∈ r.inside ↔ ∃ p, IsWalk (removeEdges input r.cut) s v p

theorem inside_is_reachable_partial (input : List (Nat × Nat)) (s t : Nat) (r : EdgeCut)
    (h : minEdgeCut input s t = .ok r) :
    (∀ e ∈ input, e ∉ r.cut → e.1 ∈ r.inside → e.2 ∈ r.inside) ∧
    (∀ v, (∃ p, IsWalk (removeEdges input r.cut) s v p) → v ∈ r.inside) :=
  ⟨fun e he hc h1 => minEdgeCut_inside_closed input s t r h e he hc h1,
   fun v ⟨p, hp⟩ => minEdgeCut_inside_contains_reachable input s t r h v p hp⟩

/-- full statement: none of the four cuts repeats an element.  Proved: both edge cuts (also
    no unordered edge in both orientations), and every cut edge is an edge of the graph.
    Missing: vertex cuts (two split-graph cut edges `(s+off, w)`, `(w, w+off)` or
    `(v+off, w)`, `(v'+off, w)` would read back to the same `w`; excluding them needs the
    flow invariants). -/
def no_duplicates_statement : Prop :=
  (∀ (input : List (Nat × Nat)) (s t : Nat) (r : EdgeCut), minEdgeCut input s t = .ok r → r.cut.Nodup) ∧
  (∀ (input : List (Nat × Nat)) (s t : Nat) (r : EdgeCut), minEdgeCutUndirected input s t = .ok r →
      (r.cut.map norm).Nodup) ∧
  (∀ (input : List (Nat × Nat)) (s t : Nat) (r : VertexCut), minVertexCut input s t = .ok r →
      (s, t) ∉ input → r.cut.Nodup) ∧
  (∀ (input : List (Nat × Nat)) (s t : Nat) (r : VertexCut), minVertexCutUndirected input s t = .ok r →
      (s, t) ∉ input → (t, s) ∉ input → r.cut.Nodup)

theorem no_duplicates_partial :
    (∀ (input : List (Nat × Nat)) (s t : Nat) (r : EdgeCut), minEdgeCut input s t = .ok r →
        r.cut.Nodup ∧ ∀ e ∈ r.cut, e ∈ input) ∧
    (∀ (input : List (Nat × Nat)) (s t : Nat) (r : EdgeCut), minEdgeCutUndirected input s t = .ok r →
        r.cut.Nodup ∧ (∀ e ∈ r.cut, swap e ∉ r.cut) ∧ ∀ e ∈ r.cut, e ∈ sym input) :=
  ⟨fun input s t r h => minEdgeCut_nodup input s t r h,
   fun input s t r h => minEdgeCutUndirected_nodup input s t r h⟩

/-- full statement: a minimum edge cut of the split graph reads back, through `v.min(w)`, as a
    vertex cut *of the same size avoiding source and sink*.  Proved: it reads back as a
    separating vertex set (`model_vertex_cut_separates`, restated here for a non-adjacent
    pair in the Spec's own terms).  Missing: size preservation (= no repeats) and
    `s, t ∉ cut`, both flow-based. -/
def split_graph_correspondence_statement : Prop :=
  ∀ (input : List (Nat × Nat)) (s t : Nat) (r : VertexCut), minVertexCut input s t = .ok r →
    s ≠ t → (s, t) ∉ input →
    r.cut.Nodup ∧ s ∉ r.cut ∧ t ∉ r.cut ∧
    ∀ p, IsWalk input s t p → ∃ x ∈ internal p, x ∈ r.cut

theorem split_graph_correspondence_partial (input : List (Nat × Nat)) (s t : Nat) (r : VertexCut)
    (h : minVertexCut input s t = .ok r) (hst : s ≠ t) :
    ∀ p, IsWalk input s t p → ∃ x ∈ p.tail, x ∈ r.cut :=
  fun p hp => minVertexCut_separates input s t r h hst p hp

end DSymVerif.C19
