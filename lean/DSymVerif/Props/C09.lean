/-
Property C09 — the fundamental-group presentation presents the orbifold fundamental group.

  "For every connected complete D-symbol the returned presentation defines the same group as
   the textbook presentation with one generator per chamber facet, tree facets trivial, and one
   relator per 2-orbit raised to its branching number: the two have equal abelianisations, equal
   numbers of conjugacy classes of subgroups of each small index, and, when finite, equal order
   (4/curvature for spherical 2D symbols).  Every generator is carried by exactly one facet
   pair, the words attached to the two sides of a non-mirror facet are mutually inverse, the
   cone list consists exactly of the words traced around the branched 2-orbits, each with that
   orbit's branching number, and all returned words are freely reduced."

Property theorems only.  They speak about the executable model `DSymVerif.FG.*`
(Model/FundGroup.lean, tied to fundamental_group.rs by the differential check: the whole
`FundamentalGroup` value is compared on every explored symbol) for ALL symbols — no bound on
size or dimension.  The isomorphism of the presented group with the textbook presentation is
proved for the model (`presents_orbifold_group`, section 9) and, independently, decided by the Spec
(Spec/C09.lean) through presentation invariants on the implementation's outputs.

Vocabulary (Proofs/FundGroup*.lean, namespace `DSymVerif.FGP`):
  `Invol ds`    every operation of the symbol is an involution where defined
  `involB ds`   the same as a Boolean over the finitely many facets
  `FWP.Sorted`  strictly ascending in `FreeWord`'s order (`FW.cmp · · = .lt`)
  `FWP.den`     the element of `FreeGroup ℕ` denoted by a letter list
-/
import Mathlib.GroupTheory.PresentedGroup
import DSymVerif.Proofs.FundGroupRel
import DSymVerif.Proofs.FundGroupPair
import DSymVerif.Proofs.FundGroupPres
import DSymVerif.Proofs.FundGroupIso
import DSymVerif.Proofs.FundGroupTree
import DSymVerif.Proofs.FundGroupLetters
import DSymVerif.Proofs.FundGroupSpecMain
import DSymVerif.Proofs.FundGroupSpecGlue
import DSymVerif.Proofs.FundGroupInnerFaces
import DSymVerif.Proofs.FundGroupWalkWords
import DSymVerif.Proofs.CoversMonitors
import DSymVerif.Spec.C09

namespace DSymVerif.C09
open DSymVerif DSymVerif.DS DSymVerif.FG DSymVerif.FGP DSymVerif.FWP

/-- the symbol `<1.1:2:2,2,2:4,3>` (pinned by `test_fundamental_group_b`) as built by the library -/
def symB : DSymData :=
  { dset := { size := 2, dim := 2, op := #[2, 2, 2, 1, 1, 1] },
    orbitIndex := #[#[0, 0, 0], #[0, 1, 1]], orbitRs := #[1, 1], orbitVs := #[4, 3] }

/-- … and the value the test suite pins for it -/
def fgB : FundGroup :=
  { relators := [[1, 1, 1, 1], [1, -2, 1, -2, 1, -2], [2, 2]],
    cones := [([1], 4), ([1, -2], 3), ([2], 2)],
    genToEdge := [(1, 1, 1), (2, 1, 2)],
    edgeToWord := [((1, 1), [1]), ((1, 2), [2]), ((2, 1), [-1]), ((2, 2), [-2])] }

/-! ## 1. all returned words are freely reduced (✔) -/

/-- every relator, every cone word and every edge word of the returned value is freely reduced,
    for every symbol (valid or not) on which `fundamental_group` returns -/
theorem fg_words_reduced (ds : DSymData) (f : FundGroup) (h : fundamentalGroup ds = .ok f) :
    (∀ w ∈ f.relators, SpecC10.isReduced w = true) ∧
    (∀ c ∈ f.cones, SpecC10.isReduced c.1 = true) ∧
    (∀ e ∈ f.edgeToWord, SpecC10.isReduced e.2 = true) :=
  fundamentalGroup_reduced ds f h

/-- non-vacuity: the model returns the pinned value on the pinned symbol -/
example : fundamentalGroup symB = .ok fgB := by decide +kernel

/-- words read by `trace_word` (missing entries are the empty word) are reduced as well -/
theorem fg_lookup_reduced (ds : DSymData) (f : FundGroup) (h : fundamentalGroup ds = .ok f)
    (k : Edge) : SpecC10.isReduced (e2wGet f.edgeToWord k) = true := by
  have hr := (fundamentalGroup_reduced ds f h).2.2
  unfold e2wGet
  cases hk : e2wGet? f.edgeToWord k with
  | none => rfl
  | some w =>
    have : ∀ (m : E2W), (∀ e ∈ m, SpecC10.isReduced e.2 = true) → e2wGet? m k = some w →
        SpecC10.isReduced w = true := by
      intro m
      induction m with
      | nil => intro _ h; simp [e2wGet?] at h
      | cons p rest ih =>
        intro hm h
        unfold e2wGet? at h
        split at h
        · injection h with h; rw [← h]; exact hm p List.mem_cons_self
        · exact ih (fun e he => hm e (List.mem_cons_of_mem _ he)) h
    exact this _ hr hk

example : fundamentalGroup symB = .ok fgB := by decide +kernel

/-! ## 2. the two sides of a non-mirror facet carry mutually inverse words (○, proved) -/

/-- for a symbol whose operations are involutions: if `s_i d = d' ≠ d` then the word on facet
    `(d,i)` is the inverse of the word on facet `(d',i)` (missing entries = empty word) -/
theorem edge_words_inverse (ds : DSymData) (hI : Invol ds) (f : FundGroup)
    (h : fundamentalGroup ds = .ok f) (i d di : Nat) (hop : ds.op i d = some di) (hne : di ≠ d) :
    e2wGet f.edgeToWord (d, i) = FW.inverse (e2wGet f.edgeToWord (di, i)) :=
  findGenerators_pairInv hI _ _ (fundamentalGroup_e2w h) i d di hop hne

/-- the hypothesis in decidable form -/
theorem invol_of_bool (ds : DSymData) (h : involB ds = true) : Invol ds := invol_of_involB h

example : involB symB = true := by decide +kernel

/-- non-vacuity: `symB` has involutive operations, the model returns, chamber 1 and 2 are
    joined by a non-mirror 1-facet -/
example : Invol symB ∧ fundamentalGroup symB = .ok fgB ∧ symB.op 1 1 = some 2 ∧ 2 ≠ 1 :=
  ⟨invol_of_involB (by decide +kernel), by decide +kernel, by decide +kernel, by decide⟩

/-- in group terms: the two words denote mutually inverse elements of the free group -/
theorem edge_words_inverse_den (ds : DSymData) (hI : Invol ds) (f : FundGroup)
    (h : fundamentalGroup ds = .ok f) (i d di : Nat) (hop : ds.op i d = some di) (hne : di ≠ d) :
    den (e2wGet f.edgeToWord (d, i)) = (den (e2wGet f.edgeToWord (di, i)))⁻¹ := by
  rw [edge_words_inverse ds hI f h i d di hop hne, den_inverse]

example : Invol symB ∧ fundamentalGroup symB = .ok fgB ∧ symB.op 1 1 = some 2 ∧ 2 ≠ 1 :=
  ⟨invol_of_involB (by decide +kernel), by decide +kernel, by decide +kernel, by decide⟩

/-! ## 3. gen_to_edge: generators 1..n, each on its own facet (○, proved) -/

/-- the keys of `gen_to_edge` are exactly 1, 2, …, n in order (every generator appears exactly
    once) and no two generators sit on the same facet -/
theorem gen_to_edge_injective (ds : DSymData) (f : FundGroup) (h : fundamentalGroup ds = .ok f) :
    f.genToEdge.map Prod.fst = List.range' 1 f.nrGenerators ∧
    (f.genToEdge.map Prod.snd).Nodup := by
  have := findGenerators_genInv ds _ _ (fundamentalGroup_e2w h)
  exact ⟨this.1, this.2.1⟩

example : fundamentalGroup symB = .ok fgB := by decide +kernel

/-! ## 4. `relators` comes out of a `BTreeSet`: strictly ascending, hence without repetition -/

theorem relators_sorted (ds : DSymData) (f : FundGroup) (h : fundamentalGroup ds = .ok f) :
    Sorted f.relators :=
  fundamentalGroup_sorted ds f h

example : fundamentalGroup symB = .ok fgB := by decide +kernel

/-! ## 5. relators and cones are exactly the words traced around the 2-orbits -/

/-- `Traced ds e2w i j d word degree` (Proofs/FundGroupRel.lean): `word` is what `trace_word` reads
    around the `(i,j)`-orbit of `d` with the edge words `e2w`, and `degree = v_ij(d)`.

    A word is a returned relator iff it is the relator representative of the non-trivial
    `word ^ v` of some 2-orbit `(i, j, d)`, `i ≤ j ≤ dim`, `d` reported by `orbit_reps_2d(i, j)`
    (for `i = j` these are the facet-pair words, in particular `g²` for mirrors). -/
theorem relators_are_traced_words (ds : DSymData) (f : FundGroup)
    (h : fundamentalGroup ds = .ok f) (w : List Int) :
    w ∈ f.relators ↔
      ∃ i j d word degree, i ≤ j ∧ j ≤ ds.dim ∧ d ∈ ds.view.orbitReps2d i j ∧
        Traced ds f.edgeToWord i j d word degree ∧
        FW.raisedTo word (degree : Int) ≠ [] ∧
        w = FW.relatorRepresentative (FW.raisedTo word (degree : Int)) := by
  rw [(fundamentalGroup_holds ds f h).1 w]
  constructor
  · rintro ⟨o, ho, word, degree, ht, hne, hw⟩
    obtain ⟨hp, hd⟩ := mem_orbitList.1 ho
    obtain ⟨hij, hj⟩ := mem_indexPairs.1 hp
    exact ⟨o.1, o.2.1, o.2.2, word, degree, hij, hj, hd, ht, hne, hw⟩
  · rintro ⟨i, j, d, word, degree, hij, hj, hd, ht, hne, hw⟩
    exact ⟨(i, j, d), mem_orbitList.2 ⟨mem_indexPairs.2 ⟨hij, hj⟩, hd⟩, word, degree, ht, hne, hw⟩

example : fundamentalGroup symB = .ok fgB := by decide +kernel

/-- a pair is in the returned cone set iff it is (relator representative of the traced word,
    branching number) of a 2-orbit with branching number > 1 -/
theorem cones_are_traced_words (ds : DSymData) (f : FundGroup)
    (h : fundamentalGroup ds = .ok f) (c : List Int × Nat) :
    c ∈ f.cones ↔
      ∃ i j d word degree, i ≤ j ∧ j ≤ ds.dim ∧ d ∈ ds.view.orbitReps2d i j ∧
        Traced ds f.edgeToWord i j d word degree ∧ degree > 1 ∧
        c = (FW.relatorRepresentative word, degree) := by
  rw [(fundamentalGroup_holds ds f h).2 c]
  constructor
  · rintro ⟨o, ho, word, degree, ht, hd1, hw⟩
    obtain ⟨hp, hd⟩ := mem_orbitList.1 ho
    obtain ⟨hij, hj⟩ := mem_indexPairs.1 hp
    exact ⟨o.1, o.2.1, o.2.2, word, degree, hij, hj, hd, ht, hd1, hw⟩
  · rintro ⟨i, j, d, word, degree, hij, hj, hd, ht, hd1, hw⟩
    exact ⟨(i, j, d), mem_orbitList.2 ⟨mem_indexPairs.2 ⟨hij, hj⟩, hd⟩, word, degree, ht, hd1, hw⟩

example : fundamentalGroup symB = .ok fgB := by decide +kernel

/-! ## 5a. … stated without the model's `trace_word` and `orbit_reps_2d` -/

/-- the whole hypothesis bundle of sections 5a–11 on a BRANCHED symbol: `symB = <1.1:2:2,2,2:4,3>`
    is a valid connected symbol of dimension 2 with `v_01 = 4`, `v_12 = 3`, the model returns `fgB`
    on it, and the cone list of `fgB` is not empty -/
theorem symB_hyps : ValidSym symB ∧ 1 ≤ symB.dim ∧ 1 ≤ symB.size ∧ symB.view.isConnected = true ∧
    fundamentalGroup symB = .ok fgB ∧ fgB.cones ≠ [] ∧
    symB.vPartial 0 1 1 = .ok (some 4) ∧ symB.vPartial 1 2 1 = .ok (some 3) :=
  ⟨Covers.validSymB_sound (by decide +kernel), by decide, by decide, by decide +kernel,
    by decide +kernel, by decide, by decide +kernel, by decide +kernel⟩

/-- **the cone list, independently of `trace_word` / `orbit_reps_2d`.**  For every valid symbol on
    which the model returns `f` there is, for all `i ≤ j ≤ dim`, a list `reps i j` of chambers meeting
    every `(i,j)`-orbit exactly once (`D2.RepsOK`: in range, pairwise in different orbits `Orb2`,
    every chamber in the orbit of one of them) such that a pair is in the returned cone set iff it is
    `(relator_representative(word), v)` for a representative `d` with `v = v_ij(d) > 1`, where `word`
    is THE freely reduced word representing the product of the returned edge words along the closed
    walk `s_i d —j→ · —i→ · —j→ …` of `2r` crossings, `r` the least period of `s_i ∘ s_j` at `s_i d`
    (`OrbitWalkWord`: C02's `IsLeastPeriod`, the walk product `Wf`, `den` = element of `FreeGroup ℕ`;
    a reduced word is determined by the element it denotes, `FWP.eq_of_den_eq`).
    `relator_representative` (C10: least rotation of the word or of its inverse) is the stated
    normalisation; the starting chamber inside an orbit is the representative's. -/
theorem cones_are_orbit_walk_words (ds : DSymData) (hs : ValidSym ds) (f : FundGroup)
    (h : fundamentalGroup ds = .ok f) :
    ∃ reps : Nat → Nat → List Nat,
      (∀ i j, i ≤ j → j ≤ ds.dim → D2.RepsOK ds i j (reps i j)) ∧
      ∀ c : List Int × Nat, c ∈ f.cones ↔
        ∃ i j d word v, i ≤ j ∧ j ≤ ds.dim ∧ d ∈ reps i j ∧
          OrbitWalkWord ds f.edgeToWord i j d word v ∧ v > 1 ∧
          c = (FW.relatorRepresentative word, v) := by
  refine ⟨fun i j => ds.view.orbitReps2d i j,
    fun i j hij hj => D2.orbitReps2d_ok hs.set (by omega) hj, fun c => ?_⟩
  rw [cones_are_traced_words ds f h c]
  constructor
  · rintro ⟨i, j, d, word, v, hij, hj, hd, ht, hv, hc⟩
    have hr := (D2.orbitReps2d_ok hs.set (show i ≤ ds.dim by omega) hj).range d hd
    exact ⟨i, j, d, word, v, hij, hj, hd,
      (traced_iff_walk hs _ (by omega) hj hr.1 hr.2 word v).1 ht, hv, hc⟩
  · rintro ⟨i, j, d, word, v, hij, hj, hd, ht, hv, hc⟩
    have hr := (D2.orbitReps2d_ok hs.set (show i ≤ ds.dim by omega) hj).range d hd
    exact ⟨i, j, d, word, v, hij, hj, hd,
      (traced_iff_walk hs _ (by omega) hj hr.1 hr.2 word v).2 ht, hv, hc⟩

example : ValidSym symB ∧ fundamentalGroup symB = .ok fgB ∧ fgB.cones ≠ [] :=
  ⟨symB_hyps.1, symB_hyps.2.2.2.2.1, symB_hyps.2.2.2.2.2.1⟩

/-- the same for the relators: a word is a returned relator iff it is the relator representative
    of the non-trivial `word ^ v` for the orbit-walk word of a representative (for `i = j` the walk
    has two crossings and gives the facet-pair words, `g²` for mirrors) -/
theorem relators_are_orbit_walk_words (ds : DSymData) (hs : ValidSym ds) (f : FundGroup)
    (h : fundamentalGroup ds = .ok f) :
    ∃ reps : Nat → Nat → List Nat,
      (∀ i j, i ≤ j → j ≤ ds.dim → D2.RepsOK ds i j (reps i j)) ∧
      ∀ w : List Int, w ∈ f.relators ↔
        ∃ i j d word v, i ≤ j ∧ j ≤ ds.dim ∧ d ∈ reps i j ∧
          OrbitWalkWord ds f.edgeToWord i j d word v ∧
          FW.raisedTo word (v : Int) ≠ [] ∧
          w = FW.relatorRepresentative (FW.raisedTo word (v : Int)) := by
  refine ⟨fun i j => ds.view.orbitReps2d i j,
    fun i j hij hj => D2.orbitReps2d_ok hs.set (by omega) hj, fun w => ?_⟩
  rw [relators_are_traced_words ds f h w]
  constructor
  · rintro ⟨i, j, d, word, v, hij, hj, hd, ht, hv, hc⟩
    have hr := (D2.orbitReps2d_ok hs.set (show i ≤ ds.dim by omega) hj).range d hd
    exact ⟨i, j, d, word, v, hij, hj, hd,
      (traced_iff_walk hs _ (by omega) hj hr.1 hr.2 word v).1 ht, hv, hc⟩
  · rintro ⟨i, j, d, word, v, hij, hj, hd, ht, hv, hc⟩
    have hr := (D2.orbitReps2d_ok hs.set (show i ≤ ds.dim by omega) hj).range d hd
    exact ⟨i, j, d, word, v, hij, hj, hd,
      (traced_iff_walk hs _ (by omega) hj hr.1 hr.2 word v).2 ht, hv, hc⟩

example : ValidSym symB ∧ fundamentalGroup symB = .ok fgB ∧ fgB.relators ≠ [] :=
  ⟨symB_hyps.1, symB_hyps.2.2.2.2.1, by decide⟩

/-! ## 5b. every returned letter is a generator -/

/-- all letters of the relators, cone words and edge words are among `±1 … ±n`,
    `n = nr_generators` (`Cosets.allGensOf n`, the alphabet of the coset-table routines) — for
    every symbol on which the model returns.  (Relators need NOT be cyclically reduced:
    `[1, 2, 2, -1]` is returned e.g. for the 4-chamber 2D symbol
    `op = 2 2 3 / 2 1 2 / 1 3 1 / 4 4 4`, `v = 3 5 5 5 / 3 1 1 1`.) -/
theorem letters_are_generators (ds : DSymData) (f : FundGroup) (h : fundamentalGroup ds = .ok f) :
    (∀ w ∈ f.relators, ∀ x ∈ w, x ∈ Cosets.allGensOf f.nrGenerators) ∧
    (∀ c ∈ f.cones, ∀ x ∈ c.1, x ∈ Cosets.allGensOf f.nrGenerators) ∧
    (∀ k, ∀ x ∈ e2wGet f.edgeToWord k, x ∈ Cosets.allGensOf f.nrGenerators) :=
  ⟨(fundamentalGroup_letters ds f h).1, (fundamentalGroup_letters ds f h).2.1,
   (fundamentalGroup_letters ds f h).2.2.1⟩

example : fundamentalGroup symB = .ok fgB := by decide +kernel

/-! ## 6. totality: the model returns on every valid symbol -/

/-- On every valid symbol (`ValidSym`, Proofs/DSetBasic.lean: a complete D-set with involutive
    operations and commuting far operations, orbit tables as `collect_orbits` computes them, one
    branching entry per orbit — what the library's constructors establish, C02
    `validSym_constructors`) `fundamental_group` and `inner_edges` return a value: none of the
    `unwrap()`s of `glue` / `find_generators` / `fundamental_group` fails, and the fuel the model
    gives to the `while let` loop of `glue_recursively` and to the `loop` of `trace_word` is never
    used up (the Rust loops terminate).  Connectedness is not needed for this. -/
theorem fg_total (ds : DSymData) (hs : ValidSym ds) :
    (∃ f, fundamentalGroup ds = .ok f) ∧ ∃ es, innerEdges ds = .ok es :=
  ⟨fundamentalGroup_ok hs, innerEdges_ok hs⟩

example : ValidSym (DSymData.ofSimple ex2) := ex2_validSym

/-- … and on the branched symbol `symB` (v = 4, 3; non-empty cone list), see `symB_hyps` -/
example : ValidSym symB ∧ 1 ≤ symB.dim ∧ 1 ≤ symB.size ∧ symB.view.isConnected = true ∧
    fundamentalGroup symB = .ok fgB ∧ fgB.cones ≠ [] :=
  ⟨symB_hyps.1, symB_hyps.2.1, symB_hyps.2.2.1, symB_hyps.2.2.2.1, symB_hyps.2.2.2.2.1,
    symB_hyps.2.2.2.2.2.1⟩

/-! ## 7. every generator is carried by exactly one facet pair -/

/-- For a valid symbol and every entry `g ↦ (d,i)` of `gen_to_edge`:
    `(d,i)` is a facet; if it is not a mirror (`s_i d ≠ d`) then `edge_to_word(d,i) = [g]` and
    `edge_to_word(s_i d, i) = [-g]`; if it is a mirror then `edge_to_word(d,i) = [-g]` (the code's
    second `insert` overwrites the first).  Two different generators never share a facet pair:
    the facet of one is neither the facet of the other nor the facet on its other side.
    (Other facets may carry the one-letter word `[±g]` as a *derived* word — e.g. `(2,0) ↦ [-1]`
    in `test_fundamental_group_c` — so "no other facet carries ±g" is not what the code does and
    not what the Spec checks; the Spec clauses are `each-generator-on-its-own-facet-pair` and
    `generator-facet-carries-its-letter`, which are exactly this theorem.) -/
theorem generator_facet_pairs (ds : DSymData) (hs : ValidSym ds) (f : FundGroup)
    (h : fundamentalGroup ds = .ok f) :
    (∀ p ∈ f.genToEdge, 1 ≤ p.1 ∧ p.1 ≤ f.nrGenerators ∧
      (1 ≤ p.2.1 ∧ p.2.1 ≤ ds.size ∧ p.2.2 ≤ ds.dim) ∧
      (ds.dset.opU p.2.2 p.2.1 ≠ p.2.1 →
        e2wGet f.edgeToWord p.2 = [(p.1 : Int)] ∧
        e2wGet f.edgeToWord (ds.dset.opU p.2.2 p.2.1, p.2.2) = [-(p.1 : Int)]) ∧
      (ds.dset.opU p.2.2 p.2.1 = p.2.1 → e2wGet f.edgeToWord p.2 = [-(p.1 : Int)])) ∧
    (∀ p ∈ f.genToEdge, ∀ q ∈ f.genToEdge, p.1 ≠ q.1 →
      q.2 ≠ p.2 ∧ q.2 ≠ (ds.dset.opU p.2.2 p.2.1, p.2.2)) := by
  obtain ⟨bnd, gi⟩ := findGenerators_ginv hs (fundamentalGroup_e2w h)
  refine ⟨?_, gi.distinct⟩
  intro p hp
  obtain ⟨hf, _, hw⟩ := gi.gens p hp
  exact ⟨(gi.keys p hp).1, (gi.keys p hp).2, hf, hw.1, hw.2⟩

example : ValidSym (DSymData.ofSimple ex2) := ex2_validSym

/-- … and on the branched symbol `symB` (v = 4, 3; non-empty cone list), see `symB_hyps` -/
example : ValidSym symB ∧ 1 ≤ symB.dim ∧ 1 ≤ symB.size ∧ symB.view.isConnected = true ∧
    fundamentalGroup symB = .ok fgB ∧ fgB.cones ≠ [] :=
  ⟨symB_hyps.1, symB_hyps.2.1, symB_hyps.2.2.1, symB_hyps.2.2.2.1, symB_hyps.2.2.2.2.1,
    symB_hyps.2.2.2.2.2.1⟩

/-! ## 8. the returned group is a quotient of the textbook group (part (a) of the isomorphism) -/

/-- `TGroup ds` (Proofs/FundGroupPres.lean) is the textbook presentation: one generator `x(d,i)` per
    chamber facet (`xg`), relators `x(d,i)·x(s_i d,i)` (pairing; `x²` for mirrors), `x(d,i)` for the
    facets of `spanning_tree(ds)`, and for every chamber `d` and `i < j` the closed walk around
    the `(i,j)`-orbit of `d` (`OW`, of length `2·r_ij(d)`) to the power `v_ij(d)`.
    `MGroup f` is the returned presentation ⟨1..n | relators⟩.

    The substitution `x(d,i) ↦ edge_to_word(d,i)` kills every textbook relator in the returned
    group, so it induces a homomorphism `TGroup ds →* MGroup f`; this homomorphism is onto (every
    returned generator is the image of its facet generator or of its inverse, §7). -/
theorem textbook_onto_returned (ds : DSymData) (hs : ValidSym ds) (f : FundGroup)
    (h : fundamentalGroup ds = .ok f) :
    ∃ φ : TGroup ds →* MGroup f,
      (∀ c a, 1 ≤ c → c ≤ ds.size → a ≤ ds.dim →
        φ (PresentedGroup.mk _ (xg ds c a)) = PresentedGroup.mk _ (den (e2wGet f.edgeToWord (c, a)))) ∧
      Function.Surjective φ := by
  refine ⟨phi hs h, ?_, phi_surjective hs h⟩
  intro c a h1 h2 h3
  rw [phi_xg, valM_of_facet ⟨h1, h2, h3⟩]
  rfl

example : ValidSym (DSymData.ofSimple ex2) := ex2_validSym

/-- … and on the branched symbol `symB` (v = 4, 3; non-empty cone list), see `symB_hyps` -/
example : ValidSym symB ∧ 1 ≤ symB.dim ∧ 1 ≤ symB.size ∧ symB.view.isConnected = true ∧
    fundamentalGroup symB = .ok fgB ∧ fgB.cones ≠ [] :=
  ⟨symB_hyps.1, symB_hyps.2.1, symB_hyps.2.2.1, symB_hyps.2.2.2.1, symB_hyps.2.2.2.2.1,
    symB_hyps.2.2.2.2.2.1⟩

/-! ## 8b. the tree relators of `TGroup` are those of a spanning tree -/

/-- On a connected valid symbol `spanning_tree(ds)` (the facets whose generators `TGroup ds` kills)
    is a spanning tree of the chamber graph: its entries are facets `(d,i,None)` of the symbol,
    there are `size − 1` of them, and every chamber is joined to one root chamber by them
    (`TreeReach`: crossing tree facets from their recorded side).  Uses C02 `traversal_sound`,
    `traversal_complete`, `isConnected_iff`. -/
theorem spanning_tree_is_spanning_tree (ds : DSymData) (hv : ValidSet ds.dset) (hsize : 1 ≤ ds.size)
    (hc : ds.view.isConnected = true) :
    (∀ it ∈ spanningTree ds, it.2.2 = none ∧ 1 ≤ it.1 ∧ it.1 ≤ ds.size ∧ it.2.1 ≤ ds.dim) ∧
    (spanningTree ds).length + 1 = ds.size ∧
    ∃ root, 1 ≤ root ∧ root ≤ ds.size ∧
      ∀ x, 1 ≤ x → x ≤ ds.size → TreeReach ds (spanningTree ds) root x := by
  obtain ⟨hlen, root, r1, r2, hreach, _, _⟩ := spanningTree_spanning hv hsize hc
  refine ⟨?_, hlen, root, r1, r2, hreach⟩
  intro it hit
  obtain ⟨hn, _⟩ := spanningTree_itemOk hv it hit
  exact ⟨hn, spanningTree_ok hv it hit hn⟩

example : ValidSet ex2 ∧ 1 ≤ ex2.size ∧ (DSymData.ofSimple ex2).view.isConnected = true :=
  ⟨ex2_valid, by decide, by decide +kernel⟩

/-- … and on the branched symbol `symB` (v = 4, 3; non-empty cone list), see `symB_hyps` -/
example : ValidSym symB ∧ 1 ≤ symB.dim ∧ 1 ≤ symB.size ∧ symB.view.isConnected = true ∧
    fundamentalGroup symB = .ok fgB ∧ fgB.cones ≠ [] :=
  ⟨symB_hyps.1, symB_hyps.2.1, symB_hyps.2.2.1, symB_hyps.2.2.2.1, symB_hyps.2.2.2.2.1,
    symB_hyps.2.2.2.2.2.1⟩

/-! ## 9. the returned presentation presents the textbook group (◐ → proved for the model) -/

/-- **`presents_orbifold_group`.**  For every valid symbol of dimension ≥ 1 on which the model
    returns `f`, the returned presentation ⟨1..n | f.relators⟩ (`MGroup f`) is isomorphic to the
    textbook presentation `TGroup ds` (generators: all chamber facets; relators: pairing,
    the facets of `spanning_tree(ds)`, and for every chamber and every `i < j` the closed walk
    around the 2-orbit to the power `v_ij`).  The isomorphism and its inverse are the obvious maps:

      `φ : x(d,i) ↦ edge_to_word(d,i)`     and     `ψ : g ↦ x(gen_to_edge g)`.

    Proof (Proofs/FundGroup*.lean): (a) φ kills the textbook relators (pairing: §2 and the mirror
    relators; tree facets carry no word; 2-orbit words: §5 up to conjugation/inversion/rotation);
    (b) ψ kills the returned relators and (c) ψ∘φ = id, both from the invariant of the `Boundary`
    process: a ridge entry `(d,i,j) ↦ (opp, n)` means that the walk from `d` crossing `j,i,j,…`
    passes `n` chambers through glued non-mirror facets and stops in front of `opp`; the test
    `good` (`n = m·t`) therefore forces `v = 1` and all other facets of the 2-orbit glued, so the
    word assigned to the facet is the consequence of the 2-orbit relation (`good_cert`,
    `einv_item`); (d) φ∘ψ = id from §7.

    `1 ≤ dim` is needed: for a one-chamber "symbol" of dimension 0 the code returns the trivial
    group while the textbook group is Z/2 (such symbols cannot be constructed: `PartialDSet::new`
    asserts `dim ≥ 1`). -/
theorem presents_orbifold_group (ds : DSymData) (hs : ValidSym ds) (hdim : 1 ≤ ds.dim)
    (f : FundGroup) (h : fundamentalGroup ds = .ok f) :
    ∃ e : TGroup ds ≃* MGroup f,
      (∀ c a, 1 ≤ c → c ≤ ds.size → a ≤ ds.dim →
        e (PresentedGroup.mk _ (xg ds c a)) = PresentedGroup.mk _ (den (e2wGet f.edgeToWord (c, a)))) ∧
      (∀ p ∈ f.genToEdge, e.symm (PresentedGroup.of p.1) = PresentedGroup.mk _ (xg ds p.2.1 p.2.2)) := by
  refine ⟨presIso hs hdim h, ?_, ?_⟩
  · intro c a h1 h2 h3
    rw [presIso_apply, phi_xg, valM_of_facet ⟨h1, h2, h3⟩]
    rfl
  · intro p hp
    rw [presIso_symm_apply]
    unfold psi
    rw [PresentedGroup.toGroup.of, psi0_mem h p hp]
    rfl

example : ValidSym (DSymData.ofSimple ex2) ∧ 1 ≤ (DSymData.ofSimple ex2).dim :=
  ⟨ex2_validSym, by decide⟩

/-- the two groups are isomorphic (the statement of the property) -/
theorem returned_group_is_textbook_group (ds : DSymData) (hs : ValidSym ds) (hdim : 1 ≤ ds.dim) :
    ∃ f, fundamentalGroup ds = .ok f ∧ Nonempty (MGroup f ≃* TGroup ds) := by
  obtain ⟨f, hf⟩ := fundamentalGroup_ok hs
  exact ⟨f, hf, ⟨(presIso hs hdim hf).symm⟩⟩

example : ValidSym (DSymData.ofSimple ex2) ∧ 1 ≤ (DSymData.ofSimple ex2).dim :=
  ⟨ex2_validSym, by decide⟩

/-- … and on the branched symbol `symB` (v = 4, 3; non-empty cone list), see `symB_hyps` -/
example : ValidSym symB ∧ 1 ≤ symB.dim ∧ 1 ≤ symB.size ∧ symB.view.isConnected = true ∧
    fundamentalGroup symB = .ok fgB ∧ fgB.cones ≠ [] :=
  ⟨symB_hyps.1, symB_hyps.2.1, symB_hyps.2.2.1, symB_hyps.2.2.2.1, symB_hyps.2.2.2.2.1,
    symB_hyps.2.2.2.2.2.1⟩

/-! ## 10. the Spec's executable textbook presentation presents the same group -/

/-- `SRel ds` = the relators of `SpecC09.textbook (gOf ds)` — what the driver builds from the
    symbol's tables: breadth-first spanning tree from chamber 1, pairing relators for `d ≤ s_i d`,
    one 2-orbit relator per least chamber of the orbit — on generators `1 … size·(dim+1)`.
    For every connected valid symbol it presents `TGroup ds`, hence the group the model returns:
    (a) 2-orbit relators at other chambers of an orbit are conjugates of the kept one or of its
    inverse modulo the pairing relators (`grel_base`); (b) two ordered spanning trees give
    isomorphic groups (`treeIso`: `x(c,a) ↦ q(c)·x(c,a)·q(s_a c)⁻¹` with the tree path products `q`;
    the two composites are inner automorphisms); both the code's `spanning_tree` and the Spec's
    breadth-first tree are ordered spanning trees (`spanningTree_spanning`, `spanTree_otree`,
    `spanTree_length`: the Spec's connectedness test `connectedBfs` holds on connected symbols). -/
theorem spec_textbook_presents_TGroup (ds : DSymData) (hs : ValidSym ds) (hdim : 1 ≤ ds.dim)
    (hsize : 1 ≤ ds.size) (hc : ds.view.isConnected = true) :
    (SpecC09.spanTree (gOf ds)).length + 1 = ds.size ∧
    Nonempty (PresentedGroup (SRel ds) ≃* TGroup ds) ∧
    ∀ f, fundamentalGroup ds = .ok f → Nonempty (PresentedGroup (SRel ds) ≃* MGroup f) := by
  have hbfs := spanTree_length hs.set hsize hc
  refine ⟨hbfs, ⟨specTextbookIso hs hsize hc hbfs⟩, fun f hf => ?_⟩
  exact ⟨(specTextbookIso hs hsize hc hbfs).trans (presIso hs hdim hf)⟩

example : ValidSym (DSymData.ofSimple ex2) ∧ 1 ≤ (DSymData.ofSimple ex2).dim ∧
    1 ≤ (DSymData.ofSimple ex2).size ∧ (DSymData.ofSimple ex2).view.isConnected = true :=
  ⟨ex2_validSym, by decide, by decide, by decide +kernel⟩

/-- … and on the branched symbol `symB` (v = 4, 3; non-empty cone list), see `symB_hyps` -/
example : ValidSym symB ∧ 1 ≤ symB.dim ∧ 1 ≤ symB.size ∧ symB.view.isConnected = true ∧
    fundamentalGroup symB = .ok fgB ∧ fgB.cones ≠ [] :=
  ⟨symB_hyps.1, symB_hyps.2.1, symB_hyps.2.2.1, symB_hyps.2.2.2.1, symB_hyps.2.2.2.2.1,
    symB_hyps.2.2.2.2.2.1⟩

/-! ## 11. `SpecC09.simplify` preserves the presented group -/

/-- `simplify` (cyclic reduction of all relators, repeated elimination of a generator that occurs
    exactly once in a relator, renumbering of the remaining generators) is a sequence of Tietze
    moves: for every presentation whose letters are generators `±1 … ±n` the simplified
    presentation presents an isomorphic group. -/
theorem simplify_preserves_group (p : SpecC09.Pres)
    (h : ∀ w ∈ p.rels, ∀ z ∈ w, z ≠ 0 ∧ z.natAbs ≤ p.ngens) :
    Nonempty (PresentedGroup (MRel p.ngens p.rels) ≃*
      PresentedGroup (MRel (SpecC09.simplify p).ngens (SpecC09.simplify p).rels)) :=
  simplify_iso p h

example : ∀ w ∈ (⟨2, [[1, 2, -1, -2]]⟩ : SpecC09.Pres).rels, ∀ z ∈ w,
    z ≠ 0 ∧ z.natAbs ≤ (⟨2, [[1, 2, -1, -2]]⟩ : SpecC09.Pres).ngens := by decide

/-- **what the Spec's invariant clauses compare.**  For a connected valid symbol (dim ≥ 1) on which
    the model returns `f`, the two presentations whose abelianisation, subgroup counts and order
    the driver compares — `simplify ⟨n, f.relators⟩` and `simplify (textbook (gOf ds))` — present
    isomorphic groups.  So for the model these clauses hold by theorem (every isomorphism invariant
    agrees); evaluated on the implementation's output they remain pure checks of the code. -/
theorem spec_compares_isomorphic_groups (ds : DSymData) (hs : ValidSym ds) (hdim : 1 ≤ ds.dim)
    (hsize : 1 ≤ ds.size) (hc : ds.view.isConnected = true) (f : FundGroup)
    (hf : fundamentalGroup ds = .ok f) :
    Nonempty (
      PresentedGroup (MRel (SpecC09.simplify ⟨f.nrGenerators, f.relators⟩).ngens
        (SpecC09.simplify ⟨f.nrGenerators, f.relators⟩).rels) ≃*
      PresentedGroup (MRel (SpecC09.simplify (SpecC09.textbook (gOf ds))).ngens
        (SpecC09.simplify (SpecC09.textbook (gOf ds))).rels)) := by
  obtain ⟨e1⟩ := simplify_returned hf
  obtain ⟨e2⟩ := simplify_textbook hs hsize
  have hbfs := spanTree_length hs.set hsize hc
  exact ⟨(e1.symm.trans ((specTextbookIso hs hsize hc hbfs).trans (presIso hs hdim hf)).symm).trans e2⟩

example : ValidSym (DSymData.ofSimple ex2) ∧ 1 ≤ (DSymData.ofSimple ex2).dim ∧
    1 ≤ (DSymData.ofSimple ex2).size ∧ (DSymData.ofSimple ex2).view.isConnected = true :=
  ⟨ex2_validSym, by decide, by decide, by decide +kernel⟩

/-- … and on the branched symbol `symB` (v = 4, 3; non-empty cone list), see `symB_hyps` -/
example : ValidSym symB ∧ 1 ≤ symB.dim ∧ 1 ≤ symB.size ∧ symB.view.isConnected = true ∧
    fundamentalGroup symB = .ok fgB ∧ fgB.cones ≠ [] :=
  ⟨symB_hyps.1, symB_hyps.2.1, symB_hyps.2.2.1, symB_hyps.2.2.2.1, symB_hyps.2.2.2.2.1,
    symB_hyps.2.2.2.2.2.1⟩

/-! ## 12. the graph the driver hands to the Spec is the graph of the theorems -/

/-- **the driver's Spec view is the model's symbol.**  The driver evaluates every Spec clause on
    `specG r`, the raw transmitted tables, and runs the model on `r.toSym`.  Whenever the driver's
    domain clause `inDomain r` holds (`SpecC03.inDomain`, cited from `C03.decode_raw_valid`), the
    decoder returns a valid connected symbol `ds` with `dim ≥ 1` — so every theorem of this file
    applies to it — and `specG r` has the size, the dimension, every operation entry and every
    adjacent branching number of `gOf ds` (`C03.agrees_tables`), the graph the theorems of
    sections 9–11 are stated about. -/
theorem driver_graph_is_model_graph (r : Proto.RawSym) (h : DrvC09View.inDomain r = true) :
    ∃ ds, r.toSym = .ok ds ∧ ValidSym ds ∧ 1 ≤ ds.size ∧ 1 ≤ ds.dim ∧
      ds.view.isConnected = true ∧
      (DrvC09View.specG r).size = (gOf ds).size ∧ (DrvC09View.specG r).dim = (gOf ds).dim ∧
      (∀ i d, i ≤ ds.dim → 1 ≤ d → d ≤ ds.size → (DrvC09View.specG r).op i d = (gOf ds).op i d) ∧
      (∀ i d, i < ds.dim → 1 ≤ d → d ≤ ds.size → (DrvC09View.specG r).v i d = (gOf ds).v i d) :=
  specG_agrees r h

example : ∃ r : Proto.RawSym, DrvC09View.inDomain r = true :=
  ⟨{ size := 1, dim := 2, op := #[1, 1, 1], v := #[0, 0] }, by decide⟩

/-- **… and the Spec builds literally the same textbook presentation from it.**  The Spec's
    `textbook` reads a graph only at in-range arguments (`textbook_congr`, proved function by
    function: breadth-first tree, orbit walks, orbit representatives, orbit words, branching
    numbers), so on every in-domain input the presentation the driver computes from the raw tables
    is the presentation `textbook (gOf ds)` of the theorems; and when the model returns `f`, the two
    presentations whose invariants the driver compares — exactly the expressions `pImpl`, `pText`
    of Driver/C09.lean, with the model's `f` in place of the implementation's output — present
    isomorphic groups. -/
theorem driver_compares_isomorphic_groups (r : Proto.RawSym) (h : DrvC09View.inDomain r = true) :
    ∃ ds, r.toSym = .ok ds ∧
      SpecC09.textbook (DrvC09View.specG r) = SpecC09.textbook (gOf ds) ∧
      ∀ f, fundamentalGroup ds = .ok f → Nonempty (
        PresentedGroup (MRel (SpecC09.simplify ⟨f.nrGenerators, f.relators⟩).ngens
          (SpecC09.simplify ⟨f.nrGenerators, f.relators⟩).rels) ≃*
        PresentedGroup (MRel (SpecC09.simplify (SpecC09.textbook (DrvC09View.specG r))).ngens
          (SpecC09.simplify (SpecC09.textbook (DrvC09View.specG r))).rels)) := by
  obtain ⟨ds, hdec, hs, hsz, hdim, hcon, htb⟩ := specG_textbook r h
  refine ⟨ds, hdec, htb, fun f hf => ?_⟩
  rw [htb]
  exact spec_compares_isomorphic_groups ds hs hdim hsz hcon f hf

example : ∃ r : Proto.RawSym, DrvC09View.inDomain r = true :=
  ⟨{ size := 1, dim := 2, op := #[1, 1, 1], v := #[0, 0] }, by decide⟩

/-! ## 13. the inner 3-facets reported by `inner_edges` come in whole faces (for C16) -/

/-- **`inner_edges` and faces.**  Let `ds` be a valid symbol of dimension ≥ 3 (far operations
    commute) all of whose `v_01` are 1, and let `inner_edges(ds)` return `inner` — the facets glued by
    `glue_recursively(spanning_tree)`, tree facets included.  Then every reported pair is a facet of
    the symbol, and the chambers on the reported 3-facets (`OnInnerWall`: `d` and `s_3 d` for each
    reported `(d,3)`) form a set closed under `s_0` and `s_1`: inner walls consist of whole faces.

    Proof (Proofs/FundGroupInner*.lean): only non-mirror facets are glued in this batch; the queue
    discipline of `glue_recursively` is complete for them (`glueRecLoop_sat`: when the last-but-one
    facet pair of a 2-orbit with `v = 1` is glued, `glue` pushes a ridge of the last pair, and that
    entry passes the test `good` when it is popped); the strict index priority of `Traversal`
    (`traversal_prio`) makes the tree span every (0,1)-orbit by 0- and 1-facets, so every non-mirror
    0- and 1-facet ends up glued (`low_facets_glued`); then a glued `(x,3)` and the two glued
    `a`-facets of its `(a,3)`-orbit (a 4-cycle, since `s_a s_3 = s_3 s_a`) force `(s_a x,3)`. -/
theorem inner_edges_come_in_faces (ds : DSymData) (hs : ValidSym ds) (hdim : 3 ≤ ds.dim)
    (hv01 : ∀ x, 1 ≤ x → x ≤ ds.size → orbV ds 0 1 x = 1) (inner : List Edge)
    (h : innerEdges ds = .ok inner) :
    (∀ e ∈ inner, 1 ≤ e.1 ∧ e.1 ≤ ds.size ∧ e.2 ≤ ds.dim) ∧
    ∀ x, OnInnerWall ds inner x → ∀ a, a ≤ 1 → OnInnerWall ds inner (ds.dset.opU a x) :=
  innerEdges_walls hs hdim hv01 h

/-- the hypotheses hold for `as_dsym` of every 3-dimensional D-set with commuting far operations -/
example : Simp.Axioms3 Simp.exTiles ∧ ∀ sym, Simp.asDSym Simp.exTiles = .ok sym →
    ValidSym sym ∧ 3 ≤ sym.dim ∧ ∀ x, 1 ≤ x → x ≤ sym.size → orbV sym 0 1 x = 1 := by
  have hax : Simp.Axioms3 Simp.exTiles :=
    Simp.axioms3_of_bool (by decide +kernel) rfl (by decide +kernel)
  refine ⟨hax, fun sym h => ?_⟩
  obtain ⟨hs, eS, eD, _, ev⟩ := asDSym_spec hax.1 hax.2.2 h
  exact ⟨hs, by rw [eD, hax.2.1], fun x h1 h2 =>
    ev 0 x (by rw [hax.2.1]; omega) h1 (by rw [← eS]; exact h2)⟩

/-- **`InnerWallsAreFaces`** — the statement C16 (Proofs/SimplifySteps.lean) assumes about
    `inner_edges`, in C16's own words: for every complete 3-dimensional D-set `ds` with commuting
    far operations (`Axioms3`), whenever `as_dsym(ds)` returns `sym` and `inner_edges(sym)` returns
    `inner`, the chambers of `inner` are chambers of `ds` and the junk list of `merge_tiles`
    (`tilesJunk ds inner`, the 3-orbits of the reported `(d,3)`) is closed under `s_0` and `s_1`. -/
theorem inner_walls_are_faces : Simp.InnerWallsAreFaces :=
  innerWallsAreFaces

example : ∃ ds, Simp.Axioms3 ds ∧ ∃ sym inner, Simp.asDSym ds = .ok sym ∧
    innerEdges sym = .ok inner := by
  have hax : Simp.Axioms3 Simp.exTiles :=
    Simp.axioms3_of_bool (by decide +kernel) rfl (by decide +kernel)
  refine ⟨Simp.exTiles, hax, ?_⟩
  cases hsym : Simp.asDSym Simp.exTiles with
  | ok sym =>
    obtain ⟨hs, _⟩ := asDSym_spec hax.1 hax.2.2 hsym
    obtain ⟨es, hes⟩ := innerEdges_ok hs
    exact ⟨sym, es, rfl, hes⟩
  | err => exact absurd hsym (by decide +kernel)
  | panic => exact absurd hsym (by decide +kernel)

end DSymVerif.C09
