/-
Property C17 — 3D euclidicity verdicts are total, invariant and never contradictory.
Property theorems only.  They speak about the model `DSymVerif.Euc.*` (Model/Euclidicity.lean:
the decision tree of `is_euclidean` as a pure function of the facts it branches on) and about
the GENERATED table `Tables.euclideanInvariants` (re-extracted from
src/data/euclideanInvariants.data on every run exactly as the Rust `Lazy` parses it).

Proved (DESIGN §6 C17):
* ✔ `decide_yes_iff`: `Yes` ⇔ invariant in the table ∧ a pseudo-toroidal cover exists ∧
  `simplify` succeeds ∧ the canonical key is the cubic tiling's — a `Yes` always carries the
  certificate data and depends on nothing else;
* ✔ `decide_table` + `decide_reasons`: `decideVerdict` is the decision table `cascadeTable` (eleven
  rows with fully written guards, complete and pairwise exclusive on all 2¹⁰ fact combinations);
  each `No` / `Maybe` reason is characterised by the branch that produces it, and its message is
  one of the documented ones (the lists of the Spec).  These (with `decide_yes_iff`,
  `decide_yes_independent`, `decide_needs_cover`, `prefix_consistent`) are TRUTH-TABLE PROPERTIES of
  the hand-written 10-Boolean function `decideVerdict`; its tie to euclidicity.rs is the
  differential run on the branches the universe reaches;
* ✔ `decide_needs_cover`: without a pseudo-toroidal cover the verdict is `No`;
* ✔ `invariants_table_wellformed`: what holds of the 235 tokens the parser keeps;
* ✔ `invariants_table_reachable`: every entry's invariant fields are a list `abelian_invariants`
  can return (zeros first, then a divisibility chain) — an entry failing this is dead.

* ✔ `bad_subgroup_count_iff`, `bad_subgroup_invariants_iff`, `bad_subgroup_invariants_subgroups`,
  `bad_connected_components_iff`: what the helper functions of the cascade compute, in terms of the
  conjugacy classes of subgroups of small index of the presented group (C12), the presentations of
  their stabilisers (C13) and their abelianisations (C14);
* ✔ `cascade_reasons_mean`, `connected_sum_reasons_mean`: what each exit behind `simplify` says
  about the orbifold group of the simplified cover (facts agreeing with the models);
* ✔ `cascade_skeleton_matches_source`, `bad_connected_components_uses_constants`: the numeric
  constants of the cascade and the kinds of its exits in source order, as written in the model,
  are the ones regenerated from src/euclidicity.rs on this run.

Not theorems (Spec clauses on every explored case, `open_obligations` in conf/C17.json):
invariance under renumbering and dual, consistency along covers, soundness of `Yes`.
-/
import DSymVerif.Model.Euclidicity
import DSymVerif.Proofs.EuclidicityTableFacts
import DSymVerif.Proofs.EuclidicityTableReach
import DSymVerif.Proofs.EuclidicityString
import DSymVerif.Proofs.EuclidicityHelpers
import DSymVerif.Proofs.EuclidicityCascade
import DSymVerif.Spec.C17
import DSymVerif.Props.C15
import DSymVerif.Proofs.TGroupIso

namespace DSymVerif.C17
open DSymVerif DSymVerif.Euc

/-! ### 1. the decision tree -/

/-- **decide_yes_iff.** -/
theorem decide_yes_iff (f : Facts) :
    decideVerdict f = .yes ↔
      f.invInTable = true ∧ f.coverFound = true ∧ f.simplifyOk = true ∧ f.keyIsCubic = true := by
  obtain ⟨a, b, c, d, e, g, h, i, j, k⟩ := f
  unfold decideVerdict
  (repeat' split) <;> simp_all

/-- a `Yes` does not look at the facts behind the key comparison -/
theorem decide_yes_independent (f g : Facts)
    (h1 : f.invInTable = g.invInTable) (h2 : f.coverFound = g.coverFound)
    (h3 : f.simplifyOk = g.simplifyOk) (h4 : f.keyIsCubic = g.keyIsCubic) :
    decideVerdict f = .yes ↔ decideVerdict g = .yes := by
  rw [decide_yes_iff, decide_yes_iff, h1, h2, h3, h4]

/-- the cascade of `is_euclidean` written INDEPENDENTLY of `decideVerdict` as a decision table:
    one row per exit of the code, each guard written out in full (the conjunction of everything
    that must have happened on the way to that exit), in the order of the source -/
def cascadeTable : List ((Facts → Bool) × Verdict) :=
  [ (fun f => !f.invInTable, .no .invariants),
    (fun f => f.invInTable && !f.coverFound, .no .noCover),
    (fun f => f.invInTable && f.coverFound && !f.simplifyOk, .no .lensSpace),
    (fun f => f.invInTable && f.coverFound && f.simplifyOk && f.keyIsCubic, .yes),
    (fun f => f.invInTable && f.coverFound && f.simplifyOk && !f.keyIsCubic && !f.connected &&
        f.badComponents, .no .connectedSum),
    (fun f => f.invInTable && f.coverFound && f.simplifyOk && !f.keyIsCubic && !f.connected &&
        !f.badComponents, .maybe .connectedSum),
    (fun f => f.invInTable && f.coverFound && f.simplifyOk && !f.keyIsCubic && f.connected &&
        !f.invarsZ3, .no .handle),
    (fun f => f.invInTable && f.coverFound && f.simplifyOk && !f.keyIsCubic && f.connected &&
        f.invarsZ3 && f.isFree, .no .freeGroup),
    (fun f => f.invInTable && f.coverFound && f.simplifyOk && !f.keyIsCubic && f.connected &&
        f.invarsZ3 && !f.isFree && f.badCount, .no .subgroupCount),
    (fun f => f.invInTable && f.coverFound && f.simplifyOk && !f.keyIsCubic && f.connected &&
        f.invarsZ3 && !f.isFree && !f.badCount && f.badSubInv, .no .subgroups),
    (fun f => f.invInTable && f.coverFound && f.simplifyOk && !f.keyIsCubic && f.connected &&
        f.invarsZ3 && !f.isFree && !f.badCount && !f.badSubInv, .maybe .noDecision) ]

/-- the table checked on one combination of facts: exactly one guard holds, and its row carries
    the verdict of `decideVerdict` -/
def tableRowOK (f : Facts) : Bool :=
  (cascadeTable.filter (fun r => r.1 f)).length == 1 &&
  cascadeTable.all (fun r => !r.1 f || decideVerdict f == r.2)

set_option maxHeartbeats 1600000 in
/-- **decide_table** (replaces the former `decide_total`, which only said that a function has a
    value).  The hand-written cascade `decideVerdict` IS the decision table `cascadeTable`: for
    every one of the 2¹⁰ combinations of the ten facts EXACTLY ONE of the eleven rows applies
    (the guards are complete and pairwise exclusive) and `decideVerdict` returns the verdict of that
    row; the eleven verdicts are pairwise different (one `yes`, eight `no`, two `maybe`), and the
    message of every verdict is a documented reason of the Spec.  NB: this is a truth-table
    property of the 10-Boolean function `decideVerdict`; that the function is the cascade of
    euclidicity.rs is tied to the code only by the differential runs (conf/C17.json). -/
theorem decide_table :
    (∀ f : Facts, (cascadeTable.filter (fun r => r.1 f)).length = 1 ∧
      ∀ r ∈ cascadeTable, r.1 f = true → decideVerdict f = r.2) ∧
    (cascadeTable.map (·.2)).Nodup ∧ cascadeTable.length = 11 ∧
    cascadeTable.all (fun r => match r.2 with
      | .yes => true
      | .no x => SpecC17.noReasons.contains x.text
      | .maybe x => SpecC17.maybeReasons.contains x.text) = true := by
  have key : ∀ f : Facts, tableRowOK f = true := by
    rintro ⟨a, b, c, d, e, g, h, i, j, k⟩
    cases a <;> cases b <;> cases c <;> cases d <;> cases e <;> cases g <;> cases h <;> cases i <;>
      cases j <;> cases k <;> rfl
  refine ⟨?_, by decide, rfl, by decide⟩
  intro f
  have h := key f
  unfold tableRowOK at h
  rw [Bool.and_eq_true, beq_iff_eq, List.all_eq_true] at h
  refine ⟨h.1, fun r hr hg => ?_⟩
  have := h.2 r hr
  rw [hg] at this
  simpa using this

/-- the reasons are pairwise different strings, so the class and reason transmitted by the
    harness identify the branch -/
theorem reasons_distinct :
    (SpecC17.noReasons ++ SpecC17.maybeReasons).Nodup ∧
    SpecC17.noReasons.length = 8 ∧ SpecC17.maybeReasons.length = 2 := by
  decide

set_option maxHeartbeats 800000 in
/-- **decide_reasons.**  Each verdict is produced by exactly one branch of the cascade. -/
theorem decide_reasons (f : Facts) :
    (decideVerdict f = .no .invariants ↔ f.invInTable = false) ∧
    (decideVerdict f = .no .noCover ↔ f.invInTable = true ∧ f.coverFound = false) ∧
    (decideVerdict f = .no .lensSpace ↔
      f.invInTable = true ∧ f.coverFound = true ∧ f.simplifyOk = false) ∧
    (decideVerdict f = .no .connectedSum ↔
      f.invInTable = true ∧ f.coverFound = true ∧ f.simplifyOk = true ∧ f.keyIsCubic = false ∧
      f.connected = false ∧ f.badComponents = true) ∧
    (decideVerdict f = .maybe .connectedSum ↔
      f.invInTable = true ∧ f.coverFound = true ∧ f.simplifyOk = true ∧ f.keyIsCubic = false ∧
      f.connected = false ∧ f.badComponents = false) ∧
    (decideVerdict f = .no .handle ↔
      f.invInTable = true ∧ f.coverFound = true ∧ f.simplifyOk = true ∧ f.keyIsCubic = false ∧
      f.connected = true ∧ f.invarsZ3 = false) ∧
    (decideVerdict f = .no .freeGroup ↔
      f.invInTable = true ∧ f.coverFound = true ∧ f.simplifyOk = true ∧ f.keyIsCubic = false ∧
      f.connected = true ∧ f.invarsZ3 = true ∧ f.isFree = true) ∧
    (decideVerdict f = .no .subgroupCount ↔
      f.invInTable = true ∧ f.coverFound = true ∧ f.simplifyOk = true ∧ f.keyIsCubic = false ∧
      f.connected = true ∧ f.invarsZ3 = true ∧ f.isFree = false ∧ f.badCount = true) ∧
    (decideVerdict f = .no .subgroups ↔
      f.invInTable = true ∧ f.coverFound = true ∧ f.simplifyOk = true ∧ f.keyIsCubic = false ∧
      f.connected = true ∧ f.invarsZ3 = true ∧ f.isFree = false ∧ f.badCount = false ∧
      f.badSubInv = true) ∧
    (decideVerdict f = .maybe .noDecision ↔
      f.invInTable = true ∧ f.coverFound = true ∧ f.simplifyOk = true ∧ f.keyIsCubic = false ∧
      f.connected = true ∧ f.invarsZ3 = true ∧ f.isFree = false ∧ f.badCount = false ∧
      f.badSubInv = false) := by
  obtain ⟨a, b, c, d, e, g, h, i, j, k⟩ := f
  simp only [decideVerdict]
  refine ⟨?_, ?_, ?_, ?_, ?_, ?_, ?_, ?_, ?_, ?_⟩ <;> (repeat' split) <;> simp_all

/-- **decide_needs_cover.**  Without the invariant match or without a pseudo-toroidal cover the
    verdict is a `No`; a `Maybe` is only ever given after `simplify` succeeded on a cover. -/
theorem decide_needs_cover (f : Facts) :
    ((f.invInTable = false ∨ f.coverFound = false) → ∃ r, decideVerdict f = .no r) ∧
    (∀ r, decideVerdict f = .maybe r →
      f.invInTable = true ∧ f.coverFound = true ∧ f.simplifyOk = true ∧ f.keyIsCubic = false) := by
  obtain ⟨a, b, c, d, e, g, h, i, j, k⟩ := f
  simp only [decideVerdict]
  refine ⟨?_, ?_⟩ <;> (repeat' split) <;> simp_all

/-- the model of the first two tests of `is_euclidean` agrees with the cascade: the verdict it
    announces before `simplify` is the cascade's verdict on any facts with those two values -/
theorem prefix_consistent (f : Facts) :
    (f.invInTable = false → decideVerdict f = .no .invariants) ∧
    (f.invInTable = true → f.coverFound = false → decideVerdict f = .no .noCover) := by
  obtain ⟨h1, h2, _⟩ := decide_reasons f
  exact ⟨h1.mpr, fun ha hb => h2.mpr ⟨ha, hb⟩⟩

/-! ### 2. the table of invariants -/

/-- **invariants_table_wellformed.**  Of the 235 whitespace-separated tokens that the Rust
    `Lazy` keeps of `euclideanInvariants.data` (it drops only tokens STARTING with `#`):
    * every token is either a well-formed entry — syntax `n/label…/ori/edges/k/inv…/` with `n`
      equal to the number of labels and `k` to the number of invariant fields, labels made of
      digits `*` `x` `(` `)` in ascending byte order (as `sort_nodes` leaves them), orientation
      class 0, 1 or 2, invariants ascending and none equal to 1 (as `abelian_invariants` returns
      them) — or one of the ten stray words of comment lines (`# Dup: …`, `### Processed 219
      symbols in 36 seconds.`, `### Found 7 duplicates.`);
    * no stray word is well-formed (none contains `/`, every output of `orbifold_invariant`
      ends with `/`: they are dead entries of the set, not false positives);
    * `Dup:` occurs 7 times, each of the other nine stray words once, hence 219 tokens are
      well-formed entries; there are 222 distinct tokens, 212 of them well-formed entries —
      the numbers the file's own footer states (219 symbols, 7 duplicates). -/
theorem invariants_table_wellformed :
    Tables.euclideanInvariants.length = 235 ∧
    (∀ s ∈ Tables.euclideanInvariants, Tab.wellFormed s = true ∨ s ∈ Tab.strayTokens) ∧
    (∀ s ∈ Tab.strayTokens, Tab.wellFormed s = false ∧ s ∈ Tables.euclideanInvariants) ∧
    Tables.euclideanInvariants.count "Dup:" = 7 ∧
    (Tab.strayTokens.drop 1).all (fun s => Tables.euclideanInvariants.count s == 1) = true ∧
    Tables.euclideanInvariants.dedup.length = 222 ∧
    (Tables.euclideanInvariants.dedup.filter Tab.wellFormed).length = 212 :=
  ⟨Tab.table_length, Tab.token_ok,
   fun s hs => ⟨Tab.stray_not_wellFormed s hs, Tab.stray_in_table s hs⟩,
   Tab.stray_counts.1, Tab.stray_counts.2, Tab.dedup_length, Tab.distinct_wellFormed⟩

/-- **invariants_table_reachable.**  The invariant fields of every well-formed entry form a list
    that `abelian_invariants` can return: the zeros first (the list is sorted ascending), then the
    invariant factors, each ≥ 2 and dividing the next (`abelian_invariants` always returns a
    divisibility chain, Props/C14).  An entry violating this can never equal an output of
    `orbifold_invariant`, so every symbol of its space group would be rejected by the table
    filter of `is_euclidean` (defect D16: `…/3/2/3/6/` for H₁ = Z6 × Z6, listed as 2, 3, 6). -/
theorem invariants_table_reachable :
    ∀ s ∈ Tables.euclideanInvariants, Tab.wellFormed s = true → Tab.reachable s = true :=
  fun s hs _ => Tab.token_reachable s hs

example : Tab.reachableInvariants [0, 0, 0] = true ∧ Tab.reachableInvariants [0, 2, 2, 4] = true ∧
    Tab.reachableInvariants [6, 6] = true ∧ Tab.reachableInvariants [2, 3, 6] = false ∧
    Tab.reachableInvariants [2, 0] = false := by decide

/-- the syntax check accepts what the model's `invariantString` assembles (an instance: the
    invariant of the cubic tiling `<1.1:1 3:1,1,1,1:4,3,4>`, the table's last entry but the
    footer words) and rejects a string without the trailing `/` -/
example :
    Tab.wellFormed "14/*22/*22/*22/*22/*22/*22/*222/*222/*222/*222/1*/1*/1*/1x/0/24/4/2/2/2/2/" = true ∧
    Tab.wellFormed "1/22/0/0/2/0/2" = false ∧ Tab.wellFormed "2/22/0/0/2/0/2/" = false := by
  decide +kernel

/-- the cubic key of the generated tables is the symbol with one chamber -/
theorem cubicKey_value : Tables.cubicKey = "<1.1:1 3:1,1,1,1:4,3,4>" := by decide

/-! ### 3. what a `Yes` of the model carries -/

/-- the facts `f` agree with what the models compute for the symbol `s` on the first two tests of
    `is_euclidean` (the later facts, behind `simplify`, are unconstrained) -/
def FactsOf (s : DS.DSymData) (f : Facts) : Prop :=
  ∃ inv, orbifoldInvariant s = .ok inv ∧ f.invInTable = inInvariantTable inv ∧
    (f.invInTable = true → ∃ o, D3.pseudoToroidalCover s = .ok o ∧ f.coverFound = o.isSome)

/-- the verdict the model of the part before `simplify` announces is the cascade's verdict on
    any facts that agree with the models -/
theorem prefix_verdict_is_cascade (s : DS.DSymData) (f : Facts) (hf : FactsOf s f)
    (v : Verdict) (c : Option DS.DSymData) (h : isEuclideanPrefix s = .ok (some v, c)) :
    decideVerdict f = v := by
  obtain ⟨inv, hinv, h1, h2⟩ := hf
  unfold isEuclideanPrefix at h
  rw [hinv] at h
  simp only at h
  split at h
  · rename_i hnot
    cases h
    have : f.invInTable = false := by rw [h1]; simpa using hnot
    exact (decide_reasons f).1.mpr this
  · rename_i hin
    have hin' : f.invInTable = true := by rw [h1]; simpa using hin
    obtain ⟨o, ho, hc⟩ := h2 hin'
    rw [ho] at h
    cases o with
    | none =>
      cases h
      exact (decide_reasons f).2.1.mpr ⟨hin', by rw [hc]; rfl⟩
    | some c' => cases h

/-- **yes_carries_certificate** (`decide_yes_iff` on the model's facts).  If the facts agree with
    the models and the cascade says `Yes`, then — for an input with valid tables whose oriented
    cover has a `GroupOK` presentation — the model of `orbifold_invariant` returned a string of
    the table (a well-formed entry with reachable invariant fields), the model of
    `pseudo_toroidal_cover` returned a cover `cov`, and `cov` carries the proved consequences of
    Props/C15: it is `cover_for_table` of the oriented cover and a valid candidate table, a
    covering of the oriented cover and of the input (`C15.CoverFacts`), and the subgroup selected
    — the stabiliser of row 0, of index `rows(t)`, isomorphic to the presentation `stabilizer`
    returned — has abelian invariants `[0,0,0]` (`C15.SubgroupFacts`).  The two remaining facts of
    a `Yes` (`simplify` succeeded, canonical key of the cubic tiling) are not modelled. -/
theorem yes_carries_certificate (s : DS.DSymData) (f : Facts) (hf : FactsOf s f)
    (hs : DS.ValidTables s) (hsz : 1 ≤ s.size)
    (hyes : decideVerdict f = .yes) :
    f.simplifyOk = true ∧ f.keyIsCubic = true ∧
    ∃ inv cov, orbifoldInvariant s = .ok inv ∧ inv ∈ Tables.euclideanInvariants ∧
      Tab.wellFormed inv = true ∧ Tab.reachable inv = true ∧
      D3.pseudoToroidalCover s = .ok (some cov) ∧
      C15.CoverFacts s cov ∧ C15.SubgroupFacts s cov := by
  obtain ⟨h1, h2, h3, h4⟩ := (decide_yes_iff f).mp hyes
  obtain ⟨inv, hinv, e1, e2⟩ := hf
  obtain ⟨o, ho, hc⟩ := e2 h1
  rw [h2] at hc
  cases o with
  | none => cases hc
  | some cov =>
    have hmem : inv ∈ Tables.euclideanInvariants := by
      rw [e1] at h1
      unfold inInvariantTable at h1
      exact List.contains_iff_mem.mp h1
    have hcert := C15.ptc_certificate s cov hs hsz ho
    rcases Tab.token_ok inv hmem with hw | hstray
    · exact ⟨h3, h4, inv, cov, hinv, hmem, hw, Tab.token_reachable inv hmem, ho, hcert.1, hcert.2⟩
    · -- a stray comment token is never an output of `orbifold_invariant`
      exfalso
      exact stray_not_invariant s inv hinv hstray

/-- **yes_cover_is_a_branchfree_oriented_covering.**  For a valid D-symbol (`ValidSym`: far
    operations commute) the cover behind a `Yes` of the model is, by Props/C15
    (`ptc_result_is_oriented`, `ptc_result_is_branchfree`), oriented, a valid complete symbol with
    branching number 1 on EVERY pair of indices (adjacent 2-orbits, and the non-adjacent pairs
    (0,2), (0,3), (1,3): the two operations never agree on a chamber). -/
theorem yes_cover_is_a_branchfree_oriented_covering (s : DS.DSymData) (f : Facts) (hf : FactsOf s f)
    (hs : DS.ValidSym s) (hsz : 1 ≤ s.size)
    (hyes : decideVerdict f = .yes) :
    ∃ cov, D3.pseudoToroidalCover s = .ok (some cov) ∧ cov.view.isOriented = true ∧
      DS.ValidSym cov ∧ cov.isCompletePartial = true ∧
      ∀ i j d, i ≤ 3 → j ≤ 3 → 1 ≤ d → d ≤ cov.size → cov.vPartial i j d = .ok (some 1) := by
  obtain ⟨_, _, _, cov, _, _, _, _, ho, _, _⟩ := yes_carries_certificate s f hf hs.toValidTables hsz hyes
  obtain ⟨_, hb, hv, hc, _⟩ := C15.ptc_result_is_branchfree s cov hs hsz ho
  exact ⟨cov, ho, C15.ptc_result_is_oriented s cov hs.toValidTables hsz ho, hv, hc, hb⟩

/-- **yes_cover_group_is_Z3_presented.**  For a valid connected D-symbol,
    the orbifold fundamental group of the cover behind a `Yes` of the model is isomorphic to a
    presented group whose abelian invariants — model value of `abelian_invariants`, equal to the
    determinantal-divisor definition for relators over its generators — are `[0, 0, 0]`
    (Props/C15 `ptc_cover_group_presentation`): the homology part of the certificate, proved. -/
theorem yes_cover_group_is_Z3_presented (s : DS.DSymData) (f : Facts) (hf : FactsOf s f)
    (hs : DS.ValidSym s) (hsz : 1 ≤ s.size)
    (hconn : s.view.isConnected = true)
    (hyes : decideVerdict f = .yes) :
    ∃ (cov : DS.DSymData) (gens srels : List (List Int)), D3.pseudoToroidalCover s = .ok (some cov) ∧
      Inv.abelianInvariants gens.length srels = .ok [0, 0, 0] ∧
      SpecC14.expected gens.length srels = [0, 0, 0] ∧
      Nonempty (FGP.TGroup cov ≃* PresentedGroup (CosetP.relSet gens.length srels)) := by
  obtain ⟨_, _, _, cov, _, _, _, _, ho, _, _⟩ := yes_carries_certificate s f hf hs.toValidTables hsz hyes
  obtain ⟨gens, srels, h1, h2, h3⟩ := C15.ptc_cover_group_presentation s cov hs hsz hconn ho
  exact ⟨cov, gens, srels, ho, h1, h2, h3⟩

/-- **yes_certificate_sound** — the "independently checkable certificate" sentence of the
    property as a theorem about the model (everything before `simplify`).  If the facts agree with
    the models and the cascade says `Yes`, then for a valid connected D-symbol `s`:
    the model of `orbifold_invariant` returned a well-formed, reachable entry of the table, and the
    model of `pseudo_toroidal_cover` returned a symbol `cov` which is
    * a **finite covering** of `s`: `rows(t)·|oc|` chambers, `|oc| ∈ {|s|, 2|s|}`, valid complete
      symbol, the projection `d ↦ (d−1) mod |s| + 1` commutes with every operation
      (`C15.CoverFacts`), all degrees those of the oriented cover;
    * **oriented** and **branch-free**: branching number 1 at every chamber for every pair of
      indices, adjacent or not;
    * with **fundamental group isomorphic to a subgroup `K` of finite index** `rows(t)` of the
      orbifold group of the oriented cover (the stabiliser of row 0 of the monodromy action), and to
      the presented group `⟨gens | srels⟩` whose **abelian invariants are `[0, 0, 0]`** (model value
      of `abelian_invariants` = determinantal-divisor definition); its **abelianisation is ℤ³**
      (`Abelianization (TGroup cov) ≃* Multiplicative (Fin 3 → ℤ)`);
    * and this group **embeds into the orbifold group of `s` ITSELF with finite index = the
      number of sheets of `cov` over `s`** (`Φ : TGroup cov →* TGroup s` injective,
      `index · |s| = |cov|`; C15 `ptc_cover_group_in_input_group`): `s` is finitely covered by a
      branch-free oriented symbol whose group is a finite-index subgroup of π₁(s) with H₁ = ℤ³.
    The two facts behind `simplify` (it succeeded; canonical key of the cubic tiling) are part of
    `decide_yes_iff` but have no model. -/
theorem yes_certificate_sound (s : DS.DSymData) (f : Facts) (hf : FactsOf s f)
    (hs : DS.ValidSym s) (hsz : 1 ≤ s.size) (hconn : s.view.isConnected = true)
    (hyes : decideVerdict f = .yes) :
    f.simplifyOk = true ∧ f.keyIsCubic = true ∧
    ∃ (inv : String) (cov : DS.DSymData),
      orbifoldInvariant s = .ok inv ∧ inv ∈ Tables.euclideanInvariants ∧
      Tab.wellFormed inv = true ∧ Tab.reachable inv = true ∧
      D3.pseudoToroidalCover s = .ok (some cov) ∧
      C15.CoverFacts s cov ∧
      cov.view.isOriented = true ∧ DS.ValidSym cov ∧ cov.isCompletePartial = true ∧
      (∀ i j d, i ≤ 3 → j ≤ 3 → 1 ≤ d → d ≤ cov.size → cov.vPartial i j d = .ok (some 1)) ∧
      ∃ (oc : DS.DSymData) (fg : FG.FundGroup) (t : D3.Tab) (hsoc : DS.ValidSym oc) (hdim : 1 ≤ oc.dim)
        (hfg : FG.fundamentalGroup oc = .ok fg) (hV : CosetP.Valid t fg.nrGenerators fg.relators [])
        (gens srels : List (List Int)),
        DS.orientedCover s = .ok oc ∧ cov.size = t.size * oc.size ∧
        ((MulAction.stabilizer (Equiv.Perm (Fin t.size)) (⟨0, hV.pos⟩ : Fin t.size)).comap
          (CoversP.rhoT hsoc hdim hfg hV)).index = t.size ∧
        Nonempty (FGP.TGroup cov ≃*
          ((MulAction.stabilizer (Equiv.Perm (Fin t.size)) (⟨0, hV.pos⟩ : Fin t.size)).comap
            (CoversP.rhoT hsoc hdim hfg hV))) ∧
        Nonempty (FGP.TGroup cov ≃* PresentedGroup (CosetP.relSet gens.length srels)) ∧
        Inv.abelianInvariants gens.length srels = .ok [0, 0, 0] ∧
        SpecC14.expected gens.length srels = [0, 0, 0] ∧
        Nonempty (Abelianization (FGP.TGroup cov) ≃* Multiplicative (Fin 3 → ℤ)) ∧
        ∃ Φ : FGP.TGroup cov →* FGP.TGroup s, Function.Injective Φ ∧
          Φ.range.index * s.size = cov.size ∧ Φ.range.index ≠ 0 := by
  obtain ⟨h3, h4, inv, cov, hinv, hmem, hw, hr, ho, hcf, _⟩ :=
    yes_carries_certificate s f hf hs.toValidTables hsz hyes
  obtain ⟨_, hb, hv, hc, _⟩ := C15.ptc_result_is_branchfree s cov hs hsz ho
  obtain ⟨oc, fg, t, hsoc, hdim, hfg, hV, gens, srels, hoc, hsize, hidx, heK, heP, _, _, hai, hexp⟩ :=
    C15.ptc_cover_group_is_selected_subgroup s cov hs hsz hconn ho
  exact ⟨h3, h4, inv, cov, hinv, hmem, hw, hr, ho, hcf,
    C15.ptc_result_is_oriented s cov hs.toValidTables hsz ho, hv, hc, hb,
    oc, fg, t, hsoc, hdim, hfg, hV, gens, srels, hoc, hsize, hidx, heK, heP, hai, hexp,
    C15.ptc_cover_has_H1_Z3 s cov hs hsz hconn ho,
    C15.ptc_cover_group_in_input_group s cov hs hsz hconn ho⟩

/-- **prefix_total** — totality of everything the models compute.  For a valid D-symbol in the
    domain of `is_euclidean` (dimension 3, complete, every adjacent branching number `≤ 6` and
    `≠ 5`: the three assertions of `pseudo_toroidal_cover`) on which the model of
    `orbifold_invariant` returns: the model of the part of `is_euclidean` before `simplify`
    returns — no panic and no exhausted fuel in `pseudo_toroidal_cover`
    (C15 `pseudo_toroidal_cover_total`) —, there ARE facts agreeing with the models (`FactsOf`),
    and on all such facts the cascade (`decide_table`: exactly one row applies, a documented message)
    announces what the model announces.  What remains outside: totality of `orbifold_invariant`
    itself (hypothesis here; Spec clause `returns-a-verdict-without-panic`) and the callee
    functions behind `simplify` (no model). -/
theorem prefix_total (s : DS.DSymData) (hs : DS.ValidSym s) (hsz : 1 ≤ s.size)
    (hd3 : s.dim = 3) (hcompl : s.isCompletePartial = true)
    (hcr : D3.crystCheck s (List.range s.dim) = .ok ())
    (inv : String) (hinv : orbifoldInvariant s = .ok inv) :
    (∃ r, isEuclideanPrefix s = .ok r) ∧
    (∃ f, FactsOf s f) ∧
    (∀ f, FactsOf s f → ∀ v c, isEuclideanPrefix s = .ok (some v, c) → decideVerdict f = v) := by
  obtain ⟨o, ho⟩ := (C15.pseudo_toroidal_cover_total s hs hsz).1 hd3 hcompl hcr
  refine ⟨?_, ?_, fun f hf v c h => prefix_verdict_is_cascade s f hf v c h⟩
  · unfold isEuclideanPrefix
    rw [hinv]
    simp only
    split
    · exact ⟨_, rfl⟩
    · rw [ho]
      cases o with
      | none => exact ⟨_, rfl⟩
      | some c => exact ⟨_, rfl⟩
  · exact ⟨{ (default : Facts) with invInTable := inInvariantTable inv, coverFound := o.isSome },
      inv, hinv, rfl, fun _ => ⟨o, ho, rfl⟩⟩

/-- **invariant_group_part_iso_invariant** — the group half of `orbifold_invariant` under
    renumbering.  Let `a`, `b` be valid CONNECTED symbols (dimension ≥ 1) related by mutually
    inverse morphisms `f`, `g` (maps of the chambers commuting with every operation and preserving
    all degrees: every renumbering is one).  Then the models of `fundamental_group` return
    presentations of ISOMORPHIC groups (C09 `returned_group_is_textbook_group`, invariance of the
    textbook group under symbol isomorphism), and the lists `abelian_invariants` returns for them —
    the `invars` part of the invariant string — are the invariant factors of isomorphic abelian
    groups: `Π ZMod d` over the one list is isomorphic to `Π ZMod d` over the other (C14
    `abelianization_is_returned_list`).  (That two ascending lists of invariant factors of
    isomorphic groups are EQUAL is the uniqueness half of the structure theorem, not formalised;
    the graph half of the invariant — node labels and edge count after `compress_graph` and
    `sort_nodes` — is not treated.) -/
theorem invariant_group_part_iso_invariant (a b : DS.DSymData) (f g : Nat → Nat)
    (F : CoversP.SymMor a b f) (G : CoversP.SymMor b a g)
    (hgf : ∀ x, 1 ≤ x → x ≤ a.size → g (f x) = x) (hfg : ∀ y, 1 ≤ y → y ≤ b.size → f (g y) = y)
    (hsza : 1 ≤ a.size) (hszb : 1 ≤ b.size) (hdim : 1 ≤ a.dim)
    (hca : a.view.isConnected = true) (hcb : b.view.isConnected = true) :
    ∃ fa fb, FG.fundamentalGroup a = .ok fa ∧ FG.fundamentalGroup b = .ok fb ∧
      Nonempty (FGP.MGroup fa ≃* FGP.MGroup fb) ∧
      ∀ oa ob, Inv.abelianInvariants fa.nrGenerators fa.relators = .ok oa →
        Inv.abelianInvariants fb.nrGenerators fb.relators = .ok ob →
        Nonempty (Multiplicative (Inv.ZL oa) ≃* Multiplicative (Inv.ZL ob)) := by
  have hdimb : 1 ≤ b.dim := by rw [← F.dim]; exact hdim
  obtain ⟨fa, hfa, ⟨ea⟩⟩ := C09.returned_group_is_textbook_group a F.ha hdim
  obtain ⟨fb, hfb, ⟨eb⟩⟩ := C09.returned_group_is_textbook_group b F.hb hdimb
  obtain ⟨eT⟩ := CoversP.tgroup_iso_of_symIso F G hgf hfg hsza hszb hca hcb
  have eM : FGP.MGroup fa ≃* FGP.MGroup fb := (ea.trans eT).trans eb.symm
  refine ⟨fa, fb, hfa, hfb, ⟨eM⟩, ?_⟩
  intro oa ob hoa hob
  have hla := (FGP.fundamentalGroup_letters a fa hfa).1
  have hlb := (FGP.fundamentalGroup_letters b fb hfb).1
  -- C09's presentation ≃ C11's presentation
  have ePa : PresentedGroup (CosetP.relSet fa.nrGenerators fa.relators) ≃* FGP.MGroup fa :=
    MonoidHom.toMulEquiv (D3.upHom hla) (D3.downHom fa.nrGenerators fa.relators)
      (D3.down_up hla) (D3.up_down hla)
  have ePb : PresentedGroup (CosetP.relSet fb.nrGenerators fb.relators) ≃* FGP.MGroup fb :=
    MonoidHom.toMulEquiv (D3.upHom hlb) (D3.downHom fb.nrGenerators fb.relators)
      (D3.down_up hlb) (D3.up_down hlb)
  have hina : ∀ w ∈ fa.relators, ∀ x ∈ w, Inv.InRange fa.nrGenerators x := by
    intro w hw x hx
    have := LowIndexP.mem_allGensOf.mp (hla w hw x hx)
    unfold Inv.InRange
    omega
  have hinb : ∀ w ∈ fb.relators, ∀ x ∈ w, Inv.InRange fb.nrGenerators x := by
    intro w hw x hx
    have := LowIndexP.mem_allGensOf.mp (hlb w hw x hx)
    unfold Inv.InRange
    omega
  obtain ⟨za⟩ := C14.abelianization_is_returned_list fa.nrGenerators fa.relators oa hina hoa
  obtain ⟨zb⟩ := C14.abelianization_is_returned_list fb.nrGenerators fb.relators ob hinb hob
  exact ⟨za.symm.trans ((MulEquiv.abelianizationCongr ((ePa.trans eM).trans ePb.symm)).trans zb)⟩

/-! ### 4. the helper functions of the cascade (tied to the code through `verif_hooks`) -/

open DSymVerif.EucP in
/-- **bad_subgroup_count_iff.**  For a presentation `⟨1..n | rels⟩` whose relators are words over
    its generators and `k ≥ 1`: the model of `bad_subgroup_count(fg, k, expected)` returns, and
    returns `true` exactly when the NUMBER OF CONJUGACY CLASSES OF SUBGROUPS OF INDEX `1 … k` of the
    presented group differs from `expected` — the number being the length of any (and there is
    one) system of representatives `Hs`: subgroups of index `1 … k`, pairwise non-conjugate, every
    subgroup of index `1 … k` conjugate to one of them (`ClassReps`; C12
    `coset_tables_subgroup_classes_nofuel`).  The cap `take(expected + 1)` of the code does not
    change the verdict. -/
theorem bad_subgroup_count_iff (fg : FG.FundGroup) (k e : Nat) (hk : 1 ≤ k)
    (hlet : LettersOK fg.genToEdge.length fg.relators) :
    ∃ b, badSubgroupCount fg k e = .ok b ∧
      (∃ Hs, ClassReps fg.genToEdge.length fg.relators k Hs) ∧
      ∀ Hs, ClassReps fg.genToEdge.length fg.relators k Hs → (b = true ↔ Hs.length ≠ e) :=
  badSubgroupCount_iff fg k e hk hlet

/-- the presentation `⟨1..n | rels⟩` as the hooks receive it -/
def pres (n : Nat) (rels : List (List Int)) : FG.FundGroup :=
  { relators := rels, cones := [], genToEdge := (List.range n).map (fun g => (g + 1, (g + 1, 0))),
    edgeToWord := [] }

/-- ℤ³ = ⟨a, b, c | [a,b], [a,c], [b,c]⟩ -/
def presZ3 : FG.FundGroup := pres 3 [[1, 2, -1, -2], [1, 3, -1, -3], [2, 3, -2, -3]]

/-! non-vacuity: ℤ³ has 1 + 7 classes of subgroups of index ≤ 2 (`false`), ℤ has 2 (`true`) -/
example : EucP.LettersOK presZ3.genToEdge.length presZ3.relators := by unfold EucP.LettersOK; decide
set_option maxRecDepth 100000 in
example : badSubgroupCount presZ3 2 8 = .ok false := by decide +kernel
set_option maxRecDepth 100000 in
example : badSubgroupCount (pres 1 []) 2 8 = .ok true ∧ badSubgroupCount (pres 1 []) 2 2 = .ok false := by
  decide +kernel

open DSymVerif.EucP DSymVerif.CosetInvP in
/-- **bad_subgroup_invariants_iff.**  The model of `bad_subgroup_invariants(fg, k, expected)` returns
    (no panic, no exhausted fuel in `coset_tables`, `stabilizer`, `abelian_invariants`), and returns
    `true` exactly when one of the tables yielded by `coset_tables(n, rels, k)` has a stabiliser of
    row 0 whose `abelian_invariants` differ from `expected`. -/
theorem bad_subgroup_invariants_iff (fg : FG.FundGroup) (k : Nat) (ex : List Nat)
    (hlet : LettersOK fg.genToEdge.length fg.relators) :
    ∃ b, badSubgroupInvariants fg k ex = .ok b ∧
      (b = true ↔ ∃ x ∈ tables fg.genToEdge.length fg.relators k, ∃ t v inv, x = .ok t ∧ t.view = .ok v ∧
        D3.stabilizerInvariants fg.genToEdge.length fg.relators (viewTab v) = .ok inv ∧ inv ≠ ex) :=
  badSubgroupInvariants_iff fg k ex hlet

open DSymVerif.EucP DSymVerif.CosetP DSymVerif.CosetSoundP in
/-- **bad_subgroup_invariants_subgroups** — the same in terms of the subgroups of `⟨1..n | rels⟩`
    (`k ≥ 1`):
    * `false` ⇒ EVERY subgroup `H` of index `1 … k` has `H^ab ≅ Π ZMod d` over `expected`
      (`ZMod 0 = ℤ`; for `expected = [0,0,0]`: `H^ab ≅ ℤ³`) — `H` is conjugate, hence isomorphic, to
      the stabiliser of a listed table (C12), which `stabilizer` presents (C13) and whose
      abelianisation `abelian_invariants` returns (C14);
    * `true` ⇒ SOME subgroup `H` of index `1 … k` is presented by `⟨gens | srels⟩` whose canonical
      invariants by the determinantal-divisor definition (`SpecC14.expected`: zeros, then the
      divisibility chain of factors ≥ 2) are a list other than `expected`, and `H^ab ≅ Π ZMod d`
      over that list.  (That two different canonical lists give non-isomorphic groups is the
      uniqueness half of the structure theorem, not formalised.) -/
theorem bad_subgroup_invariants_subgroups (fg : FG.FundGroup) (k : Nat) (ex : List Nat) (hk : 1 ≤ k)
    (hlet : LettersOK fg.genToEdge.length fg.relators) :
    ∃ b, badSubgroupInvariants fg k ex = .ok b ∧
      (b = false → ∀ H : Subgroup (G fg.genToEdge.length fg.relators), H.index ≠ 0 → H.index ≤ k →
        Nonempty (Abelianization H ≃* Multiplicative (Inv.ZL ex))) ∧
      (b = true → ∃ (H : Subgroup (G fg.genToEdge.length fg.relators)) (inv : List Nat)
          (gens srels : List (List Int)),
        H.index ≠ 0 ∧ H.index ≤ k ∧ inv ≠ ex ∧ SpecC14.expected gens.length srels = inv ∧
        Nonempty (PresentedGroup (relSet gens.length srels) ≃* H) ∧
        Nonempty (Abelianization H ≃* Multiplicative (Inv.ZL inv))) :=
  badSubgroupInvariants_subgroups fg k ex hk hlet

/-! non-vacuity: every subgroup of ℤ is ℤ (`false`); the free group of rank 3 has H₁ = ℤ³ but its
    subgroups of index 2 are free of rank 5 (`true`); the trivial group passes the index-5 test of
    `bad_connected_components` (`false`).  (ℤ³ itself cannot be evaluated by the kernel:
    `abelian_invariants` ends with a `mergeSort`, which is defined by well-founded recursion; it
    is the differential case `bsi … group=Z^3` of the harness.) -/
example : EucP.LettersOK (pres 3 []).genToEdge.length (pres 3 []).relators := by unfold EucP.LettersOK; decide
set_option maxRecDepth 100000 in
example : badSubgroupInvariants (pres 1 []) 3 [0] = .ok false ∧
    badSubgroupInvariants (pres 3 []) 2 [0, 0, 0] = .ok true ∧
    badSubgroupInvariants (pres 0 []) 5 [] = .ok false := by decide +kernel

open DSymVerif.EucP in
/-- **bad_connected_components_iff.**  If the facts of every component are computed — `compFacts s d
    = .ok (c d)` for the representative `d` of every component: `subsymbol`, `fundamental_group`,
    `abelian_invariants` and the two subgroup tests return — then the model of
    `bad_connected_components` returns, and returns `true` exactly when the components are bad
    (`ComponentsBad`): some component has H₁ invariants other than `[0,0,0]` and `[]`, or a
    component with invariants `[]` fails `bad_subgroup_invariants(fg, 5, [])`, or one with
    `[0,0,0]` fails `bad_subgroup_invariants(fg, 2, [0,0,0])`, or TWO components have `[0,0,0]`.
    The "component" of `d` is `subsymbol(ds, 0..ds.dim(), d)` with the range as written in the code
    — EXCLUSIVE: for a 3-dimensional symbol the 2-dimensional tile of `d`, not its connected
    component (observed on the real code: two disjoint 3-torus covers give `false`; harness cases
    `bcc … cover+cover`). -/
theorem bad_connected_components_iff (s : DS.DSymData) (c : Nat → CompFacts)
    (h : ∀ d ∈ s.view.orbitReps s.view.indices s.view.elements, compFacts s d = .ok (c d)) :
    ∃ b, badConnectedComponents s = .ok b ∧
      (b = true ↔ ComponentsBad ((s.view.orbitReps s.view.indices s.view.elements).map c)) :=
  badConnectedComponents_iff s c h

/-! non-vacuity: on C09's symbol `<1.1:2:2,2,2:4,3>` (one component; its "component" is the
    1-dimensional subsymbol on the indices 0, 1, with H₁ = ℤ/4) the facts are computed and the
    verdict is `true` -/
set_option maxRecDepth 100000 in
example : (∀ d ∈ C09.symB.view.orbitReps C09.symB.view.indices C09.symB.view.elements,
      EucP.compFacts C09.symB d = .ok ⟨[4], true, true⟩) ∧
    badConnectedComponents C09.symB = .ok true := by decide +kernel

/-! ### 5. what the exits behind `simplify` mean -/

open DSymVerif.EucP DSymVerif.CosetP DSymVerif.CosetSoundP in
/-- **cascade_reasons_mean.**  Let `simp` be a valid symbol (standing for `canonical(simplify(cov))`;
    `simplify` has no model, so `simp` is arbitrary) and `f` facts that agree with the models on
    `simp` (`CascadeFactsOf`: connectedness, `fundamental_group`, `abelian_invariants`, `is_free`,
    `bad_subgroup_count(fg, 2, 8)`, `bad_subgroup_invariants(fg, 2, [0,0,0])`).  Then the model of
    `fundamental_group` returns a presentation `⟨1..n | rels⟩ ≅ TGroup simp` (the orbifold
    fundamental group, C09) and each exit of the cascade for a connected `simp` implies the stated
    group-theoretic fact:
    * `no: cover has at least one handle` ⇒ `H₁(simp) ≅ Π ZMod d` over the canonical list `invars`
      (determinantal divisors), and `invars ≠ [0,0,0]`;
    * `no: cover has free fundamental group` ⇒ no relators, `TGroup simp` is free of rank `n`, and
      `H₁ ≅ ℤ³`;
    * `no: bad subgroup count for cover` ⇒ the number of conjugacy classes of subgroups of index
      ≤ 2 (length of any system of representatives) is not 8;
    * `no: bad subgroups for cover` ⇒ that number is 8 and some subgroup of index ≤ 2 has canonical
      invariants other than `[0,0,0]`;
    * `maybe: no decision found` ⇒ `H₁ ≅ ℤ³`, there are relators, exactly 8 classes of subgroups of
      index ≤ 2, and EVERY subgroup of index ≤ 2 has abelianisation `ℤ³`. -/
theorem cascade_reasons_mean (simp : DS.DSymData) (f : Facts) (hs : DS.ValidSym simp) (hdim : 1 ≤ simp.dim)
    (hf : CascadeFactsOf simp f) :
    ∃ fg, FG.fundamentalGroup simp = .ok fg ∧ LettersOK fg.genToEdge.length fg.relators ∧
      Nonempty (G fg.genToEdge.length fg.relators ≃* FGP.TGroup simp) ∧
      (decideVerdict f = .no .handle → ∃ invars, invars ≠ [0, 0, 0] ∧
        invars = SpecC14.expected fg.genToEdge.length fg.relators ∧
        Nonempty (Abelianization (FGP.TGroup simp) ≃* Multiplicative (Inv.ZL invars))) ∧
      (decideVerdict f = .no .freeGroup → fg.relators = [] ∧
        Nonempty (FGP.TGroup simp ≃* FreeGroup (Fin fg.genToEdge.length)) ∧
        Nonempty (Abelianization (FGP.TGroup simp) ≃* Multiplicative (Fin 3 → ℤ))) ∧
      (decideVerdict f = .no .subgroupCount →
        ∀ Hs, ClassReps fg.genToEdge.length fg.relators 2 Hs → Hs.length ≠ 8) ∧
      (decideVerdict f = .no .subgroups →
        (∀ Hs, ClassReps fg.genToEdge.length fg.relators 2 Hs → Hs.length = 8) ∧
        ∃ (H : Subgroup (G fg.genToEdge.length fg.relators)) (inv : List Nat) (gens srels : List (List Int)),
          H.index ≠ 0 ∧ H.index ≤ 2 ∧ inv ≠ [0, 0, 0] ∧ SpecC14.expected gens.length srels = inv ∧
          Nonempty (PresentedGroup (relSet gens.length srels) ≃* H) ∧
          Nonempty (Abelianization H ≃* Multiplicative (Inv.ZL inv))) ∧
      (decideVerdict f = .maybe .noDecision →
        Nonempty (Abelianization (FGP.TGroup simp) ≃* Multiplicative (Fin 3 → ℤ)) ∧
        fg.relators ≠ [] ∧
        (∀ Hs, ClassReps fg.genToEdge.length fg.relators 2 Hs → Hs.length = 8) ∧
        ∀ H : Subgroup (G fg.genToEdge.length fg.relators), H.index ≠ 0 → H.index ≤ 2 →
          Nonempty (Abelianization H ≃* Multiplicative (Inv.ZL [0, 0, 0]))) :=
  EucP.cascade_reasons_mean simp f hs hdim hf

/-- facts for C09's symbol `<1.1:2:2,2,2:4,3>` (group `*432`, H₁ = ℤ/2, 1 + 1 classes of index ≤ 2):
    the cascade leaves through `cover has at least one handle` -/
def factsB : Facts :=
  { invInTable := true, coverFound := true, simplifyOk := true, keyIsCubic := false, connected := true,
    badComponents := false, invarsZ3 := false, isFree := false, badCount := true, badSubInv := true }

set_option maxRecDepth 100000 in
/-- non-vacuity of `cascade_reasons_mean`: a valid symbol, facts agreeing with the models on it,
    and the exit `handle` -/
example : DS.ValidSym C09.symB ∧ 1 ≤ C09.symB.dim ∧ EucP.CascadeFactsOf C09.symB factsB ∧
    decideVerdict factsB = .no .handle := by
  refine ⟨C09.symB_hyps.1, by decide, ⟨by decide +kernel, (fun h => absurd h (by decide)), fun _ => ?_⟩, by decide⟩
  exact ⟨C09.fgB, [2], C09.symB_hyps.2.2.2.2.1, by decide +kernel, by decide, by decide,
    by decide +kernel, by decide +kernel⟩

open DSymVerif.EucP in
/-- **connected_sum_reasons_mean.**  For a DISCONNECTED `simp` (facts agreeing with the models, the
    facts of every component computed): `no: cover is a non-trivial connected sum` ⇒ the
    components are bad (`ComponentsBad`), `maybe: cover is a (potentially trivial) connected sum`
    ⇒ they are not.  See `bad_connected_components_iff` for what the code takes as a component. -/
theorem connected_sum_reasons_mean (simp : DS.DSymData) (f : Facts) (hf : CascadeFactsOf simp f)
    (c : Nat → CompFacts)
    (hc : ∀ d ∈ simp.view.orbitReps simp.view.indices simp.view.elements, compFacts simp d = .ok (c d)) :
    (decideVerdict f = .no .connectedSum → simp.view.isConnected = false ∧
      ComponentsBad ((simp.view.orbitReps simp.view.indices simp.view.elements).map c)) ∧
    (decideVerdict f = .maybe .connectedSum → simp.view.isConnected = false ∧
      ¬ ComponentsBad ((simp.view.orbitReps simp.view.indices simp.view.elements).map c)) :=
  EucP.connected_sum_reasons_mean simp f hf c hc

/-- two copies of C09's symbol `<1.1:2:2,2,2:4,3>` side by side (disconnected) -/
def symBB : DS.DSymData :=
  { dset := { size := 4, dim := 2, op := #[2, 2, 2, 1, 1, 1, 4, 4, 4, 3, 3, 3] },
    orbitIndex := #[#[0, 0, 0, 1, 1], #[0, 2, 2, 3, 3]], orbitRs := #[1, 1, 1, 1], orbitVs := #[4, 4, 3, 3] }

def factsBB : Facts :=
  { invInTable := true, coverFound := true, simplifyOk := true, keyIsCubic := false, connected := false,
    badComponents := true, invarsZ3 := false, isFree := false, badCount := false, badSubInv := false }

set_option maxRecDepth 100000 in
/-- non-vacuity of `connected_sum_reasons_mean`: a disconnected symbol, facts agreeing with the
    models on it, the facts of both components computed, and the exit `non-trivial connected sum` -/
example : EucP.CascadeFactsOf symBB factsBB ∧
    (∀ d ∈ symBB.view.orbitReps symBB.view.indices symBB.view.elements,
      EucP.compFacts symBB d = .ok ⟨[4], true, true⟩) ∧
    decideVerdict factsBB = .no .connectedSum := by
  refine ⟨⟨by decide +kernel, fun _ => by decide +kernel, fun h => absurd h (by decide)⟩,
    by decide +kernel, by decide⟩

/-! ### 6. the skeleton of the cascade is the one in the source -/

/-- **cascade_skeleton_matches_source.**  The numeric constants of the cascade and the kinds of its
    exits, as written by hand in Model/Euclidicity.lean and used by the theorems above, are the
    ones tools/extract_tables.py regenerates from src/euclidicity.rs on every run:
    `bad_subgroup_count(&fg, 2, 8)`, `bad_subgroup_invariants(&fg, 2, [0,0,0])`, the handle test
    `invars != [0,0,0]`, the two tests of `bad_connected_components` (`[0,0,0]` → index 2 with
    `[0,0,0]`; `[]` → index 5 with `[]`), the cubic key, and the sequence of exit kinds
    (`fail` / `give_up` / `Yes`) in source order; the hand-written list of exits in source order
    is a rearrangement of the eleven rows of `cascadeTable` (which `decide_table` ties to
    `decideVerdict`).  The diagnostic TEXTS are deliberately not part of this (the property speaks
    of the verdict class only).  A change of a constant or of the kind/order of the exits in the
    Rust source breaks this theorem on the next run. -/
theorem cascade_skeleton_matches_source :
    Euc.countArgs = Tables.cascadeCountArgs ∧
    Euc.subgroupArgs = Tables.cascadeSubgroupArgs ∧
    Euc.homologyTest = Tables.cascadeHomology ∧
    Euc.componentTests = Tables.componentTests ∧
    Euc.exitsInSourceOrder.map Verdict.kind = Tables.cascadeKinds ∧
    Euc.exitsInSourceOrder.Nodup ∧ Euc.exitsInSourceOrder.length = cascadeTable.length ∧
    (∀ r ∈ cascadeTable, r.2 ∈ Euc.exitsInSourceOrder) := by
  refine ⟨by decide, by decide, by decide, by decide, by decide, by decide, by decide, by decide⟩

/-- the model of `bad_connected_components` is the parametrised one at the hand-written constants
    (equal to the regenerated ones by `cascade_skeleton_matches_source`) -/
theorem bad_connected_components_uses_constants (s : DS.DSymData) :
    badConnectedComponents s = badConnectedComponentsWith Euc.componentTests s := by
  have key : ∀ (l : List Nat) (seen : Bool),
      badConnectedComponents.go s l seen =
        badConnectedComponentsWith.go s [0, 0, 0] 2 [0, 0, 0] [] 5 [] l seen := by
    intro l
    induction l with
    | nil => intro seen; rfl
    | cons d rest ih =>
      intro seen
      unfold badConnectedComponents.go badConnectedComponentsWith.go
      simp only [ih]
  unfold badConnectedComponents badConnectedComponentsWith Euc.componentTests
  exact key _ _

/-! ### open (not theorems): the statements, for the record -/

/-- `t` is `s` with the chambers renumbered by `p` -/
def IsRenumbering (s t : DS.DSymData) : Prop :=
  s.size = t.size ∧ s.dim = t.dim ∧ ∃ p : Nat → Nat,
    (∀ d, 1 ≤ d → d ≤ s.size → 1 ≤ p d ∧ p d ≤ s.size) ∧
    (∀ d e, 1 ≤ d → d ≤ s.size → 1 ≤ e → e ≤ s.size → p d = p e → d = e) ∧
    (∀ i d, i ≤ s.dim → 1 ≤ d → d ≤ s.size → t.op i (p d) = (s.op i d).map p) ∧
    (∀ i d, i < s.dim → 1 ≤ d → d ≤ s.size → t.vAdj i (p d) = s.vAdj i d)

/-- ◐ invariance (Spec clause `verdict-class-independent-of-numbering-and-dual` on every explored
    case): the part of the verdict the models compute does not depend on the numbering.
    Consistency along covers and soundness of `Yes` (the orbifold group is a crystallographic
    space group) are Spec clauses only as well. -/
def verdict_invariance_statement : Prop :=
  ∀ (s t : DS.DSymData), IsRenumbering s t →
    ∀ (vs vt : Option Verdict × Option DS.DSymData),
      isEuclideanPrefix s = .ok vs → isEuclideanPrefix t = .ok vt → vs.1 = vt.1

end DSymVerif.C17
