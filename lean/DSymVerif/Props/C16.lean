/-
Property C16 — lemma-level theorems about the model of simplify.rs
(Model/Simplify.lean; helper lemmas in Proofs/Simplify.lean, Proofs/SimplifyCut.lean).

What is proved (for all inputs):
  ✔ `grow_spec`, `reglue_involutive`, `reglue_accepts_iff` (the hypothesis of `reglue_involutive`
    is exactly the condition under which no assertion fires), `reglue_complete`, `reglue_empty`
  ○ `collapse_complete` (connector-closed removed set: terminates, no assertion, result described
    chamber by chamber), `collapse_complete_partial` (whatever `collapse` returns is complete),
    `cut_face_commutes`, `cut_tile_commutes`.
  ◐ everything global (sphericity of tiles and vertex figures preserved, homeomorphism type,
    census of the result) is Spec-only: evaluated by Spec/C16.lean on the outputs of the real code.
-/
import DSymVerif.Proofs.Simplify
import DSymVerif.Proofs.SimplifyCut
import DSymVerif.Proofs.SimplifyTile
import DSymVerif.Proofs.SimplifyCollapse

namespace DSymVerif.C16
open DSymVerif DSymVerif.DS DSymVerif.Simp

/-! ### grow -/

/-- ✔ **`grow_spec`.**  On a valid `PartialDSet` (entries are chambers or undefined, defined
    entries are undone by the same operation — the invariant `PartialDSet::set` maintains)
    `grow(ds, m)` never panics; the result has `m` more chambers, each fixed by every operation,
    and every old entry is unchanged. -/
theorem grow_spec {ds : DSetData} (hv : ValidPartialSet ds) (hsize : 1 ≤ ds.size) (hdim : 1 ≤ ds.dim) (m : Nat) :
    ∃ s, grow ds m = .ok s ∧ s.size = ds.size + m ∧ s.dim = ds.dim ∧
      (∀ i d, i ≤ ds.dim → 1 ≤ d → d ≤ ds.size → s.opU i d = ds.opU i d) ∧
      (∀ i d, i ≤ ds.dim → ds.size < d → d ≤ ds.size + m → s.opU i d = d) := by
  obtain ⟨s, h1, h2, h3, _, h5, h6⟩ := grow_ok hv hsize hdim m
  exact ⟨s, h1, h2, h3, h5, h6⟩

example : ∃ s, grow ex8 8 = .ok s ∧ s.size = 16 :=
  let ⟨s, h1, h2, _⟩ := grow_spec ex8_valid.toPartial (by decide) (by decide) 8
  ⟨s, h1, h2⟩

/-! ### reglue -/

/-- ✔ **`reglue_involutive`.**  If the pairs form a matching on the chambers (`IsMatching`: the
    map collected from the pairs sends chambers to chambers and is undone by itself — a pair
    `(d, d)` and a repeated pair are tolerated, a chamber in two different pairs is not) and the
    old `index`-partner of every re-paired chamber is re-paired as well (`ClosedUnder`: nobody is
    left with a dangling entry), then `reglue` returns (no assertion of `build_set`/`set` fires);
    the result has the same size and dimension, its operation `index` is the pairing on paired
    chambers and the old operation elsewhere, every other operation is unchanged, and all
    operations are again (partial) involutions with entries in range. -/
theorem reglue_involutive {ds : DSetData} (hv : ValidPartialSet ds) (hsize : 1 ≤ ds.size) (hdim : 1 ≤ ds.dim)
    {pairs : List (Nat × Nat)} {index : Nat} (hne : pairs ≠ [])
    (hm : IsMatching ds.size pairs) (hc : ClosedUnder ds pairs index) :
    ∃ s, reglue ds pairs index = .ok (some s) ∧ s.size = ds.size ∧ s.dim = ds.dim ∧
      (∀ i d, i ≤ ds.dim → 1 ≤ d → d ≤ ds.size →
        s.opU i d = if i = index then (pairedGet pairs d).getD (ds.opU i d) else ds.opU i d) ∧
      ValidPartialSet s :=
  reglue_ok hv hsize hdim hne hm hc

/-- ✔ the two hypotheses are exactly the condition under which `reglue` returns -/
theorem reglue_accepts_iff {ds : DSetData} (hv : ValidPartialSet ds) (hsize : 1 ≤ ds.size) (hdim : 1 ≤ ds.dim)
    {pairs : List (Nat × Nat)} {index : Nat} (hne : pairs ≠ []) (hidx : index ≤ ds.dim) :
    (∃ s, reglue ds pairs index = .ok (some s)) ↔ (IsMatching ds.size pairs ∧ ClosedUnder ds pairs index) := by
  constructor
  · rintro ⟨s, hs⟩
    exact ⟨reglue_ok_matching hidx hs, reglue_ok_closed hv hidx hs⟩
  · rintro ⟨hm, hc⟩
    obtain ⟨s, hs, _⟩ := reglue_ok hv hsize hdim hne hm hc
    exact ⟨s, hs⟩

/-- the matching 1–3, 2–4 re-glues operation 0 of `ex8` (old partners 1–2, 3–4: closed) -/
example : ∃ s, reglue ex8 [(1, 3), (2, 4)] 0 = .ok (some s) :=
  isOk_exists (x := reglue ex8 [(1, 3), (2, 4)] 0) (by decide +kernel) |>.elim fun o h => by
    cases o with
    | none => exact absurd h (by decide +kernel)
    | some s => exact ⟨s, h⟩

example : IsMatching ex8.size [(1, 3), (2, 4)] ∧ ClosedUnder ex8 [(1, 3), (2, 4)] 0 :=
  (reglue_accepts_iff ex8_valid.toPartial (by decide) (by decide) (by decide) (by decide)).1
    (isOk_exists (x := reglue ex8 [(1, 3), (2, 4)] 0) (by decide +kernel) |>.elim fun o h => by
      cases o with
      | none => exact absurd h (by decide +kernel)
      | some s => exact ⟨s, h⟩)

/-- ✔ on a complete D-set an accepted `reglue` gives a complete D-set: every entry a chamber,
    every operation an involution, the other operations literally unchanged, operation `index`
    equal to the pairing on paired chambers (both ways) and to the old operation elsewhere -/
theorem reglue_complete {ds s : DSetData} {pairs : List (Nat × Nat)} {index : Nat} (hv : ValidSet ds)
    (h : reglue ds pairs index = .ok (some s)) :
    ValidSet s ∧ s.size = ds.size ∧ s.dim = ds.dim ∧
    (∀ i d, i ≤ ds.dim → 1 ≤ d → d ≤ ds.size → i ≠ index → s.opU i d = ds.opU i d) ∧
    (∀ d x, 1 ≤ d → d ≤ ds.size → index ≤ ds.dim → pairedGet pairs d = some x →
        s.opU index d = x ∧ s.opU index x = d) ∧
    (∀ d, 1 ≤ d → d ≤ ds.size → index ≤ ds.dim → pairedGet pairs d = none →
        s.opU index d = ds.opU index d) :=
  reglue_ok_valid hv h

/-- ✔ `reglue` with no pairs declines (`None`), whatever the D-set -/
theorem reglue_empty (ds : DSetData) (index : Nat) : reglue ds [] index = .ok none := rfl

/-! ### collapse -/

/-- ○ **`collapse_complete`.**  On a complete D-set, for a non-empty proper set of chambers that
    is closed under the *connector* (what every caller passes: unions of (2,3)-orbits with
    connector 2, of 3-edges or of (0,1,3)-orbits with connector 3), `collapse` returns: every inner
    `while src2img[e] == 0` loop ends within its `size + 1` rounds (the walk `e ↦ s_i s_c e` started
    at `s_i x` reaches the kept chamber `s_c x` after at most one turn around its cycle), no
    `unwrap`, index check or assertion of `PartialDSet::set` fires, `src2img` / `img2src` are
    mutually inverse on the kept chambers, and the result is a complete D-set with involutive
    operations and `size − |remove|` chambers in which the connector acts as before and every other
    operation leads to the first kept chamber of that walk (`CollapseRes`).
    (DESIGN §6 says "closed under all operations but the connector"; under that hypothesis the
    inner loop never runs and a removed connector neighbour of a kept chamber makes `set` assert:
    the hypothesis that matters is closure under the connector.) -/
theorem collapse_complete {ds : DSetData} {remove : List Nat} {c : Nat} (hv : ValidSet ds)
    (hdim : 1 ≤ ds.dim) (hc : c ≤ ds.dim) (hr : ∀ d ∈ remove, 1 ≤ d ∧ d ≤ ds.size) (hne : remove ≠ [])
    (hlt : distinctCount ds.size remove < ds.size) (hcl : ∀ d ∈ remove, ds.opU c d ∈ remove) :
    ∃ s num, collapse (.dset ds) remove c = .ok (some (.dset s)) ∧ CollapseRes ds remove c s num :=
  collapse_complete_full hv hdim hc hr hne hlt hcl

/-- the s3-edge {1, 5} of `ex8` is closed under the connector 3 -/
example : ∃ s num, collapse (.dset ex8) [1, 5] 3 = .ok (some (.dset s)) ∧ CollapseRes ex8 [1, 5] 3 s num :=
  collapse_complete ex8_valid (by decide) (by decide) (by decide) (by decide) (by decide) (by decide)

/-- ○ **`collapse_complete_partial`.**  Whatever the arguments: every D-set the model of
    `collapse` returns has `size − |remove|` chambers, every entry is a chamber (complete) and every
    operation is an involution — any other closure trips an `unwrap`, an index check or an
    assertion of `PartialDSet::set`. -/
theorem collapse_complete_partial {ds s : DSetData} {remove : List Nat} {connector : Nat}
    (h : collapse (.dset ds) remove connector = .ok (some (.dset s))) :
    ValidSet s ∧ s.size = ds.size - distinctCount ds.size remove ∧ s.dim = ds.dim :=
  collapse_ok_valid h

/-- removing the two chambers 1, 5 (an s3-edge) of `ex8` with connector 3 returns a D-set -/
example : ∃ s, collapse (.dset ex8) [1, 5] 3 = .ok (some (.dset s)) := by
  obtain ⟨o, h⟩ := isOk_exists (x := collapse (.dset ex8) [1, 5] 3) (by decide +kernel)
  match o, h with
  | some (.dset s), h => exact ⟨s, h⟩
  | some .empty, h => exact absurd h (by decide +kernel)
  | none, h => exact absurd h (by decide +kernel)

/-! ### cut_face, cut_tile -/

/-- ○ **`cut_face_commutes`.**  If `cut_face(ds, d1, d2)` returns on a complete 3-dimensional
    D-set with chamber arguments, the result is complete with involutive operations, has 8 more
    chambers, keeps operations 0, 2 and 3 of every old chamber, and every new chamber satisfies
    s0s2 = s2s0, s0s3 = s3s0 and s1s3 = s3s1. -/
theorem cut_face_commutes {ds s : DSetData} (hv : ValidSet ds) (hdim : ds.dim = 3)
    {d1 d2 : Nat} (h11 : 1 ≤ d1) (h12 : d1 ≤ ds.size) (h21 : 1 ≤ d2) (h22 : d2 ≤ ds.size)
    (h : cutFace ds d1 d2 = .ok s) :
    ValidSet s ∧ s.size = ds.size + 8 ∧ s.dim = 3 ∧
    (∀ i d, i ≤ 3 → i ≠ 1 → 1 ≤ d → d ≤ ds.size → s.opU i d = ds.opU i d) ∧
    ∀ c, ds.size < c → c ≤ ds.size + 8 →
      s.opU 2 (s.opU 0 c) = s.opU 0 (s.opU 2 c) ∧ s.opU 3 (s.opU 0 c) = s.opU 0 (s.opU 3 c) ∧
      s.opU 3 (s.opU 1 c) = s.opU 1 (s.opU 3 c) :=
  let ⟨a, b, c, d, e, _⟩ := cutFace_commutes hv hdim h11 h12 h21 h22 h
  ⟨a, b, c, d, e⟩

/-- `cut_face(ex8, 1, 2)` returns: the eight old chambers 1, 2, 6, 5, 3, 4, 8, 7 are distinct -/
example : ∃ s, cutFace ex8 1 2 = .ok s := isOk_exists (by decide +kernel)

/-- ○ **`cut_tile_commutes`.**  If `cut_tile(ds, cut_chambers)` returns on a complete
    3-dimensional D-set with chamber arguments, the result is complete with involutive operations,
    has 2m more chambers, keeps operations 0, 1 and 3 of every old chamber, and every new chamber
    satisfies s0s3 = s3s0 and s1s3 = s3s1 by construction; if moreover the cut chambers come in
    0-adjacent pairs (`s0 cut[k] = cut[k xor 1]`, as `split_and_glue_attempt` builds them) on which
    s0 and s2 commute in the old D-set, the new chambers also satisfy s0s2 = s2s0. -/
theorem cut_tile_commutes {ds s : DSetData} (hv : ValidSet ds) (hdim : ds.dim = 3) {cut : List Nat}
    (hcut : ∀ k, k < cut.length → 1 ≤ cut.getD k 0 ∧ cut.getD k 0 ≤ ds.size)
    (h : cutTile ds cut = .ok s) :
    ValidSet s ∧ s.size = ds.size + 2 * cut.length ∧ s.dim = 3 ∧
    (∀ i d, i ≤ 3 → i ≠ 2 → 1 ≤ d → d ≤ ds.size → s.opU i d = ds.opU i d) ∧
    (∀ c, ds.size < c → c ≤ ds.size + 2 * cut.length →
      s.opU 3 (s.opU 0 c) = s.opU 0 (s.opU 3 c) ∧ s.opU 3 (s.opU 1 c) = s.opU 1 (s.opU 3 c)) ∧
    ((∀ k, k < cut.length → ds.opU 0 (cut.getD k 0) = cut.getD (if k % 2 = 0 then k + 1 else k - 1) 0) →
     (∀ k, k < cut.length → ds.opU 2 (ds.opU 0 (cut.getD k 0)) = ds.opU 0 (ds.opU 2 (cut.getD k 0))) →
     ∀ c, ds.size < c → c ≤ ds.size + 2 * cut.length → s.opU 2 (s.opU 0 c) = s.opU 0 (s.opU 2 c)) :=
  let ⟨a, b, c, d, e, f, _⟩ := cutTile_commutes hv hdim hcut h
  ⟨a, b, c, d, e, f⟩

/-- `cut_tile(ex8, [1, 2])` returns (opposites 4, 3), and 1, 2 are 0-adjacent -/
example : (∃ s, cutTile ex8 [1, 2] = .ok s) ∧ ex8.opU 0 1 = 2 ∧ ex8.opU 0 2 = 1 :=
  ⟨isOk_exists (by decide +kernel), by decide, by decide⟩

end DSymVerif.C16
