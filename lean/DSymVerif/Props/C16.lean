/-
Property C16 — lemma-level theorems about the model of simplify.rs
(Model/Simplify.lean; helper lemmas in Proofs/Simplify.lean, Proofs/SimplifyCut.lean).

What is proved (for all inputs):
  ✔ `grow_spec`, `reglue_involutive`, `reglue_accepts_iff` (the hypothesis of `reglue_involutive`
    is exactly the condition under which no assertion fires), `reglue_complete`, `reglue_empty`
  ○ `collapse_complete` (connector-closed removed set: terminates, no assertion, result described
    chamber by chamber), `collapse_complete_partial` (whatever `collapse` returns is complete),
    `cut_face_commutes`, `cut_tile_commutes`.
  ◐ everything global (sphericity of tiles and vertex figures preserved, homeomorphism type,
    census of the result) is Spec-only: evaluated by Spec/C16.lean on the outputs of the real code.
-/
import DSymVerif.Proofs.Simplify
import DSymVerif.Proofs.SimplifyCut
import DSymVerif.Proofs.SimplifyTile
import DSymVerif.Proofs.SimplifyCollapse
import DSymVerif.Proofs.SimplifySteps
import DSymVerif.Proofs.SimplifySkeleton
import DSymVerif.Proofs.SimplifyManifold
import DSymVerif.Proofs.SimplifyOriented
import DSymVerif.Proofs.SimplifySplit
import DSymVerif.Proofs.FundGroupInnerFaces

namespace DSymVerif.C16
open DSymVerif DSymVerif.DS DSymVerif.Simp

/-! ### grow -/

/-- ✔ **`grow_spec`.**  On a valid `PartialDSet` (entries are chambers or undefined, defined
    entries are undone by the same operation — the invariant `PartialDSet::set` maintains)
    `grow(ds, m)` never panics; the result has `m` more chambers, each fixed by every operation,
    and every old entry is unchanged. -/
theorem grow_spec {ds : DSetData} (hv : ValidPartialSet ds) (hsize : 1 ≤ ds.size) (hdim : 1 ≤ ds.dim) (m : Nat) :
    ∃ s, grow ds m = .ok s ∧ s.size = ds.size + m ∧ s.dim = ds.dim ∧
      (∀ i d, i ≤ ds.dim → 1 ≤ d → d ≤ ds.size → s.opU i d = ds.opU i d) ∧
      (∀ i d, i ≤ ds.dim → ds.size < d → d ≤ ds.size + m → s.opU i d = d) := by
  obtain ⟨s, h1, h2, h3, _, h5, h6⟩ := grow_ok hv hsize hdim m
  exact ⟨s, h1, h2, h3, h5, h6⟩

example : ∃ s, grow ex8 8 = .ok s ∧ s.size = 16 :=
  let ⟨s, h1, h2, _⟩ := grow_spec ex8_valid.toPartial (by decide) (by decide) 8
  ⟨s, h1, h2⟩

/-! ### reglue -/

/-- ✔ **`reglue_involutive`.**  If the pairs form a matching on the chambers (`IsMatching`: the
    map collected from the pairs sends chambers to chambers and is undone by itself — a pair
    `(d, d)` and a repeated pair are tolerated, a chamber in two different pairs is not) and the
    old `index`-partner of every re-paired chamber is re-paired as well (`ClosedUnder`: nobody is
    left with a dangling entry), then `reglue` returns (no assertion of `build_set`/`set` fires);
    the result has the same size and dimension, its operation `index` is the pairing on paired
    chambers and the old operation elsewhere, every other operation is unchanged, and all
    operations are again (partial) involutions with entries in range. -/
theorem reglue_involutive {ds : DSetData} (hv : ValidPartialSet ds) (hsize : 1 ≤ ds.size) (hdim : 1 ≤ ds.dim)
    {pairs : List (Nat × Nat)} {index : Nat} (hne : pairs ≠ [])
    (hm : IsMatching ds.size pairs) (hc : ClosedUnder ds pairs index) :
    ∃ s, reglue ds pairs index = .ok (some s) ∧ s.size = ds.size ∧ s.dim = ds.dim ∧
      (∀ i d, i ≤ ds.dim → 1 ≤ d → d ≤ ds.size →
        s.opU i d = if i = index then (pairedGet pairs d).getD (ds.opU i d) else ds.opU i d) ∧
      ValidPartialSet s :=
  reglue_ok hv hsize hdim hne hm hc

/-- ✔ the two hypotheses are exactly the condition under which `reglue` returns -/
theorem reglue_accepts_iff {ds : DSetData} (hv : ValidPartialSet ds) (hsize : 1 ≤ ds.size) (hdim : 1 ≤ ds.dim)
    {pairs : List (Nat × Nat)} {index : Nat} (hne : pairs ≠ []) (hidx : index ≤ ds.dim) :
    (∃ s, reglue ds pairs index = .ok (some s)) ↔ (IsMatching ds.size pairs ∧ ClosedUnder ds pairs index) := by
  constructor
  · rintro ⟨s, hs⟩
    exact ⟨reglue_ok_matching hidx hs, reglue_ok_closed hv hidx hs⟩
  · rintro ⟨hm, hc⟩
    obtain ⟨s, hs, _⟩ := reglue_ok hv hsize hdim hne hm hc
    exact ⟨s, hs⟩

/-- the matching 1–3, 2–4 re-glues operation 0 of `ex8` (old partners 1–2, 3–4: closed) -/
example : ∃ s, reglue ex8 [(1, 3), (2, 4)] 0 = .ok (some s) :=
  isOk_exists (x := reglue ex8 [(1, 3), (2, 4)] 0) (by decide +kernel) |>.elim fun o h => by
    cases o with
    | none => exact absurd h (by decide +kernel)
    | some s => exact ⟨s, h⟩

example : IsMatching ex8.size [(1, 3), (2, 4)] ∧ ClosedUnder ex8 [(1, 3), (2, 4)] 0 :=
  (reglue_accepts_iff ex8_valid.toPartial (by decide) (by decide) (by decide) (by decide)).1
    (isOk_exists (x := reglue ex8 [(1, 3), (2, 4)] 0) (by decide +kernel) |>.elim fun o h => by
      cases o with
      | none => exact absurd h (by decide +kernel)
      | some s => exact ⟨s, h⟩)

/-- ✔ on a complete D-set an accepted `reglue` gives a complete D-set: every entry a chamber,
    every operation an involution, the other operations literally unchanged, operation `index`
    equal to the pairing on paired chambers (both ways) and to the old operation elsewhere -/
theorem reglue_complete {ds s : DSetData} {pairs : List (Nat × Nat)} {index : Nat} (hv : ValidSet ds)
    (h : reglue ds pairs index = .ok (some s)) :
    ValidSet s ∧ s.size = ds.size ∧ s.dim = ds.dim ∧
    (∀ i d, i ≤ ds.dim → 1 ≤ d → d ≤ ds.size → i ≠ index → s.opU i d = ds.opU i d) ∧
    (∀ d x, 1 ≤ d → d ≤ ds.size → index ≤ ds.dim → pairedGet pairs d = some x →
        s.opU index d = x ∧ s.opU index x = d) ∧
    (∀ d, 1 ≤ d → d ≤ ds.size → index ≤ ds.dim → pairedGet pairs d = none →
        s.opU index d = ds.opU index d) :=
  reglue_ok_valid hv h

/-- ✔ `reglue` with no pairs declines (`None`), whatever the D-set -/
theorem reglue_empty (ds : DSetData) (index : Nat) : reglue ds [] index = .ok none := rfl

/-! ### collapse -/

/-- ○ **`collapse_complete`.**  On a complete D-set, for a non-empty proper set of chambers that
    is closed under the *connector* (what every caller passes: unions of (2,3)-orbits with
    connector 2, of 3-edges or of (0,1,3)-orbits with connector 3), `collapse` returns: every inner
    `while src2img[e] == 0` loop ends within its `size + 1` rounds (the walk `e ↦ s_i s_c e` started
    at `s_i x` reaches the kept chamber `s_c x` after at most one turn around its cycle), no
    `unwrap`, index check or assertion of `PartialDSet::set` fires, `src2img` / `img2src` are
    mutually inverse on the kept chambers, and the result is a complete D-set with involutive
    operations and `size − |remove|` chambers in which the connector acts as before and every other
    operation leads to the first kept chamber of that walk (`CollapseRes`).
    (DESIGN §6 says "closed under all operations but the connector"; under that hypothesis the
    inner loop never runs and a removed connector neighbour of a kept chamber makes `set` assert:
    the hypothesis that matters is closure under the connector.) -/
theorem collapse_complete {ds : DSetData} {remove : List Nat} {c : Nat} (hv : ValidSet ds)
    (hdim : 1 ≤ ds.dim) (hc : c ≤ ds.dim) (hr : ∀ d ∈ remove, 1 ≤ d ∧ d ≤ ds.size) (hne : remove ≠ [])
    (hlt : distinctCount ds.size remove < ds.size) (hcl : ∀ d ∈ remove, ds.opU c d ∈ remove) :
    ∃ s num, collapse (.dset ds) remove c = .ok (some (.dset s)) ∧ CollapseRes ds remove c s num :=
  collapse_complete_full hv hdim hc hr hne hlt hcl

/-- the s3-edge {1, 5} of `ex8` is closed under the connector 3 -/
example : ∃ s num, collapse (.dset ex8) [1, 5] 3 = .ok (some (.dset s)) ∧ CollapseRes ex8 [1, 5] 3 s num :=
  collapse_complete ex8_valid (by decide) (by decide) (by decide) (by decide) (by decide) (by decide)

/-- ○ **`collapse_complete_partial`.**  Whatever the arguments: every D-set the model of
    `collapse` returns has `size − |remove|` chambers, every entry is a chamber (complete) and every
    operation is an involution — any other closure trips an `unwrap`, an index check or an
    assertion of `PartialDSet::set`. -/
theorem collapse_complete_partial {ds s : DSetData} {remove : List Nat} {connector : Nat}
    (h : collapse (.dset ds) remove connector = .ok (some (.dset s))) :
    ValidSet s ∧ s.size = ds.size - distinctCount ds.size remove ∧ s.dim = ds.dim :=
  collapse_ok_valid h

/-- removing the two chambers 1, 5 (an s3-edge) of `ex8` with connector 3 returns a D-set -/
example : ∃ s, collapse (.dset ex8) [1, 5] 3 = .ok (some (.dset s)) := by
  obtain ⟨o, h⟩ := isOk_exists (x := collapse (.dset ex8) [1, 5] 3) (by decide +kernel)
  match o, h with
  | some (.dset s), h => exact ⟨s, h⟩
  | some .empty, h => exact absurd h (by decide +kernel)
  | none, h => exact absurd h (by decide +kernel)

/-! ### cut_face, cut_tile -/

/-- ○ **`cut_face_commutes`.**  If `cut_face(ds, d1, d2)` returns on a complete 3-dimensional
    D-set with chamber arguments, the result is complete with involutive operations, has 8 more
    chambers, keeps operations 0, 2 and 3 of every old chamber, and every new chamber satisfies
    s0s2 = s2s0, s0s3 = s3s0 and s1s3 = s3s1. -/
theorem cut_face_commutes {ds s : DSetData} (hv : ValidSet ds) (hdim : ds.dim = 3)
    {d1 d2 : Nat} (h11 : 1 ≤ d1) (h12 : d1 ≤ ds.size) (h21 : 1 ≤ d2) (h22 : d2 ≤ ds.size)
    (h : cutFace ds d1 d2 = .ok s) :
    ValidSet s ∧ s.size = ds.size + 8 ∧ s.dim = 3 ∧
    (∀ i d, i ≤ 3 → i ≠ 1 → 1 ≤ d → d ≤ ds.size → s.opU i d = ds.opU i d) ∧
    ∀ c, ds.size < c → c ≤ ds.size + 8 →
      s.opU 2 (s.opU 0 c) = s.opU 0 (s.opU 2 c) ∧ s.opU 3 (s.opU 0 c) = s.opU 0 (s.opU 3 c) ∧
      s.opU 3 (s.opU 1 c) = s.opU 1 (s.opU 3 c) :=
  let ⟨a, b, c, d, e, _⟩ := cutFace_commutes hv hdim h11 h12 h21 h22 h
  ⟨a, b, c, d, e⟩

/-- `cut_face(ex8, 1, 2)` returns: the eight old chambers 1, 2, 6, 5, 3, 4, 8, 7 are distinct -/
example : ∃ s, cutFace ex8 1 2 = .ok s := isOk_exists (by decide +kernel)

/-- ○ **`cut_tile_commutes`.**  If `cut_tile(ds, cut_chambers)` returns on a complete
    3-dimensional D-set with chamber arguments, the result is complete with involutive operations,
    has 2m more chambers, keeps operations 0, 1 and 3 of every old chamber, and every new chamber
    satisfies s0s3 = s3s0 and s1s3 = s3s1 by construction; if moreover the cut chambers come in
    0-adjacent pairs (`s0 cut[k] = cut[k xor 1]`, as `split_and_glue_attempt` builds them) on which
    s0 and s2 commute in the old D-set, the new chambers also satisfy s0s2 = s2s0. -/
theorem cut_tile_commutes {ds s : DSetData} (hv : ValidSet ds) (hdim : ds.dim = 3) {cut : List Nat}
    (hcut : ∀ k, k < cut.length → 1 ≤ cut.getD k 0 ∧ cut.getD k 0 ≤ ds.size)
    (h : cutTile ds cut = .ok s) :
    ValidSet s ∧ s.size = ds.size + 2 * cut.length ∧ s.dim = 3 ∧
    (∀ i d, i ≤ 3 → i ≠ 2 → 1 ≤ d → d ≤ ds.size → s.opU i d = ds.opU i d) ∧
    (∀ c, ds.size < c → c ≤ ds.size + 2 * cut.length →
      s.opU 3 (s.opU 0 c) = s.opU 0 (s.opU 3 c) ∧ s.opU 3 (s.opU 1 c) = s.opU 1 (s.opU 3 c)) ∧
    ((∀ k, k < cut.length → ds.opU 0 (cut.getD k 0) = cut.getD (if k % 2 = 0 then k + 1 else k - 1) 0) →
     (∀ k, k < cut.length → ds.opU 2 (ds.opU 0 (cut.getD k 0)) = ds.opU 0 (ds.opU 2 (cut.getD k 0))) →
     ∀ c, ds.size < c → c ≤ ds.size + 2 * cut.length → s.opU 2 (s.opU 0 c) = s.opU 0 (s.opU 2 c)) :=
  let ⟨a, b, c, d, e, f, _⟩ := cutTile_commutes hv hdim hcut h
  ⟨a, b, c, d, e, f⟩

/-- `cut_tile(ex8, [1, 2])` returns (opposites 4, 3), and 1, 2 are 0-adjacent -/
example : (∃ s, cutTile ex8 [1, 2] = .ok s) ∧ ex8.opU 0 1 = 2 ∧ ex8.opU 0 2 = 1 :=
  ⟨isOk_exists (by decide +kernel), by decide, by decide⟩

/-! ### the D-set axioms as invariants of the modelled steps

`Axioms3 ds` = complete with involutive operations (`ValidSet`), dimension 3, far operations
commute (s0s2, s0s3, s1s3: the D-symbol axiom m_ij = 2).  These are the Spec clauses
"entries-in-range-and-involutive", "complete", "far-operations-commute" of Spec/C16, now theorems
about every modelled deterministic step.  `merge_tiles` rests on `FGP.innerWallsAreFaces` (w-c09:
the 3-edges `inner_edges` declares inner come in whole faces), which is proved, so only one kind
of hypothesis remains explicit:
  * general position of the local moves: the eight chambers a corner re-gluing / squeeze touches
    are distinct (true in loopless oriented D-sets away from self-glued faces; in the degenerate
    coincidences the real code still runs and is covered by the Spec, not by these theorems). -/

/-- ○ **`collapse` preserves commuting far operations** when the removed set is closed under every
    operation but one (`j`, re-routed around the removed chambers) and the operations far from `j`
    commute with the connector on the removed set.  Covers all four callers. -/
theorem collapse_preserves_far_commute {ds s : DSetData} {num : Nat → Nat} {remove : List Nat} {c j : Nat}
    (hv : ValidSet ds) (hf : FarCommute ds) (res : CollapseRes ds remove c s num)
    (hc : c ≤ ds.dim) (hj : j ≤ ds.dim)
    (hclosed : ∀ i, i ≤ ds.dim → i ≠ j → ∀ d ∈ remove, ds.opU i d ∈ remove)
    (hcomm : ∀ k, k ≤ ds.dim → (k + 1 < j ∨ j + 1 < k) → ∀ d ∈ remove,
      ds.opU k (ds.opU c d) = ds.opU c (ds.opU k d)) :
    FarCommute s :=
  collapse_far_commute hv hf res hc hj hclosed hcomm

/-- ○ **`reglue` preserves commuting far operations** when the pairing is equivariant under every
    operation far from `index` -/
theorem reglue_preserves_far_commute {ds s : DSetData} {pairs : List (Nat × Nat)} {index : Nat} (hv : ValidSet ds)
    (hf : FarCommute ds) (h : reglue ds pairs index = .ok (some s)) (hidx : index ≤ ds.dim)
    (heq : ∀ k, k ≤ ds.dim → (k + 1 < index ∨ index + 1 < k) → ∀ x y, 1 ≤ x → x ≤ ds.size →
      pairedGet pairs x = some y → pairedGet pairs (ds.opU k x) = some (ds.opU k y)) :
    FarCommute s :=
  reglue_far_commute hv hf h hidx heq

/-- ○ **`cut_face` keeps the D-set axioms** -/
theorem cut_face_preserves_axioms {ds s : DSetData} (hax : Axioms3 ds)
    {d1 d2 : Nat} (h11 : 1 ≤ d1) (h12 : d1 ≤ ds.size) (h21 : 1 ≤ d2) (h22 : d2 ≤ ds.size)
    (h : cutFace ds d1 d2 = .ok s) : Axioms3 s :=
  let ⟨a, _, c, _, _, f, _⟩ := cutFace_commutes hax.1 hax.2.1 h11 h12 h21 h22 h
  ⟨a, c, f hax.2.2⟩

example : Axioms3 ex8 ∧ ∃ s, cutFace ex8 1 2 = .ok s :=
  ⟨axioms3_of_bool (by decide) rfl (by decide), isOk_exists (by decide +kernel)⟩

/-- ○ **`cut_tile` keeps the D-set axioms** when the cut chambers come in 0-adjacent pairs
    (`s0 cut[k] = cut[k xor 1]`, as `split_and_glue_attempt` builds them) -/
theorem cut_tile_preserves_axioms {ds s : DSetData} (hax : Axioms3 ds) {cut : List Nat}
    (hcut : ∀ k, k < cut.length → 1 ≤ cut.getD k 0 ∧ cut.getD k 0 ≤ ds.size)
    (hadj : ∀ k, k < cut.length → ds.opU 0 (cut.getD k 0) = cut.getD (if k % 2 = 0 then k + 1 else k - 1) 0)
    (h : cutTile ds cut = .ok s) : Axioms3 s :=
  let ⟨a, _, c, _, _, _, f, _⟩ := cutTile_commutes hax.1 hax.2.1 hcut h
  ⟨a, c, f hadj hax.2.2⟩

example : Axioms3 ex8 ∧ (∃ s, cutTile ex8 [1, 2] = .ok s) ∧ ex8.opU 0 1 = 2 ∧ ex8.opU 0 2 = 1 :=
  ⟨axioms3_of_bool (by decide) rfl (by decide), isOk_exists (by decide +kernel), by decide, by decide⟩

/-- ○ **`squeeze_tile_3d` keeps the D-set axioms** (the eight chambers involved distinct) -/
theorem squeeze_preserves_axioms {ds s : DSetData} (hax : Axioms3 ds)
    {d e : Nat} (hd1 : 1 ≤ d) (hd2 : d ≤ ds.size) (he1 : 1 ≤ e) (he2 : e ≤ ds.size)
    (hnd : [ds.opU 0 e, d, ds.opU 0 d, e, ds.opU 2 (ds.opU 0 e), ds.opU 2 d, ds.opU 2 (ds.opU 0 d), ds.opU 2 e].Nodup)
    (h : squeezeTile3d ds d e = .ok s) : Axioms3 s :=
  let ⟨a, _, c, f⟩ := squeeze_far_commute hax.1 hax.2.1 hax.2.2 hd1 hd2 he1 he2 hnd h
  ⟨a, by rw [c]; exact hax.2.1, f⟩

/-- in `exFix2` (a state of the real pipeline) the chambers 1 and 3 are in general position -/
example : Axioms3 exFix2 ∧ [exFix2.opU 0 3, 1, exFix2.opU 0 1, 3, exFix2.opU 2 (exFix2.opU 0 3), exFix2.opU 2 1,
    exFix2.opU 2 (exFix2.opU 0 1), exFix2.opU 2 3].Nodup ∧ ∃ s, squeezeTile3d exFix2 1 3 = .ok s :=
  ⟨axioms3_of_bool (by decide +kernel) rfl (by decide +kernel), by decide +kernel, isOk_exists (by decide +kernel)⟩

/-- ○ **`merge_facets` keeps the D-set axioms** — unconditionally: the junk list (all (2,3)-orbits
    of length 2, computed by `orbit_reps` / `r` / `orbit`) is closed under s0, s2, s3, the
    operations s2, s3 commute on it, and `collapse` with connector 2 re-routes s1 around it. -/
theorem merge_facets_preserves_axioms {ds s : DSetData} (hax : Axioms3 ds)
    (h : mergeFacets (.dset ds) = .ok (some (.dset s))) : Axioms3 s :=
  mergeFacets_preserves hax.1 hax.2.1 hax.2.2 h

example : Axioms3 exFacets ∧ ∃ s, mergeFacets (.dset exFacets) = .ok (some (.dset s)) :=
  ⟨axioms3_of_bool (by decide +kernel) rfl (by decide +kernel), returnsDSet_exists (by decide +kernel)⟩

/-- ○ **`merge_tiles` keeps the D-set axioms** — unconditionally: the walls it removes consist of
    whole faces (`FGP.innerWallsAreFaces`, proved by w-c09 about `inner_edges`: saturation of
    `glue_recursively` + the index priority of `Traversal`), so `collapse` with connector 3 only
    re-routes s2. -/
theorem merge_tiles_preserves_axioms {ds s : DSetData} (hax : Axioms3 ds)
    (h : mergeTiles (.dset ds) = .ok (some (.dset s))) : Axioms3 s :=
  mergeTiles_model_preserves hax (DSymVerif.FGP.innerWallsAreFaces ds hax) h

example : Axioms3 exTiles ∧ ∃ s, mergeTiles (.dset exTiles) = .ok (some (.dset s)) :=
  ⟨axioms3_of_bool (by decide +kernel) rfl (by decide +kernel), returnsDSet_exists (by decide +kernel)⟩

/-- ○ **`dual` keeps the D-set axioms** -/
theorem dual_preserves_axioms {ds s : DSetData} (hax : Axioms3 ds)
    (h : Simp.dual (.dset ds) = .ok (some (.dset s))) : Axioms3 s :=
  dual_axioms hax h

example : Axioms3 ex8 ∧ ∃ s, Simp.dual (.dset ex8) = .ok (some (.dset s)) :=
  ⟨axioms3_of_bool (by decide) rfl (by decide), returnsDSet_exists (by decide +kernel)⟩

/-- ○ **`merge_all` keeps the D-set axioms** -/
theorem merge_all_preserves_axioms {ds s : DSetData} (hax : Axioms3 ds)
    (h : mergeAll (.dset ds) = .ok (some (.dset s))) : Axioms3 s :=
  mergeAll_preserves DSymVerif.FGP.innerWallsAreFaces hax h

example : Axioms3 exAll ∧ ∃ s, mergeAll (.dset exAll) = .ok (some (.dset s)) :=
  ⟨axioms3_of_bool (by decide +kernel) rfl (by decide +kernel), returnsDSet_exists (by decide +kernel)⟩

/-- ○ **`fix_local_1_vertex` keeps the D-set axioms** (the eight chambers of the corner re-gluing
    it performs distinct) -/
theorem fix_local_1_vertex_preserves_axioms {ds s : DSetData} (hax : Axioms3 ds)
    (hnd : ∀ c, 1 ≤ c → c ≤ ds.size → fixLocal1Body ds c = .ok (some (.dset s)) →
      [ds.opU 0 (ds.opU 1 c), ds.opU 1 (ds.opU 1 (ds.opU 0 c)), ds.opU 1 (ds.opU 0 c),
        ds.opU 1 (ds.opU 0 (ds.opU 1 c)), ds.opU 3 (ds.opU 0 (ds.opU 1 c)),
        ds.opU 1 (ds.opU 3 (ds.opU 1 (ds.opU 0 c))), ds.opU 3 (ds.opU 1 (ds.opU 0 c)),
        ds.opU 1 (ds.opU 3 (ds.opU 0 (ds.opU 1 c)))].Nodup)
    (h : fixLocal1Vertex (.dset ds) = .ok (some (.dset s))) : Axioms3 s :=
  fixLocal1Vertex_preserves hax.1 hax.2.1 hax.2.2 hnd h

/-- ○ **`fix_local_2_vertex` keeps the D-set axioms** (the eight chambers of the squeeze it performs
    distinct in the D-set after the face cuts, `fix2Pre`) -/
theorem fix_local_2_vertex_preserves_axioms {ds s : DSetData} (hax : Axioms3 ds)
    (hnd : ∀ d ds' a b, 1 ≤ d → d ≤ ds.size → fix2Pre ds d = .ok (ds', a, b) →
      [ds'.opU 0 b, a, ds'.opU 0 a, b, ds'.opU 2 (ds'.opU 0 b), ds'.opU 2 a, ds'.opU 2 (ds'.opU 0 a),
        ds'.opU 2 b].Nodup)
    (h : fixLocal2Vertex (.dset ds) = .ok (some (.dset s))) : Axioms3 s :=
  fixLocal2Vertex_preserves hax.1 hax.2.1 hax.2.2 hnd h

/-- in `exFix2` (a state of the real pipeline on which `fix_local_2_vertex` fires) the first
    orbit representative, chamber 1, is a vertex of degree 2 that is not skipped (evaluating the
    whole move in the kernel takes minutes; the harness compares it with the real code) -/
example : Axioms3 exFix2 ∧ Simp.r exFix2 1 2 1 = .ok 2 ∧ fixLocal2Skip exFix2 1 = .ok false :=
  ⟨axioms3_of_bool (by decide +kernel) rfl (by decide +kernel), by decide +kernel, by decide +kernel⟩

/-- ○ **`fix_non_disk_face` keeps the D-set axioms** (the eight chambers of the corner re-gluing it
    performs distinct) -/
theorem fix_non_disk_face_preserves_axioms {ds s : DSetData} (hax : Axioms3 ds)
    (hnd : ∀ d e, 1 ≤ d → d ≤ ds.size → 1 ≤ e → e ≤ ds.size → nonDiskGlue ds d e = .ok (some (.dset s)) →
      [d, ds.opU 1 e, e, ds.opU 1 d, ds.opU 3 d, ds.opU 1 (ds.opU 3 e), ds.opU 3 e, ds.opU 1 (ds.opU 3 d)].Nodup)
    (h : fixNonDiskFace (.dset ds) = .ok (some (.dset s))) : Axioms3 s :=
  fixNonDiskFace_preserves hax.1 hax.2.1 hax.2.2 hnd h

example : Axioms3 exFnd ∧ ∃ s, fixNonDiskFace (.dset exFnd) = .ok (some (.dset s)) :=
  ⟨axioms3_of_bool (by decide +kernel) rfl (by decide +kernel), returnsDSet_exists (by decide +kernel)⟩

/-- ○ **`simplify_step_preserves_dset_axioms`.**  Every modelled deterministic step of `simplify`
    maps a complete 3-dimensional D-set with involutive operations and commuting far operations to
    one again (hypotheses as explained above; `split_and_glue` is not modelled — its building
    blocks `cut_face`, `cut_tile`, `collapse` are covered by the theorems above). -/
theorem simplify_step_preserves_dset_axioms {ds s : DSetData} (hax : Axioms3 ds) :
    (mergeTiles (.dset ds) = .ok (some (.dset s)) → Axioms3 s) ∧
    (mergeFacets (.dset ds) = .ok (some (.dset s)) → Axioms3 s) ∧
    (Simp.dual (.dset ds) = .ok (some (.dset s)) → Axioms3 s) ∧
    (mergeAll (.dset ds) = .ok (some (.dset s)) → Axioms3 s) ∧
    (fixLocal1Vertex (.dset ds) = .ok (some (.dset s)) →
      (∀ c, 1 ≤ c → c ≤ ds.size → fixLocal1Body ds c = .ok (some (.dset s)) →
        [ds.opU 0 (ds.opU 1 c), ds.opU 1 (ds.opU 1 (ds.opU 0 c)), ds.opU 1 (ds.opU 0 c),
          ds.opU 1 (ds.opU 0 (ds.opU 1 c)), ds.opU 3 (ds.opU 0 (ds.opU 1 c)),
          ds.opU 1 (ds.opU 3 (ds.opU 1 (ds.opU 0 c))), ds.opU 3 (ds.opU 1 (ds.opU 0 c)),
          ds.opU 1 (ds.opU 3 (ds.opU 0 (ds.opU 1 c)))].Nodup) → Axioms3 s) ∧
    (fixLocal2Vertex (.dset ds) = .ok (some (.dset s)) →
      (∀ d ds' a b, 1 ≤ d → d ≤ ds.size → fix2Pre ds d = .ok (ds', a, b) →
        [ds'.opU 0 b, a, ds'.opU 0 a, b, ds'.opU 2 (ds'.opU 0 b), ds'.opU 2 a, ds'.opU 2 (ds'.opU 0 a),
          ds'.opU 2 b].Nodup) → Axioms3 s) ∧
    (fixNonDiskFace (.dset ds) = .ok (some (.dset s)) →
      (∀ d e, 1 ≤ d → d ≤ ds.size → 1 ≤ e → e ≤ ds.size → nonDiskGlue ds d e = .ok (some (.dset s)) →
        [d, ds.opU 1 e, e, ds.opU 1 d, ds.opU 3 d, ds.opU 1 (ds.opU 3 e), ds.opU 3 e,
          ds.opU 1 (ds.opU 3 d)].Nodup) → Axioms3 s) :=
  ⟨fun h => mergeTiles_model_preserves hax (DSymVerif.FGP.innerWallsAreFaces ds hax) h,
   fun h => mergeFacets_preserves hax.1 hax.2.1 hax.2.2 h,
   fun h => dual_axioms hax h,
   fun h => mergeAll_preserves DSymVerif.FGP.innerWallsAreFaces hax h,
   fun h hnd => fixLocal1Vertex_preserves hax.1 hax.2.1 hax.2.2 hnd h,
   fun h hnd => fixLocal2Vertex_preserves hax.1 hax.2.1 hax.2.2 hnd h,
   fun h hnd => fixNonDiskFace_preserves hax.1 hax.2.1 hax.2.2 hnd h⟩


/-! ### make_skeleton, network_edges: the graph `split_and_glue` cuts -/

/-- ○ **`make_skeleton` is the 1-skeleton graph of the tiles.**  On a complete D-set on which s0 and
    s2 commute `make_skeleton` returns `(elm_to_index, reps, edges)`: `reps` has one chamber per
    (1,2)-orbit (vertex of a tile), two chambers have the same `elm_to_index` iff they lie in the same
    (1,2)-orbit (and the index points at the rep of that orbit), and `(a, b) ∈ edges` iff a ≤ b are
    the vertex indices at the two ends `d`, `s0 d` of some (0,2)-orbit (edge of a tile). -/
theorem make_skeleton_is_tile_skeleton {ds : DSetData} (hv : ValidSet ds) (hdim : 2 ≤ ds.dim)
    (hc02 : ∀ x, 1 ≤ x → x ≤ ds.size → ds.opU 2 (ds.opU 0 x) = ds.opU 0 (ds.opU 2 x)) :
    ∃ e2i edges, makeSkeleton ds = .ok (e2i, ds.viewPartial.orbitReps [1, 2] (seedsIncl ds), edges) ∧
      e2i.size = ds.size + 1 ∧
      (∀ x, 1 ≤ x → x ≤ ds.size →
        ∃ r, (ds.viewPartial.orbitReps [1, 2] (seedsIncl ds))[e2i.getD x 0]? = some r ∧
          ds.viewPartial.Reach [1, 2] r x) ∧
      (∀ x y, 1 ≤ x → x ≤ ds.size → 1 ≤ y → y ≤ ds.size →
        (e2i.getD x 0 = e2i.getD y 0 ↔ ds.viewPartial.Reach [1, 2] x y)) ∧
      (∀ p, p ∈ edges ↔ ∃ d, 1 ≤ d ∧ d ≤ ds.size ∧
        p = (min (e2i.getD d 0) (e2i.getD (ds.opU 0 d) 0), max (e2i.getD d 0) (e2i.getD (ds.opU 0 d) 0))) :=
  makeSkeleton_spec hv hdim hc02

example : ValidSet ex8 ∧ ∀ x, 1 ≤ x → x ≤ ex8.size → ex8.opU 2 (ex8.opU 0 x) = ex8.opU 0 (ex8.opU 2 x) :=
  ⟨ex8_valid, fun x h1 h2 => (farCommuteB_sound (s := ex8) (by decide)) 0 2 x (by decide) (by decide) h1 h2⟩

open DSymVerif.Cut DSymVerif.SpecC19 DSymVerif.CutP in
/-- ○ **The cut `network_cut` computes is a minimum vertex cut of the tile skeleton** (ties C16 to
    C19).  With `(elm_to_index, reps, edges)` from `make_skeleton` and `net` any list with the members
    of `network_edges(..)` (the Rust code lists the source and sink edges in `HashSet` order),
    `min_vertex_cut_undirected(net, source, sink)` returns; its cut meets every walk from the source
    (joined to the vertices of the face of d, in edge mode also of s2 d) to the sink (joined to the
    vertices of the face of s3 d) in an inner vertex; no vertex set avoiding source and sink that
    meets all such walks is smaller; `inside` is what stays reachable from the source. -/
theorem network_cut_is_minimum_vertex_cut {ds : DSetData} (hv : ValidSet ds) (hdim : ds.dim = 3)
    (hc02 : ∀ x, 1 ≤ x → x ≤ ds.size → ds.opU 2 (ds.opU 0 x) = ds.opU 0 (ds.opU 2 x))
    {d : Nat} (hd1 : 1 ≤ d) (hd2 : d ≤ ds.size) (mode : Bool)
    {e2i : Array Nat} {reps : List Nat} {edges net0 net : List (Nat × Nat)}
    (hsk : makeSkeleton ds = .ok (e2i, reps, edges))
    (hnet0 : networkEdges ds d mode e2i edges (skelSource e2i) (skelSource e2i + 1) = .ok net0)
    (hperm : ∀ p, p ∈ net ↔ p ∈ net0) :
    ∃ r, minVertexCutUndirected net (skelSource e2i) (skelSource e2i + 1) = .ok r ∧
      (∀ p, IsWalk (sym net) (skelSource e2i) (skelSource e2i + 1) p → ∃ x ∈ internal p, x ∈ r.cut) ∧
      (∀ C : List Nat, skelSource e2i ∉ C → skelSource e2i + 1 ∉ C →
        (∀ p, IsWalk (sym net) (skelSource e2i) (skelSource e2i + 1) p → ∃ x ∈ p, x ∈ C) →
        r.cut.length ≤ C.length) ∧
      r.cut.Nodup ∧ skelSource e2i ∉ r.cut ∧ skelSource e2i + 1 ∉ r.cut ∧
      (∀ v, (v = skelSource e2i ∨ v ∈ r.inside) ↔
        ∃ p, IsWalk (removeVertices (sym net) r.cut) (skelSource e2i) v p) :=
  network_cut_minimum hv hdim hc02 hd1 hd2 mode hsk hnet0 hperm

/-- on `exFix2` (a state of the real pipeline) skeleton and network exist for chamber 1 -/
example : (match makeSkeleton exFix2 with
    | .ok (e2i, _, edges) => (networkEdges exFix2 1 true e2i edges (skelSource e2i) (skelSource e2i + 1)).isOk
    | _ => false) = true := by decide +kernel


/-! ### the remaining manifold clauses except sphericity as step invariants

`Manifold3 ds` = `Axioms3 ds` ∧ no operation has a fixed point (`Loopless`: a fixed point is a mirror,
i.e. boundary) ∧ far operations differ everywhere (`FarDiffer`: r_02 = r_03 = r_13 = 2 exactly, no
hidden branching number 2).  These are the Spec clauses "entries-in-range-and-involutive",
"complete", "far-operations-commute", "branch-free-far" and the looplessness half of
"tiles-are-spheres" / "vertex-figures-are-spheres"; what is left to the Spec alone is the Euler
characteristic of the components.  Hypotheses as for `simplify_step_preserves_dset_axioms`. -/

/-- ○ **`collapse` keeps a D-set loopless**, whatever connector-closed set is removed (parity: the
    re-routed operation is an odd alternating word in s_i and the connector, conjugate to one of
    them) -/
theorem collapse_preserves_loopless {ds s : DSetData} {num : Nat → Nat} {remove : List Nat} {c : Nat}
    (hv : ValidSet ds) (hl : Loopless ds) (res : CollapseRes ds remove c s num) (hc : c ≤ ds.dim) :
    Loopless s :=
  collapse_loopless hv hl res hc

/-- ○ **`collapse` keeps far operations different** under the hypotheses of
    `collapse_preserves_far_commute` when moreover the connector differs, on the removed set, from
    every operation far from the re-routed one -/
theorem collapse_preserves_far_differ {ds s : DSetData} {num : Nat → Nat} {remove : List Nat} {c j : Nat}
    (hv : ValidSet ds) (hf : FarCommute ds) (hd : FarDiffer ds) (res : CollapseRes ds remove c s num)
    (hr : ∀ d ∈ remove, 1 ≤ d ∧ d ≤ ds.size) (hc : c ≤ ds.dim) (hj : j ≤ ds.dim) (hjc : j ≠ c)
    (hclosed : ∀ i, i ≤ ds.dim → i ≠ j → ∀ d ∈ remove, ds.opU i d ∈ remove)
    (hcomm : ∀ k, k ≤ ds.dim → (k + 1 < j ∨ j + 1 < k) → ∀ d ∈ remove,
      ds.opU k (ds.opU c d) = ds.opU c (ds.opU k d))
    (hRdiff : ∀ k, k ≤ ds.dim → (k + 1 < j ∨ j + 1 < k) → ∀ d ∈ remove, ds.opU k d ≠ ds.opU c d) :
    FarDiffer s :=
  collapse_far_differ hv hf hd res hr hc hj hjc hclosed hcomm hRdiff

/-- ○ **`cut_face` keeps the manifold clauses** -/
theorem cut_face_preserves_manifold {ds s : DSetData} (hm : Manifold3 ds)
    {d1 d2 : Nat} (h11 : 1 ≤ d1) (h12 : d1 ≤ ds.size) (h21 : 1 ≤ d2) (h22 : d2 ≤ ds.size)
    (h : cutFace ds d1 d2 = .ok s) : Manifold3 s :=
  let ⟨a, _, c, _, _, f, l, g, _⟩ := cutFace_commutes hm.1.1 hm.1.2.1 h11 h12 h21 h22 h
  ⟨⟨a, c, f hm.1.2.2⟩, l hm.2.1, g hm.2.2⟩

example : Manifold3 ex8 ∧ ∃ s, cutFace ex8 1 2 = .ok s :=
  ⟨manifold3B_sound (by decide +kernel), isOk_exists (by decide +kernel)⟩

/-- ○ **`cut_tile` keeps the manifold clauses** (0-adjacent cut pairs) -/
theorem cut_tile_preserves_manifold {ds s : DSetData} (hm : Manifold3 ds) {cut : List Nat}
    (hcut : ∀ k, k < cut.length → 1 ≤ cut.getD k 0 ∧ cut.getD k 0 ≤ ds.size)
    (hadj : ∀ k, k < cut.length → ds.opU 0 (cut.getD k 0) = cut.getD (if k % 2 = 0 then k + 1 else k - 1) 0)
    (h : cutTile ds cut = .ok s) : Manifold3 s :=
  let ⟨a, _, c, _, _, _, f, l, g⟩ := cutTile_commutes hm.1.1 hm.1.2.1 hcut h
  ⟨⟨a, c, f hadj hm.1.2.2⟩, l hm.2.1, g hm.2.2⟩

example : Manifold3 ex8 ∧ (∃ s, cutTile ex8 [1, 2] = .ok s) ∧ ex8.opU 0 1 = 2 ∧ ex8.opU 0 2 = 1 :=
  ⟨manifold3B_sound (by decide +kernel), isOk_exists (by decide +kernel), by decide, by decide⟩

/-- ○ **`simplify_step_preserves_manifold_clauses`.**  Every modelled deterministic step of
    `simplify` maps a complete, loopless 3-dimensional D-set whose far operations commute and differ
    to one again: `merge_facets`, `merge_tiles`, `dual`, `merge_all` unconditionally, the local moves when the
    eight chambers they re-glue are distinct. -/
theorem simplify_step_preserves_manifold_clauses {ds s : DSetData} (hm : Manifold3 ds) :
    (mergeTiles (.dset ds) = .ok (some (.dset s)) → Manifold3 s) ∧
    (mergeFacets (.dset ds) = .ok (some (.dset s)) → Manifold3 s) ∧
    (Simp.dual (.dset ds) = .ok (some (.dset s)) → Manifold3 s) ∧
    (mergeAll (.dset ds) = .ok (some (.dset s)) → Manifold3 s) ∧
    (fixLocal1Vertex (.dset ds) = .ok (some (.dset s)) →
      (∀ c, 1 ≤ c → c ≤ ds.size → fixLocal1Body ds c = .ok (some (.dset s)) →
        [ds.opU 0 (ds.opU 1 c), ds.opU 1 (ds.opU 1 (ds.opU 0 c)), ds.opU 1 (ds.opU 0 c),
          ds.opU 1 (ds.opU 0 (ds.opU 1 c)), ds.opU 3 (ds.opU 0 (ds.opU 1 c)),
          ds.opU 1 (ds.opU 3 (ds.opU 1 (ds.opU 0 c))), ds.opU 3 (ds.opU 1 (ds.opU 0 c)),
          ds.opU 1 (ds.opU 3 (ds.opU 0 (ds.opU 1 c)))].Nodup) → Manifold3 s) ∧
    (fixLocal2Vertex (.dset ds) = .ok (some (.dset s)) →
      (∀ d ds' a b, 1 ≤ d → d ≤ ds.size → fix2Pre ds d = .ok (ds', a, b) →
        [ds'.opU 0 b, a, ds'.opU 0 a, b, ds'.opU 2 (ds'.opU 0 b), ds'.opU 2 a, ds'.opU 2 (ds'.opU 0 a),
          ds'.opU 2 b].Nodup) → Manifold3 s) ∧
    (fixNonDiskFace (.dset ds) = .ok (some (.dset s)) →
      (∀ d e, 1 ≤ d → d ≤ ds.size → 1 ≤ e → e ≤ ds.size → nonDiskGlue ds d e = .ok (some (.dset s)) →
        [d, ds.opU 1 e, e, ds.opU 1 d, ds.opU 3 d, ds.opU 1 (ds.opU 3 e), ds.opU 3 e,
          ds.opU 1 (ds.opU 3 d)].Nodup) → Manifold3 s) :=
  ⟨fun h => mergeTiles_manifold hm (DSymVerif.FGP.innerWallsAreFaces ds hm.1) h,
   fun h => mergeFacets_manifold hm h,
   fun h => dual_manifold hm h,
   fun h => mergeAll_manifold DSymVerif.FGP.innerWallsAreFaces hm h,
   fun h hnd => fixLocal1Vertex_manifold hm hnd h,
   fun h hnd => fixLocal2Vertex_manifold hm hnd h,
   fun h hnd => fixNonDiskFace_manifold hm hnd h⟩

/-- states of the real pipeline satisfy the clauses and the steps fire on them -/
example : Manifold3 exFacets20 ∧ (∃ s, mergeFacets (.dset exFacets20) = .ok (some (.dset s))) ∧
    Manifold3 exTiles ∧ (∃ s, mergeTiles (.dset exTiles) = .ok (some (.dset s))) ∧
    Manifold3 exFnd ∧ (∃ s, fixNonDiskFace (.dset exFnd) = .ok (some (.dset s))) :=
  ⟨manifold3B_sound (by decide +kernel), returnsDSet_exists (by decide +kernel),
   manifold3B_sound (by decide +kernel), returnsDSet_exists (by decide +kernel),
   manifold3B_sound (by decide +kernel), returnsDSet_exists (by decide +kernel)⟩


/-! ### orientation as an invariant; `fix_non_disk_face` without a general-position hypothesis

`OM ds` = `Manifold3 ds` ∧ the D-set is oriented (a 2-colouring of the chambers reversed by every
operation; the inputs of the property — pseudo-toroidal covers are built on the oriented cover; the finite
quotients explored are oriented as well — are oriented).  Orientation is what makes the guards of the code
imply general position: on loopless far-commuting far-differing D-sets that are NOT orientable the
real `fix_local_2_vertex` panics or leaves the manifold clauses, and `fix_non_disk_face` meets
coinciding chambers (exhaustive experiment on all such D-sets with 4, 8 and 12 chambers; outside
the domain of the property). -/

/-- ○ **No face is glued to itself**: in an oriented D-set whose far operations commute and differ,
    `s_3 x` never lies in the (0,1)-orbit of `x` (an element of the face orbit of opposite colour is
    an odd alternating word in s0, s1 applied to x, and such a word is conjugate to s0 or s1, which
    differ from s3 everywhere). -/
theorem face_never_glued_to_itself {ds : DSetData} (hm : Manifold3 ds) {col : Nat → Bool} (hcol : Colouring ds col)
    {x : Nat} (h1 : 1 ≤ x) (h2 : x ≤ ds.size) : ¬ ds.viewPartial.Reach [0, 1] x (ds.opU 3 x) :=
  face_not_self_glued hm.1.1 hm.1.2.1 hm.1.2.2 hm.2.2 hcol h1 h2

/-- ○ **`fix_non_disk_face` keeps the manifold clauses and the orientation — no hypothesis beyond
    those on the input.**  The guards the code evaluates (e ≠ d on the walk around the vertex of d,
    same face as d) imply that the eight chambers of the corner re-gluing are pairwise distinct
    (`corner_distinct`: different colours, differing far operations, and `face_never_glued_to_itself`
    for the one remaining coincidence e = s3 s1 d). -/
theorem fix_non_disk_face_preserves_manifold {ds s : DSetData} (hm : OM ds)
    (h : fixNonDiskFace (.dset ds) = .ok (some (.dset s))) : OM s :=
  fixNonDiskFace_OM hm h

/-- `exFnd` (a state on which the real `fix_non_disk_face` fires) is an oriented manifold D-set -/
example : OM exFnd ∧ ∃ s, fixNonDiskFace (.dset exFnd) = .ok (some (.dset s)) :=
  ⟨⟨manifold3B_sound (by decide +kernel),
    fun d => (#[false, false, true, false, false, false, false, true, false, false, true, true, false, true, true, false, false, true, true, true, true, true, false, false, true, true, false, false, true, false, true, true, false] : Array Bool).getD d false,
    colouringB_sound (by decide +kernel)⟩, returnsDSet_exists (by decide +kernel)⟩

/-- ○ **`simplify_step_preserves_oriented_manifold`.**  Every modelled deterministic step maps an
    oriented, complete, loopless 3-dimensional D-set whose far operations commute and differ to one
    again: `merge_tiles`, `merge_facets`, `dual`, `merge_all`, `fix_non_disk_face` without further
    hypothesis; `fix_local_1_vertex` and `fix_local_2_vertex` when the eight chambers they re-glue are
    distinct (this is NOT implied by their guards on arbitrary D-sets of this kind: with faces of one
    or two edges the chambers coincide — the real code then still returns a D-set satisfying the
    clauses in the exhaustive experiment, which is not proved). -/
theorem simplify_step_preserves_oriented_manifold {ds s : DSetData} (hm : OM ds) :
    (mergeTiles (.dset ds) = .ok (some (.dset s)) → OM s) ∧
    (mergeFacets (.dset ds) = .ok (some (.dset s)) → OM s) ∧
    (Simp.dual (.dset ds) = .ok (some (.dset s)) → OM s) ∧
    (mergeAll (.dset ds) = .ok (some (.dset s)) → OM s) ∧
    (fixNonDiskFace (.dset ds) = .ok (some (.dset s)) → OM s) ∧
    (fixLocal1Vertex (.dset ds) = .ok (some (.dset s)) →
      (∀ c, 1 ≤ c → c ≤ ds.size → fixLocal1Body ds c = .ok (some (.dset s)) →
        [ds.opU 0 (ds.opU 1 c), ds.opU 1 (ds.opU 1 (ds.opU 0 c)), ds.opU 1 (ds.opU 0 c),
          ds.opU 1 (ds.opU 0 (ds.opU 1 c)), ds.opU 3 (ds.opU 0 (ds.opU 1 c)),
          ds.opU 1 (ds.opU 3 (ds.opU 1 (ds.opU 0 c))), ds.opU 3 (ds.opU 1 (ds.opU 0 c)),
          ds.opU 1 (ds.opU 3 (ds.opU 0 (ds.opU 1 c)))].Nodup) → OM s) ∧
    (fixLocal2Vertex (.dset ds) = .ok (some (.dset s)) →
      (∀ d ds' a b, 1 ≤ d → d ≤ ds.size → fix2Pre ds d = .ok (ds', a, b) →
        [ds'.opU 0 b, a, ds'.opU 0 a, b, ds'.opU 2 (ds'.opU 0 b), ds'.opU 2 a, ds'.opU 2 (ds'.opU 0 a),
          ds'.opU 2 b].Nodup) → OM s) :=
  ⟨fun h => mergeTiles_OM hm (DSymVerif.FGP.innerWallsAreFaces ds hm.1.1) h,
   fun h => mergeFacets_OM hm h,
   fun h => dual_OM hm h,
   fun h => mergeAll_OM DSymVerif.FGP.innerWallsAreFaces hm h,
   fun h => fixNonDiskFace_OM hm h,
   fun h hnd => fixLocal1Vertex_OM hm hnd h,
   fun h hnd => fixLocal2Vertex_OM hm hnd h⟩


/-! ### split_and_glue as a function of an explicit choice

`network_cut` picks `start` with `find` over a `HashSet` (per-instance random iteration order), so
`Simp.networkCut` / `Simp.splitAndGlue` take the iteration order `iter` as an argument.  All six
helpers (`network_edges`, `cut_with_insides`, `network_cut`, `cut_pairs_in_order`, `make_key`,
`split_and_glue_attempt`) are compared with the real code through hooks on every run; the
theorems below are therefore about tied code. -/

/-- ○ **`network_edges` is the tile skeleton plus the two stars**: a pair belongs to the network iff
    it is a skeleton edge, or joins the source to the vertex of a chamber of the face of `d` (in edge
    mode also of the face of `s2 d`), or joins the vertex of a chamber of the face of `s3 d` to the
    sink. -/
theorem network_edges_is_skeleton_plus_stars {ds : DSetData} (hv : ValidSet ds) (hdim : ds.dim = 3)
    {d : Nat} (hd1 : 1 ≤ d) (hd2 : d ≤ ds.size) (mode : Bool) {e2i : Array Nat} (hsz : e2i.size = ds.size + 1)
    (edges : List (Nat × Nat)) (source sink : Nat) :
    ∃ net, networkEdges ds d mode e2i edges source sink = .ok net ∧
      ∀ p, p ∈ net ↔ (p ∈ edges ∨
        (p.1 = source ∧ ∃ x, (ds.viewPartial.Reach [0, 1] d x ∨
            (mode = true ∧ ds.viewPartial.Reach [0, 1] (ds.opU 2 d) x)) ∧ p.2 = e2i.getD x 0) ∨
        (p.2 = sink ∧ ∃ x, ds.viewPartial.Reach [0, 1] (ds.opU 3 d) x ∧ p.1 = e2i.getD x 0)) :=
  networkEdges_spec hv hdim hd1 hd2 mode hsz edges source sink

example : ValidSet exNc ∧ exNc.dim = 3 := ⟨exNc_valid, rfl⟩

/-- ○ **The order in which the two `HashSet`s of `network_edges` are listed does not matter**:
    `min_vertex_cut_undirected` returns the same cut, inside set and flow for any two edge lists
    with the same members (it collects them into a `BTreeSet`). -/
theorem network_cut_independent_of_star_order {net net' : List (Nat × Nat)} (h : ∀ e, e ∈ net ↔ e ∈ net')
    (source sink : Nat) :
    Cut.minVertexCutUndirected net source sink = Cut.minVertexCutUndirected net' source sink :=
  minVertexCutUndirected_ext h source sink

example : Cut.minVertexCutUndirected [(0, 1), (1, 2), (3, 0), (2, 4)] 3 4 =
    Cut.minVertexCutUndirected [(2, 4), (0, 1), (3, 0), (1, 2), (0, 1)] 3 4 :=
  network_cut_independent_of_star_order (fun e => by
    simp only [List.mem_cons, List.not_mem_nil, or_false]
    constructor
    · rintro (h | h | h | h) <;> simp [h]
    · rintro (h | h | h | h | h) <;> simp [h]) 3 4

open DSymVerif.Cut DSymVerif.SpecC19 DSymVerif.CutP in
/-- ○ **What `network_cut` marks.**  On a complete 3-dimensional D-set on which s0 and s2 commute, if
    the deterministic part of `network_cut(ds, d, mode)` returns, then: `make_skeleton` and
    `network_edges` return; for EVERY listing `net` of the network (whatever the `HashSet`s do)
    `min_vertex_cut_undirected` returns one and the same `r`; `r.cut` is a minimum vertex cut between
    source and sink and `r.inside` what stays reachable from the source; `marked` is the union of the
    (1,2)-orbits (tile vertices) of the chambers of the face of `d`, of `reps[v]` for the cut vertices
    `v` and of `reps[v]` for the inside vertices `v` of the skeleton; `special` is the face of `s3 d`. -/
theorem network_cut_marks_minimum_cut {ds : DSetData} (hv : ValidSet ds) (hdim : ds.dim = 3)
    (hc02 : ∀ x, 1 ≤ x → x ≤ ds.size → ds.opU 2 (ds.opU 0 x) = ds.opU 0 (ds.opU 2 x))
    {d : Nat} (hd1 : 1 ≤ d) (hd2 : d ≤ ds.size) (mode : Bool) {pre : CutPre}
    (h : networkCutPre ds d mode = .ok pre) :
    ∃ e2i reps edges net0 r cutReps insideReps,
      makeSkeleton ds = .ok (e2i, reps, edges) ∧
      networkEdges ds d mode e2i edges (skelSource e2i) (skelSource e2i + 1) = .ok net0 ∧
      (∀ net, (∀ p, p ∈ net ↔ p ∈ net0) →
        minVertexCutUndirected net (skelSource e2i) (skelSource e2i + 1) = .ok r) ∧
      (∀ p, IsWalk (sym net0) (skelSource e2i) (skelSource e2i + 1) p → ∃ x ∈ internal p, x ∈ r.cut) ∧
      (∀ C : List Nat, skelSource e2i ∉ C → skelSource e2i + 1 ∉ C →
        (∀ p, IsWalk (sym net0) (skelSource e2i) (skelSource e2i + 1) p → ∃ x ∈ p, x ∈ C) →
        r.cut.length ≤ C.length) ∧
      (∀ v, (v = skelSource e2i ∨ v ∈ r.inside) ↔
        ∃ p, IsWalk (removeVertices (sym net0) r.cut) (skelSource e2i) v p) ∧
      mapIdx reps.toArray r.cut = .ok cutReps ∧
      mapIdx reps.toArray (r.inside.filter (· < reps.length)) = .ok insideReps ∧
      pre.marked = (ds.viewPartial.orbit [0, 1] d ++ cutReps ++ insideReps).flatMap
        (fun e => ds.viewPartial.orbit [1, 2] e) ∧
      pre.special = ds.viewPartial.orbit [0, 1] (ds.opU 3 d) := by
  obtain ⟨e2i, reps, edges, net0, r, cutReps, insideReps, d3, hsk, hnet, hcut, hcr, hir, hd3, hm, hs⟩ :=
    networkCutPre_ok h
  obtain ⟨r', hr', w1, w2, _, _, _, w6⟩ :=
    network_cut_minimum hv hdim hc02 hd1 hd2 mode hsk hnet (net := net0) (fun _ => Iff.rfl)
  have hrr : r' = r := by
    rw [hcut] at hr'
    exact (Outcome.ok.inj hr').symm
  subst hrr
  have hd3' : d3 = ds.opU 3 d := (opx_ok hd3).2.2.2.1.symm
  refine ⟨e2i, reps, edges, net0, r', cutReps, insideReps, hsk, hnet, ?_, w1, w2, w6, hcr, hir, hm, hd3' ▸ hs⟩
  intro net hperm
  rw [minVertexCutUndirected_ext hperm]; exact hcut

/-- on `exNc` the deterministic part of `network_cut(exNc, 1, false)` returns -/
example : (networkCutPre exNc 1 false).isOk = true := by decide +kernel

/-- ○ **What the result of `network_cut` depends on.**  For every iteration order `iter` of the
    `HashSet` `marked`: a returned list is `cut_pairs_in_order` started from a member `start` of that
    order that is marked while its 0-neighbour is not (an *admissible start*) — the choice of `start`
    among the admissible ones is all that `iter` contributes. -/
theorem network_cut_result_from_admissible_start {ds : DSetData} {d : Nat} {mode : Bool}
    {iter : List Nat → List Nat} {r : List (Nat × Nat)} (h : networkCut ds d mode iter = .ok (some r)) :
    ∃ pre start, networkCutPre ds d mode = .ok pre ∧ start ∈ iter pre.marked ∧
      (∃ e0, ds.opPartial 0 start = some e0 ∧ memFn ds.size pre.marked e0 = false) ∧
      cutPairsInOrder ds start (memFn ds.size pre.marked) (memFn ds.size pre.special) = .ok r :=
  networkCut_some h

example : ∃ r, networkCut exNc 1 false (ascending 1 false) = .ok (some r) := by
  have h : (match networkCut exNc 1 false (ascending 1 false) with | .ok (some _) => true | _ => false) = true := by
    decide +kernel
  cases hx : networkCut exNc 1 false (ascending 1 false) with
  | ok o => cases o with
    | some r => exact ⟨r, rfl⟩
    | none => rw [hx] at h; cases h
  | err => rw [hx] at h; cases h
  | panic => rw [hx] at h; cases h

/-- ○ **`cut_pairs_in_order`: two starts on one closed chain of rounds give rotations of one
    list.**  `CPChain step a l b`: starting at chamber `a`, the rounds of the outer loop visit the
    chambers listed in `l` (each with the pairs it pushes) and arrive at `b`.  If the rounds started
    at `a` visit the pairwise distinct chambers `l1 ++ p :: l2`, come back to `a` and push at most
    `size` pairs in all, then started at the chamber of `p` the function returns the pairs of the
    rounds `p :: l2 ++ l1` — the list returned for `a` (`l1 = []`) rotated.  (The real walk has two
    such chains per closed curve, one per direction: `s2` maps the admissible starts of one to those
    of the other, and the two lists are mirror images — `mirrorPairs` — of one another, observed on
    every explored input (tag `rot-classes=2 curves=1`), not proved.) -/
theorem cut_pairs_in_order_rotation {ds : DSetData} {marked special : Nat → Bool} {a : Nat}
    {l1 l2 : List (Nat × List (Nat × Nat))} {p : Nat × List (Nat × Nat)}
    (hchain : CPChain (cpStep ds marked special) a (l1 ++ p :: l2) a)
    (hnd : ((l1 ++ p :: l2).map (·.1)).Nodup)
    (hlen : ((l1 ++ p :: l2).flatMap (·.2)).length ≤ ds.size) :
    cutPairsInOrder ds a marked special = .ok ((l1 ++ p :: l2).flatMap (·.2)) ∧
    cutPairsInOrder ds p.1 marked special = .ok ((p :: l2 ++ l1).flatMap (·.2)) := by
  refine ⟨?_, cutPairs_rotation hchain hnd hlen⟩
  cases l1 with
  | nil =>
    have hp : p.1 = a := CPChain.head_eq hchain
    have := cutPairs_rotation (l1 := []) hchain hnd hlen
    rw [hp] at this
    simpa using this
  | cons q l1' =>
    have hq : q.1 = a := CPChain.head_eq hchain
    have := cutPairs_rotation (l1 := []) (p := q) (l2 := l1' ++ p :: l2) (by simpa using hchain)
      (by simpa using hnd) (by simpa using hlen)
    rw [hq] at this
    simpa using this

/-- in `network_cut(exNc, 1, false)` the rounds started at chamber 11 visit 11, 35, 45, 13 and push
    one pair each; started at 45 the function returns the same four pairs rotated by two -/
example :
    cutPairsInOrder exNc 11 (memFn 48 exNcMarked) (memFn 48 exNcSpecial) = .ok [(11, 48), (35, 36), (45, 12), (13, 34)] ∧
    cutPairsInOrder exNc 45 (memFn 48 exNcMarked) (memFn 48 exNcSpecial) = .ok [(45, 12), (13, 34), (11, 48), (35, 36)] :=
  cut_pairs_in_order_rotation (ds := exNc) (a := 11)
    (l1 := [(11, [(11, 48)]), (35, [(35, 36)])]) (p := (45, [(45, 12)])) (l2 := [(13, [(13, 34)])])
    (chainB_sound (by decide +kernel)) (by decide) (by decide)

/-- ○ **`make_key` is the stated triple** (cut length − length of the glue face, cut length, number
    of pairs that cut across a face) whenever the glue face is a closed (0,1)-orbit -/
theorem make_key_is_triple {ds : DSetData} {d g : Nat} (ordered : List (Nat × Nat))
    (h : ds.viewPartial.r 0 1 d = .ok (some g)) :
    makeKey ds d ordered =
      .ok ((ordered.length : Int) - (g : Int), ordered.length, (ordered.filter (notAlongEdge ds)).length) :=
  makeKey_eq ordered h

example : ValidSet exNc ∧ exNc.viewPartial.r 0 1 1 = .ok (some 4) ∧
    makeKey exNc 1 [(11, 48), (35, 36), (45, 12), (13, 34)] = .ok (0, 4, 0) :=
  ⟨exNc_valid, by decide +kernel, by decide +kernel⟩

/-- ○ **`make_key` does not see the choice of `start`**: it is the same for a list of pairs and any
    rotation of it, and — on a complete D-set with involutive operations — for its mirror image
    (reversed, every pair swapped).  Hence the order of `cuts` after `cuts.sort()` (keys first, then the
    glue chamber, which is different for different entries with equal keys) is the same for all
    choices whose results differ by rotations and reflections. -/
theorem make_key_invariant {ds : DSetData} (d : Nat) (l1 l2 : List (Nat × Nat)) :
    makeKey ds d (l2 ++ l1) = makeKey ds d (l1 ++ l2) ∧
    (ValidSet ds → 1 ≤ ds.dim → makeKey ds d (mirrorPairs (l1 ++ l2)) = makeKey ds d (l1 ++ l2)) :=
  ⟨makeKey_perm List.perm_append_comm, fun hv hdim => makeKey_mirror hv hdim d _⟩

example : makeKey exNc 1 [(45, 12), (13, 34), (11, 48), (35, 36)] = makeKey exNc 1 [(11, 48), (35, 36), (45, 12), (13, 34)] ∧
    makeKey exNc 1 [(34, 13), (12, 45), (36, 35), (48, 11)] = makeKey exNc 1 [(11, 48), (35, 36), (45, 12), (13, 34)] :=
  ⟨(make_key_invariant 1 [(11, 48), (35, 36)] [(45, 12), (13, 34)]).1,
   (make_key_invariant 1 [(11, 48), (35, 36)] [(45, 12), (13, 34)]).2 exNc_valid (by decide)⟩

/-- ○ **`split_and_glue_attempt` keeps the D-set axioms**: for a glue chamber and pairs of chambers,
    a D-set returned from a complete 3-dimensional D-set with commuting far operations is one again
    (each `cut_face` keeps them; the chambers pushed to `cut_chambers` are 0-adjacent in pairs — by the
    walk test or by construction of `cut_face`, and later face cuts do not touch operation 0 of old
    chambers —, which is what `cut_tile` needs; `collapse` removes a (0,1,3)-orbit with connector 3). -/
theorem split_and_glue_attempt_preserves_axioms {ds s : DSetData} (hax : Axioms3 ds)
    {glue : Nat} (hg1 : 1 ≤ glue) (hg2 : glue ≤ ds.size) {ordered : List (Nat × Nat)}
    (hr : ∀ p ∈ ordered, (1 ≤ p.1 ∧ p.1 ≤ ds.size) ∧ (1 ≤ p.2 ∧ p.2 ≤ ds.size))
    (h : splitAndGlueAttempt ds glue ordered = .ok (some (.dset s))) : Axioms3 s :=
  (splitAndGlueAttempt_inv hax.1 hax.2.1 hg1 hg2 hr h).1 hax.2.2

/-- ○ **`split_and_glue_attempt` keeps the manifold clauses** (also looplessness and differing far
    operations) -/
theorem split_and_glue_attempt_preserves_manifold {ds s : DSetData} (hm : Manifold3 ds)
    {glue : Nat} (hg1 : 1 ≤ glue) (hg2 : glue ≤ ds.size) {ordered : List (Nat × Nat)}
    (hr : ∀ p ∈ ordered, (1 ≤ p.1 ∧ p.1 ≤ ds.size) ∧ (1 ≤ p.2 ∧ p.2 ≤ ds.size))
    (h : splitAndGlueAttempt ds glue ordered = .ok (some (.dset s))) : Manifold3 s :=
  (splitAndGlueAttempt_inv hm.1.1 hm.1.2.1 hg1 hg2 hr h).2 hm

/-- on `ex8` the attempt with glue chamber 8 and the single pair (8, 5) — not joined by an edge, so
    `cut_face`, then `cut_tile`, then `collapse` run — returns a D-set (with 4 chambers) -/
example : Manifold3 ex8 ∧ ∃ s, splitAndGlueAttempt ex8 8 [(8, 5)] = .ok (some (.dset s)) :=
  ⟨manifold3B_sound (by decide +kernel), returnsDSet_exists (by decide +kernel)⟩

/-- ○ **`split_and_glue` keeps the manifold clauses, whatever the `HashSet`s do.**  For every choice
    `iter` of the iteration orders inside the calls of `network_cut`: a D-set returned from a complete,
    loopless 3-dimensional D-set whose far operations commute and differ is one again, and it has
    fewer chambers.  Together with `simplify_step_preserves_manifold_clauses` every step of the loop
    of `simplify` is covered (the local moves 1 and 2 in general position). -/
theorem split_and_glue_preserves_manifold {ds s : DSetData} (hm : Manifold3 ds)
    (iter : Nat → Bool → List Nat → List Nat)
    (h : splitAndGlue (.dset ds) iter = .ok (some (.dset s))) : Manifold3 s ∧ s.size < ds.size :=
  splitAndGlue_manifold hm iter h

/-- Non-vacuity.  The smallest states on which the whole function fires are a 28-chamber lens-space
    cover and 64-chamber states of the corpus pipelines (`Simp.splitAndGlue` evaluated by the native
    driver returns a D-set there and agrees with the real code on every run: the `nt` cases of op
    `split_and_glue`); the kernel needs minutes and 8-10 GB for them (`buildSet` on arrays), so the
    example in this file is the last loop of the function on the small D-set `ex8`: with the one entry
    (glue chamber 8, pair (8, 5)) in `cuts` it returns a smaller D-set. -/
example : Manifold3 ex8 ∧
    ∃ s, sgFirst ex8 [{ key := (-3, 1, 1), d := 8, ordered := [(8, 5)] }] = .ok (some (.dset s)) :=
  ⟨manifold3B_sound (by decide +kernel), returnsDSet_exists (by decide +kernel)⟩

/-! ### sphericity preservation: precise statements (open)

`Spherical ds`: every {0,1,2}- and {1,2,3}-component has F − E + V = 2 on the orbit counts
(`chiOf`).  Together with `OM` this is the whole first clause of the property.  Not proved for any
step: it needs the orbit counts of the affected components before and after (for `merge_facets`:
two faces of a tile merge, F' = F − 1, E' = E − 1 in each tile around the edge, the vertex figures at
its two ends lose a digon; for `merge_tiles`: two tiles glued along a face, χ' = χ1 + χ2 − 2, or a
handle if the two sides are the same tile — which the sphericity of the vertex figures must
exclude; …), i.e. component tracking under `collapse` plus cycle counting (`Proofs/PermRee.lean` has
the ±1 lemma for transpositions).  Evidence instead: the Spec evaluates `Spherical` (its
`partsAreSpheres`) on every D-set `simplify` returns, and in an experiment with the hooks every
single step of the replayed pipeline on the corpus and the [p,2,q] lens spaces kept it. -/

/-- ◐ open: `merge_facets` keeps tiles and vertex figures spherical -/
def merge_facets_preserves_sphericity_statement : Prop :=
  ∀ ds s : DSetData, OM ds → Spherical ds → mergeFacets (.dset ds) = .ok (some (.dset s)) → Spherical s

/-- ◐ open: `merge_tiles` keeps tiles and vertex figures spherical -/
def merge_tiles_preserves_sphericity_statement : Prop :=
  ∀ ds s : DSetData, OM ds → Spherical ds → mergeTiles (.dset ds) = .ok (some (.dset s)) → Spherical s

/-- ◐ open: the local moves keep tiles and vertex figures spherical -/
def local_moves_preserve_sphericity_statement : Prop :=
  ∀ ds s : DSetData, OM ds → Spherical ds →
    (fixLocal1Vertex (.dset ds) = .ok (some (.dset s)) ∨ fixLocal2Vertex (.dset ds) = .ok (some (.dset s)) ∨
      fixNonDiskFace (.dset ds) = .ok (some (.dset s))) → Spherical s

end DSymVerif.C16
