/-
Property C01 — the text form of D-symbols: parsing is total and returns well-formed
symbols only; printing and parsing round-trip.

The theorems are about the model in `DSymVerif/Model/Text.lean`:
  `lex`      the nom grammar of parse_dsym.rs,
  `fromSpec` `<PartialDSym as FromStr>::from_str` after the grammar (repaired for D1),
  `parse`    = `fromSpec ∘ lex`,
  `fmt`      `DSet::fmt`, the body of all four `Display` impls.
In the model every Rust panic source (failed `assert!`, out-of-range index, `unwrap` of
`None`, `usize` overflow, capacity overflow of an allocation, division by zero) is an
explicit `Outcome.panic`, so "≠ panic" below is the statement "never panics", and since
all model functions are total Lean functions standing for loops that the proofs show to
end by their own exit condition (never by exhausting the fuel), it is also
"always terminates".
-/
import DSymVerif.Proofs.TextSets

namespace DSymVerif.C01
open DSymVerif DSymVerif.DS DSymVerif.Text

/-! ### D1 as it stood on the pinned tree (documentation; the repaired model follows) -/

-- image 0: `"<1.1:1:1,1,0:3,0>"`
example : fromSpecPinned ⟨1, 1, 1, 2, [[1], [1], [0]], [[3], [0]]⟩ = .panic := by decide
-- image out of range: `"<1.1:1:2,1,1:3,3>"`
example : fromSpecPinned ⟨1, 1, 1, 2, [[2], [1], [1]], [[3], [3]]⟩ = .panic := by decide
-- inconsistent pairing: `"<1.1:3:2 2 3,1 2 3,1 2 3:3,3>"`
example : fromSpecPinned ⟨1, 1, 3, 2, [[2, 2, 3], [1, 2, 3], [1, 2, 3]], [[3], [3]]⟩ = .panic := by decide
-- `dim + 1` overflows: `"<1.1:1 18446744073709551615:1,1:3>"`
example : fromSpecPinned ⟨1, 1, 1, 2 ^ 64 - 1, [[1], [1]], [[3]]⟩ = .panic := by decide
-- the same inputs are errors now
example : fromSpec ⟨1, 1, 1, 2, [[1], [1], [0]], [[3], [0]]⟩ = .err := by decide
example : fromSpec ⟨1, 1, 1, 2, [[2], [1], [1]], [[3], [3]]⟩ = .err := by decide
example : fromSpec ⟨1, 1, 3, 2, [[2, 2, 3], [1, 2, 3], [1, 2, 3]], [[3], [3]]⟩ = .err := by decide
example : fromSpec ⟨1, 1, 1, 2 ^ 64 - 1, [[1], [1]], [[3]]⟩ = .err := by decide
example : fromSpec ⟨1, 1, 10 ^ 14, 2, [[1], [1], [1]], [[3], [3]]⟩ = .err := by decide
-- degree 0: `"<1.1:2:2,2,2:0 0,3>"` was accepted although its printed form `…:0,3>` was not
example : (fromSpecPinned ⟨1, 1, 2, 2, [[2], [2], [2]], [[0, 0], [3]]⟩).isOk = true := by decide
example : fromSpecPinned ⟨1, 1, 2, 2, [[2], [2], [2]], [[0], [3]]⟩ = .err := by decide
example : fromSpec ⟨1, 1, 2, 2, [[2], [2], [2]], [[0, 0], [3]]⟩ = .err := by decide
example : (fromSpec ⟨1, 1, 2, 2, [[2], [2], [2]], [[0], [3]]⟩).isOk = true := by decide

/-! ### totality -/

/-- `FromStr` never panics on a specification whose operation lists hold fewer than 2^59
    integers (a `Vec<Vec<usize>>` with more cannot exist in a 64-bit address space: it would
    occupy 2^62 bytes). -/
theorem fromSpec_total (spec : DSymSpec) (h : opEntries spec < 2 ^ 59) : fromSpec spec ≠ .panic := by
  by_cases ha : Admitted spec
  · have hb : spec.size * (spec.dim + 1) < allocLimit := by
      have := table_le_entries spec ha.op_len ha.op_enough
      unfold allocLimit
      omega
    exact (fromSpec_core spec ha hb).1
  · rw [fromSpec_not_admitted spec ha]; simp

example : opEntries ⟨1, 1, 1, 2, [[1], [1], [1]], [[3], [4]]⟩ < 2 ^ 59 := by decide

/-- the converse bound: the one panic left in the model of `FromStr` (capacity overflow of the
    operation table) needs at least 2^59 integers in the input -/
theorem fromSpec_panic_needs_huge_input (spec : DSymSpec) (h : fromSpec spec = .panic) :
    2 ^ 59 ≤ opEntries spec := by
  by_cases hlt : opEntries spec < 2 ^ 59
  · exact absurd h (fromSpec_total spec hlt)
  · omega

/-- Parsing an arbitrary string never panics (strings shorter than 2^59 characters; `str`
    lengths are below 2^63 and a text of 2^59 characters is 512 PiB). -/
theorem parse_total (cs : List Char) (h : cs.length < 2 ^ 59) : parse cs ≠ .panic := by
  unfold parse
  split
  · simp
  · rename_i spec hl
    have := lex_opEntries_le hl
    exact fromSpec_total spec (by omega)

example : ("<1.1:1:1,1,0:3,0>".toList).length < 2 ^ 59 := by decide

/-! ### what a successful parse returns -/

/-- A symbol returned by `FromStr` has the size and dimension the text states (both ≥ 1),
    every operation is an involution on 1..size (in particular the symbol is complete as a
    D-set), and for every chamber and adjacent index pair the queries r, v, m answer (no
    panic), r ≥ 1 and m = r · v, so every degree is a multiple of the stored orbit length. -/
theorem fromSpec_ok_wellformed (spec : DSymSpec) (s : DSymData) (h : fromSpec spec = .ok s) :
    s.size = spec.size ∧ s.dim = spec.dim ∧ 1 ≤ s.size ∧ 1 ≤ s.dim ∧
    OpsAreInvolutions s ∧ DegreesAreMultiples s := by
  by_cases ha : Admitted spec
  · by_cases hb : spec.size * (spec.dim + 1) < allocLimit
    · obtain ⟨inv, hs, hd⟩ := (fromSpec_core spec ha hb).2 s h
      exact ⟨hs, hd, by rw [hs]; exact ha.size_pos, by rw [hd]; exact ha.dim_pos,
        inv.involutions, inv.degrees⟩
    · rw [fromSpec_too_big spec ha hb] at h; cases h
  · rw [fromSpec_not_admitted spec ha] at h; cases h

example : (fromSpec ⟨1, 1, 2, 3, [[2], [1, 2], [1, 2], [2]], [[6], [3, 2], [6]]⟩).isOk = true := by decide

/-- "… whose degrees are multiples of the corresponding orbit lengths": for a parsed symbol the
    number `r(i, i+1, d)` is the orbit length of d — the least k ≥ 1 with (s_{i+1} s_i)^k d = d,
    where one round `stepF s.dset i` is `op(i, ·)` followed by `op(i+1, ·)` (`stepF_is_two_ops`) —
    and the degree is `m = r · v`. -/
theorem fromSpec_ok_degrees (spec : DSymSpec) (s : DSymData) (h : fromSpec spec = .ok s) :
    DegreesAreMultiplesOfOrbitLengths s := by
  by_cases ha : Admitted spec
  · by_cases hb : spec.size * (spec.dim + 1) < allocLimit
    · exact ((fromSpec_core spec ha hb).2 s h).1.orbitLengths
    · rw [fromSpec_too_big spec ha hb] at h; cases h
  · rw [fromSpec_not_admitted spec ha] at h; cases h

theorem parse_ok_wellformed (cs : List Char) (s : DSymData) (h : parse cs = .ok s) :
    1 ≤ s.size ∧ 1 ≤ s.dim ∧ OpsAreInvolutions s ∧ DegreesAreMultiples s := by
  unfold parse at h
  split at h
  · cases h
  · rename_i spec _
    obtain ⟨_, _, a, b, c, d⟩ := fromSpec_ok_wellformed spec s h
    exact ⟨a, b, c, d⟩

/-- Parsing an arbitrary string that succeeds returns a symbol whose degrees are multiples of
    the corresponding (true) orbit lengths. -/
theorem parse_ok_degrees (cs : List Char) (s : DSymData) (h : parse cs = .ok s) :
    DegreesAreMultiplesOfOrbitLengths s := by
  unfold parse at h
  split at h
  · cases h
  · rename_i spec _
    exact fromSpec_ok_degrees spec s h

example : (parse "<1.1:2 3:2,1 2,1 2,2:6,3 2,6>".toList).isOk = true := by decide

/-! ### the grammar reads back what the printer writes -/

/-- `lex (render spec ++ trail) = some spec` for every specification whose numbers fit `usize`
    and whose lists are non-empty (`Printed`), and every trailing text: decimal print/parse round
    trip, separators, the `alt` order of `extents` (a lone size means dimension 2); whatever
    follows the closing `>` is ignored (`from_str` discards the unparsed rest). -/
theorem lex_render (spec : DSymSpec) (h : Printed spec) (trail : List Char) :
    lex (render spec ++ trail) = some spec :=
  lex_render_aux spec h trail

example : Printed ⟨10, 8, 2, 3, [[1, 2], [1, 2], [1, 2], [2]], [[3, 3], [3, 4], [4]]⟩ := by
  refine ⟨by decide, by decide, by decide, by decide, by decide, by decide, ?_, ?_⟩ <;>
    (intro ys hys; simp only [List.mem_cons, List.not_mem_nil, or_false] at hys
     rcases hys with rfl | rfl | rfl | rfl <;> exact ⟨by decide, by decide⟩)

/-! ### printing and parsing back

`SymInv s` describes the values of the types `PartialDSym` / `SimpleDSym` as the library's
constructors produce them: a complete D-set whose operations are involutions on 1..size, the
orbit tables `collect_orbits` computes for it, one branching entry per orbit
(`SymInv.ofSimple`, `setV_ok`: `From<SimpleDSet>` establishes it and `set_v` preserves it).
`Fits s c c'` says that the counters, size, dimension and degrees are `usize` values and that
the operation table could be allocated — true of every value of the Rust types.
`SameSym s t` is equality of symbols in the sense of DESIGN §5.1: same D-set, same orbit
tables, same branching number for every chamber and adjacent index pair. -/

/-- the text `DSet::fmt` writes for a symbol is the canonical rendering of `display` -/
theorem fmt_is_render_of_display (s : DSymData) (c c' : Nat) (h : SymInv s) :
    fmt (Printable.ofSimpleDSym s c c') = .ok (render (displaySpec s c c')) ∧
    display (Printable.ofSimpleDSym s c c') = .ok (displaySpec s c c') := by
  have N := collectOrbits_numbering h.set s.view rfl (fun j e hj he1 he2 => view_op_in_range s hj he1 he2)
  exact ⟨fmt_eq_render s c c' h N, display_eq s c c' h N⟩

/-- `fromSpec_display`: `FromStr` applied to what `Display` emits for a symbol returns that symbol
    (every dimension, every size; ○ of DESIGN §6 C01). -/
theorem fromSpec_display (s : DSymData) (c c' : Nat) (h : SymInv s) (h1 : 1 ≤ s.size) (h2 : 1 ≤ s.dim)
    (hu : s.dim + 1 < usizeLimit) (hb : s.size * (s.dim + 1) < allocLimit) :
    ∃ spec t, display (Printable.ofSimpleDSym s c c') = .ok spec ∧ fromSpec spec = .ok t ∧ SameSym s t := by
  obtain ⟨t, ht, hs⟩ := fromSpec_displaySpec s c c' h h1 h2 hu hb
  exact ⟨displaySpec s c c', t, (fmt_is_render_of_display s c c' h).2, ht, hs⟩

/-- Printing any D-symbol (`SimpleDSym` with counters c, c'; `PartialDSym` is the case c' = 1)
    and parsing the text back yields an equal symbol. -/
theorem print_parse_round_trip (s : DSymData) (c c' : Nat) (h : SymInv s) (h1 : 1 ≤ s.size)
    (h2 : 1 ≤ s.dim) (hf : Fits s c c') :
    ∃ cs t, fmt (Printable.ofSimpleDSym s c c') = .ok cs ∧ parse cs = .ok t ∧ SameSym s t :=
  print_parse s c c' h h1 h2 hf

example : Printable.ofPartialDSym = fun s c => Printable.ofSimpleDSym s c 1 := rfl

-- the hypotheses are satisfiable (here by the symbol of `<1.1:2 3:2,1 2,1 2,2:6,3 2,6>`)
example : ∃ s, SymInv s ∧ 1 ≤ s.size ∧ 1 ≤ s.dim ∧ Fits s 1 1 := by
  have hok : (fromSpec ⟨1, 1, 2, 3, [[2], [1, 2], [1, 2], [2]], [[6], [3, 2], [6]]⟩).isOk = true := by decide
  cases hp : fromSpec ⟨1, 1, 2, 3, [[2], [1, 2], [1, 2], [2]], [[6], [3, 2], [6]]⟩ with
  | ok s => exact ⟨s, fromSpec_fits _ s hp (by decide) (by decide)⟩
  | err => rw [hp] at hok; cases hok
  | panic => rw [hp] at hok; cases hok

/-- The two plain D-set `Display` impls: a complete D-set prints the text of the symbol over it
    with no branching number defined, and that text parses to exactly this symbol. -/
theorem print_parse_round_trip_dset (ds : DSetData) (c : Nat) (h : ValidSet ds) (h1 : 1 ≤ ds.size)
    (h2 : 1 ≤ ds.dim) (hc : c < usizeLimit) (hs : ds.size < usizeLimit) (hd : ds.dim + 1 < usizeLimit)
    (ht : ds.size * (ds.dim + 1) < allocLimit) :
    fmt (Printable.ofPartialDSet ds) = fmt (Printable.ofSimpleDSet ds 1) ∧
    ∃ cs t, fmt (Printable.ofSimpleDSet ds c) = .ok cs ∧ parse cs = .ok t ∧
      SameSym (DSymData.ofSimple ds) t :=
  ⟨fmt_partialDSet_eq h, print_parse_dset h c h1 h2 hc hs hd ht⟩

/-- `reparse_stable`: printing a parsed symbol gives text that parses to that same symbol again
    (no side condition: the numbers of a parsed symbol come from the text and fit `usize`). -/
theorem reparse_stable (cs : List Char) (s : DSymData) (h : parse cs = .ok s) :
    ∃ cs' t, fmt (Printable.ofPartialDSym s 1) = .ok cs' ∧ parse cs' = .ok t ∧ SameSym s t :=
  reparse cs s h

example : (parse "<1.1:2:2,2,2:0,3>".toList).isOk = true := by decide

/-- the same at the level of specifications, for arbitrary (also unprintably large) numbers -/
theorem reparse_stable_spec (spec : DSymSpec) (s : DSymData) (h : fromSpec spec = .ok s) :
    ∃ t, fromSpec (displaySpec s 1 1) = .ok t ∧ SameSym s t := by
  by_cases ha : Admitted spec
  case neg => rw [fromSpec_not_admitted spec ha] at h; cases h
  by_cases hb : spec.size * (spec.dim + 1) < allocLimit
  case neg => rw [fromSpec_too_big spec ha hb] at h; cases h
  obtain ⟨inv, hs, hd⟩ := (fromSpec_core spec ha hb).2 s h
  exact fromSpec_displaySpec s 1 1 inv (by rw [hs]; exact ha.size_pos) (by rw [hd]; exact ha.dim_pos)
    (by rw [hd]; exact ha.dim_fits) (by rw [hs, hd]; exact hb)

end DSymVerif.C01
