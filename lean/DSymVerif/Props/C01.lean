/-
Property C01 — the text form of D-symbols: parsing is total and returns well-formed
symbols only; printing and parsing round-trip.

The theorems are about the model in `DSymVerif/Model/Text.lean`:
  `lex`      the nom grammar of parse_dsym.rs,
  `fromSpec` `<PartialDSym as FromStr>::from_str` after the grammar (repaired for D1),
  `parse`    = `fromSpec ∘ lex`,
  `fmt`      `DSet::fmt`, the body of all four `Display` impls.
In the model every Rust panic source (failed `assert!`, out-of-range index, `unwrap` of
`None`, `usize` overflow, capacity overflow of an allocation, division by zero) is an
explicit `Outcome.panic`, so "≠ panic" below is the statement "never panics", and since
all model functions are total Lean functions standing for loops that the proofs show to
end by their own exit condition (never by exhausting the fuel), it is also
"always terminates".
-/
import DSymVerif.Proofs.TextLex

namespace DSymVerif.C01
open DSymVerif DSymVerif.DS DSymVerif.Text

/-! ### D1 as it stood on the pinned tree (documentation; the repaired model follows) -/

-- image 0: `"<1.1:1:1,1,0:3,0>"`
example : fromSpecPinned ⟨1, 1, 1, 2, [[1], [1], [0]], [[3], [0]]⟩ = .panic := by decide
-- image out of range: `"<1.1:1:2,1,1:3,3>"`
example : fromSpecPinned ⟨1, 1, 1, 2, [[2], [1], [1]], [[3], [3]]⟩ = .panic := by decide
-- inconsistent pairing: `"<1.1:3:2 2 3,1 2 3,1 2 3:3,3>"`
example : fromSpecPinned ⟨1, 1, 3, 2, [[2, 2, 3], [1, 2, 3], [1, 2, 3]], [[3], [3]]⟩ = .panic := by decide
-- `dim + 1` overflows: `"<1.1:1 18446744073709551615:1,1:3>"`
example : fromSpecPinned ⟨1, 1, 1, 2 ^ 64 - 1, [[1], [1]], [[3]]⟩ = .panic := by decide
-- the same inputs are errors now
example : fromSpec ⟨1, 1, 1, 2, [[1], [1], [0]], [[3], [0]]⟩ = .err := by decide
example : fromSpec ⟨1, 1, 1, 2, [[2], [1], [1]], [[3], [3]]⟩ = .err := by decide
example : fromSpec ⟨1, 1, 3, 2, [[2, 2, 3], [1, 2, 3], [1, 2, 3]], [[3], [3]]⟩ = .err := by decide
example : fromSpec ⟨1, 1, 1, 2 ^ 64 - 1, [[1], [1]], [[3]]⟩ = .err := by decide
example : fromSpec ⟨1, 1, 10 ^ 14, 2, [[1], [1], [1]], [[3], [3]]⟩ = .err := by decide
-- degree 0: `"<1.1:2:2,2,2:0 0,3>"` was accepted although its printed form `…:0,3>` was not
example : (fromSpecPinned ⟨1, 1, 2, 2, [[2], [2], [2]], [[0, 0], [3]]⟩).isOk = true := by decide
example : fromSpecPinned ⟨1, 1, 2, 2, [[2], [2], [2]], [[0], [3]]⟩ = .err := by decide
example : fromSpec ⟨1, 1, 2, 2, [[2], [2], [2]], [[0, 0], [3]]⟩ = .err := by decide
example : (fromSpec ⟨1, 1, 2, 2, [[2], [2], [2]], [[0], [3]]⟩).isOk = true := by decide

/-! ### totality -/

/-- `FromStr` never panics on a specification whose operation lists hold fewer than 2^59
    integers (a `Vec<Vec<usize>>` with more cannot exist in a 64-bit address space: it would
    occupy 2^62 bytes). -/
theorem fromSpec_total (spec : DSymSpec) (h : opEntries spec < 2 ^ 59) : fromSpec spec ≠ .panic := by
  by_cases ha : Admitted spec
  · have hb : spec.size * (spec.dim + 1) < allocLimit := by
      have := table_le_entries spec ha.op_len ha.op_enough
      unfold allocLimit
      omega
    exact (fromSpec_core spec ha hb).1
  · rw [fromSpec_not_admitted spec ha]; simp

example : opEntries ⟨1, 1, 1, 2, [[1], [1], [1]], [[3], [4]]⟩ < 2 ^ 59 := by decide

/-- the converse bound: the one panic left in the model of `FromStr` (capacity overflow of the
    operation table) needs at least 2^59 integers in the input -/
theorem fromSpec_panic_needs_huge_input (spec : DSymSpec) (h : fromSpec spec = .panic) :
    2 ^ 59 ≤ opEntries spec := by
  by_cases hlt : opEntries spec < 2 ^ 59
  · exact absurd h (fromSpec_total spec hlt)
  · omega

/-- Parsing an arbitrary string never panics (strings shorter than 2^59 characters; `str`
    lengths are below 2^63 and a text of 2^59 characters is 512 PiB). -/
theorem parse_total (cs : List Char) (h : cs.length < 2 ^ 59) : parse cs ≠ .panic := by
  unfold parse
  split
  · simp
  · rename_i spec hl
    have := lex_opEntries_le hl
    exact fromSpec_total spec (by omega)

example : ("<1.1:1:1,1,0:3,0>".toList).length < 2 ^ 59 := by decide

/-! ### what a successful parse returns -/

/-- A symbol returned by `FromStr` has the size and dimension the text states (both ≥ 1),
    every operation is an involution on 1..size (in particular the symbol is complete as a
    D-set), and for every chamber and adjacent index pair the queries r, v, m answer (no
    panic), r ≥ 1 and m = r · v, so every degree is a multiple of the stored orbit length. -/
theorem fromSpec_ok_wellformed (spec : DSymSpec) (s : DSymData) (h : fromSpec spec = .ok s) :
    s.size = spec.size ∧ s.dim = spec.dim ∧ 1 ≤ s.size ∧ 1 ≤ s.dim ∧
    OpsAreInvolutions s ∧ DegreesAreMultiples s := by
  by_cases ha : Admitted spec
  · by_cases hb : spec.size * (spec.dim + 1) < allocLimit
    · obtain ⟨inv, hs, hd⟩ := (fromSpec_core spec ha hb).2 s h
      exact ⟨hs, hd, by rw [hs]; exact ha.size_pos, by rw [hd]; exact ha.dim_pos,
        inv.involutions, inv.degrees⟩
    · rw [fromSpec_too_big spec ha hb] at h; cases h
  · rw [fromSpec_not_admitted spec ha] at h; cases h

example : (fromSpec ⟨1, 1, 2, 3, [[2], [1, 2], [1, 2], [2]], [[6], [3, 2], [6]]⟩).isOk = true := by decide

theorem parse_ok_wellformed (cs : List Char) (s : DSymData) (h : parse cs = .ok s) :
    1 ≤ s.size ∧ 1 ≤ s.dim ∧ OpsAreInvolutions s ∧ DegreesAreMultiples s := by
  unfold parse at h
  split at h
  · cases h
  · rename_i spec _
    obtain ⟨_, _, a, b, c, d⟩ := fromSpec_ok_wellformed spec s h
    exact ⟨a, b, c, d⟩

example : (parse "<1.1:2 3:2,1 2,1 2,2:6,3 2,6>".toList).isOk = true := by decide

end DSymVerif.C01
