/-
Property C20 — union-find partitions track exactly the unions performed.

  "After any sequence of unite, find, classes and clone operations on a partition, two elements
   have the same representative exactly when they are connected by the unions applied to that
   instance; a representative is a member of its class and stays the same until a union
   involving that class.  The class listing partitions the queried elements accordingly, in
   first-occurrence order, and a clone evolves independently of its original in both
   directions."

Property theorems only.  They speak about the executable models of `IntPartition`
(`Part.intImpl`: `IntP.find`, `IntP.unite` on a `Forest`) and of the generic `Partition<T>`
(`Part.genImpl`: `GPart.find`, `GPart.unite`), their shared `classes` loop, the instance store and
`run` (Model/Partition.lean, tied to src/util/partitions.rs by the differential check), for ALL
histories — no bound on length, number of instances or elements.

Vocabulary (definitions in Proofs/Partition*.lean, namespace `DSymVerif.PartP`):
  `Conn us a b`      `Relation.EqvGen (fun x y => (x, y) ∈ us) a b`   (Mathlib's equivalence closure)
  `unionsOf ops k`   unions applied to instance k by the history (inherited at clone time)
  `par p x`, `rk r x` parent / rank array reads (own parent / rank 0 outside the arrays)
  `RootOf p x r`     graph of the root walk;  `rootF p x` the root as a function
  `WF f`             forest invariant: |rank| = |parent|, parents in range, rank strictly
                     increasing towards a non-self parent
  `GWF g`            `WF g.forest`, |elements| = |parent|, `index` and `elements` mutually inverse
  `Disturbs op U k a` op is a union on instance k involving the class of a, or a clone into slot k
  `…Stmt I`          the history-level statements (Proofs/PartitionHistory.lean), each quantified
                     over every history `ops`
`Outcome.err` in the model means exactly "loop fuel (max rank + 1) exhausted", `Outcome.panic`
an out-of-range index; `run … = .ok …` therefore says: terminates, never panics.
-/
import DSymVerif.Proofs.PartitionHistory
import DSymVerif.Proofs.PartitionGen
import DSymVerif.Proofs.PartitionSpecOk

namespace DSymVerif.C20
open DSymVerif DSymVerif.Part DSymVerif.PartP

/-! ## 1. the forest invariant `WF` is preserved by every operation -/

theorem wf_new : WF Forest.new := PartP.wf_new

theorem wf_preserved_find {f : Forest} (wf : WF f) (a : Nat) :
    ∃ f' r, IntP.find f a = .ok (f', r) ∧ WF f' := by
  obtain ⟨f', h, wf', _⟩ := int_find_ok wf a
  exact ⟨f', _, h, wf'⟩

theorem wf_preserved_unite {f : Forest} (wf : WF f) (a b : Nat) :
    ∃ f', IntP.unite f a b = .ok f' ∧ WF f' := by
  obtain ⟨f', _, h, wf', _⟩ := int_unite_ok wf a b
  exact ⟨f', h, wf'⟩

theorem wf_preserved_classes {f : Forest} (wf : WF f) (es : List Nat) :
    ∃ f' css, classes intImpl f es = .ok (f', css) ∧ WF f' := by
  obtain ⟨f', h, wf', _⟩ := classes_ok' (I := intImpl) (rep := fun f => rootF f.parent) (P := WF)
    (fun s hs a => by
      obtain ⟨s', h1, h2, h3, _⟩ := int_find_ok hs a
      exact ⟨s', h1, h2, h3⟩) wf es
  exact ⟨f', _, h, wf'⟩

/-- the same three for the generic partition: `GWF` (well-formed forest + consistent interning) -/
theorem gwf_new : GWF GPart.new := PartP.gwf_new

theorem gwf_preserved_find {g : GPart} (h : GWF g) (a : Nat) :
    ∃ g' r, GPart.find g a = .ok (g', r) ∧ GWF g' := by
  obtain ⟨g', h1, h2, _⟩ := g_find_ok h a
  exact ⟨g', _, h1, h2⟩

theorem gwf_preserved_unite {g : GPart} (h : GWF g) (a b : Nat) :
    ∃ g', GPart.unite g a b = .ok g' ∧ GWF g' := by
  obtain ⟨g', _, h1, h2, _⟩ := g_unite_ok h a b
  exact ⟨g', h1, h2⟩

/-- every instance reached by any history (clones included) is well-formed -/
theorem wf_reachable_int (ops : List Op) (k : Nat) :
    ∃ st obs, run intImpl Store.init ops = .ok (st, obs) ∧ WF (st.get intImpl k) := by
  obtain ⟨st, obs, h, inv⟩ := reach int_refines ops
  exact ⟨st, obs, h, (inv k).1⟩

theorem wf_reachable_gen (ops : List Op) (k : Nat) :
    ∃ st obs, run genImpl Store.init ops = .ok (st, obs) ∧ GWF (st.get genImpl k) := by
  obtain ⟨st, obs, h, inv⟩ := reach gen_refines ops
  exact ⟨st, obs, h, (inv k).1⟩

example : WF (extend Forest.new 3) ∧ 3 < (extend Forest.new 3).parent.size :=
  ⟨(extend_spec PartP.wf_new 3).1, (extend_spec PartP.wf_new 3).2.1⟩

/-! ## 2. the root walk terminates: the fuel `max rank + 1` suffices under `WF` -/

/-- both loops of `root_index` on an index in range: never `.err` (fuel), never `.panic` (index) -/
theorem root_terminates {f : Forest} (wf : WF f) {a : Nat} (ha : a < f.parent.size) :
    ∃ f' r, rootWalk f a = .ok (f', r) ∧ RootOf f.parent a r := by
  obtain ⟨p', r, h, _, _, hr, _⟩ := rootWalk_ok wf ha
  exact ⟨_, r, h, hr⟩

/-- `IntPartitionImpl::root_index` on any argument (auto-extension first) -/
theorem root_index_terminates {f : Forest} (wf : WF f) (a : Nat) :
    ∃ f' r, IntP.rootIndex f a = .ok (f', r) ∧ RootOf f.parent a r ∧ a < f'.parent.size := by
  obtain ⟨f', r, h, _, hr, _, _, _, ha⟩ := int_rootIndex_ok wf a
  exact ⟨f', r, h, hr, ha⟩

/-- every element of a well-formed forest has exactly one root -/
theorem root_exists_unique {f : Forest} (wf : WF f) (x : Nat) :
    ∃ r, RootOf f.parent x r ∧ ∀ r', RootOf f.parent x r' → r' = r := by
  obtain ⟨r, h⟩ := exists_root wf x
  exact ⟨r, h, fun r' h' => h'.unique h⟩

/-! ## 3. path compression changes no element's root: `find(&self)` is observationally pure -/

theorem compress_preserves_roots {f : Forest} (wf : WF f) {a : Nat} (ha : a < f.parent.size) :
    ∃ p' r, rootWalk f a = .ok (⟨p', f.rank⟩, r) ∧ WF ⟨p', f.rank⟩ ∧ p'.size = f.parent.size ∧
      ∀ z r', RootOf p' z r' ↔ RootOf f.parent z r' := by
  obtain ⟨p', r, h, wf', hs, _, pres⟩ := rootWalk_ok wf ha
  refine ⟨p', r, h, wf', hs, fun z r' => ⟨fun h' => ?_, pres z r'⟩⟩
  obtain ⟨r0, h0⟩ := exists_root wf z
  have : r' = r0 := h'.unique (pres z r0 h0)
  rw [this]; exact h0

/-- `IntPartition::find`: answers the root, keeps every root and every rank -/
theorem find_preserves_roots {f : Forest} (wf : WF f) (a : Nat) :
    ∃ f', IntP.find f a = .ok (f', rootF f.parent a) ∧
      (∀ z, rootF f'.parent z = rootF f.parent z) ∧ (∀ x, rk f'.rank x = rk f.rank x) := by
  obtain ⟨f', h, _, h1, h2⟩ := int_find_ok wf a
  exact ⟨f', h, h1, h2⟩

theorem find_pure_int : FindPureStmt intImpl := find_pure_of int_refines
theorem find_pure_gen : FindPureStmt genImpl := find_pure_of gen_refines

/-! ## 4. `unite` redirects exactly the two classes to the winner -/

theorem unite_roots {f : Forest} (wf : WF f) (a b : Nat) :
    ∃ f' w, IntP.unite f a b = .ok f' ∧ (w = rootF f.parent a ∨ w = rootF f.parent b) ∧
      ∀ z, rootF f'.parent z =
        if rootF f.parent z = rootF f.parent a ∨ rootF f.parent z = rootF f.parent b then w
        else rootF f.parent z := by
  obtain ⟨f', w, h, _, hw, hr⟩ := int_unite_ok wf a b
  exact ⟨f', w, h, hw, hr⟩

/-- the same at key level for the generic partition (`grep` = `elements[root(index key)]`) -/
theorem unite_roots_gen {g : GPart} (h : GWF g) (a b : Nat) :
    ∃ g' w, GPart.unite g a b = .ok g' ∧ (w = grep g a ∨ w = grep g b) ∧
      ∀ z, grep g' z = if grep g z = grep g a ∨ grep g z = grep g b then w else grep g z := by
  obtain ⟨g', w, h1, _, hw, hr⟩ := g_unite_ok h a b
  exact ⟨g', w, h1, hw, hr⟩

/-- the abstract merge step behind both -/
theorem conn_cons_iff {us : List (Nat × Nat)} {a b u v : Nat} :
    Conn ((a, b) :: us) u v ↔
      Conn us u v ∨ ((Conn us u a ∨ Conn us u b) ∧ (Conn us v a ∨ Conn us v b)) :=
  conn_cons

/-! ## 5. refinement: for every history, same representative ⇔ connected by the unions -/

theorem total_int : TotalStmt intImpl := total_of int_refines
theorem total_gen : TotalStmt genImpl := total_of gen_refines

theorem refinement_int : RefinementStmt intImpl := refinement_of int_refines
theorem refinement_gen : RefinementStmt genImpl := refinement_of gen_refines

theorem rep_member_int : RepMemberStmt intImpl := rep_member_of int_refines
theorem rep_member_gen : RepMemberStmt genImpl := rep_member_of gen_refines

theorem rep_stable_int : RepStableStmt intImpl := rep_stable_of int_refines
theorem rep_stable_gen : RepStableStmt genImpl := rep_stable_of gen_refines

theorem classes_spec_int : ClassesStmt intImpl := classes_of int_refines
theorem classes_spec_gen : ClassesStmt genImpl := classes_of gen_refines

/-- the statements are about something: a concrete history through the model -/
example : (run intImpl Store.init [.unite 0 1 2, .clone 0 1, .unite 1 2 3, .find 0 3, .find 1 3,
    .classes 1 [3, 0, 2, 3]]).toOption.map (·.2)
      = some [.rep 3, .rep 1, .classes [[3, 2, 3], [0]]] := by decide +kernel

example : (run genImpl Store.init [.unite 0 7 5, .clone 0 1, .unite 1 5 9, .find 0 9, .find 1 9,
    .classes 1 [9, 0, 5, 9]]).toOption.map (·.2)
      = some [.rep 9, .rep 7, .classes [[9, 5, 9], [0]]] := by decide +kernel

/-! ## 6. clones are independent in both directions -/

/-- an operation on slot `target op` leaves every other slot's state unchanged — whichever of
    the two is the original and whichever the clone -/
theorem clone_independent {S : Type} (I : Impl S) {st st' : Store S} {op : Op} {o : Option Obs}
    (h : step I st op = .ok (st', o)) (j : Nat) (hj : j ≠ target op) :
    st'.get I j = st.get I j :=
  step_other I h j hj

/-- `clone i j` makes slot `j` a copy of slot `i` and answers nothing -/
theorem clone_copies {S : Type} (I : Impl S) (st : Store S) (i j : Nat) :
    ∃ st', step I st (.clone i j) = .ok (st', none) ∧ st'.get I j = st.get I i ∧
      ∀ l, l ≠ j → st'.get I l = st.get I l := by
  refine ⟨st.set j (st.get I i), rfl, ?_, ?_⟩
  · rw [Store.get_set, if_pos rfl]
  · intro l hl; rw [Store.get_set, if_neg (fun e => hl e.symm)]

/-- the clone inherits the unions of its original; later unions stay with their instance -/
theorem unions_clone (ops : List Op) (U : Nat → List (Nat × Nat)) (i j : Nat) :
    unions (.clone i j :: ops) U = unions ops (fun l => if l = j then U i else U l) := rfl

theorem unions_unite (ops : List Op) (U : Nat → List (Nat × Nat)) (k a b : Nat) :
    unions (.unite k a b :: ops) U = unions ops (fun j => if j = k then (a, b) :: U j else U j) :=
  rfl

example : step intImpl Store.init (.clone 0 1) = .ok (Store.set Store.init 1 Forest.new, none) := rfl

/-! ## 7. the Spec's relabelling oracle decides `Conn` -/

theorem oracle_sound (n : Nat) (us : List (Nat × Nat)) (hus : ∀ p ∈ us, p.1 < n ∧ p.2 < n)
    (u v : Nat) : SpecC20.conn (SpecC20.labels n us) u v = true ↔ Conn us u v := by
  have := (labels_sound n us hus).2.2 u v
  simpa [SpecC20.conn] using this

example : ∀ p ∈ [(0, 1), (2, 1)], p.1 < 3 ∧ p.2 < 3 := by decide

/-- what the Spec's first-occurrence grouping is, for any "same ρ" relation -/
theorem groupFO_spec (ρ : Nat → Nat) (es : List Nat) :
    GroupInv ρ es (SpecC20.groupFO (relOf ρ) es) := groupFO_inv ρ es

/-! ## 8. the Boolean Spec, as the driver evaluates it, accepts every trace of the models

`events ops obs` pairs each operation with the answer it got (the driver's `parseEvents`);
`SpecC20.check` is the function the driver calls on the implementation's answers.  It returns
`none` (no failing clause) on the trace of every history of both models: the Spec demands nothing
beyond what sections 1–6 prove, so it cannot alarm on an implementation that agrees with the
model. -/

theorem spec_accepts_int (ops : List Op) :
    ∃ st obs, run intImpl Store.init ops = .ok (st, obs) ∧
      SpecC20.check (events ops obs) = none ∧ (events ops obs).map evOp = ops :=
  check_accepts int_refines ops

theorem spec_accepts_gen (ops : List Op) :
    ∃ st obs, run genImpl Store.init ops = .ok (st, obs) ∧
      SpecC20.check (events ops obs) = none ∧ (events ops obs).map evOp = ops :=
  check_accepts gen_refines ops

/-- … and it is not the constant `none`: a wrong answer is rejected -/
example : SpecC20.check [.unite 0 0 1, .find 0 0 0, .find 0 1 1] =
    some "connected-elements-same-representative-and-representative-stable" := by decide +kernel

example : SpecC20.check [.unite 0 0 1, .clone 0 1, .unite 1 1 2, .find 0 2 0] =
    some "representative-is-member-of-its-class" := by decide +kernel

example : SpecC20.check [.unite 0 0 1, .classes 0 [1, 2, 0] [[1], [2], [0]]] =
    some "different-classes-not-connected" := by decide +kernel

end DSymVerif.C20
