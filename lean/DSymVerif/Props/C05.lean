/-
Property C05 — every cover constructor returns a genuine covering of the base symbol.
Theorems about the models `DS.buildSet`, `DS.buildSymUsingMs`, `DS.cover`, `DS.asPartialDSym`,
`DS.orientedCover` (Model/DSym.lean) and `Covers.coverForTable` (Model/Covers.lean), for all
sizes, dimensions, sheet numbers and sheet maps.

Vocabulary (defined in the Proofs files, all explicit):
* `ValidSet ds`      — op array of length size·(dim+1), every in-range entry a chamber, every
                       operation an involution (Proofs/DSetBasic.lean)
* `ValidTables s`    — `ValidSet s.dset`, the orbit tables are those of `collect_orbits`, one
                       branching entry per orbit (what `build_sym_using_vs/ms` produce; far
                       operations need NOT commute)
* `SheetCompat ds n σ` — (a) σ(k,i,d) < n and (b) σ(σ(k,i,d), i, op_i d) = k for all sheets
                       k < n, indices i ≤ dim, chambers 1 ≤ d ≤ size (Proofs/CoversSet.lean)
* `cproj sz d = (d-1) % sz + 1`, `csheet sz d = (d - cproj sz d) / sz` — projection and sheet
* `IsLeastPeriod ds i j d r` — r is the least k ≥ 1 with (op_j ∘ op_i)^k d = d (orbit length)
* `s.mVal i b`       — degree m(i,i+1,b) = r·v of a symbol with valid tables
-/
import DSymVerif.Proofs.CoversWitness
import DSymVerif.Proofs.CoversWitness2
import DSymVerif.Proofs.CoversOrientedDeg
import DSymVerif.Proofs.CoversOrientedConn
import DSymVerif.Proofs.CoversMonitors
import DSymVerif.Proofs.CoversWired
import DSymVerif.Proofs.CoversIso
import DSymVerif.Proofs.CoversComplete
import DSymVerif.Proofs.CoversUniversal
import DSymVerif.Proofs.CoversPi1Table
import DSymVerif.Proofs.CoversNoFuel
import DSymVerif.Proofs.DSetExamples

namespace DSymVerif.C05
open DSymVerif.DS DSymVerif.Covers DSymVerif.C05W DSymVerif.CoversP DSymVerif.FG DSymVerif.Cosets
open DSymVerif.LowIndexP

/-! ### 1. `build_set` accepts exactly the involutions -/

/-- If the closure `op`, restricted to `i ≤ dim`, `1 ≤ d ≤ size`, has its images in `1..size`
    and is undone by itself, no assertion of `PartialDSet::new` / `set` fires and the stored
    table is the closure (0 = undefined).  (Shared lemma `DS.buildSet_of_involution`.) -/
theorem build_set_of_involution {size dim : Nat} {op : Nat → Nat → Option Nat}
    (hsize : 1 ≤ size) (hdim : 1 ≤ dim)
    (hrange : ∀ i d e, i ≤ dim → 1 ≤ d → d ≤ size → op i d = some e → 1 ≤ e ∧ e ≤ size)
    (hinvol : ∀ i d e, i ≤ dim → 1 ≤ d → d ≤ size → op i d = some e → op i e = some d) :
    ∃ s, buildSet size dim op = .ok s ∧ s.size = size ∧ s.dim = dim ∧
      s.op.size = size * (dim + 1) ∧
      ∀ i d, i ≤ dim → 1 ≤ d → d ≤ size → s.opU i d = (op i d).getD 0 :=
  buildSet_of_involution hsize hdim hrange hinvol

example : ∃ (op : Nat → Nat → Option Nat), (1 ≤ 1 ∧ 1 ≤ 1) ∧
    (∀ i d e, i ≤ 1 → 1 ≤ d → d ≤ 1 → op i d = some e → 1 ≤ e ∧ e ≤ 1) ∧
    (∀ i d e, i ≤ 1 → 1 ≤ d → d ≤ 1 → op i d = some e → op i e = some d) :=
  ⟨fun _ _ => some 1, ⟨Nat.le_refl _, Nat.le_refl _⟩,
    fun _ _ e _ _ _ h => by cases h; exact ⟨Nat.le_refl _, Nat.le_refl _⟩,
    fun _ d e _ h1 h2 h => by cases h; have : d = 1 := by omega
                              subst this; rfl⟩

/-- Conversely: whenever `build_set` returns, sizes are ≥ 1 and every defined value of the closure
    is a chamber, is stored, and is stored back at its image — a closure that is not an
    involution can never be accepted silently. -/
theorem build_set_ok_only_involutions {size dim : Nat} {op : Nat → Nat → Option Nat} {s : DSetData}
    (h : buildSet size dim op = .ok s) :
    1 ≤ size ∧ 1 ≤ dim ∧ s.size = size ∧ s.dim = dim ∧ s.op.size = size * (dim + 1) ∧
    ∀ i d e, i ≤ dim → 1 ≤ d → d ≤ size → op i d = some e →
      (1 ≤ e ∧ e ≤ size) ∧ s.opU i d = e ∧ s.opU i e = d :=
  buildSet_ok_inv h

example : ∃ s, buildSet 1 1 (fun _ _ => some 1) = .ok s := by
  obtain ⟨s, hs, _⟩ := buildSet_of_involution (size := 1) (dim := 1) (op := fun _ _ => some 1)
    (Nat.le_refl _) (Nat.le_refl _)
    (fun _ _ e _ _ _ h => by cases h; exact ⟨Nat.le_refl _, Nat.le_refl _⟩)
    (fun _ d e _ h1 h2 h => by cases h; have : d = 1 := by omega
                               subst this; rfl)
  exact ⟨s, hs⟩

/-! ### 2. `cover` returns a covering -/

/-- **cover_is_covering.**  For every base symbol `s` with valid tables (complete, involutive,
    tables of `collect_orbits`), every number of sheets `n ≥ 1` and every compatible sheet map σ:
    `cover s n σ` returns (no assertion of `set`, `from_partial`, `set_v` fires, no division by
    zero) a symbol `c` such that
    * `c` has `n·|s|` chambers, the dimension of `s`, valid tables — in particular it is complete
      and every operation is an involution;
    * `op_i(d) = |s|·σ(sheet d, i, π d) + op_i(π d)`, hence π commutes with every operation;
    * every fibre of π has exactly `n` elements;
    * for every adjacent pair (i,i+1) and chamber `d`: `r` is the length of the orbit of `d`,
      `v = m / r` where `m` is the degree of the base at `π d`, and — if `r` divides `m` — the
      degree of `c` at `d` is `m`: all degrees are preserved. -/
theorem cover_is_covering (s : DSymData) (hs : ValidTables s) (hsz : 1 ≤ s.size) (hdim : 1 ≤ s.dim)
    (n : Nat) (hn : 1 ≤ n) (σ : Nat → Nat → Nat → Nat) (hσ : SheetCompat s.dset n σ) :
    ∃ c, cover s n σ = .ok c ∧
      c.size = n * s.size ∧ c.dim = s.dim ∧ ValidTables c ∧ c.dset.isCompletePartial = true ∧
      (∀ i d, i ≤ s.dim → 1 ≤ d → d ≤ n * s.size →
        c.dset.opU i d = s.size * σ (csheet s.size d) i (cproj s.size d) + s.dset.opU i (cproj s.size d)) ∧
      (∀ i d, i ≤ s.dim → 1 ≤ d → d ≤ n * s.size →
        cproj s.size (c.dset.opU i d) = s.dset.opU i (cproj s.size d)) ∧
      (∀ b, 1 ≤ b → b ≤ s.size →
        (((List.range (n * s.size)).map (· + 1)).filter (fun d => decide (cproj s.size d = b))).length = n) ∧
      (∀ i d, i < s.dim → 1 ≤ d → d ≤ n * s.size →
        ∃ r m, IsLeastPeriod c.dset i (i + 1) d r ∧
          s.mPartial i (i + 1) (cproj s.size d) = .ok (some m) ∧
          c.rPartial i (i + 1) d = .ok (some r) ∧
          c.vPartial i (i + 1) d = .ok (some (m / r)) ∧
          (r ∣ m → c.mPartial i (i + 1) d = .ok (some m))) := by
  obtain ⟨c, hc, hsize, hdim', hct, hop, hdeg⟩ := cover_ok s hs hsz hdim hn hσ
  refine ⟨c, hc, hsize, hdim', hct, hct.set.isCompletePartial, hop, ?_, ?_, ?_⟩
  · intro i d hi h1 h2
    rw [hop i d hi h1 h2]
    exact cproj_coverF hs.set hsz hi
  · intro b hb1 hb2
    exact fibre_length hb1 hb2 n
  · intro i d hi h1 h2
    obtain ⟨r, hr, hrp, hvp, hmp⟩ := hdeg i d hi h1 h2
    have hp := cproj_range (d := d) hsz
    refine ⟨r, s.mVal i (cproj s.size d), hr, hs.mPartial_adj hi hp.1 hp.2, hrp, hvp, ?_⟩
    intro hdvd
    rw [hmp, Nat.mul_div_cancel' hdvd]

example : ValidTables sym1 ∧ 1 ≤ sym1.size ∧ 1 ≤ sym1.dim ∧ 1 ≤ 2 ∧ SheetCompat sym1.dset 2 swap2 :=
  ⟨sym1_valid, by decide, by decide, by decide, swap2_compat⟩

/-- If moreover every orbit length of the cover divides the (positive) degree of the base, the
    cover is complete as a symbol: `PartialDSym::is_complete` (all operations defined, every
    branching entry > 0). -/
theorem cover_complete (s : DSymData) (hs : ValidTables s) (hsz : 1 ≤ s.size) (hdim : 1 ≤ s.dim)
    (n : Nat) (hn : 1 ≤ n) (σ : Nat → Nat → Nat → Nat) (hσ : SheetCompat s.dset n σ)
    (c : DSymData) (hc : cover s n σ = .ok c)
    (hdiv : ∀ i d r m, i < s.dim → 1 ≤ d → d ≤ n * s.size →
      c.rPartial i (i + 1) d = .ok (some r) → s.mPartial i (i + 1) (cproj s.size d) = .ok (some m) →
      1 ≤ m ∧ r ∣ m) :
    c.isCompletePartial = true := by
  obtain ⟨c', hc', hsize, hdim', hct, _, _, _, _, hdeg⟩ := cover_is_covering s hs hsz hdim n hn σ hσ
  rw [hc] at hc'
  cases hc'
  unfold DSymData.isCompletePartial
  rw [hct.set.isCompletePartial, Bool.true_and, Array.all_eq_true]
  intro k hk
  have hk' : k < (collectOrbits c.dset).rs.size := by
    rw [← hct.rs_eq, ← hct.vs_size]; exact hk
  obtain ⟨i, x, hi, hx1, hx2, hkx⟩ := collectOrbits_surj hct.set hk'
  have hi' : i < s.dim := by rw [← hdim']; exact hi
  have hx2' : x ≤ n * s.size := by rw [← hsize]; exact hx2
  obtain ⟨r, m, hr, hm, hrp, hvp, _⟩ := hdeg i x hi' hx1 hx2'
  obtain ⟨hm1, hdvd⟩ := hdiv i x r m hi' hx1 hx2' hrp hm
  have hv := hct.vPartial_adj (show i < c.dim from hi) hx1 (show x ≤ c.size from hx2)
  rw [hvp] at hv
  have hkx' : c.ixAt i x = k := by unfold DSymData.ixAt; rw [hct.index_eq]; exact hkx
  rw [hkx'] at hv
  have hval : c.orbitVs.getD k 0 = m / r := by
    have := Option.some.inj (Outcome.ok.inj hv)
    exact this.symm
  have hpos : 0 < m / r := Nat.div_pos (Nat.le_of_dvd (by omega) hdvd) (by have := hr.1; omega)
  have hget : c.orbitVs[k] = c.orbitVs.getD k 0 := by
    rw [Array.getD_eq_getD_getElem?, Array.getElem?_eq_getElem hk]; rfl
  rw [hget, hval]
  exact decide_eq_true hpos

/-! ### 3. a wrong sheet map is never accepted -/

/-- **cover_panics_iff.**  On a base with valid tables and `n ≥ 1` sheets the model of `cover`
    panics exactly when the sheet map violates (a) or (b); it never returns an error value, and
    with a compatible map it returns (`cover_is_covering`). -/
theorem cover_panics_iff (s : DSymData) (hs : ValidTables s) (hsz : 1 ≤ s.size) (hdim : 1 ≤ s.dim)
    (n : Nat) (hn : 1 ≤ n) (σ : Nat → Nat → Nat → Nat) :
    (cover s n σ = .panic ↔ ¬ SheetCompat s.dset n σ) ∧ cover s n σ ≠ .err := by
  refine ⟨cover_panic_iff s hs hsz hdim hn σ, ?_⟩
  intro he
  by_cases hσ : SheetCompat s.dset n σ
  · obtain ⟨c, hc, _⟩ := cover_ok s hs hsz hdim hn hσ
    rw [hc] at he; cases he
  · rw [(cover_panic_iff s hs hsz hdim hn σ).2 hσ] at he; cases he

example : ¬ SheetCompat sym1.dset 2 (fun _ _ _ => 2) := fun h => by
  have := h.range 0 0 1 (by decide) (by decide) (by decide) (by decide)
  omega

/-- zero sheets are rejected (`PartialDSet::new` asserts `size >= 1`) -/
theorem cover_zero_sheets_panics (s : DSymData) (σ : Nat → Nat → Nat → Nat) : cover s 0 σ = .panic :=
  cover_zero_sheets s σ

/-! ### 4. `oriented_cover` -/

/-- **oriented_cover_covering.**  The sheet map used by `oriented_cover` satisfies (a) and (b)
    for *any* sign vector (the test `ori[d] == ori[op_i d]` is symmetric along an edge), so on a
    symbol with valid tables:
    * if `is_oriented()` the result is the symbol itself (`as_partial_dsym`, one sheet);
    * otherwise it is `cover s 2 σ` with a compatible σ — a covering with two sheets in the sense
      of `cover_is_covering`. -/
theorem oriented_cover_covering (s : DSymData) (hs : ValidTables s) (hsz : 1 ≤ s.size) (hdim : 1 ≤ s.dim) :
    SheetCompat s.dset 2 (oriSheetMap s s.view.partialOrientation) ∧
    (s.view.isOriented = true → orientedCover s = .ok s) ∧
    (s.view.isOriented = false →
      orientedCover s = cover s 2 (oriSheetMap s s.view.partialOrientation) ∧
      ∃ c, orientedCover s = .ok c ∧ c.size = 2 * s.size ∧ c.dim = s.dim ∧ ValidTables c ∧
        (∀ i d, i ≤ s.dim → 1 ≤ d → d ≤ 2 * s.size →
          cproj s.size (c.dset.opU i d) = s.dset.opU i (cproj s.size d))) := by
  have hσ := oriSheetMap_compat s hs.set s.view.partialOrientation
  refine ⟨hσ, ?_, ?_⟩
  · intro ho
    rw [orientedCover_eq, if_pos ho]
    exact asPartialDSym_self s hs hsz hdim
  · intro ho
    have he : orientedCover s = cover s 2 (oriSheetMap s s.view.partialOrientation) := by
      rw [orientedCover_eq, if_neg (by rw [ho]; simp)]
    refine ⟨he, ?_⟩
    obtain ⟨c, hc, hsize, hdim', hct, _, _, hproj, _⟩ :=
      cover_is_covering s hs hsz hdim 2 (by decide) _ hσ
    exact ⟨c, by rw [he]; exact hc, hsize, hdim', hct, hproj⟩

example : ValidTables sym1 ∧ 1 ≤ sym1.size ∧ 1 ≤ sym1.dim := ⟨sym1_valid, by decide, by decide⟩

/-- **oriented_cover_oriented.**  On every symbol with valid tables `oriented_cover` returns a
    symbol that `is_oriented()` (no operation fixes a chamber, and `is_weakly_oriented()` — which
    by `isWeaklyOriented_iff` of Proofs/DSetOrient.lean means the chamber graph is bipartite),
    with one sheet if the base is oriented and two otherwise.  (Uses that `partial_orientation`
    signs every chamber: completeness of the traversal.) -/
theorem oriented_cover_oriented (s : DSymData) (hs : ValidTables s) (hsz : 1 ≤ s.size) (hdim : 1 ≤ s.dim) :
    ∃ c, orientedCover s = .ok c ∧ c.view.isOriented = true ∧ c.dim = s.dim ∧
      c.size = (if s.view.isOriented then 1 else 2) * s.size :=
  orientedCover_oriented s hs hsz hdim

/-- **oriented_cover_preserves_degrees.**  For `oriented_cover` the premise of the degree clause
    of `cover_is_covering` always holds: the orbit lengths of the double cover equal those of the
    base (a 2-colouring flips across every edge, so the holonomy of every closed walk
    (op_{i+1} ∘ op_i)^r is trivial).  Hence on a non-oriented base with valid tables the result
    has, at every chamber and adjacent index pair, exactly the `r`, `v` and `m` of the base at the
    projected chamber.  (For an oriented base the result is the base itself.) -/
theorem oriented_cover_preserves_degrees (s : DSymData) (hs : ValidTables s) (hsz : 1 ≤ s.size)
    (hdim : 1 ≤ s.dim) (ho : s.view.isOriented = false) :
    ∃ c, orientedCover s = .ok c ∧ c.size = 2 * s.size ∧ c.dim = s.dim ∧ ValidTables c ∧
      ∀ i d, i < s.dim → 1 ≤ d → d ≤ 2 * s.size →
        c.rPartial i (i + 1) d = s.rPartial i (i + 1) (cproj s.size d) ∧
        c.vPartial i (i + 1) d = s.vPartial i (i + 1) (cproj s.size d) ∧
        c.mPartial i (i + 1) d = s.mPartial i (i + 1) (cproj s.size d) :=
  orientedCover_degrees s hs hsz hdim ho

example : sym1.view.isOriented = false := by decide

/-- **oriented_cover_connected.**  The oriented cover of a connected symbol is connected: for an
    oriented base it is the base; otherwise some edge (possibly a loop) joins two chambers with
    equal `partial_orientation` signs — else the signs would be a proper 2-colouring of a loopless
    graph and the base `is_oriented()` — and the two sheets are joined across it.  (Proof by
    contraposition: if the sheets over chamber 1 were not joined, `sheet + sign` of the unique
    chamber of each fibre in the component of `(0,1)` would 2-colour all edges of the base.) -/
theorem oriented_cover_connected (s : DSymData) (hs : ValidTables s) (hsz : 1 ≤ s.size) (hdim : 1 ≤ s.dim)
    (hconn : s.view.isConnected = true) (oc : DSymData) (hoc : orientedCover s = .ok oc) :
    oc.view.isConnected = true :=
  orientedCover_connected s hs hsz hdim hconn hoc

example : ValidTables sym1 ∧ 1 ≤ sym1.size ∧ 1 ≤ sym1.dim ∧ sym1.view.isConnected = true ∧
    sym1.view.isOriented = false := ⟨sym1_valid, by decide, by decide, by decide +kernel, by decide⟩

/-! ### 5. `cover_for_table` -/

/-- **cover_for_table_compat.**  If the coset table is inverse-consistent with images in range
    (`get(c,g) = r ⇒ r < len ∧ get(r,-g) = c`), the edge words on the two sides of every edge are
    formal inverses of each other — or, on a mirror `op_i d = d` (one word for both sides), the
    word traced twice returns to every row, i.e. the table satisfies the relator `w²` — and no
    `unwrap` in `trace_word` hits `None` (`allTracesDefined`), then the
    sheet map of `cover_for_table` is compatible, the model returns and the result is a covering
    with `table.len()` sheets in the sense of `cover_is_covering`. -/
theorem cover_for_table_compat (s : DSymData) (hs : ValidTables s) (hsz : 1 ≤ s.size) (hdim : 1 ≤ s.dim)
    (t : Covers.Table) (hlen : 1 ≤ t.len) (e2w : EdgeWords)
    (ht : t.InvConsistent) (he : EdgeWordsOk s t e2w) (hd : allTracesDefined s t e2w = true) :
    SheetCompat s.dset t.len (sheetMap t e2w) ∧
    ∃ c, coverForTable s t e2w = .ok c ∧ c.size = t.len * s.size ∧ c.dim = s.dim ∧ ValidTables c ∧
      (∀ i d, i ≤ s.dim → 1 ≤ d → d ≤ t.len * s.size →
        cproj s.size (c.dset.opU i d) = s.dset.opU i (cproj s.size d)) := by
  have hσ := sheetMap_compat s hs.set t e2w ht he hd
  refine ⟨hσ, ?_⟩
  obtain ⟨c, hc, hsize, hdim', hct, _, _, hproj, _⟩ :=
    cover_is_covering s hs hsz hdim t.len hlen _ hσ
  exact ⟨c, by rw [coverForTable_eq_cover hd]; exact hc, hsize, hdim', hct, hproj⟩

/-- the one-row table without generators (trivial group) and no edge words -/
example : (⟨0, #[#[-1]]⟩ : Covers.Table).InvConsistent ∧ EdgeWordsOk sym1 ⟨0, #[#[-1]]⟩ [] ∧
    allTracesDefined sym1 ⟨0, #[#[-1]]⟩ [] = true := by
  refine ⟨?_, ?_, by decide⟩
  · intro c g r hc hg
    exfalso
    have hc0 : c = 0 := by
      have : c < 1 := hc
      omega
    subst hc0
    unfold Covers.Table.get at hg
    rw [if_pos hc] at hg
    simp only at hg
    split at hg
    · cases hg
    · rename_i hcol
      have hcol' : 0 ≤ g := by
        have : (g + ((0 : Nat) : Int)) = g := by simp
        omega
      by_cases hg0 : g = 0
      · subst hg0
        simp at hg
      · have : (g + ((0 : Nat) : Int)).toNat ≥ 1 := by omega
        have hnone : ((#[#[-1]] : Array (Array Int)).getD 0 #[])[(g + ((0 : Nat) : Int)).toNat]? = none := by
          show (#[-1] : Array Int)[(g + ((0 : Nat) : Int)).toNat]? = none
          apply Array.getElem?_eq_none
          show 1 ≤ _
          exact this
        rw [hnone] at hg
        cases hg
  · intro i d _ _ _
    exact Or.inl rfl

/-! ### 5b. the wired models: `covers`, `subgroup_cover`, `finite_universal_cover`

`Covers.covers`, `Covers.subgroupCover`, `Covers.finiteUniversalCover` (Model/CoversWired.lean) are
the compositions  fundamental_group → coset_tables / coset_table → cover_for_table  of the models
of C09, C11, C12.  `IsCoverOf ds c n` (Proofs/CoversWired.lean):  `c` is a valid symbol (complete
D-set, involutions, far operations commute, tables of `collect_orbits`) on `n·|ds|` chambers, `n ≥ 1`,
of the dimension of `ds`; the projection commutes with every operation; the degree `m_ij` of every
chamber equals that of its projection for ALL `i, j`; `c` is `is_complete()` if `ds` is; and `c` is
connected if `ds` is.  The proof goes through the monodromy representation of the textbook
orbifold group of C09 on the rows of a valid table (C11 `Valid`): pairing relators give
compatibility, the 2-orbit relators `walk^v` make `r·v` a period of every chamber of the cover,
tree relators and transitivity of the table give connectedness. -/

/-- **cover_for_table_is_covering.**  The model of `cover_for_table` on the model of `CosetTable`
    itself (`coverForTableC`: its real `get`, including `canon`): for every valid symbol `ds`
    (size, dim ≥ 1), the presentation `f` returned by `fundamental_group(ds)`, every table `tab`
    valid for it (C11 `Valid`: all entries defined and in range, inverse letters inverse, every
    relator closing at every row, every row reachable from row 0) and every model table `t` whose
    `get` shows the entries of `tab` on rows `< t.len()` and letters `±1..±n` (`Shows`):
    `cover_for_table(ds, t, edge_to_word)` returns — no `unwrap` in `trace_word` fails, no assertion
    of `cover` fires — a covering `c` of `ds` in the full sense of `IsCoverOf` with `t.len()` sheets
    (valid symbol on `t.len()·|ds|` chambers, projection commuting with every operation, the degree
    `m_ij` of every chamber that of its projection for all `i, j`, complete if `ds` is, connected
    if `ds` is), with the operations `op_i(sz·k + b) = sz·(k·edge_to_word(b,i)) + op_i b`, and its
    sheet map is the monodromy `rhoT` of the textbook orbifold group on the rows of `tab`. -/
theorem cover_for_table_is_covering (ds : DSymData) (hs : ValidSym ds) (hsz : 1 ≤ ds.size)
    (hdim : 1 ≤ ds.dim) (f : FundGroup) (hf : fundamentalGroup ds = .ok f) (tab : SpecC11.Tab)
    (subs : List (List Int)) (hv : CosetP.Valid tab f.nrGenerators f.relators subs)
    (t : Cosets.Table) (hsh : Shows t tab f.nrGenerators) :
    ∃ c, coverForTableC ds t f.edgeToWord = .ok c ∧ IsCoverOf ds c t.len ∧
      (∀ i d, i ≤ ds.dim → 1 ≤ d → d ≤ t.len * ds.size →
        c.dset.opU i d = coverF ds.dset (sheetMapC t f.edgeToWord) i d) ∧
      Agrees (rhoT hs hdim hf hv) (sheetMapC t f.edgeToWord) :=
  coverForTableC_covering hs hsz hdim hf hv hsh

/-- non-vacuous: for `<1.1:1:1,1,1:3,2>` the coset table of the trivial subgroup (12 rows) is such
    a table (kernel-checked run of the models + C11 `cosetTable_view`) -/
example : ValidSym sym32 ∧ 1 ≤ sym32.size ∧ 1 ≤ sym32.dim ∧
    ∃ (f : FundGroup) (tab : SpecC11.Tab) (t : Cosets.Table),
      fundamentalGroup sym32 = .ok f ∧ CosetP.Valid tab f.nrGenerators f.relators [] ∧
      Shows t tab f.nrGenerators ∧ tab.size = 12 :=
  ⟨sym32_validSym, sym32_base.1, sym32_base.2.1, sym32_table⟩

/-- **table_cover_is_covering.**  For every valid symbol `ds` (size, dim ≥ 1) and every bound `k`
    the model of `covers(ds, k)`, run with enough fuel to exhaust the search tree of
    `coset_tables`, returns — no panic anywhere — exactly one cover per yielded coset table, in
    order, and every one is a covering of `ds` in the sense of `IsCoverOf` (degree-preserving without
    any premise, connected if `ds` is) with `table.len() ≤ max k 1` sheets. -/
theorem table_cover_is_covering (ds : DSymData) (hs : ValidSym ds) (hsz : 1 ≤ ds.size) (hdim : 1 ≤ ds.dim)
    (k fuel : Nat) :
    ∃ f, fundamentalGroup ds = .ok f ∧
      ((BT.dfs (btProblem f.nrGenerators (expandedRelatorSet f.relators) k) (height k)
          (.ok (Cosets.Table.new f.nrGenerators))).length ≤ fuel →
        ∃ cs, Covers.covers ds k fuel = .ok cs ∧
          List.Forall₂ (fun x c => ∃ t, x = Outcome.ok t ∧ coverForTableC ds t f.edgeToWord = .ok c ∧
            IsCoverOf ds c t.len ∧ t.len ≤ max k 1)
            (cosetTables f.nrGenerators f.relators k fuel) cs) :=
  covers_covering hs hsz hdim k fuel

example : ValidSym (DSymData.ofSimple ex2) ∧ 1 ≤ (DSymData.ofSimple ex2).size ∧
    1 ≤ (DSymData.ofSimple ex2).dim := ⟨ex2_validSym, by decide, by decide⟩

/-- **subgroup_cover_is_covering.**  Whenever the model of `subgroup_cover(ds, subgens)` returns
    (Todd–Coxeter may hit its 100 000-row assertion for subgroups of infinite index), with subgroup
    generators over the letters `±1..±n` of the fundamental group, the result is a covering of
    `ds` whose number of sheets is the number of rows of the coset table. -/
theorem subgroup_cover_is_covering (ds : DSymData) (hs : ValidSym ds) (hsz : 1 ≤ ds.size)
    (hdim : 1 ≤ ds.dim) (subgens : List (List Int)) (c : DSymData)
    (hc : subgroupCover ds subgens = .ok c) :
    ∃ f t, fundamentalGroup ds = .ok f ∧ cosetTable f.nrGenerators f.relators subgens = .ok t ∧
      ((∀ w ∈ subgens, ∀ x ∈ w, x ∈ allGensOf f.nrGenerators) → IsCoverOf ds c t.len) :=
  subgroupCover_covering hs hsz hdim subgens hc

/-- non-vacuous: on the complete spherical symbol `<1.1:1:1,1,1:3,2>` (group of order 12) the model
    returns a 6-sheeted cover for the subgroup generated by generator 1 (kernel-checked) -/
example : ValidSym sym32 ∧ 1 ≤ sym32.size ∧ 1 ≤ sym32.dim ∧
    ∃ c, subgroupCover sym32 [[1]] = .ok c ∧ c.size = 6 :=
  ⟨sym32_validSym, sym32_base.1, sym32_base.2.1, sym32_subgroup⟩

/-- **finite_universal_cover_is_covering.**  Whenever the model of `finite_universal_cover(ds)`
    returns, the result is a covering of `ds` (connected if `ds` is) with as many sheets as the
    coset table of the trivial subgroup has rows — by C11 `coset_table_correct` the order of the
    fundamental group. -/
theorem finite_universal_cover_is_covering (ds : DSymData) (hs : ValidSym ds) (hsz : 1 ≤ ds.size)
    (hdim : 1 ≤ ds.dim) (c : DSymData) (hc : finiteUniversalCover ds = .ok c) :
    ∃ f t, fundamentalGroup ds = .ok f ∧ cosetTable f.nrGenerators f.relators [] = .ok t ∧
      IsCoverOf ds c t.len :=
  finiteUniversalCover_covering hs hsz hdim hc

/-- non-vacuous: on the complete spherical symbol `<1.1:1:1,1,1:3,2>` (group of order 12) the model
    returns a 12-sheeted cover (kernel-checked) -/
example : ValidSym sym32 ∧ 1 ≤ sym32.size ∧ 1 ≤ sym32.dim ∧ sym32.view.isConnected = true ∧
    ∃ c, finiteUniversalCover sym32 = .ok c ∧ c.size = 12 :=
  ⟨sym32_validSym, sym32_base.1, sym32_base.2.1, sym32_base.2.2.1, sym32_universal⟩

/-- **covers_one_entry_per_conjugacy_class.**  For every valid symbol and every bound `k` the model
    of `covers(ds, k)` (enough fuel) returns a list `cs` that corresponds entry by entry, in order,
    to the tables yielded by `coset_tables` for the returned presentation `⟨1..n | relators⟩` of the
    fundamental group, such that
    * every entry is the covering (`IsCoverOf`) whose operations are those of its table:
      `op_i(sz·k + b) = sz·(k·edge_to_word(b,i)) + op_i b` (`TableOps`) — so the subgroup the cover
      belongs to (the stabiliser of sheet 0 under the cover's own sheet action) is the stabiliser
      `stab0` of row 0 of the table, and the number of sheets is its index, at most `max k 1`;
    * the subgroups of two entries at different positions are not conjugate;
    * every subgroup of index `1..k` of the presented group is conjugate to the subgroup of an entry.
    I.e. the list has exactly one entry per conjugacy class of subgroups of index at most `k`
    (C12 `cosetTables_subgroup_classes` transported along the entry ↔ table correspondence; the
    returned presentation is the textbook orbifold group by C09 `presents_orbifold_group`). -/
theorem covers_one_entry_per_conjugacy_class (ds : DSymData) (hs : ValidSym ds) (hsz : 1 ≤ ds.size)
    (hdim : 1 ≤ ds.dim) (k fuel : Nat) :
    ∃ f, fundamentalGroup ds = .ok f ∧
      ((BT.dfs (btProblem f.nrGenerators (expandedRelatorSet f.relators) k) (height k)
          (.ok (Cosets.Table.new f.nrGenerators))).length ≤ fuel →
        ∃ cs, Covers.covers ds k fuel = .ok cs ∧
          List.Forall₂ (fun x c => ∃ (t : Cosets.Table) (v : List (List Int))
              (hv : CosetP.Valid (CosetInvP.viewTab v) f.nrGenerators f.relators []),
              x = Outcome.ok t ∧ t.view = .ok v ∧ coverForTableC ds t f.edgeToWord = .ok c ∧
              IsCoverOf ds c (CosetInvP.viewTab v).size ∧
              TableOps ds c f.edgeToWord (CosetInvP.viewTab v) f.nrGenerators ∧
              (CosetP.stab0 hv).index = (CosetInvP.viewTab v).size ∧
              (CosetInvP.viewTab v).size ≤ max k 1)
            (cosetTables f.nrGenerators f.relators k fuel) cs ∧
          (cosetTables f.nrGenerators f.relators k fuel).Pairwise (fun x y =>
            ∀ (t1 t2 : Cosets.Table) (v1 v2 : List (List Int))
              (hv1 : CosetP.Valid (CosetInvP.viewTab v1) f.nrGenerators f.relators [])
              (hv2 : CosetP.Valid (CosetInvP.viewTab v2) f.nrGenerators f.relators []),
              x = .ok t1 → y = .ok t2 → t1.view = .ok v1 → t2.view = .ok v2 →
              ¬ CanonP.SubConj (CosetP.stab0 hv1) (CosetP.stab0 hv2)) ∧
          (∀ H : Subgroup (PresentedGroup (CosetP.relSet f.nrGenerators f.relators)),
            H.index ≠ 0 → H.index ≤ k →
            ∃ (t : Cosets.Table) (v : List (List Int))
              (hv : CosetP.Valid (CosetInvP.viewTab v) f.nrGenerators f.relators []),
              (Outcome.ok t) ∈ cosetTables f.nrGenerators f.relators k fuel ∧ t.view = .ok v ∧
              CanonP.SubConj H (CosetP.stab0 hv))) :=
  covers_classes hs hsz hdim k fuel

example : ValidSym (DSymData.ofSimple ex2) ∧ 1 ≤ (DSymData.ofSimple ex2).size ∧
    1 ≤ (DSymData.ofSimple ex2).dim := ⟨ex2_validSym, by decide, by decide⟩

/-- **covers_pairwise_nonisomorphic.**  On a connected valid symbol no two entries of the model of
    `covers(ds, k)` at different positions are isomorphic as covers of `ds`: there is no injective
    map `φ` of the chambers commuting with the projection and with every operation (`CoverIso`).
    (Such a `φ` is one permutation `Ψ` of the sheets — tree facets act trivially and the base is
    connected — commuting with the action of every facet word, hence with every generator letter
    (C09 `generator_facet_pairs`) and its inverse: an isomorphism of the two coset tables, whose
    stabilisers would be conjugate, contradicting C12.) -/
theorem covers_pairwise_nonisomorphic (ds : DSymData) (hs : ValidSym ds) (hsz : 1 ≤ ds.size)
    (hdim : 1 ≤ ds.dim) (hconn : ds.view.isConnected = true) (k fuel : Nat) :
    ∃ f, fundamentalGroup ds = .ok f ∧
      ((BT.dfs (btProblem f.nrGenerators (expandedRelatorSet f.relators) k) (height k)
          (.ok (Cosets.Table.new f.nrGenerators))).length ≤ fuel →
        ∃ cs, Covers.covers ds k fuel = .ok cs ∧
          cs.Pairwise (fun c1 c2 => ∀ φ, ¬ (c2.size = c1.size ∧ CoverIso ds c1 c2 c1.size φ))) :=
  CoversP.covers_pairwise_nonisomorphic hs hsz hdim hconn k fuel

example : ValidSym (DSymData.ofSimple ex2) ∧ (DSymData.ofSimple ex2).view.isConnected = true :=
  ⟨ex2_validSym, by decide +kernel⟩

/-- **covers_exactly_the_coverings.**  For every connected valid symbol `ds` and every bound `k` the
    list `cs` returned by the model of `covers(ds, k)` (enough fuel) is a complete irredundant system
    of representatives of the connected coverings of `ds` with at most `k` sheets up to isomorphism
    over `ds`, "covering" meaning `IsCoverOf` (valid symbol on `n·|ds|` chambers, projection
    commuting with every operation, all degrees preserved, complete/connected with `ds`):
    * every entry is a connected covering with at most `max k 1` sheets;
    * no two entries at different positions are isomorphic over `ds`;
    * every covering `c` with `j ≤ k` sheets is isomorphic over `ds` (`CoverIso`: injective map of
      the chambers commuting with the projection and with every operation) to an entry.
    Proof of the last part (Proofs/CoversGauge … CoversComplete): the sheets of `c` are renumbered
    chamber by chamber along `spanning_tree(ds)` so that tree facets keep the sheet; the gauged
    sheet permutations of the facets satisfy every relator of the textbook group (pairing: the
    operations of `c` are involutions; tree: by the gauge; 2-orbit walks to the power `v`: the
    degrees of `c` are those of `ds`, so `r·v` is a period of every chamber of `c`), i.e. they are
    a transitive (`c` connected) permutation representation of the orbifold group; transported to
    `⟨1..n | relators⟩` through C09 `presents_orbifold_group` it is a valid coset table with the
    sheets as rows; by C12 `coset_tables_complete` that table is isomorphic to a yielded one, and
    sheet renumbering followed by the table isomorphism is the isomorphism of covers. -/
theorem covers_exactly_the_coverings (ds : DSymData) (hs : ValidSym ds) (hsz : 1 ≤ ds.size)
    (hdim : 1 ≤ ds.dim) (hconn : ds.view.isConnected = true) (k fuel : Nat) :
    ∃ f, fundamentalGroup ds = .ok f ∧
      ((BT.dfs (btProblem f.nrGenerators (expandedRelatorSet f.relators) k) (height k)
          (.ok (Cosets.Table.new f.nrGenerators))).length ≤ fuel →
        ∃ cs, Covers.covers ds k fuel = .ok cs ∧
          (∀ c' ∈ cs, ∃ n, IsCoverOf ds c' n ∧ n ≤ max k 1 ∧ c'.view.isConnected = true) ∧
          cs.Pairwise (fun c1 c2 => ∀ φ, ¬ (c2.size = c1.size ∧ CoverIso ds c1 c2 c1.size φ)) ∧
          (∀ c j, IsCoverOf ds c j → j ≤ k →
            ∃ c' ∈ cs, ∃ φ, c'.size = c.size ∧ CoverIso ds c c' c.size φ)) :=
  covers_exactly hs hsz hdim hconn k fuel

example : ValidSym (DSymData.ofSimple ex2) ∧ (DSymData.ofSimple ex2).view.isConnected = true :=
  ⟨ex2_validSym, by decide +kernel⟩

/-- **finite_universal_cover_trivial_subgroup.**  Whenever the model of `finite_universal_cover(ds)`
    returns `c`, `c` is the covering (`IsCoverOf`, connected if `ds` is) that belongs to the TRIVIAL
    subgroup of the fundamental group: it is the cover of a valid coset table (`TableOps`) whose
    stabiliser of row 0 — the stabiliser of sheet 0 under the sheet action of `c` — is `⊥`
    (C11 soundness `cosetTable_index`), and its number of sheets is the order of the returned
    presentation `⟨1..n | relators⟩` (≅ the textbook orbifold group by C09).  By
    `covers_exactly_the_coverings` (coverings ↔ conjugacy classes of subgroups) this is the universal
    covering.  (That the model of `fundamental_group` applied to `c` itself returns a presentation
    of the trivial group: `finite_universal_cover_simply_connected` below.) -/
theorem finite_universal_cover_trivial_subgroup (ds : DSymData) (hs : ValidSym ds) (hsz : 1 ≤ ds.size)
    (hdim : 1 ≤ ds.dim) (c : DSymData) (hc : finiteUniversalCover ds = .ok c) :
    ∃ (f : FundGroup) (t : Cosets.Table) (v : List (List Int))
      (hv : CosetP.Valid (CosetInvP.viewTab v) f.nrGenerators f.relators []),
      fundamentalGroup ds = .ok f ∧ cosetTable f.nrGenerators f.relators [] = .ok t ∧ t.view = .ok v ∧
      IsCoverOf ds c (CosetInvP.viewTab v).size ∧
      TableOps ds c f.edgeToWord (CosetInvP.viewTab v) f.nrGenerators ∧
      CosetP.stab0 hv = ⊥ ∧
      (CosetInvP.viewTab v).size = Nat.card (PresentedGroup (CosetP.relSet f.nrGenerators f.relators)) :=
  finiteUniversalCover_trivial_subgroup hs hsz hdim hc

/-- non-vacuous: on the complete spherical symbol `<1.1:1:1,1,1:3,2>` (group of order 12) the model
    returns a 12-sheeted cover (kernel-checked) -/
example : ValidSym sym32 ∧ 1 ≤ sym32.size ∧ 1 ≤ sym32.dim ∧ sym32.view.isConnected = true ∧
    ∃ c, finiteUniversalCover sym32 = .ok c ∧ c.size = 12 :=
  ⟨sym32_validSym, sym32_base.1, sym32_base.2.1, sym32_base.2.2.1, sym32_universal⟩

/-! ### 5c. the covering-space correspondence: π1(cover) ≅ stabiliser of a sheet

`FGP.TGroup s` is the textbook orbifold fundamental group of C09 (one generator `xT s d i` per
chamber facet; pairing, spanning-tree and 2-orbit relators); `rhoT` is its monodromy representation
on the rows of a valid coset table of the presentation `fundamental_group` returns
(Proofs/CoversAction.lean: crossing facet `(d,i)` moves row `k` to `k · edge_to_word(d,i)`). -/

/-- **cover_group_is_stabiliser.**  Let `ds` be a connected valid symbol (size, dim ≥ 1), `tab` a
    valid transitive coset table of the presentation returned by `fundamental_group(ds)` and `c` a
    covering of `ds` with `rows(tab)` sheets whose operations are those of the table (`TableOps` —
    what `cover_for_table` builds, see `covers_one_entry_per_conjugacy_class`).  Then the
    projection induces a homomorphism `φ : π1(c) → π1(ds)` of the textbook orbifold groups — the
    generator of facet `(x,i)` of `c` goes to `q(x) · x(π x, i) · q(op_i x)⁻¹`, a conjugate of the
    generator of the projected facet — which is **injective** and whose **range is the stabiliser
    of row 0** under the monodromy representation; so `π1(c) ≃* Stab(row 0)`.
    (Proofs/CoversPi1*.lean: `φ` is defined in a gauge `q` along the spanning tree of `c`; the
    inverse direction is the voltage-graph action of `π1(ds)` on `sheets × π1(c)`, which respects
    the 2-orbit relators because degrees are preserved: the walk round a 2-orbit of `ds` to the
    power `v` lifts to the walk round the 2-orbit of `c` to the power `v_c`.) -/
theorem cover_group_is_stabiliser (ds c : DSymData) (hs : ValidSym ds) (hsz : 1 ≤ ds.size)
    (hdim : 1 ≤ ds.dim) (hconn : ds.view.isConnected = true) (f : FundGroup)
    (hf : fundamentalGroup ds = .ok f) (tab : SpecC11.Tab) (subs : List (List Int))
    (hv : CosetP.Valid tab f.nrGenerators f.relators subs) (cov : IsCoverOf ds c tab.size)
    (hops : TableOps ds c f.edgeToWord tab f.nrGenerators) :
    (∃ (φ : FGP.TGroup c →* FGP.TGroup ds) (q : Nat → FGP.TGroup ds),
      (∀ x i, FGP.FacetR c x i →
        φ (FGP.xT c x i) = q x * FGP.xT ds (cproj ds.size x) i * (q (c.dset.opU i x))⁻¹) ∧
      Function.Injective φ ∧
      φ.range = (MulAction.stabilizer (Equiv.Perm (Fin tab.size)) (⟨0, hv.pos⟩ : Fin tab.size)).comap
        (rhoT hs hdim hf hv)) ∧
    Nonempty (FGP.TGroup c ≃*
      ((MulAction.stabilizer (Equiv.Perm (Fin tab.size)) (⟨0, hv.pos⟩ : Fin tab.size)).comap
        (rhoT hs hdim hf hv))) :=
  ⟨cover_group_iso_stabiliser hs hsz hdim hconn hf hv cov hops,
   cover_group_mulEquiv_stabiliser hs hsz hdim hconn hf hv cov hops⟩

/-- **covers_groups_are_stabilisers.**  For every connected valid symbol and every bound `k`: the
    textbook orbifold group of every entry `c` of the model of `covers(ds, k)` embeds into that of
    `ds` with range the stabiliser of row 0 of the coset table the entry was built from (the tables
    yielded by `coset_tables`, in order) — together with `covers_one_entry_per_conjugacy_class`:
    the groups of the entries are, up to conjugacy, exactly the subgroups of index `≤ k`.
    (This statement has only the base hypotheses; it shows that those of
    `cover_group_is_stabiliser` are met by every entry.) -/
theorem covers_groups_are_stabilisers (ds : DSymData) (hs : ValidSym ds) (hsz : 1 ≤ ds.size)
    (hdim : 1 ≤ ds.dim) (hconn : ds.view.isConnected = true) (k fuel : Nat) :
    ∃ (f : FundGroup) (hf : fundamentalGroup ds = .ok f),
      ((BT.dfs (btProblem f.nrGenerators (expandedRelatorSet f.relators) k) (height k)
          (.ok (Cosets.Table.new f.nrGenerators))).length ≤ fuel →
        ∃ cs, Covers.covers ds k fuel = .ok cs ∧
          List.Forall₂ (fun x c => ∃ (t : Cosets.Table) (v : List (List Int))
              (hv : CosetP.Valid (CosetInvP.viewTab v) f.nrGenerators f.relators []),
              x = Outcome.ok t ∧ t.view = .ok v ∧ coverForTableC ds t f.edgeToWord = .ok c ∧
              ∃ φ : FGP.TGroup c →* FGP.TGroup ds, Function.Injective φ ∧
                φ.range = (MulAction.stabilizer (Equiv.Perm (Fin (CosetInvP.viewTab v).size))
                    (⟨0, hv.pos⟩ : Fin (CosetInvP.viewTab v).size)).comap (rhoT hs hdim hf hv))
            (cosetTables f.nrGenerators f.relators k fuel) cs) :=
  covers_groups hs hsz hdim hconn k fuel

example : ValidSym (DSymData.ofSimple ex2) ∧ 1 ≤ (DSymData.ofSimple ex2).size ∧
    1 ≤ (DSymData.ofSimple ex2).dim ∧ (DSymData.ofSimple ex2).view.isConnected = true :=
  ⟨ex2_validSym, by decide, by decide, by decide +kernel⟩

/-- **finite_universal_cover_simply_connected.**  Whenever the model of
    `finite_universal_cover(ds)` returns `c` for a connected valid symbol, the textbook orbifold
    group of `c` is trivial (it is isomorphic to the stabiliser of row 0 of the coset table of the
    trivial subgroup, which is `⊥`: `finite_universal_cover_trivial_subgroup`), and therefore the
    model of `fundamental_group(c)` returns a presentation of the trivial group
    (C09 `returned_group_is_textbook_group`). -/
theorem finite_universal_cover_simply_connected (ds : DSymData) (hs : ValidSym ds) (hsz : 1 ≤ ds.size)
    (hdim : 1 ≤ ds.dim) (hconn : ds.view.isConnected = true) (c : DSymData)
    (hc : finiteUniversalCover ds = .ok c) :
    (∀ x : FGP.TGroup c, x = 1) ∧
      ∃ fc, fundamentalGroup c = .ok fc ∧ ∀ y : FGP.MGroup fc, y = 1 :=
  finiteUniversalCover_simply_connected hs hsz hdim hconn hc

/-- non-vacuous: on the complete spherical symbol `<1.1:1:1,1,1:3,2>` (group of order 12) the model
    returns a 12-sheeted cover (kernel-checked) -/
example : ValidSym sym32 ∧ 1 ≤ sym32.size ∧ 1 ≤ sym32.dim ∧ sym32.view.isConnected = true ∧
    ∃ c, finiteUniversalCover sym32 = .ok c ∧ c.size = 12 :=
  ⟨sym32_validSym, sym32_base.1, sym32_base.2.1, sym32_base.2.2.1, sym32_universal⟩

/-! ### 5d. `covers` without a fuel hypothesis

`Covers.coversAll ds k` (Model/CoversAll.lean) is the model of `covers(ds, k)` with the search-node
budget of the `coset_tables` model set to `Cosets.searchFuel nr_gens k`, which exceeds the size of
the whole search tree (C12 `coset_tables_fuel_adequate`); `Covers.covers ds k fuel` equals it for
every `fuel ≥ searchFuel` (`covers_fuel_irrelevant`).  The driver runs `coversAll`. -/

/-- the fuel parameter of the model of `covers` is irrelevant from `searchFuel` on -/
theorem covers_fuel_irrelevant (ds : DSymData) (f : FundGroup) (hf : fundamentalGroup ds = .ok f)
    (k fuel : Nat) (h : searchFuel f.nrGenerators k ≤ fuel) :
    Covers.covers ds k fuel = coversAll ds k :=
  covers_more_fuel_same hf k fuel h

example : ∃ f, fundamentalGroup (DSymData.ofSimple ex2) = .ok f := FGP.fundamentalGroup_ok ex2_validSym

/-- **covers_returns_coverings.**  For every valid symbol and every `k` the model of `covers(ds, k)`
    returns — no panic, no budget — a list of coverings of `ds` (`IsCoverOf`) with at most
    `max k 1` sheets. -/
theorem covers_returns_coverings (ds : DSymData) (hs : ValidSym ds) (hsz : 1 ≤ ds.size)
    (hdim : 1 ≤ ds.dim) (k : Nat) :
    ∃ cs, coversAll ds k = .ok cs ∧ ∀ c ∈ cs, ∃ n, IsCoverOf ds c n ∧ n ≤ max k 1 :=
  coversAll_covering hs hsz hdim k

example : ValidSym (DSymData.ofSimple ex2) ∧ 1 ≤ (DSymData.ofSimple ex2).size ∧
    1 ≤ (DSymData.ofSimple ex2).dim := ⟨ex2_validSym, by decide, by decide⟩

/-- **covers_classifies_coverings.**  `covers_exactly_the_coverings` without the fuel hypothesis:
    for every connected valid symbol and every `k`, the list returned by the model of
    `covers(ds, k)` is a complete irredundant system of representatives of the connected coverings
    of `ds` with at most `k` sheets up to isomorphism over `ds` (entries have at most `max k 1`
    sheets: for `k = 0` the library still yields the one-sheeted cover). -/
theorem covers_classifies_coverings (ds : DSymData) (hs : ValidSym ds) (hsz : 1 ≤ ds.size)
    (hdim : 1 ≤ ds.dim) (hconn : ds.view.isConnected = true) (k : Nat) :
    ∃ cs, coversAll ds k = .ok cs ∧
      (∀ c' ∈ cs, ∃ n, IsCoverOf ds c' n ∧ n ≤ max k 1 ∧ c'.view.isConnected = true) ∧
      cs.Pairwise (fun c1 c2 => ∀ φ, ¬ (c2.size = c1.size ∧ CoverIso ds c1 c2 c1.size φ)) ∧
      (∀ c j, IsCoverOf ds c j → j ≤ k →
        ∃ c' ∈ cs, ∃ φ, c'.size = c.size ∧ CoverIso ds c c' c.size φ) :=
  coversAll_exactly hs hsz hdim hconn k

example : ValidSym (DSymData.ofSimple ex2) ∧ (DSymData.ofSimple ex2).view.isConnected = true :=
  ⟨ex2_validSym, by decide +kernel⟩

/-- **covers_classes_and_groups.**  Without fuel, for every connected valid `ds` and every `k`: the
    list `cs` returned by the model of `covers(ds, k)` corresponds entry by entry, in order, to a
    list `vs` of (views of) valid coset tables of the returned presentation such that
    * every entry `c` is the covering of its table (`IsCoverOf`, `TableOps`), its number of sheets
      is the index of the stabiliser of row 0 — at most `max k 1` (for `k = 0` the library still
      yields the one-row table) — and its textbook orbifold group embeds into that of `ds` with
      range that stabiliser (under `rhoT`);
    * the row-0 stabilisers of the tables of two entries at different positions are NOT conjugate;
    * every subgroup of index `1..k` of the presented group is conjugate to the row-0 stabiliser
      of the table of some entry. -/
theorem covers_classes_and_groups (ds : DSymData) (hs : ValidSym ds) (hsz : 1 ≤ ds.size)
    (hdim : 1 ≤ ds.dim) (hconn : ds.view.isConnected = true) (k : Nat) :
    ∃ (f : FundGroup) (hf : fundamentalGroup ds = .ok f) (cs : List DSymData)
      (vs : List (List (List Int))),
      coversAll ds k = .ok cs ∧
      List.Forall₂ (fun v c =>
          ∃ (hv : CosetP.Valid (CosetInvP.viewTab v) f.nrGenerators f.relators []),
          IsCoverOf ds c (CosetInvP.viewTab v).size ∧
          TableOps ds c f.edgeToWord (CosetInvP.viewTab v) f.nrGenerators ∧
          (CosetP.stab0 hv).index = (CosetInvP.viewTab v).size ∧
          (CosetInvP.viewTab v).size ≤ max k 1 ∧
          ∃ φ : FGP.TGroup c →* FGP.TGroup ds, Function.Injective φ ∧
            φ.range = (MulAction.stabilizer (Equiv.Perm (Fin (CosetInvP.viewTab v).size))
                (⟨0, hv.pos⟩ : Fin (CosetInvP.viewTab v).size)).comap (rhoT hs hdim hf hv)) vs cs ∧
      vs.Pairwise (fun v1 v2 =>
        ∀ (hv1 : CosetP.Valid (CosetInvP.viewTab v1) f.nrGenerators f.relators [])
          (hv2 : CosetP.Valid (CosetInvP.viewTab v2) f.nrGenerators f.relators []),
          ¬ CanonP.SubConj (CosetP.stab0 hv1) (CosetP.stab0 hv2)) ∧
      (∀ H : Subgroup (PresentedGroup (CosetP.relSet f.nrGenerators f.relators)),
        H.index ≠ 0 → H.index ≤ k →
        ∃ v ∈ vs, ∃ (hv : CosetP.Valid (CosetInvP.viewTab v) f.nrGenerators f.relators []),
          CanonP.SubConj H (CosetP.stab0 hv)) :=
  coversAll_classes_groups hs hsz hdim hconn k

example : ValidSym (DSymData.ofSimple ex2) ∧ (DSymData.ofSimple ex2).view.isConnected = true :=
  ⟨ex2_validSym, by decide +kernel⟩

/-- every fibre of the projection of an `n`-sheeted cover has exactly `n` chambers -/
theorem cover_fibres (sz b n : Nat) (hb1 : 1 ≤ b) (hb2 : b ≤ sz) :
    (((List.range (n * sz)).map (· + 1)).filter (fun d => decide (cproj sz d = b))).length = n :=
  fibre_length hb1 hb2 n

/-! ### 6. the hypotheses are decidable and are evaluated by the driver on every explored input -/

/-- The Boolean monitors of Model/Covers.lean imply the hypotheses of the theorems above
    (`sheetCompatB` is even equivalent to `SheetCompat`), so "`validTablesB y`,
    `sheetCompatB …`, `invConsistentB t`, `edgeWordsOkB …`, `allTracesDefined …` evaluated to
    true" on a run means the theorems apply to exactly that input. -/
theorem monitors_sound :
    (∀ y, validSymB y = true → ValidSym y) ∧
    (∀ y, validTablesB y = true → ValidTables y) ∧
    (∀ ds n σ, sheetCompatB ds n σ = true ↔ SheetCompat ds n σ) ∧
    (∀ t, invConsistentB t = true → t.InvConsistent) ∧
    (∀ s t e2w, edgeWordsOkB s t e2w = true → EdgeWordsOk s t e2w) :=
  ⟨fun _ h => validSymB_sound h, fun _ h => validTablesB_sound h, fun _ _ _ => sheetCompatB_iff,
   fun _ h => invConsistentB_sound h, fun _ _ _ h => edgeWordsOkB_sound h⟩

example : validTablesB sym1 = true ∧ sheetCompatB sym1.dset 2 swap2 = true ∧
    invConsistentB ⟨0, #[#[-1]]⟩ = true ∧ edgeWordsOkB sym1 ⟨0, #[#[-1]]⟩ [] = true := by decide +kernel

end DSymVerif.C05
